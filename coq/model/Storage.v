(* Model of src/storage.rs (AnnounceStorage).
   [expires] is the expiry queue exactly as in the code (renewal moves the entry
   to the back).  The HashMap<InfoHash, Vec<AnnounceItem>> is represented by one
   list [live] in insertion order: the per-hash vector of the code is the
   sub-list of [live] with that info-hash (push at the end on first insertion,
   order-preserving removal on expiry), and only get-by-key is ever used. *)
From BT Require Import model.Prelude gen.Consts.

Definition item := (N * addr)%type.          (* (info-hash, contact address) *)

Definition item_eqb (x y : item) : bool := (fst x =? fst y) && addr_eqb (snd x) (snd y).

Record store := mkStore {
  expires : list (item * Z);     (* ItemExpiration: key + inserted *)
  live : list item               (* all AnnounceItems, insertion order *)
}.

Definition empty_store : store := mkStore [] [].

Definition max_items : nat := Consts.storage_max_items_stored_nat.
Definition expiration_time : Z := Consts.storage_expiration_time.

Definition is_expired (now : Z) (e : item * Z) : bool :=
  (expiration_time <=? dur_since now (snd e))%Z.

Fixpoint take_while {A} (f : A -> bool) (l : list A) : list A :=
  match l with
  | x :: r => if f x then x :: take_while f r else []
  | [] => []
  end.
Fixpoint drop_while {A} (f : A -> bool) (l : list A) : list A :=
  match l with
  | x :: r => if f x then drop_while f r else l
  | [] => []
  end.

(* remove_expired_items *)
Definition remove_expired (now : Z) (s : store) : store :=
  let gone := take_while (is_expired now) (expires s) in
  mkStore (drop_while (is_expired now) (expires s))
          (fold_left (fun lv e => filter (fun it => negb (item_eqb it (fst e))) lv) gone (live s)).

(* add: returns (accepted?, new store) *)
Definition add (it : item) (now : Z) (s : store) : bool * store :=
  let s1 := remove_expired now s in
  let already := existsb (item_eqb it) (live s1) in
  if already then
    (true, mkStore (filter (fun e => negb (item_eqb (fst e) it)) (expires s1) ++ [(it, now)]) (live s1))
  else if Nat.ltb (length (expires s1)) max_items then
    (true, mkStore (expires s1 ++ [(it, now)]) (live s1 ++ [it]))
  else (false, s1).

(* find: returns (addresses, new store) *)
Definition find (ih : N) (now : Z) (s : store) : list addr * store :=
  let s1 := remove_expired now s in
  (map snd (filter (fun it => fst it =? ih) (live s1)), s1).

(* operations with their time stamps; a history is a list of these *)
Inductive sop := SAdd (it : item) | SFind (ih : N).

Inductive sout := OAdd (ok : bool) | OFind (l : list addr).

Definition sstep (s : store) (o : Z * sop) : store * sout :=
  match snd o with
  | SAdd it => let '(b, s') := add it (fst o) s in (s', OAdd b)
  | SFind ih => let '(l, s') := find ih (fst o) s in (s', OFind l)
  end.

Fixpoint srun (s : store) (ops : list (Z * sop)) : store * list sout :=
  match ops with
  | [] => (s, [])
  | o :: r => let '(s1, x) := sstep s o in let '(s2, xs) := srun s1 r in (s2, x :: xs)
  end.
