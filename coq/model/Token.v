(* Model of src/token.rs (TokenStore).
   A-RNG: every rand::random::<u32>() secret is fresh -- secrets are the
   successive values of a counter.  A-SHA: SHA-1 is injective on the 8/20-byte
   buffers ip||secret -- a token is the symbolic term [TSha ip secret]; byte
   strings that are not such a digest are [TRaw]. *)
From BT Require Import model.Prelude gen.Consts.
Open Scope Z_scope.

Definition ipaddr := (bool * N)%type.      (* (is_v6, address) *)
Definition ip_eqb (a b : ipaddr) : bool := Bool.eqb (fst a) (fst b) && (snd a =? snd b)%N.

Inductive token := TSha (ip : ipaddr) (secret : nat) | TRaw (b : bytes).

Definition token_eqb (x y : token) : bool :=
  match x, y with
  | TSha i s, TSha j r => ip_eqb i j && Nat.eqb s r
  | TRaw a, TRaw b => bytes_eqb a b
  | _, _ => false
  end.

Record tstore := mkT { curr : nat; last : nat; last_refresh : Z; fresh : nat }.

(* TokenStore::new at time t0 *)
Definition tinit (t0 : Z) : tstore := mkT 0 1 t0 2.

Definition refresh_secs : Z := Consts.token_refresh_interval / 1000000000.

(* intervals_passed: diff.as_secs() / REFRESH_INTERVAL.as_secs() *)
Definition intervals (now lr : Z) : Z := (dur_since now lr / 1000000000) / refresh_secs.

Definition refresh_check (now : Z) (s : tstore) : tstore :=
  let n := intervals now (last_refresh s) in
  if n =? 0 then s
  else if n =? 1 then mkT (fresh s) (curr s) now (S (fresh s))
  else mkT (S (fresh s)) (fresh s) now (S (S (fresh s))).

Definition checkout (ip : ipaddr) (now : Z) (s : tstore) : token * tstore :=
  let s' := refresh_check now s in (TSha ip (curr s'), s').

Definition checkin (ip : ipaddr) (tok : token) (now : Z) (s : tstore) : bool * tstore :=
  let s' := refresh_check now s in
  (token_eqb tok (TSha ip (curr s')) || token_eqb tok (TSha ip (last s')), s').

Inductive top := TCheckout (ip : ipaddr) | TCheckin (ip : ipaddr) (tok : token).
Inductive tout := OTok (k : token) | OAcc (b : bool).

Definition tstep (s : tstore) (o : Z * top) : tstore * tout :=
  match snd o with
  | TCheckout ip => let '(k, s') := checkout ip (fst o) s in (s', OTok k)
  | TCheckin ip k => let '(b, s') := checkin ip k (fst o) s in (s', OAcc b)
  end.

Fixpoint trun (s : tstore) (ops : list (Z * top)) : tstore * list tout :=
  match ops with
  | [] => (s, [])
  | o :: r => let '(s1, x) := tstep s o in let '(s2, xs) := trun s1 r in (s2, x :: xs)
  end.
