(* Model of the bencode layer used by btdht:
     - torrust-serde-bencode 0.2.3  src/de.rs  (token reader [parse], [parse_int],
       [parse_bytes_len], [parse_bytes]; sequence/map access; deserialize_any) and
       src/ser.rs (integers, byte strings, lists, dictionaries sorted by key, entries
       whose value serialises to nothing dropped);
     - /repo/src/bencode.rs ([precheck] and [decode] = precheck, then the library
       on the scanned prefix only).
   The decoder side is a state monad over (remaining input, allocation log, maximal
   container depth): every [vec![0u8; len]] of [parse_bytes] is logged BEFORE the
   read that may fail, and every visit_seq/visit_map entered records its depth.
   Recursion over arbitrary values uses explicit fuel; running out of fuel is a
   distinguished outcome [Oof] (shown impossible for the fuel used by the top-level
   functions in proofs/Bencode_Facts.v). *)
From BT Require Import model.Prelude gen.Consts.

(* ---------------------------------------------------------------- values *)
Inductive bvalue :=
| BInt (z : Z)
| BStr (s : bytes)
| BList (l : list bvalue)
| BDict (l : list (bytes * bvalue)).

(* what the library's deserialize_any produces when the visitor buffers everything
   (serde's private [Content]): dictionary keys are arbitrary values *)
Inductive content :=
| CInt (z : Z)
| CStr (s : bytes)
| CList (l : list content)
| CDict (l : list (content * content)).

Fixpoint content_of (v : bvalue) : content :=
  match v with
  | BInt z => CInt z
  | BStr s => CStr s
  | BList l => CList (map content_of l)
  | BDict l => CDict (map (fun kv => (CStr (fst kv), content_of (snd kv))) l)
  end.

Fixpoint bvalue_of (c : content) : option bvalue :=
  match c with
  | CInt z => Some (BInt z)
  | CStr s => Some (BStr s)
  | CList l =>
      option_map BList
        ((fix go (l : list content) : option (list bvalue) :=
            match l with
            | [] => Some []
            | x :: r => match bvalue_of x, go r with
                        | Some v, Some vs => Some (v :: vs)
                        | _, _ => None
                        end
            end) l)
  | CDict l =>
      option_map BDict
        ((fix go (l : list (content * content)) : option (list (bytes * bvalue)) :=
            match l with
            | [] => Some []
            | (CStr k, x) :: r => match bvalue_of x, go r with
                                  | Some v, Some vs => Some ((k, v) :: vs)
                                  | _, _ => None
                                  end
            | _ => None
            end) l)
  end.

(* ---------------------------------------------------------------- ASCII *)
Definition ch_colon : N := 58.   (* ':' *)
Definition ch_minus : N := 45.   (* '-' *)
Definition ch_plus : N := 43.    (* '+' *)
Definition ch_d : N := 100.
Definition ch_e : N := 101.
Definition ch_i : N := 105.
Definition ch_l : N := 108.
Definition is_digit (c : N) : bool := (48 <=? c) && (c <=? 57).

(* ---------------------------------------------------------------- decimal text *)
(* u64/usize::to_string *)
Fixpoint dec_fuel (fuel : nat) (n : N) (acc : bytes) : bytes :=
  match fuel with
  | O => acc
  | S f => if n <? 10 then (48 + n) :: acc
           else dec_fuel f (n / 10) ((48 + n mod 10) :: acc)
  end.
Definition dec_N (n : N) : bytes := dec_fuel (S (N.to_nat (N.log2 n))) n [].
(* i64::to_string *)
Definition dec_Z (z : Z) : bytes :=
  match z with
  | Zneg p => ch_minus :: dec_N (Npos p)
  | _ => dec_N (Z.to_N z)
  end.

(* value of a non-empty all-digit text ([None] otherwise) *)
Fixpoint digits_val_acc (ds : bytes) (acc : N) : option N :=
  match ds with
  | [] => Some acc
  | c :: r => if is_digit c then digits_val_acc r (acc * 10 + (c - 48)) else None
  end.
Definition digits_val (ds : bytes) : option N :=
  match ds with [] => None | _ => digits_val_acc ds 0 end.

(* <usize as FromStr>::from_str on a text that starts with a digit (64-bit target) *)
Definition parse_usize (ds : bytes) : option N :=
  match digits_val ds with
  | Some n => if n <? 2 ^ 64 then Some n else None
  | None => None
  end.

(* <i64 as FromStr>::from_str: optional sign, at least one digit, range checked *)
Definition parse_i64 (ds : bytes) : option Z :=
  match ds with
  | [] => None
  | c :: r =>
    if c =? ch_minus then
      match digits_val r with
      | Some n => if n <=? 2 ^ 63 then Some (- Z.of_N n)%Z else None
      | None => None
      end
    else
      match digits_val (if c =? ch_plus then r else ds) with
      | Some n => if n <? 2 ^ 63 then Some (Z.of_N n) else None
      | None => None
      end
  end.

(* bytes before the first [d] and bytes after it *)
Fixpoint split_at_byte (d : N) (s : bytes) : option (bytes * bytes) :=
  match s with
  | [] => None
  | c :: r => if c =? d then Some ([], r)
              else match split_at_byte d r with
                   | Some (a, b) => Some (c :: a, b)
                   | None => None
                   end
  end.

(* ---------------------------------------------------------------- serialisation *)
Definition ser_str (s : bytes) : bytes := dec_N (N.of_nat (length s)) ++ ch_colon :: s.
Definition ser_int (z : Z) : bytes := ch_i :: dec_Z z ++ [ch_e].

(* order-preserving serialisation of a tree (no sorting) *)
Fixpoint ser (v : bvalue) : bytes :=
  match v with
  | BInt z => ser_int z
  | BStr s => ser_str s
  | BList l => ch_l :: (fix go (l : list bvalue) : bytes :=
                          match l with [] => [] | x :: r => ser x ++ go r end) l ++ [ch_e]
  | BDict l => ch_d :: (fix go (l : list (bytes * bvalue)) : bytes :=
                          match l with [] => [] | kv :: r => (ser_str (fst kv) ++ ser (snd kv)) ++ go r end) l
                       ++ [ch_e]
  end.

(* lexicographic order on byte strings (Vec<u8>::cmp) *)
Fixpoint bytes_ltb (a b : bytes) : bool :=
  match a, b with
  | _, [] => false
  | [], _ :: _ => true
  | x :: a', y :: b' => (x <? y) || ((x =? y) && bytes_ltb a' b')
  end.
Definition bytes_leb (a b : bytes) : bool := negb (bytes_ltb b a).

(* the library's SerializeMap: values are serialised first, entries with an empty
   serialisation are dropped, the rest is stably sorted by key *)
Fixpoint insert_kv {A} (kv : bytes * A) (l : list (bytes * A)) : list (bytes * A) :=
  match l with
  | [] => [kv]
  | x :: r => if bytes_ltb (fst x) (fst kv) then x :: insert_kv kv r else kv :: l
  end.
Fixpoint sort_kv {A} (l : list (bytes * A)) : list (bytes * A) :=
  match l with
  | [] => []
  | x :: r => insert_kv x (sort_kv r)
  end.

Definition ser_entries (l : list (bytes * bytes)) : bytes :=
  flat_map (fun kv => ser_str (fst kv) ++ snd kv) l.

Definition ser_map (entries : list (bytes * bytes)) : bytes :=
  ch_d :: ser_entries (sort_kv (filter (fun kv => negb (match snd kv with [] => true | _ => false end)) entries))
  ++ [ch_e].

(* canonical bencoding: minimal integers and lengths, dictionaries sorted by key *)
Fixpoint canon (v : bvalue) : bytes :=
  match v with
  | BInt z => ser_int z
  | BStr s => ser_str s
  | BList l => ch_l :: (fix go (l : list bvalue) : bytes :=
                          match l with [] => [] | x :: r => canon x ++ go r end) l ++ [ch_e]
  | BDict l => ch_d :: ser_entries (sort_kv
                 ((fix go (l : list (bytes * bvalue)) : list (bytes * bytes) :=
                     match l with [] => [] | kv :: r => (fst kv, canon (snd kv)) :: go r end) l))
               ++ [ch_e]
  end.

(* ---------------------------------------------------------------- decoder monad *)
Inductive token := TInt (z : Z) | TBytes (s : bytes) | TList | TMap | TEnd.

Record st := mkSt {
  s_in : bytes;        (* unread input *)
  s_log : list N;      (* allocation sizes requested so far, oldest first *)
  s_max : nat          (* deepest visit_seq / visit_map nesting entered so far *)
}.

Inductive res (A : Type) := Ok (a : A) | Fail | Oof.
Arguments Ok {A} a.
Arguments Fail {A}.
Arguments Oof {A}.

Definition M (A : Type) := st -> st * res A.

Definition ret {A} (a : A) : M A := fun s => (s, Ok a).
Definition fail {A} : M A := fun s => (s, Fail).
Definition oof {A} : M A := fun s => (s, Oof).
Definition bind {A B} (m : M A) (f : A -> M B) : M B :=
  fun s => match m s with
           | (s', Ok a) => f a s'
           | (s', Fail) => (s', Fail)
           | (s', Oof) => (s', Oof)
           end.
Notation "x <- m ;; f" := (bind m (fun x => f)) (at level 61, m at next level, right associativity).
Notation "m ;;; f" := (bind m (fun _ => f)) (at level 61, right associativity).

Definition set_in (s : st) (i : bytes) : st := mkSt i (s_log s) (s_max s).
Definition add_log (s : st) (n : N) : st := mkSt (s_in s) (s_log s ++ [n]) (s_max s).

(* record that a visit_seq / visit_map at nesting level [d] has been entered *)
Definition enter (d : nat) : M unit :=
  fun s => (mkSt (s_in s) (s_log s) (Nat.max (s_max s) d), Ok tt).

(* Deserializer::parse with the [next] slot empty: read one token.
   - 'i': bytes up to the next 'e' must be i64 text (parse_int);
   - digit: bytes up to ':' must be usize text (parse_bytes_len); then
     [vec![0u8; len]] -- LOGGED -- and only then the read, which fails with
     EndOfStream when fewer than [len] bytes are left (parse_bytes);
   - 'l' 'd' 'e'; anything else is an error; empty input is EndOfStream.
   A failing read leaves the input where it was (the position after a failure is
   never used: every error aborts the whole decode). *)
Definition tok : M token := fun s =>
  match s_in s with
  | [] => (s, Fail)
  | c :: r =>
    if c =? ch_i then
      match split_at_byte ch_e r with
      | None => (s, Fail)
      | Some (ds, r') => match parse_i64 ds with
                         | Some z => (set_in s r', Ok (TInt z))
                         | None => (s, Fail)
                         end
      end
    else if is_digit c then
      match split_at_byte ch_colon r with
      | None => (s, Fail)
      | Some (ds, r') =>
        match parse_usize (c :: ds) with
        | None => (s, Fail)
        | Some len =>
          let s1 := add_log s len in
          if len <=? N.of_nat (length r')
          then (set_in s1 (skipn (N.to_nat len) r'), Ok (TBytes (firstn (N.to_nat len) r')))
          else (s1, Fail)
        end
      end
    else if c =? ch_l then (set_in s r, Ok TList)
    else if c =? ch_d then (set_in s r, Ok TMap)
    else if c =? ch_e then (set_in s r, Ok TEnd)
    else (s, Fail)
  end.

(* deserialize_any with a visitor that accepts and buffers everything (serde's
   ContentVisitor; IgnoredAny reads exactly the same tokens).  [t] is the token
   already taken from the stream (the library's [next] slot); [d] is the number of
   containers the library has open around this value. *)
Fixpoint any_from (fuel : nat) (d : nat) (t : token) {struct fuel} : M content :=
  match fuel with
  | O => oof
  | S f =>
    match t with
    | TInt z => ret (CInt z)
    | TBytes s => ret (CStr s)
    | TList => enter (S d) ;;; l <- any_list f (S d) ;; ret (CList l)
    | TMap => enter (S d) ;;; l <- any_map f (S d) ;; ret (CDict l)
    | TEnd => fail
    end
  end
(* SeqAccess::next_element until End *)
with any_list (fuel : nat) (d : nat) {struct fuel} : M (list content) :=
  match fuel with
  | O => oof
  | S f =>
    t <- tok ;;
    match t with
    | TEnd => ret []
    | _ => x <- any_from f d t ;; xs <- any_list f d ;; ret (x :: xs)
    end
  end
(* MapAccess::next_key until End; next_value = deserialize_any (End is an error) *)
with any_map (fuel : nat) (d : nat) {struct fuel} : M (list (content * content)) :=
  match fuel with
  | O => oof
  | S f =>
    t <- tok ;;
    match t with
    | TEnd => ret []
    | _ => k <- any_from f d t ;;
           tv <- tok ;;
           v <- any_from f d tv ;;
           xs <- any_map f d ;;
           ret ((k, v) :: xs)
    end
  end.

Definition any (fuel : nat) (d : nat) : M content := t <- tok ;; any_from fuel d t.

(* fuel that is always enough for an input of length [n] *)
Definition fuel_for (n : nat) : nat := 2 * n + 4.

Definition init_st (b : bytes) : st := mkSt b [] 0.

(* generic parse of one value off the front of [b]: the tree and the rest *)
Definition parse_value (b : bytes) : option (bvalue * bytes) :=
  match any (fuel_for (length b)) 0 (init_st b) with
  | (s, Ok c) => match bvalue_of c with Some v => Some (v, s_in s) | None => None end
  | _ => None
  end.

(* ---------------------------------------------------------------- precheck *)
Definition max_depth : nat := Consts.bencode_max_depth_nat.

(* /repo/src/bencode.rs [precheck], on the not yet scanned suffix [s] at nesting
   [depth]: [None] = Err; [Some k] = the scan ends [k] bytes into [s] (so the
   function of the source returns [i + k] where [i] is the offset of [s]).
   Fuel: one unit per token. *)
Fixpoint scan (fuel : nat) (depth : nat) (s : bytes) {struct fuel} : option nat :=
  match fuel with
  | O => Some (length s)
  | S f =>
    match s with
    | [] => Some 0%nat                               (* loop ends: Ok(bytes.len()) *)
    | c :: r =>
      (* [after k s' d']: the token took [k] bytes, [s'] follows, depth is now [d']:
         `if depth == 0 { return Ok(min(len, i)) }`, else the loop goes on *)
      let after (k : nat) (s' : bytes) (d' : nat) : option nat :=
        if Nat.eqb d' 0 then Some k
        else option_map (fun n => k + n)%nat (scan f d' s') in
      if c =? ch_i then
        match split_at_byte ch_e r with
        | None => Some (length s)            (* i runs off the end (i = len + 1): min(len, i), or loop exit *)
        | Some (ds, r') => after (S (S (length ds))) r' depth
        end
      else if is_digit c then
        match split_at_byte ch_colon r with
        | None => Some (length s)                          (* truncated length prefix *)
        | Some (ds, r') =>
          match parse_usize (c :: ds) with
          | None => Some (length s)                        (* malformed length prefix *)
          | Some len =>
            if N.of_nat (length r') <? len then None       (* "byte string length exceeds input" *)
            else after (S (S (length ds)) + N.to_nat len)%nat (skipn (N.to_nat len) r') depth
          end
        end
      else if (c =? ch_l) || (c =? ch_d) then
        if Nat.ltb max_depth (S depth) then None           (* "nesting too deep" *)
        else after 1%nat r (S depth)
      else if c =? ch_e then
        match depth with
        | O => Some 1%nat                                  (* stray `e` *)
        | S d' => after 1%nat r d'
        end
      else Some 1%nat                                      (* invalid character *)
    end
  end.

Definition precheck (b : bytes) : option nat := scan (S (length b)) 0 b.
