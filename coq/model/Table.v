(* Model of src/node.rs, src/bucket.rs, src/table.rs (routing table) and of the
   closest-node iterator.  160-bit ids are [N]; xor distance is [N.lxor];
   leading_bit_count a b = 160 - (number of bits of a xor b).
   Every function takes the current time [now] (A-TIME: one clock reading per
   operation). *)
From BT Require Import model.Prelude gen.Consts.
Open Scope Z_scope.

(* ------------------------------------------------------------------ node.rs *)
Inductive status := Bad | Questionable | Good.
Definition status_rank (s : status) : nat := match s with Bad => 0 | Questionable => 1 | Good => 2 end.
Definition status_ltb (a b : status) : bool := Nat.ltb (status_rank a) (status_rank b).
Definition status_eqb (a b : status) : bool := Nat.eqb (status_rank a) (status_rank b).

Record node := mkNode {
  nd_id : N;
  nd_addr : addr;
  last_request : option Z;          (* last query received from it *)
  last_response : option Z;         (* last answer received from it *)
  last_local_request : option Z;    (* last query sent to it *)
  refresh_requests : nat            (* queries sent while not good, since the last good update *)
}.

Definition max_last_seen : Z := Consts.node_max_last_seen.                (* 15 min *)
Definition max_refresh_requests : nat := Consts.node_max_refresh_requests_nat.   (* 2 *)
Definition recently_window : Z := Consts.node_recently_requested.         (* 30 s *)

Definition as_good (id : N) (a : addr) (now : Z) : node := mkNode id a None (Some now) None 0.
Definition as_questionable (id : N) (a : addr) (now : Z) : node :=
  mkNode id a None (Some (now - max_last_seen)) None 0.
Definition as_bad (id : N) (a : addr) : node := mkNode id a None None None 0.

Definition node_status (now : Z) (n : node) : status :=
  match last_response n with
  | None => Bad
  | Some tr =>
      if dur_since now tr <? max_last_seen then Good
      else if Nat.leb max_refresh_requests (refresh_requests n) then Bad
      else match last_request n with
           | Some tq => if dur_since now tq <? max_last_seen then Good else Questionable
           | None => Questionable
           end
  end.

Definition is_pingable (now : Z) (n : node) : bool := negb (status_eqb (node_status now n) Bad).

Definition same_handle (a b : node) : bool := (nd_id a =? nd_id b)%N && addr_eqb (nd_addr a) (nd_addr b).

(* Node::update (handles are equal) *)
Definition node_update (now : Z) (self other : node) : node :=
  match node_status now self, node_status now other with
  | Good, Good => mkNode (nd_id self) (nd_addr self) (last_request self) (last_response other)
                         (last_local_request self) 0
  | Questionable, Good | Bad, Good | Bad, Questionable => other
  | _, _ => self
  end.

Definition local_request (now : Z) (n : node) : node :=
  let n' := mkNode (nd_id n) (nd_addr n) (last_request n) (last_response n) (Some now) (refresh_requests n) in
  if status_eqb (node_status now n') Good then n'
  else mkNode (nd_id n) (nd_addr n) (last_request n) (last_response n) (Some now) (S (refresh_requests n)).

Definition remote_request (now : Z) (n : node) : node :=
  mkNode (nd_id n) (nd_addr n) (Some now) (last_response n) (last_local_request n) (refresh_requests n).

Definition recently_requested_from (now : Z) (n : node) : bool :=
  match last_local_request n with Some t => now <? t + recently_window | None => false end.

(* ---------------------------------------------------------------- bucket.rs *)
Definition bucket := list node.       (* always MAX_BUCKET_SIZE slots *)
Definition bucket_size : nat := Consts.bucket_max_bucket_size_nat.

(* Bucket::new: dummy bad nodes, id 0, 127.0.0.1:0 *)
Definition dummy_node : node := as_bad 0 (mkAddr false 2130706433 0).
Definition new_bucket : bucket := repeat dummy_node bucket_size.

Fixpoint position {A} (f : A -> bool) (l : list A) : option nat :=
  match l with
  | [] => None
  | x :: r => if f x then Some O else option_map S (position f r)
  end.

Fixpoint set_nth {A} (i : nat) (x : A) (l : list A) : list A :=
  match l, i with
  | [], _ => []
  | _ :: r, O => x :: r
  | y :: r, S i' => y :: set_nth i' x r
  end.

(* Bucket::add_node as repaired by the fix: a slot holding no live node is preferred *)
Definition bucket_add (now : Z) (b : bucket) (new : node) : bool * bucket :=
  let ns := node_status now new in
  if status_eqb ns Bad then (true, b)
  else match position (same_handle new) b with
       | Some i => (true, set_nth i (node_update now (nth i b dummy_node) new) b)
       | None =>
           match position (fun n => status_eqb (node_status now n) Bad) b with
           | Some i => (true, set_nth i new b)
           | None =>
               match position (fun n => status_ltb (node_status now n) ns) b with
               | Some i => (true, set_nth i new b)
               | None => (false, b)
               end
           end
       end.

(* the pinned (pre-fix) behaviour, kept for the refutation witness *)
Definition bucket_add_pinned (now : Z) (b : bucket) (new : node) : bool * bucket :=
  let ns := node_status now new in
  if status_eqb ns Bad then (true, b)
  else match position (same_handle new) b with
       | Some i => (true, set_nth i (node_update now (nth i b dummy_node) new) b)
       | None =>
           match position (fun n => status_ltb (node_status now n) ns) b with
           | Some i => (true, set_nth i new b)
           | None => (false, b)
           end
       end.

(* ----------------------------------------------------------------- table.rs *)
Definition max_buckets : nat := Consts.table_max_buckets_nat.     (* 160 *)

Record table := mkTable { buckets : list bucket; local_id : N; routers : list addr }.

Definition new_table (id : N) : table := mkTable [new_bucket] id [].

(* leading_bit_count *)
Definition lcp (a b : N) : nat := (max_buckets - N.to_nat (N.size (N.lxor a b)))%nat.

Definition bucket_placement (num_same_bits num_buckets : nat) : nat :=
  if Nat.leb num_buckets num_same_bits then (num_buckets - 1)%nat else num_same_bits.

Definition can_split (num_buckets idx : nat) : bool :=
  Nat.eqb idx (num_buckets - 1) && negb (Nat.eqb idx (max_buckets - 1)).

Section TableOps.
  Variable add : Z -> bucket -> node -> bool * bucket.     (* bucket_add or bucket_add_pinned *)

  (* add_node / bucket_node / split_bucket are mutually recursive in the code;
     [fuel] bounds the recursion depth (theorem: 2*161+1 is never exhausted). *)
  Fixpoint add_node_f (fuel : nat) (now : Z) (t : table) (n : node) : table :=
    match fuel with
    | O => t
    | S f =>
        if existsb (addr_eqb (nd_addr n)) (routers t) then t
        else if status_eqb (node_status now n) Bad then t
        else
          let same := lcp (local_id t) (nd_id n) in
          if Nat.eqb same max_buckets then t
          else bucket_node_f f now t n same
    end
  with bucket_node_f (fuel : nat) (now : Z) (t : table) (n : node) (same : nat) : table :=
    match fuel with
    | O => t
    | S f =>
        let idx := bucket_placement same (length (buckets t)) in
        let '(ok, b') := add now (nth idx (buckets t) new_bucket) n in
        if ok then mkTable (set_nth idx b' (buckets t)) (local_id t) (routers t)
        else if can_split (length (buckets t)) idx then
          (* split_bucket: pop the last bucket, push two fresh ones, re-add its nodes *)
          let old := nth idx (buckets t) new_bucket in
          let t0 := mkTable (removelast (buckets t) ++ [new_bucket; new_bucket]) (local_id t) (routers t) in
          let t1 := fold_left (fun tt m => add_node_f f now tt m) old t0 in
          bucket_node_f f now t1 n same
        else t
    end.
End TableOps.

Definition table_fuel : nat := 1000.
Definition add_node (now : Z) (t : table) (n : node) : table := add_node_f bucket_add table_fuel now t n.
Definition add_node_pinned (now : Z) (t : table) (n : node) : table := add_node_f bucket_add_pinned table_fuel now t n.

(* add_nodes: the responder as given, the named nodes as questionable *)
Definition add_nodes (now : Z) (t : table) (n : node) (named : list (N * addr)) : table :=
  fold_left (fun tt h => add_node now tt (as_questionable (fst h) (snd h) now)) named (add_node now t n).

Definition bucket_index_for (t : table) (id : N) : nat :=
  let i := lcp (local_id t) id in
  if Nat.ltb i (length (buckets t)) then i else (length (buckets t) - 1)%nat.

(* find_node_mut + apply f to the found node *)
Definition update_node (now : Z) (t : table) (id : N) (a : addr) (f : node -> node) : table :=
  let idx := bucket_index_for t id in
  let b := nth idx (buckets t) [] in
  let h := mkNode id a None None None 0 in
  match position (fun n => is_pingable now n && same_handle h n) b with
  | Some i => mkTable (set_nth idx (set_nth i (f (nth i b dummy_node)) b) (buckets t)) (local_id t) (routers t)
  | None => t
  end.

(* ------------------------------------------------- ClosestNodes (the iterator
   materialised as the list it yields) *)
Definition in_bounds (len : nat) (i : option nat) : bool :=
  match i with Some k => Nat.ltb k len | None => false end.
Definition checked_sub (a b : nat) : option nat := if Nat.ltb a b then None else Some (a - b)%nat.

Definition next_bucket_index (num start curr : nat) : option nat :=
  match Nat.compare curr start with
  | Eq =>
      let right := Some (S start) in let left := checked_sub start 1 in
      if in_bounds num right then right else if in_bounds num left then left else None
  | Gt =>
      let off := (curr - start)%nat in
      let left := checked_sub start off in let right := Some (S curr) in
      if in_bounds num left then left else if in_bounds num right then right else None
  | Lt =>
      let off := S (start - curr) in
      let right := Some (start + off)%nat in let left := checked_sub curr 1 in
      if in_bounds num right then right else if in_bounds num left then left else None
  end.

(* the sequence of bucket indices visited, starting at [start] *)
Fixpoint walk (fuel : nat) (start curr : nat) : list nat :=
  match fuel with
  | O => []
  | S f => curr :: match next_bucket_index max_buckets start curr with
                   | Some nx => walk f start nx
                   | None => []
                   end
  end.
Definition bucket_walk (start : nat) : list nat := walk (S max_buckets) start start.

(* nodes yielded at bucket index i: the sorted bucket i (if it exists and is not the
   assorted last bucket), then the assorted nodes whose ideal index is i *)
Definition closest_nodes (now : Z) (t : table) (target : N) : list node :=
  let bs := buckets t in
  let len := length bs in
  let full := Nat.eqb len max_buckets in
  let sorted := if full then bs else removelast bs in
  let assorted := if full then [] else List.last bs [] in
  flat_map (fun i =>
      filter (is_pingable now) (nth i sorted [])
      ++ filter (fun n => is_pingable now n && Nat.eqb (lcp (local_id t) (nd_id n)) i) assorted)
    (bucket_walk (lcp (local_id t) target)).

(* live nodes of the whole table *)
Definition live_nodes (now : Z) (t : table) : list node :=
  filter (is_pingable now) (concat (buckets t)).

(* load_contacts, num_good_nodes, num_questionable_nodes *)
Definition nodes_with (now : Z) (t : table) (s : status) : list node :=
  filter (fun n => status_eqb (node_status now n) s) (concat (buckets t)).
