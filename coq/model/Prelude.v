(* Common definitions for the btdht model.  Bytes are [N] (< 256 by the
   well-formedness predicates), byte strings are [list N], time is [Z]
   nanoseconds, durations are [Z]. *)
From Coq Require Export Ascii String.
From Coq Require Export ZArith NArith Lia Bool List.
Export ListNotations.
Open Scope N_scope.

Definition byte := N.
Definition bytes := list N.

Definition byte_ok (b : N) : bool := b <? 256.
Definition bytes_ok (l : bytes) : bool := forallb byte_ok l.

(* big-endian number of a byte string *)
Definition be_to_N (l : bytes) : N := fold_left (fun acc b => acc * 256 + b) l 0.

(* big-endian bytes of a number, fixed width *)
Fixpoint N_to_be (width : nat) (x : N) : bytes :=
  match width with
  | O => []
  | S w => (x / 256 ^ N.of_nat w) mod 256 :: N_to_be w x
  end.

Fixpoint list_eqb {A} (eqb : A -> A -> bool) (a b : list A) : bool :=
  match a, b with
  | [], [] => true
  | x :: a', y :: b' => eqb x y && list_eqb eqb a' b'
  | _, _ => false
  end.

Definition bytes_eqb := list_eqb N.eqb.

Lemma list_eqb_spec {A} (eqb : A -> A -> bool)
  (Heq : forall x y, eqb x y = true <-> x = y) :
  forall a b, list_eqb eqb a b = true <-> a = b.
Proof.
  induction a as [|x a IH]; destruct b as [|y b]; cbn; split; intro H;
    try reflexivity; try discriminate.
  - apply andb_true_iff in H as [H1 H2]. apply Heq in H1. apply IH in H2. congruence.
  - inversion H; subst. apply andb_true_iff; split; [apply Heq | apply IH]; reflexivity.
Qed.

Lemma bytes_eqb_eq a b : bytes_eqb a b = true <-> a = b.
Proof. apply list_eqb_spec. intros; apply N.eqb_eq. Qed.

(* ---- hex strings, used by generated case files ---- *)
Definition hex_digit (c : ascii) : N :=
  let n := N_of_ascii c in
  if (48 <=? n) && (n <=? 57) then n - 48
  else if (97 <=? n) && (n <=? 102) then n - 87
  else if (65 <=? n) && (n <=? 70) then n - 55
  else 0.

Fixpoint hex (s : string) : bytes :=
  match s with
  | String a (String b r) => (hex_digit a * 16 + hex_digit b) :: hex r
  | _ => []
  end.

(* indices (from 0) of the elements satisfying [f] *)
Fixpoint find_idx_from {A} (f : A -> bool) (l : list A) (i : N) : list N :=
  match l with
  | [] => []
  | x :: r => if f x then i :: find_idx_from f r (i + 1) else find_idx_from f r (i + 1)
  end.
Definition find_idx {A} (f : A -> bool) (l : list A) : list N := find_idx_from f l 0.

(* ---- socket addresses ---- *)
Record addr := mkAddr { a_v6 : bool; a_ip : N; a_port : N }.

Definition addr_eqb (a b : addr) : bool :=
  Bool.eqb (a_v6 a) (a_v6 b) && (a_ip a =? a_ip b) && (a_port a =? a_port b).

Lemma addr_eqb_eq a b : addr_eqb a b = true <-> a = b.
Proof.
  destruct a as [f1 i1 p1], b as [f2 i2 p2]. unfold addr_eqb. cbn.
  rewrite !andb_true_iff, Bool.eqb_true_iff, !N.eqb_eq. split.
  - intros [[-> ->] ->]. reflexivity.
  - intros E. inversion E. auto.
Qed.

Definition same_family (a b : addr) : bool := Bool.eqb (a_v6 a) (a_v6 b).

(* time: nanoseconds; Instant - Instant saturates at zero (Rust >= 1.60) *)
Open Scope Z_scope.
Definition time := Z.
Definition dur_since (now t : Z) : Z := Z.max 0 (now - t).
Close Scope Z_scope.
