(* Model of the parts of src/action/bootstrap.rs and src/socket.rs that decide whether the bootstrap
   task survives: the contact list of the first round, the registry of pending exchanges keyed by
   (address, transaction id) whose duplicate insertion is an assert! (= panic, which then kills the
   whole node through the handler's assertion on the watch channel), and the back-off. *)
From BT Require Import model.Prelude gen.Consts.
Open Scope Z_scope.

Definition xkey := (addr * bytes)%type.
Definition xkey_eqb (a b : xkey) : bool := addr_eqb (fst a) (fst b) && bytes_eqb (snd a) (snd b).

(* Socket::responded: assert!(self.transactions.insert((from, tid), ..).is_none()) *)
Definition register (reg : list xkey) (k : xkey) : option (list xkey) :=
  if existsb (xkey_eqb k) reg then None else Some (k :: reg).

(* send_to_initial_nodes: one shared transaction id towards every contact *)
Fixpoint register_all (reg : list xkey) (tid : bytes) (contacts : list addr) : option (list xkey) :=
  match contacts with
  | [] => Some reg
  | a :: r => match register reg (a, tid) with
              | Some reg' => register_all reg' tid r
              | None => None
              end
  end.

(* the repaired contact list: the union of the (resolved) routers and the starting nodes *)
Definition union_contacts (routers nodes : list addr) : list addr :=
  routers ++ filter (fun a => negb (existsb (addr_eqb a) routers)) nodes.

(* the pinned one: routers, then starting nodes (each a set on its own) *)
Definition pinned_contacts (routers nodes : list addr) : list addr := routers ++ nodes.

(* calculate_retry_duration: BASE ^ min(attempt + 1, cap) seconds *)
Definition retry_duration (attempt : N) : Z :=
  Consts.bootstrap_backoff_base ^ Z.of_N (N.min (attempt + 1) Consts.bootstrap_backoff_cap_N) * 1000000000.
