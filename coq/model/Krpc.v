(* Model of src/message.rs: KRPC messages, Message::encode, Message::decode.

   decode = precheck (src/bencode.rs), then the serde-derived deserializer of
   RawMessage driven by torrust-serde-bencode on the scanned prefix.  The streamed
   parts (RawMessage, Response, Error, byte strings, enums) read tokens in exactly
   the order the library does, including the quirks that this implies:
     - a struct may be given as a list (positional visit_seq); in Response's
       visit_seq the four `default` fields keep calling next_element after the
       list's `e` was seen;
     - a unit-variant enum (`y`, `q`) given as a dictionary consumes `d` and the
       first key only;
     - every serde_bytes field (t, ids, token, nodes, compact peers) also accepts a
       list of integers 0..255;
     - unknown keys are skipped with any value; keys must be UTF-8 strings;
       duplicate fields are errors; trailing bytes are ignored.
   The query arguments `a` are first buffered (serde Content) and the untagged
   variants are then tried on the buffered tree in source order
   FindNode, AnnouncePeer, GetPeers, Ping.  On the buffered tree no token is read,
   so only success/failure of each attempt matters; each attempt is written as
   "collect the known keys (string keys only, no duplicates), then convert". *)
From BT Require Import model.Prelude gen.Consts.
From BT Require Export model.Utf8 model.Bencode model.Compact.

(* ---------------------------------------------------------------- messages *)
Inductive want := WantV4 | WantV6 | WantBoth.

Inductive request :=
| Ping (id : N)
| FindNode (id target : N) (w : option want)
| GetPeers (id ih : N) (w : option want)
| AnnouncePeer (id ih : N) (port : option N) (token : bytes).

Record response := mkResp {
  r_id : N;
  r_values : list addr;
  r_nodes4 : list nodeh;
  r_nodes6 : list nodeh;
  r_token : option bytes
}.

Inductive body := Req (r : request) | Resp (r : response) | Err (code : N) (text : bytes).

Record msg := mkMsg { m_tid : bytes; m_body : body }.

(* ---------------------------------------------------------------- literals *)
Definition bs (s : string) : bytes := map N_of_ascii (list_ascii_of_string s).

Definition k_t : bytes := Eval compute in bs "t".
Definition k_y : bytes := Eval compute in bs "y".
Definition k_q : bytes := Eval compute in bs "q".
Definition k_a : bytes := Eval compute in bs "a".
Definition k_r : bytes := Eval compute in bs "r".
Definition k_e : bytes := Eval compute in bs "e".
Definition k_id : bytes := Eval compute in bs "id".
Definition k_target : bytes := Eval compute in bs "target".
Definition k_info_hash : bytes := Eval compute in bs "info_hash".
Definition k_want : bytes := Eval compute in bs "want".
Definition k_port : bytes := Eval compute in bs "port".
Definition k_implied_port : bytes := Eval compute in bs "implied_port".
Definition k_token : bytes := Eval compute in bs "token".
Definition k_values : bytes := Eval compute in bs "values".
Definition k_nodes : bytes := Eval compute in bs "nodes".
Definition k_nodes6 : bytes := Eval compute in bs "nodes6".
Definition s_ping : bytes := Eval compute in bs "ping".
Definition s_find_node : bytes := Eval compute in bs "find_node".
Definition s_get_peers : bytes := Eval compute in bs "get_peers".
Definition s_announce_peer : bytes := Eval compute in bs "announce_peer".
Definition s_n4 : bytes := Eval compute in bs "n4".
Definition s_n6 : bytes := Eval compute in bs "n6".

(* ---------------------------------------------------------------- well-formed messages *)
Definition id_ok (x : N) : bool := x <? 2 ^ 160.
Definition addr_ok (a : addr) : bool :=
  (a_ip a <? (if a_v6 a then 2 ^ 128 else 2 ^ 32)) && (a_port a <? 65536).
Definition node_ok (v6 : bool) (n : nodeh) : bool :=
  id_ok (n_id n) && addr_ok (n_addr n) && Bool.eqb (a_v6 (n_addr n)) v6.

Definition request_wf (r : request) : bool :=
  match r with
  | Ping id => id_ok id
  | FindNode id tg _ => id_ok id && id_ok tg
  | GetPeers id ih _ => id_ok id && id_ok ih
  | AnnouncePeer id ih p tk =>
      id_ok id && id_ok ih && (match p with Some x => x <? 65536 | None => true end) && bytes_ok tk
  end.

Definition response_wf (r : response) : bool :=
  id_ok (r_id r) && forallb addr_ok (r_values r)
  && forallb (node_ok false) (r_nodes4 r) && forallb (node_ok true) (r_nodes6 r)
  && (match r_token r with Some tk => bytes_ok tk | None => true end).

(* what the Rust types guarantee plus the one thing they do not (node list family) *)
Definition msg_wf (m : msg) : bool :=
  bytes_ok (m_tid m) &&
  match m_body m with
  | Req r => request_wf r
  | Resp r => response_wf r
  | Err c t => (c <? 256) && bytes_ok t && utf8_valid t
  end.

(* ---------------------------------------------------------------- the BEP 5 / BEP 32 dictionaries (spec) *)
Definition want_tree (w : want) : bvalue :=
  BList (match w with
         | WantV4 => [BStr s_n4]
         | WantV6 => [BStr s_n6]
         | WantBoth => [BStr s_n4; BStr s_n6]
         end).

Definition opt_entry {A} (k : bytes) (f : A -> bvalue) (o : option A) : list (bytes * bvalue) :=
  match o with Some x => [(k, f x)] | None => [] end.

Definition nonempty_entry {A} (k : bytes) (f : list A -> bvalue) (l : list A) : list (bytes * bvalue) :=
  match l with [] => [] | _ => [(k, f l)] end.

(* arguments of a query: BEP 5 (ping, find_node, get_peers, announce_peer), BEP 32 (want) *)
Definition args_entries (r : request) : list (bytes * bvalue) :=
  match r with
  | Ping id => [(k_id, BStr (enc_id id))]
  | FindNode id tg w =>
      [(k_id, BStr (enc_id id)); (k_target, BStr (enc_id tg))] ++ opt_entry k_want want_tree w
  | GetPeers id ih w =>
      [(k_id, BStr (enc_id id)); (k_info_hash, BStr (enc_id ih))] ++ opt_entry k_want want_tree w
  | AnnouncePeer id ih p tk =>
      [(k_id, BStr (enc_id id))]
      ++ (match p with None => [(k_implied_port, BInt 1)] | Some _ => [] end)
      ++ [(k_info_hash, BStr (enc_id ih));
          (k_port, BInt (Z.of_N (match p with Some x => x | None => 0 end)));
          (k_token, BStr tk)]
  end.
Definition args_tree (r : request) : bvalue := BDict (args_entries r).

Definition method_name (r : request) : bytes :=
  match r with
  | Ping _ => s_ping
  | FindNode _ _ _ => s_find_node
  | GetPeers _ _ _ => s_get_peers
  | AnnouncePeer _ _ _ _ => s_announce_peer
  end.

(* return values: id, then (when non-empty / present) nodes, nodes6, token, values *)
Definition resp_entries (r : response) : list (bytes * bvalue) :=
  [(k_id, BStr (enc_id (r_id r)))]
  ++ nonempty_entry k_nodes (fun l => BStr (cat_nodes l)) (r_nodes4 r)
  ++ nonempty_entry k_nodes6 (fun l => BStr (cat_nodes l)) (r_nodes6 r)
  ++ opt_entry k_token BStr (r_token r)
  ++ nonempty_entry k_values (fun l => BList (map (fun a => BStr (enc_addr a)) l)) (r_values r).
Definition resp_tree (r : response) : bvalue := BDict (resp_entries r).

(* the top-level dictionary, given the tree of the body *)
Definition top_entries (tid : bytes) (b : body) (sub : bvalue) : list (bytes * bvalue) :=
  match b with
  | Req r => [(k_a, sub); (k_q, BStr (method_name r)); (k_t, BStr tid); (k_y, BStr k_q)]
  | Resp _ => [(k_r, sub); (k_t, BStr tid); (k_y, BStr k_r)]
  | Err _ _ => [(k_e, sub); (k_t, BStr tid); (k_y, BStr k_e)]
  end.

Definition body_tree (b : body) : bvalue :=
  match b with
  | Req r => args_tree r
  | Resp r => resp_tree r
  | Err c t => BList [BInt (Z.of_N c); BStr t]
  end.

Definition tree_of_msg (m : msg) : bvalue := BDict (top_entries (m_tid m) (m_body m) (body_tree (m_body m))).

(* byte strings short enough for a length prefix (any Rust Vec is): tid, token, text, node strings *)
Definition msg_small (m : msg) : bool :=
  (N.of_nat (length (m_tid m)) <? 2 ^ 64) &&
  match m_body m with
  | Req (AnnouncePeer _ _ _ tk) => N.of_nat (length tk) <? 2 ^ 64
  | Req _ => true
  | Resp r => (N.of_nat (length (r_nodes4 r)) <? 2 ^ 58) && (N.of_nat (length (r_nodes6 r)) <? 2 ^ 58)
              && (match r_token r with Some tk => N.of_nat (length tk) <? 2 ^ 64 | None => true end)
  | Err _ t => N.of_nat (length t) <? 2 ^ 64
  end.

(* ---------------------------------------------------------------- Message::encode *)
(* Each struct hands its fields to the library in declaration order (skipping the
   skip_serializing_if ones); [ser_map] drops empty values (None) and sorts. *)
Definition enc_want (w : want) : bytes :=
  ch_l :: (match w with WantV4 | WantBoth => ser_str s_n4 | _ => [] end)
       ++ (match w with WantV6 | WantBoth => ser_str s_n6 | _ => [] end) ++ [ch_e].

Definition enc_u (n : N) : bytes := ch_i :: dec_N n ++ [ch_e].     (* serialize_u64 *)

Definition enc_request (r : request) : bytes :=
  match r with
  | Ping id => ser_map [(k_id, ser_str (enc_id id))]
  | FindNode id tg w =>
      ser_map ([(k_id, ser_str (enc_id id)); (k_target, ser_str (enc_id tg))]
               ++ match w with Some x => [(k_want, enc_want x)] | None => [] end)
  | GetPeers id ih w =>
      ser_map ([(k_id, ser_str (enc_id id)); (k_info_hash, ser_str (enc_id ih))]
               ++ match w with Some x => [(k_want, enc_want x)] | None => [] end)
  | AnnouncePeer id ih p tk =>
      (* id, info_hash, flattened Wrapper { port, implied_port (skipped when false) }, token *)
      ser_map ([(k_id, ser_str (enc_id id)); (k_info_hash, ser_str (enc_id ih));
                (k_port, enc_u (match p with Some x => x | None => 0 end))]
               ++ (match p with None => [(k_implied_port, ser_int 1)] | Some _ => [] end)
               ++ [(k_token, ser_str tk)])
  end.

Definition enc_response (r : response) : option bytes :=
  match enc_nodes false (r_nodes4 r), enc_nodes true (r_nodes6 r) with
  | Some n4, Some n6 =>
    Some (ser_map ([(k_id, ser_str (enc_id (r_id r)))]
                   ++ (match r_values r with
                       | [] => []
                       | l => [(k_values, ch_l :: flat_map (fun a => ser_str (enc_addr a)) l ++ [ch_e])]
                       end)
                   ++ (match r_nodes4 r with [] => [] | _ => [(k_nodes, ser_str n4)] end)
                   ++ (match r_nodes6 r with [] => [] | _ => [(k_nodes6, ser_str n6)] end)
                   ++ (match r_token r with Some tk => [(k_token, ser_str tk)] | None => [] end)))
  | _, _ => None
  end.

Definition enc_error (c : N) (t : bytes) : bytes := ch_l :: enc_u c ++ ser_str t ++ [ch_e].

(* RawMessage { t, y, q, a, r, e }: absent Options serialise to nothing and are dropped *)
Definition encode_msg (m : msg) : option bytes :=
  let raw (y : bytes) (q a r e : bytes) :=
    ser_map [(k_t, ser_str (m_tid m)); (k_y, ser_str y); (k_q, q); (k_a, a); (k_r, r); (k_e, e)] in
  match m_body m with
  | Req rq => Some (raw k_q (ser_str (method_name rq)) (enc_request rq) [] [])
  | Resp rs => match enc_response rs with
               | Some r => Some (raw k_r [] [] r [])
               | None => None
               end
  | Err c t => Some (raw k_e [] [] [] (enc_error c t))
  end.

(* ---------------------------------------------------------------- decoding: streamed parts *)
(* serde_bytes (ByteBuf / Cow<[u8]>) elements of a list form: u8 each, until End *)
Fixpoint u8_loop (fuel : nat) : M bytes :=
  match fuel with
  | O => oof
  | S f =>
    t <- tok ;;
    match t with
    | TEnd => ret []
    | TInt z => if (0 <=? z)%Z && (z <=? 255)%Z
                then r <- u8_loop f ;; ret (Z.to_N z :: r)
                else fail
    | _ => fail
    end
  end.

(* a byte-string field whose first token is [t]: a string, or a list of u8 *)
Definition bytes_from (F d : nat) (t : token) : M bytes :=
  match t with
  | TBytes s => ret s
  | TList => enter (S d) ;;; u8_loop F
  | _ => fail
  end.

Definition lift {A} (o : option A) : M A := match o with Some a => ret a | None => fail end.

Definition id_from (F d : nat) (t : token) : M N := s <- bytes_from F d t ;; lift (dec_id s).

(* deserialize_str: a string token holding valid UTF-8 *)
Definition str_from (t : token) : M bytes :=
  match t with
  | TBytes s => if utf8_valid s then ret s else fail
  | _ => fail
  end.

(* a unit-variant enum: the variant name as a string, or -- quirk -- `d` + name with
   nothing else consumed *)
Definition enum_from {A} (variants : list (bytes * A)) (t : token) : M A :=
  let pick (s : bytes) : M A :=
    match find (fun kv => bytes_eqb s (fst kv)) variants with
    | Some kv => ret (snd kv)
    | None => fail
    end in
  match t with
  | TBytes s => pick s
  | TMap => t' <- tok ;; match t' with TBytes s => pick s | _ => fail end
  | _ => fail
  end.

(* compact::values: a list of 6- or 18-byte strings *)
Fixpoint values_loop (fuel F d : nat) : M (list addr) :=
  match fuel with
  | O => oof
  | S f =>
    t <- tok ;;
    match t with
    | TEnd => ret []
    | _ => s <- bytes_from F d t ;; a <- lift (dec_addr s) ;; r <- values_loop f F d ;; ret (a :: r)
    end
  end.
Definition values_from (F d : nat) (t : token) : M (list addr) :=
  match t with
  | TList => enter (S d) ;;; values_loop F F (S d)
  | _ => fail
  end.

Definition nodes_from (v6 : bool) (F d : nat) (t : token) : M (list nodeh) :=
  s <- bytes_from F d t ;; lift (dec_nodes v6 s).

(* --- Response --- *)
Record resp_acc := mkRA {
  ra_id : option N; ra_values : option (list addr);
  ra_nodes : option (list nodeh); ra_nodes6 : option (list nodeh);
  ra_token : option bytes
}.
Definition ra_empty : resp_acc := mkRA None None None None None.

Definition is_some {A} (o : option A) : bool := match o with Some _ => true | None => false end.
Definition or_default {A} (o : option (list A)) : list A := match o with Some l => l | None => [] end.

(* derived visit_map of Response; [d] = depth of this dictionary *)
Fixpoint resp_map_loop (fuel F d : nat) (acc : resp_acc) : M resp_acc :=
  match fuel with
  | O => oof
  | S f =>
    tk <- tok ;;
    match tk with
    | TEnd => ret acc
    | _ =>
      k <- str_from tk ;;
      if bytes_eqb k k_id then
        if is_some (ra_id acc) then fail
        else t <- tok ;; x <- id_from F d t ;;
             resp_map_loop f F d (mkRA (Some x) (ra_values acc) (ra_nodes acc) (ra_nodes6 acc) (ra_token acc))
      else if bytes_eqb k k_values then
        if is_some (ra_values acc) then fail
        else t <- tok ;; x <- values_from F d t ;;
             resp_map_loop f F d (mkRA (ra_id acc) (Some x) (ra_nodes acc) (ra_nodes6 acc) (ra_token acc))
      else if bytes_eqb k k_nodes then
        if is_some (ra_nodes acc) then fail
        else t <- tok ;; x <- nodes_from false F d t ;;
             resp_map_loop f F d (mkRA (ra_id acc) (ra_values acc) (Some x) (ra_nodes6 acc) (ra_token acc))
      else if bytes_eqb k k_nodes6 then
        if is_some (ra_nodes6 acc) then fail
        else t <- tok ;; x <- nodes_from true F d t ;;
             resp_map_loop f F d (mkRA (ra_id acc) (ra_values acc) (ra_nodes acc) (Some x) (ra_token acc))
      else if bytes_eqb k k_token then
        if is_some (ra_token acc) then fail
        else t <- tok ;; x <- bytes_from F d t ;;
             resp_map_loop f F d (mkRA (ra_id acc) (ra_values acc) (ra_nodes acc) (ra_nodes6 acc) (Some x))
      else any F d ;;; resp_map_loop f F d acc
    end
  end.

Definition resp_finish (acc : resp_acc) : M response :=
  match ra_id acc with
  | Some x => ret (mkResp x (or_default (ra_values acc)) (or_default (ra_nodes acc))
                          (or_default (ra_nodes6 acc)) (ra_token acc))
  | None => fail
  end.

(* derived visit_seq of Response: id is required; values, nodes, nodes6, token have
   `default`, and next_element is called for each of them even after End was seen *)
Definition resp_seq (F d : nat) : M response :=
  t1 <- tok ;;
  match t1 with
  | TEnd => fail
  | _ =>
    x <- id_from F d t1 ;;
    t2 <- tok ;;
    vs <- (match t2 with TEnd => ret [] | _ => values_from F d t2 end) ;;
    t3 <- tok ;;
    n4 <- (match t3 with TEnd => ret [] | _ => nodes_from false F d t3 end) ;;
    t4 <- tok ;;
    n6 <- (match t4 with TEnd => ret [] | _ => nodes_from true F d t4 end) ;;
    t5 <- tok ;;
    tk <- (match t5 with TEnd => ret None | _ => s <- bytes_from F d t5 ;; ret (Some s) end) ;;
    ret (mkResp x vs n4 n6 tk)
  end.

(* [d] = number of containers open around the response value *)
Definition resp_from (F d : nat) (t : token) : M response :=
  match t with
  | TMap => enter (S d) ;;; acc <- resp_map_loop F F (S d) ra_empty ;; resp_finish acc
  | TList => enter (S d) ;;; resp_seq F (S d)
  | _ => fail
  end.

(* --- Error: a list of exactly [u8, String] --- *)
Definition err_from (F d : nat) (t : token) : M (N * bytes) :=
  match t with
  | TList =>
    enter (S d) ;;;
    t1 <- tok ;;
    c <- (match t1 with
          | TInt z => if (0 <=? z)%Z && (z <=? 255)%Z then ret (Z.to_N z) else fail
          | _ => fail
          end) ;;
    t2 <- tok ;;
    m <- (match t2 with TEnd => fail | _ => str_from t2 end) ;;
    t3 <- tok ;;
    match t3 with
    | TEnd => ret (c, m)
    | _ => any_from F (S d) t3 ;;; fail          (* a third element is read, then rejected *)
    end
  | _ => fail
  end.

(* ---------------------------------------------------------------- decoding: buffered query arguments *)
Fixpoint u8s (l : list content) : option bytes :=
  match l with
  | [] => Some []
  | CInt z :: r => if (0 <=? z)%Z && (z <=? 255)%Z
                   then option_map (cons (Z.to_N z)) (u8s r) else None
  | _ => None
  end.

(* ByteBuf from a buffered value *)
Definition c_bytes (c : content) : option bytes :=
  match c with
  | CStr s => Some s
  | CList l => u8s l
  | _ => None
  end.

Definition c_id (c : content) : option N :=
  match c_bytes c with Some s => dec_id s | None => None end.

Definition want_step (v : option want) (cps : list N) : option want :=
  let s := trim cps in
  let is4 := list_eqb N.eqb s [110; 52] || list_eqb N.eqb s [78; 52] in    (* n4 N4 *)
  let is6 := list_eqb N.eqb s [110; 54] || list_eqb N.eqb s [78; 54] in    (* n6 N6 *)
  match v with
  | None => if is4 then Some WantV4 else if is6 then Some WantV6 else None
  | Some WantV4 => if is6 then Some WantBoth else v
  | Some WantV6 => if is4 then Some WantBoth else v
  | Some WantBoth => v
  end.

(* want::deserialize: a list of UTF-8 strings *)
Fixpoint want_fold (l : list content) (v : option want) : option (option want) :=
  match l with
  | [] => Some v
  | CStr s :: r => match utf8_decode s with
                   | Some cps => want_fold r (want_step v cps)
                   | None => None
                   end
  | _ => None
  end.
Definition c_want (c : content) : option (option want) :=
  match c with CList l => want_fold l None | _ => None end.

(* the key loop of a derived visit_map on a buffered dictionary: string keys only,
   a known key at most once; returns the known entries in order of appearance *)
Fixpoint collect (known : list bytes) (es : list (content * content)) (acc : list (bytes * content))
  : option (list (bytes * content)) :=
  match es with
  | [] => Some acc
  | (CStr k, v) :: r =>
      if existsb (bytes_eqb k) known
      then if existsb (fun kv => bytes_eqb k (fst kv)) acc then None
           else collect known r (acc ++ [(k, v)])
      else collect known r acc
  | _ => None
  end.

Definition field (k : bytes) (fs : list (bytes * content)) : option content :=
  match find (fun kv => bytes_eqb k (fst kv)) fs with
  | Some kv => Some (snd kv)
  | None => None
  end.

Definition req_field {A} (k : bytes) (conv : content -> option A) (fs : list (bytes * content)) : option A :=
  match field k fs with Some c => conv c | None => None end.

(* a field with `default`: absent => default, present => must convert *)
Definition opt_field {A} (k : bytes) (conv : content -> option A) (dflt : A) (fs : list (bytes * content))
  : option A :=
  match field k fs with Some c => conv c | None => Some dflt end.

Definition c_u16 (c : content) : option N :=
  match c with CInt z => if (0 <=? z)%Z && (z <=? 65535)%Z then Some (Z.to_N z) else None | _ => None end.
(* port::deserialize_bool: a u8, true iff > 0 *)
Definition c_u8_bool (c : content) : option bool :=
  match c with CInt z => if (0 <=? z)%Z && (z <=? 255)%Z then Some (0 <? z)%Z else None | _ => None end.

Definition find_node_of (c : content) : option request :=
  match c with
  | CDict es =>
    match collect [k_id; k_target; k_want] es [] with
    | Some fs =>
      match req_field k_id c_id fs, req_field k_target c_id fs, opt_field k_want c_want None fs with
      | Some i, Some t, Some w => Some (FindNode i t w)
      | _, _, _ => None
      end
    | None => None
    end
  | CList [a; b] =>
    match c_id a, c_id b with Some i, Some t => Some (FindNode i t None) | _, _ => None end
  | CList [a; b; w] =>
    match c_id a, c_id b, c_want w with Some i, Some t, Some w' => Some (FindNode i t w') | _, _, _ => None end
  | _ => None
  end.

Definition get_peers_of (c : content) : option request :=
  match c with
  | CDict es =>
    match collect [k_id; k_info_hash; k_want] es [] with
    | Some fs =>
      match req_field k_id c_id fs, req_field k_info_hash c_id fs, opt_field k_want c_want None fs with
      | Some i, Some h, Some w => Some (GetPeers i h w)
      | _, _, _ => None
      end
    | None => None
    end
  | CList [a; b] =>
    match c_id a, c_id b with Some i, Some h => Some (GetPeers i h None) | _, _ => None end
  | CList [a; b; w] =>
    match c_id a, c_id b, c_want w with Some i, Some h, Some w' => Some (GetPeers i h w') | _, _, _ => None end
  | _ => None
  end.

Definition ping_of (c : content) : option request :=
  match c with
  | CDict es =>
    match collect [k_id] es [] with
    | Some fs => match req_field k_id c_id fs with Some i => Some (Ping i) | None => None end
    | None => None
    end
  | CList [a] => match c_id a with Some i => Some (Ping i) | None => None end
  | _ => None
  end.

(* has a flattened field: dictionary form only; the keys other than id, info_hash,
   token are handed to port::Wrapper { port: u16, implied_port: u8 > 0 (default false) } *)
Definition announce_of (c : content) : option request :=
  match c with
  | CDict es =>
    match collect [k_id; k_info_hash; k_token] es [], collect [k_port; k_implied_port] es [] with
    | Some fs, Some ws =>
      match req_field k_id c_id fs, req_field k_info_hash c_id fs, req_field k_token c_bytes fs,
            req_field k_port c_u16 ws, opt_field k_implied_port c_u8_bool false ws with
      | Some i, Some h, Some tk, Some p, Some imp =>
          Some (AnnouncePeer i h (if imp then None else Some p) tk)
      | _, _, _, _, _ => None
      end
    | _, _ => None
    end
  | _ => None
  end.

(* #[serde(untagged)] enum Request, variants in source order *)
Definition request_of (c : content) : option request :=
  match find_node_of c with
  | Some r => Some r
  | None =>
    match announce_of c with
    | Some r => Some r
    | None =>
      match get_peers_of c with
      | Some r => Some r
      | None => ping_of c
      end
    end
  end.

Definition request_from (F d : nat) (t : token) : M request :=
  c <- any_from F d t ;; lift (request_of c).

(* ---------------------------------------------------------------- decoding: RawMessage *)
Inductive mtype := YQ | YR | YE.
Inductive rtype := QPing | QFindNode | QGetPeers | QAnnouncePeer.

Definition mtype_variants : list (bytes * mtype) := [(k_q, YQ); (k_r, YR); (k_e, YE)].
Definition rtype_variants : list (bytes * rtype) :=
  [(s_ping, QPing); (s_find_node, QFindNode); (s_get_peers, QGetPeers); (s_announce_peer, QAnnouncePeer)].

Record raw := mkRaw {
  w_t : option bytes; w_y : option mtype; w_q : option rtype;
  w_a : option request; w_r : option response; w_e : option (N * bytes)
}.
Definition raw_empty : raw := mkRaw None None None None None None.

(* derived visit_map of RawMessage (depth 1) *)
Fixpoint raw_map_loop (fuel F : nat) (acc : raw) : M raw :=
  match fuel with
  | O => oof
  | S f =>
    tk <- tok ;;
    match tk with
    | TEnd => ret acc
    | _ =>
      k <- str_from tk ;;
      if bytes_eqb k k_t then
        if is_some (w_t acc) then fail
        else t <- tok ;; x <- bytes_from F 1 t ;;
             raw_map_loop f F (mkRaw (Some x) (w_y acc) (w_q acc) (w_a acc) (w_r acc) (w_e acc))
      else if bytes_eqb k k_y then
        if is_some (w_y acc) then fail
        else t <- tok ;; x <- enum_from mtype_variants t ;;
             raw_map_loop f F (mkRaw (w_t acc) (Some x) (w_q acc) (w_a acc) (w_r acc) (w_e acc))
      else if bytes_eqb k k_q then
        if is_some (w_q acc) then fail
        else t <- tok ;; x <- enum_from rtype_variants t ;;
             raw_map_loop f F (mkRaw (w_t acc) (w_y acc) (Some x) (w_a acc) (w_r acc) (w_e acc))
      else if bytes_eqb k k_a then
        if is_some (w_a acc) then fail
        else t <- tok ;; x <- request_from F 1 t ;;
             raw_map_loop f F (mkRaw (w_t acc) (w_y acc) (w_q acc) (Some x) (w_r acc) (w_e acc))
      else if bytes_eqb k k_r then
        if is_some (w_r acc) then fail
        else t <- tok ;; x <- resp_from F 1 t ;;
             raw_map_loop f F (mkRaw (w_t acc) (w_y acc) (w_q acc) (w_a acc) (Some x) (w_e acc))
      else if bytes_eqb k k_e then
        if is_some (w_e acc) then fail
        else t <- tok ;; x <- err_from F 1 t ;;
             raw_map_loop f F (mkRaw (w_t acc) (w_y acc) (w_q acc) (w_a acc) (w_r acc) (Some x))
      else any F 1 ;;; raw_map_loop f F acc
    end
  end.

(* derived visit_seq of RawMessage: six positional elements, none optional *)
Definition elem {A} (p : token -> M A) : M A :=
  t <- tok ;; match t with TEnd => fail | _ => p t end.

Definition raw_seq (F : nat) : M raw :=
  t <- elem (bytes_from F 1) ;;
  y <- elem (enum_from mtype_variants) ;;
  q <- elem (enum_from rtype_variants) ;;
  a <- elem (request_from F 1) ;;
  r <- elem (resp_from F 1) ;;
  e <- elem (err_from F 1) ;;
  ret (mkRaw (Some t) (Some y) (Some q) (Some a) (Some r) (Some e)).

Definition rtype_of (r : request) : rtype :=
  match r with
  | Ping _ => QPing
  | FindNode _ _ _ => QFindNode
  | GetPeers _ _ _ => QGetPeers
  | AnnouncePeer _ _ _ _ => QAnnouncePeer
  end.

Definition rtype_eqb (a b : rtype) : bool :=
  match a, b with
  | QPing, QPing | QFindNode, QFindNode | QGetPeers, QGetPeers | QAnnouncePeer, QAnnouncePeer => true
  | _, _ => false
  end.

(* missing t / y are errors of the derived code; the rest is TryFrom<RawMessage> *)
Definition raw_finish (w : raw) : option msg :=
  match w_t w, w_y w with
  | Some t, Some y =>
    match y with
    | YQ => match w_q w, w_a w with
            | Some q, Some a => if rtype_eqb q (rtype_of a) then Some (mkMsg t (Req a)) else None
            | _, _ => None
            end
    | YR => match w_r w with Some r => Some (mkMsg t (Resp r)) | None => None end
    | YE => match w_e w with Some (c, m) => Some (mkMsg t (Err c m)) | None => None end
    end
  | _, _ => None
  end.

(* Message::deserialize on a fresh deserializer *)
Definition message (F : nat) : M msg :=
  t <- tok ;;
  match t with
  | TMap => enter 1 ;;; w <- raw_map_loop F F raw_empty ;; lift (raw_finish w)
  | TList => enter 1 ;;; w <- raw_seq F ;; lift (raw_finish w)
  | _ => fail
  end.

(* serde_bencode::from_bytes: the allocation log, the maximal depth, the result
   ([None] also stands for the impossible out-of-fuel outcome, see Krpc_Facts) *)
Record outcome := mkOut { o_allocs : list N; o_depth : nat; o_msg : option msg }.

Definition run_lib (b : bytes) : st * res msg := message (fuel_for (length b)) (init_st b).

Definition lib_decode (b : bytes) : outcome :=
  let '(s, r) := run_lib b in
  mkOut (s_log s) (s_max s) (match r with Ok m => Some m | _ => None end).

Definition no_run : outcome := mkOut [] 0 None.

(* bencode::decode as it is now: precheck, then the library on the scanned prefix *)
Definition decode_instr (b : bytes) : outcome :=
  match precheck b with
  | Some e => lib_decode (firstn e b)
  | None => no_run
  end.

Definition decode_msg (b : bytes) : option msg := o_msg (decode_instr b).

(* earlier trees, kept for their refutation witnesses *)
(* pinned tree: no precheck at all *)
Definition decode_nocheck_instr (b : bytes) : outcome := lib_decode b.
Definition decode_nocheck (b : bytes) : option msg := o_msg (decode_nocheck_instr b).
(* first repair (5bf0439): precheck as a yes/no test, the library then reads the WHOLE input *)
Definition decode_onepass_instr (b : bytes) : outcome :=
  match precheck b with
  | Some _ => lib_decode b
  | None => no_run
  end.
Definition decode_onepass (b : bytes) : option msg := o_msg (decode_onepass_instr b).
