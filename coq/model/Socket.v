(* Model of src/socket.rs: the demultiplexer between the handler and the request/response exchanges of the bootstrap task.
   `Socket::send_request` registers the key (destination address, transaction id) of a pending exchange (`responded`, which
   asserts that the key is new); the `Responded` future removes it when dropped; `Socket::recv` decodes every datagram and hands
   a message whose (source, transaction id) is pending to that exchange -- removing the key -- and everything else to the
   handler; undecodable datagrams are dropped. *)
From BT Require Import model.Prelude model.Compact model.Krpc.
Open Scope Z_scope.

Definition skey := (addr * bytes)%type.
Definition skey_eqb (a b : skey) : bool := addr_eqb (fst a) (fst b) && bytes_eqb (snd a) (snd b).

Inductive sev :=
| SReg (k : skey)                       (* Socket::responded *)
| SUnreg (k : skey)                     (* Drop for Responded *)
| SRecv (src : addr) (data : bytes).    (* one datagram read by Socket::recv *)

Inductive sres :=
| SRPanic                               (* the assert in `responded` fails: the key was already pending *)
| SRNone
| SRToWaiter (k : skey)                 (* handed to the pending exchange (make_ready) *)
| SRToHandler                           (* returned to the handler loop *)
| SRDropped.                            (* undecodable *)

Definition pending := list skey.
Definition pmem (k : skey) (p : pending) : bool := existsb (skey_eqb k) p.
Definition premove (k : skey) (p : pending) : pending := filter (fun x => negb (skey_eqb k x)) p.

Definition sstep_sock (p : pending) (e : sev) : pending * sres :=
  match e with
  | SReg k => if pmem k p then (p, SRPanic) else (k :: p, SRNone)
  | SUnreg k => (premove k p, SRNone)
  | SRecv src data =>
      match decode_msg data with
      | None => (p, SRDropped)
      | Some m => let k := (src, m_tid m) in
                  if pmem k p then (premove k p, SRToWaiter k) else (p, SRToHandler)
      end
  end.

Fixpoint srun_sock (p : pending) (evs : list sev) : pending * list sres :=
  match evs with
  | [] => (p, [])
  | e :: r => let '(p1, x) := sstep_sock p e in let '(p2, xs) := srun_sock p1 r in (p2, x :: xs)
  end.
