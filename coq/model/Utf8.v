(* Rust's [str::from_utf8] (strict UTF-8: no overlong forms, no surrogates, max
   U+10FFFF) and [str::trim] (Unicode White_Space), as used by the KRPC decoder:
   dictionary keys of the streamed structs and error texts must be valid UTF-8;
   the entries of a [want] list must be valid UTF-8 and are trimmed before they
   are compared with n4/N4/n6/N6. *)
From BT Require Import model.Prelude.

Definition in_range (lo hi x : N) : bool := (lo <=? x) && (x <=? hi).
Definition is_cont (x : N) : bool := in_range 128 191 x.

(* Decoding to code points; [None] = invalid.  Structural recursion on a fuel
   equal to the length (every step consumes at least one byte). *)
Fixpoint utf8_decode_fuel (fuel : nat) (s : bytes) : option (list N) :=
  match fuel with
  | O => match s with [] => Some [] | _ => None end
  | S f =>
    match s with
    | [] => Some []
    | a :: r =>
      if a <? 128 then option_map (cons a) (utf8_decode_fuel f r)
      else if in_range 194 223 a then
        match r with
        | b :: r' => if is_cont b
                     then option_map (cons ((a - 192) * 64 + (b - 128))) (utf8_decode_fuel f r')
                     else None
        | _ => None
        end
      else if in_range 224 239 a then
        match r with
        | b :: c :: r' =>
          if (if a =? 224 then in_range 160 191 b
              else if a =? 237 then in_range 128 159 b
              else is_cont b) && is_cont c
          then option_map (cons ((a - 224) * 4096 + (b - 128) * 64 + (c - 128))) (utf8_decode_fuel f r')
          else None
        | _ => None
        end
      else if in_range 240 244 a then
        match r with
        | b :: c :: d :: r' =>
          if (if a =? 240 then in_range 144 191 b
              else if a =? 244 then in_range 128 143 b
              else is_cont b) && is_cont c && is_cont d
          then option_map (cons ((a - 240) * 262144 + (b - 128) * 4096 + (c - 128) * 64 + (d - 128)))
                          (utf8_decode_fuel f r')
          else None
        | _ => None
        end
      else None
    end
  end.

Definition utf8_decode (s : bytes) : option (list N) := utf8_decode_fuel (length s) s.

Definition utf8_valid (s : bytes) : bool :=
  match utf8_decode s with Some _ => true | None => false end.

(* char::is_whitespace *)
Definition is_white (c : N) : bool :=
  in_range 9 13 c || (c =? 32) || (c =? 133) || (c =? 160) || (c =? 5760)
  || in_range 8192 8202 c || (c =? 8232) || (c =? 8233) || (c =? 8239) || (c =? 8287) || (c =? 12288).

Fixpoint drop_white (l : list N) : list N :=
  match l with
  | c :: r => if is_white c then drop_white r else l
  | [] => []
  end.

(* str::trim on the code points *)
Definition trim (l : list N) : list N := rev (drop_white (rev (drop_white l))).
