(* Model of src/transaction.rs: AIDGenerator / MIDGenerator as state machines,
   the 8-byte big-endian composition, from_bytes and action_id.
   The shuffle (rand::seq::SliceRandom::shuffle) is an oracle argument
   [shuf k l] = the order in which block number k (contents l) is handed out. *)
From BT Require Import model.Prelude gen.Consts.

Record gen := mkGen {
  g_next_alloc : N;        (* NOT shifted allocation marker *)
  g_idx : N;               (* curr_index *)
  g_ids : list N;          (* current pre-allocated block *)
  g_nblk : nat             (* ghost: number of blocks allocated so far (indexes the oracle) *)
}.

Section Generator.
  Variables (B M : N).                       (* block length, exclusive maximum *)
  Variable shuf : nat -> list N -> list N.   (* shuffle oracle *)

  (* generate_aids / generate_mids: (next_alloc_end, block) *)
  Definition block_start (next_alloc : N) : N := if next_alloc =? M then 0 else next_alloc.
  Definition block_vals (start : N) : list N :=
    map (fun i => start + N.of_nat i) (seq 0 (N.to_nat B)).

  Definition refill (g : gen) : gen :=
    let s := block_start (g_next_alloc g) in
    mkGen (s + B) 0 (shuf (g_nblk g) (block_vals s)) (S (g_nblk g)).

  (* generate(): the value and the new state.  With B = 0 the Rust code recurses
     for ever; the model returns None so that no theorem holds by accident. *)
  Definition generate (g : gen) : option (N * gen) :=
    match nth_error (g_ids g) (N.to_nat (g_idx g)) with
    | Some v => Some (v, mkGen (g_next_alloc g) (g_idx g + 1) (g_ids g) (g_nblk g))
    | None =>
        let g' := refill g in
        match nth_error (g_ids g') 0 with
        | Some v => Some (v, mkGen (g_next_alloc g') 1 (g_ids g') (g_nblk g'))
        | None => None
        end
    end.

  (* the first n values *)
  Fixpoint draws (n : nat) (g : gen) : list N :=
    match n with
    | O => []
    | S n' => match generate g with
              | Some (v, g') => v :: draws n' g'
              | None => []
              end
    end.

  (* MIDGenerator::new: first block generated lazily *)
  Definition mid_init : gen := mkGen 0 B (repeat 0 (N.to_nat B)) 0.
  (* AIDGenerator::new: first block generated eagerly *)
  Definition aid_init : gen := refill (mkGen 0 0 [] 0).

  (* closed form: value of draw number n (from 0) *)
  Definition block_of (k : N) : N := (k mod (M / B)) * B.
  Definition out (n : N) : N :=
    nth (N.to_nat (n mod B)) (shuf (N.to_nat (n / B)) (block_vals (block_of (n / B)))) 0.
End Generator.

(* production parameters, read from the source *)
Definition mid_B := Consts.txn_message_id_prealloc_len_N.
Definition mid_M := Consts.txn_max_message_id_N.
Definition aid_B := Consts.txn_action_id_prealloc_len_N.
Definition aid_M := Consts.txn_max_action_id_N.
Definition mid_shift := Consts.txn_message_id_shift_N.

(* TransactionID::new(action_id_shifted | message_id).to_be_bytes() *)
Definition compose (aid mid : N) : bytes :=
  N_to_be (N.to_nat Consts.txn_transaction_id_bytes_N)
          ((N.lor (N.shiftl aid mid_shift) mid) mod 2 ^ 64).

(* TransactionID::from_bytes *)
Definition tid_from_bytes (b : bytes) : option bytes :=
  if N.of_nat (length b) =? Consts.txn_transaction_id_bytes_N then Some b else None.

(* TransactionID::action_id *)
Definition action_id (tid : bytes) : N := N.shiftr (be_to_N tid) mid_shift.
Definition message_id (tid : bytes) : N := N.land (be_to_N tid) (mid_M - 1).
