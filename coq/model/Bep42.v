(* Model of InfoHash::from_ip (src/info_hash.rs) and an independent BEP42
   validity check written from the BEP text. *)
From BT Require Import model.Prelude gen.Consts.

(* CRC32-C (Castagnoli), reflected polynomial 0x82F63B78, bit by bit. *)
Definition crc_poly : N := 0x82F63B78.

Definition crc_step (c : N) : N :=
  if N.testbit c 0 then N.lxor (N.shiftr c 1) crc_poly else N.shiftr c 1.

Fixpoint crc_bits (k : nat) (c : N) : N :=
  match k with O => c | S k' => crc_bits k' (crc_step c) end.

Definition crc_byte (c b : N) : N := crc_bits 8 (N.lxor c b).

(* crc32c::crc32c_append(0, data) *)
Definition crc32c (data : bytes) : N :=
  N.lxor (fold_left crc_byte data 0xFFFFFFFF) 0xFFFFFFFF.

Inductive ipaddr := IPv4 (octets : bytes) | IPv6 (octets : bytes).

Definition ip_wf (a : ipaddr) : bool :=
  match a with
  | IPv4 o => (N.of_nat (length o) =? 4) && bytes_ok o
  | IPv6 o => (N.of_nat (length o) =? 16) && bytes_ok o
  end.

Fixpoint and_mask (o m : bytes) : bytes :=
  match o, m with
  | x :: o', y :: m' => N.land x y :: and_mask o' m'
  | _, _ => []
  end.

(* the masks are read from the source by the constants translator *)
Definition masked (a : ipaddr) : bytes :=
  match a with
  | IPv4 o => and_mask o (firstn 4 Consts.bep42_v4_mask)
  | IPv6 o => and_mask o (firstn 8 Consts.bep42_v6_mask)
  end.

Definition mix_r (m : bytes) (r : N) : bytes :=
  match m with
  | [] => []
  | x :: t => N.lor x (N.shiftl (N.land r 7) 5) :: t
  end.

(* from_ip with its three sources of randomness made explicit:
   r1 = first rand::random::<u8>() (stored in id[19]),
   r2 = the draw mixed into id[2], rest = the 16 bytes id[3..19]. *)
Definition from_ip (a : ipaddr) (r1 r2 : N) (rest : bytes) : bytes :=
  let crc := crc32c (mix_r (masked a) r1) in
  [ N.land (N.shiftr crc 24) 255;
    N.land (N.shiftr crc 16) 255;
    N.lor (N.land (N.land (N.shiftr crc 8) 255) 0xf8) (N.land r2 7) ]
  ++ rest ++ [r1].

(* BEP42, as a validator would check it: the top 21 bits of the 160-bit id
   equal the top 21 bits of crc32c over the masked address whose first octet
   carries r = id[19] & 7 in its top three bits. The masks are the ones of the
   BEP text, NOT the ones read from the source. *)
Definition bep_v4_mask : bytes := [0x03; 0x0f; 0x3f; 0xff].
Definition bep_v6_mask : bytes := [0x01; 0x03; 0x07; 0x0f; 0x1f; 0x3f; 0x7f; 0xff].

Definition bep_masked (a : ipaddr) : bytes :=
  match a with
  | IPv4 o => and_mask o bep_v4_mask
  | IPv6 o => and_mask o bep_v6_mask
  end.

Definition bep42_valid (a : ipaddr) (id : bytes) : bool :=
  (N.of_nat (length id) =? 20) && bytes_ok id &&
  (let r := N.land (nth 19 id 0) 7 in
   let crc := crc32c (mix_r (bep_masked a) r) in
   be_to_N id / 2 ^ 139 =? crc / 2 ^ 11).
