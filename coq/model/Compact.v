(* Model of src/compact.rs: compact peers (6 / 18 bytes), compact nodes (26 / 38
   bytes), big-endian ports, the chunks_exact remainder rule. *)
From BT Require Import model.Prelude gen.Consts.

Definition id_len : nat := Consts.info_hash_len_nat.                    (* 20 *)
Definition v4_len : nat := Consts.compact_socket_addr_v4_len_nat.       (* 6  *)
Definition v6_len : nat := Consts.compact_socket_addr_v6_len_nat.       (* 18 *)
Definition port_len : nat := 2.                                         (* u16::to_be_bytes *)
Definition addr_len (v6 : bool) : nat := if v6 then v6_len else v4_len.
Definition ip_len (v6 : bool) : nat := addr_len v6 - port_len.

(* big-endian bytes of a number, fixed width: the same function as Prelude.N_to_be
   (proofs/Compact_Facts.v: to_be_N_to_be) but computed by repeated division by
   256, which is what makes evaluating the encoder on 160-bit ids cheap *)
Fixpoint to_le (w : nat) (x : N) : bytes :=
  match w with
  | O => []
  | S w' => x mod 256 :: to_le w' (x / 256)
  end.
Definition to_be (w : nat) (x : N) : bytes := rev (to_le w x).

Record nodeh := mkNodeh { n_id : N; n_addr : addr }.      (* id < 2^160 *)

(* encode_socket_addr *)
Definition enc_addr (a : addr) : bytes :=
  to_be (ip_len (a_v6 a)) (a_ip a) ++ to_be port_len (a_port a).

(* decode_socket_addr *)
Definition dec_addr (s : bytes) : option addr :=
  if Nat.eqb (length s) v4_len
  then Some (mkAddr false (be_to_N (firstn (ip_len false) s)) (be_to_N (skipn (ip_len false) s)))
  else if Nat.eqb (length s) v6_len
  then Some (mkAddr true (be_to_N (firstn (ip_len true) s)) (be_to_N (skipn (ip_len true) s)))
  else None.

Definition enc_id (x : N) : bytes := to_be id_len x.

(* byte_array::deserialize of info_hash.rs: exactly INFO_HASH_LEN bytes *)
Definition dec_id (s : bytes) : option N :=
  if Nat.eqb (length s) id_len then Some (be_to_N s) else None.

(* nodes::serialize::<ADDR_LEN>: fails ("unexpected address family") when an address
   has the other family *)
Fixpoint enc_nodes (v6 : bool) (l : list nodeh) : option bytes :=
  match l with
  | [] => Some []
  | n :: r =>
    if Bool.eqb (a_v6 (n_addr n)) v6
    then option_map (fun t => enc_id (n_id n) ++ enc_addr (n_addr n) ++ t) (enc_nodes v6 r)
    else None
  end.

(* the same without the family check (used by the readable spec tree) *)
Definition cat_nodes (l : list nodeh) : bytes :=
  flat_map (fun n => enc_id (n_id n) ++ enc_addr (n_addr n)) l.

(* chunks_exact(n) on a string whose length is a multiple of n; fuel = length *)
Fixpoint chunks (fuel : nat) (n : nat) (s : bytes) : list bytes :=
  match fuel with
  | O => []
  | S f => match s with
           | [] => []
           | _ => firstn n s :: chunks f n (skipn n s)
           end
  end.

Definition dec_node (v6 : bool) (c : bytes) : nodeh :=
  mkNodeh (be_to_N (firstn id_len c))
          (mkAddr v6 (be_to_N (firstn (ip_len v6) (skipn id_len c)))
                     (be_to_N (skipn (ip_len v6) (skipn id_len c)))).

(* nodes::deserialize::<ADDR_LEN>: length must be a multiple of 20 + ADDR_LEN *)
Definition dec_nodes (v6 : bool) (s : bytes) : option (list nodeh) :=
  let n := (id_len + addr_len v6)%nat in
  if Nat.eqb (Nat.modulo (length s) n) 0
  then Some (map (dec_node v6) (chunks (length s) n s))
  else None.
