(* Link between the executable C07 checker [c07_ok] (run/Run_Storage.v), which is evaluated on the
   outputs observed from the real implementation, and the formal C07 specification [spec_trace]
   (proofs/Storage_Facts.v):  the checker accepts an observed trace  iff  the trace satisfies the spec. *)
From BT Require Import model.Prelude model.Storage gen.Consts proofs.Prelude_Facts proofs.Storage_Facts run.Run_Storage.
From Coq Require Import ZifyBool ZifyN ZifyNat.
Open Scope Z_scope.

(* ---- representation invariant: the checker's association list represents the abstract map ---- *)
Record Rep (m : list (item * Z)) (am : amap) : Prop := {
  rep_keys : NoDup (map fst m);
  rep_rel : forall it t, In (it, t) m <-> am it = Some t
}.

Lemma rep_empty : Rep [] aempty.
Proof.
  constructor; cbn.
  - constructor.
  - intros it t. split; [tauto | discriminate].
Qed.

Lemma alive_b_iff now t : alive_b now t = true <-> dur_since now t < 86400000000000.
Proof. unfold alive_b. lia. Qed.

Lemma alive_l_iff m am now it : Rep m am -> (alive_l m now it = true <-> alive am now it).
Proof.
  intros R. unfold alive_l, alive. rewrite existsb_exists. split.
  - intros [[k t] [Hin H]]. cbn [fst snd] in H. apply andb_true_iff in H as [H1 H2].
    apply item_eqb_eq in H1. subst k. exists t. split; [apply (rep_rel _ _ R), Hin | apply alive_b_iff, H2].
  - intros [t [Hm Hd]]. exists (it, t). split; [apply (rep_rel _ _ R), Hm|].
    cbn [fst snd]. rewrite item_eqb_refl. cbn [andb]. apply alive_b_iff, Hd.
Qed.

(* keys of the live entries *)
Definition live_keys (m : list (item * Z)) (now : Z) : list item :=
  map fst (filter (fun e => alive_b now (snd e)) m).

Lemma count_live_keys m now : count_live m now = length (live_keys m now).
Proof. unfold count_live, live_keys. rewrite map_length. reflexivity. Qed.

Lemma filter_keys_nodup_gen (f : item * Z -> bool) (l : list (item * Z)) :
  NoDup (map fst l) -> NoDup (map fst (filter f l)).
Proof.
  induction l as [|e l IH]; cbn [filter map]; intros K; [constructor|]. inversion K; subst.
  destruct (f e); cbn [map]; [|apply IH; assumption].
  constructor; [|apply IH; assumption]. intros H. apply H1. apply in_map_iff in H as [x [E Hx]].
  apply filter_In in Hx as [Hx _]. apply in_map_iff. exists x. split; assumption.
Qed.

Lemma live_keys_nodup m am now : Rep m am -> NoDup (live_keys m now).
Proof. intros R. apply filter_keys_nodup_gen, (rep_keys _ _ R). Qed.

Lemma live_keys_alive m am now it : Rep m am -> (In it (live_keys m now) <-> alive am now it).
Proof.
  intros R. unfold live_keys, alive. rewrite in_map_iff. split.
  - intros [[k t] [E H]]. cbn [fst] in E. subst k. apply filter_In in H as [H1 H2]. cbn [snd] in H2.
    exists t. split; [apply (rep_rel _ _ R), H1 | apply alive_b_iff, H2].
  - intros [t [Hm Hd]]. exists (it, t). split; [reflexivity|]. apply filter_In.
    split; [apply (rep_rel _ _ R), Hm | cbn [snd]; apply alive_b_iff, Hd].
Qed.

(* pigeonhole: the spec's "500 distinct live pairs exist" is the checker's count *)
Lemma full_count m am now : Rep m am -> (full am now <-> (500 <= count_live m now)%nat).
Proof.
  intros R. rewrite count_live_keys. split.
  - intros [l [Hn [Hl Ha]]]. rewrite <- Hl. apply NoDup_incl_length; [exact Hn|].
    intros it Hit. apply (live_keys_alive _ _ _ _ R), Ha, Hit.
  - intros H. exists (firstn 500 (live_keys m now)). split; [|split].
    + pose proof (live_keys_nodup _ _ now R) as K. rewrite <- (firstn_skipn 500) in K. eapply nodup_app_l, K.
    + rewrite firstn_length. lia.
    + intros it Hit. apply (live_keys_alive _ _ _ _ R). eapply firstn_in, Hit.
Qed.

Lemma expected_iff m am now it : Rep m am ->
  (alive_l m now it || Nat.ltb (count_live m now) 500 = true <-> (alive am now it \/ ~ full am now)).
Proof.
  intros R. rewrite orb_true_iff, (alive_l_iff _ _ _ _ R), Nat.ltb_lt, (full_count _ _ now R).
  split; (intros [H|H]; [left; exact H | right; lia]).
Qed.

(* an accepted announce: the list update represents [upd] *)
Lemma rep_upd m am it now : Rep m am ->
  Rep ((it, now) :: filter (fun e => negb (item_eqb (fst e) it)) m) (upd am it now).
Proof.
  intros R.
  assert (Hfl : forall e, In e (filter (fun e => negb (item_eqb (fst e) it)) m) <-> In e m /\ fst e <> it).
  { intros e. rewrite filter_In. destruct (item_eqb (fst e) it) eqn:E; cbn [negb].
    - apply item_eqb_eq in E. split; [intros [_ H]; discriminate | intros [_ H]; contradiction].
    - apply item_eqb_neq in E. tauto. }
  constructor.
  - cbn [map fst]. constructor; [|apply filter_keys_nodup, (rep_keys _ _ R)].
    intros H. apply in_map_iff in H as [e [E He]]. apply Hfl in He as [_ He]. contradiction.
  - intros x t. cbn [In]. unfold upd. rewrite Hfl. cbn [fst]. destruct (item_eqb x it) eqn:E.
    + apply item_eqb_eq in E. subst x. split.
      * intros [H|[_ H]]; [inversion H; reflexivity | contradiction].
      * intros H. inversion H. left. reflexivity.
    + apply item_eqb_neq in E. rewrite <- (rep_rel _ _ R). split.
      * intros [H|[H _]]; [inversion H; congruence | exact H].
      * intros H. right. split; [exact H | exact E].
Qed.

(* ---- lookups ---- *)
Lemma existsb_addr x l : existsb (addr_eqb x) l = true <-> In x l.
Proof.
  rewrite existsb_exists. split.
  - intros [y [H E]]. apply addr_eqb_eq in E. subst. exact H.
  - intros H. exists x. split; [exact H | apply addr_eqb_eq; reflexivity].
Qed.

Lemma nodup_addr_iff l : nodup_addr l = true <-> NoDup l.
Proof.
  induction l as [|x l IH]; cbn [nodup_addr].
  - split; [constructor | reflexivity].
  - rewrite andb_true_iff, negb_true_iff, IH. split.
    + intros [H1 H2]. constructor; [|exact H2]. intros Hin. apply existsb_addr in Hin. congruence.
    + intros H. inversion H; subst. split; [|assumption].
      destruct (existsb (addr_eqb x) l) eqn:E; [apply existsb_addr in E; contradiction | reflexivity].
Qed.

Lemma find_check_iff m am now ih l : Rep m am ->
  (nodup_addr l
   && forallb (fun a => alive_l m now (ih, a)) l
   && forallb (fun e => if (fst (fst e) =? ih)%N && alive_b now (snd e)
                        then existsb (addr_eqb (snd (fst e))) l else true) m = true
   <-> (NoDup l /\ forall a, In a l <-> alive am now (ih, a))).
Proof.
  intros R. rewrite !andb_true_iff, nodup_addr_iff, !forallb_forall. split.
  - intros [[H1 H2] H3]. split; [exact H1|]. intros a. split.
    + intros Ha. apply (alive_l_iff _ _ _ _ R), H2, Ha.
    + intros [t [Hm Hd]]. apply (rep_rel _ _ R) in Hm. specialize (H3 _ Hm). cbn [fst snd] in H3.
      rewrite N.eqb_refl in H3. apply alive_b_iff in Hd. rewrite Hd in H3. cbn [andb] in H3.
      apply existsb_addr, H3.
  - intros [H1 H2]. split; [split; [exact H1|]|].
    + intros a Ha. apply (alive_l_iff _ _ _ _ R), H2, Ha.
    + intros [[h a] t] He. cbn [fst snd]. destruct (N.eqb_spec h ih) as [->|]; [|reflexivity].
      destruct (alive_b now t) eqn:E; [|reflexivity]. cbn [andb]. apply existsb_addr, H2.
      exists t. split; [apply (rep_rel _ _ R), He | apply alive_b_iff, E].
Qed.

(* ---- the checker decides the spec, from any represented state and any starting index ---- *)
Lemma c07_check_iff : forall ops obs m am i, Rep m am ->
  (c07_check m ops obs i = None <-> spec_trace am ops obs).
Proof.
  induction ops as [|[now op] ops IH]; intros obs m am i R.
  - destruct obs; cbn [c07_check spec_trace]; split; try tauto; discriminate.
  - destruct obs as [|out obs].
    { destruct op; cbn [c07_check spec_trace]; split; try tauto; discriminate. }
    destruct op as [it|ih], out as [b|l]; cbn [c07_check spec_trace]; unfold spec_out, anext; cbn [fst snd];
      try (split; [discriminate | tauto]).
    + pose proof (expected_iff m am now it R) as Hex.
      destruct (Bool.eqb b (alive_l m now it || Nat.ltb (count_live m now) 500)) eqn:E.
      * apply eqb_prop in E.
        assert (Hb : b = true <-> alive am now it \/ ~ full am now) by (rewrite <- Hex, <- E; tauto).
        destruct b.
        -- rewrite (IH obs _ (upd am it now) (i + 1)%N (rep_upd _ _ it now R)). tauto.
        -- rewrite (IH obs _ am (i + 1)%N R). tauto.
      * split; [discriminate|]. intros [Hs _]. exfalso.
        apply eqb_false_iff in E. apply E.
        destruct b, (alive_l m now it || Nat.ltb (count_live m now) 500); try reflexivity; exfalso.
        -- assert (false = true) by (apply Hex, Hs; reflexivity). discriminate.
        -- assert (false = true) by (apply Hs, Hex; reflexivity). discriminate.
    + pose proof (find_check_iff m am now ih l R) as Hf.
      destruct (nodup_addr l && forallb (fun a => alive_l m now (ih, a)) l
                && forallb (fun e => if (fst (fst e) =? ih)%N && alive_b now (snd e)
                                     then existsb (addr_eqb (snd (fst e))) l else true) m) eqn:E.
      * rewrite (IH obs m am (i + 1)%N R). split; [intros H; split; [apply Hf; reflexivity | exact H] | intros [_ H]; exact H].
      * split; [discriminate|]. intros [Hs _]. apply Hf in Hs. discriminate.
Qed.

(* No hypothesis on the time stamps is needed for the equivalence itself: the checker and the spec both
   evaluate "live" relative to the time of the current operation only. *)
Theorem c07_ok_iff_spec ops obs : c07_ok ops obs = None <-> spec_trace aempty ops obs.
Proof. unfold c07_ok. apply c07_check_iff, rep_empty. Qed.

(* 1. soundness: a trace the checker accepts satisfies the formal spec *)
Theorem c07_ok_sound ops t0 obs : times_from t0 ops -> c07_ok ops obs = None -> spec_trace aempty ops obs.
Proof. intros _. apply c07_ok_iff_spec. Qed.

(* 2. completeness: no alarm on any trace that satisfies the spec *)
Theorem c07_ok_complete ops t0 obs : times_from t0 ops -> spec_trace aempty ops obs -> c07_ok ops obs = None.
Proof. intros _. apply c07_ok_iff_spec. Qed.

(* 3. the checker never rejects the model's own trace *)
Theorem c07_ok_model_silent ops t0 : times_from t0 ops -> c07_ok_model ops = None.
Proof. intros H. unfold c07_ok_model. apply c07_ok_iff_spec, (storage_refines_spec ops t0 H). Qed.

(* an alarm index always points into the script (the reported number is the position of the first
   operation whose observed output is not the spec's) -- sanity of the reported index *)
Lemma c07_check_index : forall ops obs m i j, c07_check m ops obs i = Some j ->
  (i <= j <= i + N.of_nat (length ops))%N.
Proof.
  induction ops as [|[now op] ops IH]; intros obs m i j H.
  - destruct obs; cbn in H; [discriminate|]. inversion H. cbn. lia.
  - cbn [length]. destruct obs as [|out obs].
    { destruct op; cbn in H; inversion H; lia. }
    destruct op as [it|ih], out as [b|l]; cbn [c07_check] in H; try (inversion H; lia).
    + destruct (Bool.eqb b _); [apply IH in H; lia | inversion H; lia].
    + destruct (_ && _); [apply IH in H; lia | inversion H; lia].
Qed.
