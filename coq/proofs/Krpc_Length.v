(* C17: how long the encodings of the node's datagrams are.
   - the exact length of an encoded response (and error) as a function of the field sizes;
   - every reply [handle_query] produces encodes, to at most 1500 bytes, for transaction ids up
     to 800 bytes (the values cap of src/handler.rs is what makes this true for get_peers);
   - the queries the node builds are small. *)
From BT Require Import model.Prelude gen.Consts model.Compact model.Krpc model.Token model.Storage model.Table model.Txn model.Handler.
From BT Require Import proofs.Prelude_Facts proofs.Txn_Facts proofs.Bencode_Facts proofs.Compact_Facts proofs.Krpc_Facts proofs.Handler_Facts.
From Coq Require Import ZifyBool ZifyN ZifyNat.
Open Scope nat_scope.

(* ------------------------------------------------------------------ *)
(* decimal lengths                                                    *)

(* number of decimal digits of n *)
Definition dlen (n : nat) : nat := length (dec_N (N.of_nat n)).
(* length of a bencoded byte string of n bytes: digits, ':', content *)
Definition slen (n : nat) : nat := dlen n + 1 + n.

Lemma ser_str_len s : length (ser_str s) = slen (length s).
Proof. unfold ser_str, slen, dlen. rewrite app_length. cbn [length]. lia. Qed.

Lemma dec_fuel_len_le : forall f n k, (n < 10 ^ N.of_nat k)%N -> 1 <= k -> length (dec_fuel f n []) <= k.
Proof.
  induction f as [|f IH]; intros n k Hn Hk; cbn [dec_fuel]; [cbn; lia|].
  destruct (n <? 10)%N eqn:E; [cbn; lia|].
  rewrite dec_fuel_app, app_length. cbn [length].
  destruct k as [|[|k]]; [lia | cbn in Hn; lia |].
  assert (Hd : (n / 10 < 10 ^ N.of_nat (S k))%N).
  { rewrite (Nat2N.inj_succ (S k)), N.pow_succ_r' in Hn. apply N.div_lt_upper_bound; lia. }
  specialize (IH (n / 10)%N (S k) Hd ltac:(lia)). lia.
Qed.

Lemma dlen_le n k : n < 10 ^ k -> 1 <= k -> dlen n <= k.
Proof.
  intros Hn Hk. unfold dlen, dec_N. apply dec_fuel_len_le; [|exact Hk].
  assert (N.of_nat (10 ^ k) = 10 ^ N.of_nat k)%N.
  { clear. induction k as [|k IH]; [reflexivity|]. cbn [Nat.pow]. rewrite Nat2N.inj_mul, IH, (Nat2N.inj_succ k), N.pow_succ_r'. reflexivity. }
  lia.
Qed.

Lemma dlen_leN n k : (N.of_nat n < 10 ^ N.of_nat k)%N -> 1 <= k -> dlen n <= k.
Proof. intros Hn Hk. unfold dlen, dec_N. apply dec_fuel_len_le; assumption. Qed.

Lemma dlen_pos n : 1 <= dlen n.
Proof. unfold dlen. pose proof (dec_N_nonempty (N.of_nat n)). destruct (dec_N (N.of_nat n)); [congruence | cbn; lia]. Qed.

(* ------------------------------------------------------------------ *)
(* the library's map serialiser: sorting does not change the length   *)

Definition elen (kv : bytes * bytes) : nat := slen (length (fst kv)) + length (snd kv).
Definition sum_nat (l : list nat) : nat := fold_right Nat.add 0 l.

Lemma ser_entries_length l : length (ser_entries l) = sum_nat (map elen l).
Proof.
  unfold ser_entries. induction l as [|x l IH]; [reflexivity|].
  change (sum_nat (map elen (x :: l))) with (elen x + sum_nat (map elen l)).
  cbn [flat_map]. rewrite !app_length, ser_str_len, IH.
  assert (E : elen x = slen (length (fst x)) + length (snd x)) by reflexivity. rewrite E. reflexivity.
Qed.

Lemma insert_kv_sum x l : sum_nat (map elen (insert_kv x l)) = elen x + sum_nat (map elen l).
Proof.
  induction l as [|y l IH]; [reflexivity|]. cbn [insert_kv].
  destruct (bytes_ltb (fst y) (fst x)); cbn [map sum_nat fold_right]; [|reflexivity].
  fold (sum_nat (map elen (insert_kv x l))). fold (sum_nat (map elen l)). rewrite IH. lia.
Qed.

Lemma sort_kv_sum l : sum_nat (map elen (sort_kv l)) = sum_nat (map elen l).
Proof.
  induction l as [|x l IH]; [reflexivity|]. cbn [sort_kv map sum_nat fold_right].
  rewrite insert_kv_sum, IH. reflexivity.
Qed.

Lemma ser_map_length es : length (ser_map es) = 2 + sum_nat (map elen (filter keepf es)).
Proof.
  rewrite ser_map_unfold. cbn [length]. rewrite app_length, ser_entries_length, sort_kv_sum. cbn [length]. lia.
Qed.

(* ------------------------------------------------------------------ *)
(* responses and errors: exact lengths                                *)

Definition peer_len (a : addr) : nat := if a_v6 a then 21 else 8.    (* "18:" + 18 | "6:" + 6 *)

Lemma ser_peer_length a : length (ser_str (enc_addr a)) = peer_len a.
Proof. rewrite ser_str_len, enc_addr_length. unfold peer_len. destruct (a_v6 a); reflexivity. Qed.

Lemma values_body_length l :
  length (flat_map (fun a => ser_str (enc_addr a)) l) = sum_nat (map peer_len l).
Proof.
  induction l as [|a l IH]; [reflexivity|]. cbn [flat_map map sum_nat fold_right].
  rewrite app_length, ser_peer_length, IH. reflexivity.
Qed.

(* the return-value dictionary "d2:id20:....e" with its optional parts *)
Definition resp_len (r : response) : nat :=
  2 + (4 + 23)
  + (match r_values r with [] => 0 | l => 8 + (2 + sum_nat (map peer_len l)) end)
  + (match r_nodes4 r with [] => 0 | l => 7 + slen (length l * 26) end)
  + (match r_nodes6 r with [] => 0 | l => 8 + slen (length l * 38) end)
  + (match r_token r with None => 0 | Some tk => 7 + slen (length tk) end).

Definition families_ok (r : response) : Prop :=
  Forall (fun n => a_v6 (n_addr n) = false) (r_nodes4 r) /\ Forall (fun n => a_v6 (n_addr n) = true) (r_nodes6 r).

Lemma enc_response_length r : families_ok r ->
  exists b, enc_response r = Some b /\ length b = resp_len r.
Proof.
  intros [H4 H6]. unfold enc_response.
  rewrite (enc_nodes_cat false _ H4), (enc_nodes_cat true _ H6).
  eexists. split; [reflexivity|]. rewrite ser_map_length. unfold resp_len.
  pose proof (cat_nodes_length false _ H4) as L4. pose proof (cat_nodes_length true _ H6) as L6.
  change (id_len + addr_len false) with 26 in L4. change (id_len + addr_len true) with 38 in L6.
  destruct (r_values r) as [|a vs] eqn:Ev; destruct (r_nodes4 r) as [|n4 l4] eqn:E4;
    destruct (r_nodes6 r) as [|n6 l6] eqn:E6; destruct (r_token r) as [tk|] eqn:Et;
    cbn [app]; filt; cbn [map sum_nat fold_right]; unfold elen; cbn [fst snd];
    rewrite ?ser_str_len, ?enc_id_length, ?L4, ?L6; cbn [length];
    rewrite ?app_length, ?values_body_length; cbn [length];
    change (slen (length k_id)) with 4; change (slen id_len) with 23;
    try change (slen (length k_values)) with 8; try change (slen (length k_nodes)) with 7;
    try change (slen (length k_nodes6)) with 8; try change (slen (length k_token)) with 7;
    unfold sum_nat; cbn [map fold_right]; lia.
Qed.

(* a whole response datagram: "d1:r" <return values> "1:t" <tid> "1:y1:re" *)
Theorem response_length tid r : families_ok r ->
  exists b, encode_msg (mkMsg tid (Resp r)) = Some b /\ length b = 14 + slen (length tid) + resp_len r.
Proof.
  intros Hf. destruct (enc_response_length r Hf) as [rb [Er Lr]].
  unfold encode_msg. cbn [m_body m_tid]. rewrite Er. eexists. split; [reflexivity|].
  rewrite ser_map_length.
  assert (Hne : rb <> []) by (intros ->; unfold resp_len in Lr; cbn in Lr; lia).
  filt. cbn [map sum_nat fold_right]. unfold elen. cbn [fst snd]. rewrite !ser_str_len, Lr.
  change (slen (length k_t)) with 3. change (slen (length k_y)) with 3. change (slen (length k_r)) with 3. lia.
Qed.

(* an error datagram: "d1:eli" code "e" <text> "e1:t" <tid> "1:y1:ee" *)
Theorem error_length tid c t :
  exists b, encode_msg (mkMsg tid (Err c t)) = Some b /\
            length b = 14 + slen (length tid) + (4 + length (dec_N c) + slen (length t)).
Proof.
  unfold encode_msg. cbn [m_body m_tid]. eexists. split; [reflexivity|].
  rewrite ser_map_length. unfold enc_error, enc_u. filt.
  cbn [map sum_nat fold_right]. unfold elen. cbn [fst snd]. rewrite !ser_str_len. cbn [length]. rewrite !app_length, ser_str_len.
  cbn [length]. rewrite ?app_length. cbn [length].
  change (slen (length k_t)) with 3. change (slen (length k_y)) with 3. change (slen (length k_e)) with 3.
  lia.
Qed.

(* ------------------------------------------------------------------ *)
(* upper bounds                                                       *)

Lemma sum_peer_len_family l v6 :
  forallb (fun a => Bool.eqb (a_v6 a) v6) l = true ->
  sum_nat (map peer_len l) = length l * (if v6 then 21 else 8).
Proof.
  induction l as [|a l IH]; intros H; [reflexivity|]. cbn in H. apply andb_true_iff in H as [Ha Hl].
  cbn [map sum_nat fold_right length]. fold (sum_nat (map peer_len l)). rewrite (IH Hl).
  unfold peer_len. apply Bool.eqb_prop in Ha. rewrite Ha. lia.
Qed.

Lemma slen_mono a b k : a <= b -> b < 10 ^ k -> 1 <= k -> slen a <= k + 1 + b.
Proof. intros Hab Hb Hk. unfold slen. pose proof (dlen_le a k ltac:(lia) Hk). lia. Qed.

(* a response with at most 8 nodes per list, a token of at most 20 bytes and values that take at
   most [vb] bytes of peer strings *)
Lemma resp_len_bound r vb :
  length (r_nodes4 r) <= 8 -> length (r_nodes6 r) <= 8 ->
  (match r_token r with Some tk => length tk <= 20 | None => True end) ->
  sum_nat (map peer_len (r_values r)) <= vb ->
  resp_len r <= 29 + (10 + vb) + 219 + 316 + 30.
Proof.
  intros H4 H6 Ht Hv. unfold resp_len.
  assert (A4 : match r_nodes4 r with [] => 0 | l => 7 + slen (length l * 26) end <= 219).
  { destruct (r_nodes4 r) as [|x l]; [lia|]. pose proof (slen_mono (length (x :: l) * 26) 208 3 ltac:(lia) ltac:(cbn; lia) ltac:(lia)). lia. }
  assert (A6 : match r_nodes6 r with [] => 0 | l => 8 + slen (length l * 38) end <= 316).
  { destruct (r_nodes6 r) as [|x l]; [lia|]. pose proof (slen_mono (length (x :: l) * 38) 304 3 ltac:(lia) ltac:(cbn; lia) ltac:(lia)). lia. }
  assert (At : match r_token r with None => 0 | Some tk => 7 + slen (length tk) end <= 30).
  { destruct (r_token r) as [tk|]; [|lia]. pose proof (slen_mono (length tk) 20 2 Ht ltac:(cbn; lia) ltac:(lia)). lia. }
  assert (Av : match r_values r with [] => 0 | l => 8 + (2 + sum_nat (map peer_len l)) end <= 10 + vb).
  { destruct (r_values r); lia. }
  lia.
Qed.

(* ------------------------------------------------------------------ *)
(* every reply of handle_query                                        *)

(* 1500 - REPLY_OVERHEAD_LEN: up to here the values cap leaves room for everything else.  (The
   bound stays true up to 888 bytes, where the cap is 0 and two full node lists still fit.) *)
Definition max_tid_len : nat := 800.

Lemma forallb_family_false l : forallb (fun n => negb (a_v6 (n_addr n))) l = true -> Forall (fun n => a_v6 (n_addr n) = false) l.
Proof.
  rewrite forallb_forall, Forall_forall. intros H x Hx. specialize (H x Hx). destruct (a_v6 (n_addr x)); [discriminate | reflexivity].
Qed.
Lemma forallb_family_true l : forallb (fun n => a_v6 (n_addr n)) l = true -> Forall (fun n => a_v6 (n_addr n) = true) l.
Proof. rewrite forallb_forall, Forall_forall. auto. Qed.

Lemma max_values_bytes tl v6 : max_values tl v6 * (if v6 then 21 else 8) <= 800 - tl.
Proof.
  unfold max_values.
  change Consts.handler_max_datagram_len_nat with 1500. change Consts.handler_reply_overhead_len_nat with 700.
  change Consts.handler_value_len_v6_nat with 21. change Consts.handler_value_len_v4_nat with 8.
  destruct v6.
  - pose proof (Nat.mul_div_le (1500 - (700 + tl)) 21 ltac:(lia)). lia.
  - pose proof (Nat.mul_div_le (1500 - (700 + tl)) 8 ltac:(lia)). lia.
Qed.

(* the general shape of a reply carrying node lists from find_closest, a 20-byte token or none, and
   capped values of one family *)
Lemma reply_bound tid id vals n4 n6 tok v6 now t own_v6 target w :
  length tid <= max_tid_len ->
  (n4, n6) = find_closest now t own_v6 target w ->
  (match tok with Some k => length k = 20 | None => True end) ->
  forallb (fun a => Bool.eqb (a_v6 a) v6) vals = true ->
  length vals <= max_values (length tid) v6 ->
  exists b, encode_msg (mkMsg tid (Resp (mkResp id vals n4 n6 tok))) = Some b /\ length b <= 1500.
Proof.
  intros Ht Hfc Htok Hfam Hcap.
  pose proof (find_closest_shape now t own_v6 target w) as Hs. rewrite <- Hfc in Hs.
  destruct Hs as [L4 [L6 [F4 [F6 _]]]].
  set (r := mkResp id vals n4 n6 tok).
  assert (Hf : families_ok r) by (split; [apply forallb_family_false; exact F4 | apply forallb_family_true; exact F6]).
  destruct (response_length tid r Hf) as [b [Eb Lb]]. exists b. split; [exact Eb|]. rewrite Lb.
  assert (Hv : sum_nat (map peer_len (r_values r)) <= 800 - length tid).
  { cbn [r r_values]. rewrite (sum_peer_len_family vals v6 Hfam).
    pose proof (max_values_bytes (length tid) v6). nia. }
  pose proof (resp_len_bound r (800 - length tid) L4 L6
                ltac:(cbn [r r_token]; destruct tok; [rewrite Htok; lia | exact I]) Hv) as Hr.
  unfold max_tid_len in Ht.
  pose proof (slen_mono (length tid) 800 3 Ht ltac:(cbn; lia) ltac:(lia)) as Hsl.
  assert (Hsl2 : slen (length tid) <= 4 + length tid).
  { unfold slen. pose proof (dlen_le (length tid) 3 ltac:(cbn; lia) ltac:(lia)). lia. }
  lia.
Qed.

Theorem reply_le_1500 now cf t tk st src tid q m :
  length tid <= max_tid_len ->
  snd (handle_query now cf t tk st src tid q) = Some m ->
  exists b, encode_msg m = Some b /\ length b <= 1500.
Proof.
  intros Ht Hm.
  destruct (c_read_only cf) eqn:Hro.
  { rewrite (hq_read_only now cf t tk st src tid q Hro) in Hm. discriminate. }
  assert (Hsl : slen (length tid) <= 4 + length tid).
  { unfold slen, max_tid_len in *. pose proof (dlen_le (length tid) 3 ltac:(cbn; lia) ltac:(lia)). lia. }
  assert (Hempty : exists b, encode_msg (mkMsg tid (Resp (mkResp (c_id cf) [] [] [] None))) = Some b /\ length b <= 1500).
  { destruct (response_length tid (mkResp (c_id cf) [] [] [] None) ltac:(split; constructor)) as [b [Eb Lb]].
    exists b. split; [exact Eb|]. rewrite Lb. unfold resp_len, max_tid_len in *. cbn [r_values r_nodes4 r_nodes6 r_token]. lia. }
  destruct q as [id | id target w | id ih w | id ih port token].
  - rewrite (hq_ping now cf t tk st src tid id Hro) in Hm. inversion Hm; subst m. exact Hempty.
  - destruct (hq_find_node now cf t tk st src tid id target w Hro) as [n4 [n6 [E Hfc]]].
    rewrite E in Hm. inversion Hm; subst m.
    eapply reply_bound with (v6 := false); try eassumption; [exact I | reflexivity | cbn; lia].
  - destruct (hq_get_peers now cf t tk st src tid id ih w Hro) as [vals [n4 [n6 [k [E [Hk [Hfam [Hcap [_ Hfc]]]]]]]]].
    rewrite E in Hm. inversion Hm; subst m.
    eapply reply_bound with (v6 := a_v6 src); eassumption.
  - pose proof (hq_announce now cf t tk st src tid id ih port token Hro) as Ha. cbn zeta in Ha.
    destruct (handle_query now cf t tk st src tid (AnnouncePeer id ih port token)) as [[[t' tk'] st'] reply].
    cbn [snd] in Hm. subst reply.
    assert (Herr : forall c x, (length (dec_N c) <= 3) -> length x <= 30 ->
                   exists b, encode_msg (mkMsg tid (Err c x)) = Some b /\ length b <= 1500).
    { intros c x Hc Hx. destruct (error_length tid c x) as [b [Eb Lb]]. exists b. split; [exact Eb|]. rewrite Lb.
      pose proof (slen_mono (length x) 30 2 Hx ltac:(cbn; lia) ltac:(lia)). unfold max_tid_len in *. lia. }
    destruct (if Nat.eqb (length token) 20 then _ else false).
    + destruct Ha as [_ Ha]. inversion Ha; subst m.
      destruct (fst (add _ now st)); [exact Hempty | apply Herr; [vm_compute; lia | vm_compute; lia]].
    + destruct Ha as [_ Ha]. inversion Ha; subst m. apply Herr; [vm_compute; lia | vm_compute; lia].
Qed.

(* ------------------------------------------------------------------ *)
(* the queries the node builds                                        *)

Lemma enc_request_nonempty rq : enc_request rq <> [].
Proof. destruct rq; apply ser_map_nonempty. Qed.
#[local] Hint Resolve enc_request_nonempty : nonempty.

Lemma req_length tid rq :
  exists b, encode_msg (mkMsg tid (Req rq)) = Some b /\
            length b = 17 + slen (length tid) + slen (length (method_name rq)) + length (enc_request rq).
Proof.
  unfold encode_msg. cbn [m_body m_tid]. eexists. split; [reflexivity|].
  rewrite ser_map_length. filt. cbn [map sum_nat fold_right]. unfold elen. cbn [fst snd]. rewrite !ser_str_len.
  change (slen (length k_t)) with 3. change (slen (length k_y)) with 3. change (slen (length k_q)) with 3.
  change (slen (length k_a)) with 3. lia.
Qed.

Theorem get_peers_query_length own tid target : length tid = 8 ->
  exists b, encode_msg (mkMsg tid (Req (GetPeers own target None))) = Some b /\ length b = 101.
Proof.
  intros Ht. destruct (req_length tid (GetPeers own target None)) as [b [Eb Lb]]. exists b. split; [exact Eb|].
  rewrite Lb, Ht. cbn [enc_request app]. rewrite ser_map_length. filt.
  cbn [map sum_nat fold_right]. unfold elen. cbn [fst snd]. rewrite !ser_str_len, !enc_id_length. reflexivity.
Qed.

Theorem find_node_query_length own tid target : length tid = 8 ->
  exists b, encode_msg (mkMsg tid (Req (FindNode own target None))) = Some b /\ length b = 98.
Proof.
  intros Ht. destruct (req_length tid (FindNode own target None)) as [b [Eb Lb]]. exists b. split; [exact Eb|].
  rewrite Lb, Ht. cbn [enc_request app]. rewrite ser_map_length. filt.
  cbn [map sum_nat fold_right]. unfold elen. cbn [fst snd]. rewrite !ser_str_len, !enc_id_length. reflexivity.
Qed.

(* announce_peer: 120 bytes + (port digits <= 5 | 1 + 18 for implied_port) + the token string;
   141 + digits(|token|) + |token| at most, reached with implied_port *)
Theorem announce_query_length own tid ih port token : length tid = 8 ->
  (match port with Some p => (p < 65536)%N | None => True end) ->
  exists b, encode_msg (mkMsg tid (Req (AnnouncePeer own ih port token))) = Some b /\
            length b <= 141 + dlen (length token) + length token.
Proof.
  intros Ht Hp. destruct (req_length tid (AnnouncePeer own ih port token)) as [b [Eb Lb]]. exists b. split; [exact Eb|].
  rewrite Lb, Ht. cbn [enc_request]. unfold enc_u. rewrite ser_map_length.
  change (slen 8) with 10.
  destruct port as [p|]; cbn [app]; filt; cbn [map sum_nat fold_right]; unfold elen; cbn [fst snd];
    rewrite !ser_str_len, ?enc_id_length; cbn [length]; rewrite ?app_length; cbn [length];
    change (slen (length k_id)) with 4; change (slen id_len) with 23; change (slen (length k_info_hash)) with 11;
    change (slen (length k_port)) with 6; change (slen (length k_token)) with 7;
    try change (slen (length k_implied_port)) with 15;
    cbn [method_name]; change (slen (length s_announce_peer)) with 16; unfold slen.
  - assert (Hd : length (dec_N p) <= 5).
    { unfold dec_N. apply dec_fuel_len_le; [change (10 ^ N.of_nat 5)%N with 100000%N; lia | lia]. }
    lia.
  - change (length (dec_N 0)) with 1. change (length (ser_int 1)) with 3. lia.
Qed.

(* an announce_peer stays within 1500 bytes as long as the token is at most 1355 bytes *)
Corollary announce_query_le_1500 own tid ih port token : length tid = 8 ->
  (match port with Some p => (p < 65536)%N | None => True end) -> length token <= 1355 ->
  exists b, encode_msg (mkMsg tid (Req (AnnouncePeer own ih port token))) = Some b /\ length b <= 1500.
Proof.
  intros Ht Hp Hk. destruct (announce_query_length own tid ih port token Ht Hp) as [b [Eb Lb]].
  exists b. split; [exact Eb|].
  pose proof (dlen_leN (length token) 4 ltac:(change (10 ^ N.of_nat 4)%N with 10000%N; lia) ltac:(lia)). lia.
Qed.

(* ------------------------------------------------------------------ *)
(* the pinned handler: values were not capped                         *)

Definition uncapped_reply (tid : bytes) (id : N) (vals : list addr) (n4 n6 : list nodeh) (tok : bytes) : msg :=
  mkMsg tid (Resp (mkResp id vals n4 n6 (Some tok))).
