(* The executable checker c10_ok (run/Run_TableCheck.v) never raises an alarm on the model's own
   observations: the per-contact histories it keeps are related to the fields of the model's nodes
   by an invariant (NP), preserved by every operation. *)
From BT Require Import model.Prelude model.Table gen.Consts proofs.Prelude_Facts proofs.Table_Facts
  proofs.TableInv_Facts proofs.TableOps_Facts proofs.AddNode_Spec proofs.Checker_Table_Base
  run.Run_Table run.Run_TableCheck.
From Coq Require Import ZifyBool ZifyN ZifyNat Permutation.
Open Scope Z_scope.

(* ------------------------------------------------------------------ histories *)
Definition ev := (N * addr * Z * N)%type.
Definition mk_ev (id : N) (a : addr) (t : Z) (k : N) : ev := (id, a, t, k).

Lemma min15_val : min15 = 900000000000. Proof. reflexivity. Qed.

Lemma h_eqb_mk id a t k : h_eqb id a (mk_ev id a t k) = true.
Proof. unfold h_eqb, mk_ev. cbn [fst snd]. rewrite N.eqb_refl. apply andb_true_iff. split; [reflexivity | apply addr_eqb_eq; reflexivity]. Qed.

Lemma h_eqb_true_iff id a e : h_eqb id a e = true <-> fst (fst (fst e)) = id /\ snd (fst (fst e)) = a.
Proof. unfold h_eqb. rewrite andb_true_iff, N.eqb_eq, addr_eqb_eq. tauto. Qed.

Lemma h_eqb_mk_other id a id' a' t k : (id', a') <> (id, a) -> h_eqb id a (mk_ev id' a' t k) = false.
Proof.
  intros H. apply not_true_iff_false. intros E. apply h_eqb_true_iff in E as [E1 E2]. cbn in E1, E2. subst. apply H. reflexivity.
Qed.

Lemma tu_cons_other e h id a c : h_eqb id a e = false ->
  two_unanswered_from (e :: h) id a c = two_unanswered_from h id a c.
Proof. intros H. cbn [two_unanswered_from]. rewrite H. reflexivity. Qed.

Lemma tu_cons_01 e h id a c : h_eqb id a e = true -> (ev_kind e = 0%N \/ ev_kind e = 1%N) ->
  two_unanswered_from (e :: h) id a c = false.
Proof. intros H K. cbn [two_unanswered_from]. rewrite H. destruct K as [-> | ->]; reflexivity. Qed.

Lemma tu_cons_2 e h id a c : ev_kind e = 2%N ->
  two_unanswered_from (e :: h) id a c = two_unanswered_from h id a c.
Proof. intros K. cbn [two_unanswered_from]. rewrite K. destruct (h_eqb id a e); reflexivity. Qed.

Lemma tu_cons_3 e h id a c : h_eqb id a e = true -> ev_kind e = 3%N ->
  two_unanswered_from (e :: h) id a c =
  if recent_contact h id a (ev_time e) then two_unanswered_from h id a c
  else match c with O => true | S _ => two_unanswered_from h id a O end.
Proof. intros H K. cbn [two_unanswered_from]. rewrite H, K. reflexivity. Qed.

Lemma recent_contact_false h id a now : recent_contact h id a now = false ->
  forall t k, In (mk_ev id a t k) h -> (k = 0%N \/ k = 2%N) -> min15 <= now - t.
Proof.
  unfold recent_contact. intros H t k Hin Hk.
  destruct (Z.le_gt_cases min15 (now - t)) as [Hle|Hgt]; [exact Hle|]. exfalso.
  assert (existsb (fun e => h_eqb id a e && ((ev_kind e =? 0)%N || (ev_kind e =? 2)%N) && (now - ev_time e <? min15)) h = true); [|congruence].
  apply existsb_exists. exists (mk_ev id a t k). split; [exact Hin|].
  rewrite h_eqb_mk. unfold ev_kind, ev_time, mk_ev. cbn [fst snd].
  destruct Hk as [-> | ->]; cbn [N.eqb orb andb]; apply Z.ltb_lt; lia.
Qed.

(* an answer older than the oldest counted unanswered query is at least 15 minutes older than it *)
Lemma tu_answer_old : forall h id a c, two_unanswered_from h id a c = true ->
  forall tr, In (mk_ev id a tr 0%N) h -> exists e3, In e3 h /\ tr + min15 <= ev_time e3.
Proof.
  induction h as [|e h IH]; intros id a c H tr Hin; [destruct Hin|].
  cbn [two_unanswered_from] in H.
  destruct (h_eqb id a e) eqn:He.
  - destruct ((ev_kind e =? 0)%N || (ev_kind e =? 1)%N) eqn:K01; [discriminate|].
    assert (Hin' : In (mk_ev id a tr 0%N) h).
    { destruct Hin as [->|Hin]; [|exact Hin]. unfold ev_kind, mk_ev in K01. cbn in K01. discriminate. }
    destruct (ev_kind e =? 3)%N eqn:K3.
    + destruct (recent_contact h id a (ev_time e)) eqn:Rc.
      * destruct (IH _ _ _ H tr Hin') as [e3 [A B]]. exists e3. split; [right; exact A | exact B].
      * exists e. split; [left; reflexivity|]. pose proof (recent_contact_false _ _ _ _ Rc tr 0%N Hin' (or_introl eq_refl)). lia.
    + destruct (IH _ _ _ H tr Hin') as [e3 [A B]]. exists e3. split; [right; exact A | exact B].
  - assert (Hin' : In (mk_ev id a tr 0%N) h).
    { destruct Hin as [->|Hin]; [|exact Hin]. rewrite h_eqb_mk in He. discriminate. }
    destruct (IH _ _ _ H tr Hin') as [e3 [A B]]. exists e3. split; [right; exact A | exact B].
Qed.

Definition hist_le (h : hist) (now : Z) : Prop := forall e, In e h -> ev_time e <= now.

Lemma hist_le_mono h t0 now : hist_le h t0 -> t0 <= now -> hist_le h now.
Proof. intros H Hle e He. specialize (H e He). lia. Qed.

Lemma hist_le_cons h id a k now : hist_le h now -> hist_le (mk_ev id a now k :: h) now.
Proof. intros H e [<-|He]; [unfold ev_time, mk_ev; cbn; lia | apply H, He]. Qed.

(* ------------------------------------------------------------------ the invariant of one node *)
Record NP (h : hist) (x : node) : Prop := {
  np_resp : forall tr, last_response x = Some tr ->
      In (mk_ev (nd_id x) (nd_addr x) tr 0%N) h \/
      exists th, In (mk_ev (nd_id x) (nd_addr x) th 1%N) h /\ tr = th - min15;
  np_req : forall tq, last_request x = Some tq -> In (mk_ev (nd_id x) (nd_addr x) tq 2%N) h;
  np_cnt : real x -> forall c, two_unanswered_from h (nd_id x) (nd_addr x) c = true ->
      (match c with O => 1 | S _ => 2 end <= refresh_requests x)%nat
}.

Definition HInv (h : hist) (t : table) : Prop := forall x, tin x t -> NP h x.

Lemma NP_dummy h : NP h dummy_node.
Proof. constructor; [discriminate | discriminate | intros R; exfalso; apply dummy_not_real, R]. Qed.

(* an answer or a hearsay mention of any contact keeps the invariant of every node *)
Lemma NP_cons_01 h e x : (ev_kind e = 0%N \/ ev_kind e = 1%N) -> NP h x -> NP (e :: h) x.
Proof.
  intros K [P1 P2 P3]. constructor.
  - intros tr Hr. destruct (P1 tr Hr) as [H|[th [H1 H2]]]; [left; right; exact H | right; exists th; split; [right; exact H1 | exact H2]].
  - intros tq Hq. right. apply P2, Hq.
  - intros R c H. destruct (h_eqb (nd_id x) (nd_addr x) e) eqn:He.
    + rewrite tu_cons_01 in H by assumption. discriminate.
    + rewrite tu_cons_other in H by assumption. apply P3; assumption.
Qed.

(* any event of another contact keeps it *)
Lemma NP_cons_other h e x : h_eqb (nd_id x) (nd_addr x) e = false -> NP h x -> NP (e :: h) x.
Proof.
  intros He [P1 P2 P3]. constructor.
  - intros tr Hr. destruct (P1 tr Hr) as [H|[th [H1 H2]]]; [left; right; exact H | right; exists th; split; [right; exact H1 | exact H2]].
  - intros tq Hq. right. apply P2, Hq.
  - intros R c H. rewrite tu_cons_other in H by assumption. apply P3; assumption.
Qed.

(* an event of any kind keeps it for a node that is not real *)
Lemma NP_cons_unreal h e x : ~ real x -> NP h x -> NP (e :: h) x.
Proof.
  intros Hn [P1 P2 P3]. constructor.
  - intros tr Hr. exfalso. apply Hn. unfold real. rewrite Hr. discriminate.
  - intros tq Hq. right. apply P2, Hq.
  - intros R. contradiction.
Qed.

Lemma NP_new h id a now (good : bool) :
  NP (mk_ev id a now (if good then 0%N else 1%N) :: h) (if good then as_good id a now else as_questionable id a now).
Proof.
  destruct good; constructor; cbn [as_good as_questionable last_response last_request nd_id nd_addr].
  - intros tr E. inversion E; subst. left. left. reflexivity.
  - discriminate.
  - intros _ c H. rewrite tu_cons_01 in H; [discriminate | apply h_eqb_mk | left; reflexivity].
  - intros tr E. inversion E; subst. right. exists now. split; [left; reflexivity | rewrite max_last_seen_val, min15_val; reflexivity].
  - discriminate.
  - intros _ c H. rewrite tu_cons_01 in H; [discriminate | apply h_eqb_mk | right; reflexivity].
Qed.

Lemma NP_update h now old n k t :
  (k = 0%N \/ k = 1%N) -> same_handle n old = true ->
  NP (mk_ev (nd_id n) (nd_addr n) t k :: h) old -> NP (mk_ev (nd_id n) (nd_addr n) t k :: h) n ->
  NP (mk_ev (nd_id n) (nd_addr n) t k :: h) (node_update now old n).
Proof.
  intros K S Po Pn. destruct (node_update_handle now old n S) as [E1 E2].
  apply same_handle_eq in S as [S1 S2].
  destruct (node_update_fields now old n) as [F1 F2]. cbv zeta in F1, F2.
  constructor; rewrite E1, E2.
  - intros tr Hr. destruct F1 as [F|F]; rewrite F in Hr.
    + apply (np_resp _ _ Po), Hr.
    + rewrite <- S1, <- S2. apply (np_resp _ _ Pn), Hr.
  - intros tq Hq. destruct F2 as [F|F]; rewrite F in Hq.
    + apply (np_req _ _ Po), Hq.
    + rewrite <- S1, <- S2. apply (np_req _ _ Pn), Hq.
  - intros _ c H. rewrite tu_cons_01 in H; [discriminate | rewrite <- S1, <- S2; apply h_eqb_mk | exact K].
Qed.

(* ------------------------------------------------------------------ status versus history *)
Lemma NP_not_good h x now : NP h x -> hist_le h now ->
  recent_contact h (nd_id x) (nd_addr x) now = false -> node_status now x <> Good.
Proof.
  intros [P1 P2 _] Hle Rc Hg. apply status_good_iff in Hg as [tr [Hr Hc]].
  pose proof min15_val as M.
  assert (Hnr : ~ recent now tr).
  { unfold recent, dur_since. destruct (P1 tr Hr) as [H|[th [H1 H2]]].
    - pose proof (recent_contact_false _ _ _ _ Rc tr 0%N H (or_introl eq_refl)). lia.
    - pose proof (Hle _ H1) as Ht. unfold ev_time, mk_ev in Ht. cbn in Ht. lia. }
  destruct Hc as [Hc|[_ [tq [Hq Hc]]]]; [contradiction|].
  pose proof (recent_contact_false _ _ _ _ Rc tq 2%N (P2 tq Hq) (or_intror eq_refl)).
  unfold recent, dur_since in Hc. lia.
Qed.

Lemma NP_two_unanswered_bad h x now : NP h x -> hist_le h now -> real x ->
  two_unanswered h (nd_id x) (nd_addr x) = true -> node_status now x = Bad.
Proof.
  intros P Hle R H. unfold two_unanswered in H.
  pose proof (np_cnt _ _ P R 1%nat H) as Hc. cbn in Hc.
  apply status_bad_iff. destruct (last_response x) as [tr|] eqn:Er; [right | left; reflexivity].
  exists tr. split; [reflexivity|]. split; [|exact Hc].
  pose proof min15_val as M. unfold recent, dur_since.
  destruct (np_resp _ _ P tr Er) as [Ha|[th [H1 H2]]].
  - destruct (tu_answer_old _ _ _ _ H tr Ha) as [e3 [A B]]. pose proof (Hle _ A). lia.
  - pose proof (Hle _ H1) as Ht. unfold ev_time, mk_ev in Ht. cbn in Ht. lia.
Qed.

(* ------------------------------------------------------------------ offers *)
Lemma offer_not_bad now id a (good : bool) :
  node_status now (if good then as_good id a now else as_questionable id a now) <> Bad.
Proof. rewrite offer_status. destruct good; discriminate. Qed.

Lemma offer_handle now id a (good : bool) :
  nd_id (if good then as_good id a now else as_questionable id a now) = id /\
  nd_addr (if good then as_good id a now else as_questionable id a now) = a.
Proof. destruct good; split; reflexivity. Qed.

Lemma adm_dec now t n : node_status now n <> Bad -> nd_addr n <> TableInv_Facts.dummy_addr ->
  adm now t n \/
  (existsb (addr_eqb (nd_addr n)) (routers t) = true \/ node_status now n = Bad \/ lcp (local_id t) (nd_id n) = 160%nat).
Proof.
  intros Hs Ha. unfold adm. destruct (existsb (addr_eqb (nd_addr n)) (routers t)); [right; left; reflexivity|].
  destruct (Nat.eq_dec (lcp (local_id t) (nd_id n)) 160) as [E|E]; [right; right; right; exact E|].
  left. auto.
Qed.

Lemma HInv_offer h t now (good : bool) id a : TInv t -> a <> TableInv_Facts.dummy_addr -> HInv h t ->
  HInv (mk_ev id a now (if good then 0%N else 1%N) :: h)
       (add_node now t (if good then as_good id a now else as_questionable id a now)).
Proof.
  intros I Ha H.
  set (n := if good then as_good id a now else as_questionable id a now).
  destruct (offer_handle now id a good) as [Eid Ead]. fold n in Eid, Ead.
  assert (K : ev_kind (mk_ev id a now (if good then 0%N else 1%N)) = 0%N \/ ev_kind (mk_ev id a now (if good then 0%N else 1%N)) = 1%N)
    by (destruct good; [left | right]; reflexivity).
  destruct (adm_dec now t n (offer_not_bad now id a good) ltac:(rewrite Ead; exact Ha)) as [A|NA].
  - destruct (add_node_spec now t n I A) as [_ _ Mem _ _ _ _].
    intros y Hy. destruct (Mem y Hy) as [->|[[Hyt _]|[->|[old [Ho [So ->]]]]]].
    + apply NP_dummy.
    + apply NP_cons_01; [exact K | apply H, Hyt].
    + apply NP_new.
    + pose proof (NP_update h now old n (if good then 0%N else 1%N) now) as U. rewrite Eid, Ead in U.
      apply U; [destruct good; auto | exact So | | apply NP_new].
      apply NP_cons_01; [exact K|]. apply H. eapply tb_tin; eassumption.
  - rewrite (add_node_not_adm now t n NA). intros y Hy. apply NP_cons_01; [exact K | apply H, Hy].
Qed.

Lemma lcp_160_eq a b : lcp a b = 160%nat -> a = b.
Proof.
  intros H. destruct (N.eq_dec a b) as [E|E]; [exact E|]. pose proof (lcp_lt_160 a b E). lia.
Qed.

(* an accepted answer makes the contact good at once, wherever it is listed *)
Lemma offer_good_immediately t now id a y : TInv t -> a <> TableInv_Facts.dummy_addr ->
  tin y (add_node now t (as_good id a now)) -> is_pingable now y = true ->
  same_handle (as_good id a now) y = true -> node_status now y = Good.
Proof.
  intros I Ha Hy Hp S.
  assert (Ry : real y) by (eapply not_bad_real, notbad_of_pingable, Hp).
  destruct (adm_dec now t (as_good id a now)) as [A|NA]; [rewrite as_good_status; discriminate | exact Ha | |].
  - destruct (add_node_spec now t _ I A) as [_ _ Mem _ _ _ _].
    destruct (Mem y Hy) as [->|[[_ Hn]|[->|[old [Ho [So ->]]]]]].
    + exfalso. apply dummy_not_real, Ry.
    + rewrite (Hn Ry) in S. discriminate.
    + apply as_good_status.
    + apply update_good_status.
  - exfalso. rewrite (add_node_not_adm now t _ NA) in Hy. destruct Hy as [b [Hb Hyb]].
    apply In_nth_error in Hb as [j Hj]. destruct (ti_placed _ I j b y Hj Hyb Ry) as [P1 [P2 _]].
    apply same_handle_eq in S as [S1 S2]. cbn [as_good nd_id nd_addr] in *.
    destruct NA as [NA|[NA|NA]].
    + rewrite S2 in NA. congruence.
    + rewrite as_good_status in NA. discriminate.
    + apply lcp_160_eq in NA. congruence.
Qed.

(* ------------------------------------------------------------------ whole responses *)
Lemma HInv_hearsay_fold now : forall named h t, TInv t -> HInv h t ->
  (forall x, In x named -> snd x <> TableInv_Facts.dummy_addr) ->
  HInv (map (fun x => (fst x, snd x, now, 1%N)) (rev named) ++ h)
       (fold_left (fun tt x => add_node now tt (as_questionable (fst x) (snd x) now)) named t).
Proof.
  induction named as [|x l IH]; intros h t I H Hall; [exact H|].
  rewrite fold_left_cons. cbn [rev]. rewrite map_app, <- app_assoc. cbn [map app].
  assert (Hx : snd x <> TableInv_Facts.dummy_addr) by (apply Hall; left; reflexivity).
  apply IH.
  - apply add_node_inv; assumption.
  - apply (HInv_offer h t now false (fst x) (snd x) I Hx H).
  - intros z Hz. apply Hall. right. exact Hz.
Qed.

Lemma HInv_add_nodes h t now id a named : TInv t -> a <> TableInv_Facts.dummy_addr ->
  (forall x, In x named -> snd x <> TableInv_Facts.dummy_addr) -> HInv h t ->
  HInv (map (fun x => (fst x, snd x, now, 1%N)) (rev named) ++ (id, a, now, 0%N) :: h)
       (add_nodes now t (as_good id a now) named).
Proof.
  intros I Ha Hall H. unfold add_nodes. apply HInv_hearsay_fold; [| |exact Hall].
  - apply add_node_inv; assumption.
  - apply (HInv_offer h t now true id a I Ha H).
Qed.

(* ------------------------------------------------------------------ queries sent and received *)
Lemma update_node_cases now t id a f :
  (found now t id a = false /\ update_node now t id a f = t) \/
  (found now t id a = true /\ exists idx b i x,
     nth_error (buckets t) idx = Some b /\ nth_error b i = Some x /\ is_pingable now x = true /\
     nd_id x = id /\ nd_addr x = a /\
     update_node now t id a f = mkTable (set_nth idx (set_nth i (f x) b) (buckets t)) (local_id t) (routers t)).
Proof.
  unfold found, update_node.
  set (idx := bucket_index_for t id). set (b := nth idx (buckets t) []).
  destruct (position _ b) as [i|] eqn:Ep; [right | left; auto].
  split; [reflexivity|].
  destruct (position_some _ _ _ dummy_node Ep) as [Hil [Hsel Hi]].
  apply andb_true_iff in Hsel as [Hp Hs]. apply same_handle_eq in Hs as [S1 S2]. cbn [nd_id nd_addr] in S1, S2.
  exists idx, b, i, (nth i b dummy_node).
  assert (Hidx : (idx < length (buckets t))%nat).
  { destruct (Nat.lt_ge_cases idx (length (buckets t))) as [H|H]; [exact H|].
    unfold b in Hil. rewrite nth_overflow in Hil by exact H. cbn in Hil. lia. }
  split; [unfold b; apply nth_error_nth'; exact Hidx|]. auto.
Qed.

Lemma NP_remote h x now : NP h x -> NP (mk_ev (nd_id x) (nd_addr x) now 2%N :: h) (remote_request now x).
Proof.
  intros [P1 P2 P3]. constructor; cbn [remote_request nd_id nd_addr last_response last_request refresh_requests].
  - intros tr Hr. destruct (P1 tr Hr) as [H|[th [H1 H2]]]; [left; right; exact H | right; exists th; split; [right; exact H1 | exact H2]].
  - intros tq E. inversion E; subst. left. reflexivity.
  - intros R c H. rewrite tu_cons_2 in H by reflexivity. apply P3; [exact R | exact H].
Qed.

Lemma local_request_fields now x :
  nd_id (local_request now x) = nd_id x /\ nd_addr (local_request now x) = nd_addr x /\
  last_response (local_request now x) = last_response x /\ last_request (local_request now x) = last_request x /\
  (refresh_requests x <= refresh_requests (local_request now x))%nat.
Proof. unfold local_request. destruct (status_eqb _ Good); cbn; repeat split; lia. Qed.

Lemma NP_local h x now : NP h x -> hist_le h now -> NP (mk_ev (nd_id x) (nd_addr x) now 3%N :: h) (local_request now x).
Proof.
  intros P Hle. pose proof P as [P1 P2 P3].
  destruct (local_request_fields now x) as [F1 [F2 [F3 [F4 F5]]]].
  constructor; rewrite F1, F2.
  - rewrite F3. intros tr Hr. destruct (P1 tr Hr) as [H|[th [H1 H2]]]; [left; right; exact H | right; exists th; split; [right; exact H1 | exact H2]].
  - rewrite F4. intros tq Hq. right. apply P2, Hq.
  - intros R c H. assert (Rx : real x) by (unfold real in *; rewrite <- F3; exact R).
    rewrite tu_cons_3 in H; [|apply h_eqb_mk | reflexivity].
    change (ev_time (mk_ev (nd_id x) (nd_addr x) now 3%N)) with now in H.
    destruct (recent_contact h (nd_id x) (nd_addr x) now) eqn:Rc.
    + pose proof (P3 Rx c H). lia.
    + pose proof (NP_not_good h x now P Hle Rc) as Hng.
      destruct (local_request_counts now x Hng) as [C _]. rewrite C.
      destruct c as [|c]; [lia|]. pose proof (P3 Rx O H). cbn in *. lia.
Qed.

Lemma HInv_request h t now id a f k : TInv t -> HInv h t ->
  (forall x, nd_id (f x) = nd_id x /\ nd_addr (f x) = nd_addr x) ->
  (forall x, tin x t -> is_pingable now x = true -> NP (mk_ev (nd_id x) (nd_addr x) now k :: h) (f x)) ->
  found now t id a = true ->
  HInv (mk_ev id a now k :: h) (update_node now t id a f).
Proof.
  intros I H Hf Hnp Hfound.
  destruct (update_node_cases now t id a f) as [[E _]|[_ [idx [b [i [x [Hb [Hi [Hp [Eid [Ead ->]]]]]]]]]]]; [congruence|].
  destruct (tin_set_slot t idx b i x (f x) Hb Hi) as [T1 _].
  assert (Hx : tin x t) by (apply tin_pos; eauto).
  assert (Rx : real x) by (eapply not_bad_real, notbad_of_pingable, Hp).
  intros y Hy. destruct (T1 y Hy) as [->|[j [bj [k' [Hj [Hk Hne]]]]]].
  - rewrite <- Eid, <- Ead. apply Hnp; assumption.
  - assert (Hyt : tin y t) by (apply tin_pos; eauto).
    destruct (h_eqb (nd_id y) (nd_addr y) (mk_ev id a now k)) eqn:He; [|apply NP_cons_other; [exact He | apply H, Hyt]].
    apply h_eqb_true_iff in He as [E1 E2]. cbn in E1, E2.
    destruct (tinv_real_or_dummy t y I Hyt) as [Ry| ->]; [|apply NP_cons_unreal; [apply dummy_not_real | apply NP_dummy]].
    exfalso. destruct (tinv_unique t _ _ _ _ _ _ _ _ I Hj Hk Hb Hi Ry Rx) as [A1 A2]; [|lia].
    apply same_handle_eq. split; congruence.
Qed.

(* ------------------------------------------------------------------ a dump of the model passes *)
Lemma c10_dump_model h t now : HInv h t -> hist_le h now -> c10_dump h now (dump_of now t) = true.
Proof.
  intros H Hle. unfold c10_dump. rewrite live_of_dump. apply andb_true_iff. split; apply forallb_forall; intros s Hs;
    apply in_map_iff in Hs as [x [<- Hx]]; apply live_nodes_in in Hx as [Hxt Hp];
    assert (Hx : tin x t) by exact Hxt; pose proof (H x Hx) as P;
    rewrite (slot_of_live now x Hp); unfold st_of, id_of, addr_of; cbn [fst snd].
  - destruct (recent_contact h (nd_id x) (nd_addr x) now) eqn:Rc; [apply orb_true_r|].
    pose proof (NP_not_good h x now P Hle Rc) as Hng. destruct (node_status now x); [reflexivity | reflexivity | contradiction].
  - destruct (two_unanswered h (nd_id x) (nd_addr x)) eqn:Tu; [|reflexivity]. exfalso.
    assert (Rx : real x) by (eapply not_bad_real, notbad_of_pingable, Hp).
    pose proof (NP_two_unanswered_bad h x now P Hle Rx Tu) as Hb. apply notbad_of_pingable in Hp. contradiction.
Qed.

(* ------------------------------------------------------------------ one step of the checker *)
Lemma c10_step_offer h now good id a r x obs' i :
  (forall now2 r2 d obs2, r = TDump now2 :: r2 -> obs' = ObDump d :: obs2 -> now = now2 -> good = true ->
     existsb (fun s => same_h s (1%N, id, a) && negb (st_of s =? 2)%N) (live_of d) = false) ->
  c10_check h (TOffer now good id a :: r) (x :: obs') i
  = c10_check ((id, a, now, if good then 0%N else 1%N) :: h) r obs' (i + 1)%N.
Proof.
  intros Hc. destruct r as [|o2 r2]; [reflexivity|]. destruct o2; try reflexivity.
  destruct obs' as [|x2 obs2]; [reflexivity|]. destruct x2; try reflexivity.
  destruct good; [|reflexivity].
  cbn [c10_check andb]. destruct (Z.eqb_spec now t) as [E|E]; [|reflexivity].
  rewrite (Hc t r2 l obs2 eq_refl eq_refl E eq_refl). reflexivity.
Qed.

Lemma c10_step_addnodes h now id a named r x obs' i :
  c10_check h (TAddNodes now id a named :: r) (x :: obs') i
  = c10_check (map (fun x => (fst x, snd x, now, 1%N)) (rev named) ++ (id, a, now, 0%N) :: h) r obs' (i + 1)%N.
Proof. reflexivity. Qed.

Lemma c10_step_rreq h now id a b r obs' i :
  c10_check h (TRreq now id a :: r) (ObFound b :: obs') i
  = c10_check (if b then (id, a, now, 2%N) :: h else h) r obs' (i + 1)%N.
Proof. reflexivity. Qed.

Lemma c10_step_lreq h now id a b r obs' i :
  c10_check h (TLreq now id a :: r) (ObFound b :: obs') i
  = c10_check (if b then (id, a, now, 3%N) :: h else h) r obs' (i + 1)%N.
Proof. reflexivity. Qed.

Lemma c10_step_dump h now d r obs' i :
  c10_check h (TDump now :: r) (ObDump d :: obs') i
  = if c10_dump h now d then c10_check h r obs' (i + 1)%N else Some i.
Proof. reflexivity. Qed.

Lemma c10_step_closest h now tg r x obs' i :
  c10_check h (TClosest now tg :: r) (x :: obs') i = c10_check h r obs' (i + 1)%N.
Proof. reflexivity. Qed.

Lemma c10_step_contacts h now r x obs' i :
  c10_check h (TContacts now :: r) (x :: obs') i = c10_check h r obs' (i + 1)%N.
Proof. reflexivity. Qed.

Lemma c10_step_router h a r x obs' i :
  c10_check h (TRouter a :: r) (x :: obs') i = c10_check h r obs' (i + 1)%N.
Proof. reflexivity. Qed.

(* ------------------------------------------------------------------ the whole run *)
Lemma c10_check_run : forall ops t h i t0, TInv t -> HInv h t -> hist_le h t0 ->
  times_from t0 ops = true -> no_router ops = true -> forallb rtop_okb ops = true ->
  c10_check h ops (rt_run t ops) i = None.
Proof.
  induction ops as [|o r IH]; intros t h i t0 I H Hle Ht Hnr Hok; [reflexivity|].
  rewrite rt_run_cons. rewrite no_router_cons in Hnr. apply andb_true_iff in Hnr as [Hnr1 Hnr].
  cbn [forallb] in Hok. apply andb_true_iff in Hok as [Hok1 Hok].
  destruct (rtop_ok_top t o Hok1 ltac:(destruct o; [discriminate | reflexivity ..]) I) as [I' _].
  destruct o as [a|now good id a|now id a named|now id a|now id a|now|now tg|now];
    cbn [times_from op_time] in Ht; try (apply andb_true_iff in Ht as [Ht0 Ht]; apply Z.leb_le in Ht0);
    cbn [rt_step fst snd] in *.
  - discriminate.
  - (* offer *)
    cbn [rtop_okb] in Hok1. apply addr_okb_neq in Hok1.
    rewrite c10_step_offer.
    + apply (IH _ _ _ now); try assumption.
      * apply (HInv_offer h t now good id a I Hok1 H).
      * apply (hist_le_cons h id a _ now). eapply hist_le_mono; eassumption.
    + intros now2 r2 d obs2 -> Eobs <- ->. rewrite rt_run_cons in Eobs. cbn [rt_step fst snd] in Eobs.
      inversion Eobs as [[Ed Eo]]. change (map (map (slot_of now)) (buckets ?t)) with (dump_of now t).
      rewrite live_of_dump.
      destruct (existsb _ _) eqn:Ex; [|reflexivity]. exfalso.
      apply existsb_exists in Ex as [s [Hs Hc]]. apply andb_true_iff in Hc as [Hc1 Hc2].
      apply in_map_iff in Hs as [y [<- Hy]]. apply live_nodes_in in Hy as [Hyt Hp].
      rewrite (slot_of_live now y Hp) in Hc1, Hc2.
      apply same_h_eq in Hc1. unfold hd_s, id_of, addr_of in Hc1. cbn [fst snd] in Hc1. inversion Hc1 as [[E1 E2]].
      assert (Hg : node_status now y = Good).
      { apply (offer_good_immediately t now id a y I Hok1 Hyt Hp). apply same_handle_eq. cbn [as_good nd_id nd_addr]. auto. }
      unfold st_of in Hc2. cbn [fst snd] in Hc2. rewrite Hg in Hc2. discriminate.
  - (* a whole response *)
    cbn [rtop_okb] in Hok1. apply andb_true_iff in Hok1 as [Ha Hn]. apply addr_okb_neq in Ha.
    rewrite c10_step_addnodes. apply (IH _ _ _ now); try assumption.
    + apply HInv_add_nodes; try assumption. intros x Hx. rewrite forallb_forall in Hn. apply addr_okb_neq, Hn, Hx.
    + intros e He. apply in_app_or in He as [He|[<-|He]].
      * apply in_map_iff in He as [x [<- _]]. unfold ev_time. cbn. lia.
      * unfold ev_time. cbn. lia.
      * specialize (Hle e He). lia.
  - (* query sent *)
    rewrite c10_step_lreq. destruct (found now t id a) eqn:Ef.
    + apply (IH _ _ _ now); try assumption.
      * apply (HInv_request h t now id a (local_request now) 3%N I H).
        -- intros x. destruct (local_request_fields now x) as [F1 [F2 _]]. auto.
        -- intros x Hx _. apply NP_local; [apply H, Hx | eapply hist_le_mono; eassumption].
        -- exact Ef.
      * apply (hist_le_cons h id a _ now). eapply hist_le_mono; eassumption.
    + destruct (update_node_cases now t id a (local_request now)) as [[_ E]|[E _]]; [|congruence].
      rewrite E in *. apply (IH _ _ _ now); try assumption. eapply hist_le_mono; eassumption.
  - (* query received *)
    rewrite c10_step_rreq. destruct (found now t id a) eqn:Ef.
    + apply (IH _ _ _ now); try assumption.
      * apply (HInv_request h t now id a (remote_request now) 2%N I H).
        -- intros x. split; reflexivity.
        -- intros x Hx _. apply NP_remote, H, Hx.
        -- exact Ef.
      * apply (hist_le_cons h id a _ now). eapply hist_le_mono; eassumption.
    + destruct (update_node_cases now t id a (remote_request now)) as [[_ E]|[E _]]; [|congruence].
      rewrite E in *. apply (IH _ _ _ now); try assumption. eapply hist_le_mono; eassumption.
  - (* dump *)
    rewrite c10_step_dump. change (map (map (slot_of now)) (buckets t)) with (dump_of now t).
    rewrite (c10_dump_model h t now H) by (eapply hist_le_mono; eassumption).
    apply (IH _ _ _ now); try assumption. eapply hist_le_mono; eassumption.
  - rewrite c10_step_closest. apply (IH _ _ _ now); try assumption. eapply hist_le_mono; eassumption.
  - rewrite c10_step_contacts. apply (IH _ _ _ now); try assumption. eapply hist_le_mono; eassumption.
Qed.

Lemma HInv_init local rts : HInv [] (init_table local rts).
Proof.
  intros x [b [Hb Hx]]. cbn in Hb. destruct Hb as [<-|[]]. apply new_bucket_all_dummy in Hx. subst. apply NP_dummy.
Qed.

Lemma c10_check_routers : forall ops local rts i t0, times_from t0 ops = true ->
  routers_first ops = true -> forallb rtop_okb ops = true ->
  c10_check [] ops (rt_run (init_table local rts) ops) i = None.
Proof.
  induction ops as [|o r IH]; intros local rts i t0 Ht Hrf Hok; [reflexivity|].
  destruct o as [a| | | | | | |];
    try (apply (c10_check_run _ _ [] i t0); [apply TInv_init | apply HInv_init | intros e [] | exact Ht | exact Hrf | exact Hok]).
  rewrite rt_run_cons, rt_step_router. cbn [fst snd]. rewrite init_table_router, c10_step_router.
  cbn [forallb] in Hok. apply andb_true_iff in Hok as [_ Hok]. apply (IH _ _ _ t0); assumption.
Qed.

Lemma times_mono_from : forall ops, times_mono ops = true -> exists t0, times_from t0 ops = true.
Proof.
  induction ops as [|o r IH]; intros H; [exists 0; reflexivity|].
  cbn [times_mono times_from] in *. destruct (op_time o) as [t|].
  - exists t. rewrite Z.leb_refl. exact H.
  - apply IH, H.
Qed.

Theorem c10_ok_model_silent : forall local ops, script_ok_timed ops = true ->
  c10_ok ops (model_obs local ops) = None.
Proof.
  intros local ops H. unfold script_ok_timed, script_ok in H.
  apply andb_true_iff in H as [H Ht]. apply andb_true_iff in H as [Hrf Hok].
  destruct (times_mono_from ops Ht) as [t0 Ht0].
  unfold c10_ok, model_obs. rewrite new_table_init. apply (c10_check_routers ops local [] 0%N t0); assumption.
Qed.

Print Assumptions c10_ok_model_silent.
