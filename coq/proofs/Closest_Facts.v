(* C09: the node lists of find_node / get_peers replies -- distinct, live, counted, nearest bucket first. *)
From BT Require Import model.Prelude model.Compact model.Krpc model.Token model.Storage model.Table model.Txn model.Handler.
From BT Require Import proofs.Prelude_Facts proofs.Table_Facts proofs.TableInv_Facts proofs.TableOps_Facts.
From Coq Require Import Permutation.
Open Scope Z_scope.

Definition hd_of (n : node) : N * addr := (nd_id n, nd_addr n).

Lemma NoDup_map_filter_inj {A B} (g : A -> B) (f : A -> bool) (l : list A) :
  (forall k1 k2 x y, nth_error l k1 = Some x -> nth_error l k2 = Some y -> f x = true -> f y = true ->
     g x = g y -> k1 = k2) ->
  NoDup (map g (filter f l)).
Proof.
  induction l as [|a l IH]; intros H; cbn [filter map]; [constructor|].
  assert (IH' : NoDup (map g (filter f l))).
  { apply IH. intros k1 k2 x y H1 H2 Fx Fy E. specialize (H (S k1) (S k2) x y H1 H2 Fx Fy E). lia. }
  destruct (f a) eqn:Fa; [|exact IH']. cbn [map]. constructor; [|exact IH'].
  intros Hin. apply in_map_iff in Hin as [y [E Hy]]. apply filter_In in Hy as [Hy Fy].
  apply In_nth_error in Hy as [k Hk]. specialize (H O (S k) a y eq_refl Hk Fa Fy (eq_sym E)). lia.
Qed.

Lemma nth_error_concat {A} : forall (ls : list (list A)) k x, nth_error (concat ls) k = Some x ->
  exists i b j, nth_error ls i = Some b /\ nth_error b j = Some x /\
    k = (length (concat (firstn i ls)) + j)%nat.
Proof.
  induction ls as [|b ls IH]; intros k x H; cbn [concat] in H; [destruct k; discriminate|].
  destruct (Nat.lt_ge_cases k (length b)) as [Hlt|Hge].
  - rewrite nth_error_app1 in H by exact Hlt. exists O, b, k. cbn. auto.
  - rewrite nth_error_app2 in H by exact Hge. destruct (IH _ _ H) as [i [b' [j [Hi [Hj Hk]]]]].
    exists (S i), b', j. cbn [nth_error firstn concat]. rewrite app_length. split; [exact Hi|]. split; [exact Hj | lia].
Qed.

Theorem live_handles_nodup now t : TInv t -> NoDup (map hd_of (live_nodes now t)).
Proof.
  intros I. unfold live_nodes. apply NoDup_map_filter_inj.
  intros k1 k2 x y H1 H2 Fx Fy E.
  destruct (nth_error_concat _ _ _ H1) as [i1 [b1 [j1 [A1 [B1 C1]]]]].
  destruct (nth_error_concat _ _ _ H2) as [i2 [b2 [j2 [A2 [B2 C2]]]]].
  destruct (inv_shape now t I) as [_ [_ [_ Hpos]]].
  unfold hd_of in E. inversion E as [[E1 E2]].
  destruct (Hpos i1 j1 i2 j2 b1 b2 x y A1 B1 A2 B2 Fx Fy E1 E2) as [-> ->]. lia.
Qed.

Theorem closest_handles_nodup now t target : TInv t -> NoDup (map hd_of (closest_nodes now t target)).
Proof.
  intros I. eapply Permutation_NoDup; [|apply (live_handles_nodup now t I)].
  apply Permutation_map. apply Permutation_sym. apply closest_is_permutation. apply TInv_enum_ok, I.
Qed.

Lemma NoDup_map_sub {A B} (g : A -> B) (l l' : list A) :
  NoDup (map g l) -> (exists f k, l' = firstn k (filter f l)) -> NoDup (map g l').
Proof.
  intros H [f [k ->]].
  assert (Hf : NoDup (map g (filter f l))).
  { clear k. induction l as [|a l IH]; cbn in *; [constructor|]. inversion H; subst.
    destruct (f a); [|apply IH; assumption]. cbn. constructor; [|apply IH; assumption].
    intros Hin. apply H2. apply in_map_iff in Hin as [y [E Hy]]. apply filter_In in Hy as [Hy _].
    apply in_map_iff. exists y. split; assumption. }
  revert Hf. generalize (filter f l). intros m. revert k. induction m as [|a m IH]; intros k Hm; destruct k; cbn; try constructor.
  - inversion Hm; subst. intros Hin. apply H2. apply in_map_iff in Hin as [y [E Hy]]. apply firstn_in in Hy.
    apply in_map_iff. exists y. split; assumption.
  - inversion Hm; subst. apply IH. assumption.
Qed.

(* the node lists of a reply: distinct contacts, all live table entries of the right family, never the node itself *)
Theorem reply_nodes_distinct now t own_v6 target w : TInv t ->
  let '(n4, n6) := find_closest now t own_v6 target w in
  NoDup (map (fun h => (n_id h, n_addr h)) n4) /\ NoDup (map (fun h => (n_id h, n_addr h)) n6) /\
  (forall h, In h (n4 ++ n6) -> exists n, In n (live_nodes now t) /\ h = nodeh_of n /\ n_id h <> local_id t).
Proof.
  intros I. unfold find_closest.
  set (cl := closest_nodes now t target).
  assert (Hnd : NoDup (map hd_of cl)) by (apply closest_handles_nodup, I).
  assert (Hpick : forall v6 k, NoDup (map (fun h => (n_id h, n_addr h))
                    (map nodeh_of (firstn k (filter (fun n => Bool.eqb (a_v6 (nd_addr n)) v6) cl))))).
  { intros v6 k. rewrite map_map. cbn [nodeh_of n_id n_addr]. apply (NoDup_map_sub hd_of cl); [exact Hnd|]. eauto. }
  assert (Hin : forall v6 k h, In h (map nodeh_of (firstn k (filter (fun n => Bool.eqb (a_v6 (nd_addr n)) v6) cl))) ->
                exists n, In n (live_nodes now t) /\ h = nodeh_of n /\ n_id h <> local_id t).
  { intros v6 k h Hh. apply in_map_iff in Hh as [n [<- Hn]]. apply firstn_in in Hn. apply filter_In in Hn as [Hn _].
    assert (Hl : In n (live_nodes now t)).
    { eapply Permutation_in; [apply closest_is_permutation, TInv_enum_ok, I | exact Hn]. }
    exists n. split; [exact Hl|]. split; [reflexivity|]. cbn [nodeh_of n_id].
    unfold live_nodes in Hl. apply filter_In in Hl as [Hc Hp]. apply in_concat in Hc as [b [Hb Hnb]].
    apply In_nth_error in Hb as [i Hi]. destruct (inv_shape now t I) as [_ [_ [Hpl _]]].
    apply (Hpl i b n Hi Hnb Hp). }
  destruct (match w with Some x => x | None => if own_v6 then WantV6 else WantV4 end);
    (split; [try apply Hpick; constructor | split; [try apply Hpick; constructor|]]);
    intros h Hh; apply in_app_or in Hh as [Hh|Hh]; try (eapply Hin; exact Hh); try contradiction.
Qed.

(* how many: min(8, live nodes of that family) -- nothing live is withheld while there is room *)
Lemma perm_filter_length {A} (f : A -> bool) l l' : Permutation l l' -> length (filter f l) = length (filter f l').
Proof. induction 1; cbn; try destruct (f x); try destruct (f y); cbn; congruence. Qed.

Theorem reply_nodes_count now t own_v6 target w : TInv t ->
  let '(n4, n6) := find_closest now t own_v6 target w in
  let fam v6 := length (filter (fun n => Bool.eqb (a_v6 (nd_addr n)) v6) (live_nodes now t)) in
  match (match w with Some x => x | None => if own_v6 then WantV6 else WantV4 end) with
  | WantV4 => length n4 = Nat.min Consts.handler_nodes_take_v4_nat (fam false)
  | WantV6 => length n6 = Nat.min Consts.handler_nodes_take_v6_nat (fam true)
  | WantBoth => length n4 = Nat.min Consts.handler_nodes_take_v4_nat (fam false) /\
                length n6 = Nat.min Consts.handler_nodes_take_v6_nat (fam true)
  end.
Proof.
  intros I. unfold find_closest.
  assert (H : forall v6 k, length (map nodeh_of (firstn k (filter (fun n => Bool.eqb (a_v6 (nd_addr n)) v6) (closest_nodes now t target))))
                           = Nat.min k (length (filter (fun n => Bool.eqb (a_v6 (nd_addr n)) v6) (live_nodes now t)))).
  { intros v6 k. rewrite map_length, firstn_length.
    rewrite (perm_filter_length _ _ _ (closest_is_permutation now t target (TInv_enum_ok now t I))). reflexivity. }
  destruct (match w with Some x => x | None => if own_v6 then WantV6 else WantV4 end); try split; apply H.
Qed.

(* nearest bucket first: the enumeration starts with the live nodes of the bucket the target falls into *)
Theorem closest_starts_at_target_bucket now t target :
  let bs := buckets t in
  let full := Nat.eqb (length bs) max_buckets in
  let sorted := if full then bs else removelast bs in
  let assorted := if full then [] else List.last bs [] in
  let i := lcp (local_id t) target in
  exists rest, closest_nodes now t target =
    (filter (is_pingable now) (nth i sorted [])
     ++ filter (fun n => is_pingable now n && Nat.eqb (lcp (local_id t) (nd_id n)) i) assorted) ++ rest.
Proof.
  cbn zeta. unfold closest_nodes, bucket_walk. cbn [walk flat_map]. eexists. reflexivity.
Qed.
