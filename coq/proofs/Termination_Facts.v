(* Facts about the end of a search (C04): no search is ever left without a pending timer entry of
   its own (so none can wait for ever), a search leaves the set of open searches exactly when its
   stream end is emitted, and the only event that ends an open search is the firing of its end-game
   timer entry. *)
From BT Require Import model.Prelude gen.Consts model.Compact model.Krpc model.Token model.Storage model.Table model.Txn model.Handler.
From BT Require Import proofs.Prelude_Facts proofs.Txn_Facts proofs.Table_Facts proofs.TableInv_Facts proofs.Handler_Facts proofs.Refresh_Facts.
From Coq Require Import ZifyBool ZifyN ZifyNat Permutation.
Open Scope Z_scope.

(* ------------------------------------------------------------------ the transaction ids in use *)
(* The first K activities get pairwise distinct action ids that fit the 5-byte prefix, and their
   message ids fit the 3-byte suffix.  The real generators guarantee this for K = 2^40 activities
   (props/C19.v: c19_aid_no_repeat_before_wrap, aid_lt, mid_lt).  Injectivity cannot be assumed for
   all activity indices at once (there are only 2^40 prefixes), hence the bound K. *)
Record GoodIds (I : ids) (K : nat) : Prop := {
  gi_aid : forall a, (a < K)%nat -> (aid_of I a < 2 ^ 40)%N;
  gi_mid : forall a m, (a < K)%nat -> (mid_of I a m < 2 ^ 24)%N;
  gi_inj : forall a b, (a < K)%nat -> (b < K)%nat -> aid_of I a = aid_of I b -> a = b
}.

Lemma tid_action_compose aid mid : (aid < 2 ^ 40)%N -> (mid < 2 ^ 24)%N -> tid_action (tid_bytes aid mid) = Some aid.
Proof.
  intros Ha Hm. unfold tid_action, tid_bytes. rewrite from_bytes_spec, compose_length. cbn [Nat.eqb].
  rewrite compose_action_id by assumption. reflexivity.
Qed.

Lemma GoodIds_tid I K a m : GoodIds I K -> (a < K)%nat ->
  tid_action (tid_bytes (aid_of I a) (mid_of I a m)) = Some (aid_of I a).
Proof. intros H Ha. apply tid_action_compose; [apply (gi_aid _ _ H), Ha | apply (gi_mid _ _ H), Ha]. Qed.

(* ------------------------------------------------------------------ what a search waits for *)
(* the activity a timer entry belongs to *)
Definition task_owner (k : task) : option N :=
  match k with
  | TkRefresh => None
  | TkLookupTimeout t => tid_action t
  | TkLookupEndGame t => tid_action t
  end.

(* the timeout of the query [tid], remembered under [key], is pending and due within 1.5 s *)
Definition TimeoutEntry (now : Z) (tm : timer) (tid : bytes) (key : Z * N) : Prop :=
  exists e, In e (tm_entries tm) /\ te_key e = key /\ te_task e = TkLookupTimeout tid /\
            te_deadline e <= now + lookup_timeout.

(* every outstanding query carries the action id of its search, and its timeout is pending *)
Definition ActsOK (I : ids) (now : Z) (tm : timer) (act : nat) (a : list (bytes * (N * (Z * N)))) : Prop :=
  forall x, In x a -> tid_action (fst x) = Some (aid_of I act) /\ TimeoutEntry now tm (fst x) (snd (snd x)).

(* the end-game entry of the search is pending and due within 1.5 s; the queries of the end-game
   round remember its key *)
Definition EndgameEntry (I : ids) (now : Z) (tm : timer) (act : nat) (a : list (bytes * (N * (Z * N)))) : Prop :=
  exists e tid, In e (tm_entries tm) /\ te_task e = TkLookupEndGame tid /\
                tid_action tid = Some (aid_of I act) /\ te_deadline e <= now + endgame_timeout /\
                forall x, In x a -> snd (snd x) = te_key e.

Definition Wait (I : ids) (now : Z) (tm : timer) (lk : lookup) : Prop :=
  (lk_endgame lk = false -> ActsOK I now tm (lk_act lk) (lk_active lk)) /\
  (lk_endgame lk = true -> EndgameEntry I now tm (lk_act lk) (lk_active lk)).

Definition Grow (tm tm' : timer) : Prop := incl (tm_entries tm) (tm_entries tm').

Lemma Grow_refl tm : Grow tm tm.
Proof. apply incl_refl. Qed.

Lemma Grow_trans a b c : Grow a b -> Grow b c -> Grow a c.
Proof. intros H1 H2 e He. apply H2, H1, He. Qed.

Lemma Grow_schedule now d k tm : Grow tm (fst (schedule_in now d k tm)).
Proof. intros e He. cbn. apply in_or_app. left. exact He. Qed.

Lemma TimeoutEntry_grow now tm tm' tid key : Grow tm tm' -> TimeoutEntry now tm tid key -> TimeoutEntry now tm' tid key.
Proof. intros G [e [He X]]. exists e. split; [apply G, He | exact X]. Qed.

Lemma ActsOK_grow I now tm tm' act a : Grow tm tm' -> ActsOK I now tm act a -> ActsOK I now tm' act a.
Proof. intros G H x Hx. destruct (H x Hx) as [H1 H2]. split; [exact H1 | eapply TimeoutEntry_grow; eassumption]. Qed.

Lemma EndgameEntry_grow I now tm tm' act a : Grow tm tm' -> EndgameEntry I now tm act a -> EndgameEntry I now tm' act a.
Proof. intros G [e [tid [He X]]]. exists e, tid. split; [apply G, He | exact X]. Qed.

Lemma Wait_grow I now tm tm' lk : Grow tm tm' -> Wait I now tm lk -> Wait I now tm' lk.
Proof.
  intros G [H1 H2]. split; intros E; [eapply ActsOK_grow; [exact G | apply H1, E] | eapply EndgameEntry_grow; [exact G | apply H2, E]].
Qed.

Lemma ActsOK_later I now now' tm act a : now <= now' -> ActsOK I now tm act a -> ActsOK I now' tm act a.
Proof.
  intros Hn H x Hx. destruct (H x Hx) as [H1 [e [He [Hk [Ht Hd]]]]]. split; [exact H1|].
  exists e. repeat split; try assumption. lia.
Qed.

Lemma EndgameEntry_later I now now' tm act a : now <= now' -> EndgameEntry I now tm act a -> EndgameEntry I now' tm act a.
Proof.
  intros Hn [e [tid [He [Ht [Ho [Hd Hk]]]]]]. exists e, tid. repeat split; try assumption. lia.
Qed.

Lemma Wait_later I now now' tm lk : now <= now' -> Wait I now tm lk -> Wait I now' tm lk.
Proof.
  intros Hn [H1 H2]. split; intros E; [eapply ActsOK_later; [exact Hn | apply H1, E] | eapply EndgameEntry_later; [exact Hn | apply H2, E]].
Qed.

Lemma ActsOK_nil I now tm act : ActsOK I now tm act [].
Proof. intros x []. Qed.

Lemma ActsOK_sub I now tm act a a' : (forall x, In x a' -> In x a) -> ActsOK I now tm act a -> ActsOK I now tm act a'.
Proof. intros Hs H x Hx. apply H, Hs, Hx. Qed.

Lemma EndgameEntry_sub I now tm act a a' : (forall x, In x a' -> In x a) -> EndgameEntry I now tm act a -> EndgameEntry I now tm act a'.
Proof.
  intros Hs [e [tid [He [Ht [Ho [Hd Hk]]]]]]. exists e, tid. repeat split; try assumption. intros x Hx. apply Hk, Hs, Hx.
Qed.

(* entries are told apart by their ids *)
Lemma same_id_same_entry tm e1 e2 : TmOK tm -> In e1 (tm_entries tm) -> In e2 (tm_entries tm) -> te_id e1 = te_id e2 -> e1 = e2.
Proof. intros [_ H]. eapply NoDup_map_inj. exact H. Qed.

Lemma key_eqb_true a b : key_eqb a b = true -> snd a = snd b.
Proof. unfold key_eqb. intros H. apply andb_true_iff in H as [_ H]. apply N.eqb_eq in H. exact H. Qed.

Lemma in_cancel key tm e : In e (tm_entries tm) -> te_id e <> snd key -> In e (tm_entries (cancel key tm)).
Proof.
  intros He Hn. apply cancel_spec. split; [exact He|]. destruct (key_eqb (te_deadline e, te_id e) key) eqn:E; [|reflexivity].
  apply key_eqb_true in E. cbn [snd] in E. contradiction.
Qed.

(* cancelling a key whose entries (if any) belong to other activities does not disturb a search *)
Lemma Wait_cancel I now tm key lk :
  (forall e, In e (tm_entries tm) -> te_id e = snd key -> task_owner (te_task e) <> Some (aid_of I (lk_act lk))) ->
  Wait I now tm lk -> Wait I now (cancel key tm) lk.
Proof.
  intros Hf [H1 H2]. split; intros E.
  - intros x Hx. destruct (H1 E x Hx) as [Ho [e [He [Hk [Ht Hd]]]]]. split; [exact Ho|].
    exists e. split; [|auto]. apply in_cancel; [exact He|]. intros Eid. apply (Hf e He Eid). rewrite Ht. exact Ho.
  - destruct (H2 E) as [e [tid [He [Ht [Ho X]]]]]. exists e, tid. split; [|auto].
    apply in_cancel; [exact He|]. intros Eid. apply (Hf e He Eid). rewrite Ht. exact Ho.
Qed.

(* the firing (or cancellation) of an entry of another activity *)
Lemma Wait_pop I now tm e lk : TmOK tm -> In e (tm_entries tm) ->
  task_owner (te_task e) <> Some (aid_of I (lk_act lk)) -> Wait I now tm lk -> Wait I now (cancel (te_key e) tm) lk.
Proof.
  intros HT He Ho. apply Wait_cancel. intros e2 He2 Eid. cbn [te_key snd] in Eid.
  rewrite (same_id_same_entry tm e2 e HT He2 He Eid). exact Ho.
Qed.

(* the timeout entry of the query [tid] goes away: the queries with other ids keep theirs *)
Lemma ActsOK_drop I now tm e tid act a a' : TmOK tm -> In e (tm_entries tm) -> te_task e = TkLookupTimeout tid ->
  (forall x, In x a' -> In x a /\ fst x <> tid) ->
  ActsOK I now tm act a -> ActsOK I now (cancel (te_key e) tm) act a'.
Proof.
  intros HT He Ht Hs H x Hx. destruct (Hs x Hx) as [Hin Hne]. destruct (H x Hin) as [Ho [e2 [He2 [Hk [Ht2 Hd]]]]].
  split; [exact Ho|]. exists e2. split; [|auto]. apply in_cancel; [exact He2|]. cbn [te_key snd]. intros Eid.
  rewrite (same_id_same_entry tm e2 e HT He2 He Eid) in Ht2. rewrite Ht in Ht2. inversion Ht2. apply Hne. symmetry. assumption.
Qed.

(* an entry that is not an end-game entry goes away: end-game entries stay *)
Lemma EndgameEntry_pop I now tm e act a : TmOK tm -> In e (tm_entries tm) ->
  (forall t, te_task e <> TkLookupEndGame t) ->
  EndgameEntry I now tm act a -> EndgameEntry I now (cancel (te_key e) tm) act a.
Proof.
  intros HT He Hn [e2 [tid [He2 [Ht X]]]]. exists e2, tid. split; [|auto].
  apply in_cancel; [exact He2|]. cbn [te_key snd]. intros Eid.
  rewrite (same_id_same_entry tm e2 e HT He2 He Eid) in Ht. exact (Hn tid Ht).
Qed.

Lemma in_filter_tid (a : list (bytes * (N * (Z * N)))) tid x :
  In x (filter (fun e => negb (bytes_eqb (fst e) tid)) a) -> In x a /\ fst x <> tid.
Proof.
  intros H. apply filter_In in H as [H1 H2]. split; [exact H1|]. intros E. apply negb_true_iff in H2.
  rewrite (proj2 (bytes_eqb_eq _ _) E) in H2. discriminate.
Qed.

(* ------------------------------------------------------------------ the search code *)
Section LookupWait.
  Variable I : ids.
  Variable K : nat.
  Hypothesis HI : GoodIds I K.
  Variable sendok : nat -> bool.
  Variable own : N.
  Variable now : Z.

  Lemma request_round_wait : forall nodes lk c sent, (lk_act lk < K)%nat ->
    Grow (cx_timer c) (cx_timer (snd (fst (request_round I sendok own now nodes lk c sent)))) /\
    lk_endgame (fst (fst (request_round I sendok own now nodes lk c sent))) = lk_endgame lk /\
    (ActsOK I now (cx_timer c) (lk_act lk) (lk_active lk) ->
     ActsOK I now (cx_timer (snd (fst (request_round I sendok own now nodes lk c sent)))) (lk_act lk)
            (lk_active (fst (fst (request_round I sendok own now nodes lk c sent))))).
  Proof.
    induction nodes as [|[h d] r IH]; intros lk c sent HK; cbn [request_round].
    - cbn [fst snd]. split; [apply Grow_refl | split; [reflexivity | auto]].
    - destruct (gen_tid I lk) as [tid lk1] eqn:Eg. unfold gen_tid in Eg. inversion Eg; subst tid lk1. clear Eg.
      pose proof (GoodIds_tid I K (lk_act lk) (lk_next lk) HI HK) as Ho.
      set (tid := tid_bytes _ _) in *.
      pose proof (Grow_schedule now lookup_timeout (TkLookupTimeout tid) (cx_timer c)) as G1.
      assert (N1 : TimeoutEntry now (fst (schedule_in now lookup_timeout (TkLookupTimeout tid) (cx_timer c))) tid
                     (snd (schedule_in now lookup_timeout (TkLookupTimeout tid) (cx_timer c)))).
      { eexists. split; [cbn; apply in_or_app; right; left; reflexivity|]. cbn. repeat split. lia. }
      destruct (schedule_in now lookup_timeout (TkLookupTimeout tid) (cx_timer c)) as [tm key]. cbn [fst snd] in G1, N1.
      assert (HA1 : ActsOK I now (cx_timer c) (lk_act lk) (lk_active lk) ->
                    ActsOK I now tm (lk_act lk) (active_insert (lk_active lk) tid (d, key))).
      { intros HA x Hx. unfold active_insert in Hx. destruct Hx as [<-|Hx]; [split; [exact Ho | exact N1]|].
        apply filter_In in Hx as [Hx _]. eapply ActsOK_grow; [exact G1 | exact HA | exact Hx]. }
      destruct (send sendok _ (snd h) _) as [c2 ok] eqn:Es. unfold send in Es. inversion Es; subst c2 ok. clear Es.
      destruct (sendok (cx_sends c)).
      + match goal with |- context [request_round I sendok own now r ?l ?cc ?sn] =>
          destruct (IH l cc sn HK) as [G2 [E2 A2]] end.
        split; [eapply Grow_trans; [exact G1 | exact G2]|]. split; [exact E2|]. intros HA. apply A2, HA1, HA.
      + match goal with |- context [request_round I sendok own now r ?l ?cc ?sn] =>
          destruct (IH l cc sn HK) as [G2 [E2 A2]] end.
        split; [eapply Grow_trans; [exact G1 | exact G2]|]. split; [exact E2|]. intros HA. apply A2, HA1, HA.
  Qed.

  Lemma start_request_round_wait nodes lk c : (lk_act lk < K)%nat ->
    Grow (cx_timer c) (cx_timer (snd (start_request_round I sendok own now nodes lk c))) /\
    lk_endgame (fst (start_request_round I sendok own now nodes lk c)) = lk_endgame lk /\
    (ActsOK I now (cx_timer c) (lk_act lk) (lk_active lk) ->
     ActsOK I now (cx_timer (snd (start_request_round I sendok own now nodes lk c))) (lk_act lk)
            (lk_active (fst (start_request_round I sendok own now nodes lk c)))).
  Proof.
    intros HK. unfold start_request_round. destruct (request_round_wait nodes lk c O HK) as [G [E A]].
    destruct (request_round I sendok own now nodes lk c 0) as [[lk' c'] sent]. cbn [fst snd] in *.
    split; [exact G|]. destruct (Nat.eqb sent 0); cbn [lk_endgame lk_active set_active]; (split; [exact E|]); [intros _; apply ActsOK_nil | exact A].
  Qed.

  (* the end-game round schedules nothing; its queries remember the key of the end-game entry *)
  Lemma endgame_sends_wait : forall todo key lk c,
    cx_timer (snd (endgame_sends I sendok own now todo key lk c)) = cx_timer c /\
    lk_endgame (snd (fst (endgame_sends I sendok own now todo key lk c))) = lk_endgame lk /\
    (forall x, In x (lk_active (snd (fst (endgame_sends I sendok own now todo key lk c)))) ->
       In x (lk_active lk) \/ snd (snd x) = key).
  Proof.
    induction todo as [|[[d h] q] r IH]; intros key lk c; cbn [endgame_sends]; [cbn [fst snd]; auto|].
    destruct q.
    - specialize (IH key lk c). destruct (endgame_sends I sendok own now r key lk c) as [[r' lk'] c']. exact IH.
    - destruct (gen_tid I lk) as [tid lk1] eqn:Eg. unfold gen_tid in Eg. inversion Eg; subst tid lk1. clear Eg.
      set (tid := tid_bytes _ _).
      destruct (send sendok c (snd h) _) as [c1 ok] eqn:Es. unfold send in Es. inversion Es; subst c1 ok. clear Es.
      assert (X : forall x, In x (active_insert (lk_active lk) tid (d, key)) -> In x (lk_active lk) \/ snd (snd x) = key).
      { intros x Hx. unfold active_insert in Hx. destruct Hx as [<-|Hx]; [right; reflexivity|].
        apply filter_In in Hx as [Hx _]. left. exact Hx. }
      destruct (sendok (cx_sends c)).
      + match goal with |- context [endgame_sends I sendok own now r key ?l ?cc] =>
          destruct (IH key l cc) as [E1 [E2 E3]]; destruct (endgame_sends I sendok own now r key l cc) as [[r' lk'] c'] end.
        cbn [fst snd] in *. split; [exact E1|]. split; [exact E2|]. intros x Hx. destruct (E3 x Hx) as [Y|Y]; [apply X, Y | right; exact Y].
      + match goal with |- context [endgame_sends I sendok own now r key ?l ?cc] =>
          destruct (IH key l cc) as [E1 [E2 E3]]; destruct (endgame_sends I sendok own now r key l cc) as [[r' lk'] c'] end.
        cbn [fst snd] in *. split; [exact E1|]. split; [exact E2|]. intros x Hx. destruct (E3 x Hx) as [Y|Y]; [apply X, Y | right; exact Y].
  Qed.

  Lemma start_endgame_wait lk c : (lk_act lk < K)%nat -> lk_active lk = [] ->
    Grow (cx_timer c) (cx_timer (snd (start_endgame I sendok own now lk c))) /\
    lk_endgame (fst (start_endgame I sendok own now lk c)) = true /\
    EndgameEntry I now (cx_timer (snd (start_endgame I sendok own now lk c))) (lk_act lk)
                 (lk_active (fst (start_endgame I sendok own now lk c))).
  Proof.
    intros HK Hnil. unfold start_endgame.
    destruct (gen_tid I lk) as [tid lk1] eqn:Eg. unfold gen_tid in Eg. inversion Eg; subst tid lk1. clear Eg.
    pose proof (GoodIds_tid I K (lk_act lk) (lk_next lk) HI HK) as Ho.
    set (tid := tid_bytes _ _) in *.
    pose proof (Grow_schedule now endgame_timeout (TkLookupEndGame tid) (cx_timer c)) as G1.
    set (en := mkTE (now + endgame_timeout) (tm_next (cx_timer c)) (TkLookupEndGame tid)).
    assert (N1 : In en (tm_entries (fst (schedule_in now endgame_timeout (TkLookupEndGame tid) (cx_timer c)))) /\
                 te_key en = snd (schedule_in now endgame_timeout (TkLookupEndGame tid) (cx_timer c))).
    { split; [cbn; apply in_or_app; right; left; reflexivity | reflexivity]. }
    destruct (schedule_in now endgame_timeout (TkLookupEndGame tid) (cx_timer c)) as [tm key]. cbn [fst snd] in G1, N1.
    destruct N1 as [N1 N2].
    match goal with |- context [endgame_sends I sendok own now ?t key ?l ?cc] =>
      destruct (endgame_sends_wait t key l cc) as [E1 [E2 E3]];
      destruct (endgame_sends I sendok own now t key l cc) as [[r' lk'] c'] end.
    cbn [fst snd cx_timer lk_active lk_endgame] in *. rewrite E1. split; [exact G1|]. split; [exact E2|].
    exists en, tid. split; [exact N1|].
    split; [reflexivity|]. split; [exact Ho|]. split; [cbn; lia|].
    intros x Hx. destruct (E3 x Hx) as [Y|Y]; [rewrite Hnil in Y; destruct Y | rewrite Y, N2; reflexivity].
  Qed.

  Lemma rr_accept_fields lk from tid r v6 d :
    lk_endgame (fst (fst (rr_accept lk from tid r v6 d))) = lk_endgame lk /\
    lk_active (fst (fst (rr_accept lk from tid r v6 d))) = filter (fun e => negb (bytes_eqb (fst e) tid)) (lk_active lk).
  Proof. unfold rr_accept. cbn [fst]. destruct (r_token r); split; reflexivity. Qed.

  Lemma ongoing_endgame lk : lk_endgame lk = true -> lookup_ongoing lk = true.
  Proof. intros H. unfold lookup_ongoing. rewrite H. reflexivity. Qed.

  Lemma ongoing_active lk : lk_active lk <> [] -> lookup_ongoing lk = true.
  Proof. intros H. unfold lookup_ongoing. destruct (lk_active lk); [contradiction | apply orb_true_r]. Qed.

  (* the second half of recv_response never leaves a search without something to wait for *)
  Lemma rr_continue_wait lk2 c0 it nd : (lk_act lk2 < K)%nat -> Wait I now (cx_timer c0) lk2 ->
    Grow (cx_timer c0) (cx_timer (snd (rr_continue I sendok own now lk2 c0 it nd))) /\
    Wait I now (cx_timer (snd (rr_continue I sendok own now lk2 c0 it nd))) (fst (rr_continue I sendok own now lk2 c0 it nd)) /\
    lookup_ongoing (fst (rr_continue I sendok own now lk2 c0 it nd)) = true.
  Proof.
    intros HK HW. pose proof (rr_continue_act I sendok own now lk2 c0 it nd) as Ea.
    unfold rr_continue in *. destruct (lk_endgame lk2) eqn:Eeg.
    { cbn [fst snd]. split; [apply Grow_refl|]. split; [exact HW | apply ongoing_endgame, Eeg]. }
    assert (X : exists lk' c', (match it with
                                | Some it0 => start_request_round I sendok own now (map (fun h => (h, nd)) (used_slots it0)) lk2 c0
                                | None => (lk2, c0) end) = (lk', c') /\
                Grow (cx_timer c0) (cx_timer c') /\ lk_endgame lk' = false /\ lk_act lk' = lk_act lk2 /\
                ActsOK I now (cx_timer c') (lk_act lk2) (lk_active lk')).
    { destruct it as [it0|].
      - destruct (start_request_round_wait (map (fun h => (h, nd)) (used_slots it0)) lk2 c0 HK) as [G [E A]].
        pose proof (start_request_round_act I sendok own now (map (fun h => (h, nd)) (used_slots it0)) lk2 c0) as Eact.
        destruct (start_request_round I sendok own now _ lk2 c0) as [lk' c']. cbn [fst snd] in *.
        exists lk', c'. split; [reflexivity|]. split; [exact G|]. split; [congruence|]. split; [exact Eact|]. apply A, (proj1 HW), Eeg.
      - exists lk2, c0. split; [reflexivity|]. split; [apply Grow_refl|]. split; [exact Eeg|]. split; [reflexivity|]. apply (proj1 HW), Eeg. }
    destruct X as [lk' [c' [E [G [Eeg' [Eact A]]]]]]. rewrite E in *.
    destruct (lk_active lk') as [|x0 xs] eqn:El.
    - assert (HK' : (lk_act lk' < K)%nat) by (rewrite Eact; exact HK).
      destruct (start_endgame_wait lk' c' HK' El) as [G2 [E2 W2]].
      split; [eapply Grow_trans; eassumption|]. split; [|apply ongoing_endgame, E2].
      split; intros E3; [congruence|]. rewrite start_endgame_act. exact W2.
    - cbn [fst snd]. split; [exact G|]. split; [|apply ongoing_active; rewrite El; discriminate].
      split; intros E3; [rewrite Eact, El; exact A | congruence].
  Qed.

  (* a response: the search goes on waiting, and the other searches are not disturbed *)
  Lemma recv_response_wait lk c from tid r v6 : TmOK (cx_timer c) -> (lk_act lk < K)%nat ->
    Wait I now (cx_timer c) lk -> lookup_ongoing lk = true ->
    Wait I now (cx_timer (snd (recv_response I sendok own now lk c from tid r v6))) (fst (recv_response I sendok own now lk c from tid r v6)) /\
    lookup_ongoing (fst (recv_response I sendok own now lk c from tid r v6)) = true /\
    (forall l, (lk_act l < K)%nat -> lk_act l <> lk_act lk -> Wait I now (cx_timer c) l ->
               Wait I now (cx_timer (snd (recv_response I sendok own now lk c from tid r v6))) l).
  Proof.
    intros HT HK HW Hon. unfold recv_response.
    destruct (List.find (fun e => bytes_eqb (fst e) tid) (lk_active lk)) as [[t0 [dist key]]|] eqn:Ef; [|cbn [fst snd]; auto].
    apply find_some in Ef as [Hin Et]. cbn [fst] in Et. apply bytes_eqb_eq in Et. subst t0.
    set (c0 := if lk_endgame lk then c else _).
    destruct (rr_accept_fields lk from tid r v6 dist) as [F1 F2]. pose proof (rr_accept_act lk from tid r v6 dist) as F3.
    assert (X : Wait I now (cx_timer c0) (fst (fst (rr_accept lk from tid r v6 dist))) /\
                (forall l, (lk_act l < K)%nat -> lk_act l <> lk_act lk -> Wait I now (cx_timer c) l -> Wait I now (cx_timer c0) l)).
    { unfold c0. destruct (lk_endgame lk) eqn:Eeg.
      - split; [|auto]. split; intros E; [congruence|]. rewrite F2, F3.
        eapply EndgameEntry_sub; [|apply (proj2 HW), Eeg]. intros x Hx. apply in_filter_tid in Hx as [Hx _]. exact Hx.
      - destruct (proj1 HW Eeg _ Hin) as [Ho [e [He [Hk [Ht Hd]]]]]. cbn [fst snd] in Ho, Hk, Ht. cbn [cx_timer]. rewrite <- Hk.
        split.
        + split; intros E; [|congruence]. rewrite F2, F3.
          eapply ActsOK_drop; [exact HT | exact He | exact Ht | apply in_filter_tid | apply (proj1 HW), Eeg].
        + intros l Hl Hne HWl. apply Wait_pop; [exact HT | exact He | | exact HWl].
          rewrite Ht. cbn [task_owner]. rewrite Ho. intros E. inversion E as [E']. apply Hne. symmetry.
          apply (gi_inj _ _ HI); assumption. }
    destruct X as [W0 Fr0].
    destruct (rr_accept lk from tid r v6 dist) as [[lk2 it] nd]. cbn [fst] in *.
    assert (HK2 : (lk_act lk2 < K)%nat) by (rewrite F3; exact HK).
    destruct (rr_continue_wait lk2 c0 it nd HK2 W0) as [G [W1 O1]].
    destruct (rr_continue I sendok own now lk2 c0 it nd) as [lk3 c1]. cbn [fst snd cx_timer] in *.
    split; [exact W1|]. split; [exact O1|]. intros l Hl Hne HWl. eapply Wait_grow; [exact G | apply Fr0; assumption].
  Qed.

  (* the timeout of the query [tid] has fired (its entry [e] has left the timer) *)
  Lemma recv_timeout_wait tm e lk c tid : TmOK tm -> In e (tm_entries tm) -> te_task e = TkLookupTimeout tid ->
    cx_timer c = cancel (te_key e) tm -> (lk_act lk < K)%nat ->
    Wait I now tm lk -> lookup_ongoing lk = true ->
    Grow (cx_timer c) (cx_timer (snd (recv_timeout I sendok own now lk c tid))) /\
    Wait I now (cx_timer (snd (recv_timeout I sendok own now lk c tid))) (fst (recv_timeout I sendok own now lk c tid)) /\
    lookup_ongoing (fst (recv_timeout I sendok own now lk c tid)) = true.
  Proof.
    intros HT He Ht Ec HK HW Hon. unfold recv_timeout.
    assert (Heg : lk_endgame lk = true -> forall a', (forall x, In x a' -> In x (lk_active lk)) ->
                  EndgameEntry I now (cx_timer c) (lk_act lk) a').
    { intros Eeg a' Hs. rewrite Ec. apply EndgameEntry_pop; [exact HT | exact He | intros t; rewrite Ht; discriminate|].
      eapply EndgameEntry_sub; [exact Hs | apply (proj2 HW), Eeg]. }
    assert (Hact : lk_endgame lk = false -> forall a', (forall x, In x a' -> In x (lk_active lk) /\ fst x <> tid) ->
                   ActsOK I now (cx_timer c) (lk_act lk) a').
    { intros Eeg a' Hs. rewrite Ec. eapply ActsOK_drop; [exact HT | exact He | exact Ht | exact Hs | apply (proj1 HW), Eeg]. }
    destruct (existsb (fun e0 => bytes_eqb (fst e0) tid) (lk_active lk)) eqn:Eex.
    - set (lk0 := set_active lk _).
      assert (W0 : Wait I now (cx_timer c) lk0).
      { split; intros E; cbn [lk0 set_active lk_endgame lk_act lk_active] in *.
        - apply Hact; [exact E | apply in_filter_tid].
        - apply Heg; [exact E|]. intros x Hx. apply in_filter_tid in Hx as [Hx _]. exact Hx. }
      destruct (lk_endgame lk0) eqn:Eeg0; cbn [negb andb].
      + cbn [fst snd]. split; [apply Grow_refl|]. split; [exact W0 | apply ongoing_endgame, Eeg0].
      + destruct (lk_active lk0) as [|x0 xs] eqn:El.
        * destruct (start_endgame_wait lk0 c HK El) as [G2 [E2 W2]].
          split; [exact G2|]. split; [|apply ongoing_endgame, E2].
          split; intros E3; [congruence|]. rewrite start_endgame_act. exact W2.
        * cbn [fst snd]. split; [apply Grow_refl|]. split; [exact W0 | apply ongoing_active; rewrite El; discriminate].
    - cbn [fst snd]. split; [apply Grow_refl|]. split; [|exact Hon].
      split; intros E.
      + apply Hact; [exact E|]. intros x Hx. split; [exact Hx|]. intros Et.
        assert (Y : existsb (fun e0 => bytes_eqb (fst e0) tid) (lk_active lk) = true).
        { apply existsb_exists. exists x. split; [exact Hx | apply bytes_eqb_eq, Et]. }
        congruence.
      + apply Heg; [exact E | auto].
  Qed.

  Lemma lookup_new_wait act target an c : (act < K)%nat ->
    Grow (cx_timer c) (cx_timer (snd (lookup_new I sendok own now act target an c))) /\
    lk_endgame (fst (lookup_new I sendok own now act target an c)) = false /\
    ActsOK I now (cx_timer (snd (lookup_new I sendok own now act target an c))) act
           (lk_active (fst (lookup_new I sendok own now act target an c))).
  Proof.
    intros HK. unfold lookup_new.
    match goal with |- context [start_request_round I sendok own now ?n ?l c] =>
      destruct (start_request_round_wait n l c HK) as [G [E A]] end.
    split; [exact G|]. split; [exact E|]. apply A, ActsOK_nil.
  Qed.
End LookupWait.

(* ------------------------------------------------------------------ stream ends and open searches *)
(* the searches whose stream end is among the outputs, in order *)
Definition ends (outs : list output) : list nat :=
  flat_map (fun o => match o with OStreamEnd a => [a] | _ => [] end) outs.

(* the activity indices of the open searches *)
Definition acts (s : nstate) : list nat := map lk_act (ns_lookups s).

Definition not_end (o : output) : bool := match o with OStreamEnd _ => false | _ => true end.

Lemma ends_app a b : ends (a ++ b) = ends a ++ ends b.
Proof. unfold ends. apply flat_map_app. Qed.

Lemma ends_rev l : ends (rev l) = rev (ends l).
Proof.
  induction l as [|o l IH]; [reflexivity|]. cbn [rev]. rewrite ends_app, IH. cbn [ends flat_map]. rewrite app_nil_r.
  destruct o; cbn [app rev]; rewrite ?app_nil_r; reflexivity.
Qed.

Lemma in_ends a outs : In a (ends outs) <-> In (OStreamEnd a) outs.
Proof.
  unfold ends. rewrite in_flat_map. split.
  - intros [o [Ho Ha]]. destruct o; cbn in Ha; try contradiction. destruct Ha as [<-|[]]. exact Ho.
  - intros H. exists (OStreamEnd a). split; [exact H | left; reflexivity].
Qed.

Lemma ends_not_end l : forallb not_end l = true -> ends l = [].
Proof.
  induction l as [|o l IH]; intros H; [reflexivity|]. cbn [forallb] in H. apply andb_true_iff in H as [H1 H2].
  cbn [ends flat_map]. fold (ends l). rewrite (IH H2). destruct o; try reflexivity. discriminate.
Qed.

Lemma extP_ends P c c' : (forall o, P o = true -> not_end o = true) -> extP P c c' -> ends (cx_out c') = ends (cx_out c).
Proof.
  intros HP X. apply (extP_weaken P not_end) in X; [|exact HP]. destruct X as [[l [E F]] _].
  rewrite E, ends_app, (ends_not_end l F). reflexivity.
Qed.

Lemma query_not_end o : is_query_send o = true -> not_end o = true.
Proof. destruct o; cbn; congruence. Qed.

Lemma query_yield_not_end act vals o : is_query_send o || is_yield_in act vals o = true -> not_end o = true.
Proof. destruct o; cbn; congruence. Qed.

Lemma ends_notify ws : ends (map ONotify ws) = [].
Proof. induction ws as [|w ws IH]; [reflexivity | exact IH]. Qed.

(* the bookkeeping of one transition: next activity index n -> n', open searches l -> l', ended en.
   Every search that was open before or has been started in between is afterwards either still
   open or has ended -- never both, and it ended at most once. *)
Definition AcctV (n : nat) (l : list nat) (n' : nat) (l' : list nat) (en : list nat) : Prop :=
  (n <= n')%nat /\ Permutation (en ++ l') (seq n (n' - n) ++ l).

Definition Acct (s s' : nstate) (outs : list output) : Prop :=
  AcctV (ns_next_act s) (acts s) (ns_next_act s') (acts s') (ends outs).

(* the open searches have pairwise distinct activity indices, all of them handed out already *)
Definition U (s : nstate) : Prop := NoDup (acts s) /\ forall a, In a (acts s) -> (a < ns_next_act s)%nat.

Lemma AcctV_same n l : AcctV n l n l [].
Proof. split; [lia|]. rewrite Nat.sub_diag. apply Permutation_refl. Qed.

Lemma AcctV_trans n0 l0 n1 l1 e1 n2 l2 e2 : AcctV n0 l0 n1 l1 e1 -> AcctV n1 l1 n2 l2 e2 -> AcctV n0 l0 n2 l2 (e1 ++ e2).
Proof.
  intros [L1 H1] [L2 H2]. split; [lia|]. rewrite <- app_assoc.
  transitivity (e1 ++ (seq n1 (n2 - n1) ++ l1)); [apply Permutation_app_head, H2|].
  transitivity (seq n1 (n2 - n1) ++ (e1 ++ l1)); [rewrite !app_assoc; apply Permutation_app_tail, Permutation_app_comm|].
  transitivity (seq n1 (n2 - n1) ++ (seq n0 (n1 - n0) ++ l0)); [apply Permutation_app_head, H1|].
  rewrite app_assoc. apply Permutation_app_tail.
  replace (n2 - n0)%nat with ((n1 - n0) + (n2 - n1))%nat by lia. rewrite seq_app.
  replace (n0 + (n1 - n0))%nat with n1 by lia. apply Permutation_app_comm.
Qed.

Lemma nodup_app_intro {A} (a b : list A) : NoDup a -> NoDup b -> (forall x, In x a -> ~ In x b) -> NoDup (a ++ b).
Proof.
  induction a as [|x a IH]; intros Ha Hb Hd; [exact Hb|]. inversion Ha; subst. cbn. constructor.
  - intros Hin. apply in_app_or in Hin as [Hin|Hin]; [contradiction | exact (Hd x (or_introl eq_refl) Hin)].
  - apply IH; [assumption | exact Hb | intros y Hy; apply Hd; right; exact Hy].
Qed.

Lemma AcctV_nodup n l n' l' en : NoDup l -> (forall a, In a l -> (a < n)%nat) -> AcctV n l n' l' en ->
  NoDup (en ++ l') /\ (forall a, In a l' -> (a < n')%nat) /\
  (forall a, In a en -> In a l \/ (n <= a < n')%nat).
Proof.
  intros Hn Hb [L P].
  assert (X : forall a, In a (en ++ l') -> In a l \/ (n <= a < n')%nat).
  { intros a Ha. apply (Permutation_in a P) in Ha. apply in_app_or in Ha as [Ha|Ha]; [|left; exact Ha].
    apply in_seq in Ha. right. lia. }
  split; [|split].
  - apply (Permutation_NoDup (Permutation_sym P)). apply nodup_app_intro; [apply seq_NoDup | exact Hn|].
    intros x Hx Hl. apply in_seq in Hx. specialize (Hb x Hl). lia.
  - intros a Ha. destruct (X a (in_or_app _ _ _ (or_intror Ha))) as [Y|Y]; [specialize (Hb a Y)|]; lia.
  - intros a Ha. apply X, in_or_app. left. exact Ha.
Qed.

Lemma U_acct s s' outs : U s -> Acct s s' outs -> U s'.
Proof.
  intros [H1 H2] HA. destruct (AcctV_nodup _ _ _ _ _ H1 H2 HA) as [N [B _]]. split; [eapply nodup_app_r, N | exact B].
Qed.

Lemma U_init id t0 : U (ns_init id t0).
Proof. split; [constructor | intros a []]. Qed.

Lemma acts_replace lks lk' : map lk_act (replace_lookup lks lk') = map lk_act lks.
Proof.
  unfold replace_lookup. rewrite map_map. apply map_ext_in. intros x _.
  destruct (Nat.eqb_spec (lk_act x) (lk_act lk')); [symmetry; assumption | reflexivity].
Qed.

Lemma perm_remove lks a : NoDup (map lk_act lks) -> In a (map lk_act lks) ->
  Permutation (a :: map lk_act (remove_lookup lks a)) (map lk_act lks).
Proof.
  induction lks as [|x l IH]; intros Hn Ha; [destruct Ha|]. cbn [map] in *. inversion Hn; subst.
  unfold remove_lookup. cbn [filter]. fold (remove_lookup l a). destruct (Nat.eqb_spec (lk_act x) a) as [E|E]; cbn [negb].
  - subst a. unfold remove_lookup. rewrite filter_id; [apply Permutation_refl|].
    intros y Hy. destruct (Nat.eqb_spec (lk_act y) (lk_act x)) as [E|E]; [|reflexivity].
    exfalso. match goal with H : ~ In _ _ |- _ => apply H end. rewrite <- E. apply in_map, Hy.
  - cbn [map]. destruct Ha as [Ha|Ha]; [contradiction|].
    eapply Permutation_trans; [apply perm_swap|]. apply perm_skip, IH; assumption.
Qed.

Section Accounting.
  Variable I : ids.
  Variable sendok : nat -> bool.
  Variable cf : cfg.
  Variables single_refresh queue_early : bool.
  Notation step := (step I sendok cf single_refresh queue_early).
  Notation run := (run I sendok cf single_refresh queue_early).

  Lemma recv_finished_ends now lk c aport :
    ends (cx_out (recv_finished I sendok (c_id cf) now lk c aport)) = lk_act lk :: ends (cx_out c).
  Proof.
    unfold recv_finished.
    match goal with |- context [announce_sends I sendok (c_id cf) now ?t lk c aport] =>
      pose proof (extP_ends _ _ _ query_not_end (announce_sends_ext I sendok (c_id cf) now aport t lk c)) as X end.
    destruct (lk_announce lk); [|reflexivity].
    destruct (announce_sends I sendok (c_id cf) now _ lk c aport) as [lk1 c1]. cbn [snd] in X.
    cbn [cx_out ends flat_map app]. fold (ends (cx_out c1)). rewrite X. reflexivity.
  Qed.

  (* the completion of an open search: its stream end is emitted and it leaves the open searches *)
  Lemma complete_lookup_acct now s c lk : NoDup (acts s) -> In (lk_act lk) (acts s) -> ends (cx_out c) = [] ->
    ends (snd (complete_lookup I sendok cf now s c lk)) = [lk_act lk] /\
    ns_lookups (fst (complete_lookup I sendok cf now s c lk)) = remove_lookup (ns_lookups s) (lk_act lk) /\
    Acct s (fst (complete_lookup I sendok cf now s c lk)) (snd (complete_lookup I sendok cf now s c lk)).
  Proof.
    intros Hn Hin Hc. unfold complete_lookup. cbn [fst snd].
    assert (E : ends (rev (cx_out (recv_finished I sendok (c_id cf) now lk c (c_aport cf)))) = [lk_act lk]).
    { rewrite ends_rev, recv_finished_ends, Hc. reflexivity. }
    split; [exact E|]. split; [reflexivity|].
    unfold Acct. rewrite E. split; [cbn; lia|]. cbn [ns_next_act with_ctx set_lookups set_core].
    rewrite Nat.sub_diag. cbn [seq app]. apply perm_remove; assumption.
  Qed.

  (* a search has handled an event: either it goes on, or it is completed *)
  Lemma processed_acct now s c' lk lk' (ongoing : bool) : NoDup (acts s) -> In lk (ns_lookups s) ->
    lk_act lk' = lk_act lk -> ends (cx_out c') = [] ->
    let r := if ongoing then (with_ctx s c' (replace_lookup (ns_lookups s) lk'), rev (cx_out c'))
             else complete_lookup I sendok cf now (with_ctx s c' (replace_lookup (ns_lookups s) lk')) c' lk' in
    Acct s (fst r) (snd r).
  Proof.
    intros Hn Hin Ea Hc. cbn zeta.
    assert (E1 : acts (with_ctx s c' (replace_lookup (ns_lookups s) lk')) = acts s) by (unfold acts; cbn; apply acts_replace).
    destruct ongoing; cbn [fst snd].
    - unfold Acct. rewrite E1, ends_rev, Hc. apply AcctV_same.
    - destruct (complete_lookup_acct now (with_ctx s c' (replace_lookup (ns_lookups s) lk')) c' lk') as [_ [_ X]];
        [rewrite E1; exact Hn | rewrite E1, Ea; apply in_map, Hin | exact Hc|].
      unfold Acct in *. rewrite E1 in X. exact X.
  Qed.

  Lemma continue_refresh_acct now s :
    ns_lookups (fst (continue_refresh I sendok cf single_refresh now s)) = ns_lookups s /\
    ns_next_act (fst (continue_refresh I sendok cf single_refresh now s)) = ns_next_act s /\
    ns_queued (fst (continue_refresh I sendok cf single_refresh now s)) = ns_queued s /\
    ends (snd (continue_refresh I sendok cf single_refresh now s)) = [].
  Proof.
    unfold continue_refresh.
    match goal with |- context [refresh_sends I sendok cf ?nodes ?t ?nx ?c0 now] =>
      pose proof (extP_ends _ _ _ query_not_end (refresh_sends_ext I sendok cf now t nodes nx c0)) as X;
      destruct (refresh_sends I sendok cf nodes t nx c0 now) as [next c1] end.
    cbn [snd cx_out] in X. destruct (schedule_in _ _ _ _) as [tm key]. cbn [fst snd].
    repeat split. rewrite ends_rev, X. reflexivity.
  Qed.

  (* the start of a search: it takes the next activity index; either it ends at once (nobody to
     ask) or it joins the open searches *)
  Lemma start_lookup_shape now s ih an :
    ns_next_act (fst (start_lookup I sendok cf now s ih an)) = S (ns_next_act s) /\
    ns_queued (fst (start_lookup I sendok cf now s ih an)) = ns_queued s /\
    ((ends (snd (start_lookup I sendok cf now s ih an)) = [ns_next_act s] /\
      ns_lookups (fst (start_lookup I sendok cf now s ih an)) = ns_lookups s) \/
     (ends (snd (start_lookup I sendok cf now s ih an)) = [] /\
      exists lk, lk_act lk = ns_next_act s /\ lk_active lk <> [] /\
                 lk = fst (lookup_new I sendok (c_id cf) now (ns_next_act s) ih an (ctx_of s)) /\
                 ns_lookups (fst (start_lookup I sendok cf now s ih an)) = lk :: ns_lookups s)).
  Proof.
    unfold start_lookup.
    pose proof (extP_ends _ _ _ query_not_end (lookup_new_ext I sendok (c_id cf) now (ns_next_act s) ih an (ctx_of s))) as X.
    pose proof (lookup_new_act I sendok (c_id cf) now (ns_next_act s) ih an (ctx_of s)) as Xa.
    destruct (lookup_new I sendok (c_id cf) now (ns_next_act s) ih an (ctx_of s)) as [lk c]. cbn [fst snd ctx_of cx_out] in X, Xa.
    destruct (lk_active lk) as [|x0 xs] eqn:El; cbn [fst snd]; (split; [reflexivity|]); (split; [reflexivity|]).
    - left. split; [|reflexivity]. rewrite ends_rev, recv_finished_ends, X, Xa. reflexivity.
    - right. split; [rewrite ends_rev, X; reflexivity|]. exists lk. split; [exact Xa|]. split; [rewrite El; discriminate|].
      split; reflexivity.
  Qed.

  Lemma start_lookup_acct now s ih an :
    Acct s (fst (start_lookup I sendok cf now s ih an)) (snd (start_lookup I sendok cf now s ih an)) /\
    (forall a, In a (ends (snd (start_lookup I sendok cf now s ih an))) -> a = ns_next_act s) /\
    incl (ns_lookups s) (ns_lookups (fst (start_lookup I sendok cf now s ih an))).
  Proof.
    destruct (start_lookup_shape now s ih an) as [En [_ [[Ee El]|[Ee [lk [Ea [_ [_ El]]]]]]]]; unfold Acct, acts; rewrite En, Ee, El.
    - assert (E1 : (S (ns_next_act s) - ns_next_act s)%nat = 1%nat) by lia.
      split; [split; [lia | rewrite E1; apply Permutation_refl]|]. split; [intros a [<-|[]]; reflexivity | apply incl_refl].
    - assert (E1 : (S (ns_next_act s) - ns_next_act s)%nat = 1%nat) by lia. cbn [map]. rewrite Ea.
      split; [split; [lia | rewrite E1; apply Permutation_refl]|]. split; [intros a [] | apply incl_tl, incl_refl].
  Qed.

  Lemma start_queued_acct now : forall q s,
    Acct s (fst (start_queued I sendok cf now s q)) (snd (start_queued I sendok cf now s q)) /\
    (forall a, In a (ends (snd (start_queued I sendok cf now s q))) -> (ns_next_act s <= a)%nat) /\
    incl (ns_lookups s) (ns_lookups (fst (start_queued I sendok cf now s q))) /\
    ns_next_act (fst (start_queued I sendok cf now s q)) = (ns_next_act s + length q)%nat /\
    ns_queued (fst (start_queued I sendok cf now s q)) = ns_queued s.
  Proof.
    induction q as [|[ih an] r IH]; intros s; cbn [start_queued].
    - cbn [fst snd length]. split; [apply AcctV_same|]. split; [intros a []|]. split; [apply incl_refl|]. split; [lia | reflexivity].
    - destruct (start_lookup_acct now s ih an) as [A1 [B1 C1]].
      destruct (start_lookup_shape now s ih an) as [N1 [Q1 _]].
      destruct (start_lookup I sendok cf now s ih an) as [s1 o1]. cbn [fst snd] in *.
      destruct (IH s1) as [A2 [B2 [C2 [N2 Q2]]]].
      destruct (start_queued I sendok cf now s1 r) as [s2 o2]. cbn [fst snd length] in *.
      split; [unfold Acct in *; rewrite ends_app; eapply AcctV_trans; eassumption|].
      split; [|split; [eapply incl_tran; eassumption | split; [lia | congruence]]].
      intros a Ha. rewrite ends_app in Ha. apply in_app_or in Ha as [Ha|Ha]; [rewrite (B1 a Ha); lia | specialize (B2 a Ha); lia].
  Qed.

  Lemma Acct_same s s' outs : ns_next_act s' = ns_next_act s -> ns_lookups s' = ns_lookups s -> ends outs = [] -> Acct s s' outs.
  Proof. intros E1 E2 E3. unfold Acct, acts. rewrite E1, E2, E3. apply AcctV_same. Qed.

  (* (2) every end is a completion, exactly once -- for every event, whatever the variant of the handler *)
  Theorem step_acct now s e : U s -> Acct s (fst (step now s e)) (snd (step now s e)).
  Proof.
    intros [Hn Hb]. destruct e as [src [tid [q|r|c x]]| |ih an| | |b|id a named|id a|rts|]; cbn [Handler.step m_body m_tid].
    - destruct (handle_query now cf (ns_table s) (ns_tok s) (ns_sto s) src tid q) as [[[t' tk'] st'] reply].
      destruct reply; apply Acct_same; reflexivity.
    - destruct (tid_action tid) as [aid|]; [|apply Acct_same; reflexivity].
      destruct (lookup_by_action I s aid) as [lk|] eqn:El.
      2:{ destruct (aid_of I 0 =? aid)%N; apply Acct_same; reflexivity. }
      apply lookup_by_action_in in El.
      set (c := mkCtx _ (ns_timer s) (ns_sends s) []).
      pose proof (recv_response_ext I sendok (c_id cf) now lk c (r_id r, src) tid r (c_v6 cf)) as [X _].
      pose proof (recv_response_act I sendok (c_id cf) now lk c (r_id r, src) tid r (c_v6 cf)) as Xa.
      apply (extP_ends _ _ _ (query_yield_not_end _ _)) in X.
      destruct (recv_response I sendok (c_id cf) now lk c (r_id r, src) tid r (c_v6 cf)) as [lk' c']. cbn [fst snd] in *.
      apply (processed_acct now s c' lk lk'); assumption.
    - apply Acct_same; reflexivity.
    - destruct (pop_timer (ns_timer s)) as [[en tm]|]; [|apply Acct_same; reflexivity].
      destruct (te_task en) as [|tid|tid].
      + destruct (continue_refresh_acct now (set_timer s tm)) as [E1 [E2 [_ E3]]]. apply Acct_same; assumption.
      + destruct (tid_action tid) as [a|]; [|apply Acct_same; reflexivity].
        destruct (lookup_by_action I (set_timer s tm) a) as [lk|] eqn:El; [|apply Acct_same; reflexivity].
        apply lookup_by_action_in in El.
        pose proof (extP_ends _ _ _ query_not_end (recv_timeout_ext I sendok (c_id cf) now lk (ctx_of (set_timer s tm)) tid)) as X.
        pose proof (recv_timeout_act I sendok (c_id cf) now lk (ctx_of (set_timer s tm)) tid) as Xa.
        destruct (recv_timeout I sendok (c_id cf) now lk (ctx_of (set_timer s tm)) tid) as [lk' c']. cbn [fst snd] in *.
        apply (processed_acct now (set_timer s tm) c' lk lk' (lookup_ongoing lk') Hn El Xa X).
      + destruct (tid_action tid) as [a|]; [|apply Acct_same; reflexivity].
        destruct (lookup_by_action I (set_timer s tm) a) as [lk|] eqn:El; [|apply Acct_same; reflexivity].
        apply lookup_by_action_in in El.
        destruct (complete_lookup_acct now (set_timer s tm) (ctx_of (set_timer s tm)) lk Hn (in_map lk_act _ _ El) eq_refl) as [_ [_ X]].
        exact X.
    - destruct (queue_early && negb (ns_concluded s)); [apply Acct_same; reflexivity | apply start_lookup_acct].
    - destruct (ns_boot s); apply Acct_same; reflexivity.
    - apply Acct_same; reflexivity.
    - set (s0 := set_boot s b).
      assert (X : let r := match b with
                   | BBootstrapped => let '(s1, o) := continue_refresh I sendok cf single_refresh now (set_waiters s0 [] (ns_next_waiter s0)) in
                                      (s1, map ONotify (ns_waiters s0) ++ o)
                   | _ => (s0, []) end in
                  ns_lookups (fst r) = ns_lookups s /\ ns_next_act (fst r) = ns_next_act s /\ ends (snd r) = []).
      { destruct b; try solve [cbn; auto]. cbn zeta.
        destruct (continue_refresh_acct now (set_waiters s0 [] (ns_next_waiter s0))) as [E1 [E2 [_ E3]]].
        destruct (continue_refresh I sendok cf single_refresh now (set_waiters s0 [] (ns_next_waiter s0))) as [s1 o]. cbn [fst snd] in *.
        rewrite ends_app, ends_notify, E3. auto. }
      cbn zeta in X. destruct (match b with BBootstrapped => _ | _ => _ end) as [s2 out]. cbn [fst snd] in X.
      destruct X as [E1 [E2 E3]].
      destruct (queue_early && negb (ns_concluded s2) && _); [|apply Acct_same; assumption].
      destruct (start_queued_acct now (ns_queued s2) (set_queue s2 [] true)) as [A _].
      destruct (start_queued I sendok cf now (set_queue s2 [] true) (ns_queued s2)) as [s3 o3]. cbn [fst snd] in *.
      unfold Acct, acts in *. rewrite ends_app, E3. cbn [app]. cbn in A. rewrite E1, E2 in A. exact A.
    - apply Acct_same; reflexivity.
    - apply Acct_same; reflexivity.
    - apply Acct_same; reflexivity.
    - apply Acct_same; reflexivity.
  Qed.

  Theorem step_U now s e : U s -> U (fst (step now s e)).
  Proof. intros H. eapply U_acct; [exact H | apply step_acct, H]. Qed.

  Lemma run_U : forall evs s, U s -> U (fst (run s evs)) /\ (ns_next_act s <= ns_next_act (fst (run s evs)))%nat.
  Proof.
    induction evs as [|[now e] r IH]; intros s H; cbn [Handler.run]; [split; [exact H | cbn; lia]|].
    pose proof (step_U now s e H) as H1. pose proof (step_acct now s e H) as [L _].
    destruct (step now s e) as [s1 o]. cbn [fst snd] in *.
    destruct (IH s1 H1) as [H2 L2]. destruct (run s1 r) as [s2 os]. cbn [fst] in *. split; [exact H2 | lia].
  Qed.
End Accounting.

(* ------------------------------------------------------------------ no search is left waiting for nothing *)
(* every open search is ongoing and has its pending timer entries *)
Definition Served (I : ids) (now : Z) (s : nstate) : Prop :=
  forall lk, In lk (ns_lookups s) -> lookup_ongoing lk = true /\ Wait I now (ns_timer s) lk.

(* the remembered refresh key is that of the one pending refresh entry (between events) *)
Definition Pend (s : nstate) : Prop :=
  (refresh_part (ns_timer s) = [] /\ ns_refresh_pending s = None) \/
  (exists e, refresh_part (ns_timer s) = [e] /\ ns_refresh_pending s = Some (te_key e)).

Lemma Pend_init id t0 : Pend (ns_init id t0).
Proof. left. split; reflexivity. Qed.

Lemma Pend_Inv18p s : Pend s -> Inv18p s.
Proof. intros [[E _]|[e [E1 E2]]]; [left; exact E | right; exists e; auto]. Qed.

Lemma Served_init I now id t0 : Served I now (ns_init id t0).
Proof. intros lk []. Qed.

Lemma remove_lookup_in' lks a l : In l (remove_lookup lks a) -> In l lks /\ lk_act l <> a.
Proof.
  unfold remove_lookup. intros H. apply filter_In in H as [H1 H2]. split; [exact H1|].
  destruct (Nat.eqb_spec (lk_act l) a); [discriminate | assumption].
Qed.

Lemma replace_lookup_in' lks lk' l : In l (replace_lookup lks lk') -> l = lk' \/ (In l lks /\ lk_act l <> lk_act lk').
Proof.
  unfold replace_lookup. intros H. apply in_map_iff in H as [x [E Hx]].
  destruct (Nat.eqb_spec (lk_act x) (lk_act lk')); [left; auto | right; subst; auto].
Qed.

(* the search (if any) whose stream ends because its end-game entry fires *)
Definition EndgameFired (I : ids) (s : nstate) (e : event) (a : nat) : Prop :=
  e = EvTimer /\
  exists en tm tid lk, pop_timer (ns_timer s) = Some (en, tm) /\ te_task en = TkLookupEndGame tid /\
    tid_action tid = Some (aid_of I a) /\ In lk (ns_lookups s) /\ lk_act lk = a.

Section Serving.
  Variable I : ids.
  Variable K : nat.
  Hypothesis HI : GoodIds I K.
  Variable sendok : nat -> bool.
  Variable cf : cfg.
  Variable queue_early : bool.
  Notation step := (step I sendok cf true queue_early).
  Notation run := (run I sendok cf true queue_early).

  Lemma Pend_step now s e : J s -> Pend s -> Pend (fst (step now s e)).
  Proof.
    intros HJ HP. destruct (step_shape I sendok cf queue_early now s e HJ) as [[K1 [P1 _]]|[s0 [J0 [R0 [K1 [P1 _]]]]]].
    - destruct HP as [[E1 E2]|[re [E1 E2]]]; [left | right; exists re]; rewrite (kp_part _ _ K1), P1; auto.
    - right. destruct (continue_refresh_alive I sendok cf now s0 (TmRel_inv _ _ R0 (Pend_Inv18p _ HP))) as [re [E [P _]]].
      exists re. rewrite (kp_part _ _ K1), P1. auto.
  Qed.

  (* entries that carry the id of the remembered refresh key are refresh entries *)
  Lemma pend_free s tm' key : TmOK (ns_timer s) -> Pend s -> incl (tm_entries tm') (tm_entries (ns_timer s)) ->
    ns_refresh_pending s = Some key -> forall e, In e (tm_entries tm') -> te_id e = snd key -> te_task e = TkRefresh.
  Proof.
    intros HT [[_ E]|[re [E1 E2]]] Hi Hp e He Eid; [congruence|]. rewrite E2 in Hp. inversion Hp; subst key.
    assert (Hre : In re (refresh_part (ns_timer s))) by (rewrite E1; left; reflexivity).
    apply refresh_part_in in Hre as [Hre Hr]. rewrite (same_id_same_entry _ e re HT (Hi e He) Hre Eid).
    unfold is_refresh_entry in Hr. destruct (te_task re); [reflexivity | discriminate | discriminate].
  Qed.

  (* a refresh round does not disturb the searches *)
  Lemma continue_refresh_wait now s0 l :
    (forall key, ns_refresh_pending s0 = Some key ->
       forall e, In e (tm_entries (ns_timer s0)) -> te_id e = snd key -> te_task e = TkRefresh) ->
    Wait I now (ns_timer s0) l -> Wait I now (ns_timer (fst (continue_refresh I sendok cf true now s0))) l.
  Proof.
    intros Hf HW. destruct (continue_refresh_fields I sendok cf now s0) as [E1 _]. rewrite E1.
    eapply Wait_grow; [apply Grow_schedule|]. unfold refresh_tm0. destruct (ns_refresh_pending s0) as [key|]; [|exact HW].
    apply Wait_cancel; [|exact HW]. intros e He Eid. rewrite (Hf key eq_refl e He Eid). cbn. discriminate.
  Qed.

  Lemma lookup_some_aid s a lk : lookup_by_action I s a = Some lk -> aid_of I (lk_act lk) = a.
  Proof. unfold lookup_by_action. intros H. apply find_some in H as [_ H]. apply N.eqb_eq in H. exact H. Qed.

  Lemma lookup_none_aid s a l : lookup_by_action I s a = None -> In l (ns_lookups s) -> aid_of I (lk_act l) <> a.
  Proof. unfold lookup_by_action. intros H Hl E. pose proof (find_none _ _ H l Hl) as X. cbn in X. apply N.eqb_neq in X. contradiction. Qed.

  Lemma complete_lookup_fields now s c lk :
    ns_timer (fst (complete_lookup I sendok cf now s c lk)) = cx_timer c /\
    ns_lookups (fst (complete_lookup I sendok cf now s c lk)) = remove_lookup (ns_lookups s) (lk_act lk).
  Proof. unfold complete_lookup. cbn. rewrite recv_finished_timer. split; reflexivity. Qed.

  Lemma start_lookup_timer now s ih an :
    ns_timer (fst (start_lookup I sendok cf now s ih an)) =
    cx_timer (snd (lookup_new I sendok (c_id cf) now (ns_next_act s) ih an (ctx_of s))).
  Proof.
    unfold start_lookup. destruct (lookup_new I sendok (c_id cf) now (ns_next_act s) ih an (ctx_of s)) as [lk c].
    destruct (lk_active lk); cbn; [rewrite recv_finished_timer|]; reflexivity.
  Qed.

  (* one search has handled an event and goes on *)
  Lemma replaced_served now s0 tm0 c' lk lk' : In lk (ns_lookups s0) -> lk_act lk' = lk_act lk ->
    lookup_ongoing lk' = true -> Wait I now (cx_timer c') lk' ->
    (forall l, In l (ns_lookups s0) -> lk_act l <> lk_act lk -> Wait I now tm0 l -> Wait I now (cx_timer c') l) ->
    (forall l, In l (ns_lookups s0) -> lookup_ongoing l = true /\ Wait I now tm0 l) ->
    Served I now (with_ctx s0 c' (replace_lookup (ns_lookups s0) lk')).
  Proof.
    intros Hin Ea O W Fr HS l Hl. cbn in Hl |- *. apply replace_lookup_in' in Hl as [->|[Hl Hne]]; [split; assumption|].
    destruct (HS l Hl) as [O1 W1]. split; [exact O1|]. apply Fr; [exact Hl | congruence | exact W1].
  Qed.

  Lemma start_lookup_served now s ih an : TmOK (ns_timer s) -> (ns_next_act s < K)%nat -> Served I now s ->
    Served I now (fst (start_lookup I sendok cf now s ih an)).
  Proof.
    intros HT Hlt HS.
    destruct (lookup_new_wait I K HI sendok (c_id cf) now (ns_next_act s) ih an (ctx_of s) Hlt) as [G [Eeg A]].
    pose proof (start_lookup_timer now s ih an) as Et.
    destruct (start_lookup_shape I sendok cf now s ih an) as [_ [_ [[_ El]|[_ [lk [Ea [Hne [Elk El]]]]]]]];
      intros l Hl; rewrite El in Hl; rewrite Et.
    - destruct (HS l Hl) as [O W]. split; [exact O | eapply Wait_grow; [exact G | exact W]].
    - destruct Hl as [<-|Hl].
      + split; [apply ongoing_active, Hne|]. subst lk. split; intros E; [rewrite Ea; exact A | congruence].
      + destruct (HS l Hl) as [O W]. split; [exact O | eapply Wait_grow; [exact G | exact W]].
  Qed.

  Lemma start_queued_served now : forall q s, J s -> U s -> (ns_next_act s + length q <= K)%nat -> Served I now s ->
    Served I now (fst (start_queued I sendok cf now s q)).
  Proof.
    induction q as [|[ih an] r IH]; intros s HJ HU Hlen HS; cbn [start_queued]; [exact HS|]. cbn [length] in Hlen.
    pose proof (start_lookup_served now s ih an (proj1 HJ) ltac:(lia) HS) as S1.
    pose proof (SK_J _ _ (start_lookup_SK I sendok cf now s ih an HJ)) as J1.
    destruct (start_lookup_acct I sendok cf now s ih an) as [A1 _].
    pose proof (U_acct _ _ _ HU A1) as U1.
    destruct (start_lookup_shape I sendok cf now s ih an) as [N1 _].
    destruct (start_lookup I sendok cf now s ih an) as [s1 o1]. cbn [fst snd] in *.
    specialize (IH s1 J1 U1 ltac:(lia) S1). destruct (start_queued I sendok cf now s1 r) as [s2 o2]. exact IH.
  Qed.

  Lemma acts_with_ctx s c lks : acts (with_ctx s c lks) = map lk_act lks.
  Proof. reflexivity. Qed.

  Definition StepOK (now : Z) (s : nstate) (e : event) (s' : nstate) : Prop :=
    Served I now s' /\
    forall lk, In lk (ns_lookups s) -> In (lk_act lk) (acts s') \/ EndgameFired I s e (lk_act lk).

  Lemma kept_ok now s e s' : ns_timer s' = ns_timer s -> ns_lookups s' = ns_lookups s -> Served I now s -> StepOK now s e s'.
  Proof.
    intros E1 E2 HS. split.
    - intros l Hl. rewrite E1. rewrite E2 in Hl. apply HS, Hl.
    - intros l Hl. left. unfold acts. rewrite E2. apply in_map, Hl.
  Qed.

  (* (1) + (3): whatever the event and whenever (later) it is handled, every search that is open
     afterwards is still served; and a search that was open before is either still open or the
     event was the firing of an end-game entry carrying its action id *)
  Theorem step_served now now' s e : J s -> Pend s -> U s -> Served I now s -> now <= now' ->
    (ns_next_act (fst (step now' s e)) <= K)%nat -> StepOK now' s e (fst (step now' s e)).
  Proof.
    intros HJ HP HU HS0 Hn Hroom.
    assert (HS : Served I now' s).
    { intros lk Hl. destruct (HS0 lk Hl) as [O W]. split; [exact O | eapply Wait_later; eassumption]. }
    assert (HKs : forall lk, In lk (ns_lookups s) -> (lk_act lk < K)%nat).
    { intros lk Hl. pose proof (step_acct I sendok cf true queue_early now' s e HU) as [L _].
      pose proof (proj2 HU (lk_act lk) (in_map lk_act _ _ Hl)). lia. }
    clear HS0. revert Hroom.
    destruct e as [src [tid [q|r|c x]]| |ih an| | |b|id a named|id a|rts|]; cbn [Handler.step m_body m_tid].
    - (* query *)
      destruct (handle_query now' cf (ns_table s) (ns_tok s) (ns_sto s) src tid q) as [[[t' tk'] st'] reply].
      intros _. apply kept_ok; try reflexivity; exact HS.
    - (* response *)
      destruct (tid_action tid) as [aid|]; [|intros _; apply kept_ok; try reflexivity; exact HS].
      destruct (lookup_by_action I s aid) as [lk|] eqn:El.
      2:{ destruct (aid_of I 0 =? aid)%N; intros _; apply kept_ok; try reflexivity; exact HS. }
      intros _. pose proof (lookup_by_action_in _ _ _ _ El) as Hin.
      set (c := mkCtx _ (ns_timer s) (ns_sends s) []).
      destruct (recv_response_wait I K HI sendok (c_id cf) now' lk c (r_id r, src) tid r (c_v6 cf)
                  (proj1 HJ) (HKs lk Hin) (proj2 (HS lk Hin)) (proj1 (HS lk Hin))) as [W [O Fr]].
      pose proof (recv_response_act I sendok (c_id cf) now' lk c (r_id r, src) tid r (c_v6 cf)) as Xa.
      destruct (recv_response I sendok (c_id cf) now' lk c (r_id r, src) tid r (c_v6 cf)) as [lk' c']. cbn [fst snd] in *.
      rewrite O. cbn [fst]. split.
      + apply (replaced_served now' s (ns_timer s) c' lk lk'); try assumption.
        intros l Hl Hne HWl. apply Fr; [apply HKs, Hl | exact Hne | exact HWl].
      + intros l Hl. left. rewrite acts_with_ctx, acts_replace. apply in_map, Hl.
    - intros _. apply kept_ok; try reflexivity; exact HS.
    - (* timer *)
      destruct (pop_timer (ns_timer s)) as [[en tm]|] eqn:Ep; [|intros _; apply kept_ok; try reflexivity; exact HS].
      intros _. destruct (pop_timer_spec _ _ _ Ep) as [Hen Etm].
      assert (Hpop : forall l, In l (ns_lookups s) -> task_owner (te_task en) <> Some (aid_of I (lk_act l)) -> Wait I now' tm l).
      { intros l Hl Ho. rewrite Etm. apply Wait_pop; [exact (proj1 HJ) | exact Hen | exact Ho | apply HS, Hl]. }
      assert (Hquiet : (forall l, In l (ns_lookups s) -> task_owner (te_task en) <> Some (aid_of I (lk_act l))) ->
                       StepOK now' s EvTimer (set_timer s tm)).
      { intros Hf. split.
        - intros l Hl. cbn in Hl |- *. split; [apply HS, Hl | apply Hpop; [exact Hl | apply Hf, Hl]].
        - intros l Hl. left. apply in_map, Hl. }
      destruct (te_task en) as [|tid|tid] eqn:Et; cbn [task_owner] in Hpop, Hquiet.
      + (* refresh *)
        destruct (continue_refresh_fields I sendok cf now' (set_timer s tm)) as [_ [_ [E3 _]]]. split.
        * intros l Hl. rewrite E3 in Hl. cbn in Hl. split; [apply HS, Hl|]. apply continue_refresh_wait.
          -- intros key Hp e0 He0 Eid. cbn in Hp, He0.
             eapply (pend_free s tm key (proj1 HJ) HP); [|exact Hp | exact He0 | exact Eid].
             rewrite Etm. intros x Hx. apply cancel_spec in Hx. tauto.
          -- cbn. apply Hpop; [exact Hl | discriminate].
        * intros l Hl. left. unfold acts. rewrite E3. apply in_map, Hl.
      + (* query timeout *)
        destruct (tid_action tid) as [a|] eqn:Ea; [|apply Hquiet; intros; discriminate].
        destruct (lookup_by_action I (set_timer s tm) a) as [lk|] eqn:El.
        2:{ apply Hquiet. intros l Hl E. inversion E. eapply (lookup_none_aid _ _ l El); [exact Hl | congruence]. }
        pose proof (lookup_by_action_in _ _ _ _ El) as Hin. pose proof (lookup_some_aid _ _ _ El) as Haid. cbn in Hin.
        destruct (recv_timeout_wait I K HI sendok (c_id cf) now' (ns_timer s) en lk (ctx_of (set_timer s tm)) tid
                    (proj1 HJ) Hen Et Etm (HKs lk Hin) (proj2 (HS lk Hin)) (proj1 (HS lk Hin))) as [G [W O]].
        pose proof (recv_timeout_act I sendok (c_id cf) now' lk (ctx_of (set_timer s tm)) tid) as Xa.
        destruct (recv_timeout I sendok (c_id cf) now' lk (ctx_of (set_timer s tm)) tid) as [lk' c']. cbn [fst snd] in *.
        rewrite O. cbn [fst]. split.
        * apply (replaced_served now' (set_timer s tm) (ns_timer s) c' lk lk'); try assumption; try exact HS.
          intros l Hl Hne _. eapply Wait_grow; [exact G|]. cbn. apply Hpop; [exact Hl|].
          intros E. inversion E as [E']. apply Hne. apply (gi_inj _ _ HI); [apply HKs, Hl | apply HKs, Hin | congruence].
        * intros l Hl. left. rewrite acts_with_ctx, acts_replace. apply in_map, Hl.
      + (* end-game timeout *)
        destruct (tid_action tid) as [a|] eqn:Ea; [|apply Hquiet; intros; discriminate].
        destruct (lookup_by_action I (set_timer s tm) a) as [lk|] eqn:El.
        2:{ apply Hquiet. intros l Hl E. inversion E. eapply (lookup_none_aid _ _ l El); [exact Hl | congruence]. }
        pose proof (lookup_by_action_in _ _ _ _ El) as Hin. pose proof (lookup_some_aid _ _ _ El) as Haid. cbn in Hin.
        destruct (complete_lookup_fields now' (set_timer s tm) (ctx_of (set_timer s tm)) lk) as [F1 F2]. split.
        * intros l Hl. rewrite F2 in Hl. rewrite F1. apply remove_lookup_in' in Hl as [Hl Hne]. cbn in Hl |- *.
          split; [apply HS, Hl|]. apply Hpop; [exact Hl|].
          intros E. inversion E as [E']. apply Hne. apply (gi_inj _ _ HI); [apply HKs, Hl | apply HKs, Hin | congruence].
        * intros l Hl. destruct (Nat.eq_dec (lk_act l) (lk_act lk)) as [E|E].
          -- right. split; [reflexivity|]. exists en, tm, tid, lk. rewrite E, Haid. auto.
          -- left. unfold acts. rewrite F2. apply in_map. apply remove_lookup_other; assumption.
    - (* start lookup *)
      destruct (queue_early && negb (ns_concluded s)); [intros _; apply kept_ok; try reflexivity; exact HS|].
      intros Hroom. destruct (start_lookup_shape I sendok cf now' s ih an) as [N1 _]. rewrite N1 in Hroom.
      split; [apply start_lookup_served; [exact (proj1 HJ) | lia | exact HS]|].
      intros l Hl. left. apply in_map. apply (proj2 (proj2 (start_lookup_acct I sendok cf now' s ih an))), Hl.
    - intros _. destruct (ns_boot s); apply kept_ok; try reflexivity; exact HS.
    - intros _. apply kept_ok; try reflexivity; exact HS.
    - (* bootstrap state *)
      set (s0 := set_boot s b).
      assert (X : let r := match b with
                   | BBootstrapped => let '(s1, o) := continue_refresh I sendok cf true now' (set_waiters s0 [] (ns_next_waiter s0)) in
                                      (s1, map ONotify (ns_waiters s0) ++ o)
                   | _ => (s0, []) end in
                  J (fst r) /\ Served I now' (fst r) /\ ns_lookups (fst r) = ns_lookups s /\ ns_next_act (fst r) = ns_next_act s).
      { destruct b; try solve [cbn zeta; cbn [fst]; split; [exact HJ | split; [exact HS | split; reflexivity]]]. cbn zeta.
        pose proof (continue_refresh_J I sendok cf now' (set_waiters s0 [] (ns_next_waiter s0)) HJ) as J1.
        destruct (continue_refresh_acct I sendok cf true now' (set_waiters s0 [] (ns_next_waiter s0))) as [E1 [E2 _]].
        assert (S1 : Served I now' (fst (continue_refresh I sendok cf true now' (set_waiters s0 [] (ns_next_waiter s0))))).
        { intros l Hl. rewrite E1 in Hl. cbn in Hl. split; [apply HS, Hl|]. apply continue_refresh_wait; [|apply HS, Hl].
          intros key Hp e0 He0 Eid. cbn in Hp, He0.
          exact (pend_free s (ns_timer s) key (proj1 HJ) HP (incl_refl _) Hp e0 He0 Eid). }
        destruct (continue_refresh I sendok cf true now' (set_waiters s0 [] (ns_next_waiter s0))) as [s1 o]. cbn [fst snd] in *.
        split; [exact J1 | split; [exact S1 | split; assumption]]. }
      cbn zeta in X. destruct (match b with BBootstrapped => _ | _ => _ end) as [s2 out]. cbn [fst snd] in X.
      destruct X as [J2 [S2 [E1 E2]]].
      assert (U2 : U s2) by (unfold U, acts in *; rewrite E1, E2; exact HU).
      destruct (queue_early && negb (ns_concluded s2) && _).
      2:{ intros _. cbn [fst]. split; [exact S2|]. intros l Hl. left. unfold acts. rewrite E1. apply in_map, Hl. }
      destruct (start_queued_acct I sendok cf now' (ns_queued s2) (set_queue s2 [] true)) as [_ [_ [C3 [N3 _]]]].
      pose proof (start_queued_served now' (ns_queued s2) (set_queue s2 [] true) J2 U2) as S3.
      destruct (start_queued I sendok cf now' (set_queue s2 [] true) (ns_queued s2)) as [s3 o3]. cbn [fst snd] in *.
      intros Hroom. split; [apply S3; [rewrite <- N3; exact Hroom | exact S2]|].
      intros l Hl. left. apply in_map. apply C3. cbn. rewrite E1. exact Hl.
    - intros _. apply kept_ok; try reflexivity; exact HS.
    - intros _. apply kept_ok; try reflexivity; exact HS.
    - intros _. apply kept_ok; try reflexivity; exact HS.
    - intros _. apply kept_ok; try reflexivity; exact HS.
  Qed.
End Serving.

(* ------------------------------------------------------------------ end-game entries belong to searches in their end-game *)
(* what one call of the search code does to the end-game flag and to the end-game entries of the timer *)
Definition EgStep (I : ids) (lk lk' : lookup) (tm tm' : timer) : Prop :=
  (lk_endgame lk = true -> lk_endgame lk' = true) /\
  forall e tid, In e (tm_entries tm') -> te_task e = TkLookupEndGame tid ->
    In e (tm_entries tm) \/ (tid_action tid = Some (aid_of I (lk_act lk)) /\ lk_endgame lk' = true).

Lemma EgStep_trans I lk lk1 lk2 tm tm1 tm2 : lk_act lk1 = lk_act lk ->
  EgStep I lk lk1 tm tm1 -> EgStep I lk1 lk2 tm1 tm2 -> EgStep I lk lk2 tm tm2.
Proof.
  intros Ea [A1 A2] [B1 B2]. split; [auto|]. intros e tid He Ht.
  destruct (B2 e tid He Ht) as [X|[X1 X2]]; [|right; rewrite <- Ea; auto].
  destruct (A2 e tid X Ht) as [Y|[Y1 Y2]]; [left; exact Y | right; auto].
Qed.

Lemma EgStep_sub I lk lk' tm tm' : lk_endgame lk' = lk_endgame lk -> incl (tm_entries tm') (tm_entries tm) -> EgStep I lk lk' tm tm'.
Proof. intros E Hi. split; [congruence|]. intros e tid He _. left. apply Hi, He. Qed.

(* every end-game entry carries the action id of an activity started earlier, and if that activity
   is an open search, the search is in its end-game *)
Definition EgV (I : ids) (n : nat) (lks : list lookup) (tm : timer) : Prop :=
  forall e tid, In e (tm_entries tm) -> te_task e = TkLookupEndGame tid ->
    exists a, (a < n)%nat /\ tid_action tid = Some (aid_of I a) /\
              forall lk, In lk lks -> lk_act lk = a -> lk_endgame lk = true.

Definition EgSound (I : ids) (s : nstate) : Prop := EgV I (ns_next_act s) (ns_lookups s) (ns_timer s).

Lemma EgSound_init I id t0 : EgSound I (ns_init id t0).
Proof. intros e tid []. Qed.

Lemma EgV_sub I n lks tm n' lks' tm' :
  (forall e tid, In e (tm_entries tm') -> te_task e = TkLookupEndGame tid -> In e (tm_entries tm)) ->
  incl lks' lks -> (n <= n')%nat -> EgV I n lks tm -> EgV I n' lks' tm'.
Proof.
  intros Ht Hl Hn H e tid He Et. destruct (H e tid (Ht e tid He Et) Et) as [a [Ha [Ho Hf]]].
  exists a. split; [lia|]. split; [exact Ho|]. intros lk Hlk. apply Hf, Hl, Hlk.
Qed.

Lemma EgV_replace I n lks tm lk lk' tm' : In lk lks -> (lk_act lk < n)%nat -> lk_act lk' = lk_act lk ->
  EgStep I lk lk' tm tm' -> EgV I n lks tm -> EgV I n (replace_lookup lks lk') tm'.
Proof.
  intros Hin Hlt Ea [S1 S2] H e tid He Et. destruct (S2 e tid He Et) as [X|[X1 X2]].
  - destruct (H e tid X Et) as [a [Ha [Ho Hf]]]. exists a. split; [exact Ha|]. split; [exact Ho|].
    intros l Hl El. apply replace_lookup_in' in Hl as [->|[Hl _]]; [|apply Hf; assumption].
    apply S1, (Hf lk Hin). congruence.
  - exists (lk_act lk). split; [exact Hlt|]. split; [exact X1|].
    intros l Hl El. apply replace_lookup_in' in Hl as [->|[_ Hne]]; [exact X2 | congruence].
Qed.

Lemma EgV_new I n lks tm lk tm' : (forall e tid, In e (tm_entries tm') -> te_task e = TkLookupEndGame tid -> In e (tm_entries tm)) ->
  lk_act lk = n -> EgV I n lks tm -> EgV I (S n) (lk :: lks) tm'.
Proof.
  intros Ht Ea H e tid He Et. destruct (H e tid (Ht e tid He Et) Et) as [a [Ha [Ho Hf]]].
  exists a. split; [lia|]. split; [exact Ho|]. intros l [<-|Hl] El; [lia | apply Hf; assumption].
Qed.

Section EgLookup.
  Variable I : ids.
  Variable K : nat.
  Hypothesis HI : GoodIds I K.
  Variable sendok : nat -> bool.
  Variable own : N.
  Variable now : Z.

  (* a request round schedules query timeouts only *)
  Lemma request_round_entries : forall nodes lk c sent e,
    In e (tm_entries (cx_timer (snd (fst (request_round I sendok own now nodes lk c sent))))) ->
    In e (tm_entries (cx_timer c)) \/ exists t, te_task e = TkLookupTimeout t.
  Proof.
    induction nodes as [|[h d] r IH]; intros lk c sent e; cbn [request_round]; [cbn [fst snd]; auto|].
    destruct (gen_tid I lk) as [tid lk1].
    assert (X : forall x, In x (tm_entries (fst (schedule_in now lookup_timeout (TkLookupTimeout tid) (cx_timer c)))) ->
                In x (tm_entries (cx_timer c)) \/ exists t, te_task x = TkLookupTimeout t).
    { intros x Hx. cbn in Hx. apply in_app_or in Hx as [Hx|[<-|[]]]; [left; exact Hx | right; eexists; reflexivity]. }
    destruct (schedule_in now lookup_timeout (TkLookupTimeout tid) (cx_timer c)) as [tm key]. cbn [fst] in X.
    destruct (send sendok _ (snd h) _) as [c2 ok] eqn:Es. unfold send in Es. inversion Es; subst c2 ok. clear Es.
    destruct (sendok (cx_sends c)); intros He; apply IH in He; cbn [cx_timer mark_local] in He;
      (destruct He as [He|He]; [apply X, He | right; exact He]).
  Qed.

  Lemma start_request_round_entries nodes lk c e :
    In e (tm_entries (cx_timer (snd (start_request_round I sendok own now nodes lk c)))) ->
    In e (tm_entries (cx_timer c)) \/ exists t, te_task e = TkLookupTimeout t.
  Proof.
    unfold start_request_round. pose proof (request_round_entries nodes lk c O e) as X.
    destruct (request_round I sendok own now nodes lk c 0) as [[lk' c'] sent]. exact X.
  Qed.

  Lemma start_request_round_eg nodes lk c : (lk_act lk < K)%nat ->
    EgStep I lk (fst (start_request_round I sendok own now nodes lk c)) (cx_timer c)
           (cx_timer (snd (start_request_round I sendok own now nodes lk c))).
  Proof.
    intros HK. destruct (start_request_round_wait I K HI sendok own now nodes lk c HK) as [_ [E _]].
    split; [congruence|]. intros e tid He Et. left.
    destruct (start_request_round_entries nodes lk c e He) as [X|[t X]]; [exact X | congruence].
  Qed.

  Lemma start_endgame_eg lk c : (lk_act lk < K)%nat ->
    EgStep I lk (fst (start_endgame I sendok own now lk c)) (cx_timer c) (cx_timer (snd (start_endgame I sendok own now lk c))).
  Proof.
    intros HK. unfold start_endgame.
    destruct (gen_tid I lk) as [tid lk1] eqn:Eg. unfold gen_tid in Eg. inversion Eg; subst tid lk1. clear Eg.
    pose proof (GoodIds_tid I K (lk_act lk) (lk_next lk) HI HK) as Ho.
    set (tid := tid_bytes _ _) in *.
    assert (X : forall x t, In x (tm_entries (fst (schedule_in now endgame_timeout (TkLookupEndGame tid) (cx_timer c)))) ->
                te_task x = TkLookupEndGame t -> In x (tm_entries (cx_timer c)) \/ tid_action t = Some (aid_of I (lk_act lk))).
    { intros x t Hx Et. cbn in Hx. apply in_app_or in Hx as [Hx|[<-|[]]]; [left; exact Hx|].
      right. cbn in Et. inversion Et; subst t. exact Ho. }
    destruct (schedule_in now endgame_timeout (TkLookupEndGame tid) (cx_timer c)) as [tm key]. cbn [fst] in X.
    match goal with |- context [endgame_sends I sendok own now ?t key ?l ?cc] =>
      destruct (endgame_sends_wait I sendok own now t key l cc) as [E1 [E2 _]];
      destruct (endgame_sends I sendok own now t key l cc) as [[r' lk'] c'] end.
    cbn [fst snd cx_timer lk_endgame] in *. rewrite E1. split; [intros _; exact E2|].
    intros e t He Et. destruct (X e t He Et) as [Y|Y]; [left; exact Y | right; auto].
  Qed.

  Lemma EgStep_refl lk tm : EgStep I lk lk tm tm.
  Proof. apply EgStep_sub; [reflexivity | apply incl_refl]. Qed.

  Lemma rr_continue_eg lk2 c0 it nd : (lk_act lk2 < K)%nat ->
    EgStep I lk2 (fst (rr_continue I sendok own now lk2 c0 it nd)) (cx_timer c0) (cx_timer (snd (rr_continue I sendok own now lk2 c0 it nd))).
  Proof.
    intros HK. unfold rr_continue. destruct (lk_endgame lk2); [apply EgStep_refl|].
    destruct it as [it0|].
    - pose proof (start_request_round_eg (map (fun h => (h, nd)) (used_slots it0)) lk2 c0 HK) as X.
      pose proof (start_request_round_act I sendok own now (map (fun h => (h, nd)) (used_slots it0)) lk2 c0) as Ea.
      destruct (start_request_round I sendok own now _ lk2 c0) as [lk' c']. cbn [fst snd] in *.
      destruct (lk_active lk'); [|exact X].
      eapply EgStep_trans; [exact Ea | exact X | apply start_endgame_eg; rewrite Ea; exact HK].
    - destruct (lk_active lk2); [apply start_endgame_eg, HK | apply EgStep_refl].
  Qed.

  Lemma recv_response_eg lk c from tid r v6 : (lk_act lk < K)%nat ->
    EgStep I lk (fst (recv_response I sendok own now lk c from tid r v6)) (cx_timer c)
           (cx_timer (snd (recv_response I sendok own now lk c from tid r v6))).
  Proof.
    intros HK. unfold recv_response.
    destruct (List.find (fun e => bytes_eqb (fst e) tid) (lk_active lk)) as [[t0 [dist key]]|]; [|apply EgStep_refl].
    set (c0 := if lk_endgame lk then c else _).
    destruct (rr_accept_fields lk from tid r v6 dist) as [F1 _]. pose proof (rr_accept_act lk from tid r v6 dist) as F3.
    assert (X0 : EgStep I lk (fst (fst (rr_accept lk from tid r v6 dist))) (cx_timer c) (cx_timer c0)).
    { apply EgStep_sub; [exact F1|]. unfold c0. destruct (lk_endgame lk); [apply incl_refl|].
      cbn [cx_timer]. intros x Hx. apply cancel_spec in Hx. tauto. }
    destruct (rr_accept lk from tid r v6 dist) as [[lk2 it] nd]. cbn [fst] in *.
    assert (HK2 : (lk_act lk2 < K)%nat) by (rewrite F3; exact HK).
    pose proof (rr_continue_eg lk2 c0 it nd HK2) as X1.
    destruct (rr_continue I sendok own now lk2 c0 it nd) as [lk3 c1]. cbn [fst snd cx_timer] in *.
    eapply EgStep_trans; eassumption.
  Qed.

  Lemma recv_timeout_eg lk c tid : (lk_act lk < K)%nat ->
    EgStep I lk (fst (recv_timeout I sendok own now lk c tid)) (cx_timer c) (cx_timer (snd (recv_timeout I sendok own now lk c tid))).
  Proof.
    intros HK. unfold recv_timeout.
    match goal with |- context [if ?b then _ else _] => destruct b end; [|apply EgStep_refl].
    set (lk0 := set_active lk _).
    assert (X0 : EgStep I lk lk0 (cx_timer c) (cx_timer c)) by (apply EgStep_sub; [reflexivity | apply incl_refl]).
    match goal with |- context [if ?b then _ else _] => destruct b end; [|exact X0].
    eapply EgStep_trans; [|exact X0 | apply (start_endgame_eg lk0 c HK)]. reflexivity.
  Qed.

  Lemma lookup_new_eg act target an c e tid :
    In e (tm_entries (cx_timer (snd (lookup_new I sendok own now act target an c)))) -> te_task e = TkLookupEndGame tid ->
    In e (tm_entries (cx_timer c)).
  Proof.
    unfold lookup_new. intros He Et. apply start_request_round_entries in He as [X|[t X]]; [exact X | congruence].
  Qed.
End EgLookup.

Section EgNode.
  Variable I : ids.
  Variable K : nat.
  Hypothesis HI : GoodIds I K.
  Variable sendok : nat -> bool.
  Variable cf : cfg.
  Variable queue_early : bool.
  Notation step := (step I sendok cf true queue_early).
  Notation run := (run I sendok cf true queue_early).

  Lemma EgSound_same s s' : ns_timer s' = ns_timer s -> ns_lookups s' = ns_lookups s -> ns_next_act s' = ns_next_act s ->
    EgSound I s -> EgSound I s'.
  Proof. intros E1 E2 E3 H. unfold EgSound. rewrite E1, E2, E3. exact H. Qed.

  Lemma start_lookup_eg now s ih an : EgSound I s -> EgSound I (fst (start_lookup I sendok cf now s ih an)).
  Proof.
    intros H. unfold EgSound. pose proof (start_lookup_timer I sendok cf now s ih an) as Et.
    assert (X : forall e tid, In e (tm_entries (ns_timer (fst (start_lookup I sendok cf now s ih an)))) ->
                te_task e = TkLookupEndGame tid -> In e (tm_entries (ns_timer s))).
    { rewrite Et. intros e tid. apply lookup_new_eg. }
    destruct (start_lookup_shape I sendok cf now s ih an) as [N1 [_ [[_ El]|[_ [lk [Ea [_ [_ El]]]]]]]]; rewrite N1, El.
    - apply (EgV_sub I (ns_next_act s) (ns_lookups s) (ns_timer s)); [exact X | apply incl_refl | lia | exact H].
    - apply (EgV_new I _ _ (ns_timer s)); assumption.
  Qed.

  Lemma start_queued_eg now : forall q s, EgSound I s -> EgSound I (fst (start_queued I sendok cf now s q)).
  Proof.
    induction q as [|[ih an] r IH]; intros s H; cbn [start_queued]; [exact H|].
    pose proof (start_lookup_eg now s ih an H) as H1.
    destruct (start_lookup I sendok cf now s ih an) as [s1 o1]. cbn [fst] in H1.
    specialize (IH s1 H1). destruct (start_queued I sendok cf now s1 r) as [s2 o2]. exact IH.
  Qed.

  Lemma processed_eg now s c' lk' (ongoing : bool) :
    EgV I (ns_next_act s) (replace_lookup (ns_lookups s) lk') (cx_timer c') ->
    EgSound I (fst (if ongoing then (with_ctx s c' (replace_lookup (ns_lookups s) lk'), rev (cx_out c'))
                    else complete_lookup I sendok cf now (with_ctx s c' (replace_lookup (ns_lookups s) lk')) c' lk')).
  Proof.
    intros H. destruct ongoing; cbn [fst]; [exact H|].
    destruct (complete_lookup_fields I sendok cf now (with_ctx s c' (replace_lookup (ns_lookups s) lk')) c' lk') as [F1 F2].
    unfold EgSound. rewrite F1, F2. eapply EgV_sub; [| |apply Nat.le_refl | exact H]; [auto|].
    intros l Hl. apply remove_lookup_in' in Hl as [Hl _]. exact Hl.
  Qed.

  Theorem step_egsound now s e : U s -> EgSound I s -> (ns_next_act (fst (step now s e)) <= K)%nat ->
    EgSound I (fst (step now s e)).
  Proof.
    intros HU HE Hroom.
    assert (HKs : forall lk, In lk (ns_lookups s) -> (lk_act lk < K)%nat /\ (lk_act lk < ns_next_act s)%nat).
    { intros lk Hl. pose proof (step_acct I sendok cf true queue_early now s e HU) as [L _].
      pose proof (proj2 HU (lk_act lk) (in_map lk_act _ _ Hl)). lia. }
    clear Hroom.
    destruct e as [src [tid [q|r|c x]]| |ih an| | |b|id a named|id a|rts|]; cbn [Handler.step m_body m_tid].
    - destruct (handle_query now cf (ns_table s) (ns_tok s) (ns_sto s) src tid q) as [[[t' tk'] st'] reply].
      apply (EgSound_same s); try reflexivity; exact HE.
    - destruct (tid_action tid) as [aid|]; [|exact HE].
      destruct (lookup_by_action I s aid) as [lk|] eqn:El.
      2:{ destruct (aid_of I 0 =? aid)%N; [apply (EgSound_same s); try reflexivity|]; exact HE. }
      pose proof (lookup_by_action_in _ _ _ _ El) as Hin. destruct (HKs lk Hin) as [HK1 HK2].
      set (c := mkCtx _ (ns_timer s) (ns_sends s) []).
      pose proof (recv_response_eg I K HI sendok (c_id cf) now lk c (r_id r, src) tid r (c_v6 cf) HK1) as X.
      pose proof (recv_response_act I sendok (c_id cf) now lk c (r_id r, src) tid r (c_v6 cf)) as Xa.
      destruct (recv_response I sendok (c_id cf) now lk c (r_id r, src) tid r (c_v6 cf)) as [lk' c']. cbn [fst snd] in *.
      apply processed_eg. eapply EgV_replace; [exact Hin | exact HK2 | exact Xa | exact X | exact HE].
    - exact HE.
    - destruct (pop_timer (ns_timer s)) as [[en tm]|] eqn:Ep; [|exact HE].
      destruct (pop_timer_spec _ _ _ Ep) as [_ Etm].
      assert (H0 : EgSound I (set_timer s tm)).
      { unfold EgSound. cbn. eapply EgV_sub; [|apply incl_refl | apply Nat.le_refl | exact HE].
        intros x t Hx _. rewrite Etm in Hx. apply cancel_spec in Hx. tauto. }
      destruct (te_task en) as [|tid|tid].
      + destruct (continue_refresh_fields I sendok cf now (set_timer s tm)) as [E1 [_ [E3 _]]].
        destruct (continue_refresh_acct I sendok cf true now (set_timer s tm)) as [_ [E2 _]].
        unfold EgSound. rewrite E1, E2, E3. eapply EgV_sub; [|apply incl_refl | apply Nat.le_refl | exact H0].
        intros x t Hx Et. cbn in Hx. apply in_app_or in Hx as [Hx|[<-|[]]]; [|discriminate].
        unfold refresh_tm0 in Hx. destruct (ns_refresh_pending (set_timer s tm)); [|exact Hx].
        apply cancel_spec in Hx. tauto.
      + destruct (tid_action tid) as [a|]; [|exact H0].
        destruct (lookup_by_action I (set_timer s tm) a) as [lk|] eqn:El; [|exact H0].
        pose proof (lookup_by_action_in _ _ _ _ El) as Hin. cbn in Hin. destruct (HKs lk Hin) as [HK1 HK2].
        pose proof (recv_timeout_eg I K HI sendok (c_id cf) now lk (ctx_of (set_timer s tm)) tid HK1) as X.
        pose proof (recv_timeout_act I sendok (c_id cf) now lk (ctx_of (set_timer s tm)) tid) as Xa.
        destruct (recv_timeout I sendok (c_id cf) now lk (ctx_of (set_timer s tm)) tid) as [lk' c']. cbn [fst snd] in *.
        apply (processed_eg now (set_timer s tm)). eapply EgV_replace; [exact Hin | exact HK2 | exact Xa | exact X | exact H0].
      + destruct (tid_action tid) as [a|]; [|exact H0].
        destruct (lookup_by_action I (set_timer s tm) a) as [lk|] eqn:El; [|exact H0].
        destruct (complete_lookup_fields I sendok cf now (set_timer s tm) (ctx_of (set_timer s tm)) lk) as [F1 F2].
        unfold EgSound. rewrite F1, F2. eapply EgV_sub; [| |apply Nat.le_refl | exact H0]; [auto|].
        intros l Hl. apply remove_lookup_in' in Hl as [Hl _]. exact Hl.
    - destruct (queue_early && negb (ns_concluded s)); [apply (EgSound_same s); try reflexivity; exact HE | apply start_lookup_eg, HE].
    - destruct (ns_boot s); apply (EgSound_same s); try reflexivity; exact HE.
    - exact HE.
    - set (s0 := set_boot s b).
      assert (X : EgSound I (fst (match b with
                   | BBootstrapped => let '(s1, o) := continue_refresh I sendok cf true now (set_waiters s0 [] (ns_next_waiter s0)) in
                                      (s1, map ONotify (ns_waiters s0) ++ o)
                   | _ => (s0, []) end))).
      { destruct b; try exact HE.
        destruct (continue_refresh_fields I sendok cf now (set_waiters s0 [] (ns_next_waiter s0))) as [E1 [_ [E3 _]]].
        destruct (continue_refresh_acct I sendok cf true now (set_waiters s0 [] (ns_next_waiter s0))) as [_ [E2 _]].
        destruct (continue_refresh I sendok cf true now (set_waiters s0 [] (ns_next_waiter s0))) as [s1 o]. cbn [fst snd] in *.
        unfold EgSound. rewrite E1, E2, E3. eapply EgV_sub; [|apply incl_refl | apply Nat.le_refl | exact HE].
        intros x t Hx Et. cbn in Hx. apply in_app_or in Hx as [Hx|[<-|[]]]; [|discriminate].
        unfold refresh_tm0 in Hx. cbn in Hx. destruct (ns_refresh_pending s); [|exact Hx].
        apply cancel_spec in Hx. tauto. }
      destruct (match b with BBootstrapped => _ | _ => _ end) as [s2 out]. cbn [fst] in X.
      destruct (queue_early && negb (ns_concluded s2) && _); [|exact X].
      pose proof (start_queued_eg now (ns_queued s2) (set_queue s2 [] true) X) as Y.
      destruct (start_queued I sendok cf now (set_queue s2 [] true) (ns_queued s2)) as [s3 o3]. exact Y.
    - apply (EgSound_same s); try reflexivity; exact HE.
    - apply (EgSound_same s); try reflexivity; exact HE.
    - apply (EgSound_same s); try reflexivity; exact HE.
    - exact HE.
  Qed.
End EgNode.

(* ------------------------------------------------------------------ consequences of the bookkeeping *)
Lemma AcctV_iff n l n' l' en a : NoDup l -> (forall x, In x l -> (x < n)%nat) -> AcctV n l n' l' en ->
  (In a en <-> (In a l \/ (n <= a < n')%nat) /\ ~ In a l').
Proof.
  intros Hn Hb HA. destruct (AcctV_nodup _ _ _ _ _ Hn Hb HA) as [N [_ X]]. destruct HA as [L P]. split.
  - intros Ha. split; [apply X, Ha | intros Hl; exact (nodup_app_disj _ _ a N Ha Hl)].
  - intros [Ha Hl].
    assert (Y : In a (en ++ l')).
    { apply (Permutation_in a (Permutation_sym P)). apply in_or_app. destruct Ha as [Ha|Ha]; [right; exact Ha|].
      left. apply in_seq. lia. }
    apply in_app_or in Y as [Y|Y]; [exact Y | contradiction].
Qed.

Section Ends.
  Variable I : ids.
  Variable sendok : nat -> bool.
  Variable cf : cfg.
  Variables single_refresh queue_early : bool.
  Notation step := (step I sendok cf single_refresh queue_early).

  (* a stream end is emitted for exactly the searches that were open before the event, or were started
     by it, and are not open after it *)
  Theorem stream_end_iff now s e a : U s ->
    (In (OStreamEnd a) (snd (step now s e)) <->
     (In a (acts s) \/ (ns_next_act s <= a < ns_next_act (fst (step now s e)))%nat) /\ ~ In a (acts (fst (step now s e)))).
  Proof.
    intros HU. rewrite <- in_ends. apply AcctV_iff; [exact (proj1 HU) | exact (proj2 HU) | apply step_acct, HU].
  Qed.

  (* ... and for each of them exactly once *)
  Theorem stream_end_once now s e : U s -> NoDup (ends (snd (step now s e))).
  Proof.
    intros HU. destruct (AcctV_nodup _ _ _ _ _ (proj1 HU) (proj2 HU) (step_acct I sendok cf single_refresh queue_early now s e HU)) as [N _].
    eapply nodup_app_l, N.
  Qed.

  (* (i) after its stream end a search is not open any more (so nothing can be yielded for it) *)
  Theorem ended_not_open now s e a : U s -> In (OStreamEnd a) (snd (step now s e)) -> ~ In a (acts (fst (step now s e))).
  Proof. intros HU H. apply (stream_end_iff now s e a HU) in H. tauto. Qed.

  (* (ii) a search that disappears from the open searches has its stream end among the outputs *)
  Theorem closed_has_end now s e lk : U s -> In lk (ns_lookups s) -> ~ In (lk_act lk) (acts (fst (step now s e))) ->
    In (OStreamEnd (lk_act lk)) (snd (step now s e)).
  Proof. intros HU Hl Hn. apply (stream_end_iff now s e _ HU). split; [left; apply in_map, Hl | exact Hn]. Qed.
End Ends.

(* ------------------------------------------------------------------ runs *)
Record Inv (I : ids) (now : Z) (s : nstate) : Prop := {
  inv_J : J s;
  inv_pend : Pend s;
  inv_U : U s;
  inv_served : Served I now s;
  inv_eg : EgSound I s
}.

Section Runs.
  Variable I : ids.
  Variable K : nat.
  Hypothesis HI : GoodIds I K.
  Variable sendok : nat -> bool.
  Variable cf : cfg.
  Variable queue_early : bool.
  Notation step := (step I sendok cf true queue_early).
  Notation run := (run I sendok cf true queue_early).

  Lemma Inv_init now id t0 : Inv I now (ns_init id t0).
  Proof. constructor; [apply J_init | apply Pend_init | apply U_init | apply Served_init | apply EgSound_init]. Qed.

  Theorem Inv_step now now' s e : Inv I now s -> now <= now' -> (ns_next_act (fst (step now' s e)) <= K)%nat ->
    Inv I now' (fst (step now' s e)).
  Proof.
    intros [HJ HP HU HS HE] Hn Hroom. constructor.
    - apply step_J, HJ.
    - apply Pend_step; assumption.
    - apply step_U, HU.
    - exact (proj1 (step_served I K HI sendok cf queue_early now now' s e HJ HP HU HS Hn Hroom)).
    - apply (step_egsound I K HI); assumption.
  Qed.

  Lemma run_inv : forall evs now s, Inv I now s -> etimes_from now evs -> (ns_next_act (fst (run s evs)) <= K)%nat ->
    Inv I (elast now evs) (fst (run s evs)).
  Proof.
    induction evs as [|[now' e] r IH]; intros now s HInv Ht; cbn [Handler.run]; [intros _; exact HInv|].
    cbn [etimes_from fst] in Ht. destruct Ht as [Hn Ht].
    pose proof (Inv_step now now' s e HInv Hn) as X.
    pose proof (step_U I sendok cf true queue_early now' s e (inv_U _ _ _ HInv)) as U1.
    destruct (step now' s e) as [s1 o]. cbn [fst] in X, U1.
    destruct (run_U I sendok cf true queue_early r s1 U1) as [_ L].
    specialize (IH now' s1). destruct (run s1 r) as [s2 os]. cbn [fst] in *.
    intros Hroom. apply IH; [apply X; lia | exact Ht | exact Hroom].
  Qed.

  (* the cause of a stream end: the search was started by this very event and found nobody to ask,
     or the event is the firing of an end-game entry that carries the action id of the search *)
  Theorem stream_end_cause now now' s e a : Inv I now s -> now <= now' -> (ns_next_act (fst (step now' s e)) <= K)%nat ->
    In (OStreamEnd a) (snd (step now' s e)) ->
    (ns_next_act s <= a < ns_next_act (fst (step now' s e)))%nat \/ EndgameFired I s e a.
  Proof.
    intros [HJ HP HU HS HE] Hn Hroom H.
    apply (stream_end_iff I sendok cf true queue_early now' s e a HU) in H as [[H|H] Hnot]; [|left; exact H].
    apply in_map_iff in H as [lk [<- Hl]].
    destruct (proj2 (step_served I K HI sendok cf queue_early now now' s e HJ HP HU HS Hn Hroom) lk Hl) as [X|X]; [contradiction | right; exact X].
  Qed.

  (* in particular neither a response nor the timeout of a query ever closes a search: a search
     whose queries are all answered or timed out enters its end-game instead *)
  Theorem open_search_survives now now' s e lk : Inv I now s -> now <= now' -> (ns_next_act (fst (step now' s e)) <= K)%nat ->
    In lk (ns_lookups s) ->
    (forall en tm tid, e = EvTimer -> pop_timer (ns_timer s) = Some (en, tm) -> te_task en = TkLookupEndGame tid ->
                       tid_action tid <> Some (aid_of I (lk_act lk))) ->
    In (lk_act lk) (acts (fst (step now' s e))).
  Proof.
    intros [HJ HP HU HS HE] Hn Hroom Hl Hno.
    destruct (proj2 (step_served I K HI sendok cf queue_early now now' s e HJ HP HU HS Hn Hroom) lk Hl) as [X|X]; [exact X|].
    destruct X as [Ee [en [tm [tid [lk' [Ep [Et [Eo _]]]]]]]]. exfalso. exact (Hno en tm tid Ee Ep Et Eo).
  Qed.

  (* an open search whose stream end is emitted was in its end-game, and the event is the firing of an
     end-game entry with its action id *)
  Theorem closed_in_endgame now now' s e lk : Inv I now s -> now <= now' -> (ns_next_act (fst (step now' s e)) <= K)%nat ->
    In lk (ns_lookups s) -> In (OStreamEnd (lk_act lk)) (snd (step now' s e)) ->
    lk_endgame lk = true /\ EndgameFired I s e (lk_act lk).
  Proof.
    intros HInv Hn Hroom Hl H. pose proof (inv_U _ _ _ HInv) as HU.
    pose proof (proj2 HU _ (in_map lk_act _ _ Hl)) as Hlt.
    destruct (stream_end_cause now now' s e (lk_act lk) HInv Hn Hroom H) as [X|X]; [lia|]. split; [|exact X].
    destruct X as [_ [en [tm [tid [lk' [Ep [Et [Eo _]]]]]]]].
    destruct (pop_timer_spec _ _ _ Ep) as [Hen _].
    destruct (inv_eg _ _ _ HInv en tid Hen Et) as [a [Ha [Eo' Hf]]].
    pose proof (step_acct I sendok cf true queue_early now' s e HU) as [L _].
    apply Hf; [exact Hl|]. apply (gi_inj _ _ HI); [lia | lia | congruence].
  Qed.

  (* not early: a search that is not in its end-game (some query of it is neither answered nor timed
     out, or it has only just been started) is still open after the event, whatever the event *)
  Theorem not_endgame_stays_open now now' s e lk : Inv I now s -> now <= now' -> (ns_next_act (fst (step now' s e)) <= K)%nat ->
    In lk (ns_lookups s) -> lk_endgame lk = false -> In (lk_act lk) (acts (fst (step now' s e))).
  Proof.
    intros HInv Hn Hroom Hl Eeg. destruct (in_dec Nat.eq_dec (lk_act lk) (acts (fst (step now' s e)))) as [Y|Y]; [exact Y|].
    pose proof (closed_has_end I sendok cf true queue_early now' s e lk (inv_U _ _ _ HInv) Hl Y) as H.
    destruct (closed_in_endgame now now' s e lk HInv Hn Hroom Hl H) as [E _]. congruence.
  Qed.

  (* (1) after ANY events handled at non-decreasing times (fewer than K activities having been
     started) every open search is ongoing and has its timer entries pending, due within the
     query timeout resp. the end-game timeout of the last event handled *)
  Theorem served_run id t0 t evs : etimes_from t evs ->
    (ns_next_act (fst (run (ns_init id t0) evs)) <= K)%nat ->
    Inv I (elast t evs) (fst (run (ns_init id t0) evs)).
  Proof. intros Ht Hroom. apply run_inv; [apply Inv_init | exact Ht | exact Hroom]. Qed.
End Runs.

(* the invariant written out *)
Lemma Served_unfold I now s lk : Served I now s -> In lk (ns_lookups s) ->
  lookup_ongoing lk = true /\
  (lk_endgame lk = false ->
     lk_active lk <> [] /\
     forall tid d key, In (tid, (d, key)) (lk_active lk) ->
       tid_action tid = Some (aid_of I (lk_act lk)) /\
       exists e, In e (tm_entries (ns_timer s)) /\ (te_deadline e, te_id e) = key /\
                 te_task e = TkLookupTimeout tid /\ te_deadline e <= now + lookup_timeout) /\
  (lk_endgame lk = true ->
     exists e tid, In e (tm_entries (ns_timer s)) /\ te_task e = TkLookupEndGame tid /\
                   tid_action tid = Some (aid_of I (lk_act lk)) /\ te_deadline e <= now + endgame_timeout /\
                   forall tid' d key, In (tid', (d, key)) (lk_active lk) -> key = (te_deadline e, te_id e)).
Proof.
  intros HS Hl. destruct (HS lk Hl) as [O [W1 W2]]. split; [exact O|]. split.
  - intros E. split.
    + intros Hnil. unfold lookup_ongoing in O. rewrite E, Hnil in O. discriminate.
    + intros tid d key Hin. destruct (W1 E _ Hin) as [Ho X]. split; [exact Ho | exact X].
  - intros E. destruct (W2 E) as [e [tid [He [Ht [Ho [Hd Hk]]]]]]. exists e, tid. repeat split; try assumption.
    intros tid' d key Hin. exact (Hk _ Hin).
Qed.

(* every open search has a pending timer entry of its own, due within 1.5 s *)
Lemma Served_entry I now s lk : Served I now s -> In lk (ns_lookups s) ->
  exists e, In e (tm_entries (ns_timer s)) /\ task_owner (te_task e) = Some (aid_of I (lk_act lk)) /\
            te_deadline e <= now + Z.max lookup_timeout endgame_timeout.
Proof.
  intros HS Hl. destruct (Served_unfold I now s lk HS Hl) as [O [H1 H2]]. destruct (lk_endgame lk).
  - destruct (H2 eq_refl) as [e [tid [He [Ht [Ho [Hd _]]]]]]. exists e. split; [exact He|]. rewrite Ht. split; [exact Ho | lia].
  - destruct (H1 eq_refl) as [Hne H]. destruct (lk_active lk) as [|[tid [d key]] xs]; [contradiction|].
    destruct (H tid d key (or_introl eq_refl)) as [Ho [e [He [_ [Ht Hd]]]]]. exists e. split; [exact He|]. rewrite Ht. split; [exact Ho | lia].
Qed.

(* ------------------------------------------------------------------ a decision procedure for [Served] *)
Definition oN_eqb (a b : option N) : bool :=
  match a, b with Some x, Some y => (x =? y)%N | None, None => true | _, _ => false end.

Definition timeout_entry_b (now : Z) (tm : timer) (tid : bytes) (key : Z * N) : bool :=
  existsb (fun e => key_eqb (te_key e) key
                    && match te_task e with TkLookupTimeout t => bytes_eqb t tid | _ => false end
                    && (te_deadline e <=? now + lookup_timeout)) (tm_entries tm).

Definition acts_ok_b (I : ids) (now : Z) (tm : timer) (act : nat) (a : list (bytes * (N * (Z * N)))) : bool :=
  forallb (fun x => oN_eqb (tid_action (fst x)) (Some (aid_of I act)) && timeout_entry_b now tm (fst x) (snd (snd x))) a.

Definition endgame_entry_b (I : ids) (now : Z) (tm : timer) (act : nat) (a : list (bytes * (N * (Z * N)))) : bool :=
  existsb (fun e => match te_task e with TkLookupEndGame t => oN_eqb (tid_action t) (Some (aid_of I act)) | _ => false end
                    && (te_deadline e <=? now + endgame_timeout)
                    && forallb (fun x => key_eqb (snd (snd x)) (te_key e)) a) (tm_entries tm).

Definition served_b (I : ids) (now : Z) (s : nstate) : bool :=
  forallb (fun lk => lookup_ongoing lk &&
                     (if lk_endgame lk then endgame_entry_b I now (ns_timer s) (lk_act lk) (lk_active lk)
                      else acts_ok_b I now (ns_timer s) (lk_act lk) (lk_active lk))) (ns_lookups s).

Lemma key_eqb_eq a b : key_eqb a b = true -> a = b.
Proof.
  destruct a as [a1 a2], b as [b1 b2]. unfold key_eqb. cbn [fst snd]. intros H. apply andb_true_iff in H as [H1 H2].
  apply Z.eqb_eq in H1. apply N.eqb_eq in H2. congruence.
Qed.

Lemma oN_eqb_eq a b : oN_eqb a b = true -> a = b.
Proof. destruct a, b; cbn; intros H; try discriminate; [apply N.eqb_eq in H; congruence | reflexivity]. Qed.

Theorem served_b_sound I now s : served_b I now s = true -> Served I now s.
Proof.
  unfold served_b. intros H lk Hl. rewrite forallb_forall in H. specialize (H lk Hl).
  apply andb_true_iff in H as [O H]. split; [exact O|]. split; intros E; rewrite E in H.
  - unfold acts_ok_b in H. rewrite forallb_forall in H. intros x Hx. specialize (H x Hx).
    apply andb_true_iff in H as [H1 H2]. split; [apply oN_eqb_eq, H1|].
    unfold timeout_entry_b in H2. apply existsb_exists in H2 as [e [He H2]].
    apply andb_true_iff in H2 as [H2 H5]. apply andb_true_iff in H2 as [H3 H4].
    exists e. split; [exact He|]. split; [apply key_eqb_eq, H3|]. split; [|lia].
    destruct (te_task e) as [|t|t]; try discriminate. apply bytes_eqb_eq in H4. congruence.
  - unfold endgame_entry_b in H. apply existsb_exists in H as [e [He H]].
    apply andb_true_iff in H as [H H3]. apply andb_true_iff in H as [H1 H2].
    destruct (te_task e) as [|t|t] eqn:Et; try discriminate. exists e, t.
    split; [exact He|]. split; [exact Et|]. split; [apply oN_eqb_eq, H1|]. split; [lia|].
    intros x Hx. rewrite forallb_forall in H3. apply key_eqb_eq, H3, Hx.
Qed.

(* the states a run passes through *)
Fixpoint states (I : ids) (sendok : nat -> bool) (cf : cfg) (sr qe : bool) (s : nstate) (evs : list (Z * event)) : list nstate :=
  match evs with
  | [] => []
  | (now, e) :: r => let s1 := fst (step I sendok cf sr qe now s e) in s1 :: states I sendok cf sr qe s1 r
  end.

(* ------------------------------------------------------------------ how many activities a run starts *)
Definition is_start (e : event) : bool := match e with EvStartLookup _ _ => true | _ => false end.

(* the number of search requests among the events *)
Definition starts (evs : list (Z * event)) : nat := length (filter (fun te => is_start (snd te)) evs).

(* activity indices handed out, plus the searches still queued *)
Definition budget (s : nstate) : nat := (ns_next_act s + length (ns_queued s))%nat.

Section Budget.
  Variable I : ids.
  Variable sendok : nat -> bool.
  Variable cf : cfg.
  Variables single_refresh queue_early : bool.
  Notation step := (step I sendok cf single_refresh queue_early).
  Notation run := (run I sendok cf single_refresh queue_early).

  Lemma budget_same s s' k : ns_next_act s' = ns_next_act s -> ns_queued s' = ns_queued s -> (budget s' <= budget s + k)%nat.
  Proof. intros E1 E2. unfold budget. rewrite E1, E2. lia. Qed.

  Lemma step_budget now s e : (budget (fst (step now s e)) <= budget s + (if is_start e then 1 else 0))%nat.
  Proof.
    destruct e as [src [tid [q|r|c x]]| |ih an| | |b|id a named|id a|rts|]; cbn [Handler.step m_body m_tid is_start].
    - destruct (handle_query now cf (ns_table s) (ns_tok s) (ns_sto s) src tid q) as [[[t' tk'] st'] reply].
      apply budget_same; reflexivity.
    - destruct (tid_action tid) as [aid|]; [|apply budget_same; reflexivity].
      destruct (lookup_by_action I s aid) as [lk|].
      2:{ destruct (aid_of I 0 =? aid)%N; apply budget_same; reflexivity. }
      destruct (recv_response I sendok (c_id cf) now lk _ (r_id r, src) tid r (c_v6 cf)) as [lk' c'].
      destruct (lookup_ongoing lk'); apply budget_same; reflexivity.
    - apply budget_same; reflexivity.
    - destruct (pop_timer (ns_timer s)) as [[en tm]|]; [|apply budget_same; reflexivity].
      destruct (te_task en) as [|tid|tid].
      + destruct (continue_refresh_acct I sendok cf single_refresh now (set_timer s tm)) as [_ [E2 [E3 _]]]. apply budget_same; assumption.
      + destruct (tid_action tid) as [a|]; [|apply budget_same; reflexivity].
        destruct (lookup_by_action I (set_timer s tm) a) as [lk|]; [|apply budget_same; reflexivity].
        destruct (recv_timeout I sendok (c_id cf) now lk (ctx_of (set_timer s tm)) tid) as [lk' c'].
        destruct (lookup_ongoing lk'); apply budget_same; reflexivity.
      + destruct (tid_action tid) as [a|]; [|apply budget_same; reflexivity].
        destruct (lookup_by_action I (set_timer s tm) a) as [lk|]; apply budget_same; reflexivity.
    - destruct (queue_early && negb (ns_concluded s)).
      + unfold budget. cbn. rewrite app_length. cbn. lia.
      + destruct (start_lookup_shape I sendok cf now s ih an) as [N1 [Q1 _]]. unfold budget. rewrite N1, Q1. lia.
    - destruct (ns_boot s); apply budget_same; reflexivity.
    - apply budget_same; reflexivity.
    - set (s0 := set_boot s b).
      assert (X : let r := match b with
                   | BBootstrapped => let '(s1, o) := continue_refresh I sendok cf single_refresh now (set_waiters s0 [] (ns_next_waiter s0)) in
                                      (s1, map ONotify (ns_waiters s0) ++ o)
                   | _ => (s0, []) end in
                  ns_next_act (fst r) = ns_next_act s /\ ns_queued (fst r) = ns_queued s).
      { destruct b; try solve [cbn; auto]. cbn zeta.
        destruct (continue_refresh_acct I sendok cf single_refresh now (set_waiters s0 [] (ns_next_waiter s0))) as [_ [E2 [E3 _]]].
        destruct (continue_refresh I sendok cf single_refresh now (set_waiters s0 [] (ns_next_waiter s0))) as [s1 o]. cbn [fst snd] in *.
        auto. }
      cbn zeta in X. destruct (match b with BBootstrapped => _ | _ => _ end) as [s2 out]. cbn [fst snd] in X.
      destruct X as [E1 E2].
      destruct (queue_early && negb (ns_concluded s2) && _); [|apply budget_same; assumption].
      destruct (start_queued_acct I sendok cf now (ns_queued s2) (set_queue s2 [] true)) as [_ [_ [_ [N3 Q3]]]].
      destruct (start_queued I sendok cf now (set_queue s2 [] true) (ns_queued s2)) as [s3 o3]. cbn [fst snd] in *.
      unfold budget. rewrite N3, Q3. cbn. rewrite E1, E2. lia.
    - apply budget_same; reflexivity.
    - apply budget_same; reflexivity.
    - apply budget_same; reflexivity.
    - apply budget_same; reflexivity.
  Qed.

  Lemma run_budget : forall evs s, (budget (fst (run s evs)) <= budget s + starts evs)%nat.
  Proof.
    induction evs as [|[now e] r IH]; intros s; cbn [Handler.run]; [cbn; lia|].
    pose proof (step_budget now s e) as X. destruct (step now s e) as [s1 o]. cbn [fst] in X.
    specialize (IH s1). destruct (run s1 r) as [s2 os]. cbn [fst] in *.
    unfold starts in *. cbn [filter snd]. destruct (is_start e); cbn [length]; lia.
  Qed.

  (* a run hands out at most two (refresh, bootstrap) plus the number of search requests activity indices *)
  Theorem run_next_act id t0 evs : (ns_next_act (fst (run (ns_init id t0) evs)) <= 2 + starts evs)%nat.
  Proof. pose proof (run_budget evs (ns_init id t0)) as X. unfold budget in X. cbn in X. lia. Qed.
End Budget.

(* ------------------------------------------------------------------ the end is final *)
Section Silence.
  Variable I : ids.
  Variable sendok : nat -> bool.
  Variable cf : cfg.
  Variables single_refresh queue_early : bool.
  Notation step := (step I sendok cf single_refresh queue_early).
  Notation run := (run I sendok cf single_refresh queue_early).

  (* the activity index has been handed out and the search is not open (any more) *)
  Definition Gone (s : nstate) (a : nat) : Prop := (a < ns_next_act s)%nat /\ ~ In a (acts s).

  Lemma step_gone now s e a : U s -> Gone s a ->
    Gone (fst (step now s e)) a /\ ~ In (OStreamEnd a) (snd (step now s e)) /\ forall x, ~ In (OYield a x) (snd (step now s e)).
  Proof.
    intros HU [Hlt Hn]. pose proof (step_acct I sendok cf single_refresh queue_early now s e HU) as [L P].
    split; [split; [lia|]|split].
    - intros Hin.
      assert (Y : In a (ends (snd (step now s e)) ++ acts (fst (step now s e)))) by (apply in_or_app; right; exact Hin).
      apply (Permutation_in a P) in Y. apply in_app_or in Y as [Y|Y]; [apply in_seq in Y; lia | contradiction].
    - intros H. apply (stream_end_iff I sendok cf single_refresh queue_early now s e a HU) in H as [[H|H] _]; [contradiction | lia].
    - intros x H. apply step_yield_sound in H as [src [tid [r [aid [lk [_ [_ [_ [El [Ea _]]]]]]]]]].
      apply Hn. rewrite <- Ea. apply in_map. eapply lookup_by_action_in, El.
  Qed.

  Lemma end_gone now s e a : U s -> In (OStreamEnd a) (snd (step now s e)) -> Gone (fst (step now s e)) a.
  Proof.
    intros HU H. pose proof (step_acct I sendok cf single_refresh queue_early now s e HU) as [L _].
    apply (stream_end_iff I sendok cf single_refresh queue_early now s e a HU) in H as [[H|H] Hn]; (split; [|exact Hn]); [|lia].
    pose proof (proj2 HU a H). lia.
  Qed.

  Lemma run_gone : forall evs s a, U s -> Gone s a ->
    forall o, In o (concat (snd (run s evs))) -> o <> OStreamEnd a /\ forall x, o <> OYield a x.
  Proof.
    induction evs as [|[now e] r IH]; intros s a HU HG o Ho; cbn [Handler.run] in Ho; [destruct Ho|].
    destruct (step_gone now s e a HU HG) as [G1 [N1 N2]]. pose proof (step_U I sendok cf single_refresh queue_early now s e HU) as U1.
    destruct (step now s e) as [s1 o1]. cbn [fst snd] in *. specialize (IH s1 a U1 G1 o).
    destruct (run s1 r) as [s2 os]. cbn [snd concat] in *. apply in_app_or in Ho as [Ho|Ho]; [|apply IH, Ho].
    split; [intros ->; exact (N1 Ho) | intros x ->; exact (N2 x Ho)].
  Qed.

  (* once the stream end of a search has been emitted, no later event of the run emits a second
     stream end or yields a result for it *)
  Theorem end_is_final id t0 evs1 now e evs2 a :
    let s1 := fst (run (ns_init id t0) evs1) in
    In (OStreamEnd a) (snd (step now s1 e)) ->
    forall o, In o (concat (snd (run (fst (step now s1 e)) evs2))) -> o <> OStreamEnd a /\ forall x, o <> OYield a x.
  Proof.
    cbn zeta. intros H.
    destruct (run_U I sendok cf single_refresh queue_early evs1 (ns_init id t0) (U_init id t0)) as [U1 _].
    apply run_gone; [apply step_U, U1 | apply end_gone; assumption].
  Qed.
End Silence.

(* ------------------------------------------------------------------ the run theorem with a bound on the inputs only *)
Theorem served_run_starts I K sendok cf qe id t0 t evs : GoodIds I K -> etimes_from t evs -> (2 + starts evs <= K)%nat ->
  Inv I (elast t evs) (fst (run I sendok cf true qe (ns_init id t0) evs)).
Proof.
  intros HI Ht Hs. apply (served_run I K HI); [exact Ht|].
  pose proof (run_next_act I sendok cf true qe id t0 evs). lia.
Qed.

(* no search is stuck: after any run, every open search has what it waits for pending in the timer *)
Theorem no_stuck_search I K sendok cf qe id t0 t evs : GoodIds I K -> etimes_from t evs -> (2 + starts evs <= K)%nat ->
  let s := fst (run I sendok cf true qe (ns_init id t0) evs) in
  forall lk, In lk (ns_lookups s) ->
    lookup_ongoing lk = true /\
    (lk_endgame lk = false ->
       lk_active lk <> [] /\
       forall tid d key, In (tid, (d, key)) (lk_active lk) ->
         tid_action tid = Some (aid_of I (lk_act lk)) /\
         exists e, In e (tm_entries (ns_timer s)) /\ (te_deadline e, te_id e) = key /\
                   te_task e = TkLookupTimeout tid /\ te_deadline e <= elast t evs + lookup_timeout) /\
    (lk_endgame lk = true ->
       exists e tid, In e (tm_entries (ns_timer s)) /\ te_task e = TkLookupEndGame tid /\
                     tid_action tid = Some (aid_of I (lk_act lk)) /\ te_deadline e <= elast t evs + endgame_timeout /\
                     forall tid' d key, In (tid', (d, key)) (lk_active lk) -> key = (te_deadline e, te_id e)) /\
    (exists e, In e (tm_entries (ns_timer s)) /\ task_owner (te_task e) = Some (aid_of I (lk_act lk)) /\
               te_deadline e <= elast t evs + Z.max lookup_timeout endgame_timeout).
Proof.
  intros HI Ht Hs. cbn zeta. intros lk Hl.
  pose proof (inv_served _ _ _ (served_run_starts I K sendok cf qe id t0 t evs HI Ht Hs)) as HS.
  destruct (Served_unfold I _ _ lk HS Hl) as [O [H1 H2]].
  split; [exact O|]. split; [exact H1|]. split; [exact H2|]. exact (Served_entry I _ _ lk HS Hl).
Qed.

(* ------------------------------------------------------------------ statements with the hypotheses on the ids spelled out *)
Lemma GoodIds_meaning I K : GoodIds I K <->
  (forall a, (a < K)%nat -> (aid_of I a < 2 ^ 40)%N) /\
  (forall a m, (a < K)%nat -> (mid_of I a m < 2 ^ 24)%N) /\
  (forall a b, (a < K)%nat -> (b < K)%nat -> aid_of I a = aid_of I b -> a = b).
Proof. split; [intros [H1 H2 H3]; auto | intros [H1 [H2 H3]]; constructor; assumption]. Qed.

Lemma Inv_meaning I now s : Inv I now s <-> J s /\ Pend s /\ U s /\ Served I now s /\ EgSound I s.
Proof. split; [intros [H1 H2 H3 H4 H5]; auto | intros [H1 [H2 [H3 [H4 H5]]]]; constructor; assumption]. Qed.

Theorem no_stuck_search_explicit I K sendok cf qe id t0 t evs :
  (forall a, (a < K)%nat -> (aid_of I a < 2 ^ 40)%N) ->
  (forall a m, (a < K)%nat -> (mid_of I a m < 2 ^ 24)%N) ->
  (forall a b, (a < K)%nat -> (b < K)%nat -> aid_of I a = aid_of I b -> a = b) ->
  etimes_from t evs -> (2 + starts evs <= K)%nat ->
  let s := fst (run I sendok cf true qe (ns_init id t0) evs) in
  forall lk, In lk (ns_lookups s) ->
    lookup_ongoing lk = true /\
    (lk_endgame lk = false ->
       lk_active lk <> [] /\
       forall tid d key, In (tid, (d, key)) (lk_active lk) ->
         tid_action tid = Some (aid_of I (lk_act lk)) /\
         exists e, In e (tm_entries (ns_timer s)) /\ (te_deadline e, te_id e) = key /\
                   te_task e = TkLookupTimeout tid /\ te_deadline e <= elast t evs + lookup_timeout) /\
    (lk_endgame lk = true ->
       exists e tid, In e (tm_entries (ns_timer s)) /\ te_task e = TkLookupEndGame tid /\
                     tid_action tid = Some (aid_of I (lk_act lk)) /\ te_deadline e <= elast t evs + endgame_timeout /\
                     forall tid' d key, In (tid', (d, key)) (lk_active lk) -> key = (te_deadline e, te_id e)) /\
    (exists e, In e (tm_entries (ns_timer s)) /\ task_owner (te_task e) = Some (aid_of I (lk_act lk)) /\
               te_deadline e <= elast t evs + Z.max lookup_timeout endgame_timeout).
Proof. intros H1 H2 H3. apply no_stuck_search. constructor; assumption. Qed.

(* a concrete family of ids that satisfies the hypotheses for 4096 activities *)
Definition example_ids : ids := mkIds (fun k => N.of_nat k + 100)%N (fun k n => (N.of_nat n mod 2 ^ 24)%N).

Lemma example_ids_good : GoodIds example_ids 4096.
Proof.
  assert (E : (2 ^ 40 = 1099511627776)%N) by reflexivity.
  constructor; cbn [example_ids aid_of mid_of].
  - intros a Ha. rewrite E. lia.
  - intros a m _. apply N.mod_lt. discriminate.
  - intros a b _ _ H. lia.
Qed.
