(* Link between the executable C06 checker [c06_ok] (run/Run_Token.v), which is evaluated on the
   accept/refuse flags observed from the real TokenStore, and the C06 clauses.

   Scripts ([rop]) refer to a token by the index of the checkout that produced it: the implementation's
   tokens are opaque 20-byte strings, the harness keeps the bytes returned by operation #n and presents
   exactly those bytes for [RCi ip n].  So "the token issued by checkout #n is presented by operation #j"
   is, on the observed side, "operation #j is [RCi _ n] and operation #n is a checkout".
   Observed flags: 2 = a token was returned, 1 = accepted, 0 = refused. *)
From BT Require Import model.Prelude model.Token gen.Consts proofs.Prelude_Facts proofs.Token_Facts run.Run_Token.
From Coq Require Import ZifyBool ZifyN ZifyNat.
Open Scope Z_scope.

(* ------------------------------------------------------------------ the C06 clauses on an observed trace *)
(* what C06 demands of the flag [b] observed for operation [o] of script [all] *)
Definition c06_obs_ok (all : list (Z * rop)) (o : Z * rop) (b : N) : Prop :=
  match snd o with
  | RCo _ => b = 2%N
  | RCiRaw _ => b = 0%N
  | RCiLen _ => b = 0%N
  | RCi ip' n => forall ti ip, nth_error all n = Some (ti, RCo ip) ->
      (ip' = ip -> fst o <= ti + 600000000000 -> b = 1%N) /\
      (ti + 1800000000000 <= fst o -> b = 0%N) /\
      (ip' <> ip -> b = 0%N)
  end.

Definition c06_spec (ops : list (Z * rop)) (obs : list N) : Prop := Forall2 (c06_obs_ok ops) ops obs.

Lemma ip_eqb_neq i j : ip_eqb i j = false <-> i <> j.
Proof.
  split.
  - intros H E. apply ip_eqb_eq in E. congruence.
  - intros H. destruct (ip_eqb i j) eqn:E; [apply ip_eqb_eq in E; contradiction | reflexivity].
Qed.

Lemma c06_bad_iff (ip ip' : ipaddr) (ti tj : Z) (b : N) :
  (ip_eqb ip ip' && (tj <=? ti + 600000000000) && negb (b =? 1)%N)
  || ((ti + 1800000000000 <=? tj) && negb (b =? 0)%N)
  || (negb (ip_eqb ip ip') && negb (b =? 0)%N) = false
  <-> ((ip' = ip -> tj <= ti + 600000000000 -> b = 1%N) /\
       (ti + 1800000000000 <= tj -> b = 0%N) /\
       (ip' <> ip -> b = 0%N)).
Proof.
  destruct (ip_eqb ip ip') eqn:E.
  - apply ip_eqb_eq in E. subst ip'.
    assert (X1 : (ip = ip -> tj <= ti + 600000000000 -> b = 1%N) <-> (tj <= ti + 600000000000 -> b = 1%N))
      by (split; [intros HH; apply HH; reflexivity | intros HH _; exact HH]).
    assert (X2 : (ip <> ip -> b = 0%N) <-> True)
      by (split; [intros _; exact I | intros _ HH; exfalso; apply HH; reflexivity]).
    rewrite X1, X2. clear X1 X2. cbn [andb negb]. lia.
  - apply ip_eqb_neq in E.
    assert (X1 : (ip' = ip -> tj <= ti + 600000000000 -> b = 1%N) <-> True)
      by (split; [intros _; exact I | intros _ HH; exfalso; apply E; symmetry; exact HH]).
    assert (X2 : (ip' <> ip -> b = 0%N) <-> b = 0%N)
      by (split; [intros HH; apply HH; intros HE; apply E; symmetry; exact HE | intros HH _; exact HH]).
    rewrite X1, X2. clear X1 X2. cbn [andb negb]. lia.
Qed.

(* the checker decides the clauses, at any starting index *)
Lemma c06_check_iff all : forall ops obs i,
  c06_check all ops obs i = None <-> Forall2 (c06_obs_ok all) ops obs.
Proof.
  induction ops as [|[tj op] ops IH]; intros obs i.
  - destruct obs; cbn [c06_check]; split; intros H; try constructor; try discriminate; inversion H.
  - destruct obs as [|b obs].
    { destruct op; cbn [c06_check]; split; intros H; try discriminate; inversion H. }
    destruct op as [ip|ip' n|ip|ip]; cbn [c06_check].
    + destruct (N.eqb_spec b 2) as [E|E].
      * rewrite IH. split; [intros H; constructor; [exact E | exact H] | intros H; inversion H; assumption].
      * split; [discriminate | intros H; inversion H; subst; contradiction].
    + assert (Hbad :
        match nth_error all n with
        | Some (ti, RCo ip) =>
            (ip_eqb ip ip' && (tj <=? ti + 600000000000) && negb (b =? 1)%N)
            || ((ti + 1800000000000 <=? tj) && negb (b =? 0)%N)
            || (negb (ip_eqb ip ip') && negb (b =? 0)%N)
        | _ => false
        end = false <-> c06_obs_ok all (tj, RCi ip' n) b).
      { unfold c06_obs_ok. cbn [fst snd]. destruct (nth_error all n) as [[ti [ip|?|?|?]]|];
          try (split; [intros _ ? ? HH; discriminate HH | reflexivity]).
        rewrite c06_bad_iff. split.
        - intros H ti0 ip0 H0. inversion H0; subst. exact H.
        - intros H. apply H. reflexivity. }
      destruct (match nth_error all n with Some (ti, RCo ip) => _ | _ => false end).
      * split; [discriminate | intros H; inversion H; subst].
        match goal with H : c06_obs_ok _ _ _ |- _ => apply Hbad in H; discriminate end.
      * rewrite IH. split; [intros H; constructor; [apply Hbad; reflexivity | exact H] | intros H; inversion H; assumption].
    + destruct (N.eqb_spec b 0) as [E|E].
      * rewrite IH. split; [intros H; constructor; [exact E | exact H] | intros H; inversion H; assumption].
      * split; [discriminate | intros H; inversion H; subst; contradiction].
    + destruct (N.eqb_spec b 0) as [E|E].
      * rewrite IH. split; [intros H; constructor; [exact E | exact H] | intros H; inversion H; assumption].
      * split; [discriminate | intros H; inversion H; subst; contradiction].
Qed.

(* the checker raises no alarm  iff  every observed flag satisfies its C06 clause *)
Theorem c06_ok_iff_spec ops obs : c06_ok ops obs = None <-> c06_spec ops obs.
Proof. unfold c06_ok, c06_spec. apply c06_check_iff. Qed.

Lemma Forall2_nth_error {A B} (R : A -> B -> Prop) : forall l l' j x y,
  Forall2 R l l' -> nth_error l j = Some x -> nth_error l' j = Some y -> R x y.
Proof.
  induction l as [|a l IH]; intros l' j x y H Hx Hy.
  - destruct j; discriminate.
  - inversion H; subst. destruct j; cbn in Hx, Hy.
    + inversion Hx; inversion Hy; subst. assumption.
    + eapply IH; eassumption.
Qed.

Lemma Forall2_len {A B} (R : A -> B -> Prop) l l' : Forall2 R l l' -> length l = length l'.
Proof. induction 1; cbn; [reflexivity | lia]. Qed.

(* soundness, pointwise: on a trace the checker accepts, for EVERY issue/presentation pair --
   operation #n is a checkout for [ip] at [ti], operation #j presents the token returned by #n
   from [ip'] at [tj], the observed flag of #j is [b] -- the three C06 clauses hold of the observation;
   moreover the trace has one flag per operation, every checkout returned a token, and every
   presentation of 20 unissued bytes or of a token of the wrong length was refused. *)
Theorem c06_ok_sound ops obs : c06_ok ops obs = None ->
  length obs = length ops /\
  (forall n j ti tj ip ip' b,
     nth_error ops n = Some (ti, RCo ip) ->
     nth_error ops j = Some (tj, RCi ip' n) ->
     nth_error obs j = Some b ->
     (ip' = ip -> tj <= ti + 600000000000 -> b = 1%N) /\
     (ti + 1800000000000 <= tj -> b = 0%N) /\
     (ip' <> ip -> b = 0%N)) /\
  (forall j t ip b, nth_error ops j = Some (t, RCo ip) -> nth_error obs j = Some b -> b = 2%N) /\
  (forall j t ip b, nth_error ops j = Some (t, RCiRaw ip) \/ nth_error ops j = Some (t, RCiLen ip) ->
     nth_error obs j = Some b -> b = 0%N).
Proof.
  intros H. apply c06_ok_iff_spec in H. unfold c06_spec in H. split; [|split; [|split]].
  - symmetry. eapply Forall2_len, H.
  - intros n j ti tj ip ip' b Hn Hj Hb.
    pose proof (Forall2_nth_error _ _ _ _ _ _ H Hj Hb) as Hc. unfold c06_obs_ok in Hc. cbn [fst snd] in Hc.
    apply Hc, Hn.
  - intros j t ip b Hj Hb. exact (Forall2_nth_error _ _ _ _ _ _ H Hj Hb).
  - intros j t ip b [Hj|Hj] Hb; exact (Forall2_nth_error _ _ _ _ _ _ H Hj Hb).
Qed.

(* ------------------------------------------------------------------ the checker accepts the model's trace *)
Fixpoint rtimes_from (t0 : Z) (ops : list (Z * rop)) : Prop :=
  match ops with
  | [] => True
  | o :: r => t0 <= fst o /\ rtimes_from (fst o) r
  end.

(* a presentation never names a checkout that comes later in the script (the generator only refers to
   earlier checkouts).  Needed: for a forward reference the model presents junk, which is refused, while
   clause 1 of the checker (which only compares the two time stamps) would demand acceptance --
   see [c06_forward_ref_alarm] below. *)
Definition refs_back (ops : list (Z * rop)) : Prop :=
  forall j tj ip' n ti ip,
    nth_error ops j = Some (tj, RCi ip' n) -> nth_error ops n = Some (ti, RCo ip) -> (n < j)%nat.

Lemma rtimes_weaken : forall ops t0 t1, t0 <= t1 -> rtimes_from t1 ops -> rtimes_from t0 ops.
Proof. destruct ops as [|o r]; cbn; intros t0 t1 H H1; [exact I | split; [lia | tauto]]. Qed.

(* per-checkout invariant: the token recorded for checkout #n (to [ip] at [ti]) carries a secret that
   became current at r in (ti - 10 min, ti], is tracked by the rotation automaton and is still accepted
   as long as fewer than 20 min have passed since r *)
Definition Issued (u : Z) (s : tstore) (done : list tout) (n : nat) (ti : Z) (ip : ipaddr) : Prop :=
  exists sigma r,
    nth_error done n = Some (OTok (TSha ip sigma)) /\ Trk sigma r s /\ (sigma < fresh s)%nat /\
    r <= ti /\ ti < r + S600 /\ r <= u /\ (u < r + 2 * S600 -> LiveT sigma s).

Definition RInv (pre : list (Z * rop)) (u : Z) (s : tstore) (done : list tout) : Prop :=
  length done = length pre /\ G u s /\
  forall n ti ip, nth_error pre n = Some (ti, RCo ip) -> Issued u s done n ti ip.

Lemma rinv_init t0 : RInv [] t0 (tinit t0) [].
Proof. split; [reflexivity|]. split; [apply G_init|]. intros [|n] ti ip H; discriminate. Qed.

Lemma nth_error_snoc {A} (l : list A) x n y : nth_error (l ++ [x]) n = Some y ->
  (n < length l)%nat /\ nth_error l n = Some y \/ n = length l /\ x = y.
Proof.
  intros H. destruct (Nat.lt_ge_cases n (length l)) as [L|L].
  - left. split; [exact L|]. rewrite nth_error_app1 in H by exact L. exact H.
  - right. rewrite nth_error_app2 in H by exact L.
    destruct (n - length l)%nat as [|k] eqn:E; cbn in H; [|destruct k; discriminate].
    inversion H. split; [lia | reflexivity].
Qed.

(* an operation that consults the store at time t (checkout, or check-in of 20 bytes) *)
Lemma rinv_step pre u s done o x t : RInv pre u s done -> u <= t -> fst o = t ->
  (forall ip, snd o = RCo ip -> x = OTok (TSha ip (curr (refresh_check t s)))) ->
  RInv (pre ++ [o]) t (refresh_check t s) (done ++ [x]).
Proof.
  intros [HL [Gs HI]] Hu Ho Hx.
  assert (G1 : G t (refresh_check t s)) by (destruct Gs; apply (refresh_G u); assumption).
  split; [rewrite !app_length; cbn; lia|]. split; [exact G1|].
  intros n ti ip Hn. apply nth_error_snoc in Hn as [[Hlt Hn]|[Hn Ho2]].
  - destruct (HI n ti ip Hn) as [sigma [r [D [T [Hs [A [B [C L]]]]]]]].
    destruct (refresh_trk sigma r u t s Gs Hs T Hu) as [T1 Hs1].
    exists sigma, r. split; [rewrite nth_error_app1 by lia; exact D|].
    split; [exact T1|]. split; [exact Hs1|]. split; [exact A|]. split; [exact B|]. split; [lia|].
    intros Hlt2. apply (refresh_alive sigma r u); try assumption. apply L. lia.
  - subst o. cbn [fst snd] in *. subst ti.
    exists (curr (refresh_check t s)), (last_refresh (refresh_check t s)).
    split; [rewrite nth_error_app2 by lia; rewrite HL, Hn, Nat.sub_diag; cbn; rewrite (Hx ip eq_refl); reflexivity|].
    split; [apply PA; reflexivity|]. split; [apply (g_fresh_c _ _ G1)|].
    pose proof (g_lr _ _ G1) as A. pose proof (g_int _ _ G1) as D.
    split; [exact A|]. split; [unfold dur_since, S600 in *; lia|]. split; [exact A|].
    intros _. left. reflexivity.
Qed.

(* a presentation of a token of the wrong length: the store is not consulted *)
Lemma rinv_skip pre u s done o x : RInv pre u s done -> (forall ip, snd o <> RCo ip) ->
  RInv (pre ++ [o]) u s (done ++ [x]).
Proof.
  intros [HL [Gs HI]] Ho. split; [rewrite !app_length; cbn; lia|]. split; [exact Gs|].
  intros n ti ip Hn. apply nth_error_snoc in Hn as [[Hlt Hn]|[Hn Ho2]].
  - destruct (HI n ti ip Hn) as [sigma [r [D H]]]. exists sigma, r. split; [rewrite nth_error_app1 by lia; exact D | exact H].
  - subst o. exfalso. apply (Ho ip). reflexivity.
Qed.

Lemma bad_false (e c1 c2 b : bool) :
  (e = true -> c1 = true -> b = true) -> (e = true -> c2 = true -> b = false) -> (e = false -> b = false) ->
  (e && c1 && negb (acc_of (ObsAcc b) =? 1)%N) || (c2 && negb (acc_of (ObsAcc b) =? 0)%N)
  || (negb e && negb (acc_of (ObsAcc b) =? 0)%N) = false.
Proof.
  intros H1 H2 H3.
  destruct e, c1, c2, b; cbn; try reflexivity;
    try (specialize (H1 eq_refl eq_refl); discriminate);
    try (specialize (H2 eq_refl eq_refl); discriminate);
    try (specialize (H3 eq_refl); discriminate).
Qed.

Lemma rrun_co s done t ip r :
  rrun s done ((t, RCo ip) :: r) =
  ObsTok (fst ip) (snd ip) (N.of_nat (curr (refresh_check t s)))
  :: rrun (refresh_check t s) (done ++ [OTok (TSha ip (curr (refresh_check t s)))]) r.
Proof. reflexivity. Qed.

Definition ci_flag (ip : ipaddr) (k : token) (t : Z) (s : tstore) : bool :=
  token_eqb k (TSha ip (curr (refresh_check t s))) || token_eqb k (TSha ip (last (refresh_check t s))).

Lemma rrun_ci s done t ip n r :
  rrun s done ((t, RCi ip n) :: r) =
  let k := match nth n done (OAcc false) with OTok k => k | OAcc _ => TRaw [] end in
  ObsAcc (ci_flag ip k t s) :: rrun (refresh_check t s) (done ++ [OAcc (ci_flag ip k t s)]) r.
Proof. reflexivity. Qed.

Lemma rrun_craw s done t ip r :
  rrun s done ((t, RCiRaw ip) :: r) =
  ObsAcc false :: rrun (refresh_check t s) (done ++ [OAcc false]) r.
Proof. reflexivity. Qed.

Lemma rrun_clen s done t ip r :
  rrun s done ((t, RCiLen ip) :: r) = ObsAcc false :: rrun s (done ++ [OAcc false]) r.
Proof. reflexivity. Qed.

Lemma c06_check_model all : forall ops pre u s done i,
  all = pre ++ ops -> refs_back all -> RInv pre u s done -> rtimes_from u ops ->
  c06_check all ops (map acc_of (rrun s done ops)) i = None.
Proof.
  induction ops as [|[tj op] ops IH]; intros pre u s done i Hall Hrb HI Ht; [reflexivity|].
  cbn [rtimes_from fst] in Ht. destruct Ht as [Hu Ht].
  assert (Hall' : all = (pre ++ [(tj, op)]) ++ ops) by (rewrite <- app_assoc; exact Hall).
  destruct op as [ip|ip' n|ip|ip].
  - rewrite rrun_co. cbn [map acc_of c06_check]. rewrite N.eqb_refl.
    apply (IH _ tj _ _ _ Hall' Hrb); [|exact Ht].
    apply (rinv_step _ u); [exact HI | exact Hu | reflexivity|]. cbn [snd]. intros ip0 E. inversion E. reflexivity.
  - rewrite rrun_ci. cbn zeta. cbn [map c06_check].
    set (k := match nth n done (OAcc false) with OTok k => k | OAcc _ => TRaw [] end).
    assert (Hbad :
        match nth_error all n with
        | Some (ti, RCo ip) =>
            (ip_eqb ip ip' && (tj <=? ti + 600000000000) && negb (acc_of (ObsAcc (ci_flag ip' k tj s)) =? 1)%N)
            || ((ti + 1800000000000 <=? tj) && negb (acc_of (ObsAcc (ci_flag ip' k tj s)) =? 0)%N)
            || (negb (ip_eqb ip ip') && negb (acc_of (ObsAcc (ci_flag ip' k tj s)) =? 0)%N)
        | _ => false
        end = false).
    { destruct (nth_error all n) as [[ti [ip|?|?|?]]|] eqn:En; try reflexivity.
      assert (Hj : nth_error all (length pre) = Some (tj, RCi ip' n)).
      { rewrite Hall, nth_error_app2 by lia. rewrite Nat.sub_diag. reflexivity. }
      pose proof (Hrb _ _ _ _ _ _ Hj En) as Hlt.
      destruct HI as [HL [Gs HI]].
      assert (En' : nth_error pre n = Some (ti, RCo ip)) by (rewrite Hall, nth_error_app1 in En by exact Hlt; exact En).
      destruct (HI n ti ip En') as [sigma [r [D [T [Hs [A [B [C L]]]]]]]].
      assert (Hk : k = TSha ip sigma).
      { unfold k. rewrite (nth_error_nth _ _ _ D). reflexivity. }
      rewrite Hk. unfold ci_flag. rewrite accept_sigma.
      apply bad_false.
      + intros He Hle. apply Z.leb_le in Hle. rewrite andb_true_iff. split; [exact He|].
        assert (LL : LiveT sigma (refresh_check tj s)).
        { apply (refresh_alive sigma r u); try assumption; [apply L|]; unfold S600 in *; lia. }
        destruct LL as [LL|LL]; rewrite LL, Nat.eqb_refl; [reflexivity | apply orb_true_r].
      + intros _ Hge. apply Z.leb_le in Hge.
        assert (DD : ~ LiveT sigma (refresh_check tj s)).
        { apply (refresh_dead sigma r u); try assumption. unfold S600 in *. lia. }
        unfold LiveT in DD. apply andb_false_iff. right.
        apply orb_false_iff. split; apply Nat.eqb_neq; intros E; apply DD; [left | right]; symmetry; exact E.
      + intros E. rewrite E. reflexivity. }
    rewrite Hbad.
    apply (IH _ tj _ _ _ Hall' Hrb); [|exact Ht].
    apply (rinv_step _ u); [exact HI | exact Hu | reflexivity|]. cbn [snd]. intros ip0 E. discriminate.
  - rewrite rrun_craw. cbn [map acc_of c06_check]. rewrite N.eqb_refl.
    apply (IH _ tj _ _ _ Hall' Hrb); [|exact Ht].
    apply (rinv_step _ u); [exact HI | exact Hu | reflexivity|]. cbn [snd]. intros ip0 E. discriminate.
  - rewrite rrun_clen. cbn [map acc_of c06_check]. rewrite N.eqb_refl.
    apply (IH _ u _ _ _ Hall' Hrb); [|apply (rtimes_weaken _ u tj Hu Ht)].
    apply rinv_skip; [exact HI|]. cbn [snd]. intros ip0 E. discriminate.
Qed.

(* (i) on every script with non-decreasing times whose presentations refer to earlier checkouts,
   the checker accepts the model's own observations *)
Theorem c06_ok_model_silent t0 ops : rtimes_from t0 ops -> refs_back ops -> c06_ok_model t0 ops = None.
Proof.
  intros Ht Hrb. unfold c06_ok_model, c06_ok, model_obs.
  apply (c06_check_model ops ops [] t0 (tinit t0) [] 0%N eq_refl Hrb (rinv_init t0) Ht).
Qed.

(* hence the model's flags satisfy the three C06 clauses in the script form *)
Corollary c06_model_meets_spec t0 ops : rtimes_from t0 ops -> refs_back ops ->
  c06_spec ops (map acc_of (model_obs t0 ops)).
Proof. intros Ht Hrb. apply c06_ok_iff_spec. exact (c06_ok_model_silent t0 ops Ht Hrb). Qed.

(* the side condition [refs_back] cannot be dropped: with a forward reference the checker
   rejects the model's trace (the model presents junk for a token that does not exist yet) *)
Example c06_forward_ref_alarm :
  let ops := [CI 0 false 1 1; CO 0 false 1] in
  rtimes_from 0 ops /\ c06_ok_model 0 ops = Some 0%N.
Proof. vm_compute. repeat split; discriminate. Qed.
