(* C08: the invariant over all operation histories, and what it says about the live part. *)
From BT Require Import model.Prelude model.Table gen.Consts proofs.Prelude_Facts proofs.Table_Facts proofs.TableInv_Facts.
From Coq Require Import ZifyBool ZifyN ZifyNat Permutation.
Open Scope Z_scope.

(* ------------------------------------------------------------------ the other table operations *)
Lemma TInv_update_node now t id a f :
  (forall n, nd_id (f n) = nd_id n /\ nd_addr (f n) = nd_addr n /\ last_response (f n) = last_response n) ->
  TInv t -> TInv (update_node now t id a f) /\ same_meta t (update_node now t id a f).
Proof.
  intros Hf I. unfold update_node.
  set (idx := bucket_index_for t id). set (b := nth idx (buckets t) []).
  destruct (position _ b) as [i|] eqn:Ep; [|split; [exact I | split; reflexivity]].
  split; [|split; reflexivity].
  destruct (position_some _ _ _ dummy_node Ep) as [Hil [_ Hi]].
  set (old := nth i b dummy_node) in *.
  assert (Hidx : (idx < length (buckets t))%nat).
  { destruct (Nat.lt_ge_cases idx (length (buckets t))) as [H|H]; [exact H|].
    unfold b in Hil. rewrite nth_overflow in Hil by exact H. cbn in Hil. lia. }
  assert (Hb : nth_error (buckets t) idx = Some b) by (unfold b; apply nth_error_nth'; exact Hidx).
  pose proof (nth_error_In _ _ Hb) as Hbin.
  destruct (Hf old) as [F1 [F2 F3]].
  destruct I as [L1 L2 SZ SL PL ND].
  assert (Hmem : forall x, In x (set_nth i (f old) b) -> In x b \/ x = f old).
  { intros x Hx. apply in_set_nth in Hx as [Hx|Hx]; auto. }
  assert (Rf : real (f old) <-> real old) by (unfold real; rewrite F3; tauto).
  constructor; cbn [buckets local_id routers]; rewrite ?set_nth_length; try assumption.
  - intros b0 Hb0. apply in_set_nth in Hb0 as [->|Hb0]; [rewrite set_nth_length; apply SZ, Hbin | apply SZ, Hb0].
  - intros b0 x Hb0 Hx. apply in_set_nth in Hb0 as [->|Hb0]; [|eapply SL; eassumption].
    destruct (Hmem x Hx) as [H| ->]; [eapply SL; eassumption|].
    destruct (SL b old Hbin (nth_error_In _ _ Hi)) as [R|E]; [left; apply Rf, R|].
    (* the dummy is not pingable, so it is never selected *)
    exfalso. destruct (position_some _ _ _ dummy_node Ep) as [_ [Hsel _]]. fold old in Hsel. rewrite E in Hsel.
    apply andb_true_iff in Hsel as [Hp _]. unfold is_pingable, dummy_node, node_status, as_bad in Hp. cbn in Hp. discriminate.
  - intros k b0 x Hk Hx Rx. apply nth_error_set_nth_cases in Hk as [[-> ->]|Hk]; [|eapply PL; eassumption].
    destruct (Hmem x Hx) as [H| ->]; [eapply PL; eassumption|].
    assert (Ro : real old) by (apply Rf, Rx).
    pose proof (PL idx b old Hb (nth_error_In _ _ Hi) Ro) as P. unfold placed_at in *. rewrite F1, F2. exact P.
  - intros b0 Hb0. apply in_set_nth in Hb0 as [->|Hb0]; [|apply ND, Hb0].
    specialize (ND b Hbin).
    intros k1 k2 n1 n2 Hk1 Hk2 R1 R2 S12. rewrite nth_error_set_nth in Hk1, Hk2.
    destruct (Nat.ltb_spec i (length b)); [|lia]. rewrite andb_true_r in Hk1, Hk2.
    destruct (Nat.eqb_spec k1 i) as [->|N1]; destruct (Nat.eqb_spec k2 i) as [->|N2]; try reflexivity.
    + inversion Hk1; subst. symmetry. apply (ND k2 i n2 old Hk2 Hi R2 (proj1 Rf R1)).
      apply same_handle_eq. apply same_handle_eq in S12 as [A1 A2]. split; congruence.
    + inversion Hk2; subst. apply (ND k1 i n1 old Hk1 Hi R1 (proj1 Rf R2)).
      apply same_handle_eq. apply same_handle_eq in S12 as [A1 A2]. split; congruence.
    + apply (ND k1 k2 n1 n2); assumption.
Qed.

Lemma local_request_keeps now n :
  nd_id (local_request now n) = nd_id n /\ nd_addr (local_request now n) = nd_addr n /\
  last_response (local_request now n) = last_response n.
Proof. unfold local_request. destruct (status_eqb _ Good); cbn; auto. Qed.

Lemma remote_request_keeps now n :
  nd_id (remote_request now n) = nd_id n /\ nd_addr (remote_request now n) = nd_addr n /\
  last_response (remote_request now n) = last_response n.
Proof. cbn. auto. Qed.

(* add_node is a fuelled recursion (fuel 1000): from here on only its characterisation is used *)
Global Opaque add_node.

Lemma TInv_fold_hearsay now named : forall t1,
  TInv t1 -> (forall h, In h named -> snd h <> dummy_addr) ->
  TInv (fold_left (fun tt h => add_node now tt (as_questionable (fst h) (snd h) now)) named t1) /\
  same_meta t1 (fold_left (fun tt h => add_node now tt (as_questionable (fst h) (snd h) now)) named t1).
Proof.
  induction named as [|h l IH]; intros t1 I1 Hall.
  - split; [exact I1 | split; reflexivity].
  - rewrite fold_left_cons.
    assert (Hh : snd h <> dummy_addr) by (apply (Hall h); left; reflexivity).
    destruct (add_node_inv now t1 (as_questionable (fst h) (snd h) now) I1 Hh) as [I2 [A B]].
    destruct (IH _ I2 (fun x Hx => Hall x (or_intror Hx))) as [I3 [C D]].
    split; [exact I3|]. split; [exact (eq_trans C A) | exact (eq_trans D B)].
Qed.

Lemma TInv_add_nodes now t n named : TInv t -> nd_addr n <> dummy_addr ->
  (forall h, In h named -> snd h <> dummy_addr) ->
  TInv (add_nodes now t n named) /\ same_meta t (add_nodes now t n named).
Proof.
  intros I Hn Hall. unfold add_nodes.
  destruct (add_node_inv now t n I Hn) as [I1 [A B]].
  destruct (TInv_fold_hearsay now named _ I1 Hall) as [I2 [C D]].
  split; [exact I2|]. split; [exact (eq_trans C A) | exact (eq_trans D B)].
Qed.

(* ------------------------------------------------------------------ every history *)
Inductive top :=
| OOffer (now : Z) (good : bool) (id : N) (a : addr)          (* responder = good, hearsay = questionable *)
| OResponse (now : Z) (id : N) (a : addr) (named : list (N * addr))
| OLocalRequest (now : Z) (id : N) (a : addr)
| ORemoteRequest (now : Z) (id : N) (a : addr).

Definition tstep (t : table) (o : top) : table :=
  match o with
  | OOffer now good id a => add_node now t (if good then as_good id a now else as_questionable id a now)
  | OResponse now id a named => add_nodes now t (as_good id a now) named
  | OLocalRequest now id a => update_node now t id a (local_request now)
  | ORemoteRequest now id a => update_node now t id a (remote_request now)
  end.

(* offered addresses are never the placeholder 127.0.0.1:0 of empty slots (port 0 is no UDP source) *)
Definition op_ok (o : top) : Prop :=
  match o with
  | OOffer _ _ _ a => a <> dummy_addr
  | OResponse _ _ a named => a <> dummy_addr /\ forall h, In h named -> snd h <> dummy_addr
  | _ => True
  end.

Definition init_table (id : N) (rts : list addr) : table := mkTable [new_bucket] id rts.

Lemma TInv_init id rts : TInv (init_table id rts).
Proof.
  pose proof (TInv_new id) as [L1 L2 SZ SL PL ND]. constructor; cbn in *; try assumption.
  intros i b n Hi Hn Hr. destruct i as [|i]; cbn in Hi; [|destruct i; discriminate].
  inversion Hi; subst. apply new_bucket_all_dummy in Hn. subst. exfalso. apply dummy_not_real, Hr.
Qed.

Lemma tstep_inv t o : TInv t -> op_ok o -> TInv (tstep t o) /\ same_meta t (tstep t o).
Proof.
  intros I Ho. destruct o as [now good id a|now id a named|now id a|now id a]; cbn [tstep op_ok] in *.
  - apply add_node_inv; [exact I|]. destruct good; exact Ho.
  - destruct Ho as [H1 H2]. apply TInv_add_nodes; assumption.
  - apply TInv_update_node; [apply local_request_keeps | exact I].
  - apply TInv_update_node; [apply remote_request_keeps | exact I].
Qed.

Theorem table_inv_all_histories id rts ops : Forall op_ok ops ->
  TInv (fold_left tstep ops (init_table id rts)) /\
  local_id (fold_left tstep ops (init_table id rts)) = id /\ routers (fold_left tstep ops (init_table id rts)) = rts.
Proof.
  intros H.
  assert (G : forall t, TInv t -> TInv (fold_left tstep ops t) /\ same_meta t (fold_left tstep ops t)).
  { induction H as [|o ops Ho Hops IH]; intros t I; [split; [exact I | split; reflexivity]|].
    rewrite fold_left_cons.
    destruct (tstep_inv t o I Ho) as [I1 [A B]]. destruct (IH _ I1) as [I2 [C D]].
    split; [exact I2|]. split; [exact (eq_trans C A) | exact (eq_trans D B)]. }
  destruct (G _ (TInv_init id rts)) as [I [A B]]. split; [exact I | split; assumption].
Qed.

(* ------------------------------------------------------------------ what the invariant says about the live part *)
Definition live (now : Z) (n : node) : Prop := is_pingable now n = true.

Lemma live_real now n : live now n -> real n.
Proof.
  unfold live, is_pingable. intros H. apply (not_bad_real now). intros E. rewrite E in H. discriminate.
Qed.

Theorem inv_shape now t : TInv t ->
  (1 <= length (buckets t) <= 160)%nat /\
  (forall b, In b (buckets t) -> length b = 8%nat) /\
  (forall i b n, nth_error (buckets t) i = Some b -> In n b -> live now n ->
     nd_id n <> local_id t /\ ~ In (nd_addr n) (routers t) /\
     (if Nat.ltb i (length (buckets t) - 1) then lcp (local_id t) (nd_id n) = i
      else (length (buckets t) - 1 <= lcp (local_id t) (nd_id n))%nat)) /\
  (forall i1 k1 i2 k2 b1 b2 n1 n2,
     nth_error (buckets t) i1 = Some b1 -> nth_error b1 k1 = Some n1 ->
     nth_error (buckets t) i2 = Some b2 -> nth_error b2 k2 = Some n2 ->
     live now n1 -> live now n2 -> nd_id n1 = nd_id n2 -> nd_addr n1 = nd_addr n2 ->
     i1 = i2 /\ k1 = k2).
Proof.
  intros I. pose proof (ti_len1 _ I). pose proof (ti_len2 _ I).
  split; [lia|]. split; [apply (ti_size _ I)|]. split.
  - intros i b n Hi Hn Hl. destruct (ti_placed _ I i b n Hi Hn (live_real _ _ Hl)) as [A1 [A2 [_ A4]]].
    split; [exact A1|]. split; [|exact A4].
    intros Hin. assert (existsb (addr_eqb (nd_addr n)) (routers t) = true); [|congruence].
    apply existsb_exists. exists (nd_addr n). split; [exact Hin | apply addr_eqb_eq; reflexivity].
  - intros i1 k1 i2 k2 b1 b2 n1 n2 Hb1 Hn1 Hb2 Hn2 L1 L2 Eid Eaddr.
    pose proof (live_real _ _ L1) as R1. pose proof (live_real _ _ L2) as R2.
    destruct (ti_placed _ I i1 b1 n1 Hb1 (nth_error_In _ _ Hn1) R1) as [_ [_ [_ P1]]].
    destruct (ti_placed _ I i2 b2 n2 Hb2 (nth_error_In _ _ Hn2) R2) as [_ [_ [_ P2]]].
    rewrite Eid in P1.
    assert (Hi1 : (i1 < length (buckets t))%nat) by (apply nth_error_Some; congruence).
    assert (Hi2 : (i2 < length (buckets t))%nat) by (apply nth_error_Some; congruence).
    assert (Ei : i1 = i2).
    { destruct (Nat.ltb_spec i1 (length (buckets t) - 1)); destruct (Nat.ltb_spec i2 (length (buckets t) - 1)); lia. }
    subst i2. rewrite Hb1 in Hb2. inversion Hb2; subst b2. split; [reflexivity|].
    apply (ti_nodup _ I b1 (nth_error_In _ _ Hb1) k1 k2 n1 n2 Hn1 Hn2 R1 R2).
    apply same_handle_eq. split; assumption.
Qed.

(* ------------------------------------------------------------------ the invariant gives what the enumeration needs *)
Lemma lcp_lt_160 a b : a <> b -> (lcp a b < 160)%nat.
Proof.
  intros H. unfold lcp. rewrite max_buckets_val.
  destruct (N.lxor a b) eqn:E; [apply N.lxor_eq in E; contradiction|].
  assert (H1 : (1 <= N.size (N.pos p))%N) by (unfold N.size; lia). lia.
Qed.

Lemma nth_error_last {A} (l : list A) d : l <> [] -> nth_error l (length l - 1) = Some (List.last l d).
Proof.
  induction l as [|x l IH]; intros H; [contradiction|].
  destruct l as [|y l]; [reflexivity|].
  change (List.last (x :: y :: l) d) with (List.last (y :: l) d).
  rewrite <- IH by discriminate.
  replace (length (x :: y :: l) - 1)%nat with (S (length (y :: l) - 1)) by (cbn [length]; lia). reflexivity.
Qed.

Lemma TInv_enum_ok now t : TInv t -> enum_ok now t.
Proof.
  intros I. split; [split; [apply (ti_len1 _ I) | apply (ti_len2 _ I)]|].
  intros n Hn Hl. apply lcp_lt_160. intros E.
  assert (Hne : buckets t <> []) by (pose proof (ti_len1 _ I); destruct (buckets t); cbn in *; [lia | discriminate]).
  pose proof (nth_error_last (buckets t) [] Hne) as Hb.
  destruct (ti_placed _ I _ _ n Hb Hn (live_real _ _ Hl)) as [A _]. apply A. symmetry. exact E.
Qed.

