(* Facts about Message::encode: it produces exactly the canonical bencoding of the
   BEP 5 / BEP 32 dictionary of the message (and refuses wrong-family node lists). *)
From BT Require Import model.Prelude model.Krpc proofs.Prelude_Facts proofs.Bencode_Facts proofs.Compact_Facts.
From Coq Require Import ZifyBool ZifyN ZifyNat.

(* ---- what msg_wf gives ---- *)
Lemma id_ok_spec x : id_ok x = true <-> x < 2 ^ 160.
Proof. unfold id_ok. lia. Qed.

Lemma addr_ok_spec a : addr_ok a = true <-> addr_in_range a.
Proof. unfold addr_ok, addr_in_range. destruct (a_v6 a); lia. Qed.

Lemma node_ok_spec v6 n : node_ok v6 n = true <-> node_in_range v6 n.
Proof.
  unfold node_ok, node_in_range. rewrite !andb_true_iff, id_ok_spec, addr_ok_spec, Bool.eqb_true_iff. tauto.
Qed.

Lemma nodes_ok_spec v6 l : forallb (node_ok v6) l = true <-> Forall (node_in_range v6) l.
Proof.
  rewrite forallb_forall, Forall_forall. split; intros H x Hx; apply node_ok_spec; auto.
Qed.

Lemma nodes_family v6 l : Forall (node_in_range v6) l -> Forall (fun n => a_v6 (n_addr n) = v6) l.
Proof. intros H. eapply Forall_impl; [|exact H]. intros n [_ [_ Hf]]. exact Hf. Qed.

(* ---- the library's map serialiser ---- *)
Definition keepf (kv : bytes * bytes) : bool := negb (match snd kv with [] => true | _ => false end).

Lemma ser_map_unfold es : ser_map es = ch_d :: ser_entries (sort_kv (filter keepf es)) ++ [ch_e].
Proof. reflexivity. Qed.

Lemma filter_keep k v l : v <> [] -> filter keepf ((k, v) :: l) = (k, v) :: filter keepf l.
Proof. intros H. cbn [filter]. unfold keepf at 1. cbn [snd]. destruct v; [congruence | reflexivity]. Qed.

Lemma filter_drop k l : filter keepf ((k, []) :: l) = filter keepf l.
Proof. reflexivity. Qed.

Lemma ser_str_nonempty s : ser_str s <> [].
Proof. pose proof (ser_str_length s). destruct (ser_str s); [cbn in *; lia | discriminate]. Qed.

Lemma cons_nonempty {A} (x : A) l : x :: l <> [].
Proof. discriminate. Qed.

Lemma ser_map_nonempty es : ser_map es <> [].
Proof. rewrite ser_map_unfold. discriminate. Qed.

Lemma canon_dict_nonempty l : canon (BDict l) <> [].
Proof. rewrite canon_BDict. discriminate. Qed.
Lemma canon_list_nonempty l : canon (BList l) <> [].
Proof. rewrite canon_BList. discriminate. Qed.
Lemma canon_resp_nonempty r : canon (resp_tree r) <> [].
Proof. apply canon_dict_nonempty. Qed.

Lemma ser_int_nonempty z : ser_int z <> [].
Proof. discriminate. Qed.

#[global] Hint Resolve ser_str_nonempty ser_map_nonempty ser_int_nonempty canon_dict_nonempty canon_list_nonempty canon_resp_nonempty : nonempty.
#[global] Hint Extern 1 (_ :: _ <> []) => discriminate : nonempty.

Ltac filt := repeat first [ rewrite filter_drop | rewrite filter_keep by auto with nonempty ];
             change (filter keepf []) with (@nil (bytes * bytes)).

(* ---- small serialisation identities ---- *)
Lemma dec_Z_of_N n : dec_Z (Z.of_N n) = dec_N n.
Proof. destruct n; reflexivity. Qed.

Lemma enc_u_int n : enc_u n = ser_int (Z.of_N n).
Proof. unfold enc_u, ser_int. rewrite dec_Z_of_N. reflexivity. Qed.

Lemma enc_want_canon w : enc_want w = canon (want_tree w).
Proof. destruct w; reflexivity. Qed.

Lemma canon_values l :
  canon (BList (map (fun a => BStr (enc_addr a)) l)) = ch_l :: flat_map (fun a => ser_str (enc_addr a)) l ++ [ch_e].
Proof.
  rewrite canon_BList. f_equal. f_equal. induction l as [|a l IH]; [reflexivity|].
  cbn [map flat_map]. rewrite IH. reflexivity.
Qed.

(* ---- query arguments ---- *)
Lemma enc_request_canon r : enc_request r = canon (args_tree r).
Proof.
  destruct r as [id | id tg w | id ih w | id ih p tk]; unfold args_tree; cbn [enc_request args_entries].
  - reflexivity.
  - destruct w as [w|]; cbn [opt_entry app]; rewrite ser_map_unfold, canon_BDict; cbn [map fst snd];
      filt; try rewrite enc_want_canon; reflexivity.
  - destruct w as [w|]; cbn [opt_entry app]; rewrite ser_map_unfold, canon_BDict; cbn [map fst snd];
      filt; try rewrite enc_want_canon; reflexivity.
  - destruct p as [p|]; cbn [app]; rewrite ser_map_unfold, canon_BDict; cbn [map fst snd];
      rewrite enc_u_int; filt; reflexivity.
Qed.

(* ---- responses ---- *)
Lemma enc_response_canon r : response_wf r = true -> enc_response r = Some (canon (resp_tree r)).
Proof.
  unfold response_wf. rewrite !andb_true_iff. intros [[[[_ _] H4] H6] _].
  apply nodes_ok_spec in H4. apply nodes_ok_spec in H6.
  unfold enc_response.
  rewrite (enc_nodes_cat false) by (apply nodes_family; exact H4).
  rewrite (enc_nodes_cat true) by (apply nodes_family; exact H6).
  f_equal. unfold resp_tree, resp_entries.
  destruct (r_values r) as [|a vs] eqn:Ev; destruct (r_nodes4 r) as [|n4 l4] eqn:E4;
    destruct (r_nodes6 r) as [|n6 l6] eqn:E6; destruct (r_token r) as [tk|] eqn:Et;
    cbn [nonempty_entry opt_entry app];
    rewrite ser_map_unfold, canon_BDict; cbn [map fst snd];
    filt; try rewrite <- canon_values; reflexivity.
Qed.

Lemma enc_response_wrong_family r :
  ~ (Forall (fun n => a_v6 (n_addr n) = false) (r_nodes4 r) /\ Forall (fun n => a_v6 (n_addr n) = true) (r_nodes6 r)) ->
  enc_response r = None.
Proof.
  intros H. unfold enc_response.
  destruct (enc_nodes false (r_nodes4 r)) eqn:E4; [|reflexivity].
  destruct (enc_nodes true (r_nodes6 r)) eqn:E6; [|reflexivity].
  exfalso. apply H. split.
  - destruct (Forall_dec (fun n => a_v6 (n_addr n) = false)
                (fun n => Bool.bool_dec (a_v6 (n_addr n)) false) (r_nodes4 r)) as [Hf|Hf]; [exact Hf|].
    rewrite (enc_nodes_none _ _ Hf) in E4. discriminate.
  - destruct (Forall_dec (fun n => a_v6 (n_addr n) = true)
                (fun n => Bool.bool_dec (a_v6 (n_addr n)) true) (r_nodes6 r)) as [Hf|Hf]; [exact Hf|].
    rewrite (enc_nodes_none _ _ Hf) in E6. discriminate.
Qed.

(* ---- whole messages ---- *)
Lemma enc_error_canon c t : enc_error c t = canon (BList [BInt (Z.of_N c); BStr t]).
Proof.
  unfold enc_error. rewrite enc_u_int, canon_BList. cbn [flat_map canon]. rewrite app_nil_r, <- app_assoc. reflexivity.
Qed.

Theorem encode_canonical m : msg_wf m = true -> encode_msg m = Some (canon (tree_of_msg m)).
Proof.
  destruct m as [tid body]. unfold msg_wf, encode_msg, tree_of_msg. cbn [m_tid m_body].
  unfold top_entries, body_tree.
  rewrite andb_true_iff. intros [_ Hb].
  destruct body as [rq | rs | c t].
  - f_equal. rewrite ser_map_unfold, canon_BDict. cbn [map fst snd]. rewrite <- enc_request_canon.
    filt. unfold enc_request. destruct rq; reflexivity.
  - rewrite (enc_response_canon rs Hb). f_equal.
    rewrite ser_map_unfold, canon_BDict. cbn [map fst snd]. filt. reflexivity.
  - f_equal. rewrite ser_map_unfold, canon_BDict. cbn [map fst snd]. rewrite <- enc_error_canon.
    filt. reflexivity.
Qed.

(* a response whose node lists are not of the right family is refused *)
Theorem encode_wrong_family tid r :
  ~ (Forall (fun n => a_v6 (n_addr n) = false) (r_nodes4 r) /\ Forall (fun n => a_v6 (n_addr n) = true) (r_nodes6 r)) ->
  encode_msg (mkMsg tid (Resp r)) = None.
Proof. intros H. unfold encode_msg. cbn [m_body]. rewrite (enc_response_wrong_family r H). reflexivity. Qed.
