(* Facts about the socket demultiplexer (model/Socket.v). *)
From BT Require Import model.Prelude model.Compact model.Krpc model.Socket proofs.Prelude_Facts.
Open Scope Z_scope.

Lemma skey_eqb_eq a b : skey_eqb a b = true <-> a = b.
Proof.
  unfold skey_eqb. rewrite andb_true_iff, addr_eqb_eq, bytes_eqb_eq. destruct a, b; cbn. split; [intros [-> ->]; reflexivity | intros H; inversion H; auto].
Qed.

Lemma skey_eqb_refl a : skey_eqb a a = true.
Proof. apply skey_eqb_eq. reflexivity. Qed.

Lemma pmem_in k p : pmem k p = true <-> In k p.
Proof.
  unfold pmem. rewrite existsb_exists. split.
  - intros [x [Hx E]]. apply skey_eqb_eq in E. subst. exact Hx.
  - intros H. exists k. split; [exact H | apply skey_eqb_refl].
Qed.

Lemma premove_in k x p : In x (premove k p) <-> In x p /\ x <> k.
Proof.
  unfold premove. rewrite filter_In. split.
  - intros [H E]. split; [exact H|]. intros ->. rewrite skey_eqb_refl in E. discriminate.
  - intros [H E]. split; [exact H|]. destruct (skey_eqb k x) eqn:Ek; [apply skey_eqb_eq in Ek; congruence | reflexivity].
Qed.

(* the pending set never holds a key twice *)
Lemma step_nodup p e : NoDup p -> NoDup (fst (sstep_sock p e)).
Proof.
  intros H. destruct e as [k|k|src data]; cbn [sstep_sock].
  - destruct (pmem k p) eqn:E; cbn [fst]; [exact H|]. constructor; [|exact H]. intros Hin. apply pmem_in in Hin. congruence.
  - cbn [fst]. apply NoDup_filter. exact H.
  - destruct (decode_msg data) as [m|]; [|exact H]. destruct (pmem (src, m_tid m) p); cbn [fst]; [apply NoDup_filter|]; exact H.
Qed.

(* a datagram reaches a pending exchange exactly when its (source, transaction id) is pending, and then the key is consumed:
   a second copy goes to the handler *)
Theorem deliver_iff_pending p src data k :
  snd (sstep_sock p (SRecv src data)) = SRToWaiter k <->
  exists m, decode_msg data = Some m /\ k = (src, m_tid m) /\ In k p.
Proof.
  cbn [sstep_sock]. destruct (decode_msg data) as [m|]; cbn [snd].
  - destruct (pmem (src, m_tid m) p) eqn:E; cbn [snd].
    + split; [intros H; inversion H; subst; exists m; repeat split; apply pmem_in; exact E|].
      intros [m' [Hm [-> _]]]. inversion Hm; subst. reflexivity.
    + split; [discriminate|]. intros [m' [Hm [-> Hin]]]. inversion Hm; subst. apply pmem_in in Hin. congruence.
  - split; [discriminate | intros [m [Hm _]]; discriminate].
Qed.

Theorem delivered_key_consumed p src data k :
  snd (sstep_sock p (SRecv src data)) = SRToWaiter k -> ~ In k (fst (sstep_sock p (SRecv src data))).
Proof.
  cbn [sstep_sock]. destruct (decode_msg data) as [m|]; cbn [snd fst]; [|discriminate].
  destruct (pmem (src, m_tid m) p); cbn [snd fst]; [|discriminate].
  intros H. inversion H; subst. intros Hin. apply premove_in in Hin. destruct Hin as [_ Hne]. apply Hne. reflexivity.
Qed.

Theorem duplicate_goes_to_handler p src data k :
  snd (sstep_sock p (SRecv src data)) = SRToWaiter k ->
  snd (sstep_sock (fst (sstep_sock p (SRecv src data))) (SRecv src data)) = SRToHandler.
Proof.
  intros H. pose proof (delivered_key_consumed _ _ _ _ H) as Hn.
  apply deliver_iff_pending in H as [m [Hm [-> _]]].
  remember (fst (sstep_sock p (SRecv src data))) as p'. cbn [sstep_sock]. rewrite Hm.
  destruct (pmem (src, m_tid m) p') eqn:E; [apply pmem_in in E; contradiction | reflexivity].
Qed.

(* what is not for a pending exchange is never swallowed: a decodable datagram goes either to a waiter or to the handler *)
Theorem decodable_not_lost p src data m :
  decode_msg data = Some m ->
  snd (sstep_sock p (SRecv src data)) = SRToHandler \/ snd (sstep_sock p (SRecv src data)) = SRToWaiter (src, m_tid m).
Proof. intros H. cbn [sstep_sock]. rewrite H. destruct (pmem _ p); cbn [snd]; auto. Qed.

(* the assert of `responded` fails exactly on a key that is still pending *)
Theorem panic_iff_double_register p k : snd (sstep_sock p (SReg k)) = SRPanic <-> In k p.
Proof.
  cbn [sstep_sock]. destruct (pmem k p) eqn:E; cbn [snd].
  - split; [intros _; apply pmem_in; exact E | reflexivity].
  - split; [discriminate|]. intros H. apply pmem_in in H. congruence.
Qed.

(* keys that were live when registered anew are the only source of panics: a run whose registrations are always fresh
   (the C19 discipline: no (destination, transaction id) pair is used twice while pending) never panics *)
Fixpoint fresh_regs (p : pending) (evs : list sev) : Prop :=
  match evs with
  | [] => True
  | e :: r => (match e with SReg k => ~ In k p | _ => True end) /\ fresh_regs (fst (sstep_sock p e)) r
  end.

Theorem no_panic_when_fresh : forall evs p, fresh_regs p evs -> ~ In SRPanic (snd (srun_sock p evs)).
Proof.
  induction evs as [|e r IH]; intros p H; cbn [srun_sock]; [intros []|].
  cbn [fresh_regs] in H. destruct H as [H1 H2].
  destruct (sstep_sock p e) as [p1 x] eqn:Es. cbn [fst] in H2. specialize (IH p1 H2).
  destruct (srun_sock p1 r) as [p2 xs]. cbn [snd] in *. intros [Hx|Hx]; [|exact (IH Hx)].
  subst x. destruct e as [k|k|src data]; cbn [sstep_sock] in Es.
  - destruct (pmem k p) eqn:E; inversion Es. apply pmem_in in E. contradiction.
  - inversion Es.
  - destruct (decode_msg data) as [m|]; [destruct (pmem _ p)|]; inversion Es.
Qed.
