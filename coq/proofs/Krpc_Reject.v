(* What Message::decode refuses: query arguments that do not fit the named method, ids that
   are not 20 bytes, node strings whose length is not a multiple of 26 / 38, peer strings that
   are not 6 / 18 bytes. *)
From BT Require Import model.Prelude model.Krpc proofs.Prelude_Facts proofs.Bencode_Facts proofs.Compact_Facts
  proofs.Krpc_Facts proofs.Krpc_Decode.
From Coq Require Import ZifyBool ZifyN ZifyNat Permutation.

(* ------------------------------------------------------------------ *)
(* failing runs                                                       *)

Lemma fails_bind_assoc {A B C} (m : M A) (f : A -> M B) (g : B -> M C) i :
  fails (bind m f) i -> fails (bind m (fun x => bind (f x) g)) i.
Proof.
  intros H lg mx. destruct (H lg mx) as [s' E]. unfold bind in *.
  destruct (m (mkSt i lg mx)) as [s1 [x| |]]; try discriminate; [|eauto].
  destruct (f x s1) as [s2 [y| |]]; try discriminate. inversion E; subst. eauto.
Qed.

Lemma fails_lift {A} i : fails (lift (@None A)) i.
Proof. apply fails_fail. Qed.

Lemma fails_ext {A} (m m' : M A) i : (forall s, m s = m' s) -> fails m i -> fails m' i.
Proof. intros E H lg mx. destruct (H lg mx) as [s' H']. exists s'. rewrite <- E. exact H'. Qed.

(* a failing run of the library on the scanned prefix is a refusal *)
Lemma decode_of_fails top trailing :
  bv_wf (BDict top) -> (vdepth (BDict top) <= max_depth)%nat ->
  fails (message (fuel_for (length (ser (BDict top))))) (ser (BDict top)) ->
  decode_msg (ser (BDict top) ++ trailing) = None.
Proof.
  intros Hbw Hdep Hf. unfold decode_msg, decode_instr.
  rewrite (precheck_dict top trailing Hbw Hdep), firstn_app_exact.
  unfold lib_decode, run_lib, init_st. destruct (Hf [] 0%nat) as [s' E]. rewrite E. reflexivity.
Qed.

(* ------------------------------------------------------------------ *)
(* field parsers that fail                                            *)

Lemma f_id F d s r : N.of_nat (length s) < 2 ^ 64 -> length s <> id_len ->
  fails (t <- tok ;; id_from F d t) (ser_str s ++ r).
Proof.
  intros Hl Hn. eapply fails_bind_r; [apply tok_str; exact Hl|]. unfold id_from.
  eapply fails_bind_r; [apply parses_ret|]. rewrite dec_id_bad_length by exact Hn. apply fails_fail.
Qed.

Lemma f_nodes v6 F d s r : N.of_nat (length s) < 2 ^ 64 ->
  Nat.modulo (length s) (id_len + addr_len v6) <> 0%nat ->
  fails (t <- tok ;; nodes_from v6 F d t) (ser_str s ++ r).
Proof.
  intros Hl Hn. eapply fails_bind_r; [apply tok_str; exact Hl|]. unfold nodes_from.
  eapply fails_bind_r; [apply parses_ret|]. rewrite dec_nodes_bad_length by exact Hn. apply fails_fail.
Qed.

Lemma dec_addr_len s : length s = v4_len \/ length s = v6_len -> exists a, dec_addr s = Some a.
Proof.
  intros [H|H]; unfold dec_addr; rewrite H.
  - change (Nat.eqb v4_len v4_len) with true. eauto.
  - change (Nat.eqb v6_len v4_len) with false. change (Nat.eqb v6_len v6_len) with true. eauto.
Qed.

(* a list of peer strings: good ones (6 or 18 bytes, any content), then one of another length *)
Lemma f_values_loop F d good s more : forall fuel r,
  Forall (fun g => length g = v4_len \/ length g = v6_len) good ->
  length s <> v4_len -> length s <> v6_len -> N.of_nat (length s) < 2 ^ 64 ->
  (length good < fuel)%nat ->
  fails (values_loop fuel F d) (ser_list (map BStr good ++ BStr s :: more) ++ r).
Proof.
  induction good as [|g good IH]; intros fuel r Hg H4 H6 Hl Hf; (destruct fuel as [|fuel]; [cbn in Hf; lia|]).
  - cbn [map app ser_list flat_map values_loop ser]. rewrite <- !app_assoc.
    eapply fails_bind_r; [apply tok_str; exact Hl|]. cbv beta iota. cbn [bytes_from].
    eapply fails_bind_r; [apply parses_ret|]. rewrite dec_addr_bad_length by assumption.
    apply fails_bind_l. apply fails_fail.
  - inversion Hg as [|? ? Hg1 Hg']; subst.
    cbn [map app ser_list flat_map values_loop ser]. fold (ser_list (map BStr good ++ BStr s :: more)).
    rewrite <- !app_assoc.
    assert (Hgl : N.of_nat (length g) < 2 ^ 64).
    { destruct Hg1 as [E|E]; rewrite E; reflexivity. }
    eapply fails_bind_r; [apply tok_str; exact Hgl|]. cbv beta iota. cbn [bytes_from].
    eapply fails_bind_r; [apply parses_ret|].
    destruct (dec_addr_len g Hg1) as [a Ea]. rewrite Ea.
    eapply fails_bind_r; [apply parses_ret|].
    apply fails_bind_l. apply IH; try assumption. cbn in Hf. lia.
Qed.

Lemma f_values F d good s more r :
  Forall (fun g => length g = v4_len \/ length g = v6_len) good ->
  length s <> v4_len -> length s <> v6_len -> N.of_nat (length s) < 2 ^ 64 ->
  (length good < F)%nat ->
  fails (t <- tok ;; values_from F d t) (ser (BList (map BStr good ++ BStr s :: more)) ++ r).
Proof.
  intros Hg H4 H6 Hl Hf. rewrite ser_BList. cbn [app].
  eapply fails_bind_r; [apply tok_l|]. cbn [values_from].
  eapply fails_bind_r; [apply parses_enter|]. rewrite <- app_assoc.
  apply f_values_loop; assumption.
Qed.

(* ------------------------------------------------------------------ *)
(* a Response dictionary with a bad entry after a good prefix         *)

Definition bad_rentry (F d : nat) (kv : bytes * bvalue) : Prop :=
  (fst kv = k_id /\ forall r, fails (t <- tok ;; id_from F d t) (ser (snd kv) ++ r)) \/
  (fst kv = k_values /\ forall r, fails (t <- tok ;; values_from F d t) (ser (snd kv) ++ r)) \/
  (fst kv = k_nodes /\ forall r, fails (t <- tok ;; nodes_from false F d t) (ser (snd kv) ++ r)) \/
  (fst kv = k_nodes6 /\ forall r, fails (t <- tok ;; nodes_from true F d t) (ser (snd kv) ++ r)).

Lemma ser_dict_app a b : ser_dict (a ++ b) = ser_dict a ++ ser_dict b.
Proof. unfold ser_dict. apply flat_map_app. Qed.

Lemma resp_loop_rejects F d W pre kv post fuel rest :
  Forall (rentry_ok F d W) pre ->
  NoDup (filter (in_keys known_resp) (map fst pre)) ->
  ~ In (fst kv) (map fst pre) ->
  bad_rentry F d kv ->
  (length pre < fuel)%nat ->
  fails (resp_map_loop fuel F d ra_empty) (ser_dict (pre ++ kv :: post) ++ rest).
Proof.
  intros Hpre Hnd Hnin Hbad Hfuel. rewrite ser_dict_app, <- app_assoc.
  eapply steps_fails.
  { rewrite <- (mask_ra_nil W). apply resp_loop_steps; [lia | exact Hpre | exact Hnd | intros k []]. }
  cbn [app]. destruct (fuel - length pre)%nat as [|f] eqn:Ef; [lia|].
  destruct kv as [k v]. unfold bad_rentry in Hbad. cbn [fst snd] in *.
  cbn [ser_dict flat_map resp_map_loop fst snd]. rewrite <- !app_assoc.
  assert (Hk : In k known_resp).
  { destruct Hbad as [[-> _]|[[-> _]|[[-> _]|[-> _]]]]; cbn; auto 10. }
  assert (Hnseen : has k (filter (in_keys known_resp) (map fst pre)) = false).
  { apply has_false. intros Hin. apply filter_In in Hin as [Hin _]. contradiction. }
  eapply fails_bind_r; [apply tok_str; eapply known_len; [exact Hk | repeat constructor]|].
  cbv beta iota.
  eapply fails_bind_r; [cbn [str_from]; rewrite (known_resp_utf8 k) by (apply in_keys_spec; exact Hk); apply parses_ret|].
  destruct Hbad as [[-> Hf]|[[-> Hf]|[[-> Hf]|[-> Hf]]]]; eval_eqb; cbv iota;
    unfold mask_ra; cbn [ra_id ra_values ra_nodes ra_nodes6 ra_token]; rewrite Hnseen; cbn [is_some];
    apply fails_bind_assoc; apply Hf.
Qed.

Lemma f_resp F pre kv post r W :
  Forall (rentry_ok F 2 W) pre ->
  NoDup (filter (in_keys known_resp) (map fst pre)) ->
  ~ In (fst kv) (map fst pre) ->
  bad_rentry F 2 kv ->
  (length pre < F)%nat ->
  fails (t <- tok ;; resp_from F 1 t) (ser (BDict (pre ++ kv :: post)) ++ r).
Proof.
  intros Hpre Hnd Hnin Hbad HF. rewrite ser_BDict. cbn [app].
  eapply fails_bind_r; [apply tok_d|]. cbn [resp_from].
  eapply fails_bind_r; [apply parses_enter|]. rewrite <- app_assoc.
  apply fails_bind_l. eapply resp_loop_rejects; eassumption.
Qed.

(* ------------------------------------------------------------------ *)
(* the top-level dictionary                                           *)

(* the first entry is `r` and its value is refused *)
Lemma message_fails_at_r F v post :
  (forall r, fails (t <- tok ;; resp_from F 1 t) (ser v ++ r)) ->
  (0 < F)%nat ->
  fails (message F) (ser (BDict ((k_r, v) :: post))).
Proof.
  intros Hf HF. rewrite ser_BDict. unfold message.
  eapply fails_bind_r; [apply tok_d|]. cbv beta iota.
  eapply fails_bind_r; [apply parses_enter|].
  apply fails_bind_l. destruct F as [|F']; [lia|].
  cbn [ser_dict flat_map raw_map_loop fst snd]. rewrite <- !app_assoc.
  eapply fails_bind_r; [apply tok_str; reflexivity|]. cbv beta iota.
  eapply fails_bind_r; [cbn [str_from]; change (utf8_valid k_r) with true; apply parses_ret|].
  eval_eqb. cbv iota. cbn [w_r raw_empty is_some].
  apply fails_bind_assoc. apply Hf.
Qed.

Lemma message_fails_at_a F v post :
  (forall r, fails (t <- tok ;; request_from F 1 t) (ser v ++ r)) ->
  (0 < F)%nat ->
  fails (message F) (ser (BDict ((k_a, v) :: post))).
Proof.
  intros Hf HF. rewrite ser_BDict. unfold message.
  eapply fails_bind_r; [apply tok_d|]. cbv beta iota.
  eapply fails_bind_r; [apply parses_enter|].
  apply fails_bind_l. destruct F as [|F']; [lia|].
  cbn [ser_dict flat_map raw_map_loop fst snd]. rewrite <- !app_assoc.
  eapply fails_bind_r; [apply tok_str; reflexivity|]. cbv beta iota.
  eapply fails_bind_r; [cbn [str_from]; change (utf8_valid k_a) with true; apply parses_ret|].
  eval_eqb. cbv iota. cbn [w_a raw_empty is_some].
  apply fails_bind_assoc. apply Hf.
Qed.

(* all entries are fine but what has been collected is not a message *)
Lemma message_fails_at_finish F W top :
  Forall (tentry_ok F W) top ->
  NoDup (filter (in_keys known_top) (map fst top)) ->
  (length top < F)%nat ->
  raw_finish (mask_raw (filter (in_keys known_top) (map fst top)) W) = None ->
  fails (message F) (ser (BDict top)).
Proof.
  intros Hok Hnd HF Hfin. rewrite ser_BDict. unfold message.
  eapply fails_bind_r; [apply tok_d|]. cbv beta iota.
  eapply fails_bind_r; [apply parses_enter|].
  eapply fails_bind_r.
  { rewrite <- (mask_raw_nil W). apply raw_loop_ok; [exact HF | exact Hok | exact Hnd | intros k []]. }
  cbn [app]. rewrite Hfin. apply fails_fail.
Qed.

(* ------------------------------------------------------------------ *)
(* buffered query arguments with a bad id-typed field                 *)

Lemma collect_inv known : forall es acc fs,
  collect known (map centry es) acc = Some fs ->
  fs = acc ++ map fentry (filter (fun kv => in_keys known (fst kv)) es) /\
  (NoDup (map fst acc) -> NoDup (map fst fs)).
Proof.
  induction es as [|[k v] es IH]; intros acc fs H.
  - cbn in H. inversion H; subst. rewrite app_nil_r. auto.
  - cbn [map centry fst snd collect filter] in H |- *. fold (in_keys known k) in H.
    destruct (in_keys known k) eqn:Ek.
    + destruct (existsb (fun kv => bytes_eqb k (fst kv)) acc) eqn:Ex; [discriminate|].
      destruct (IH _ _ H) as [-> Hnd]. split.
      * cbn [map fentry fst snd]. rewrite <- app_assoc. reflexivity.
      * intros Hacc. apply Hnd. rewrite map_app. cbn [map fst].
        apply nodup_snoc; [exact Hacc|]. intros Hin.
        apply in_map_iff in Hin as [[k' c] [E Hin]]. cbn in E. subst k'.
        assert (existsb (fun kv => bytes_eqb k (fst kv)) acc = true).
        { apply existsb_exists. exists (k, c). split; [exact Hin | apply bytes_eqb_refl]. }
        congruence.
    + apply IH. exact H.
Qed.

(* a collected known key is bound to the (only) value it has in the dictionary *)
Lemma collect_field known es fs k v :
  collect known (map centry es) [] = Some fs -> In k known -> In (k, v) es ->
  field k fs = Some (content_of v).
Proof.
  intros H Hk Hin. destruct (collect_inv known es [] fs H) as [-> Hnd]. cbn [app] in *.
  apply field_found; [apply Hnd; constructor|].
  change (k, content_of v) with (fentry (k, v)). apply in_map. apply filter_In. split; [exact Hin|].
  apply in_keys_spec. exact Hk.
Qed.

Lemma c_id_bad s : length s <> id_len -> c_id (CStr s) = None.
Proof. intros H. unfold c_id, c_bytes. apply dec_id_bad_length. exact H. Qed.

Ltac kind_tac H :=
  repeat match type of H with
         | context [match ?x with _ => _ end] => destruct x; try discriminate
         end; inversion H; reflexivity.

Lemma find_node_kind c r : find_node_of c = Some r -> rtype_of r = QFindNode.
Proof. intros H. unfold find_node_of, req_field, opt_field in H. kind_tac H. Qed.
Lemma announce_kind c r : announce_of c = Some r -> rtype_of r = QAnnouncePeer.
Proof. intros H. unfold announce_of in H. kind_tac H. Qed.
Lemma get_peers_kind c r : get_peers_of c = Some r -> rtype_of r = QGetPeers.
Proof. intros H. unfold get_peers_of, req_field, opt_field in H. kind_tac H. Qed.
Lemma ping_kind c r : ping_of c = Some r -> rtype_of r = QPing.
Proof. intros H. unfold ping_of in H. kind_tac H. Qed.

Section BadArgs.
  Variables (es : list (bytes * bvalue)) (s : bytes).
  Hypothesis Hs : length s <> id_len.

  Lemma find_node_bad k : (k = k_id \/ k = k_target) -> In (k, BStr s) es ->
    find_node_of (content_of (BDict es)) = None.
  Proof.
    intros Hk Hin. rewrite content_of_BDict. unfold find_node_of.
    destruct (collect [k_id; k_target; k_want] (map centry es) []) as [fs|] eqn:Ec; [|reflexivity].
    destruct Hk as [-> | ->].
    - unfold req_field at 1. rewrite (collect_field _ _ _ k_id _ Ec ltac:(cbn; auto) Hin). cbn [content_of].
      rewrite (c_id_bad s Hs). reflexivity.
    - unfold req_field at 2. rewrite (collect_field _ _ _ k_target _ Ec ltac:(cbn; auto) Hin). cbn [content_of].
      rewrite (c_id_bad s Hs). destruct (req_field k_id c_id fs); reflexivity.
  Qed.

  Lemma get_peers_bad k : (k = k_id \/ k = k_info_hash) -> In (k, BStr s) es ->
    get_peers_of (content_of (BDict es)) = None.
  Proof.
    intros Hk Hin. rewrite content_of_BDict. unfold get_peers_of.
    destruct (collect [k_id; k_info_hash; k_want] (map centry es) []) as [fs|] eqn:Ec; [|reflexivity].
    destruct Hk as [-> | ->].
    - unfold req_field at 1. rewrite (collect_field _ _ _ k_id _ Ec ltac:(cbn; auto) Hin). cbn [content_of].
      rewrite (c_id_bad s Hs). reflexivity.
    - unfold req_field at 2. rewrite (collect_field _ _ _ k_info_hash _ Ec ltac:(cbn; auto) Hin). cbn [content_of].
      rewrite (c_id_bad s Hs). destruct (req_field k_id c_id fs); reflexivity.
  Qed.

  Lemma announce_bad k : (k = k_id \/ k = k_info_hash) -> In (k, BStr s) es ->
    announce_of (content_of (BDict es)) = None.
  Proof.
    intros Hk Hin. rewrite content_of_BDict. unfold announce_of.
    destruct (collect [k_id; k_info_hash; k_token] (map centry es) []) as [fs|] eqn:Ec; [|reflexivity].
    destruct (collect [k_port; k_implied_port] (map centry es) []) as [ws|]; [|reflexivity].
    destruct Hk as [-> | ->].
    - unfold req_field at 1. rewrite (collect_field _ _ _ k_id _ Ec ltac:(cbn; auto) Hin). cbn [content_of].
      rewrite (c_id_bad s Hs). reflexivity.
    - unfold req_field at 2. rewrite (collect_field _ _ _ k_info_hash _ Ec ltac:(cbn; auto) Hin). cbn [content_of].
      rewrite (c_id_bad s Hs). destruct (req_field k_id c_id fs); reflexivity.
  Qed.

  Lemma ping_bad : In (k_id, BStr s) es -> ping_of (content_of (BDict es)) = None.
  Proof.
    intros Hin. rewrite content_of_BDict. unfold ping_of.
    destruct (collect [k_id] (map centry es) []) as [fs|] eqn:Ec; [|reflexivity].
    unfold req_field. rewrite (collect_field _ _ _ k_id _ Ec ltac:(cbn; auto) Hin). cbn [content_of].
    rewrite (c_id_bad s Hs). reflexivity.
  Qed.

  (* a bad `id`: no variant matches *)
  Lemma request_of_bad_id : In (k_id, BStr s) es -> request_of (content_of (BDict es)) = None.
  Proof.
    intros Hin. unfold request_of.
    rewrite (find_node_bad k_id (or_introl eq_refl) Hin), (announce_bad k_id (or_introl eq_refl) Hin),
            (get_peers_bad k_id (or_introl eq_refl) Hin). apply ping_bad. exact Hin.
  Qed.

  (* a bad `target`: whatever matches is not a find_node *)
  Lemma request_of_bad_target rq : In (k_target, BStr s) es ->
    request_of (content_of (BDict es)) = Some rq -> rtype_of rq <> QFindNode.
  Proof.
    intros Hin. unfold request_of. rewrite (find_node_bad k_target (or_intror eq_refl) Hin).
    destruct (announce_of _) eqn:E1; [intros H; inversion H; subst; rewrite (announce_kind _ _ E1); discriminate|].
    destruct (get_peers_of _) eqn:E2; [intros H; inversion H; subst; rewrite (get_peers_kind _ _ E2); discriminate|].
    intros H. rewrite (ping_kind _ _ H). discriminate.
  Qed.

  (* a bad `info_hash`: whatever matches is neither get_peers nor announce_peer *)
  Lemma request_of_bad_info_hash rq : In (k_info_hash, BStr s) es ->
    request_of (content_of (BDict es)) = Some rq -> rtype_of rq <> QGetPeers /\ rtype_of rq <> QAnnouncePeer.
  Proof.
    intros Hin. unfold request_of.
    rewrite (announce_bad k_info_hash (or_intror eq_refl) Hin), (get_peers_bad k_info_hash (or_intror eq_refl) Hin).
    destruct (find_node_of _) eqn:E1; [intros H; inversion H; subst; rewrite (find_node_kind _ _ E1); split; discriminate|].
    intros H. rewrite (ping_kind _ _ H). split; discriminate.
  Qed.
End BadArgs.

(* ------------------------------------------------------------------ *)
(* the final theorems                                                 *)

(* the entries of a (re-ordered) valid response are accepted one by one *)
Lemma resp_entries_ok F rs es' :
  response_wf rs = true ->
  (forall k v, In (k, v) es' -> in_keys known_resp k = true -> In (k, v) (resp_entries rs)) ->
  (forall k v, In (k, v) es' -> in_keys known_resp k = false -> utf8_valid k = true) ->
  bv_wf (BDict es') -> (S (length (ser_dict es') + 1) <= F)%nat ->
  Forall (rentry_ok F 2 (resp_W rs)) es'.
Proof.
  intros Hwf Hv Hutf Hbw HF.
  unfold response_wf in Hwf. rewrite !andb_true_iff in Hwf. destruct Hwf as [[[[Hid Hvals] H4] H6] _].
  apply id_ok_spec in Hid. apply nodes_ok_spec in H4. apply nodes_ok_spec in H6.
  assert (Hvals' : Forall addr_in_range (r_values rs)).
  { rewrite forallb_forall in Hvals. apply Forall_forall. intros a Ha. apply addr_ok_spec. auto. }
  pose proof (proj1 (bv_wf_dict es') Hbw) as Hbw'. rewrite Forall_forall in Hbw'.
    apply Forall_forall. intros [k v] Hin. destruct (Hbw' _ Hin) as [Hlk Hwv]. cbn [fst snd] in *.
    pose proof (ser_in_dict_length _ _ _ Hin) as Hlen.
    unfold rentry_ok. cbn [fst snd].
    split; [exact Hlk|]. split.
    { destruct (in_keys known_resp k) eqn:Ek; [apply known_resp_utf8; exact Ek | eapply Hutf; eassumption]. }
    repeat split.
    - intros ->. exists (r_id rs). split; [reflexivity|]. intros r0.
      apply Hv in Hin; [|reflexivity].
      apply in_resp_entries in Hin as [[_ ->]|[[E _]|[[E _]|[[E _]|[E _]]]]]; try discriminate E.
      apply p_id. exact Hid.
    - intros ->. apply Hv in Hin; [|reflexivity].
      apply in_resp_entries in Hin as [[E _]|[[E _]|[[E _]|[[E _]|[_ [Hne ->]]]]]]; try discriminate E.
      exists (r_values rs). split; [cbn [resp_W ra_values]; destruct (r_values rs); [congruence | reflexivity]|].
      intros r0. apply p_values; [exact Hvals'|]. pose proof (values_tree_length (r_values rs)). lia.
    - intros ->. apply Hv in Hin; [|reflexivity].
      apply in_resp_entries in Hin as [[E _]|[[_ [Hne ->]]|[[E _]|[[E _]|[E _]]]]]; try discriminate E.
      exists (r_nodes4 rs). split; [cbn [resp_W ra_nodes]; destruct (r_nodes4 rs); [congruence | reflexivity]|].
      intros r0. apply p_nodes; [exact H4 | exact Hwv].
    - intros ->. apply Hv in Hin; [|reflexivity].
      apply in_resp_entries in Hin as [[E _]|[[E _]|[[_ [Hne ->]]|[[E _]|[E _]]]]]; try discriminate E.
      exists (r_nodes6 rs). split; [cbn [resp_W ra_nodes6]; destruct (r_nodes6 rs); [congruence | reflexivity]|].
      intros r0. apply p_nodes; [exact H6 | exact Hwv].
    - intros ->. apply Hv in Hin; [|reflexivity].
      apply in_resp_entries in Hin as [[E _]|[[E _]|[[E _]|[[_ [Htk [s ->]]]|[E _]]]]]; try discriminate E.
      exists s. split; [exact Htk|]. intros r0. apply p_bytes. exact Hwv.
    - exact Hwv.
    - lia.
Qed.

Inductive bad_entry : bytes * bvalue -> Prop :=
| be_id s : length s <> 20%nat -> bad_entry (k_id, BStr s)
| be_nodes s : Nat.modulo (length s) 26 <> 0%nat -> bad_entry (k_nodes, BStr s)
| be_nodes6 s : Nat.modulo (length s) 38 <> 0%nat -> bad_entry (k_nodes6, BStr s)
| be_values good s more :
    Forall (fun g => length g = 6%nat \/ length g = 18%nat) good -> length s <> 6%nat -> length s <> 18%nat ->
    bad_entry (k_values, BList (map BStr good ++ BStr s :: more)).

Lemma bv_wf_dict_app a b : bv_wf (BDict (a ++ b)) -> bv_wf (BDict a) /\ bv_wf (BDict b).
Proof. rewrite !bv_wf_dict, Forall_app. tauto. Qed.

Lemma ser_list_count l : (length l <= length (ser_list l))%nat.
Proof.
  induction l as [|x l IH]; [cbn; lia|]. cbn [ser_list flat_map length]. rewrite app_length.
  pose proof (ser_length_pos x). unfold ser_list in IH. lia.
Qed.

Lemma bv_wf_list_in l x : bv_wf (BList l) -> In x l -> bv_wf x.
Proof. intros H Hin. apply bv_wf_list in H. rewrite Forall_forall in H. auto. Qed.

(* a response whose return-value dictionary has a bad entry -- an id that is not 20 bytes, a node
   string whose length is not a multiple of 26 / 38, a peer string that is not 6 / 18 bytes --
   behind any valid entries [pre] (a prefix of a valid response's entries, e.g. in canonical
   order everything that sorts before the bad key) and in front of anything [post] *)
Theorem reject_response rs pre suf kv post top_post trailing :
  response_wf rs = true -> resp_entries rs = pre ++ suf ->
  ~ In (fst kv) (map fst pre) -> bad_entry kv ->
  bv_wf (BDict ((k_r, BDict (pre ++ kv :: post)) :: top_post)) ->
  (vdepth (BDict ((k_r, BDict (pre ++ kv :: post)) :: top_post)) <= max_depth)%nat ->
  decode_msg (ser (BDict ((k_r, BDict (pre ++ kv :: post)) :: top_post)) ++ trailing) = None.
Proof.
  intros Hwf Hpre Hnin Hbad Hbw Hdep.
  apply decode_of_fails; [exact Hbw | exact Hdep|].
  set (top := (k_r, BDict (pre ++ kv :: post)) :: top_post) in *.
  set (F := fuel_for (length (ser (BDict top)))).
  destruct (in_dict_wf k_r (BDict (pre ++ kv :: post)) top Hbw (or_introl eq_refl)) as [_ Hbr].
  destruct (bv_wf_dict_app _ _ Hbr) as [Hbpre Hbrest].
  assert (Hkv : bv_wf (snd kv)).
  { apply bv_wf_dict in Hbrest. inversion Hbrest as [|? ? [_ H] _]. exact H. }
  (* sizes *)
  assert (Hsz : (length (ser (BDict (pre ++ kv :: post))) + 4 <= F)%nat).
  { pose proof (ser_in_dict_length k_r _ top (or_introl eq_refl)) as H. unfold F, fuel_for.
    rewrite (ser_BDict top). cbn [length]. rewrite app_length. lia. }
  rewrite ser_BDict in Hsz. cbn [length] in Hsz. rewrite app_length, ser_dict_app, app_length in Hsz.
  cbn [length] in Hsz.
  apply message_fails_at_r; [|unfold F, fuel_for; lia].
  intros r. apply f_resp with (W := resp_W rs).
  - apply resp_entries_ok; try assumption.
    + intros k v Hin _. rewrite Hpre. apply in_or_app. left. exact Hin.
    + intros k v Hin Hk. exfalso.
      assert (In k known_resp).
      { apply (resp_keys_reserved rs). rewrite Hpre, map_app. apply in_or_app. left.
        change k with (fst (k, v)). apply in_map. exact Hin. }
      apply in_keys_spec in H. congruence.
    + lia.
  - pose proof (resp_keys_nodup rs) as Hnd. rewrite Hpre, map_app in Hnd.
    apply NoDup_filter. eapply nodup_app_l. exact Hnd.
  - exact Hnin.
  - pose proof (ser_dict_count pre) as Hc.
    destruct Hbad as [s Hs | s Hs | s Hs | good s more Hg H6 H18]; unfold bad_rentry; cbn [fst snd] in *.
    + left. split; [reflexivity|]. intros r0. apply f_id; [exact Hkv | exact Hs].
    + right. right. left. split; [reflexivity|]. intros r0. apply f_nodes; [exact Hkv | exact Hs].
    + right. right. right. split; [reflexivity|]. intros r0. apply f_nodes; [exact Hkv | exact Hs].
    + right. left. split; [reflexivity|]. intros r0.
      assert (Hs : bv_wf (BStr s)).
      { eapply bv_wf_list_in; [exact Hkv|]. apply in_or_app. right. left. reflexivity. }
      apply f_values; [exact Hg | exact H6 | exact H18 | exact Hs|].
      (* the list is part of the datagram *)
      cbn [ser_dict flat_map snd] in Hsz. rewrite !app_length in Hsz.
      rewrite ser_BList in Hsz. cbn [length] in Hsz. rewrite app_length in Hsz.
      pose proof (ser_list_count (map BStr good ++ BStr s :: more)) as Hl.
      rewrite app_length, map_length in Hl. cbn [length] in Hl. unfold bytes in *. lia.
  - pose proof (ser_dict_count pre). lia.
Qed.

(* ---- queries ---- *)
Lemma p_request_any F d v rq r :
  bv_wf v -> (length (ser v) <= F)%nat -> request_of (content_of v) = Some rq ->
  parses (t <- tok ;; request_from F d t) (ser v ++ r) rq r.
Proof.
  intros Hwf Hf Hr. unfold request_from.
  eapply parses_ext with (m := c <- any F d ;; lift (request_of c)).
  { intros s. unfold any, bind. destruct (tok s) as [s' [t| |]]; reflexivity. }
  eapply parses_bind; [apply p_any; assumption|]. apply parses_lift. exact Hr.
Qed.

Lemma f_request_any F d v r :
  bv_wf v -> (length (ser v) <= F)%nat -> request_of (content_of v) = None ->
  fails (t <- tok ;; request_from F d t) (ser v ++ r).
Proof.
  intros Hwf Hf Hr. unfold request_from.
  eapply fails_ext with (m := c <- any F d ;; lift (request_of c)).
  { intros s. unfold any, bind. destruct (tok s) as [s' [t| |]]; reflexivity. }
  eapply fails_bind_r; [apply p_any; assumption|]. rewrite Hr. apply fails_fail.
Qed.

Definition query_top (tid : bytes) (es : list (bytes * bvalue)) (q : bytes) : list (bytes * bvalue) :=
  [(k_a, BDict es); (k_q, BStr q); (k_t, BStr tid); (k_y, BStr k_q)].

(* a query whose arguments fit no variant, or fit a variant other than the one that `q` names *)
Theorem reject_query tid es q qt trailing :
  find (fun kv => bytes_eqb q (fst kv)) rtype_variants = Some (q, qt) ->
  (forall rq', request_of (content_of (BDict es)) = Some rq' -> rtype_of rq' <> qt) ->
  bv_wf (BDict (query_top tid es q)) -> (vdepth (BDict (query_top tid es q)) <= max_depth)%nat ->
  decode_msg (ser (BDict (query_top tid es q)) ++ trailing) = None.
Proof.
  intros Hq Hmis Hbw Hdep. apply decode_of_fails; [exact Hbw | exact Hdep|].
  set (top := query_top tid es q) in *. set (F := fuel_for (length (ser (BDict top)))).
  assert (HF : forall k v, In (k, v) top -> (length (ser v) <= F)%nat).
  { intros k v Hin. pose proof (ser_in_dict_length _ _ _ Hin). unfold F, fuel_for.
    rewrite ser_BDict. cbn [length]. rewrite app_length. lia. }
  destruct (in_dict_wf k_a (BDict es) top Hbw (or_introl eq_refl)) as [_ Hba].
  destruct (request_of (content_of (BDict es))) as [rq'|] eqn:Er.
  2: { apply message_fails_at_a; [|unfold F, fuel_for; lia].
       intros r. apply f_request_any; [exact Hba | apply (HF k_a); left; reflexivity | exact Er]. }
  apply message_fails_at_finish with (W := mkRaw (Some tid) (Some YQ) (Some qt) (Some rq') None None).
  - destruct (in_dict_wf k_q (BStr q) top Hbw ltac:(cbn; auto)) as [_ Hbq].
    destruct (in_dict_wf k_t (BStr tid) top Hbw ltac:(cbn; auto)) as [_ Hbt].
    apply Forall_forall. intros kv [<-|[<-|[<-|[<-|[]]]]]; unfold tentry_ok; cbn [fst snd w_t w_y w_q w_a w_r w_e];
      (split; [reflexivity|]); (split; [reflexivity|]); repeat split;
      try (match goal with H : in_keys _ _ = false |- _ => vm_compute in H; discriminate H end);
      try (intros E; discriminate E); intros _.
    + eexists. split; [reflexivity|]. intros r. apply p_request_any; [exact Hba | apply (HF k_a); left; reflexivity | exact Er].
    + eexists. split; [reflexivity|]. intros r. apply p_enum; [exact Hbq | exact Hq].
    + eexists. split; [reflexivity|]. intros r. apply p_bytes. exact Hbt.
    + eexists. split; [reflexivity|]. intros r. apply p_enum; reflexivity.
  - cbn. repeat (constructor; [cbn; intuition discriminate|]). constructor.
  - unfold F, fuel_for. rewrite ser_BDict. unfold top, query_top. cbn [length]. lia.
  - cbn. destruct (rtype_eqb qt (rtype_of rq')) eqn:E; [|reflexivity].
    exfalso. apply (Hmis rq' eq_refl). destruct qt, rq'; cbn in E; try discriminate; reflexivity.
Qed.

(* the canonical arguments of [rq] under the name of another method *)
Theorem reject_qa_mismatch tid rq q qt trailing :
  request_wf rq = true ->
  find (fun kv => bytes_eqb q (fst kv)) rtype_variants = Some (q, qt) -> qt <> rtype_of rq ->
  bv_wf (BDict (query_top tid (args_entries rq) q)) ->
  decode_msg (ser (BDict (query_top tid (args_entries rq) q)) ++ trailing) = None.
Proof.
  intros Hwf Hq Hne Hbw. apply reject_query with (qt := qt); [exact Hq | | exact Hbw |].
  - intros rq' Hr.
    rewrite (request_of_variant rq (args_entries rq) Hwf) in Hr.
    + inversion Hr; subst. congruence.
    + apply (proj1 (reordered_dvariant reserved_args (fun _ => True) _ _ (args_keys_nodup rq) (args_keys_reserved rq) (reordered_refl _ _ _))).
  - pose proof (args_tree_depth rq) as Hd. unfold args_tree in Hd.
    unfold query_top. rewrite vdepth_BDict.
    assert (dict_depth [(k_a, BDict (args_entries rq)); (k_q, BStr q); (k_t, BStr tid); (k_y, BStr k_q)] <= 2)%nat.
    { apply dict_depth_le. intros kv [<-|[<-|[<-|[<-|[]]]]]; cbn [snd]; try (cbn; lia). exact Hd. }
    unfold max_depth. change Consts.bencode_max_depth_nat with 32%nat. lia.
Qed.

(* an id-typed argument that is not 20 bytes: `id` in any query; `target` under find_node;
   `info_hash` under get_peers / announce_peer -- whatever else the arguments hold, in any order *)
Theorem reject_query_bad_id tid es q qt s k trailing :
  find (fun kv => bytes_eqb q (fst kv)) rtype_variants = Some (q, qt) ->
  In (k, BStr s) es -> length s <> 20%nat ->
  (k = k_id \/ (k = k_target /\ qt = QFindNode) \/ (k = k_info_hash /\ (qt = QGetPeers \/ qt = QAnnouncePeer))) ->
  bv_wf (BDict (query_top tid es q)) -> (vdepth (BDict (query_top tid es q)) <= max_depth)%nat ->
  decode_msg (ser (BDict (query_top tid es q)) ++ trailing) = None.
Proof.
  intros Hq Hin Hs Hk Hbw Hdep. apply reject_query with (qt := qt); try assumption.
  intros rq' Hr. destruct Hk as [-> | [[-> ->] | [-> Hqt]]].
  - rewrite (request_of_bad_id es s Hs Hin) in Hr. discriminate.
  - apply (request_of_bad_target es s Hs rq' Hin Hr).
  - destruct (request_of_bad_info_hash es s Hs rq' Hin Hr) as [H1 H2]. destruct Hqt as [-> | ->]; assumption.
Qed.
