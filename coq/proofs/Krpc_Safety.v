(* C14, decoder part: what precheck buys.  For EVERY input, every allocation the
   library requests while decoding is at most the input length and the nesting of
   visit_seq / visit_map calls never exceeds MAX_DEPTH + 2.

   The argument does not follow the decoder's quirks.  All reads go through [tok],
   which moves from one token boundary of the input to the next ([lnext]).  precheck
   establishes a property of the whole (truncated) input, [lsafe], that is inherited
   by every later token boundary: each well-formed length prefix from there on fits
   into what is left, and the running balance of openers minus closers never exceeds
   MAX_DEPTH.  The structured part of the decoder opens at most 4 levels on its own and
   calls the generic value reader at level <= 2; inside the generic reader the library's
   level moves in lockstep with the balance of openers and closers. *)
From BT Require Import model.Prelude model.Krpc proofs.Prelude_Facts proofs.Bencode_Facts.
From Coq Require Import ZifyBool ZifyN ZifyNat.

(* ------------------------------------------------------------------ *)
(* loose token boundaries                                             *)

(* where the token reader stands after the first token of [s]; [None]: it fails there *)
Definition lnext (s : bytes) : option bytes :=
  match s with
  | [] => None
  | c :: r =>
    if c =? ch_i then
      match split_at_byte ch_e r with Some (_, r') => Some r' | None => None end
    else if is_digit c then
      match split_at_byte ch_colon r with
      | None => None
      | Some (ds, r') =>
        match parse_usize (c :: ds) with
        | None => None
        | Some len => if len <=? N.of_nat (length r') then Some (skipn (N.to_nat len) r') else None
        end
      end
    else if (c =? ch_l) || (c =? ch_d) || (c =? ch_e) then Some r
    else None
  end.

(* the allocation that reading the first token of [s] requests *)
Definition lalloc (s : bytes) : option N :=
  match s with
  | [] => None
  | c :: r =>
    if c =? ch_i then None
    else if is_digit c then
      match split_at_byte ch_colon r with
      | None => None
      | Some (ds, r') => parse_usize (c :: ds)
      end
    else None
  end.

(* a well-formed length prefix at the head of [s] is followed by that many bytes *)
Definition alloc_ok (s : bytes) : Prop :=
  forall n, lalloc s = Some n -> exists s', lnext s = Some s' /\ n + N.of_nat (length s') <= N.of_nat (length s).

Definition list_sum (l : list N) : N := fold_right N.add 0 l.

Lemma list_sum_app a b : list_sum (a ++ b) = list_sum a + list_sum b.
Proof. induction a as [|x a IH]; cbn [app list_sum fold_right]; [reflexivity|]. fold (list_sum (a ++ b)). fold (list_sum a). lia. Qed.

Definition scalar_start (c : N) : Prop := c = ch_i \/ is_digit c = true.

(* [lsafe B d s]: reading the tokens of [s] one after the other, with [d] containers open
   now, never requests more than what is left and never has more than [B] containers open *)
Inductive lsafe (B : nat) : nat -> bytes -> Prop :=
| ls_stop d s : lnext s = None -> alloc_ok s -> (d <= B)%nat -> lsafe B d s
| ls_open d c r : c = ch_l \/ c = ch_d -> (S d <= B)%nat -> lsafe B (S d) r -> lsafe B d (c :: r)
| ls_close d r : (d <= B)%nat -> lsafe B (pred d) r -> lsafe B d (ch_e :: r)
| ls_other d c r s' : scalar_start c -> alloc_ok (c :: r) -> lnext (c :: r) = Some s' -> (d <= B)%nat ->
                      lsafe B d s' -> lsafe B d (c :: r).

Lemma lsafe_le B d s : lsafe B d s -> (d <= B)%nat.
Proof. intros H. destruct H; lia. Qed.

Lemma lsafe_mono B d s : lsafe B d s -> forall d', (d' <= d)%nat -> lsafe B d' s.
Proof.
  induction 1 as [d s Hn Ha Hd | d c r Hc Hd H IH | d r Hd H IH | d c r s' Hc Ha Hn Hd H IH]; intros d' Hle.
  - apply ls_stop; [assumption | assumption | lia].
  - apply ls_open; [assumption | lia | apply IH; lia].
  - apply ls_close; [lia | apply IH; lia].
  - eapply ls_other; [assumption | assumption | eassumption | lia | apply IH; lia].
Qed.

Lemma lsafe_shift B d s : lsafe B d s -> forall k, lsafe (B + k) (d + k) s.
Proof.
  induction 1 as [d s Hn Ha Hd | d c r Hc Hd H IH | d r Hd H IH | d c r s' Hc Ha Hn Hd H IH]; intros k.
  - apply ls_stop; [assumption | assumption | lia].
  - apply ls_open; [assumption | lia | apply (IH k)].
  - apply ls_close; [lia|]. eapply lsafe_mono; [apply (IH k) | lia].
  - eapply ls_other; [assumption | assumption | eassumption | lia | apply IH].
Qed.

Lemma lsafe_weaken B d s : lsafe B d s -> forall B', (B <= B')%nat -> lsafe B' d s.
Proof.
  induction 1 as [d s Hn Ha Hd | d c r Hc Hd H IH | d r Hd H IH | d c r s' Hc Ha Hn Hd H IH]; intros B' Hle.
  - apply ls_stop; [assumption | assumption | lia].
  - apply ls_open; [assumption | lia | apply IH; lia].
  - apply ls_close; [lia | apply IH; lia].
  - eapply ls_other; [assumption | assumption | eassumption | lia | apply IH; lia].
Qed.

Lemma lsafe_alloc B d s : lsafe B d s -> alloc_ok s.
Proof.
  intros H. destruct H as [d s Hn Ha Hd | d c r Hc Hd H | d r Hd H | d c r s' Hc Ha Hn Hd H]; try assumption.
  - intros n Hn. cbn in Hn. destruct Hc as [-> | ->]; discriminate.
  - intros n Hn. discriminate.
Qed.

(* first characters *)
Lemma lnext_open c r : c = ch_l \/ c = ch_d -> lnext (c :: r) = Some r.
Proof. intros [-> | ->]; reflexivity. Qed.
Lemma lnext_close r : lnext (ch_e :: r) = Some r.
Proof. reflexivity. Qed.

Lemma scalar_not_struct c : scalar_start c -> c <> ch_l /\ c <> ch_d /\ c <> ch_e.
Proof.
  intros [-> | H]; [repeat split; discriminate|]. apply is_digit_spec in H.
  unfold ch_l, ch_d, ch_e. repeat split; lia.
Qed.

(* the next boundary is safe again (at whatever level; in particular at level 0) *)
Lemma lsafe_next B d s s' : lsafe B d s -> lnext s = Some s' -> lsafe B 0 s'.
Proof.
  intros H Hn. destruct H as [d s Hs Ha Hd | d c r Hc Hd H | d r Hd H | d c r s'' Hc Ha Hn' Hd H].
  - congruence.
  - rewrite (lnext_open c r Hc) in Hn. inversion Hn; subst. eapply lsafe_mono; [exact H | lia].
  - rewrite lnext_close in Hn. inversion Hn; subst. eapply lsafe_mono; [exact H | lia].
  - rewrite Hn' in Hn. inversion Hn; subst. eapply lsafe_mono; [exact H | lia].
Qed.

(* ------------------------------------------------------------------ *)
(* the token reader against the loose view                            *)

Inductive tclass := KOpen | KClose | KScalar.
Definition token_class (t : token) : tclass :=
  match t with TList | TMap => KOpen | TEnd => KClose | _ => KScalar end.

Lemma tok_spec st st' r : tok st = (st', r) ->
  s_max st' = s_max st /\
  (s_log st' = s_log st \/ exists n, lalloc (s_in st) = Some n /\ s_log st' = s_log st ++ [n]) /\
  match r with
  | Ok t => lnext (s_in st) = Some (s_in st') /\
            exists c rest, s_in st = c :: rest /\
              match token_class t with
              | KOpen => (c = ch_l \/ c = ch_d) /\ s_in st' = rest
              | KClose => c = ch_e /\ s_in st' = rest
              | KScalar => scalar_start c
              end
  | Fail => s_in st' = s_in st
  | Oof => False
  end.
Proof.
  unfold tok, lnext, lalloc. destruct st as [inp lg mx]. cbn [s_in s_log s_max].
  destruct inp as [|c rest]; intros H.
  - inversion H; subst. cbn. auto.
  - destruct (c =? ch_i) eqn:Ei.
    + apply N.eqb_eq in Ei. subst c.
      destruct (split_at_byte ch_e rest) as [[ds r']|]; [|inversion H; subst; cbn; auto].
      destruct (parse_i64 ds); inversion H; subst; cbn [s_in s_log s_max set_in]; [|auto].
      split; [reflexivity|]. split; [left; reflexivity|]. split; [reflexivity|].
      eexists _, _. split; [reflexivity|]. left. reflexivity.
    + destruct (is_digit c) eqn:Ed.
      * destruct (split_at_byte ch_colon rest) as [[ds r']|]; [|inversion H; subst; cbn; auto].
        destruct (parse_usize (c :: ds)) as [len|]; [|inversion H; subst; cbn; auto].
        destruct (len <=? N.of_nat (length r')) eqn:El; inversion H; subst; cbn [s_in s_log s_max set_in add_log].
        -- split; [reflexivity|]. split; [right; eexists; split; reflexivity|]. split; [reflexivity|].
           eexists _, _. split; [reflexivity|]. right. exact Ed.
        -- split; [reflexivity|]. split; [right; eexists; split; reflexivity|]. reflexivity.
      * destruct (c =? ch_l) eqn:E1; [apply N.eqb_eq in E1; subst c; inversion H; subst; cbn; repeat split; auto;
                                     eexists _, _; split; [reflexivity|]; cbn; auto|].
        destruct (c =? ch_d) eqn:E2; [apply N.eqb_eq in E2; subst c; inversion H; subst; cbn; repeat split; auto;
                                     eexists _, _; split; [reflexivity|]; cbn; auto|].
        destruct (c =? ch_e) eqn:E3; [apply N.eqb_eq in E3; subst c; inversion H; subst; cbn; repeat split; auto;
                                     eexists _, _; split; [reflexivity|]; cbn; auto|].
        inversion H; subst. cbn. auto.
Qed.

(* a failing read that nevertheless requested memory: the declared length exceeds what is left *)
Lemma tok_fail_alloc st st' : tok st = (st', Fail) -> s_log st' <> s_log st -> lnext (s_in st) = None.
Proof.
  unfold tok, lnext. destruct st as [inp lg mx]. cbn [s_in s_log s_max].
  destruct inp as [|c rest]; intros H Hne; [reflexivity|].
  destruct (c =? ch_i) eqn:Ei.
  - destruct (split_at_byte ch_e rest) as [[ds r']|]; [|reflexivity].
    destruct (parse_i64 ds); inversion H; subst; cbn in Hne; congruence.
  - destruct (is_digit c) eqn:Ed.
    + destruct (split_at_byte ch_colon rest) as [[ds r']|]; [|reflexivity].
      destruct (parse_usize (c :: ds)) as [len|]; [|reflexivity].
      destruct (len <=? N.of_nat (length r')) eqn:El; [inversion H | reflexivity].
    + destruct (c =? ch_l); [inversion H|]. destruct (c =? ch_d); [inversion H|]. destruct (c =? ch_e); [inversion H|].
      reflexivity.
Qed.

(* ------------------------------------------------------------------ *)
(* the invariant                                                      *)

Section Safety.
  Variable L : N.        (* length of the datagram *)
  Definition MAXD : nat := max_depth.
  Definition BND : nat := (max_depth + 2)%nat.

  Definition Inv (st : st) : Prop :=
    lsafe MAXD 0 (s_in st) /\ N.of_nat (length (s_in st)) <= L /\
    Forall (fun a => a <= L) (s_log st) /\ list_sum (s_log st) + N.of_nat (length (s_in st)) <= L /\
    (s_max st <= BND)%nat.

  Definition safe {A} (m : M A) : Prop := forall st st' r, Inv st -> m st = (st', r) -> Inv st'.

  Lemma safe_ret {A} (a : A) : safe (ret a).
  Proof. intros st st' r HI H. inversion H; subst. exact HI. Qed.
  Lemma safe_fail {A} : safe (@fail A).
  Proof. intros st st' r HI H. inversion H; subst. exact HI. Qed.
  Lemma safe_oof {A} : safe (@oof A).
  Proof. intros st st' r HI H. inversion H; subst. exact HI. Qed.
  Lemma safe_lift {A} (o : option A) : safe (lift o).
  Proof. destruct o; [apply safe_ret | apply safe_fail]. Qed.

  Lemma safe_bind {A C} (m : M A) (f : A -> M C) : safe m -> (forall a, safe (f a)) -> safe (bind m f).
  Proof.
    intros Hm Hf st st' r HI H. unfold bind in H.
    destruct (m st) as [s1 [a| |]] eqn:E.
    - eapply Hf; [eapply Hm; eassumption | exact H].
    - inversion H; subst. eapply Hm; eassumption.
    - inversion H; subst. eapply Hm; eassumption.
  Qed.

  Lemma safe_ext {A} (m m' : M A) : (forall s, m s = m' s) -> safe m -> safe m'.
  Proof. intros E H st st' r HI Hr. rewrite <- E in Hr. eapply H; eassumption. Qed.

  Lemma safe_enter k : (k <= BND)%nat -> safe (enter k).
  Proof.
    intros Hk st st' r [H1 [H2 [H3 [H5 H4]]]] H. inversion H; subst. unfold Inv. cbn [s_in s_log s_max].
    repeat split; try assumption. lia.
  Qed.

  Lemma skipn_length_le {A} n (l : list A) : (length (skipn n l) <= length l)%nat.
  Proof. rewrite skipn_length. lia. Qed.

  Lemma lnext_length s s' : lnext s = Some s' -> (length s' < length s)%nat.
  Proof.
    unfold lnext. destruct s as [|c r]; [discriminate|]. cbn [length].
    destruct (c =? ch_i).
    - destruct (split_at_byte ch_e r) as [[ds r']|] eqn:E; [|discriminate]. intros H. inversion H; subst.
      apply split_at_byte_length in E. lia.
    - destruct (is_digit c).
      + destruct (split_at_byte ch_colon r) as [[ds r']|] eqn:E; [|discriminate].
        destruct (parse_usize (c :: ds)); [|discriminate].
        destruct (_ <=? _); [|discriminate]. intros H. inversion H; subst.
        apply split_at_byte_length in E. pose proof (skipn_length_le (N.to_nat n) r'). lia.
      + destruct ((c =? ch_l) || (c =? ch_d) || (c =? ch_e)); [|discriminate]. intros H. inversion H; subst. lia.
  Qed.

  Lemma safe_tok : safe tok.
  Proof.
    intros st st' r [H1 [H2 [H3 [H5 H4]]]] H. pose proof H as H0. apply tok_spec in H as [Hm [Hl Hr]].
    pose proof (lsafe_alloc _ _ _ H1) as Ha.
    assert (Hlog : Forall (fun a => a <= L) (s_log st')).
    { destruct Hl as [-> | [n [Hn ->]]]; [exact H3|]. apply Forall_app. split; [exact H3|].
      constructor; [|constructor]. destruct (Ha n Hn) as [s' [_ Hle]]. lia. }
    destruct r as [t| |].
    - destruct Hr as [Hn _]. unfold Inv. repeat split.
      + eapply lsafe_next; eassumption.
      + apply lnext_length in Hn. lia.
      + exact Hlog.
      + destruct Hl as [-> | [n [Hal ->]]].
        * apply lnext_length in Hn. lia.
        * destruct (Ha n Hal) as [s' [Hs' Hle]]. rewrite Hn in Hs'. inversion Hs'; subst s'.
          rewrite list_sum_app. cbn [list_sum fold_right]. lia.
      + lia.
    - unfold Inv. rewrite Hr. repeat split; try assumption; [|lia].
      destruct Hl as [-> | [n [Hal Hlg]]]; [exact H5|].
      exfalso. destruct (Ha n Hal) as [s' [Hs' _]].
      rewrite (tok_fail_alloc _ _ H0) in Hs'; [discriminate|].
      rewrite Hlg. intros E. apply (f_equal (@length N)) in E. rewrite app_length in E. cbn in E. lia.
    - destruct Hr.
  Qed.



  (* ---------------------------------------------------------------- *)
  (* the generic value reader: the library's level follows the balance *)

  Definition dpre (d : nat) (t : token) (s : bytes) : Prop :=
    match token_class t with
    | KOpen => lsafe BND (S d) s
    | _ => lsafe BND d s
    end.

  (* what a successful [tok] does to the level-tracking fact *)
  Lemma tok_level st st' t d : tok st = (st', Ok t) -> lsafe BND d (s_in st) ->
    match token_class t with
    | KOpen => lsafe BND (S d) (s_in st')
    | KClose => lsafe BND (pred d) (s_in st')
    | KScalar => lsafe BND d (s_in st')
    end.
  Proof.
    intros H Hs. apply tok_spec in H as [_ [_ [Hn [c [rest [Es Hk]]]]]].
    rewrite Es in *.
    inversion Hs as [d0 s0 Hstop Ha Hd | d0 c0 r0 Hc Hd Hr | d0 r0 Hd Hr | d0 c0 r0 s'' Hc Ha Hn' Hd Hr]; subst.
    - congruence.
    - destruct (token_class t).
      + destruct Hk as [_ ->]. exact Hr.
      + destruct Hk as [-> _]. destruct Hc; discriminate.
      + apply scalar_not_struct in Hk. destruct Hc; subst; tauto.
    - destruct (token_class t).
      + destruct Hk as [[E|E] _]; discriminate.
      + destruct Hk as [_ ->]. exact Hr.
      + apply scalar_not_struct in Hk. tauto.
    - pose proof (scalar_not_struct _ Hc) as [N1 [N2 N3]].
      destruct (token_class t).
      + destruct Hk as [[E|E] _]; congruence.
      + destruct Hk as [E _]; congruence.
      + rewrite Hn' in Hn. inversion Hn; subst. exact Hr.
  Qed.

  Lemma any_safe_all : forall fuel,
    (forall d t st st' r, any_from fuel d t st = (st', r) -> Inv st -> dpre d t (s_in st) ->
        Inv st' /\ (forall c, r = Ok c -> lsafe BND d (s_in st'))) /\
    (forall d st st' r, any_list fuel d st = (st', r) -> Inv st -> lsafe BND d (s_in st) ->
        Inv st' /\ (forall l, r = Ok l -> lsafe BND (pred d) (s_in st'))) /\
    (forall d st st' r, any_map fuel d st = (st', r) -> Inv st -> lsafe BND d (s_in st) ->
        Inv st' /\ (forall l, r = Ok l -> lsafe BND (pred d) (s_in st'))).
  Proof.
    induction fuel as [|fuel [IHf [IHl IHm]]].
    { split; [|split]; intros; cbn in *;
        match goal with H : oof _ = _ |- _ => inversion H; subst end; (split; [assumption | intros; discriminate]). }
    split; [|split].
    - (* any_from *)
      intros d t st st' r H HI Hpre. cbn [any_from] in H.
      destruct t as [z|s| | |]; unfold dpre in Hpre; cbn [token_class] in Hpre.
      + inversion H; subst. split; [exact HI|]. intros; exact Hpre.
      + inversion H; subst. split; [exact HI|]. intros; exact Hpre.
      + unfold bind, enter in H.
        set (st1 := mkSt (s_in st) (s_log st) (Nat.max (s_max st) (S d))) in *.
        assert (HI1 : Inv st1).
        { destruct HI as [H1 [H2 [H3 [H5 H4]]]]. unfold Inv, st1. cbn [s_in s_log s_max]. repeat split; try assumption.
          pose proof (lsafe_le _ _ _ Hpre). lia. }
        destruct (any_list fuel (S d) st1) as [s2 [l| |]] eqn:E.
        * destruct (IHl _ _ _ _ E HI1 Hpre) as [HI2 Hd2]. inversion H; subst. split; [exact HI2|].
          intros c _. exact (Hd2 l eq_refl).
        * destruct (IHl _ _ _ _ E HI1 Hpre) as [HI2 _]. inversion H; subst. split; [exact HI2 | discriminate].
        * destruct (IHl _ _ _ _ E HI1 Hpre) as [HI2 _]. inversion H; subst. split; [exact HI2 | discriminate].
      + unfold bind, enter in H.
        set (st1 := mkSt (s_in st) (s_log st) (Nat.max (s_max st) (S d))) in *.
        assert (HI1 : Inv st1).
        { destruct HI as [H1 [H2 [H3 [H5 H4]]]]. unfold Inv, st1. cbn [s_in s_log s_max]. repeat split; try assumption.
          pose proof (lsafe_le _ _ _ Hpre). lia. }
        destruct (any_map fuel (S d) st1) as [s2 [l| |]] eqn:E.
        * destruct (IHm _ _ _ _ E HI1 Hpre) as [HI2 Hd2]. inversion H; subst. split; [exact HI2|].
          intros c _. exact (Hd2 l eq_refl).
        * destruct (IHm _ _ _ _ E HI1 Hpre) as [HI2 _]. inversion H; subst. split; [exact HI2 | discriminate].
        * destruct (IHm _ _ _ _ E HI1 Hpre) as [HI2 _]. inversion H; subst. split; [exact HI2 | discriminate].
      + inversion H; subst. split; [exact HI | discriminate].
    - (* any_list *)
      intros d st st' r H HI Hd. cbn [any_list] in H. unfold bind at 1 in H.
      destruct (tok st) as [s1 [t| |]] eqn:Et.
      2,3: inversion H; subst; split; [eapply safe_tok; eassumption | discriminate].
      pose proof (safe_tok _ _ _ HI Et) as HI1. pose proof (tok_level _ _ _ _ Et Hd) as Hl.
      assert (Hgo : forall (Hne : t <> TEnd),
                 (x <- any_from fuel d t ;; xs <- any_list fuel d ;; ret (x :: xs)) s1 = (st', r) ->
                 Inv st' /\ (forall l, r = Ok l -> lsafe BND (pred d) (s_in st'))).
      { intros Hne H'. unfold bind at 1 in H'.
        assert (Hpre : dpre d t (s_in s1)).
        { unfold dpre. destruct t; cbn [token_class] in *; try exact Hl. congruence. }
        destruct (any_from fuel d t s1) as [s2 [x| |]] eqn:Ea.
        2,3: destruct (IHf _ _ _ _ _ Ea HI1 Hpre) as [HI2 _]; inversion H'; subst; split; [exact HI2 | discriminate].
        destruct (IHf _ _ _ _ _ Ea HI1 Hpre) as [HI2 Hd2]. specialize (Hd2 x eq_refl).
        unfold bind in H'. destruct (any_list fuel d s2) as [s3 [xs| |]] eqn:El.
        - destruct (IHl _ _ _ _ El HI2 Hd2) as [HI3 Hd3]. inversion H'; subst. split; [exact HI3|].
          intros l _. exact (Hd3 xs eq_refl).
        - destruct (IHl _ _ _ _ El HI2 Hd2) as [HI3 _]. inversion H'; subst. split; [exact HI3 | discriminate].
        - destruct (IHl _ _ _ _ El HI2 Hd2) as [HI3 _]. inversion H'; subst. split; [exact HI3 | discriminate]. }
      destruct t; try (apply Hgo; [discriminate | exact H]).
      inversion H; subst. split; [exact HI1|]. intros l _. exact Hl.
    - (* any_map *)
      intros d st st' r H HI Hd. cbn [any_map] in H. unfold bind at 1 in H.
      destruct (tok st) as [s1 [t| |]] eqn:Et.
      2,3: inversion H; subst; split; [eapply safe_tok; eassumption | discriminate].
      pose proof (safe_tok _ _ _ HI Et) as HI1. pose proof (tok_level _ _ _ _ Et Hd) as Hl.
      assert (Hgo : forall (Hne : t <> TEnd),
                 (k <- any_from fuel d t ;; tv <- tok ;; v <- any_from fuel d tv ;; xs <- any_map fuel d ;;
                  ret ((k, v) :: xs)) s1 = (st', r) ->
                 Inv st' /\ (forall l, r = Ok l -> lsafe BND (pred d) (s_in st'))).
      { intros Hne H'. unfold bind at 1 in H'.
        assert (Hpre : dpre d t (s_in s1)).
        { unfold dpre. destruct t; cbn [token_class] in *; try exact Hl. congruence. }
        destruct (any_from fuel d t s1) as [s2 [x| |]] eqn:Ea.
        2,3: destruct (IHf _ _ _ _ _ Ea HI1 Hpre) as [HI2 _]; inversion H'; subst; split; [exact HI2 | discriminate].
        destruct (IHf _ _ _ _ _ Ea HI1 Hpre) as [HI2 Hd2]. specialize (Hd2 x eq_refl).
        unfold bind at 1 in H'. destruct (tok s2) as [s3 [tv| |]] eqn:Et2.
        2,3: inversion H'; subst; split; [eapply safe_tok; eassumption | discriminate].
        pose proof (safe_tok _ _ _ HI2 Et2) as HI3. pose proof (tok_level _ _ _ _ Et2 Hd2) as Hl2.
        unfold bind at 1 in H'.
        destruct tv as [z|s| | |].
        5: { (* the value position holds `e`: any_from fails *)
             destruct fuel; cbn in H'; inversion H'; subst; split; try exact HI3; discriminate. }
        all: cbn [token_class] in Hl2.
        all: match type of H' with context [any_from ?f ?dd ?tv ?ss] =>
               assert (Hpre2 : dpre dd tv (s_in ss)) by (unfold dpre; cbn [token_class]; exact Hl2) end.
        all: match type of H' with context [any_from ?f ?dd ?tv ?ss] =>
               destruct (any_from f dd tv ss) as [s4 [v| |]] eqn:Ea2 end.
        all: try (destruct (IHf _ _ _ _ _ Ea2 HI3 Hpre2) as [HI4 _]; inversion H'; subst; split; [exact HI4 | discriminate]).
        all: destruct (IHf _ _ _ _ _ Ea2 HI3 Hpre2) as [HI4 Hd4]; specialize (Hd4 v eq_refl).
        all: unfold bind in H'; destruct (any_map fuel d s4) as [s5 [xs| |]] eqn:Em.
        all: destruct (IHm _ _ _ _ Em HI4 Hd4) as [HI5 Hd5]; inversion H'; subst; split; try exact HI5; try discriminate.
        all: intros l _; exact (Hd5 xs eq_refl). }
      destruct t; try (apply Hgo; [discriminate | exact H]).
      inversion H; subst. split; [exact HI1|]. intros l _. exact Hl.
  Qed.

  (* from the invariant alone: at any boundary the balance can still rise by MAX_DEPTH, so a
     value read with at most 2 containers open stays within the bound *)
  Lemma inv_level st d : Inv st -> (d <= 2)%nat -> lsafe BND d (s_in st).
  Proof.
    intros [H _] Hd. eapply lsafe_weaken with (B := (MAXD + d)%nat); [|unfold BND, MAXD; lia].
    apply (lsafe_shift _ _ _ H d).
  Qed.

  Lemma safe_any F d : (d <= 2)%nat -> safe (any F d).
  Proof.
    intros Hd st st' r HI H. unfold any, bind in H.
    destruct (tok st) as [s1 [t| |]] eqn:Et.
    2,3: inversion H; subst; eapply safe_tok; eassumption.
    pose proof (safe_tok _ _ _ HI Et) as HI1. pose proof (tok_level _ _ _ _ Et (inv_level st d HI Hd)) as Hl.
    destruct t as [z|s0| | |].
    5: { destruct F; cbn in H; inversion H; subst; exact HI1. }
    all: destruct (proj1 (any_safe_all F) d _ s1 st' r H HI1) as [HI2 _]; [|exact HI2].
    all: unfold dpre; cbn [token_class] in *; exact Hl.
  Qed.

  (* [tok] followed by [any_from] on the token just read *)
  Lemma safe_tok_any_from {C} F d (k : content -> M C) :
    (d <= 2)%nat -> (forall c, safe (k c)) -> safe (t <- tok ;; c <- any_from F d t ;; k c).
  Proof.
    intros Hd Hk. eapply safe_ext with (m := c <- any F d ;; k c).
    - intros s. unfold any, bind. destruct (tok s) as [s' [t| |]]; reflexivity.
    - apply safe_bind; [apply safe_any; exact Hd | exact Hk].
  Qed.

  (* ---------------------------------------------------------------- *)
  (* the structured part of the decoder                               *)

  (* a parser applied to the token that [tok] has just produced *)
  Definition psafe {A} (p : token -> M A) : Prop :=
    forall st s1 t, Inv st -> tok st = (s1, Ok t) -> forall st' r, p t s1 = (st', r) -> Inv st'.

  Lemma psafe_of_safe {A} (p : token -> M A) : (forall t, safe (p t)) -> psafe p.
  Proof. intros H st s1 t HI Et st' r Hr. eapply H; [eapply safe_tok; eassumption | exact Hr]. Qed.

  Lemma safe_tok_then {A C} (p : token -> M A) (k : A -> M C) :
    psafe p -> (forall a, safe (k a)) -> safe (t <- tok ;; x <- p t ;; k x).
  Proof.
    intros Hp Hk st st' r HI H. unfold bind at 1 in H.
    destruct (tok st) as [s1 [t| |]] eqn:Et.
    2,3: inversion H; subst; eapply safe_tok; eassumption.
    unfold bind in H. destruct (p t s1) as [s2 [a| |]] eqn:Ep.
    - eapply Hk; [eapply Hp; eassumption | exact H].
    - inversion H; subst. eapply Hp; eassumption.
    - inversion H; subst. eapply Hp; eassumption.
  Qed.

  Lemma safe_tok_p {A} (p : token -> M A) : psafe p -> safe (t <- tok ;; p t).
  Proof.
    intros Hp st st' r HI H. unfold bind in H. destruct (tok st) as [s1 [t| |]] eqn:Et.
    - eapply Hp; eassumption.
    - inversion H; subst. eapply safe_tok; eassumption.
    - inversion H; subst. eapply safe_tok; eassumption.
  Qed.

  Lemma psafe_any_from F d : (d <= 2)%nat -> psafe (any_from F d).
  Proof.
    intros Hd st s1 t HI Et st' r H.
    pose proof (safe_tok _ _ _ HI Et) as HI1. pose proof (tok_level _ _ _ _ Et (inv_level st d HI Hd)) as Hl.
    destruct t as [z|s0| | |].
    5: { destruct F; cbn in H; inversion H; subst; exact HI1. }
    all: destruct (proj1 (any_safe_all F) d _ s1 st' r H HI1) as [HI2 _]; [|exact HI2].
    all: unfold dpre; cbn [token_class] in *; exact Hl.
  Qed.

  Lemma safe_u8_loop : forall fuel, safe (u8_loop fuel).
  Proof.
    induction fuel as [|fuel IH]; [apply safe_oof|]. cbn [u8_loop].
    apply safe_bind; [apply safe_tok|]. intros t. destruct t; try apply safe_fail; [|apply safe_ret].
    destruct (_ && _); [|apply safe_fail]. apply safe_bind; [exact IH | intros; apply safe_ret].
  Qed.

  Lemma safe_bytes_from F d t : (S d <= BND)%nat -> safe (bytes_from F d t).
  Proof.
    intros Hd. destruct t; cbn [bytes_from]; try apply safe_fail; [apply safe_ret|].
    apply safe_bind; [apply safe_enter; exact Hd | intros; apply safe_u8_loop].
  Qed.

  Lemma safe_id_from F d t : (S d <= BND)%nat -> safe (id_from F d t).
  Proof. intros Hd. apply safe_bind; [apply safe_bytes_from; exact Hd | intros; apply safe_lift]. Qed.

  Lemma safe_str_from t : safe (str_from t).
  Proof. destruct t; cbn [str_from]; try apply safe_fail. destruct (utf8_valid s); [apply safe_ret | apply safe_fail]. Qed.

  Lemma safe_enum_from {A} (vs : list (bytes * A)) t : safe (enum_from vs t).
  Proof.
    assert (Hp : forall s, safe (match find (fun kv => bytes_eqb s (fst kv)) vs with Some kv => ret (snd kv) | None => fail end)).
    { intros s. destruct (find (fun kv => bytes_eqb s (fst kv)) vs); [apply safe_ret | apply safe_fail]. }
    destruct t; cbn [enum_from]; try apply safe_fail; [apply Hp|].
    apply safe_bind; [apply safe_tok|]. intros t'. destruct t'; try apply safe_fail. apply Hp.
  Qed.

  Lemma safe_values_loop F d : (S d <= BND)%nat -> forall fuel, safe (values_loop fuel F d).
  Proof.
    intros Hd. induction fuel as [|fuel IH]; [apply safe_oof|]. cbn [values_loop].
    apply safe_bind; [apply safe_tok|]. intros t.
    assert (Hgo : safe (s <- bytes_from F d t ;; a <- lift (dec_addr s) ;; r <- values_loop fuel F d ;; ret (a :: r))).
    { apply safe_bind; [apply safe_bytes_from; exact Hd|]. intros s.
      apply safe_bind; [apply safe_lift|]. intros a. apply safe_bind; [exact IH | intros; apply safe_ret]. }
    destruct t; try exact Hgo. apply safe_ret.
  Qed.

  Lemma safe_values_from F d t : (S (S d) <= BND)%nat -> safe (values_from F d t).
  Proof.
    intros Hd. destruct t; cbn [values_from]; try apply safe_fail.
    apply safe_bind; [apply safe_enter; lia | intros; apply safe_values_loop; exact Hd].
  Qed.

  Lemma safe_nodes_from v6 F d t : (S d <= BND)%nat -> safe (nodes_from v6 F d t).
  Proof. intros Hd. apply safe_bind; [apply safe_bytes_from; exact Hd | intros; apply safe_lift]. Qed.

  Lemma four_le_bnd : (4 <= BND)%nat.
  Proof. unfold BND, max_depth. change Consts.bencode_max_depth_nat with 32%nat. lia. Qed.

  Lemma safe_resp_map_loop F : forall fuel acc, safe (resp_map_loop fuel F 2 acc).
  Proof.
    pose proof four_le_bnd as H4.
    induction fuel as [|fuel IH]; intros acc; [apply safe_oof|]. cbn [resp_map_loop].
    apply safe_bind; [apply safe_tok|]. intros tk.
    assert (Hgo : safe (k <- str_from tk ;;
      if bytes_eqb k k_id then
        if is_some (ra_id acc) then fail
        else t <- tok ;; x <- id_from F 2 t ;;
             resp_map_loop fuel F 2 (mkRA (Some x) (ra_values acc) (ra_nodes acc) (ra_nodes6 acc) (ra_token acc))
      else if bytes_eqb k k_values then
        if is_some (ra_values acc) then fail
        else t <- tok ;; x <- values_from F 2 t ;;
             resp_map_loop fuel F 2 (mkRA (ra_id acc) (Some x) (ra_nodes acc) (ra_nodes6 acc) (ra_token acc))
      else if bytes_eqb k k_nodes then
        if is_some (ra_nodes acc) then fail
        else t <- tok ;; x <- nodes_from false F 2 t ;;
             resp_map_loop fuel F 2 (mkRA (ra_id acc) (ra_values acc) (Some x) (ra_nodes6 acc) (ra_token acc))
      else if bytes_eqb k k_nodes6 then
        if is_some (ra_nodes6 acc) then fail
        else t <- tok ;; x <- nodes_from true F 2 t ;;
             resp_map_loop fuel F 2 (mkRA (ra_id acc) (ra_values acc) (ra_nodes acc) (Some x) (ra_token acc))
      else if bytes_eqb k k_token then
        if is_some (ra_token acc) then fail
        else t <- tok ;; x <- bytes_from F 2 t ;;
             resp_map_loop fuel F 2 (mkRA (ra_id acc) (ra_values acc) (ra_nodes acc) (ra_nodes6 acc) (Some x))
      else any F 2 ;;; resp_map_loop fuel F 2 acc)).
    { apply safe_bind; [apply safe_str_from|]. intros k.
      repeat match goal with
             | |- safe (if ?b then _ else _) => destruct b
             | |- safe fail => apply safe_fail
             end.
      - apply safe_tok_then; [apply psafe_of_safe; intros; apply safe_id_from; lia | intros; apply IH].
      - apply safe_tok_then; [apply psafe_of_safe; intros; apply safe_values_from; lia | intros; apply IH].
      - apply safe_tok_then; [apply psafe_of_safe; intros; apply safe_nodes_from; lia | intros; apply IH].
      - apply safe_tok_then; [apply psafe_of_safe; intros; apply safe_nodes_from; lia | intros; apply IH].
      - apply safe_tok_then; [apply psafe_of_safe; intros; apply safe_bytes_from; lia | intros; apply IH].
      - apply safe_bind; [apply safe_any; lia | intros; apply IH]. }
    destruct tk; try exact Hgo; try apply safe_ret.
  Qed.

  Lemma safe_resp_finish acc : safe (resp_finish acc).
  Proof. unfold resp_finish. destruct (ra_id acc); [apply safe_ret | apply safe_fail]. Qed.

  Lemma safe_resp_seq F : safe (resp_seq F 2).
  Proof.
    pose proof four_le_bnd as H4. unfold resp_seq.
    apply safe_bind; [apply safe_tok|]. intros t1.
    assert (Hgo : safe (x <- id_from F 2 t1 ;;
      t2 <- tok ;; vs <- (match t2 with TEnd => ret [] | _ => values_from F 2 t2 end) ;;
      t3 <- tok ;; n4 <- (match t3 with TEnd => ret [] | _ => nodes_from false F 2 t3 end) ;;
      t4 <- tok ;; n6 <- (match t4 with TEnd => ret [] | _ => nodes_from true F 2 t4 end) ;;
      t5 <- tok ;; tk <- (match t5 with TEnd => ret None | _ => s <- bytes_from F 2 t5 ;; ret (Some s) end) ;;
      ret (mkResp x vs n4 n6 tk))).
    { apply safe_bind; [apply safe_id_from; lia|]. intros x.
      apply safe_bind; [apply safe_tok|]. intros t2.
      apply safe_bind; [destruct t2; try apply safe_ret; apply safe_values_from; lia|]. intros vs.
      apply safe_bind; [apply safe_tok|]. intros t3.
      apply safe_bind; [destruct t3; try apply safe_ret; apply safe_nodes_from; lia|]. intros n4.
      apply safe_bind; [apply safe_tok|]. intros t4.
      apply safe_bind; [destruct t4; try apply safe_ret; apply safe_nodes_from; lia|]. intros n6.
      apply safe_bind; [apply safe_tok|]. intros t5.
      apply safe_bind; [|intros; apply safe_ret].
      destruct t5; try apply safe_ret;
        (apply safe_bind; [apply safe_bytes_from; lia | intros; apply safe_ret]). }
    destruct t1; try exact Hgo; try apply safe_fail.
  Qed.

  Lemma safe_resp_from F t : safe (resp_from F 1 t).
  Proof.
    pose proof four_le_bnd as H4.
    destruct t; cbn [resp_from]; try apply safe_fail.
    - apply safe_bind; [apply safe_enter; lia|]. intros _. apply safe_resp_seq.
    - apply safe_bind; [apply safe_enter; lia|]. intros _.
      apply safe_bind; [apply safe_resp_map_loop | intros; apply safe_resp_finish].
  Qed.

  Lemma safe_err_from F t : safe (err_from F 1 t).
  Proof.
    pose proof four_le_bnd as H4.
    destruct t; cbn [err_from]; try apply safe_fail.
    apply safe_bind; [apply safe_enter; lia|]. intros _.
    apply safe_bind; [apply safe_tok|]. intros t1.
    apply safe_bind.
    { destruct t1; try apply safe_fail. destruct (_ && _); [apply safe_ret | apply safe_fail]. }
    intros c. apply safe_bind; [apply safe_tok|]. intros t2.
    apply safe_bind; [destruct t2; try apply safe_fail; apply safe_str_from|]. intros m.
    (* the third element, if any, is read as a generic value *)
    eapply safe_ext with (m := t3 <- tok ;; x <- (match t3 with TEnd => ret None | _ => y <- any_from F 2 t3 ;; ret (Some y) end) ;;
                               match x with None => ret (c, m) | Some _ => fail end).
    { intros s. unfold bind. destruct (tok s) as [s' [t3| |]]; try reflexivity.
      destruct t3; try reflexivity; destruct (any_from F 2 _ s') as [s'' [y| |]]; reflexivity. }
    apply safe_tok_then.
    - intros st s1 t3 HI Et st' r H.
      destruct t3.
      5: { inversion H; subst. eapply safe_tok; eassumption. }
      all: unfold bind in H;
        match type of H with context [any_from ?ff 2 ?tt ?ss] =>
          destruct (any_from ff 2 tt ss) as [s2 [y| |]] eqn:Ea end;
        inversion H; subst; eapply (psafe_any_from F 2 ltac:(lia)); eassumption.
    - intros x. destruct x; [apply safe_fail | apply safe_ret].
  Qed.

  Lemma psafe_request_from F : psafe (request_from F 1).
  Proof.
    intros st s1 t HI Et st' r H. unfold request_from, bind in H.
    destruct (any_from F 1 t s1) as [s2 [c| |]] eqn:Ea.
    - assert (HI2 : Inv s2) by (eapply (psafe_any_from F 1 ltac:(lia)); eassumption).
      eapply safe_lift; eassumption.
    - inversion H; subst. eapply (psafe_any_from F 1 ltac:(lia)); eassumption.
    - inversion H; subst. eapply (psafe_any_from F 1 ltac:(lia)); eassumption.
  Qed.

  Lemma safe_raw_map_loop F : forall fuel acc, safe (raw_map_loop fuel F acc).
  Proof.
    pose proof four_le_bnd as H4.
    induction fuel as [|fuel IH]; intros acc; [apply safe_oof|]. cbn [raw_map_loop].
    apply safe_bind; [apply safe_tok|]. intros tk.
    assert (Hgo : safe (k <- str_from tk ;;
      if bytes_eqb k k_t then
        if is_some (w_t acc) then fail
        else t <- tok ;; x <- bytes_from F 1 t ;;
             raw_map_loop fuel F (mkRaw (Some x) (w_y acc) (w_q acc) (w_a acc) (w_r acc) (w_e acc))
      else if bytes_eqb k k_y then
        if is_some (w_y acc) then fail
        else t <- tok ;; x <- enum_from mtype_variants t ;;
             raw_map_loop fuel F (mkRaw (w_t acc) (Some x) (w_q acc) (w_a acc) (w_r acc) (w_e acc))
      else if bytes_eqb k k_q then
        if is_some (w_q acc) then fail
        else t <- tok ;; x <- enum_from rtype_variants t ;;
             raw_map_loop fuel F (mkRaw (w_t acc) (w_y acc) (Some x) (w_a acc) (w_r acc) (w_e acc))
      else if bytes_eqb k k_a then
        if is_some (w_a acc) then fail
        else t <- tok ;; x <- request_from F 1 t ;;
             raw_map_loop fuel F (mkRaw (w_t acc) (w_y acc) (w_q acc) (Some x) (w_r acc) (w_e acc))
      else if bytes_eqb k k_r then
        if is_some (w_r acc) then fail
        else t <- tok ;; x <- resp_from F 1 t ;;
             raw_map_loop fuel F (mkRaw (w_t acc) (w_y acc) (w_q acc) (w_a acc) (Some x) (w_e acc))
      else if bytes_eqb k k_e then
        if is_some (w_e acc) then fail
        else t <- tok ;; x <- err_from F 1 t ;;
             raw_map_loop fuel F (mkRaw (w_t acc) (w_y acc) (w_q acc) (w_a acc) (w_r acc) (Some x))
      else any F 1 ;;; raw_map_loop fuel F acc)).
    { apply safe_bind; [apply safe_str_from|]. intros k.
      repeat match goal with
             | |- safe (if ?b then _ else _) => destruct b
             | |- safe fail => apply safe_fail
             end.
      - apply safe_tok_then; [apply psafe_of_safe; intros; apply safe_bytes_from; lia | intros; apply IH].
      - apply safe_tok_then; [apply psafe_of_safe; intros; apply safe_enum_from | intros; apply IH].
      - apply safe_tok_then; [apply psafe_of_safe; intros; apply safe_enum_from | intros; apply IH].
      - apply safe_tok_then; [apply psafe_request_from | intros; apply IH].
      - apply safe_tok_then; [apply psafe_of_safe; intros; apply safe_resp_from | intros; apply IH].
      - apply safe_tok_then; [apply psafe_of_safe; intros; apply safe_err_from | intros; apply IH].
      - apply safe_bind; [apply safe_any; lia | intros; apply IH]. }
    destruct tk; try exact Hgo; try apply safe_ret.
  Qed.

  Lemma safe_elem {A} (p : token -> M A) : psafe p -> safe (elem p).
  Proof.
    intros Hp. unfold elem. apply safe_tok_p.
    intros st s1 t HI Et st' r H. destruct t; try (eapply Hp; eassumption).
    inversion H; subst. eapply safe_tok; eassumption.
  Qed.

  Lemma safe_raw_seq F : safe (raw_seq F).
  Proof.
    pose proof four_le_bnd as H4. unfold raw_seq.
    apply safe_bind; [apply safe_elem; apply psafe_of_safe; intros; apply safe_bytes_from; lia|]. intros t.
    apply safe_bind; [apply safe_elem; apply psafe_of_safe; intros; apply safe_enum_from|]. intros y.
    apply safe_bind; [apply safe_elem; apply psafe_of_safe; intros; apply safe_enum_from|]. intros q.
    apply safe_bind; [apply safe_elem; apply psafe_request_from|]. intros a.
    apply safe_bind; [apply safe_elem; apply psafe_of_safe; intros; apply safe_resp_from|]. intros r.
    apply safe_bind; [apply safe_elem; apply psafe_of_safe; intros; apply safe_err_from|]. intros e.
    apply safe_ret.
  Qed.

  Theorem safe_message F : safe (message F).
  Proof.
    pose proof four_le_bnd as H4. unfold message.
    apply safe_bind; [apply safe_tok|]. intros t. destruct t; try apply safe_fail.
    - apply safe_bind; [apply safe_enter; lia|]. intros _.
      apply safe_bind; [apply safe_raw_seq | intros; apply safe_lift].
    - apply safe_bind; [apply safe_enter; lia|]. intros _.
      apply safe_bind; [apply safe_raw_map_loop | intros; apply safe_lift].
  Qed.
End Safety.

(* ------------------------------------------------------------------ *)
(* what precheck establishes                                          *)

Lemma firstn_app_plus {A} (a b : list A) n : firstn (length a + n) (a ++ b) = a ++ firstn n b.
Proof. apply firstn_app_2. Qed.

Lemma lsafe_nil B d : (d <= B)%nat -> lsafe B d [].
Proof. intros H. apply ls_stop; [reflexivity | intros n Hn; discriminate | exact H]. Qed.

Lemma lnext_int ds x : Forall (fun c => c <> ch_e) ds -> lnext (ch_i :: ds ++ ch_e :: x) = Some x.
Proof. intros H. cbn [lnext]. rewrite N.eqb_refl, split_at_byte_app by exact H. reflexivity. Qed.

Lemma lnext_str c ds len content x :
  (c =? ch_i) = false -> is_digit c = true -> Forall (fun c => c <> ch_colon) ds ->
  parse_usize (c :: ds) = Some len -> length content = N.to_nat len ->
  lnext (c :: ds ++ ch_colon :: content ++ x) = Some x /\ lalloc (c :: ds ++ ch_colon :: content ++ x) = Some len.
Proof.
  intros Hi Hd Hds Hp Hl. cbn [lnext lalloc]. rewrite Hi, Hd, split_at_byte_app by exact Hds. rewrite Hp.
  rewrite app_length. replace (len <=? N.of_nat (length content + length x)) with true by lia.
  rewrite <- Hl, skipn_app, Nat.sub_diag, skipn_all. cbn [skipn app]. split; reflexivity.
Qed.

Lemma scan_lsafe : forall fuel d s k,
  (length s < fuel)%nat -> (d <= max_depth)%nat -> scan fuel d s = Some k -> lsafe max_depth d (firstn k s).
Proof.
  induction fuel as [|fuel IH]; intros d s k Hf Hd H; [lia|].
  destruct s as [|c r].
  { cbn in H. inversion H; subst. apply lsafe_nil. exact Hd. }
  cbn [scan] in H. cbn [length] in Hf.
  (* the continuation [after] *)
  assert (Hafter : forall tokb s' d' k0,
            c :: r = tokb ++ s' -> length tokb = k0 -> (d' <= max_depth)%nat -> (length s' < fuel)%nat ->
            (forall x, lsafe max_depth d' x -> lsafe max_depth d (tokb ++ x)) ->
            (if Nat.eqb d' 0 then Some k0 else option_map (fun n => (k0 + n)%nat) (scan fuel d' s')) = Some k ->
            lsafe max_depth d (firstn k (c :: r))).
  { intros tokb s' d' k0 Es Hk0 Hd' Hfs Hstep Hres. rewrite Es. subst k0.
    destruct (Nat.eqb d' 0) eqn:E0.
    - inversion Hres; subst k. replace (length tokb) with (length tokb + 0)%nat by lia.
      rewrite firstn_app_plus. cbn [firstn]. apply Hstep. apply lsafe_nil. exact Hd'.
    - destruct (scan fuel d' s') as [n|] eqn:En; [|discriminate]. cbn in Hres. inversion Hres; subst k.
      rewrite firstn_app_plus. apply Hstep. eapply IH; eassumption. }
  destruct (c =? ch_i) eqn:Ei.
  - apply N.eqb_eq in Ei. subst c.
    destruct (split_at_byte ch_e r) as [[ds r']|] eqn:Es.
    + apply split_at_byte_spec in Es as [-> Hds].
      apply (Hafter (ch_i :: ds ++ [ch_e]) r' d (S (S (length ds)))).
      * cbn [app]. rewrite <- app_assoc. reflexivity.
      * cbn [length]. rewrite app_length. cbn [length]. lia.
      * exact Hd.
      * rewrite app_length in Hf. cbn [length] in Hf. lia.
      * intros x Hx. cbn [app]. rewrite <- app_assoc. cbn [app].
        eapply ls_other; [left; reflexivity | intros n Hn; discriminate | apply lnext_int; exact Hds | lia | exact Hx].
      * exact H.
    + inversion H; subst k. rewrite firstn_all2 by (cbn [length]; lia).
      apply ls_stop; [cbn [lnext]; rewrite N.eqb_refl, Es; reflexivity | intros n Hn; discriminate | exact Hd].
  - destruct (is_digit c) eqn:Edg.
    + destruct (split_at_byte ch_colon r) as [[ds r']|] eqn:Es.
      2: { inversion H; subst k. rewrite firstn_all2 by (cbn [length]; lia).
           apply ls_stop; [cbn [lnext]; rewrite Ei, Edg, Es; reflexivity
                          | intros n Hn; cbn [lalloc] in Hn; rewrite Ei, Edg, Es in Hn; discriminate | exact Hd]. }
      destruct (parse_usize (c :: ds)) as [len|] eqn:Ep.
      2: { inversion H; subst k. rewrite firstn_all2 by (cbn [length]; lia).
           apply ls_stop; [cbn [lnext]; rewrite Ei, Edg, Es, Ep; reflexivity
                          | intros n Hn; cbn [lalloc] in Hn; rewrite Ei, Edg, Es, Ep in Hn; discriminate | exact Hd]. }
      destruct (N.of_nat (length r') <? len) eqn:El; [discriminate|].
      apply split_at_byte_spec in Es as [-> Hds].
      assert (Hlen : length (firstn (N.to_nat len) r') = N.to_nat len) by (apply firstn_length_le; lia).
      apply (Hafter (c :: ds ++ ch_colon :: firstn (N.to_nat len) r') (skipn (N.to_nat len) r') d
                    (S (S (length ds)) + N.to_nat len)%nat).
      * cbn [app]. rewrite <- app_assoc. cbn [app]. rewrite firstn_skipn. reflexivity.
      * cbn [length]. rewrite app_length. cbn [length]. rewrite Hlen. lia.
      * exact Hd.
      * rewrite skipn_length. rewrite app_length in Hf. cbn [length] in Hf. lia.
      * intros x Hx. cbn [app]. rewrite <- app_assoc. cbn [app].
        destruct (lnext_str c ds len (firstn (N.to_nat len) r') x Ei Edg Hds Ep Hlen) as [Hn Ha].
        eapply ls_other; [right; exact Edg | | exact Hn | lia | exact Hx].
        intros n Hn'. rewrite Ha in Hn'. inversion Hn'; subst n. exists x. split; [exact Hn|].
        cbn [length]. rewrite !app_length. cbn [length]. rewrite app_length, Hlen. lia.
      * exact H.
    + destruct ((c =? ch_l) || (c =? ch_d)) eqn:Eo.
      * destruct (Nat.ltb max_depth (S d)) eqn:Elt; [discriminate|]. apply Nat.ltb_ge in Elt.
        apply (Hafter [c] r (S d) 1%nat); try reflexivity; try lia; try exact H.
        intros x Hx. cbn [app]. apply ls_open; [|exact Elt | exact Hx].
        apply orb_true_iff in Eo. destruct Eo as [E|E]; apply N.eqb_eq in E; auto.
      * destruct (c =? ch_e) eqn:Ee.
        -- apply N.eqb_eq in Ee. subst c. destruct d as [|d'].
           ++ inversion H; subst k. cbn [firstn]. apply ls_close; [lia | apply lsafe_nil; cbn; lia].
           ++ apply (Hafter [ch_e] r d' 1%nat); try reflexivity; try lia; try exact H.
              intros x Hx. cbn [app]. apply ls_close; [exact Hd | exact Hx].
        -- inversion H; subst k. cbn [firstn].
           apply orb_false_iff in Eo as [E1 E2].
           apply ls_stop; [cbn [lnext]; rewrite Ei, Edg, E1, E2, Ee; reflexivity
                          | intros n Hn; cbn [lalloc] in Hn; rewrite Ei, Edg in Hn; discriminate | exact Hd].
Qed.

(* ------------------------------------------------------------------ *)
(* the C14 decoder theorems                                           *)

Theorem decode_safe b :
  Forall (fun a => a <= N.of_nat (length b)) (o_allocs (decode_instr b)) /\
  list_sum (o_allocs (decode_instr b)) <= N.of_nat (length b) /\
  (o_depth (decode_instr b) <= max_depth + 2)%nat.
Proof.
  unfold decode_instr. destruct (precheck b) as [e|] eqn:E; [|cbn; split; [constructor | split; lia]].
  unfold lib_decode, run_lib. set (b' := firstn e b).
  destruct (message (fuel_for (length b')) (init_st b')) as [s r] eqn:Er.
  assert (HI : Inv (N.of_nat (length b)) (init_st b')).
  { unfold Inv, init_st. cbn [s_in s_log s_max]. repeat split.
    - unfold b', MAXD. unfold precheck in E. eapply scan_lsafe; [| | exact E]; lia.
    - unfold b'. rewrite firstn_length. lia.
    - constructor.
    - cbn. unfold b'. rewrite firstn_length. lia.
    - lia. }
  pose proof (safe_message (N.of_nat (length b)) _ _ _ _ HI Er) as [_ [_ [Hlog [Hsum Hmax]]]].
  cbn [o_allocs o_depth]. split; [exact Hlog | split; [lia | exact Hmax]].
Qed.

Theorem decode_allocs_bounded b a : In a (o_allocs (decode_instr b)) -> a <= N.of_nat (length b).
Proof. intros H. pose proof (proj1 (decode_safe b)) as Hf. rewrite Forall_forall in Hf. auto. Qed.

Theorem decode_alloc_sum_bounded b : list_sum (o_allocs (decode_instr b)) <= N.of_nat (length b).
Proof. apply decode_safe. Qed.

Theorem decode_depth_bounded b : (o_depth (decode_instr b) <= max_depth + 2)%nat.
Proof. apply decode_safe. Qed.
