From BT Require Import model.Prelude model.Bootstrap gen.Consts proofs.Prelude_Facts.
From Coq Require Import ZifyBool ZifyN ZifyNat.
Open Scope Z_scope.

Lemma xkey_eqb_eq a b : xkey_eqb a b = true <-> a = b.
Proof.
  destruct a as [x s], b as [y t]. unfold xkey_eqb. cbn. rewrite andb_true_iff, addr_eqb_eq, bytes_eqb_eq.
  split; [intros [-> ->]; reflexivity | intros E; inversion E; auto].
Qed.

Lemma register_all_ok tid : forall contacts reg,
  NoDup contacts -> (forall a, In a contacts -> ~ In (a, tid) reg) ->
  exists reg', register_all reg tid contacts = Some reg' /\
    forall k, In k reg' <-> In k reg \/ exists a, In a contacts /\ k = (a, tid).
Proof.
  induction contacts as [|a r IH]; intros reg Hnd Hfresh; cbn [register_all].
  - exists reg. split; [reflexivity|]. intros k. split; [auto | intros [H|[a [[] _]]]; exact H].
  - inversion Hnd; subst. unfold register.
    destruct (existsb (xkey_eqb (a, tid)) reg) eqn:E.
    + exfalso. apply existsb_exists in E as [k [Hk Ek]]. apply xkey_eqb_eq in Ek. subst k.
      apply (Hfresh a); [left; reflexivity | exact Hk].
    + destruct (IH ((a, tid) :: reg) H2) as [reg' [E1 E2]].
      { intros b Hb [Hin|Hin]; [inversion Hin; subst; contradiction | apply (Hfresh b); [right; exact Hb | exact Hin]]. }
      exists reg'. split; [exact E1|]. intros k. rewrite E2. cbn [In]. split.
      * intros [[<-|H]|[b [Hb ->]]]; [right; exists a; split; [left|]; reflexivity | left; exact H | right; exists b; split; [right; exact Hb | reflexivity]].
      * intros [H|[b [[<-|Hb] ->]]]; [left; right; exact H | left; left; reflexivity | right; exists b; split; [exact Hb | reflexivity]].
Qed.

Lemma nodup_app_intro {A} (a b : list A) :
  NoDup a -> NoDup b -> (forall x, In x a -> In x b -> False) -> NoDup (a ++ b).
Proof.
  induction a as [|x a IH]; intros Ha Hb Hd; cbn; [exact Hb|].
  inversion Ha; subst. constructor.
  - intros H. apply in_app_or in H as [H|H]; [contradiction | apply (Hd x); [left; reflexivity | exact H]].
  - apply IH; [assumption | assumption | intros y Hy; apply Hd; right; exact Hy].
Qed.

Lemma union_nodup routers nodes : NoDup routers -> NoDup nodes -> NoDup (union_contacts routers nodes).
Proof.
  intros Hr Hn. unfold union_contacts. apply nodup_app_intro; [exact Hr | apply NoDup_filter, Hn|].
  intros x Hx Hf. apply filter_In in Hf as [_ Hf]. apply negb_true_iff in Hf.
  assert (existsb (addr_eqb x) routers = true); [|congruence].
  apply existsb_exists. exists x. split; [exact Hx | apply addr_eqb_eq; reflexivity].
Qed.

(* the first round of the repaired bootstrap never trips the registry's assertion *)
Theorem first_round_no_panic routers nodes tid reg :
  NoDup routers -> NoDup nodes -> (forall a, ~ In (a, tid) reg) ->
  exists reg', register_all reg tid (union_contacts routers nodes) = Some reg'.
Proof.
  intros Hr Hn Hf. destruct (register_all_ok tid (union_contacts routers nodes) reg (union_nodup _ _ Hr Hn)) as [reg' [E _]].
  - intros a _. apply Hf.
  - exists reg'. exact E.
Qed.

Lemma retry_duration_bounds n : 2000000000 <= retry_duration n <= 512000000000.
Proof.
  unfold retry_duration. change Consts.bootstrap_backoff_base with 2. change Consts.bootstrap_backoff_cap_N with 9%N.
  assert (1 <= Z.of_N (N.min (n + 1) 9) <= 9) by lia.
  set (k := Z.of_N (N.min (n + 1) 9)) in *.
  assert (2 ^ 1 <= 2 ^ k) by (apply Z.pow_le_mono_r; lia).
  assert (2 ^ k <= 2 ^ 9) by (apply Z.pow_le_mono_r; lia).
  change (2 ^ 1) with 2 in *. change (2 ^ 9) with 512 in *. lia.
Qed.
