From BT Require Import model.Prelude model.Token gen.Consts proofs.Prelude_Facts.
From Coq Require Import ZifyBool ZifyN ZifyNat.
Open Scope Z_scope.
Ltac Zify.zify_post_hook ::= Z.div_mod_to_equations.

Definition S600 : Z := 600000000000.     (* 10 min in ns *)

Lemma refresh_secs_val : refresh_secs = 600.
Proof. reflexivity. Qed.

Lemma intervals_spec now lr : intervals now lr = dur_since now lr / S600.
Proof.
  unfold intervals. rewrite refresh_secs_val. unfold S600.
  rewrite Z.div_div by lia. reflexivity.
Qed.

Fixpoint ttimes_from (t0 : Z) (ops : list (Z * top)) : Prop :=
  match ops with
  | [] => True
  | o :: r => t0 <= fst o /\ ttimes_from (fst o) r
  end.

Lemma ip_eqb_refl i : ip_eqb i i = true.
Proof. unfold ip_eqb. rewrite Bool.eqb_reflx, N.eqb_refl. reflexivity. Qed.

Lemma ip_eqb_eq i j : ip_eqb i j = true <-> i = j.
Proof.
  destruct i as [a x], j as [b y]. unfold ip_eqb. cbn.
  rewrite andb_true_iff, Bool.eqb_true_iff, N.eqb_eq. split; [intros [-> ->]; reflexivity | intros E; inversion E; auto].
Qed.

(* the state after any operation at time u is refresh_check u s *)
Lemma tstep_state s o : fst (tstep s o) = refresh_check (fst o) s.
Proof. destruct o as [u [ip|ip k]]; reflexivity. Qed.

(* global invariant after an operation at time u *)
Record G (u : Z) (s : tstore) : Prop := {
  g_lr : last_refresh s <= u;
  g_fresh_c : (curr s < fresh s)%nat;
  g_fresh_l : (last s < fresh s)%nat;
  g_int : dur_since u (last_refresh s) < S600
}.

(* tracking one secret sigma that became current at time r *)
Inductive Trk (sigma : nat) (r : Z) (s : tstore) : Prop :=
| PA : curr s = sigma -> last_refresh s = r -> Trk sigma r s
| PB : last s = sigma -> curr s <> sigma -> r + S600 <= last_refresh s < r + 2 * S600 -> Trk sigma r s
| PD : curr s <> sigma -> last s <> sigma -> Trk sigma r s.

Definition LiveT (sigma : nat) (s : tstore) : Prop := curr s = sigma \/ last s = sigma.

Lemma refresh_G u u' s : last_refresh s <= u -> (curr s < fresh s)%nat -> (last s < fresh s)%nat ->
  u <= u' -> G u' (refresh_check u' s).
Proof.
  intros H1 H2 H3 Hu. unfold refresh_check. rewrite intervals_spec.
  destruct (dur_since u' (last_refresh s) / S600 =? 0) eqn:E0.
  - constructor; try assumption; [lia|]. unfold S600, dur_since in *. lia.
  - destruct (dur_since u' (last_refresh s) / S600 =? 1) eqn:E1; constructor; cbn; try lia;
      unfold dur_since, S600; lia.
Qed.

Lemma refresh_trk sigma r u u' s : G u s -> (sigma < fresh s)%nat -> Trk sigma r s -> u <= u' ->
  Trk sigma r (refresh_check u' s) /\ (sigma < fresh (refresh_check u' s))%nat.
Proof.
  intros [H1 H2 H3 H4] Hs T Hu. unfold refresh_check. rewrite intervals_spec.
  destruct (dur_since u' (last_refresh s) / S600 =? 0) eqn:E0; [split; assumption|].
  destruct (dur_since u' (last_refresh s) / S600 =? 1) eqn:E1; cbn [fresh]; (split; [|lia]).
  - destruct T as [Tc Tr|Tl Tc Tr|Tc Tl].
    + apply PB; cbn; [exact Tc | lia | unfold dur_since, S600 in *; lia].
    + apply PD; cbn; lia.
    + apply PD; cbn; lia.
  - apply PD; cbn; lia.
Qed.

(* within 20 min of r the secret is still accepted *)
Lemma refresh_alive sigma r u u' s : G u s -> Trk sigma r s -> LiveT sigma s -> u <= u' ->
  r <= u -> u' < r + 2 * S600 -> LiveT sigma (refresh_check u' s).
Proof.
  intros [H1 H2 H3 H4] T L Hu Hr Hlt. unfold refresh_check. rewrite intervals_spec.
  destruct (dur_since u' (last_refresh s) / S600 =? 0) eqn:E0; [exact L|].
  destruct T as [Tc Tr|Tl Tc Tr|Tc Tl].
  - assert (dur_since u' (last_refresh s) / S600 = 1) as -> by (unfold dur_since, S600 in *; lia).
    cbn. right. exact Tc.
  - exfalso. unfold dur_since, S600 in *. lia.
  - destruct L; contradiction.
Qed.

(* 30 min after r (hence after any issue time >= r) the secret is dead *)
Lemma refresh_dead sigma r u u' s : G u s -> Trk sigma r s -> (sigma < fresh s)%nat -> u <= u' ->
  r + 3 * S600 <= u' -> ~ LiveT sigma (refresh_check u' s).
Proof.
  intros [H1 H2 H3 H4] T Hs Hu Hge. unfold refresh_check, LiveT. rewrite intervals_spec.
  destruct T as [Tc Tr|Tl Tc Tr|Tc Tl].
  - assert (E0 : (dur_since u' (last_refresh s) / S600 =? 0) = false) by (unfold dur_since, S600 in *; lia).
    assert (E1 : (dur_since u' (last_refresh s) / S600 =? 1) = false) by (unfold dur_since, S600 in *; lia).
    rewrite E0, E1. cbn. lia.
  - assert (E0 : (dur_since u' (last_refresh s) / S600 =? 0) = false) by (unfold dur_since, S600 in *; lia).
    rewrite E0. destruct (_ =? 1); cbn; lia.
  - destruct (_ =? 0); [tauto|]. destruct (_ =? 1); cbn; lia.
Qed.

(* ---- running through a list of operations ---- *)
Lemma trun_app s a b :
  trun s (a ++ b) = let '(s1, o1) := trun s a in let '(s2, o2) := trun s1 b in (s2, o1 ++ o2).
Proof.
  revert s. induction a as [|o a IH]; intros s; cbn [app trun].
  - destruct (trun s b). reflexivity.
  - destruct (tstep s o) as [s1 x]. rewrite IH. destruct (trun s1 a) as [s2 xs]. destruct (trun s2 b). reflexivity.
Qed.

Lemma trun_length s ops : length (snd (trun s ops)) = length ops.
Proof.
  revert s. induction ops as [|o r IH]; intros s; cbn [trun]; [reflexivity|].
  destruct (tstep s o) as [s1 x]. specialize (IH s1). destruct (trun s1 r). cbn in *. lia.
Qed.

Lemma ttimes_app_l u a b : ttimes_from u (a ++ b) -> ttimes_from u a.
Proof. revert u. induction a as [|o a IH]; intros u H; cbn in *; [tauto|]. destruct H as [H1 H2]. split; [exact H1 | apply IH, H2]. Qed.

Lemma ttimes_mid_le : forall a u o b, ttimes_from u (a ++ o :: b) -> u <= fst o /\ forall x, In x a -> fst x <= fst o.
Proof.
  induction a as [|y a IH]; intros u o b H; cbn in *.
  - split; [tauto | tauto].
  - destruct H as [H1 H2]. destruct (IH _ _ _ H2) as [A B]. split; [lia|].
    intros x [<-|Hx]; [exact A | apply B, Hx].
Qed.

(* invariants are kept along any monotone run *)
Lemma run_G_app : forall a u s b, G u s -> ttimes_from u (a ++ b) ->
  exists u', u <= u' /\ G u' (fst (trun s a)) /\ ttimes_from u' b /\
    (forall bound, u <= bound -> (forall o, In o a -> fst o <= bound) -> u' <= bound).
Proof.
  induction a as [|o r IH]; intros u s b Gs Ht.
  - exists u. cbn. split; [lia|]. split; [exact Gs|]. split; [exact Ht|]. intros; lia.
  - cbn in Ht. destruct Ht as [Hu Ht]. cbn [trun].
    pose proof (tstep_state s o) as Es. destruct (tstep s o) as [s1 x]. cbn in Es. subst s1.
    assert (G1 : G (fst o) (refresh_check (fst o) s)) by (destruct Gs; apply (refresh_G u); assumption).
    destruct (IH _ _ _ G1 Ht) as [u' [Hle [G2 [Hb Hbound]]]].
    destruct (trun (refresh_check (fst o) s) r) as [s2 xs]. cbn in *.
    exists u'. split; [lia|]. split; [assumption|]. split; [assumption|].
    intros bound Hub Hall. apply Hbound; [apply Hall; left; reflexivity | intros y Hy; apply Hall; right; exact Hy].
Qed.

Lemma run_trk sigma r : forall ops u s, G u s -> (sigma < fresh s)%nat -> Trk sigma r s -> ttimes_from u ops ->
  Trk sigma r (fst (trun s ops)) /\ (sigma < fresh (fst (trun s ops)))%nat.
Proof.
  induction ops as [|o rr IH]; intros u s Gs Hs T Ht; [split; assumption|].
  cbn in Ht. destruct Ht as [Hu Ht]. cbn [trun].
  pose proof (tstep_state s o) as Es. destruct (tstep s o) as [s1 x]. cbn in Es. subst s1.
  assert (G1 : G (fst o) (refresh_check (fst o) s)) by (destruct Gs; apply (refresh_G u); assumption).
  destruct (refresh_trk sigma r u (fst o) s Gs Hs T Hu) as [T1 Hs1].
  specialize (IH _ _ G1 Hs1 T1 Ht).
  destruct (trun (refresh_check (fst o) s) rr) as [s2 xs]. exact IH.
Qed.

Lemma run_alive sigma r : forall ops u s, G u s -> (sigma < fresh s)%nat -> Trk sigma r s -> LiveT sigma s ->
  ttimes_from u ops -> r <= u -> (forall o, In o ops -> fst o < r + 2 * S600) ->
  LiveT sigma (fst (trun s ops)).
Proof.
  induction ops as [|o rr IH]; intros u s Gs Hs T L Ht Hr Hall; [exact L|].
  cbn in Ht. destruct Ht as [Hu Ht]. cbn [trun].
  pose proof (tstep_state s o) as Es. destruct (tstep s o) as [s1 x]. cbn in Es. subst s1.
  assert (G1 : G (fst o) (refresh_check (fst o) s)) by (destruct Gs; apply (refresh_G u); assumption).
  destruct (refresh_trk sigma r u (fst o) s Gs Hs T Hu) as [T1 Hs1].
  assert (L1 : LiveT sigma (refresh_check (fst o) s)).
  { apply (refresh_alive sigma r u); try assumption. apply Hall. left. reflexivity. }
  assert (IH' := IH (fst o) _ G1 Hs1 T1 L1 Ht ltac:(lia) (fun y Hy => Hall y (or_intror Hy))).
  destruct (trun (refresh_check (fst o) s) rr) as [s2 xs]. exact IH'.
Qed.

(* ---- decomposition of a history around an issue and a presentation ---- *)
Lemma trun_cons s o r : trun s (o :: r) =
  (fst (trun (fst (tstep s o)) r), snd (tstep s o) :: snd (trun (fst (tstep s o)) r)).
Proof. cbn [trun]. destruct (tstep s o) as [s1 x]. cbn [fst snd]. destruct (trun s1 r). reflexivity. Qed.

Lemma trun_app_fst s a b : fst (trun s (a ++ b)) = fst (trun (fst (trun s a)) b).
Proof. rewrite trun_app. destruct (trun s a) as [s1 o1]. cbn [fst]. destruct (trun s1 b). reflexivity. Qed.

Lemma trun_app_snd s a b : snd (trun s (a ++ b)) = snd (trun s a) ++ snd (trun (fst (trun s a)) b).
Proof. rewrite trun_app. destruct (trun s a) as [s1 o1]. cbn [fst snd]. destruct (trun s1 b). reflexivity. Qed.

Lemma nth_out_1 s pre o1 rest d :
  nth (length pre) (snd (trun s (pre ++ o1 :: rest))) d = snd (tstep (fst (trun s pre)) o1).
Proof.
  rewrite trun_app_snd, trun_cons. cbn [snd].
  rewrite app_nth2 by (rewrite trun_length; lia). rewrite trun_length, Nat.sub_diag. reflexivity.
Qed.

Lemma nth_out_2 s pre o1 mid o2 post d :
  nth (length pre + S (length mid)) (snd (trun s (pre ++ o1 :: mid ++ o2 :: post))) d
  = snd (tstep (fst (trun (fst (tstep (fst (trun s pre)) o1)) mid)) o2).
Proof.
  rewrite trun_app_snd, trun_cons. cbn [snd].
  rewrite app_nth2 by (rewrite trun_length; lia). rewrite trun_length.
  replace (length pre + S (length mid) - length pre)%nat with (S (length mid)) by lia.
  cbn [nth]. apply nth_out_1.
Qed.

Lemma G_init t0 : G t0 (tinit t0).
Proof. constructor; cbn; try lia. unfold dur_since, S600. lia. Qed.

Section Decomp.
  Variables (t0 ti tj : Z) (ip ip' : ipaddr) (k : token).
  Variables (pre mid post : list (Z * top)).
  Let ops := pre ++ (ti, TCheckout ip) :: mid ++ (tj, TCheckin ip' k) :: post.
  Hypothesis Ht : ttimes_from t0 ops.

  Let s0 := fst (trun (tinit t0) pre).
  Let s1 := refresh_check ti s0.
  Let sigma := curr s1.
  Let r := last_refresh s1.
  Let s2 := fst (trun s1 mid).
  Let s3 := refresh_check tj s2.

  Lemma issued : nth (length pre) (snd (trun (tinit t0) ops)) (OAcc false) = OTok (TSha ip sigma).
  Proof. unfold ops. rewrite nth_out_1. reflexivity. Qed.

  Lemma presented : nth (length pre + S (length mid)) (snd (trun (tinit t0) ops)) (OAcc true)
    = OAcc (token_eqb k (TSha ip' (curr s3)) || token_eqb k (TSha ip' (last s3))).
  Proof. unfold ops. rewrite nth_out_2. reflexivity. Qed.

  Lemma decomp_facts :
    G ti s1 /\ Trk sigma r s1 /\ (sigma < fresh s1)%nat /\ LiveT sigma s1 /\ r <= ti /\ ti < r + S600 /\
    ttimes_from ti mid /\ ti <= tj /\ (forall o, In o mid -> fst o <= tj).
  Proof.
    unfold ops in Ht.
    destruct (run_G_app pre t0 (tinit t0) _ (G_init t0) Ht) as [u0 [Hu0 [G0 [Ht1 _]]]].
    fold s0 in G0. cbn [ttimes_from fst] in Ht1. destruct Ht1 as [Hu0i Ht2].
    assert (G1 : G ti s1) by (destruct G0; apply (refresh_G u0); assumption).
    destruct (ttimes_mid_le _ _ _ _ Ht2) as [Hij Hmid].
    pose proof (ttimes_app_l _ _ _ Ht2) as Hm.
    pose proof (g_lr _ _ G1) as A. pose proof (g_int _ _ G1) as D. pose proof (g_fresh_c _ _ G1) as B.
    fold r in A, D. fold sigma in B. cbn [fst] in Hij, Hmid.
    split; [exact G1|]. split; [apply PA; reflexivity|]. split; [exact B|].
    split; [left; reflexivity|]. split; [exact A|].
    split; [unfold dur_since, S600 in *; lia|]. split; [exact Hm|]. split; [exact Hij | exact Hmid].
  Qed.

  Lemma s2_facts : exists u2, ti <= u2 /\ u2 <= tj /\ G u2 s2 /\ Trk sigma r s2 /\ (sigma < fresh s2)%nat.
  Proof.
    destruct decomp_facts as [G1 [T1 [Hs1 [L1 [Hr [Hr2 [Hm [Hij Hmid]]]]]]]].
    destruct (run_trk sigma r mid ti s1 G1 Hs1 T1 Hm) as [T2 Hs2]. fold s2 in T2, Hs2.
    assert (Hm' : ttimes_from ti (mid ++ [])) by (rewrite app_nil_r; exact Hm).
    destruct (run_G_app mid ti s1 [] G1 Hm') as [u2 [Hu2 [G2 [_ Hb]]]]. fold s2 in G2.
    exists u2. split; [exact Hu2|]. split; [apply Hb; assumption|]. split; [exact G2|]. split; assumption.
  Qed.

  Lemma live_s3_early : tj <= ti + S600 -> LiveT sigma s3.
  Proof.
    intros Hle. destruct decomp_facts as [G1 [T1 [Hs1 [L1 [Hr [Hr2 [Hm [Hij Hmid]]]]]]]].
    assert (L2 : LiveT sigma s2).
    { apply (run_alive sigma r mid ti s1); try assumption.
      intros o Ho. specialize (Hmid o Ho). lia. }
    destruct s2_facts as [u2 [Hu2 [Hu2j [G2 [T2 Hs2]]]]].
    unfold s3. apply (refresh_alive sigma r u2); try assumption; lia.
  Qed.

  Lemma dead_s3_late : ti + 3 * S600 <= tj -> ~ LiveT sigma s3.
  Proof.
    intros Hge. destruct decomp_facts as [G1 [T1 [Hs1 [L1 [Hr [Hr2 [Hm [Hij Hmid]]]]]]]].
    destruct s2_facts as [u2 [Hu2 [Hu2j [G2 [T2 Hs2]]]]].
    unfold s3. apply (refresh_dead sigma r u2); try assumption; lia.
  Qed.
End Decomp.

Definition out_at (t0 : Z) (ops : list (Z * top)) (n : nat) : tout := nth n (snd (trun (tinit t0) ops)) (OAcc false).

Lemma accept_sigma ip ip' sigma c l :
  token_eqb (TSha ip sigma) (TSha ip' c) || token_eqb (TSha ip sigma) (TSha ip' l)
  = ip_eqb ip ip' && (Nat.eqb sigma c || Nat.eqb sigma l).
Proof. cbn. destruct (ip_eqb ip ip'); reflexivity. Qed.

Theorem token_valid_10min t0 pre mid post ti tj ip k :
  let ops := pre ++ (ti, TCheckout ip) :: mid ++ (tj, TCheckin ip k) :: post in
  ttimes_from t0 ops ->
  out_at t0 ops (length pre) = OTok k ->
  tj <= ti + 600000000000 ->
  out_at t0 ops (length pre + S (length mid)) = OAcc true.
Proof.
  intros ops Ht Hk Hle. unfold out_at in *. subst ops.
  rewrite (issued t0 ti tj ip ip k pre mid post) in Hk. injection Hk as <-.
  rewrite (nth_indep _ (OAcc false) (OAcc true)) by (rewrite trun_length, !app_length; cbn; rewrite app_length; cbn; lia).
  rewrite (presented t0 ti tj ip ip _ pre mid post). rewrite accept_sigma, ip_eqb_refl. cbn [andb].
  pose proof (live_s3_early t0 ti tj ip ip _ pre mid post Ht Hle) as [L|L]; rewrite L, Nat.eqb_refl; [reflexivity | rewrite orb_true_r; reflexivity].
Qed.

Theorem token_dead_30min t0 pre mid post ti tj ip ip' k :
  let ops := pre ++ (ti, TCheckout ip) :: mid ++ (tj, TCheckin ip' k) :: post in
  ttimes_from t0 ops ->
  out_at t0 ops (length pre) = OTok k ->
  ti + 1800000000000 <= tj ->
  out_at t0 ops (length pre + S (length mid)) = OAcc false.
Proof.
  intros ops Ht Hk Hge. unfold out_at in *. subst ops.
  rewrite (issued t0 ti tj ip ip' k pre mid post) in Hk. injection Hk as <-.
  rewrite (nth_indep _ (OAcc false) (OAcc true)) by (rewrite trun_length, !app_length; cbn; rewrite app_length; cbn; lia).
  rewrite (presented t0 ti tj ip ip' _ pre mid post). rewrite accept_sigma.
  pose proof (dead_s3_late t0 ti tj ip ip' _ pre mid post Ht ltac:(unfold S600; lia)) as D. unfold LiveT in D.
  f_equal. destruct (ip_eqb ip ip'); [|reflexivity]. cbn [andb].
  apply orb_false_iff. split; apply Nat.eqb_neq; intros E; apply D; [left | right]; symmetry; exact E.
Qed.

Theorem token_ip_bound t0 pre mid post ti tj ip ip' k :
  let ops := pre ++ (ti, TCheckout ip) :: mid ++ (tj, TCheckin ip' k) :: post in
  out_at t0 ops (length pre) = OTok k ->
  ip' <> ip ->
  out_at t0 ops (length pre + S (length mid)) = OAcc false.
Proof.
  intros ops Hk Hne. unfold out_at in *. subst ops.
  rewrite (issued t0 ti tj ip ip' k pre mid post) in Hk. injection Hk as <-.
  rewrite (nth_indep _ (OAcc false) (OAcc true)) by (rewrite trun_length, !app_length; cbn; rewrite app_length; cbn; lia).
  rewrite (presented t0 ti tj ip ip' _ pre mid post). rewrite accept_sigma.
  destruct (ip_eqb ip ip') eqn:E; [apply ip_eqb_eq in E; congruence | reflexivity].
Qed.

(* byte strings that are not a digest of (ip, secret) are always refused *)
Theorem token_raw_refused t0 pre post tj ip b :
  let ops := pre ++ (tj, TCheckin ip (TRaw b)) :: post in
  out_at t0 ops (length pre) = OAcc false.
Proof. intros ops. unfold out_at, ops. rewrite nth_out_1. reflexivity. Qed.
