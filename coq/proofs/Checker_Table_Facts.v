(* The executable checkers of C08 / C09 / C10 (run/Run_TableCheck.v) against the proven model.

   COMPLETENESS ON THE MODEL ("..._model_silent"): on the observations the Gallina model itself
   produces (model_obs) the checkers never raise an alarm, for every local id and every script the
   generators can emit (script_ok / script_ok_timed, defined in Checker_Table_Base.v: router
   addresses are announced first, offered and named addresses are never the placeholder
   127.0.0.1:0 of empty slots, and -- for C10 only -- the clock readings never go back).  Hence
   an alarm on the implementation's observations is a deviation from the model the property
   theorems are about, never an artefact of the checker.

   SOUNDNESS ("..._sound"): what an accepted trace is guaranteed to satisfy, clause by clause, as
   Props (the specs c08_shape_spec, c08_offer_spec, c09_closest_spec, c10_dump_spec are in
   Checker_Table_Sound.v).

   The proofs are in Checker_Table_Sound.v (soundness), Checker_Table_C09.v, Checker_Table_C10.v,
   Checker_Table_C08.v (silence on the model) and AddNode_Spec.v (what add_node does, node by
   node, through every chain of bucket splits). *)
From BT Require Import model.Prelude model.Table gen.Consts proofs.Prelude_Facts proofs.Table_Facts
  proofs.TableInv_Facts proofs.TableOps_Facts run.Run_Table run.Run_TableCheck.
From BT Require Export proofs.AddNode_Spec proofs.Checker_Table_Base proofs.Checker_Table_Sound.
From BT Require proofs.Checker_Table_C09 proofs.Checker_Table_C10 proofs.Checker_Table_C08.
From Coq Require Import Permutation.
Open Scope Z_scope.

(* ------------------------------------------------------------------ C09 *)
Theorem c09_ok_model_silent : forall local ops, script_ok ops = true ->
  c09_ok local ops (model_obs local ops) = None.
Proof. exact Checker_Table_C09.c09_ok_model_silent. Qed.

(* ------------------------------------------------------------------ C10 *)
(* c10_ok's clause "two unanswered queries while not good: not reported" deliberately treats a
   hearsay mention as a reset (known finding F-C10: a contact gone bad is re-accepted as
   questionable when a third node names it); with that exception built into the checker the model
   passes every clause. *)
Theorem c10_ok_model_silent : forall local ops, script_ok_timed ops = true ->
  c10_ok ops (model_obs local ops) = None.
Proof. exact Checker_Table_C10.c10_ok_model_silent. Qed.

(* ------------------------------------------------------------------ C08 *)
Theorem c08_ok_model_silent : forall local ops, script_ok ops = true ->
  c08_ok local ops (model_obs local ops) = None.
Proof. exact Checker_Table_C08.c08_ok_model_silent. Qed.

(* c08_ok_sound, split in its two halves *)
Theorem c08_ok_sound_shape : forall local ops obs, c08_ok local ops obs = None ->
  (length ops <= length obs)%nat /\
  forall k t d, nth_error ops k = Some (TDump t) -> nth_error obs k = Some (ObDump d) ->
    c08_shape_spec local (routers_before ops k) d.
Proof. intros local ops obs H. destruct (c08_ok_sound local ops obs H) as [H1 [H2 _]]. split; [exact H1 | exact H2]. Qed.

Theorem c08_ok_sound_offer : forall local ops obs, c08_ok local ops obs = None ->
  forall k t good id a d d',
    nth_error ops k = Some (TDump t) -> nth_error ops (S k) = Some (TOffer t good id a) ->
    nth_error ops (S (S k)) = Some (TDump t) ->
    nth_error obs k = Some (ObDump d) -> nth_error obs (S (S k)) = Some (ObDump d') ->
    c08_offer_spec local (routers_before ops k) d d' good id a.
Proof. intros local ops obs H. destruct (c08_ok_sound local ops obs H) as [_ [_ H3]]. exact H3. Qed.

(* ------------------------------------------------------------------ the hypotheses are satisfiable *)
Example script_ok_nonvacuous :
  let a (k : N) := mkAddr false (167772160 + k)%N 6881 in
  let ops := [TRouter (a 99%N); TDump 0; TOffer 0 true 1%N (a 1%N); TDump 0; TOffer 5 false (2 ^ 159)%N (a 2%N);
              TDump 5; TOffer 5 true 3%N (a 99%N); TDump 5; TLreq 6 (2 ^ 159)%N (a 2%N); TRreq 7 1%N (a 1%N);
              TAddNodes 8 9%N (a 4%N) [(10%N, a 5%N); (1%N, a 1%N)]; TDump 900000000009; TClosest 900000000009 2%N;
              TLreq 900000000010 (2 ^ 159)%N (a 2%N); TDump 900000000010; TContacts 900000000010] in
  script_ok_timed ops = true /\ script_ok ops = true /\
  c08_ok 0%N ops (model_obs 0%N ops) = None /\ c09_ok 0%N ops (model_obs 0%N ops) = None /\
  c10_ok ops (model_obs 0%N ops) = None /\
  (* ... and the checkers are not trivially silent: a dump that lists a contact twice is refused *)
  c08_ok 0%N [TDump 0] [ObDump [[(2%N, 1%N, a 1%N); (2%N, 1%N, a 1%N); bad_slot; bad_slot; bad_slot; bad_slot; bad_slot; bad_slot]]] = Some 0%N.
Proof. vm_compute. repeat split; reflexivity. Qed.

Print Assumptions c08_ok_model_silent.
Print Assumptions c09_ok_model_silent.
Print Assumptions c10_ok_model_silent.
Print Assumptions c08_ok_sound.
Print Assumptions c09_ok_sound.
Print Assumptions c10_ok_sound.
