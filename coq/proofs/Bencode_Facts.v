(* Facts about the bencode layer: decimal print/parse, the token reader on
   serialised values, the generic round trip, the library's key sort. *)
From BT Require Import model.Prelude model.Bencode.
From Coq Require Import ZifyBool ZifyN ZifyNat.
From Coq Require Import Sorting.Sorted Permutation.

(* ------------------------------------------------------------------ *)
(* decimal text                                                       *)

Lemma is_digit_spec c : is_digit c = true <-> 48 <= c <= 57.
Proof. unfold is_digit. lia. Qed.

Lemma dec_fuel_app f : forall n acc, dec_fuel f n acc = dec_fuel f n [] ++ acc.
Proof.
  induction f as [|f IH]; intros n acc; cbn [dec_fuel].
  - reflexivity.
  - destruct (n <? 10); [reflexivity|].
    rewrite IH, (IH _ [_]). rewrite <- app_assoc. reflexivity.
Qed.

Lemma dec_fuel_digits f : forall n, Forall (fun c => is_digit c = true) (dec_fuel f n []).
Proof.
  induction f as [|f IH]; intros n; cbn [dec_fuel].
  - constructor.
  - destruct (n <? 10) eqn:E.
    + constructor; [|constructor]. apply is_digit_spec. lia.
    + rewrite dec_fuel_app. apply Forall_app. split; [apply IH|].
      constructor; [|constructor]. apply is_digit_spec.
      pose proof (N.mod_lt n 10). lia.
Qed.

Lemma dec_fuel_nonempty f n : dec_fuel (S f) n [] <> [].
Proof.
  cbn [dec_fuel]. destruct (n <? 10); [discriminate|].
  rewrite dec_fuel_app. intros H. apply app_eq_nil in H as [_ H]. discriminate.
Qed.

(* the value read back from the text of [n] *)
Lemma dva_dec_fuel f : forall n r a,
  n < 10 ^ N.of_nat f ->
  digits_val_acc (dec_fuel f n [] ++ r) a
  = digits_val_acc r (a * 10 ^ N.of_nat (length (dec_fuel f n [])) + n).
Proof.
  induction f as [|f IH]; intros n r a Hn.
  - cbn in Hn. assert (n = 0) by lia. subst. cbn. f_equal. lia.
  - cbn [dec_fuel]. destruct (n <? 10) eqn:E.
    + cbn [app digits_val_acc length].
      replace (is_digit (48 + n)) with true by (symmetry; apply is_digit_spec; lia).
      f_equal. change (N.of_nat 1) with 1. rewrite N.pow_1_r. lia.
    + rewrite dec_fuel_app, <- app_assoc.
      assert (Hd : n / 10 < 10 ^ N.of_nat f).
      { rewrite Nat2N.inj_succ, N.pow_succ_r' in Hn. apply N.div_lt_upper_bound; lia. }
      rewrite (IH _ _ _ Hd). cbn [app digits_val_acc].
      pose proof (N.mod_lt n 10 ltac:(lia)) as Hm.
      replace (is_digit (48 + n mod 10)) with true by (symmetry; apply is_digit_spec; lia).
      f_equal. rewrite app_length. cbn [length]. rewrite Nat.add_1_r, Nat2N.inj_succ, N.pow_succ_r'.
      pose proof (N.div_mod n 10 ltac:(lia)). nia.
Qed.

Lemma log2_fuel_ok n : n < 10 ^ N.of_nat (S (N.to_nat (N.log2 n))).
Proof.
  destruct (N.eq_dec n 0) as [->|Hn]; [cbn; lia|].
  rewrite Nat2N.inj_succ, N2Nat.id.
  pose proof (N.log2_spec n ltac:(lia)) as [_ H].
  eapply N.lt_le_trans; [exact H|].
  apply N.pow_le_mono_l. lia.
Qed.

Lemma dec_N_digits n : Forall (fun c => is_digit c = true) (dec_N n).
Proof. apply dec_fuel_digits. Qed.

Lemma dec_N_nonempty n : dec_N n <> [].
Proof. apply dec_fuel_nonempty. Qed.

Lemma digits_val_dec_N n : digits_val (dec_N n) = Some n.
Proof.
  unfold digits_val. pose proof (dec_N_nonempty n) as Hne.
  destruct (dec_N n) as [|c ds] eqn:E; [congruence|]. rewrite <- E.
  unfold dec_N in *. rewrite <- (app_nil_r (dec_fuel _ _ _)).
  rewrite dva_dec_fuel by apply log2_fuel_ok. cbn [digits_val_acc]. f_equal; try lia.
Qed.

Lemma parse_usize_dec_N n : n < 2 ^ 64 -> parse_usize (dec_N n) = Some n.
Proof.
  intros H. unfold parse_usize. rewrite digits_val_dec_N.
  destruct (n <? 2 ^ 64) eqn:E; [reflexivity | lia].
Qed.

Lemma digit_not c d : is_digit c = true -> is_digit d = false -> c <> d.
Proof. intros H1 H2 ->. congruence. Qed.

Lemma dec_N_first n : exists c ds, dec_N n = c :: ds /\ is_digit c = true /\ Forall (fun c => is_digit c = true) ds.
Proof.
  pose proof (dec_N_digits n) as H. pose proof (dec_N_nonempty n) as Hne.
  destruct (dec_N n) as [|c ds]; [congruence|]. inversion H; subst. eauto.
Qed.

Lemma parse_i64_dec_Z z : (- 2 ^ 63 <= z < 2 ^ 63)%Z -> parse_i64 (dec_Z z) = Some z.
Proof.
  intros Hz. unfold parse_i64, dec_Z. destruct z as [|p|p].
  - reflexivity.
  - change (Z.to_N (Z.pos p)) with (N.pos p).
    destruct (dec_N_first (N.pos p)) as [c [ds [E [Hc Hds]]]]. rewrite E.
    apply is_digit_spec in Hc.
    replace (c =? ch_minus) with false by (unfold ch_minus; lia).
    replace (c =? ch_plus) with false by (unfold ch_plus; lia).
    rewrite <- E, digits_val_dec_N.
    destruct (N.pos p <? 2 ^ 63) eqn:E2; [reflexivity | lia].
  - rewrite N.eqb_refl, digits_val_dec_N.
    destruct (N.pos p <=? 2 ^ 63) eqn:E2; [reflexivity | lia].
Qed.

(* ------------------------------------------------------------------ *)
(* splitting at a delimiter                                           *)

Lemma split_at_byte_app d a r :
  Forall (fun c => c <> d) a -> split_at_byte d (a ++ d :: r) = Some (a, r).
Proof.
  induction a as [|c a IH]; intros H; cbn [app split_at_byte].
  - rewrite N.eqb_refl. reflexivity.
  - inversion H; subst. replace (c =? d) with false by lia. rewrite IH by assumption. reflexivity.
Qed.

Lemma split_at_byte_spec d s a r : split_at_byte d s = Some (a, r) -> s = a ++ d :: r /\ Forall (fun c => c <> d) a.
Proof.
  revert a r. induction s as [|c s IH]; intros a r H; cbn in H; [discriminate|].
  destruct (c =? d) eqn:E.
  - inversion H; subst. apply N.eqb_eq in E. subst. split; [reflexivity | constructor].
  - destruct (split_at_byte d s) as [[a' r']|]; [|discriminate]. inversion H; subst.
    destruct (IH a' r eq_refl) as [-> Hf]. split; [reflexivity|]. constructor; [lia | assumption].
Qed.

Lemma split_at_byte_none d s : split_at_byte d s = None -> Forall (fun c => c <> d) s.
Proof.
  induction s as [|c s IH]; intros H; [constructor|]. cbn in H.
  destruct (c =? d) eqn:E; [discriminate|].
  destruct (split_at_byte d s) as [[? ?]|]; [discriminate|]. constructor; [lia | auto].
Qed.

Lemma digits_no (d : N) ds : is_digit d = false -> Forall (fun c => is_digit c = true) ds -> Forall (fun c => c <> d) ds.
Proof. intros Hd H. eapply Forall_impl; [|exact H]. intros c Hc. cbn in Hc. intros ->. congruence. Qed.

(* ------------------------------------------------------------------ *)
(* running the decoder monad                                          *)

(* [m], started on input [inp] (whatever the log and depth so far), succeeds with
   [a] and leaves [rest] *)
Definition parses {A} (m : M A) (inp : bytes) (a : A) (rest : bytes) : Prop :=
  forall lg mx, exists lg' mx', m (mkSt inp lg mx) = (mkSt rest lg' mx', Ok a).

(* [m] started on [inp] fails (a decoding error, not fuel) *)
Definition fails {A} (m : M A) (inp : bytes) : Prop :=
  forall lg mx, exists s', m (mkSt inp lg mx) = (s', Fail).

Lemma parses_ret {A} (a : A) i : parses (ret a) i a i.
Proof. intros lg mx. exists lg, mx. reflexivity. Qed.

Lemma parses_bind {A B} (m : M A) (f : A -> M B) i a r b r' :
  parses m i a r -> parses (f a) r b r' -> parses (bind m f) i b r'.
Proof.
  intros H1 H2 lg mx. destruct (H1 lg mx) as [lg1 [mx1 E1]].
  destruct (H2 lg1 mx1) as [lg2 [mx2 E2]]. exists lg2, mx2.
  unfold bind. rewrite E1. exact E2.
Qed.

Lemma parses_enter d i : parses (enter d) i tt i.
Proof. intros lg mx. eexists _, _. reflexivity. Qed.

Lemma fails_fail {A} i : fails (@fail A) i.
Proof. intros lg mx. eexists. reflexivity. Qed.

Lemma fails_bind_l {A B} (m : M A) (f : A -> M B) i : fails m i -> fails (bind m f) i.
Proof. intros H lg mx. destruct (H lg mx) as [s' E]. exists s'. unfold bind. rewrite E. reflexivity. Qed.

Lemma fails_bind_r {A B} (m : M A) (f : A -> M B) i a r :
  parses m i a r -> fails (f a) r -> fails (bind m f) i.
Proof.
  intros H1 H2 lg mx. destruct (H1 lg mx) as [lg1 [mx1 E1]].
  destruct (H2 lg1 mx1) as [s' E2]. exists s'. unfold bind. rewrite E1. exact E2.
Qed.

Lemma parses_fails_excl {A} (m : M A) i a r : parses m i a r -> fails m i -> False.
Proof.
  intros H1 H2. destruct (H1 [] 0%nat) as [? [? E1]]. destruct (H2 [] 0%nat) as [? E2]. congruence.
Qed.

Lemma parses_det {A} (m : M A) i a r a' r' : parses m i a r -> parses m i a' r' -> a = a' /\ r = r'.
Proof.
  intros H1 H2. destruct (H1 [] 0%nat) as [? [? E1]]. destruct (H2 [] 0%nat) as [? [? E2]].
  rewrite E1 in E2. inversion E2. auto.
Qed.

(* ------------------------------------------------------------------ *)
(* the token reader on serialised tokens                              *)

Lemma tok_str s r : N.of_nat (length s) < 2 ^ 64 -> parses tok (ser_str s ++ r) (TBytes s) r.
Proof.
  intros Hlen lg mx. unfold tok, ser_str. cbn [s_in].
  destruct (dec_N_first (N.of_nat (length s))) as [c [ds [E [Hc Hds]]]].
  rewrite E. cbn [app].
  assert (Hci : (c =? ch_i) = false) by (apply is_digit_spec in Hc; unfold ch_i; lia).
  rewrite Hci, Hc. rewrite <- app_assoc. cbn [app].
  rewrite split_at_byte_app by (apply digits_no; [reflexivity | assumption]).
  rewrite <- E, parse_usize_dec_N by assumption.
  rewrite app_length.
  replace (N.of_nat (length s) <=? N.of_nat (length s + length r)) with true by lia.
  rewrite Nat2N.id, firstn_app, Nat.sub_diag, firstn_all, skipn_app, Nat.sub_diag, skipn_all.
  cbn. rewrite app_nil_r. eexists _, _. reflexivity.
Qed.

Lemma dec_Z_shape z : (- 2 ^ 63 <= z < 2 ^ 63)%Z ->
  Forall (fun c => c <> ch_e) (dec_Z z).
Proof.
  intros _. unfold dec_Z. destruct z; try (apply digits_no; [reflexivity | apply dec_N_digits]).
  constructor; [discriminate | apply digits_no; [reflexivity | apply dec_N_digits]].
Qed.

Lemma tok_int z r : (- 2 ^ 63 <= z < 2 ^ 63)%Z -> parses tok (ser_int z ++ r) (TInt z) r.
Proof.
  intros Hz lg mx. unfold tok, ser_int. cbn [s_in app]. rewrite N.eqb_refl.
  rewrite <- app_assoc. cbn [app].
  rewrite split_at_byte_app by (apply dec_Z_shape; assumption).
  rewrite parse_i64_dec_Z by assumption. eexists _, _. reflexivity.
Qed.

Lemma tok_l r : parses tok (ch_l :: r) TList r.
Proof. intros lg mx. eexists _, _. reflexivity. Qed.
Lemma tok_d r : parses tok (ch_d :: r) TMap r.
Proof. intros lg mx. eexists _, _. reflexivity. Qed.
Lemma tok_e r : parses tok (ch_e :: r) TEnd r.
Proof. intros lg mx. eexists _, _. reflexivity. Qed.

(* ------------------------------------------------------------------ *)
(* trees                                                              *)

Section BvalueInd.
  Variable P : bvalue -> Prop.
  Hypothesis Hi : forall z, P (BInt z).
  Hypothesis Hs : forall s, P (BStr s).
  Hypothesis Hl : forall l, Forall P l -> P (BList l).
  Hypothesis Hd : forall l, Forall (fun kv => P (snd kv)) l -> P (BDict l).
  Fixpoint bvalue_ind' (v : bvalue) : P v :=
    match v with
    | BInt z => Hi z
    | BStr s => Hs s
    | BList l => Hl l ((fix go (l : list bvalue) : Forall P l :=
                          match l with
                          | [] => Forall_nil _
                          | x :: r => Forall_cons _ (bvalue_ind' x) (go r)
                          end) l)
    | BDict l => Hd l ((fix go (l : list (bytes * bvalue)) : Forall (fun kv => P (snd kv)) l :=
                          match l with
                          | [] => Forall_nil _
                          | x :: r => Forall_cons _ (bvalue_ind' (snd x)) (go r)
                          end) l)
    end.
End BvalueInd.

Definition ser_list (l : list bvalue) : bytes := flat_map ser l.
Definition ser_dict (l : list (bytes * bvalue)) : bytes := flat_map (fun kv => ser_str (fst kv) ++ ser (snd kv)) l.

Lemma ser_BList l : ser (BList l) = ch_l :: ser_list l ++ [ch_e].
Proof.
  reflexivity.
Qed.

Lemma ser_BDict l : ser (BDict l) = ch_d :: ser_dict l ++ [ch_e].
Proof.
  reflexivity.
Qed.

(* sizes and ranges that the wire format can carry: i64 integers, lengths below 2^64 *)
Fixpoint bv_wf (v : bvalue) : Prop :=
  match v with
  | BInt z => (- 2 ^ 63 <= z < 2 ^ 63)%Z
  | BStr s => N.of_nat (length s) < 2 ^ 64
  | BList l => (fix go (l : list bvalue) : Prop :=
                  match l with [] => True | x :: r => bv_wf x /\ go r end) l
  | BDict l => (fix go (l : list (bytes * bvalue)) : Prop :=
                  match l with
                  | [] => True
                  | kv :: r => (N.of_nat (length (fst kv)) < 2 ^ 64 /\ bv_wf (snd kv)) /\ go r
                  end) l
  end.

Lemma bv_wf_list l : bv_wf (BList l) <-> Forall bv_wf l.
Proof.
  cbn [bv_wf]. induction l as [|x l IH]; [split; constructor|].
  split.
  - intros [H1 H2]. constructor; [exact H1 | apply IH; exact H2].
  - intros H. inversion H; subst. split; [assumption | apply IH; assumption].
Qed.

Lemma bv_wf_dict l :
  bv_wf (BDict l) <-> Forall (fun kv => N.of_nat (length (fst kv)) < 2 ^ 64 /\ bv_wf (snd kv)) l.
Proof.
  cbn [bv_wf]. induction l as [|x l IH]; [split; constructor|].
  split.
  - intros [H1 H2]. constructor; [exact H1 | apply IH; exact H2].
  - intros H. inversion H; subst. split; [assumption | apply IH; assumption].
Qed.

Lemma ser_str_length s : (1 <= length (ser_str s))%nat.
Proof. unfold ser_str. rewrite app_length. cbn. lia. Qed.

Lemma ser_length_pos v : (1 <= length (ser v))%nat.
Proof.
  destruct v; [cbn [ser]; unfold ser_int | apply ser_str_length | rewrite ser_BList | rewrite ser_BDict];
    cbn [length]; lia.
Qed.

(* the generic round trip, in the shape the callers need: the first token is read
   by [tok], it is not End, and [any_from] on it rebuilds the tree *)
Lemma any_ser_tok : forall v, bv_wf v -> forall f d rest lg mx,
  (length (ser v) <= f)%nat ->
  exists t s1 lg' mx',
    tok (mkSt (ser v ++ rest) lg mx) = (s1, Ok t) /\ t <> TEnd /\
    any_from f d t s1 = (mkSt rest lg' mx', Ok (content_of v)).
Proof.
  induction v as [z|s|l IH|l IH] using bvalue_ind'; intros Hwf f d rest lg mx Hf.
  - destruct (tok_int z rest Hwf lg mx) as [lg' [mx' E]].
    exists (TInt z), (mkSt rest lg' mx'), lg', mx'. split; [exact E|]. split; [discriminate|].
    destruct f; [pose proof (ser_length_pos (BInt z)); lia|]. reflexivity.
  - destruct (tok_str s rest Hwf lg mx) as [lg' [mx' E]].
    exists (TBytes s), (mkSt rest lg' mx'), lg', mx'. split; [exact E|]. split; [discriminate|].
    destruct f; [pose proof (ser_length_pos (BStr s)); lia|]. reflexivity.
  - rewrite ser_BList in *. cbn [app].
    exists TList. eexists. 
    assert (Hl : forall f d rest lg mx, (length (ser_list l) + 1 <= f)%nat ->
               exists lg' mx', any_list f d (mkSt (ser_list l ++ ch_e :: rest) lg mx)
                               = (mkSt rest lg' mx', Ok (map content_of l))).
    { apply bv_wf_list in Hwf. clear Hf f d rest lg mx.
      induction l as [|x l IHl]; intros f d rest lg mx Hf.
      - destruct f; [cbn in Hf; lia|]. cbn [ser_list flat_map app any_list].
        eexists _, _. reflexivity.
      - inversion IH as [|? ? IHx IHr]; subst. inversion Hwf as [|? ? Hx Hr]; subst.
        destruct f; [lia|]. cbn [ser_list flat_map] in *. rewrite app_length in Hf.
        fold (ser_list l) in *. rewrite <- app_assoc.
        pose proof (ser_length_pos x) as Hpos.
        destruct (IHx Hx f d (ser_list l ++ ch_e :: rest) lg mx ltac:(lia)) as [t [s1 [lg1 [mx1 [Et [Hne Ea]]]]]].
        destruct (IHl IHr Hr f d rest lg1 mx1 ltac:(lia)) as [lg2 [mx2 El]].
        exists lg2, mx2. cbn [any_list]. unfold bind at 1. rewrite Et.
        destruct t; try congruence; unfold bind; rewrite Ea, El; reflexivity. }
    cbn [length] in Hf. rewrite app_length in Hf. cbn [length] in Hf.
    destruct f; [lia|].
    destruct (Hl f (S d) rest lg (Nat.max mx (S d)) ltac:(lia)) as [lg' [mx' El]].
    exists lg', mx'. split; [reflexivity|]. split; [discriminate|].
    cbn [any_from]. unfold bind, enter. cbn [s_in s_log s_max set_in].
    rewrite <- app_assoc. cbn [app]. rewrite El. reflexivity.
  - rewrite ser_BDict in *. cbn [app].
    exists TMap. eexists.
    assert (Hl : forall f d rest lg mx, (length (ser_dict l) + 1 <= f)%nat ->
               exists lg' mx', any_map f d (mkSt (ser_dict l ++ ch_e :: rest) lg mx)
                               = (mkSt rest lg' mx',
                                  Ok (map (fun kv => (CStr (fst kv), content_of (snd kv))) l))).
    { apply bv_wf_dict in Hwf. clear Hf f d rest lg mx.
      induction l as [|x l IHl]; intros f d rest lg mx Hf.
      - destruct f; [cbn in Hf; lia|]. cbn [ser_dict flat_map app any_map].
        eexists _, _. reflexivity.
      - inversion IH as [|? ? IHx IHr]; subst. inversion Hwf as [|? ? [Hk Hx] Hr]; subst.
        destruct f; [lia|]. cbn [ser_dict flat_map] in *. rewrite !app_length in Hf.
        fold (ser_dict l) in *. rewrite <- !app_assoc.
        pose proof (ser_length_pos (snd x)) as Hpos. pose proof (ser_str_length (fst x)) as Hpos2.
        destruct (tok_str (fst x) (ser (snd x) ++ ser_dict l ++ ch_e :: rest) Hk lg mx) as [lg0 [mx0 Ek]].
        destruct (IHx Hx f d (ser_dict l ++ ch_e :: rest) lg0 mx0 ltac:(lia)) as [t [s1 [lg1 [mx1 [Et [Hne Ea]]]]]].
        destruct (IHl IHr Hr f d rest lg1 mx1 ltac:(lia)) as [lg2 [mx2 El]].
        assert (Hkf : any_from f d (TBytes (fst x)) = ret (CStr (fst x)))
          by (destruct f; [lia | reflexivity]).
        exists lg2, mx2. cbn [any_map]. unfold bind at 1. rewrite Ek.
        rewrite Hkf. unfold bind, ret. rewrite Et, Ea, El. reflexivity. }
    cbn [length] in Hf. rewrite app_length in Hf. cbn [length] in Hf.
    destruct f; [lia|].
    destruct (Hl f (S d) rest lg (Nat.max mx (S d)) ltac:(lia)) as [lg' [mx' El]].
    exists lg', mx'. split; [reflexivity|]. split; [discriminate|].
    cbn [any_from]. unfold bind, enter. cbn [s_in s_log s_max set_in].
    rewrite <- app_assoc. cbn [app]. rewrite El. reflexivity.
Qed.

(* ------------------------------------------------------------------ *)
(* precheck                                                           *)

Ltac len_lia := repeat (progress (rewrite ?app_length in *; cbn [length] in *)); lia.

Lemma split_at_byte_length d s a r : split_at_byte d s = Some (a, r) -> length s = (length a + 1 + length r)%nat.
Proof. intros H. apply split_at_byte_spec in H as [-> _]. rewrite app_length. cbn. lia. Qed.

(* the fuel of [scan] is irrelevant as soon as it exceeds the input length *)
Lemma scan_fuel : forall f1 f2 d s, (length s < f1)%nat -> (length s < f2)%nat -> scan f1 d s = scan f2 d s.
Proof.
  induction f1 as [|f1 IH]; intros f2 d s H1 H2; [lia|].
  destruct f2 as [|f2]; [lia|].
  destruct s as [|c r]; [reflexivity|].
  cbn [length] in H1, H2.
  assert (Hafter : forall k s' d', (length s' <= length r)%nat ->
     (if Nat.eqb d' 0 then Some k else option_map (fun n => (k + n)%nat) (scan f1 d' s'))
     = (if Nat.eqb d' 0 then Some k else option_map (fun n => (k + n)%nat) (scan f2 d' s'))).
  { intros k s' d' Hl. destruct (Nat.eqb d' 0); [reflexivity|]. rewrite (IH f2) by lia. reflexivity. }
  cbn [scan]. destruct (c =? ch_i).
  - destruct (split_at_byte ch_e r) as [[ds r']|] eqn:E; [|reflexivity].
    apply Hafter. apply split_at_byte_length in E. lia.
  - destruct (is_digit c).
    + destruct (split_at_byte ch_colon r) as [[ds r']|] eqn:E; [|reflexivity].
      destruct (parse_usize (c :: ds)) as [len|]; [|reflexivity].
      destruct (N.of_nat (length r') <? len); [reflexivity|].
      apply Hafter. apply split_at_byte_length in E. rewrite skipn_length. lia.
    + destruct ((c =? ch_l) || (c =? ch_d)).
      * destruct (Nat.ltb max_depth (S d)); [reflexivity|]. apply Hafter. lia.
      * destruct (c =? ch_e); [|reflexivity]. destruct d as [|d']; [reflexivity|]. apply Hafter. lia.
Qed.

(* nesting depth of a tree: 0 for integers and strings *)
Fixpoint vdepth (v : bvalue) : nat :=
  match v with
  | BInt _ | BStr _ => 0%nat
  | BList l => S ((fix go (l : list bvalue) : nat :=
                     match l with [] => 0%nat | x :: r => Nat.max (vdepth x) (go r) end) l)
  | BDict l => S ((fix go (l : list (bytes * bvalue)) : nat :=
                     match l with [] => 0%nat | kv :: r => Nat.max (vdepth (snd kv)) (go r) end) l)
  end.

Definition list_depth (l : list bvalue) : nat := fold_right (fun x a => Nat.max (vdepth x) a) 0%nat l.
Definition dict_depth (l : list (bytes * bvalue)) : nat := fold_right (fun kv a => Nat.max (vdepth (snd kv)) a) 0%nat l.

Lemma vdepth_BList l : vdepth (BList l) = S (list_depth l).
Proof. reflexivity. Qed.
Lemma vdepth_BDict l : vdepth (BDict l) = S (dict_depth l).
Proof. reflexivity. Qed.

Lemma scan_open f d c r : c = ch_l \/ c = ch_d ->
  scan (S f) d (c :: r) = if Nat.ltb max_depth (S d) then None
                          else option_map (fun n => (1 + n)%nat) (scan f (S d) r).
Proof. intros [-> | ->]; reflexivity. Qed.

Lemma scan_close f d' r :
  scan (S f) (S d') (ch_e :: r) = if Nat.eqb d' 0 then Some 1%nat
                                  else option_map (fun n => (1 + n)%nat) (scan f d' r).
Proof. reflexivity. Qed.

(* one string token inside a container *)
Lemma scan_str f d s rest :
  d <> 0%nat -> N.of_nat (length s) < 2 ^ 64 -> (length (ser_str s ++ rest) < f)%nat ->
  scan f d (ser_str s ++ rest) = option_map (fun n => (length (ser_str s) + n)%nat) (scan f d rest).
Proof.
  intros Hd Hs Hf. destruct f as [|f]; [lia|].
  remember (scan (S f) d rest) as R eqn:HR.
  unfold ser_str in *. destruct (dec_N_first (N.of_nat (length s))) as [c [ds [E [Hc Hds]]]].
  rewrite E in *. cbn [app] in *. cbn [scan].
  assert (Hci : (c =? ch_i) = false) by (apply is_digit_spec in Hc; unfold ch_i; lia).
  rewrite Hci, Hc. rewrite <- app_assoc. cbn [app].
  rewrite split_at_byte_app by (apply digits_no; [reflexivity | assumption]).
  rewrite <- E, parse_usize_dec_N by assumption.
  rewrite app_length.
  replace (N.of_nat (length s + length rest) <? N.of_nat (length s)) with false by lia.
  rewrite Nat2N.id, skipn_app, Nat.sub_diag, skipn_all. cbn [skipn app].
  destruct (Nat.eqb d 0) eqn:Ed; [apply Nat.eqb_eq in Ed; contradiction|].
  cbn [length] in Hf. rewrite !app_length in Hf. cbn [length] in Hf.
  rewrite (scan_fuel f (S f)) by lia. rewrite <- HR.
  destruct R; [|reflexivity]. cbn [option_map]. f_equal.
  cbn [length]. rewrite !app_length. cbn [length]. lia.
Qed.

Lemma scan_int f d z rest :
  d <> 0%nat -> (- 2 ^ 63 <= z < 2 ^ 63)%Z -> (length (ser_int z ++ rest) < f)%nat ->
  scan f d (ser_int z ++ rest) = option_map (fun n => (length (ser_int z) + n)%nat) (scan f d rest).
Proof.
  intros Hd Hz Hf. destruct f as [|f]; [lia|].
  remember (scan (S f) d rest) as R eqn:HR.
  unfold ser_int in *. cbn [app] in *. cbn [scan]. rewrite N.eqb_refl.
  rewrite <- app_assoc. cbn [app].
  rewrite split_at_byte_app by (apply dec_Z_shape; assumption).
  destruct (Nat.eqb d 0) eqn:Ed; [apply Nat.eqb_eq in Ed; contradiction|].
  cbn [length] in Hf. rewrite !app_length in Hf. cbn [length] in Hf.
  rewrite (scan_fuel f (S f)) by lia. rewrite <- HR.
  destruct R; [|reflexivity]. cbn [option_map]. f_equal.
  cbn [length]. rewrite !app_length. cbn [length]. lia.
Qed.

(* a whole value inside a container at nesting [d] >= 1 *)
Lemma scan_ser : forall v, bv_wf v -> forall f d rest,
  d <> 0%nat -> (d + vdepth v <= max_depth)%nat -> (length (ser v ++ rest) < f)%nat ->
  scan f d (ser v ++ rest) = option_map (fun n => (length (ser v) + n)%nat) (scan f d rest).
Proof.
  induction v as [z|s|l IH|l IH] using bvalue_ind'; intros Hwf f d rest Hd Hdep Hf.
  - apply scan_int; assumption.
  - apply scan_str; assumption.
  - rewrite ser_BList in *. rewrite vdepth_BList in Hdep.
    assert (Hl : forall f rest, (length (ser_list l ++ rest) < f)%nat ->
               scan f (S d) (ser_list l ++ rest)
               = option_map (fun n => (length (ser_list l) + n)%nat) (scan f (S d) rest)).
    { apply bv_wf_list in Hwf. clear Hf f rest.
      induction l as [|x l IHl]; intros f rest Hf.
      - cbn [ser_list flat_map app length]. destruct (scan f (S d) rest); reflexivity.
      - inversion IH as [|? ? IHx IHr]; subst. inversion Hwf as [|? ? Hx Hr]; subst.
        cbn [list_depth fold_right] in Hdep. fold (list_depth l) in Hdep.
        cbn [ser_list flat_map] in *. fold (ser_list l) in *. rewrite <- app_assoc in *.
        rewrite IHx by (first [assumption | lia | len_lia]).
        rewrite app_length in Hf.
        rewrite IHl by (first [assumption | lia | len_lia]).
        destruct (scan f (S d) rest); [|reflexivity]. cbn [option_map]. f_equal.
        rewrite app_length. lia. }
    remember (scan f d rest) as R eqn:HR.
    destruct f as [|f]; [lia|]. cbn [app]. cbn [scan].
    replace (ch_l =? ch_i) with false by reflexivity.
    replace (is_digit ch_l) with false by reflexivity.
    replace ((ch_l =? ch_l) || (ch_l =? ch_d)) with true by reflexivity.
    destruct (Nat.ltb max_depth (S d)) eqn:El; [apply Nat.ltb_lt in El; lia|].
    cbn [Nat.eqb]. cbn [length] in Hf. rewrite <- app_assoc. rewrite !app_length in Hf. cbn [length app] in Hf.
    rewrite Hl by len_lia. cbn [app].
    (* the closing e, back to depth d *)
    destruct f as [|f]; [len_lia|]. cbn [scan].
    replace (ch_e =? ch_i) with false by reflexivity.
    replace (is_digit ch_e) with false by reflexivity.
    replace ((ch_e =? ch_l) || (ch_e =? ch_d)) with false by reflexivity.
    replace (ch_e =? ch_e) with true by reflexivity.
    destruct (Nat.eqb d 0) eqn:Ed; [apply Nat.eqb_eq in Ed; contradiction|].
    rewrite (scan_fuel f (S (S f))) by len_lia. rewrite <- HR.
    destruct R; [|reflexivity]. cbn [option_map]. f_equal. len_lia.
  - rewrite ser_BDict in *. rewrite vdepth_BDict in Hdep.
    assert (Hl : forall f rest, (length (ser_dict l ++ rest) < f)%nat ->
               scan f (S d) (ser_dict l ++ rest)
               = option_map (fun n => (length (ser_dict l) + n)%nat) (scan f (S d) rest)).
    { apply bv_wf_dict in Hwf. clear Hf f rest.
      induction l as [|x l IHl]; intros f rest Hf.
      - cbn [ser_dict flat_map app length]. destruct (scan f (S d) rest); reflexivity.
      - inversion IH as [|? ? IHx IHr]; subst. inversion Hwf as [|? ? [Hk Hx] Hr]; subst.
        cbn [dict_depth fold_right] in Hdep. fold (dict_depth l) in Hdep.
        cbn [ser_dict flat_map] in *. fold (ser_dict l) in *. rewrite <- !app_assoc in *.
        rewrite !app_length in Hf.
        rewrite scan_str by (first [assumption | discriminate | len_lia]).
        rewrite IHx by (first [assumption | discriminate | lia | len_lia]).
        rewrite IHl by (first [assumption | lia | len_lia]).
        destruct (scan f (S d) rest); [|reflexivity]. cbn [option_map]. f_equal.
        rewrite !app_length. lia. }
    remember (scan f d rest) as R eqn:HR.
    destruct f as [|f]; [lia|]. cbn [app]. cbn [scan].
    replace (ch_d =? ch_i) with false by reflexivity.
    replace (is_digit ch_d) with false by reflexivity.
    replace ((ch_d =? ch_l) || (ch_d =? ch_d)) with true by reflexivity.
    destruct (Nat.ltb max_depth (S d)) eqn:El; [apply Nat.ltb_lt in El; lia|].
    cbn [Nat.eqb]. cbn [length] in Hf. rewrite <- app_assoc. rewrite !app_length in Hf. cbn [length app] in Hf.
    rewrite Hl by len_lia. cbn [app].
    destruct f as [|f]; [len_lia|]. cbn [scan].
    replace (ch_e =? ch_i) with false by reflexivity.
    replace (is_digit ch_e) with false by reflexivity.
    replace ((ch_e =? ch_l) || (ch_e =? ch_d)) with false by reflexivity.
    replace (ch_e =? ch_e) with true by reflexivity.
    destruct (Nat.eqb d 0) eqn:Ed; [apply Nat.eqb_eq in Ed; contradiction|].
    rewrite (scan_fuel f (S (S f))) by len_lia. rewrite <- HR.
    destruct R; [|reflexivity]. cbn [option_map]. f_equal. len_lia.
Qed.

(* a top-level dictionary followed by anything: the scan ends exactly behind it *)
Lemma precheck_dict l trailing :
  bv_wf (BDict l) -> (vdepth (BDict l) <= max_depth)%nat ->
  precheck (ser (BDict l) ++ trailing) = Some (length (ser (BDict l))).
Proof.
  intros Hwf Hdep. unfold precheck. rewrite ser_BDict in *. cbn [app].
  rewrite vdepth_BDict in Hdep.
  (* the entries: as in scan_ser at depth 1 *)
  assert (Hl : forall l, Forall (fun kv => N.of_nat (length (fst kv)) < 2 ^ 64 /\ bv_wf (snd kv)) l ->
             (1 + dict_depth l <= max_depth)%nat ->
             forall f rest, (length (ser_dict l ++ rest) < f)%nat ->
               scan f 1 (ser_dict l ++ rest)
               = option_map (fun n => (length (ser_dict l) + n)%nat) (scan f 1 rest)).
  { clear. induction l as [|x l IHl]; intros Hwf Hdep f rest Hf.
    - cbn [ser_dict flat_map app length]. destruct (scan f 1 rest); reflexivity.
    - inversion Hwf as [|? ? [Hk Hx] Hr]; subst.
      cbn [dict_depth fold_right] in Hdep. fold (dict_depth l) in Hdep.
      cbn [ser_dict flat_map] in *. fold (ser_dict l) in *. rewrite <- !app_assoc in *.
      rewrite scan_str by (first [assumption | discriminate | len_lia]).
      rewrite scan_ser by (first [assumption | discriminate | lia | len_lia]).
      rewrite IHl by (first [assumption | lia | len_lia]).
      destruct (scan f 1 rest); [|reflexivity]. cbn [option_map]. f_equal. len_lia. }
  rewrite scan_open by (right; reflexivity).
  destruct (Nat.ltb max_depth 1) eqn:El; [apply Nat.ltb_lt in El; lia|].
  rewrite <- app_assoc. cbn [app].
  rewrite Hl; [|apply bv_wf_dict; exact Hwf | lia | len_lia].
  cbn [length]. rewrite !app_length. cbn [length].
  replace (length (ser_dict l) + S (length trailing))%nat with (S (length (ser_dict l) + length trailing)) by lia.
  rewrite scan_close. cbn [Nat.eqb option_map]. f_equal; try len_lia.
Qed.

(* ------------------------------------------------------------------ *)
(* the key sort; canonical = order-preserving serialisation of a sorted tree *)

Fixpoint keys_sorted {A} (l : list (bytes * A)) : Prop :=
  match l with
  | [] => True
  | x :: r => match r with
              | [] => True
              | y :: _ => bytes_ltb (fst x) (fst y) = true
              end /\ keys_sorted r
  end.

Lemma bytes_ltb_irrefl a : bytes_ltb a a = false.
Proof. induction a as [|x a IH]; [reflexivity|]. cbn. rewrite IH. lia. Qed.

Lemma bytes_ltb_asym a : forall b, bytes_ltb a b = true -> bytes_ltb b a = false.
Proof.
  induction a as [|x a IH]; intros [|y b] H; cbn in *; try reflexivity; try discriminate.
  destruct (x <? y) eqn:E1.
  - replace (y <? x) with false by lia. replace (y =? x) with false by lia. reflexivity.
  - cbn in H. apply andb_true_iff in H as [E2 H]. apply N.eqb_eq in E2. subst.
    rewrite N.ltb_irrefl, N.eqb_refl. cbn. apply IH. exact H.
Qed.

Lemma sort_kv_sorted {A} (l : list (bytes * A)) : keys_sorted l -> sort_kv l = l.
Proof.
  induction l as [|x l IH]; intros H; [reflexivity|].
  cbn [sort_kv]. destruct H as [H1 H2]. rewrite (IH H2).
  destruct l as [|y l']; [reflexivity|]. cbn [insert_kv].
  rewrite (bytes_ltb_asym _ _ H1). reflexivity.
Qed.

(* every dictionary of the tree has strictly increasing keys *)
Fixpoint bv_sorted (v : bvalue) : Prop :=
  match v with
  | BInt _ | BStr _ => True
  | BList l => (fix go (l : list bvalue) : Prop :=
                  match l with [] => True | x :: r => bv_sorted x /\ go r end) l
  | BDict l => keys_sorted l /\
               (fix go (l : list (bytes * bvalue)) : Prop :=
                  match l with [] => True | kv :: r => bv_sorted (snd kv) /\ go r end) l
  end.

Lemma bv_sorted_list l : bv_sorted (BList l) <-> Forall bv_sorted l.
Proof.
  cbn [bv_sorted]. induction l as [|x l IH]; [split; constructor|].
  split.
  - intros [H1 H2]. constructor; [exact H1 | apply IH; exact H2].
  - intros H. inversion H; subst. split; [assumption | apply IH; assumption].
Qed.

Lemma bv_sorted_dict l : bv_sorted (BDict l) <-> keys_sorted l /\ Forall (fun kv => bv_sorted (snd kv)) l.
Proof.
  cbn [bv_sorted]. split; intros [Hk H]; (split; [exact Hk|]).
  - induction l as [|x l IH]; [constructor|]. destruct H as [H1 H2].
    constructor; [exact H1|]. apply IH; [|exact H2]. destruct Hk as [_ Hk]. exact Hk.
  - induction l as [|x l IH]; [exact I|]. inversion H; subst.
    split; [assumption|]. apply IH; [|assumption]. destruct Hk as [_ Hk]. exact Hk.
Qed.

Lemma keys_sorted_map {A B} (f : A -> B) (l : list (bytes * A)) :
  keys_sorted l -> keys_sorted (map (fun kv => (fst kv, f (snd kv))) l).
Proof.
  induction l as [|x l IH]; intros H; [exact I|]. destruct H as [H1 H2].
  cbn [map keys_sorted]. split; [|apply IH; exact H2].
  destruct l as [|y l']; [exact I|]. exact H1.
Qed.

Lemma canon_BList l : canon (BList l) = ch_l :: flat_map canon l ++ [ch_e].
Proof. reflexivity. Qed.
Lemma canon_BDict l :
  canon (BDict l) = ch_d :: ser_entries (sort_kv (map (fun kv => (fst kv, canon (snd kv))) l)) ++ [ch_e].
Proof. reflexivity. Qed.

Lemma canon_ser : forall v, bv_sorted v -> canon v = ser v.
Proof.
  induction v as [z|s|l IH|l IH] using bvalue_ind'; intros Hs; try reflexivity.
  - rewrite canon_BList, ser_BList. f_equal. f_equal.
    apply bv_sorted_list in Hs. unfold ser_list.
    induction l as [|x l IHl]; [reflexivity|].
    inversion IH; subst. inversion Hs; subst. cbn [flat_map]. f_equal; auto.
  - rewrite canon_BDict, ser_BDict. apply bv_sorted_dict in Hs as [Hk Hs].
    rewrite sort_kv_sorted by (apply keys_sorted_map; exact Hk).
    f_equal. f_equal. unfold ser_entries, ser_dict. clear Hk.
    induction l as [|x l IHl]; [reflexivity|].
    inversion IH; subst. inversion Hs; subst. cbn [map flat_map fst snd]. f_equal; [|auto].
    f_equal. auto.
Qed.

(* generic round trip *)
Lemma bvalue_of_content_of : forall v, bvalue_of (content_of v) = Some v.
Proof.
  induction v as [z|s|l IH|l IH] using bvalue_ind'; try reflexivity.
  - cbn [content_of bvalue_of].
    assert (H : (fix go (l : list content) : option (list bvalue) :=
                   match l with
                   | [] => Some []
                   | x :: r => match bvalue_of x, go r with
                               | Some v, Some vs => Some (v :: vs)
                               | _, _ => None
                               end
                   end) (map content_of l) = Some l).
    { induction l as [|x l IHl]; [reflexivity|]. inversion IH; subst.
      cbn [map]. rewrite H1, (IHl H2). reflexivity. }
    rewrite H. reflexivity.
  - cbn [content_of bvalue_of].
    assert (H : (fix go (l : list (content * content)) : option (list (bytes * bvalue)) :=
                   match l with
                   | [] => Some []
                   | (CStr k, x) :: r => match bvalue_of x, go r with
                                         | Some v, Some vs => Some ((k, v) :: vs)
                                         | _, _ => None
                                         end
                   | _ => None
                   end) (map (fun kv => (CStr (fst kv), content_of (snd kv))) l) = Some l).
    { induction l as [|x l IHl]; [reflexivity|]. inversion IH; subst.
      cbn [map]. rewrite H1, (IHl H2). destruct x; reflexivity. }
    rewrite H. reflexivity.
Qed.

Lemma parse_value_ser v rest : bv_wf v -> parse_value (ser v ++ rest) = Some (v, rest).
Proof.
  intros Hwf. unfold parse_value, any, init_st.
  destruct (any_ser_tok v Hwf (fuel_for (length (ser v ++ rest))) 0 rest [] 0%nat) as [t [s1 [lg' [mx' [Et [_ Ea]]]]]].
  { unfold fuel_for. rewrite app_length. lia. }
  unfold bind. rewrite Et, Ea. cbn [s_in]. rewrite bvalue_of_content_of. reflexivity.
Qed.

Lemma parse_value_canon v : bv_wf v -> bv_sorted v -> parse_value (canon v) = Some (v, []).
Proof.
  intros Hwf Hs. rewrite (canon_ser v Hs), <- (app_nil_r (ser v)). apply parse_value_ser. exact Hwf.
Qed.
