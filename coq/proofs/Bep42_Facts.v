From BT Require Import model.Prelude model.Bep42 gen.Consts proofs.Prelude_Facts.
From Coq Require Import ZifyBool ZifyN ZifyNat.

Lemma crc_step_lt c : c < 2 ^ 32 -> crc_step c < 2 ^ 32.
Proof.
  intros H. unfold crc_step. destruct (N.testbit c 0).
  - apply lxor_lt_pow2; [apply shiftr1_lt_pow2; exact H | vm_compute; reflexivity].
  - apply shiftr1_lt_pow2; exact H.
Qed.

Lemma crc_bits_lt k : forall c, c < 2 ^ 32 -> crc_bits k c < 2 ^ 32.
Proof. induction k as [|k IH]; intros c H; cbn; [exact H|]. apply IH, crc_step_lt, H. Qed.

Lemma crc_byte_lt c b : c < 2 ^ 32 -> b < 256 -> crc_byte c b < 2 ^ 32.
Proof.
  intros Hc Hb. unfold crc_byte. apply crc_bits_lt. apply lxor_lt_pow2; [exact Hc|].
  eapply N.lt_trans; [exact Hb|]. vm_compute; reflexivity.
Qed.

Lemma crc_fold_lt data : forall c, c < 2 ^ 32 -> bytes_ok data = true ->
  fold_left crc_byte data c < 2 ^ 32.
Proof.
  induction data as [|b data IH]; intros c Hc Hd; cbn [fold_left]; [exact Hc|].
  cbn in Hd. apply andb_true_iff in Hd as [Hb Hd]. unfold byte_ok in Hb.
  apply IH; [apply crc_byte_lt; lia | exact Hd].
Qed.

Lemma crc32c_lt data : bytes_ok data = true -> crc32c data < 2 ^ 32.
Proof.
  intros H. unfold crc32c. apply lxor_lt_pow2; [|vm_compute; reflexivity].
  apply crc_fold_lt; [vm_compute; reflexivity | exact H].
Qed.

(* the masks read from the source are the masks of the BEP text *)
Lemma masked_is_bep a : masked a = bep_masked a.
Proof. destruct a; reflexivity. Qed.

Lemma and_mask_ok o m : bytes_ok m = true -> bytes_ok (and_mask o m) = true.
Proof.
  revert m. induction o as [|x o IH]; intros m Hm; [reflexivity|].
  destruct m as [|y m]; [reflexivity|]. cbn in *.
  apply andb_true_iff in Hm as [Hy Hm]. apply andb_true_iff; split; [|apply IH, Hm].
  unfold byte_ok in *.
  assert (N.land x y < 2 ^ 8) by (apply land_lt_pow2_r; change (2 ^ 8) with 256; lia).
  change (2 ^ 8) with 256 in *. lia.
Qed.

Lemma low3_sweep :
  forallb_below 256 (fun y => forallb_below 256 (fun r =>
    (N.lor (N.land y 0xf8) (N.land r 7) / 8 =? y / 8) &&
    (N.lor (N.land y 0xf8) (N.land r 7) <? 256))) = true.
Proof. vm_compute. reflexivity. Qed.

Lemma low3 y r : y < 256 -> r < 256 ->
  N.lor (N.land y 0xf8) (N.land r 7) / 8 = y / 8 /\ N.lor (N.land y 0xf8) (N.land r 7) < 256.
Proof.
  intros Hy Hr.
  pose proof (forallb_below_spec _ _ low3_sweep y Hy) as H1. cbv beta in H1.
  pose proof (forallb_below_spec _ _ H1 r Hr) as H2. cbv beta in H2.
  apply andb_true_iff in H2 as [A B]. split; lia.
Qed.

Lemma mix_sweep :
  forallb_below 256 (fun x => forallb_below 256 (fun r =>
    N.lor x (N.shiftl (N.land r 7) 5) <? 256)) = true.
Proof. vm_compute. reflexivity. Qed.

Lemma mix_r_ok m r : bytes_ok m = true -> r < 256 -> bytes_ok (mix_r m r) = true.
Proof.
  intros Hm Hr. destruct m as [|x m]; [reflexivity|]. cbn in *.
  apply andb_true_iff in Hm as [Hx Hm]. rewrite Hm, andb_true_r. unfold byte_ok in *.
  pose proof (forallb_below_spec _ _ mix_sweep x ltac:(lia)) as H1. cbv beta in H1.
  exact (forallb_below_spec _ _ H1 r Hr).
Qed.

Lemma land7_idem_sweep : forallb_below 256 (fun r => N.land (N.land r 7) 7 =? N.land r 7) = true.
Proof. vm_compute. reflexivity. Qed.

Lemma bep_masked_ok a : bytes_ok (bep_masked a) = true.
Proof. destruct a; apply and_mask_ok; reflexivity. Qed.

Lemma top21_arith c : c < 2 ^ 32 ->
  ((((c / 2 ^ 24) mod 256) * 256 + (c / 2 ^ 16) mod 256) * 256 + (c / 2 ^ 8) mod 256) / 8
  = c / 2 ^ 11.
Proof.
  intros H.
  change (2 ^ 24) with 16777216. change (2 ^ 16) with 65536. change (2 ^ 8) with 256.
  change (2 ^ 11) with 2048. change (2 ^ 32) with 4294967296 in H.
  Local Ltac Zify.zify_post_hook ::= Z.div_mod_to_equations.
  lia.
Qed.

Theorem from_ip_valid a r1 r2 rest :
  ip_wf a = true -> r1 < 256 -> r2 < 256 ->
  length rest = 16%nat -> bytes_ok rest = true ->
  bep42_valid a (from_ip a r1 r2 rest) = true.
Proof.
  intros Hwf Hr1 Hr2 Hlen Hrest.
  unfold bep42_valid, from_ip. rewrite masked_is_bep.
  set (crc := crc32c (mix_r (bep_masked a) r1)).
  assert (Hcrc : crc < 2 ^ 32).
  { apply crc32c_lt, mix_r_ok; [apply bep_masked_ok | exact Hr1]. }
  set (b0 := N.land (N.shiftr crc 24) 255).
  set (b1 := N.land (N.shiftr crc 16) 255).
  set (y := N.land (N.shiftr crc 8) 255).
  set (b2 := N.lor (N.land y 248) (N.land r2 7)).
  assert (Hb0 : b0 = (crc / 2 ^ 24) mod 256).
  { unfold b0. change 255 with (N.ones 8). rewrite N.land_ones, N.shiftr_div_pow2. reflexivity. }
  assert (Hb1 : b1 = (crc / 2 ^ 16) mod 256).
  { unfold b1. change 255 with (N.ones 8). rewrite N.land_ones, N.shiftr_div_pow2. reflexivity. }
  assert (Hy : y = (crc / 2 ^ 8) mod 256).
  { unfold y. change 255 with (N.ones 8). rewrite N.land_ones, N.shiftr_div_pow2. reflexivity. }
  assert (Hy256 : y < 256) by (rewrite Hy; apply N.mod_lt; discriminate).
  destruct (low3 y r2 Hy256 Hr2) as [Hb2div Hb2lt]. fold b2 in Hb2div, Hb2lt.
  assert (Hlenid : length ([b0; b1; b2] ++ rest ++ [r1]) = 20%nat).
  { rewrite !app_length, Hlen. reflexivity. }
  rewrite Hlenid. cbn [N.of_nat Pos.of_succ_nat Pos.succ N.eqb Pos.eqb andb].
  assert (Hok : bytes_ok ([b0; b1; b2] ++ rest ++ [r1]) = true).
  { rewrite !bytes_ok_app, Hrest. cbn. unfold byte_ok.
    assert (b0 < 256) by (rewrite Hb0; apply N.mod_lt; discriminate).
    assert (b1 < 256) by (rewrite Hb1; apply N.mod_lt; discriminate).
    lia. }
  rewrite Hok. cbn [andb].
  (* r = id[19] & 7 = r1 & 7, and mix_r only uses r & 7 *)
  assert (Hnth : nth 19 ([b0; b1; b2] ++ rest ++ [r1]) 0 = r1).
  { change ([b0; b1; b2] ++ rest ++ [r1]) with (b0 :: b1 :: b2 :: (rest ++ [r1])).
    cbn [nth]. rewrite app_nth2 by lia. rewrite Hlen. reflexivity. }
  rewrite Hnth.
  assert (Hmix : mix_r (bep_masked a) (N.land r1 7) = mix_r (bep_masked a) r1).
  { unfold mix_r. destruct (bep_masked a); [reflexivity|].
    pose proof (forallb_below_spec _ _ land7_idem_sweep r1 Hr1) as E. cbv beta in E.
    apply N.eqb_eq in E. rewrite E. reflexivity. }
  rewrite Hmix. fold crc.
  apply N.eqb_eq.
  (* the id as a number *)
  change ([b0; b1; b2] ++ rest ++ [r1]) with (b0 :: b1 :: b2 :: (rest ++ [r1])).
  rewrite !be_to_N_cons. rewrite be_to_N_app. cbn [length].
  rewrite !app_length, Hlen. cbn [length Nat.add].
  assert (Hlow : be_to_N rest * 256 ^ N.of_nat 1 + be_to_N [r1] < 2 ^ 136).
  { pose proof (be_to_N_lt rest Hrest) as L. rewrite Hlen in L.
    change (be_to_N [r1]) with (0 * 256 + r1).
    change (256 ^ N.of_nat 16) with (2 ^ 128) in L. change (256 ^ N.of_nat 1) with 256.
    change (2 ^ 136) with (2 ^ 128 * 256). nia. }
  set (low := be_to_N rest * 256 ^ N.of_nat 1 + be_to_N [r1]) in *.
  change (256 ^ N.of_nat 19) with (2 ^ 139 * 8192).
  change (256 ^ N.of_nat 18) with (2 ^ 139 * 32).
  change (256 ^ N.of_nat 17) with (2 ^ 136).
  change (2 ^ 139) with (2 ^ 136 * 8).
  set (P := 2 ^ 136) in *.
  assert (HP : 0 < P) by (unfold P; apply N.neq_0_lt_0, N.pow_nonzero; discriminate).
  replace (b0 * (P * 8 * 8192) + (b1 * (P * 8 * 32) + (b2 * P + low)))
    with (low + ((b0 * 256 + b1) * 256 + b2) * P) by lia.
  rewrite <- N.div_div by lia.
  rewrite N.div_add by lia. rewrite (N.div_small low P) by exact Hlow.
  rewrite N.add_0_l.
  rewrite <- (top21_arith crc Hcrc). rewrite <- Hb0, <- Hb1, <- Hy.
  clear - Hb2div. 
  Local Ltac Zify.zify_post_hook ::= Z.div_mod_to_equations.
  lia.
Qed.
