(* Facts about the handler / lookup / refresh model (C03, C05, C12, C16, C18 ...). *)
From BT Require Import model.Prelude gen.Consts model.Compact model.Krpc model.Token model.Storage model.Table model.Txn model.Handler.
From BT Require Import proofs.Prelude_Facts proofs.Txn_Facts proofs.Table_Facts proofs.TableInv_Facts proofs.TableOps_Facts.
From Coq Require Import ZifyBool ZifyN ZifyNat.
Open Scope Z_scope.

(* ------------------------------------------------------------------ outputs of the lookup code *)
Definition is_query_send (o : output) : bool :=
  match o with OSend _ (mkMsg _ (Req _)) => true | _ => false end.

(* c' extends c by query sends only; the timer only gains / loses lookup entries *)
Definition only_lookup_task (k : task) : bool := match k with TkRefresh => false | _ => true end.

Definition is_refresh_entry (e : tentry) : bool := negb (only_lookup_task (te_task e)).
Definition refresh_part (tm : timer) : list tentry := filter is_refresh_entry (tm_entries tm).

Record extP (P : output -> bool) (c c' : ctx) : Prop := {
  ext_out : exists l, cx_out c' = l ++ cx_out c /\ forallb P l = true;
  (* the refresh entries of the timer are only ever filtered (cancelled), never added *)
  ext_tm : exists f, refresh_part (cx_timer c') = filter f (refresh_part (cx_timer c))
}.

Lemma filter_true {A} (l : list A) : filter (fun _ => true) l = l.
Proof. induction l as [|x l IH]; cbn; [reflexivity | rewrite IH; reflexivity]. Qed.

Lemma filter_filter {A} (f g : A -> bool) l : filter f (filter g l) = filter (fun x => g x && f x) l.
Proof. induction l as [|x l IH]; cbn; [reflexivity|]. destruct (g x); cbn; [destruct (f x)|]; rewrite IH; reflexivity. Qed.

Lemma filter_comm {A} (f g : A -> bool) l : filter f (filter g l) = filter g (filter f l).
Proof. rewrite !filter_filter. apply filter_ext. intros x. apply andb_comm. Qed.
Notation ext := (extP is_query_send).

Lemma extP_refl P c : extP P c c.
Proof. constructor; [exists []; split; reflexivity | exists (fun _ => true); rewrite filter_true; reflexivity]. Qed.

Lemma extP_trans P a b c : extP P a b -> extP P b c -> extP P a c.
Proof.
  intros [[l1 [E1 F1]] [f1 T1]] [[l2 [E2 F2]] [f2 T2]]. constructor.
  - exists (l2 ++ l1). rewrite E2, E1, app_assoc. split; [reflexivity|]. rewrite forallb_app, F1, F2. reflexivity.
  - exists (fun x => f1 x && f2 x). rewrite T2, T1, filter_filter. reflexivity.
Qed.

Lemma extP_weaken (P Q : output -> bool) c c' : (forall o, P o = true -> Q o = true) -> extP P c c' -> extP Q c c'.
Proof.
  intros HPQ [[l [E F]] T]. constructor; [|exact T].
  exists l. split; [exact E|]. rewrite forallb_forall in *. intros o Ho. apply HPQ, F, Ho.
Qed.

Definition ext_refl := extP_refl is_query_send.
Definition ext_trans := extP_trans is_query_send.

Section Env.
  Variable I : ids.
  Variable sendok : nat -> bool.
  Variable own : N.
  Variable now : Z.

  Lemma send_ext c dst tid q : ext c (fst (send sendok c dst (mkMsg tid (Req q)))).
  Proof. constructor; cbn; [exists [OSend dst (mkMsg tid (Req q))]; split; reflexivity | exists (fun _ => true); rewrite filter_true; reflexivity]. Qed.

  Lemma mark_local_ext c h : ext c (mark_local now c h).
  Proof. constructor; cbn; [exists []; split; reflexivity | exists (fun _ => true); rewrite filter_true; reflexivity]. Qed.

  Lemma sched_ext c d k (Hk : only_lookup_task k = true) :
    ext c (mkCtx (cx_table c) (fst (schedule_in now d k (cx_timer c))) (cx_sends c) (cx_out c)).
  Proof.
    constructor; cbn [cx_out cx_timer]; [exists []; split; reflexivity|].
    exists (fun _ => true). rewrite filter_true. unfold refresh_part, schedule_in. cbn [fst tm_entries].
    rewrite filter_app. cbn [filter]. unfold is_refresh_entry at 2. cbn [te_task]. rewrite Hk. cbn. apply app_nil_r.
  Qed.

  Lemma cancel_ext c key : ext c (mkCtx (cx_table c) (cancel key (cx_timer c)) (cx_sends c) (cx_out c)).
  Proof.
    constructor; cbn [cx_out cx_timer]; [exists []; split; reflexivity|].
    eexists. unfold refresh_part, cancel. cbn [tm_entries]. apply filter_comm.
  Qed.

  Lemma request_round_ext : forall nodes lk c sent,
    ext c (snd (fst (request_round I sendok own now nodes lk c sent))).
  Proof.
    induction nodes as [|[h dist] r IH]; intros lk c sent; cbn [request_round]; [apply ext_refl|].
    destruct (gen_tid I lk) as [tid lk1] eqn:Eg.
    destruct (schedule_in now lookup_timeout (TkLookupTimeout tid) (cx_timer c)) as [tm key] eqn:Es.
    set (c1 := mkCtx (cx_table c) tm (cx_sends c) (cx_out c)).
    assert (X1 : ext c c1).
    { pose proof (sched_ext c lookup_timeout (TkLookupTimeout tid) eq_refl) as X. rewrite Es in X. exact X. }
    destruct (send sendok c1 (snd h) (get_peers_msg own tid (lk_target lk))) as [c2 ok] eqn:Esend.
    assert (X2 : ext c1 c2).
    { pose proof (send_ext c1 (snd h) tid (GetPeers own (lk_target lk) None)) as X.
      unfold get_peers_msg in Esend. rewrite Esend in X. exact X. }
    destruct ok.
    - eapply ext_trans; [exact (ext_trans _ _ _ X1 X2)|].
      eapply ext_trans; [apply (mark_local_ext c2 h)|]. apply IH.
    - eapply ext_trans; [exact (ext_trans _ _ _ X1 X2)|]. apply IH.
  Qed.

  Lemma start_request_round_ext nodes lk c : ext c (snd (start_request_round I sendok own now nodes lk c)).
  Proof.
    unfold start_request_round. pose proof (request_round_ext nodes lk c O) as X.
    destruct (request_round I sendok own now nodes lk c 0) as [[lk' c'] sent]. exact X.
  Qed.

  Lemma endgame_sends_ext : forall todo key lk c,
    ext c (snd (endgame_sends I sendok own now todo key lk c)).
  Proof.
    induction todo as [|[[d h] q] r IH]; intros key lk c; cbn [endgame_sends]; [apply ext_refl|].
    destruct q.
    - specialize (IH key lk c). destruct (endgame_sends I sendok own now r key lk c) as [[r' lk'] c']. exact IH.
    - destruct (gen_tid I lk) as [tid lk1] eqn:Eg.
      destruct (send sendok c (snd h) (get_peers_msg own tid (lk_target lk))) as [c1 ok] eqn:Esend.
      assert (X1 : ext c c1).
      { pose proof (send_ext c (snd h) tid (GetPeers own (lk_target lk) None)) as X.
        unfold get_peers_msg in Esend. rewrite Esend in X. exact X. }
      destruct ok.
      + pose proof (IH key (set_active lk1 (active_insert (lk_active lk1) tid (d, key))) (mark_local now c1 h)) as X.
        destruct (endgame_sends I sendok own now r key _ (mark_local now c1 h)) as [[r' lk'] c'].
        eapply ext_trans; [exact X1|]. eapply ext_trans; [apply mark_local_ext | exact X].
      + pose proof (IH key (set_active lk1 (active_insert (lk_active lk1) tid (d, key))) c1) as X.
        destruct (endgame_sends I sendok own now r key _ c1) as [[r' lk'] c'].
        eapply ext_trans; [exact X1 | exact X].
  Qed.

  Lemma start_endgame_ext lk c : ext c (snd (start_endgame I sendok own now lk c)).
  Proof.
    unfold start_endgame. destruct (gen_tid I lk) as [tid lk1].
    destruct (schedule_in now endgame_timeout (TkLookupEndGame tid) (cx_timer c)) as [tm key] eqn:Es.
    set (c1 := mkCtx (cx_table c) tm (cx_sends c) (cx_out c)).
    assert (X1 : ext c c1).
    { pose proof (sched_ext c endgame_timeout (TkLookupEndGame tid) eq_refl) as X. rewrite Es in X. exact X. }
    match goal with |- context [endgame_sends I sendok own now ?t key ?l c1] =>
      pose proof (endgame_sends_ext t key l c1) as X; destruct (endgame_sends I sendok own now t key l c1) as [[r' lk'] c'] end.
    eapply ext_trans; [exact X1 | exact X].
  Qed.

  Lemma announce_sends_ext aport : forall targets lk c,
    ext c (snd (announce_sends I sendok own now targets lk c aport)).
  Proof.
    induction targets as [|h r IH]; intros lk c; cbn [announce_sends]; [apply ext_refl|].
    destruct (gen_tid I lk) as [tid lk1].
    match goal with |- context [send sendok c (snd h) (mkMsg tid (Req ?q))] =>
      pose proof (send_ext c (snd h) tid q) as X1; destruct (send sendok c (snd h) (mkMsg tid (Req q))) as [c1 ok] end.
    cbn [fst] in X1. destruct ok.
    - eapply ext_trans; [exact X1|]. eapply ext_trans; [apply mark_local_ext | apply IH].
    - eapply ext_trans; [exact X1 | apply IH].
  Qed.
End Env.

(* ------------------------------------------------------------------ the remaining lookup entry points *)
Definition is_end (act : nat) (o : output) : bool :=
  match o with OStreamEnd a => Nat.eqb a act | _ => false end.
Definition is_yield_in (act : nat) (vals : list addr) (o : output) : bool :=
  match o with OYield a x => Nat.eqb a act && existsb (addr_eqb x) vals | _ => false end.

Section Env2.
  Variable I : ids.
  Variable sendok : nat -> bool.
  Variable own : N.
  Variable now : Z.

  Lemma recv_finished_ext lk c aport :
    extP (fun o => is_query_send o || is_end (lk_act lk) o) c (recv_finished I sendok own now lk c aport).
  Proof.
    unfold recv_finished.
    set (targets := map _ (firstn announce_pick _)).
    assert (X : extP (fun o => is_query_send o || is_end (lk_act lk) o) c
                  (snd (if lk_announce lk then announce_sends I sendok own now targets lk c aport else (lk, c)))).
    { destruct (lk_announce lk); cbn [snd]; [|apply extP_refl].
      eapply extP_weaken; [|apply announce_sends_ext]. intros o Ho. rewrite Ho. reflexivity. }
    destruct (if lk_announce lk then announce_sends I sendok own now targets lk c aport else (lk, c)) as [lk1 c1].
    cbn [snd] in X. destruct X as [[l [E F]] T]. constructor; cbn [cx_out cx_timer]; [|exact T].
    exists (OStreamEnd (lk_act lk) :: l). rewrite E. split; [reflexivity|].
    cbn [forallb]. rewrite F. cbn. rewrite Nat.eqb_refl. reflexivity.
  Qed.

  Lemma lookup_new_ext act target announce c :
    ext c (snd (lookup_new I sendok own now act target announce c)).
  Proof. unfold lookup_new. apply start_request_round_ext. Qed.

  Lemma lookup_new_act act target announce c :
    lk_act (fst (lookup_new I sendok own now act target announce c)) = act.
  Proof.
    unfold lookup_new, start_request_round.
    match goal with |- context [request_round I sendok own now ?n ?l c 0] =>
      assert (G : forall nodes lk c sent, lk_act (fst (fst (request_round I sendok own now nodes lk c sent))) = lk_act lk);
      [|pose proof (G n l c O) as X; destruct (request_round I sendok own now n l c 0) as [[lk' c'] sent]] end.
    - induction nodes as [|[h d] r IH]; intros lk c0 sent; cbn [request_round]; [reflexivity|].
      destruct (gen_tid I lk) as [tid lk1] eqn:Eg. unfold gen_tid in Eg. inversion Eg; subst.
      destruct (schedule_in _ _ _ _) as [tm key]. destruct (send _ _ _ _) as [c2 ok].
      destruct ok; rewrite IH; reflexivity.
    - cbn [fst] in *. destruct (Nat.eqb sent 0); cbn; exact X.
  Qed.

  Lemma recv_timeout_ext lk c tid : ext c (snd (recv_timeout I sendok own now lk c tid)).
  Proof.
    unfold recv_timeout.
    match goal with |- context [if ?b then _ else _] => destruct b end; [|apply ext_refl].
    match goal with |- context [if ?b then _ else _] => destruct b end; [apply start_endgame_ext | apply ext_refl].
  Qed.

  Lemma rr_continue_ext lk2 c0 iterate nd : ext c0 (snd (rr_continue I sendok own now lk2 c0 iterate nd)).
  Proof.
    unfold rr_continue. destruct (lk_endgame lk2); [apply ext_refl|].
    destruct iterate as [it|].
    - pose proof (start_request_round_ext I sendok own now (map (fun h => (h, nd)) (used_slots it)) lk2 c0) as X.
      destruct (start_request_round I sendok own now _ lk2 c0) as [lk' c'].
      destruct (lk_active lk'); [eapply ext_trans; [exact X | apply start_endgame_ext] | exact X].
    - destruct (lk_active lk2); [apply start_endgame_ext | apply ext_refl].
  Qed.

  (* recv_response: query sends and the values of this very response, nothing else; and only when
     the transaction id was outstanding *)
  Lemma recv_response_ext lk c from tid r v6 :
    extP (fun o => is_query_send o || is_yield_in (lk_act (fst (recv_response I sendok own now lk c from tid r v6))) (r_values r) o)
         c (snd (recv_response I sendok own now lk c from tid r v6))
    /\ (List.find (fun e => bytes_eqb (fst e) tid) (lk_active lk) = None ->
        recv_response I sendok own now lk c from tid r v6 = (lk, c)).
  Proof.
    unfold recv_response.
    destruct (List.find (fun e => bytes_eqb (fst e) tid) (lk_active lk)) as [[t0 [dist key]]|] eqn:Ef;
      [|split; [apply extP_refl | reflexivity]].
    split; [|discriminate].
    set (c0 := if lk_endgame lk then c else _).
    assert (X0 : ext c c0) by (unfold c0; destruct (lk_endgame lk); [apply ext_refl | apply cancel_ext]).
    destruct (rr_accept lk from tid r v6 dist) as [[lk2 iterate] nd].
    pose proof (rr_continue_ext lk2 c0 iterate nd) as XB.
    destruct (rr_continue I sendok own now lk2 c0 iterate nd) as [lk3 c1]. cbn [snd fst] in *.
    pose proof (ext_trans _ _ _ X0 XB) as [[l [E F]] T].
    constructor; cbn [cx_out cx_timer]; [|exact T].
    exists (rev (map (OYield (lk_act lk3)) (r_values r)) ++ l). rewrite E, app_assoc. split; [reflexivity|].
    rewrite forallb_app. apply andb_true_iff. split.
    - apply forallb_forall. intros o Ho. apply in_rev, in_map_iff in Ho as [a [<- Ha]].
      cbn. rewrite Nat.eqb_refl. cbn.
      apply existsb_exists. exists a. split; [exact Ha | apply addr_eqb_eq; reflexivity].
    - rewrite forallb_forall in *. intros o Ho. rewrite (F o Ho). reflexivity.
  Qed.
End Env2.

(* ------------------------------------------------------------------ the activity index of a search never changes *)
Section ActPreserved.
  Variable I : ids.
  Variable sendok : nat -> bool.
  Variable own : N.
  Variable now : Z.

  Lemma request_round_act : forall nodes lk c sent,
    lk_act (fst (fst (request_round I sendok own now nodes lk c sent))) = lk_act lk.
  Proof.
    induction nodes as [|[h d] r IH]; intros lk c sent; cbn [request_round]; [reflexivity|].
    destruct (gen_tid I lk) as [tid lk1] eqn:Eg. unfold gen_tid in Eg. inversion Eg; subst.
    destruct (schedule_in _ _ _ _) as [tm key]. destruct (send _ _ _ _) as [c2 ok].
    destruct ok; rewrite IH; reflexivity.
  Qed.

  Lemma start_request_round_act nodes lk c :
    lk_act (fst (start_request_round I sendok own now nodes lk c)) = lk_act lk.
  Proof.
    unfold start_request_round. pose proof (request_round_act nodes lk c O) as X.
    destruct (request_round I sendok own now nodes lk c 0) as [[lk' c'] sent]. cbn [fst] in *.
    destruct (Nat.eqb sent 0); cbn; exact X.
  Qed.

  Lemma endgame_sends_act : forall todo key lk c,
    lk_act (snd (fst (endgame_sends I sendok own now todo key lk c))) = lk_act lk.
  Proof.
    induction todo as [|[[d h] q] r IH]; intros key lk c; cbn [endgame_sends]; [reflexivity|].
    destruct q.
    - specialize (IH key lk c). destruct (endgame_sends I sendok own now r key lk c) as [[r' lk'] c']. exact IH.
    - destruct (gen_tid I lk) as [tid lk1] eqn:Eg. unfold gen_tid in Eg. inversion Eg; subst.
      destruct (send _ _ _ _) as [c1 ok]. destruct ok.
      + match goal with |- context [endgame_sends I sendok own now r key ?l ?cc] =>
          pose proof (IH key l cc) as X; destruct (endgame_sends I sendok own now r key l cc) as [[r' lk'] c'] end.
        exact X.
      + match goal with |- context [endgame_sends I sendok own now r key ?l ?cc] =>
          pose proof (IH key l cc) as X; destruct (endgame_sends I sendok own now r key l cc) as [[r' lk'] c'] end.
        exact X.
  Qed.

  Lemma start_endgame_act lk c : lk_act (fst (start_endgame I sendok own now lk c)) = lk_act lk.
  Proof.
    unfold start_endgame. destruct (gen_tid I lk) as [tid lk1] eqn:Eg. unfold gen_tid in Eg. inversion Eg; subst.
    destruct (schedule_in _ _ _ _) as [tm key].
    match goal with |- context [endgame_sends I sendok own now ?t key ?l ?cc] =>
      pose proof (endgame_sends_act t key l cc) as X; destruct (endgame_sends I sendok own now t key l cc) as [[r' lk'] c'] end.
    exact X.
  Qed.

  Lemma rr_accept_act lk from tid r v6 d : lk_act (fst (fst (rr_accept lk from tid r v6 d))) = lk_act lk.
  Proof. unfold rr_accept. cbn. destruct (r_token r); reflexivity. Qed.

  Lemma rr_continue_act lk2 c0 it nd : lk_act (fst (rr_continue I sendok own now lk2 c0 it nd)) = lk_act lk2.
  Proof.
    unfold rr_continue. destruct (lk_endgame lk2); [reflexivity|].
    destruct it as [it|].
    - pose proof (start_request_round_act (map (fun h => (h, nd)) (used_slots it)) lk2 c0) as X.
      destruct (start_request_round I sendok own now _ lk2 c0) as [lk' c'].
      destruct (lk_active lk'); [rewrite start_endgame_act|]; exact X.
    - destruct (lk_active lk2); [apply start_endgame_act | reflexivity].
  Qed.

  Lemma recv_response_act lk c from tid r v6 :
    lk_act (fst (recv_response I sendok own now lk c from tid r v6)) = lk_act lk.
  Proof.
    unfold recv_response. destruct (List.find (fun e => bytes_eqb (fst e) tid) (lk_active lk)) as [[t0 [dist key]]|]; [|reflexivity].
    pose proof (rr_accept_act lk from tid r v6 dist) as X1.
    destruct (rr_accept lk from tid r v6 dist) as [[lk2 it] nd].
    match goal with |- context [rr_continue I sendok own now lk2 ?cc it nd] =>
      pose proof (rr_continue_act lk2 cc it nd) as X2; destruct (rr_continue I sendok own now lk2 cc it nd) as [lk3 c1] end.
    cbn [fst] in *. congruence.
  Qed.

  Lemma recv_timeout_act lk c tid : lk_act (fst (recv_timeout I sendok own now lk c tid)) = lk_act lk.
  Proof.
    unfold recv_timeout.
    match goal with |- context [if ?b then _ else _] => destruct b end; [|reflexivity].
    match goal with |- context [if ?b then _ else _] => destruct b end; [rewrite start_endgame_act|]; reflexivity.
  Qed.
End ActPreserved.

(* ------------------------------------------------------------------ the outputs of one handler step *)
(* no search result, and every datagram is a query *)
Definition quiet (o : output) : bool :=
  match o with
  | OSend _ (mkMsg _ (Req _)) => true
  | OSend _ _ => false
  | OYield _ _ => false
  | _ => true
  end.

Lemma query_quiet o : is_query_send o = true -> quiet o = true.
Proof. destruct o as [d [t [q|r|c x]]| | | |]; cbn; congruence. Qed.

Lemma forallb_rev {A} (f : A -> bool) l : forallb f (rev l) = forallb f l.
Proof.
  induction l as [|x l IH]; [reflexivity|]. cbn. rewrite forallb_app, IH. cbn. rewrite andb_true_r. apply andb_comm.
Qed.

Lemma extP_all P c c' : forallb P (cx_out c) = true -> extP P c c' -> forallb P (cx_out c') = true.
Proof. intros H [[l [E F]] _]. rewrite E, forallb_app, F, H. reflexivity. Qed.

Section StepFacts.
  Variable I : ids.
  Variable sendok : nat -> bool.
  Variable cf : cfg.
  Variables single_refresh queue_early : bool.

  Notation step := (step I sendok cf single_refresh queue_early).

  Lemma complete_lookup_out P now s c lk :
    forallb P (cx_out c) = true ->
    (forall o, is_query_send o || is_end (lk_act lk) o = true -> P o = true) ->
    forallb P (snd (complete_lookup I sendok cf now s c lk)) = true.
  Proof.
    intros Hc HP. unfold complete_lookup. cbn [snd]. rewrite forallb_rev.
    apply (extP_all P c); [exact Hc|]. eapply extP_weaken; [exact HP | apply recv_finished_ext].
  Qed.

  Lemma refresh_sends_ext now target : forall nodes next c,
    ext c (snd (refresh_sends I sendok cf nodes target next c now)).
  Proof.
    induction nodes as [|n r IH]; intros next c; cbn [refresh_sends]; [apply ext_refl|].
    match goal with |- context [send sendok c (nd_addr n) (mkMsg ?t (Req ?q))] =>
      pose proof (send_ext sendok c (nd_addr n) t q) as X1; destruct (send sendok c (nd_addr n) (mkMsg t (Req q))) as [c1 ok] end.
    cbn [fst] in X1. eapply ext_trans; [exact X1|]. eapply ext_trans; [apply mark_local_ext | apply IH].
  Qed.

  Lemma continue_refresh_quiet now s : forallb quiet (snd (continue_refresh I sendok cf single_refresh now s)) = true.
  Proof.
    unfold continue_refresh.
    match goal with |- context [refresh_sends I sendok cf ?nodes ?t ?nx ?c0 now] =>
      pose proof (refresh_sends_ext now t nodes nx c0) as X; destruct (refresh_sends I sendok cf nodes t nx c0 now) as [next c1] end.
    cbn [snd] in X. destruct (schedule_in _ _ _ _) as [tm key]. cbn [snd]. rewrite forallb_rev.
    eapply (extP_all quiet); [|eapply extP_weaken; [apply query_quiet | exact X]]. reflexivity.
  Qed.

  Lemma start_lookup_quiet now s ih an : forallb quiet (snd (start_lookup I sendok cf now s ih an)) = true.
  Proof.
    unfold start_lookup.
    pose proof (lookup_new_ext I sendok (c_id cf) now (ns_next_act s) ih an (ctx_of s)) as X.
    destruct (lookup_new I sendok (c_id cf) now (ns_next_act s) ih an (ctx_of s)) as [lk c]. cbn [snd] in X.
    assert (Hc : forallb quiet (cx_out c) = true).
    { eapply (extP_all quiet); [|eapply extP_weaken; [apply query_quiet | exact X]]. reflexivity. }
    destruct (lk_active lk); cbn [snd]; rewrite forallb_rev; [|exact Hc].
    apply (extP_all quiet c); [exact Hc|]. eapply extP_weaken; [|apply recv_finished_ext].
    intros o Ho. apply orb_true_iff in Ho as [Ho|Ho]; [apply query_quiet, Ho | destruct o; try discriminate; reflexivity].
  Qed.

  Lemma start_queued_quiet now : forall q s, forallb quiet (snd (start_queued I sendok cf now s q)) = true.
  Proof.
    induction q as [|[ih an] r IH]; intros s; cbn [start_queued]; [reflexivity|].
    pose proof (start_lookup_quiet now s ih an) as X1.
    destruct (start_lookup I sendok cf now s ih an) as [s1 o1]. specialize (IH s1).
    destruct (start_queued I sendok cf now s1 r) as [s2 o2]. cbn [snd] in *. rewrite forallb_app, X1, IH. reflexivity.
  Qed.

  Definition is_query_event (e : event) : bool :=
    match e with EvMsg _ (mkMsg _ (Req _)) => true | _ => false end.
  Definition is_response_event (e : event) : bool :=
    match e with EvMsg _ (mkMsg _ (Resp _)) => true | _ => false end.

  (* every event that is neither a query nor a response produces neither search results nor any
     datagram that is not a query *)
  Lemma step_quiet now s e : is_query_event e = false -> is_response_event e = false ->
    forallb quiet (snd (step now s e)) = true.
  Proof.
    intros Hq Hr. destruct e as [src [tid [q|r|c x]]| |ih an| | |b|id a named|id a|rts|]; cbn in Hq, Hr; try discriminate;
      cbn [Handler.step m_body snd]; try reflexivity.
    - (* timer *)
      destruct (pop_timer (ns_timer s)) as [[e tm]|]; [|reflexivity].
      destruct (te_task e) as [|tid|tid].
      + apply continue_refresh_quiet.
      + destruct (tid_action tid) as [a|]; [|reflexivity].
        destruct (lookup_by_action I (set_timer s tm) a) as [lk|]; [|reflexivity].
        pose proof (recv_timeout_ext I sendok (c_id cf) now lk (ctx_of (set_timer s tm)) tid) as X.
        pose proof (recv_timeout_act I sendok (c_id cf) now lk (ctx_of (set_timer s tm)) tid) as Xa.
        destruct (recv_timeout I sendok (c_id cf) now lk (ctx_of (set_timer s tm)) tid) as [lk' c']. cbn [snd fst] in *.
        assert (Hc : forallb quiet (cx_out c') = true).
        { eapply (extP_all quiet); [|eapply extP_weaken; [apply query_quiet | exact X]]. reflexivity. }
        destruct (lookup_ongoing lk'); cbn [snd]; [rewrite forallb_rev; exact Hc|].
        apply complete_lookup_out; [exact Hc|].
        intros o Ho. apply orb_true_iff in Ho as [Ho|Ho]; [apply query_quiet, Ho | destruct o; try discriminate; reflexivity].
      + destruct (tid_action tid) as [a|]; [|reflexivity].
        destruct (lookup_by_action I (set_timer s tm) a) as [lk|]; [|reflexivity].
        apply complete_lookup_out; [reflexivity|].
        intros o Ho. apply orb_true_iff in Ho as [Ho|Ho]; [apply query_quiet, Ho | destruct o; try discriminate; reflexivity].
    - (* start lookup *)
      destruct (queue_early && negb (ns_concluded s)); [reflexivity | apply start_lookup_quiet].
    - (* check bootstrap *)
      destruct (ns_boot s); reflexivity.
    - (* bootstrap state *)
      set (s0 := set_boot s b).
      assert (X : forallb quiet (snd (match b with
                   | BBootstrapped => let '(s1, o) := continue_refresh I sendok cf single_refresh now (set_waiters s0 [] (ns_next_waiter s0)) in
                                      (s1, map ONotify (ns_waiters s0) ++ o)
                   | _ => (s0, []) end)) = true).
      { destruct b; try reflexivity.
        pose proof (continue_refresh_quiet now (set_waiters s0 [] (ns_next_waiter s0))) as Y.
        destruct (continue_refresh I sendok cf single_refresh now (set_waiters s0 [] (ns_next_waiter s0))) as [s1 o]. cbn [snd] in *.
        rewrite forallb_app, Y, andb_true_r. apply forallb_forall. intros o' Ho. apply in_map_iff in Ho as [w [<- _]]. reflexivity. }
      destruct (match b with BBootstrapped => _ | _ => _ end) as [s2 out]. cbn [snd] in X.
      destruct (queue_early && negb (ns_concluded s2) && _); [|exact X].
      pose proof (start_queued_quiet now (ns_queued s2) (set_queue s2 [] true)) as Y.
      destruct (start_queued I sendok cf now (set_queue s2 [] true) (ns_queued s2)) as [s3 o3]. cbn [snd] in *.
      rewrite forallb_app, X, Y. reflexivity.
  Qed.

  (* a response: query sends, stream ends, and the values of this very response for the search whose
     outstanding transaction id it carries *)
  Lemma step_response now s src tid r :
    let outs := snd (step now s (EvMsg src (mkMsg tid (Resp r)))) in
    forall o, In o outs ->
      quiet o = true \/
      exists act a aid lk, o = OYield act a /\ In a (r_values r) /\
        tid_action tid = Some aid /\ lookup_by_action I s aid = Some lk /\ lk_act lk = act /\
        exists v, In (tid, v) (lk_active lk).
  Proof.
    cbn zeta. cbn [Handler.step m_body m_tid].
    destruct (tid_action tid) as [aid|] eqn:Ea; [|intros o []].
    destruct (lookup_by_action I s aid) as [lk|] eqn:El.
    2:{ destruct (aid_of I 0 =? aid)%N; intros o []. }
    set (c := mkCtx _ (ns_timer s) (ns_sends s) []).
    pose proof (recv_response_ext I sendok (c_id cf) now lk c (r_id r, src) tid r (c_v6 cf)) as [X Xnone].
    pose proof (recv_response_act I sendok (c_id cf) now lk c (r_id r, src) tid r (c_v6 cf)) as Xa.
    destruct (List.find (fun e => bytes_eqb (fst e) tid) (lk_active lk)) as [[t0 v]|] eqn:Ef.
    2:{ (* not outstanding: recv_response changes nothing, every output is quiet *)
        rewrite (Xnone eq_refl).
        assert (Hq : forallb quiet (snd (if lookup_ongoing lk
                      then (with_ctx s c (replace_lookup (ns_lookups s) lk), rev (cx_out c))
                      else complete_lookup I sendok cf now (with_ctx s c (replace_lookup (ns_lookups s) lk)) c lk)) = true).
        { destruct (lookup_ongoing lk); cbn [snd]; [reflexivity|].
          apply complete_lookup_out; [reflexivity|]. intros o' Ho'.
          apply orb_true_iff in Ho' as [Ho'|Ho']; [apply query_quiet, Ho' | destruct o'; try discriminate; reflexivity]. }
        intros o Ho. left. rewrite forallb_forall in Hq. apply Hq, Ho. }
    apply find_some in Ef as [Hin E]. apply bytes_eqb_eq in E. cbn [fst] in E. subst t0.
    destruct (recv_response I sendok (c_id cf) now lk c (r_id r, src) tid r (c_v6 cf)) as [lk' c'] eqn:Er. cbn [fst snd] in *.
    set (P := fun o => is_query_send o || is_yield_in (lk_act lk') (r_values r) o || is_end (lk_act lk') o).
    assert (Hc : forallb P (cx_out c') = true).
    { apply (extP_all P c); [reflexivity|]. eapply extP_weaken; [|exact X]. intros o Ho. unfold P. rewrite Ho. reflexivity. }
    assert (Hall : forallb P (snd (if lookup_ongoing lk'
                      then (with_ctx s c' (replace_lookup (ns_lookups s) lk'), rev (cx_out c'))
                      else complete_lookup I sendok cf now (with_ctx s c' (replace_lookup (ns_lookups s) lk')) c' lk')) = true).
    { destruct (lookup_ongoing lk'); cbn [snd]; [rewrite forallb_rev; exact Hc|].
      apply complete_lookup_out; [exact Hc|]. intros o Ho. unfold P.
      apply orb_true_iff in Ho as [Ho|Ho]; rewrite Ho; [reflexivity | apply orb_true_r]. }
    intros o Ho. rewrite forallb_forall in Hall. specialize (Hall o Ho). unfold P in Hall.
    apply orb_true_iff in Hall as [Hall|Hall]; [apply orb_true_iff in Hall as [Hall|Hall]|].
    - left. apply query_quiet, Hall.
    - right. destruct o as [| act a | | |]; try discriminate. cbn in Hall.
      apply andb_true_iff in Hall as [H1 H2]. apply Nat.eqb_eq in H1. apply existsb_exists in H2 as [a' [Ha' E]].
      apply addr_eqb_eq in E. subst a'.
      exists act, a, aid, lk. repeat split; try assumption; try congruence. exists v. exact Hin.
    - left. destruct o; try discriminate; reflexivity.
  Qed.
End StepFacts.

(* ------------------------------------------------------------------ the query handler (C05, C06, C07, C12) *)
From BT Require Import proofs.Compact_Facts proofs.Storage_Facts.

Lemma tok_bytes_length ip s : length (tok_bytes (TSha ip s)) = 20%nat.
Proof. cbn [tok_bytes length]. rewrite app_length, !to_be_length. reflexivity. Qed.

Lemma firstn_forall {A} (P : A -> bool) n l : forallb P l = true -> forallb P (firstn n l) = true.
Proof.
  revert n. induction l as [|x l IH]; intros [|n] H; cbn in *; try reflexivity.
  apply andb_true_iff in H as [H1 H2]. rewrite H1, IH by exact H2. reflexivity.
Qed.

Lemma filter_forall {A} (P : A -> bool) l : forallb P (filter P l) = true.
Proof. induction l as [|x l IH]; cbn; [reflexivity|]. destruct (P x) eqn:E; cbn; rewrite ?E, IH; reflexivity. Qed.

(* the node lists of a reply: only the requested families, at most 8 each, of the right family *)
Lemma find_closest_shape now t own_v6 target w :
  let '(n4, n6) := find_closest now t own_v6 target w in
  (length n4 <= 8)%nat /\ (length n6 <= 8)%nat /\
  forallb (fun n => negb (a_v6 (n_addr n))) n4 = true /\ forallb (fun n => a_v6 (n_addr n)) n6 = true /\
  (match (match w with Some x => x | None => if own_v6 then WantV6 else WantV4 end) with
   | WantV4 => n6 = [] | WantV6 => n4 = [] | WantBoth => True end).
Proof.
  unfold find_closest.
  set (w' := match w with Some x => x | None => if own_v6 then WantV6 else WantV4 end).
  set (cl := closest_nodes now t target).
  assert (L : forall v6 k, (length (map nodeh_of (firstn k (filter (fun n => Bool.eqb (a_v6 (nd_addr n)) v6) cl))) <= k)%nat).
  { intros v6 k. rewrite map_length, firstn_length. lia. }
  assert (F : forall v6 k, forallb (fun n => Bool.eqb (a_v6 (n_addr n)) v6)
                (map nodeh_of (firstn k (filter (fun n => Bool.eqb (a_v6 (nd_addr n)) v6) cl))) = true).
  { intros v6 k. rewrite forallb_forall. intros x Hx. apply in_map_iff in Hx as [n [<- Hn]].
    apply firstn_in in Hn. apply filter_In in Hn as [_ Hn]. exact Hn. }
  assert (F4 : forall k, forallb (fun n => negb (a_v6 (n_addr n)))
                (map nodeh_of (firstn k (filter (fun n => Bool.eqb (a_v6 (nd_addr n)) false) cl))) = true).
  { intros k. specialize (F false k). rewrite forallb_forall in *. intros x Hx. specialize (F x Hx).
    destruct (a_v6 (n_addr x)); [discriminate | reflexivity]. }
  assert (F6 : forall k, forallb (fun n => a_v6 (n_addr n))
                (map nodeh_of (firstn k (filter (fun n => Bool.eqb (a_v6 (nd_addr n)) true) cl))) = true).
  { intros k. specialize (F true k). rewrite forallb_forall in *. intros x Hx. specialize (F x Hx).
    destruct (a_v6 (n_addr x)); [reflexivity | discriminate]. }
  change Consts.handler_nodes_take_v4_nat with 8%nat. change Consts.handler_nodes_take_v6_nat with 8%nat.
  destruct w'; repeat split; cbn [length]; try lia; try apply L; try apply F4; try apply F6; reflexivity.
Qed.

Section QueryFacts.
  Variables (now : Z) (cf : cfg) (t : table) (tk : tstore) (st : store) (src : addr) (tid : bytes).

  Notation hq := (handle_query now cf t tk st src tid).

  (* a read-only node answers nothing and changes nothing *)
  Lemma hq_read_only q : c_read_only cf = true -> hq q = (t, tk, st, None).
  Proof. intros H. unfold handle_query. rewrite H. reflexivity. Qed.

  (* a serving node: exactly one reply, echoing the transaction id, carrying its own id (or an error) *)
  Lemma hq_one_reply q : c_read_only cf = false ->
    exists m, snd (hq q) = Some m /\ m_tid m = tid /\
      ((exists r, m_body m = Resp r /\ r_id r = c_id cf) \/ (exists c x, m_body m = Err c x)).
  Proof.
    intros H. unfold handle_query. rewrite H.
    destruct q as [id|id target w|id ih w|id ih port token]; cbn [snd].
    - eexists. split; [reflexivity|]. split; [reflexivity|]. left. eexists. split; reflexivity.
    - destruct (find_closest _ _ _ _ _) as [n4 n6]. cbn [snd]. eexists. split; [reflexivity|]. split; [reflexivity|].
      left. eexists. split; reflexivity.
    - destruct (find ih now st) as [found st']. destruct (find_closest _ _ _ _ _) as [n4 n6].
      destruct (checkout _ _ _) as [k tk']. cbn [snd].
      eexists. split; [reflexivity|]. split; [reflexivity|]. left. eexists. split; reflexivity.
    - destruct (if Nat.eqb (length token) 20 then _ else _) as [valid tk'].
      destruct (negb valid); cbn [snd].
      + eexists. split; [reflexivity|]. split; [reflexivity|]. right. do 2 eexists. reflexivity.
      + destruct (add _ _ _) as [ok st']. destruct ok; cbn [snd]; (eexists; split; [reflexivity|]; split; [reflexivity|]);
          [left; eexists; split; reflexivity | right; do 2 eexists; reflexivity].
  Qed.

  Lemma hq_ping id : c_read_only cf = false ->
    snd (hq (Ping id)) = Some (mkMsg tid (Resp (mkResp (c_id cf) [] [] [] None))).
  Proof. intros H. unfold handle_query. rewrite H. reflexivity. Qed.

  Lemma hq_find_node id target w : c_read_only cf = false ->
    exists n4 n6, snd (hq (FindNode id target w)) = Some (mkMsg tid (Resp (mkResp (c_id cf) [] n4 n6 None))) /\
      (n4, n6) = find_closest now (update_node now t id src (remote_request now)) (c_v6 cf) target w.
  Proof.
    intros H. unfold handle_query. rewrite H.
    destruct (find_closest _ _ _ _ _) as [n4 n6] eqn:E. exists n4, n6. split; reflexivity.
  Qed.

  (* get_peers: a 20-byte token; values only of the requester's family, duplicate-free, capped;
     node lists as for find_node *)
  Lemma hq_get_peers id ih w : c_read_only cf = false ->
    exists vals n4 n6 k,
      snd (hq (GetPeers id ih w)) = Some (mkMsg tid (Resp (mkResp (c_id cf) vals n4 n6 (Some k)))) /\
      length k = 20%nat /\
      forallb (fun a => Bool.eqb (a_v6 a) (a_v6 src)) vals = true /\
      (length vals <= max_values (length tid) (a_v6 src))%nat /\
      vals = firstn (max_values (length tid) (a_v6 src))
                    (filter (fun a => Bool.eqb (a_v6 a) (a_v6 src)) (fst (find ih now st))) /\
      (n4, n6) = find_closest now (update_node now t id src (remote_request now)) (c_v6 cf) ih w.
  Proof.
    intros H. unfold handle_query. rewrite H.
    destruct (find ih now st) as [found st'] eqn:Ef.
    destruct (find_closest _ _ _ _ _) as [n4 n6] eqn:E.
    destruct (checkout (ip_of src) now tk) as [k tk'] eqn:Ec. cbn [snd fst].
    do 4 eexists. split; [reflexivity|].
    split; [unfold checkout in Ec; inversion Ec; apply tok_bytes_length|].
    split; [apply firstn_forall, filter_forall|].
    split; [rewrite firstn_length; lia|]. split; reflexivity.
  Qed.

  (* announce_peer: error 203 exactly when the token check fails (then nothing is stored),
     error 202 exactly when the store refuses, an acknowledgement otherwise; the stored contact
     is the source IP with the announced port, or the source port when it is implied *)
  Lemma hq_announce id ih port token : c_read_only cf = false ->
    let valid := if Nat.eqb (length token) 20
                 then fst (checkin (ip_of src) (tok_of_bytes (ip_of src) token) now tk) else false in
    let caddr := match port with None => src | Some p => mkAddr (a_v6 src) (a_ip src) p end in
    let '(_, _, st', reply) := hq (AnnouncePeer id ih port token) in
    if valid then
      st' = snd (add (ih, caddr) now st) /\
      reply = Some (mkMsg tid (if fst (add (ih, caddr) now st)
                               then Resp (mkResp (c_id cf) [] [] [] None)
                               else Err 202%N err_text_full))
    else st' = st /\ reply = Some (mkMsg tid (Err 203%N err_text_token)).
  Proof.
    intros H. cbn zeta. unfold handle_query. rewrite H.
    destruct (Nat.eqb (length token) 20).
    - destruct (checkin (ip_of src) (tok_of_bytes (ip_of src) token) now tk) as [valid tk']. cbn [fst].
      destruct valid; cbn [negb].
      + destruct (add _ now st) as [ok st']. cbn [fst snd]. destruct ok; split; reflexivity.
      + split; reflexivity.
    - cbn [negb]. split; reflexivity.
  Qed.

  (* a query never adds its sender (or anybody) to the routing table: the only change is the
     last-request mark on an already known, pingable contact *)
  Lemma hq_table q :
    fst (fst (fst (hq q))) = t \/
    exists id, fst (fst (fst (hq q))) = update_node now t id src (remote_request now).
  Proof.
    unfold handle_query. destruct (c_read_only cf); [left; reflexivity|].
    destruct q as [id|id target w|id ih w|id ih port token].
    - right. exists id. reflexivity.
    - right. exists id. destruct (find_closest _ _ _ _ _). reflexivity.
    - right. exists id. destruct (find ih now st). destruct (find_closest _ _ _ _ _). destruct (checkout _ _ _). reflexivity.
    - right. exists id. destruct (if Nat.eqb (length token) 20 then _ else _) as [valid tk'].
      destruct (negb valid); [reflexivity|]. destruct (add _ _ _) as [ok st']. destruct ok; reflexivity.
  Qed.
End QueryFacts.

(* the handles (id, address) present in the table *)
Definition table_handles (t : table) : list (N * addr) := map (fun n => (nd_id n, nd_addr n)) (concat (buckets t)).

Lemma set_nth_map {A B} (f : A -> B) i x l : map f (set_nth i x l) = set_nth i (f x) (map f l).
Proof. revert i. induction l as [|y l IH]; intros [|i]; cbn; try reflexivity. rewrite IH. reflexivity. Qed.

Lemma set_nth_same {A} (l : list A) : forall i d, (i < length l)%nat -> set_nth i (nth i l d) l = l.
Proof.
  induction l as [|y l IH]; intros [|i] d H; cbn in *; try lia; [reflexivity|]. rewrite IH by lia. reflexivity.
Qed.

Lemma update_node_handles now t id a f :
  (forall n, nd_id (f n) = nd_id n /\ nd_addr (f n) = nd_addr n) ->
  table_handles (update_node now t id a f) = table_handles t.
Proof.
  intros Hf. unfold update_node, table_handles.
  set (idx := bucket_index_for t id). set (b := nth idx (buckets t) []).
  destruct (position _ b) as [i|] eqn:Ep; [|reflexivity]. cbn [buckets].
  destruct (position_some _ _ _ dummy_node Ep) as [Hil _].
  assert (Hidx : (idx < length (buckets t))%nat).
  { destruct (Nat.lt_ge_cases idx (length (buckets t))) as [H|H]; [exact H|].
    unfold b in Hil. rewrite nth_overflow in Hil by exact H. cbn in Hil. lia. }
  assert (E : map (map (fun n => (nd_id n, nd_addr n))) (set_nth idx (set_nth i (f (nth i b dummy_node)) b) (buckets t))
              = map (map (fun n => (nd_id n, nd_addr n))) (buckets t)).
  { rewrite set_nth_map, set_nth_map. destruct (Hf (nth i b dummy_node)) as [-> ->].
    rewrite <- (map_nth (fun n => (nd_id n, nd_addr n))).
    rewrite set_nth_same by (rewrite map_length; exact Hil).
    unfold b. rewrite <- (map_nth (map (fun n => (nd_id n, nd_addr n)))). cbn [map].
    apply set_nth_same. rewrite map_length. exact Hidx. }
  rewrite !concat_map. rewrite E. reflexivity.
Qed.

Theorem query_adds_nobody now cf t tk st src tid q :
  table_handles (fst (fst (fst (handle_query now cf t tk st src tid q)))) = table_handles t.
Proof.
  destruct (hq_table now cf t tk st src tid q) as [->|[id ->]]; [reflexivity|].
  apply update_node_handles. intros n. cbn. auto.
Qed.

(* ------------------------------------------------------------------ C18: one refresh chain *)
Definition te_key (e : tentry) : Z * N := (te_deadline e, te_id e).

(* the timer holds no refresh entry, or exactly one, and then it is the remembered one; ids are fresh *)
Record Inv18 (s : nstate) : Prop := {
  i18_part : refresh_part (ns_timer s) = [] \/
             exists e, refresh_part (ns_timer s) = [e] /\ ns_refresh_pending s = Some (te_key e);
  i18_ids : forall e, In e (tm_entries (ns_timer s)) -> (te_id e < tm_next (ns_timer s))%N
}.

Definition ids_below (tm : timer) : Prop := forall e, In e (tm_entries tm) -> (te_id e < tm_next tm)%N.

Lemma part_filter f l pend :
  (l = [] \/ exists e, l = [e] /\ pend = Some (te_key e)) ->
  (filter f l = [] \/ exists e, filter f l = [e] /\ pend = Some (te_key e)).
Proof.
  intros [->|[e [-> Hp]]]; [left; reflexivity|]. cbn. destruct (f e); [right; exists e; auto | left; reflexivity].
Qed.

(* the id discipline of the timer *)
Lemma ids_schedule now d k tm : ids_below tm -> ids_below (fst (schedule_in now d k tm)).
Proof.
  intros H e He. cbn in *. apply in_app_or in He as [He|[<-|[]]]; [specialize (H e He); lia | cbn; lia].
Qed.
Lemma ids_cancel key tm : ids_below tm -> ids_below (cancel key tm).
Proof. intros H e He. cbn in *. apply filter_In in He as [He _]. apply H, He. Qed.

Record extI (c c' : ctx) : Prop := { exi : ids_below (cx_timer c) -> ids_below (cx_timer c') }.

Section Ids.
  Variable I : ids.
  Variable sendok : nat -> bool.
  Variable own : N.
  Variable now : Z.

  Lemma request_round_ids : forall nodes lk c sent, ids_below (cx_timer c) ->
    ids_below (cx_timer (snd (fst (request_round I sendok own now nodes lk c sent)))).
  Proof.
    induction nodes as [|[h d] r IH]; intros lk c sent H; cbn [request_round]; [exact H|].
    destruct (gen_tid I lk) as [tid lk1].
    pose proof (ids_schedule now lookup_timeout (TkLookupTimeout tid) _ H) as H1.
    destruct (schedule_in now lookup_timeout (TkLookupTimeout tid) (cx_timer c)) as [tm key]. cbn [fst] in H1.
    destruct (send sendok _ (snd h) _) as [c2 ok] eqn:Es. unfold send in Es. inversion Es; subst.
    destruct (sendok (cx_sends c)); apply IH; exact H1.
  Qed.

  Lemma start_request_round_ids nodes lk c : ids_below (cx_timer c) ->
    ids_below (cx_timer (snd (start_request_round I sendok own now nodes lk c))).
  Proof.
    intros H. unfold start_request_round. pose proof (request_round_ids nodes lk c O H) as X.
    destruct (request_round I sendok own now nodes lk c 0) as [[lk' c'] sent]. exact X.
  Qed.

  Lemma endgame_sends_ids : forall todo key lk c, ids_below (cx_timer c) ->
    ids_below (cx_timer (snd (endgame_sends I sendok own now todo key lk c))).
  Proof.
    induction todo as [|[[d h] q] r IH]; intros key lk c H; cbn [endgame_sends]; [exact H|].
    destruct q.
    - specialize (IH key lk c H). destruct (endgame_sends I sendok own now r key lk c) as [[r' lk'] c']. exact IH.
    - destruct (gen_tid I lk) as [tid lk1].
      destruct (send sendok c (snd h) _) as [c1 ok] eqn:Es. unfold send in Es. inversion Es; subst.
      destruct (sendok (cx_sends c)).
      + match goal with |- context [endgame_sends I sendok own now r key ?l ?cc] =>
          pose proof (IH key l cc H) as X; destruct (endgame_sends I sendok own now r key l cc) as [[r' lk'] c'] end. exact X.
      + match goal with |- context [endgame_sends I sendok own now r key ?l ?cc] =>
          pose proof (IH key l cc H) as X; destruct (endgame_sends I sendok own now r key l cc) as [[r' lk'] c'] end. exact X.
  Qed.

  Lemma start_endgame_ids lk c : ids_below (cx_timer c) -> ids_below (cx_timer (snd (start_endgame I sendok own now lk c))).
  Proof.
    intros H. unfold start_endgame. destruct (gen_tid I lk) as [tid lk1].
    pose proof (ids_schedule now endgame_timeout (TkLookupEndGame tid) _ H) as H1.
    destruct (schedule_in now endgame_timeout (TkLookupEndGame tid) (cx_timer c)) as [tm key]. cbn [fst] in H1.
    match goal with |- context [endgame_sends I sendok own now ?t key ?l ?cc] =>
      pose proof (endgame_sends_ids t key l cc H1) as X; destruct (endgame_sends I sendok own now t key l cc) as [[r' lk'] c'] end.
    exact X.
  Qed.

  Lemma announce_sends_ids aport : forall targets lk c, ids_below (cx_timer c) ->
    ids_below (cx_timer (snd (announce_sends I sendok own now targets lk c aport))).
  Proof.
    induction targets as [|h r IH]; intros lk c H; cbn [announce_sends]; [exact H|].
    destruct (gen_tid I lk) as [tid lk1].
    destruct (send sendok c (snd h) _) as [c1 ok] eqn:Es. unfold send in Es. inversion Es; subst.
    destruct (sendok (cx_sends c)); apply IH; exact H.
  Qed.

  Lemma recv_finished_ids lk c aport : ids_below (cx_timer c) -> ids_below (cx_timer (recv_finished I sendok own now lk c aport)).
  Proof.
    intros H. unfold recv_finished.
    match goal with |- context [announce_sends I sendok own now ?t lk c aport] =>
      pose proof (announce_sends_ids aport t lk c H) as X end.
    destruct (lk_announce lk).
    - destruct (announce_sends I sendok own now _ lk c aport) as [lk1 c1]. exact X.
    - exact H.
  Qed.

  Lemma rr_continue_ids lk2 c0 it nd : ids_below (cx_timer c0) ->
    ids_below (cx_timer (snd (rr_continue I sendok own now lk2 c0 it nd))).
  Proof.
    intros H. unfold rr_continue. destruct (lk_endgame lk2); [exact H|].
    destruct it as [it|].
    - pose proof (start_request_round_ids (map (fun h => (h, nd)) (used_slots it)) lk2 c0 H) as X.
      destruct (start_request_round I sendok own now _ lk2 c0) as [lk' c'].
      destruct (lk_active lk'); [apply start_endgame_ids|]; exact X.
    - destruct (lk_active lk2); [apply start_endgame_ids|]; exact H.
  Qed.

  Lemma recv_response_ids lk c from tid r v6 : ids_below (cx_timer c) ->
    ids_below (cx_timer (snd (recv_response I sendok own now lk c from tid r v6))).
  Proof.
    intros H. unfold recv_response.
    destruct (List.find (fun e => bytes_eqb (fst e) tid) (lk_active lk)) as [[t0 [dist key]]|]; [|exact H].
    destruct (rr_accept lk from tid r v6 dist) as [[lk2 it] nd].
    match goal with |- context [rr_continue I sendok own now lk2 ?cc it nd] =>
      assert (H0 : ids_below (cx_timer cc)) by (destruct (lk_endgame lk); [exact H | apply ids_cancel, H]);
      pose proof (rr_continue_ids lk2 cc it nd H0) as X; destruct (rr_continue I sendok own now lk2 cc it nd) as [lk3 c1] end.
    exact X.
  Qed.

  Lemma recv_timeout_ids lk c tid : ids_below (cx_timer c) -> ids_below (cx_timer (snd (recv_timeout I sendok own now lk c tid))).
  Proof.
    intros H. unfold recv_timeout.
    match goal with |- context [if ?b then _ else _] => destruct b end; [|exact H].
    match goal with |- context [if ?b then _ else _] => destruct b end; [apply start_endgame_ids|]; exact H.
  Qed.
End Ids.

(* ------------------------------------------------------------------ C18: at most one pending refresh timer *)
Definition Inv18p (s : nstate) : Prop :=
  refresh_part (ns_timer s) = [] \/
  exists e, refresh_part (ns_timer s) = [e] /\ ns_refresh_pending s = Some (te_key e).

(* transitions that neither add a refresh entry nor touch the remembered one *)
Definition TmRel (s s' : nstate) : Prop :=
  (exists f, refresh_part (ns_timer s') = filter f (refresh_part (ns_timer s))) /\
  ns_refresh_pending s' = ns_refresh_pending s.

Lemma TmRel_refl s : TmRel s s.
Proof. split; [exists (fun _ => true); rewrite filter_true|]; reflexivity. Qed.

Lemma TmRel_trans a b c : TmRel a b -> TmRel b c -> TmRel a c.
Proof.
  intros [[f1 E1] P1] [[f2 E2] P2]. split; [|congruence].
  exists (fun x => f1 x && f2 x). rewrite E2, E1, filter_filter. reflexivity.
Qed.

Lemma TmRel_inv s s' : TmRel s s' -> Inv18p s -> Inv18p s'.
Proof.
  intros [[f E] P] H. unfold Inv18p in *. rewrite E, P. apply part_filter, H.
Qed.

Lemma TmRel_ctx P s c' lks : extP P (ctx_of s) c' -> TmRel s (with_ctx s c' lks).
Proof. intros [_ [f E]]. split; [exists f; exact E | reflexivity]. Qed.

Section C18.
  Variable I : ids.
  Variable sendok : nat -> bool.
  Variable cf : cfg.
  Variable queue_early : bool.

  Notation step := (step I sendok cf true queue_early).

  Lemma complete_lookup_rel now s c lk :
    (exists f, refresh_part (cx_timer c) = filter f (refresh_part (ns_timer s))) ->
    TmRel s (fst (complete_lookup I sendok cf now s c lk)).
  Proof.
    intros [f E]. unfold complete_lookup. cbn [fst].
    pose proof (recv_finished_ext I sendok (c_id cf) now lk c (c_aport cf)) as [_ [g G]].
    split; [|reflexivity]. cbn. exists (fun x => f x && g x). rewrite G, E, filter_filter. reflexivity.
  Qed.

  Lemma continue_refresh_inv now s : Inv18p s -> Inv18p (fst (continue_refresh I sendok cf true now s)).
  Proof.
    intros H. unfold continue_refresh.
    match goal with |- context [refresh_sends I sendok cf ?nodes ?t ?nx ?c0 now] =>
      pose proof (refresh_sends_ext I sendok cf now t nodes nx c0) as [_ [f E]];
      destruct (refresh_sends I sendok cf nodes t nx c0 now) as [next c1] end.
    cbn [snd cx_timer ctx_of] in E.
    set (tm0 := match ns_refresh_pending s with Some key => cancel key (cx_timer c1) | None => cx_timer c1 end).
    assert (H0 : refresh_part tm0 = []).
    { unfold tm0. destruct H as [H|[e [H Hp]]].
      - rewrite H in E. cbn in E. destruct (ns_refresh_pending s); [|exact E].
        unfold refresh_part, cancel. cbn [tm_entries]. rewrite filter_comm. fold (refresh_part (cx_timer c1)). rewrite E. reflexivity.
      - rewrite Hp. unfold refresh_part, cancel. cbn [tm_entries]. rewrite filter_comm. fold (refresh_part (cx_timer c1)).
        rewrite E, H. cbn. destruct (f e); cbn; [|reflexivity].
        unfold key_eqb, te_key. cbn. rewrite Z.eqb_refl, N.eqb_refl. reflexivity. }
    destruct (schedule_in now refresh_interval TkRefresh tm0) as [tm key] eqn:Es.
    unfold schedule_in in Es. inversion Es; subst tm key. cbn [fst].
    right. exists (mkTE (now + refresh_interval) (tm_next tm0) TkRefresh). split; [|reflexivity].
    cbn. unfold refresh_part. cbn [tm_entries]. rewrite filter_app. fold (refresh_part tm0). rewrite H0. reflexivity.
  Qed.

  Lemma start_lookup_rel now s ih an : TmRel s (fst (start_lookup I sendok cf now s ih an)).
  Proof.
    unfold start_lookup.
    pose proof (lookup_new_ext I sendok (c_id cf) now (ns_next_act s) ih an (ctx_of s)) as [_ [f E]].
    destruct (lookup_new I sendok (c_id cf) now (ns_next_act s) ih an (ctx_of s)) as [lk c]. cbn [snd] in E.
    destruct (lk_active lk); cbn [fst].
    - pose proof (recv_finished_ext I sendok (c_id cf) now lk c (c_aport cf)) as [_ [g G]].
      split; [|reflexivity]. cbn. exists (fun x => f x && g x). rewrite G, E, filter_filter. reflexivity.
    - split; [|reflexivity]. cbn. exists f. exact E.
  Qed.

  Lemma start_queued_rel now : forall q s, TmRel s (fst (start_queued I sendok cf now s q)).
  Proof.
    induction q as [|[ih an] r IH]; intros s; cbn [start_queued]; [apply TmRel_refl|].
    pose proof (start_lookup_rel now s ih an) as X1.
    destruct (start_lookup I sendok cf now s ih an) as [s1 o1]. specialize (IH s1).
    destruct (start_queued I sendok cf now s1 r) as [s2 o2]. cbn [fst] in *. eapply TmRel_trans; eassumption.
  Qed.

  Lemma pop_timer_part tm e tm' : pop_timer tm = Some (e, tm') ->
    exists f, refresh_part tm' = filter f (refresh_part tm).
  Proof.
    unfold pop_timer. destruct (min_entry (tm_entries tm)) as [m|]; [|discriminate].
    intros H. inversion H; subst. eexists. unfold refresh_part, cancel. cbn [tm_entries]. apply filter_comm.
  Qed.

  Theorem step_inv18 now s e : Inv18p s -> Inv18p (fst (step now s e)).
  Proof.
    intros H. destruct e as [src [tid [q|r|c x]]| |ih an| | |b|id a named|id a|rts|]; cbn [Handler.step m_body m_tid fst].
    - (* query *)
      destruct (handle_query now cf (ns_table s) (ns_tok s) (ns_sto s) src tid q) as [[[t' tk'] st'] reply]. exact H.
    - (* response *)
      destruct (tid_action tid) as [aid|]; [|exact H].
      destruct (lookup_by_action I s aid) as [lk|].
      2:{ destruct (aid_of I 0 =? aid)%N; exact H. }
      set (c := mkCtx _ (ns_timer s) (ns_sends s) []).
      pose proof (recv_response_ext I sendok (c_id cf) now lk c (r_id r, src) tid r (c_v6 cf)) as [[_ [f E]] _].
      destruct (recv_response I sendok (c_id cf) now lk c (r_id r, src) tid r (c_v6 cf)) as [lk' c']. cbn [snd] in E.
      destruct (lookup_ongoing lk'); cbn [fst].
      + eapply TmRel_inv; [|exact H]. split; [exists f; exact E | reflexivity].
      + eapply TmRel_inv; [|exact H].
        eapply TmRel_trans; [|apply complete_lookup_rel; exists (fun _ => true); rewrite filter_true; reflexivity].
        split; [exists f; exact E | reflexivity].
    - exact H.
    - (* timer *)
      destruct (pop_timer (ns_timer s)) as [[e tm]|] eqn:Ep; [|exact H].
      destruct (pop_timer_part _ _ _ Ep) as [f0 E0].
      assert (H0 : Inv18p (set_timer s tm)).
      { eapply TmRel_inv; [|exact H]. split; [exists f0; exact E0 | reflexivity]. }
      destruct (te_task e) as [|tid|tid].
      + apply continue_refresh_inv, H0.
      + destruct (tid_action tid) as [a|]; [|exact H0].
        destruct (lookup_by_action I (set_timer s tm) a) as [lk|]; [|exact H0].
        pose proof (recv_timeout_ext I sendok (c_id cf) now lk (ctx_of (set_timer s tm)) tid) as [_ [f E]].
        destruct (recv_timeout I sendok (c_id cf) now lk (ctx_of (set_timer s tm)) tid) as [lk' c']. cbn [snd] in E.
        destruct (lookup_ongoing lk'); cbn [fst].
        * eapply TmRel_inv; [|exact H0]. split; [exists f; exact E | reflexivity].
        * eapply TmRel_inv; [|exact H0].
          eapply TmRel_trans; [|apply complete_lookup_rel; exists (fun _ => true); rewrite filter_true; reflexivity].
          split; [exists f; exact E | reflexivity].
      + destruct (tid_action tid) as [a|]; [|exact H0].
        destruct (lookup_by_action I (set_timer s tm) a) as [lk|]; [|exact H0].
        eapply TmRel_inv; [|exact H0]. apply complete_lookup_rel. exists (fun _ => true). rewrite filter_true. reflexivity.
    - (* start lookup *)
      destruct (queue_early && negb (ns_concluded s)); [exact H|].
      eapply TmRel_inv; [apply start_lookup_rel | exact H].
    - destruct (ns_boot s); exact H.
    - exact H.
    - (* bootstrap state *)
      set (s0 := set_boot s b).
      assert (X : Inv18p (fst (match b with
                   | BBootstrapped => let '(s1, o) := continue_refresh I sendok cf true now (set_waiters s0 [] (ns_next_waiter s0)) in
                                      (s1, map ONotify (ns_waiters s0) ++ o)
                   | _ => (s0, []) end))).
      { destruct b; try exact H.
        pose proof (continue_refresh_inv now (set_waiters s0 [] (ns_next_waiter s0)) H) as Y.
        destruct (continue_refresh I sendok cf true now (set_waiters s0 [] (ns_next_waiter s0))) as [s1 o]. exact Y. }
      destruct (match b with BBootstrapped => _ | _ => _ end) as [s2 out]. cbn [fst] in X.
      destruct (queue_early && negb (ns_concluded s2) && _); [|exact X].
      pose proof (start_queued_rel now (ns_queued s2) (set_queue s2 [] true)) as Y.
      destruct (start_queued I sendok cf now (set_queue s2 [] true) (ns_queued s2)) as [s3 o3]. cbn [fst] in *.
      eapply TmRel_inv; [exact Y | exact X].
    - exact H.
    - exact H.
    - exact H.
    - exact H.
  Qed.

  Lemma run_inv18 : forall evs s, Inv18p s -> Inv18p (fst (run I sendok cf true queue_early s evs)).
  Proof.
    induction evs as [|[now e] r IH]; intros s H; cbn [run]; [exact H|].
    pose proof (step_inv18 now s e H) as H1. destruct (step now s e) as [s1 o]. cbn [fst] in H1.
    specialize (IH s1 H1). destruct (run I sendok cf true queue_early s1 r) as [s2 os]. exact IH.
  Qed.

  (* in every reachable state at most one table-refresh entry is pending in the timer *)
  Theorem one_refresh_chain id t0 evs :
    (length (refresh_part (ns_timer (fst (run I sendok cf true queue_early (ns_init id t0) evs)))) <= 1)%nat.
  Proof.
    assert (H0 : Inv18p (ns_init id t0)) by (left; reflexivity).
    destruct (run_inv18 evs _ H0) as [E|[e [E _]]]; rewrite E; cbn; lia.
  Qed.
End C18.

(* ------------------------------------------------------------------ C12 / C03: unsolicited responses *)
Section Unsolicited.
  Variable I : ids.
  Variable sendok : nat -> bool.
  Variable cf : cfg.
  Variables single_refresh queue_early : bool.
  Notation step := (step I sendok cf single_refresh queue_early).

  (* a response whose transaction id is not 8 bytes, or whose action prefix is neither that of a
     live search nor that of the refresh, changes nothing and produces nothing *)
  Theorem unsolicited_noop now s src tid r :
    (tid_action tid = None \/
     exists a, tid_action tid = Some a /\ lookup_by_action I s a = None /\ aid_of I 0 <> a) ->
    step now s (EvMsg src (mkMsg tid (Resp r))) = (s, []).
  Proof.
    intros [H|[a [H1 [H2 H3]]]]; cbn [Handler.step m_body m_tid].
    - rewrite H. reflexivity.
    - rewrite H1, H2. destruct (N.eqb_spec (aid_of I 0) a); [contradiction | reflexivity].
  Qed.

  (* errors never cause anything *)
  Theorem error_noop now s src tid c x : step now s (EvMsg src (mkMsg tid (Err c x))) = (s, []).
  Proof. reflexivity. Qed.

  Lemma tid_action_len tid : length tid <> 8%nat -> tid_action tid = None.
  Proof.
    intros H. unfold tid_action. rewrite from_bytes_spec.
    destruct (Nat.eqb_spec (length tid) 8); [contradiction | reflexivity].
  Qed.
End Unsolicited.

(* ------------------------------------------------------------------ C16: early searches are queued and released *)
Section C16.
  Variable I : ids.
  Variable sendok : nat -> bool.
  Variable cf : cfg.
  Variable single_refresh : bool.
  Notation step := (step I sendok cf single_refresh true).

  (* before the first bootstrap conclusion a search request does nothing but join the queue *)
  Theorem early_search_queued now s ih an : ns_concluded s = false ->
    step now s (EvStartLookup ih an) = (set_queue s (ns_queued s ++ [(ih, an)]) false, []).
  Proof. intros H. cbn [Handler.step]. rewrite H. reflexivity. Qed.

  (* at the first conclusion (success or failure) the queued searches are started, in the order
     they were requested, each exactly as handle_start_lookup starts a search received at that
     very moment *)
  Theorem conclusion_releases_queue now s b : ns_concluded s = false ->
    (b = BBootstrapped \/ b = BIdle) ->
    exists s2 out,
      (s2, out) = (match b with
                   | BBootstrapped =>
                       let '(s1, o) := continue_refresh I sendok cf single_refresh now
                                         (set_waiters (set_boot s b) [] (ns_next_waiter s)) in
                       (s1, map ONotify (ns_waiters s) ++ o)
                   | _ => (set_boot s b, [])
                   end) /\
      ns_queued s2 = ns_queued s /\
      step now s (EvBootState b) =
        (fst (start_queued I sendok cf now (set_queue s2 [] true) (ns_queued s)),
         out ++ snd (start_queued I sendok cf now (set_queue s2 [] true) (ns_queued s))).
  Proof.
    intros Hc Hb. cbn [Handler.step].
    assert (Hq : forall s', ns_queued (fst (continue_refresh I sendok cf single_refresh now s')) = ns_queued s'
                         /\ ns_concluded (fst (continue_refresh I sendok cf single_refresh now s')) = ns_concluded s').
    { intros s'. unfold continue_refresh.
      destruct (refresh_sends _ _ _ _ _ _ _ _) as [next c1]. destruct (schedule_in _ _ _ _) as [tm key]. split; reflexivity. }
    destruct Hb as [-> | ->].
    - destruct (Hq (set_waiters (set_boot s BBootstrapped) [] (ns_next_waiter (set_boot s BBootstrapped)))) as [Q1 Q2].
      destruct (continue_refresh I sendok cf single_refresh now _) as [s1 o] eqn:Ec. cbn [fst] in Q1, Q2.
      exists s1, (map ONotify (ns_waiters s) ++ o). split; [reflexivity|]. split; [exact Q1|].
      cbn [ns_waiters set_boot] in *. rewrite Q2. cbn [ns_concluded set_waiters set_boot]. rewrite Hc. cbn [negb andb].
      rewrite Q1. cbn [ns_queued set_waiters set_boot].
      destruct (start_queued I sendok cf now (set_queue s1 [] true) (ns_queued s)) as [s3 o3]. reflexivity.
    - exists (set_boot s BIdle), []. split; [reflexivity|]. split; [reflexivity|].
      cbn [ns_concluded set_boot]. rewrite Hc. cbn [negb andb ns_queued set_boot].
      destruct (start_queued I sendok cf now (set_queue (set_boot s BIdle) [] true) (ns_queued s)) as [s3 o3]. reflexivity.
  Qed.
End C16.

(* ------------------------------------------------------------------ C15: every waiter is told *)
Section Waiters.
  Variable I : ids.
  Variable sendok : nat -> bool.
  Variable cf : cfg.
  Variables single_refresh queue_early : bool.
  Notation step := (step I sendok cf single_refresh queue_early).

  (* a caller of bootstrapped() while bootstrapped is told at once; otherwise it is registered *)
  Theorem waiter_registered_or_told now s :
    let '(s', out) := step now s EvCheckBootstrap in
    ns_next_waiter s' = S (ns_next_waiter s) /\
    (if match ns_boot s with BBootstrapped => true | _ => false end
     then out = [ONotify (ns_next_waiter s)] /\ ns_waiters s' = ns_waiters s
     else out = [] /\ ns_waiters s' = ns_waiters s ++ [ns_next_waiter s]).
  Proof. cbn [Handler.step]. destruct (ns_boot s); cbn; auto. Qed.

  (* on the transition to Bootstrapped every registered waiter is notified and none stays registered *)
  Theorem all_waiters_told now s w : In w (ns_waiters s) ->
    In (ONotify w) (snd (step now s (EvBootState BBootstrapped))).
  Proof.
    intros Hw. cbn [Handler.step].
    destruct (continue_refresh I sendok cf single_refresh now _) as [s1 o].
    match goal with |- context [if ?b then _ else _] => destruct b end.
    - destruct (start_queued _ _ _ _ _ _) as [s3 o3]. cbn [snd]. apply in_or_app. left. apply in_or_app. left.
      apply in_map. exact Hw.
    - cbn [snd]. apply in_or_app. left. apply in_map. exact Hw.
  Qed.
End Waiters.

(* ------------------------------------------------------------------ C03: announces go to token holders only *)
Definition opt_N_eqb' (a b : option N) : bool :=
  match a, b with Some x, Some y => (x =? y)%N | None, None => true | _, _ => false end.

(* an announce_peer carrying our id, the searched info-hash, the configured port (or none =
   implied) and, for its destination, the latest token recorded for a node at that address *)
Definition is_announce_ok (own target : N) (aport : option N) (tokens : list (handle * bytes)) (o : output) : bool :=
  match o with
  | OSend dst (mkMsg _ (Req (AnnouncePeer id ih port tok))) =>
      (id =? own)%N && (ih =? target)%N && opt_N_eqb' port aport &&
      existsb (fun e => addr_eqb (snd (fst e)) dst &&
                        match List.find (fun b => handle_eqb (fst b) (fst e)) tokens with
                        | Some (_, t) => bytes_eqb t tok
                        | None => false
                        end) tokens
  | OSend _ _ => false
  | _ => true
  end.

Lemma handle_eqb_eq a b : handle_eqb a b = true <-> a = b.
Proof.
  destruct a as [i x], b as [j y]. unfold handle_eqb. cbn.
  rewrite andb_true_iff, N.eqb_eq, addr_eqb_eq. split; [intros [-> ->]; reflexivity | intros E; inversion E; auto].
Qed.

Lemma opt_N_eqb'_refl a : opt_N_eqb' a a = true.
Proof. destruct a; cbn; [apply N.eqb_refl | reflexivity]. Qed.

Section Announce.
  Variable I : ids.
  Variable sendok : nat -> bool.
  Variable own : N.
  Variable now : Z.

  Lemma announce_sends_ok aport : forall targets lk c,
    (forall h, In h targets -> existsb (fun t => handle_eqb (fst t) h) (lk_tokens lk) = true) ->
    extP (is_announce_ok own (lk_target lk) aport (lk_tokens lk)) c
         (snd (announce_sends I sendok own now targets lk c aport)) /\
    (length (cx_out (snd (announce_sends I sendok own now targets lk c aport))) = length targets + length (cx_out c))%nat.
  Proof.
    induction targets as [|h r IH]; intros lk c Hall; cbn [announce_sends]; [split; [apply extP_refl | reflexivity]|].
    destruct (gen_tid I lk) as [tid lk1] eqn:Eg. unfold gen_tid in Eg. inversion Eg; subst tid lk1. clear Eg.
    set (lk1 := mkLk _ _ _ _ _ _ _ _ _).
    assert (Hh : existsb (fun t => handle_eqb (fst t) h) (lk_tokens lk) = true) by (apply Hall; left; reflexivity).
    destruct (List.find (fun e => handle_eqb (fst e) h) (lk_tokens lk)) as [[h' tok]|] eqn:Ef.
    2:{ exfalso. apply existsb_exists in Hh as [x [Hx Ex]]. pose proof (find_none _ _ Ef x Hx) as Hn. cbn in Hn. congruence. }
    pose proof (find_some _ _ Ef) as [Hin Eh]. cbn [fst] in Eh. apply handle_eqb_eq in Eh. subst h'.
    set (m := mkMsg _ (Req (AnnouncePeer own (lk_target lk) aport tok))).
    set (c1 := mkCtx (cx_table c) (cx_timer c) (S (cx_sends c)) (OSend (snd h) m :: cx_out c)).
    assert (X1 : extP (is_announce_ok own (lk_target lk) aport (lk_tokens lk)) c c1).
    { constructor; cbn [cx_out cx_timer c1].
      - exists [OSend (snd h) m]. split; [reflexivity|]. cbn [forallb is_announce_ok m]. rewrite !N.eqb_refl, opt_N_eqb'_refl. cbn [andb].
        rewrite andb_true_r. apply existsb_exists. exists (h, tok). split; [exact Hin|]. cbn [fst snd].
        rewrite (proj2 (addr_eqb_eq _ _) eq_refl), Ef. cbn. apply bytes_eqb_eq. reflexivity.
      - exists (fun _ => true). rewrite filter_true. reflexivity. }
    assert (Hrest : forall x, In x r -> existsb (fun t => handle_eqb (fst t) x) (lk_tokens lk1) = true)
      by (intros x Hx; apply Hall; right; exact Hx).
    unfold send. cbn [fst snd]. fold c1.
    destruct (sendok (cx_sends c)).
    - destruct (IH lk1 (mark_local now c1 h) Hrest) as [X2 L2]. split.
      + eapply extP_trans; [exact X1|]. eapply extP_trans; [|exact X2].
        constructor; cbn; [exists []; split; reflexivity | exists (fun _ => true); rewrite filter_true; reflexivity].
      + rewrite L2. cbn. lia.
    - destruct (IH lk1 c1 Hrest) as [X2 L2]. split; [eapply extP_trans; eassumption | rewrite L2; cbn; lia].
  Qed.

  (* recv_finished: at most ANNOUNCE_PICK_NUM announces, each to a token holder with its latest token;
     none at all when announcing was not requested; then the stream ends *)
  Lemma recv_finished_announces lk c aport :
    extP (fun o => is_announce_ok own (lk_target lk) aport (lk_tokens lk) o) c (recv_finished I sendok own now lk c aport) /\
    (length (cx_out (recv_finished I sendok own now lk c aport)) <= 8 + 1 + length (cx_out c))%nat /\
    (lk_announce lk = false -> cx_out (recv_finished I sendok own now lk c aport) = OStreamEnd (lk_act lk) :: cx_out c).
  Proof.
    unfold recv_finished.
    set (holders := filter _ (lk_sorted lk)).
    set (targets := map (fun e => snd (fst e)) (firstn announce_pick holders)).
    assert (Ht : forall h, In h targets -> existsb (fun t => handle_eqb (fst t) h) (lk_tokens lk) = true).
    { intros h Hh. apply in_map_iff in Hh as [e [<- He]]. apply firstn_in in He. apply filter_In in He as [_ He]. exact He. }
    assert (Hlen : (length targets <= 8)%nat).
    { unfold targets. rewrite map_length, firstn_length. change announce_pick with 8%nat. lia. }
    destruct (lk_announce lk).
    - destruct (announce_sends_ok aport targets lk c Ht) as [X L].
      destruct (announce_sends I sendok own now targets lk c aport) as [lk1 c1]. cbn [snd] in *.
      split; [|split; [cbn; lia | discriminate]].
      destruct X as [[l [E F]] T]. constructor; cbn [cx_out cx_timer]; [|exact T].
      exists (OStreamEnd (lk_act lk) :: l). rewrite E. split; [reflexivity|]. cbn [forallb is_announce_ok]. exact F.
    - split; [|split; [cbn; lia | reflexivity]].
      constructor; cbn [cx_out cx_timer]; [exists [OStreamEnd (lk_act lk)]; split; reflexivity | exists (fun _ => true); rewrite filter_true; reflexivity].
  Qed.

  (* the token table of a search changes only when a response with an outstanding transaction id
     is accepted, and then only by the binding (responder id + address -> its token) *)
  Lemma rr_accept_tokens lk from tid r v6 d x :
    In x (lk_tokens (fst (fst (rr_accept lk from tid r v6 d)))) ->
    In x (lk_tokens lk) \/ (exists tok, r_token r = Some tok /\ x = (from, tok)).
  Proof.
    unfold rr_accept. cbn [fst lk_tokens]. destruct (r_token r) as [tok|]; cbn [lk_tokens set_active].
    - intros [<-|H]; [right; exists tok; split; reflexivity | left; apply filter_In in H as [H _]; exact H].
    - intros H. left. exact H.
  Qed.
End Announce.

(* ------------------------------------------------------------------ C03 at the level of one handler event *)
Section C03Step.
  Variable I : ids.
  Variable sendok : nat -> bool.
  Variable cf : cfg.
  Variables single_refresh queue_early : bool.
  Notation step := (step I sendok cf single_refresh queue_early).

  Theorem step_yield_sound now s e act a :
    In (OYield act a) (snd (step now s e)) ->
    exists src tid r aid lk,
      e = EvMsg src (mkMsg tid (Resp r)) /\ In a (r_values r) /\
      tid_action tid = Some aid /\ lookup_by_action I s aid = Some lk /\ lk_act lk = act /\
      exists v, In (tid, v) (lk_active lk).
  Proof.
    intros Hin.
    destruct (is_response_event e) eqn:Er.
    - destruct e as [src [tid [q|r|c x]]| | | | | | | | |]; try discriminate.
      destruct (step_response I sendok cf single_refresh queue_early now s src tid r _ Hin)
        as [H|[act' [a' [aid [lk [E [Ha [H1 [H2 [H3 H4]]]]]]]]]]; [discriminate|].
      inversion E; subst. exists src, tid, r, aid, lk.
      split; [reflexivity|]. split; [exact Ha|]. split; [exact H1|]. split; [exact H2|]. split; [reflexivity | exact H4].
    - destruct (is_query_event e) eqn:Eq.
      + exfalso. destruct e as [src [tid [q|r|c x]]| | | | | | | | |]; try discriminate.
        cbn [Handler.step m_body m_tid] in Hin.
        destruct (handle_query now cf (ns_table s) (ns_tok s) (ns_sto s) src tid q) as [[[t' tk'] st'] reply].
        destruct reply; cbn in Hin; [destruct Hin as [H|[]]; discriminate | destruct Hin].
      + pose proof (step_quiet I sendok cf single_refresh queue_early now s e Eq Er) as H.
        rewrite forallb_forall in H. specialize (H _ Hin). discriminate.
  Qed.

  Lemma replace_lookup_other lks lk' lkb :
    In lkb lks -> lk_act lkb <> lk_act lk' -> In lkb (replace_lookup lks lk').
  Proof.
    intros Hin Hne. unfold replace_lookup. apply in_map_iff. exists lkb. split; [|exact Hin].
    destruct (Nat.eqb_spec (lk_act lkb) (lk_act lk')); [contradiction | reflexivity].
  Qed.

  Lemma remove_lookup_other lks act lkb : In lkb lks -> lk_act lkb <> act -> In lkb (remove_lookup lks act).
  Proof.
    intros Hin Hne. unfold remove_lookup. apply filter_In. split; [exact Hin|].
    destruct (Nat.eqb_spec (lk_act lkb) act); [contradiction | reflexivity].
  Qed.

  (* a response never changes a search other than the one whose action prefix it carries *)
  Theorem response_isolation now s src tid r lkb :
    In lkb (ns_lookups s) ->
    (forall aid lk, tid_action tid = Some aid -> lookup_by_action I s aid = Some lk -> lk_act lkb <> lk_act lk) ->
    In lkb (ns_lookups (fst (step now s (EvMsg src (mkMsg tid (Resp r)))))).
  Proof.
    intros Hin Hother. cbn [Handler.step m_body m_tid].
    destruct (tid_action tid) as [aid|]; [|exact Hin].
    destruct (lookup_by_action I s aid) as [lk|] eqn:El.
    2:{ destruct (aid_of I 0 =? aid)%N; exact Hin. }
    specialize (Hother aid lk eq_refl El).
    set (c := mkCtx _ (ns_timer s) (ns_sends s) []).
    pose proof (recv_response_act I sendok (c_id cf) now lk c (r_id r, src) tid r (c_v6 cf)) as Xa.
    destruct (recv_response I sendok (c_id cf) now lk c (r_id r, src) tid r (c_v6 cf)) as [lk' c']. cbn [fst] in Xa.
    destruct (lookup_ongoing lk'); cbn [fst].
    - cbn. apply replace_lookup_other; [exact Hin | congruence].
    - unfold complete_lookup. cbn [fst]. cbn. apply remove_lookup_other; [|congruence].
      apply replace_lookup_other; [exact Hin | congruence].
  Qed.
End C03Step.

(* ------------------------------------------------------------------ the node's routing table keeps the C08 invariant *)
Definition tpres (t t' : table) : Prop := TInv t -> TInv t' /\ same_meta t t'.

Lemma tpres_refl t : tpres t t.
Proof. intros H. split; [exact H | split; reflexivity]. Qed.

Lemma tpres_trans a b c : tpres a b -> tpres b c -> tpres a c.
Proof.
  intros H1 H2 Ha. destruct (H1 Ha) as [Hb [M1 M2]]. destruct (H2 Hb) as [Hc [M3 M4]].
  split; [exact Hc | split; congruence].
Qed.

Lemma tpres_mark now t h : tpres t (update_node now t (fst h) (snd h) (local_request now)).
Proof. intros H. apply TInv_update_node; [apply local_request_keeps | exact H]. Qed.

Section TablePres.
  Variable I : ids.
  Variable sendok : nat -> bool.
  Variable own : N.
  Variable now : Z.

  Lemma request_round_tp : forall nodes lk c sent,
    tpres (cx_table c) (cx_table (snd (fst (request_round I sendok own now nodes lk c sent)))).
  Proof.
    induction nodes as [|[h d] r IH]; intros lk c sent; cbn [request_round]; [apply tpres_refl|].
    destruct (gen_tid I lk) as [tid lk1]. destruct (schedule_in _ _ _ _) as [tm key].
    destruct (send sendok _ (snd h) _) as [c2 ok] eqn:Es. unfold send in Es. inversion Es; subst.
    destruct (sendok (cx_sends c)).
    - eapply tpres_trans; [|apply IH]. cbn. apply tpres_mark.
    - eapply tpres_trans; [|apply IH]. cbn. apply tpres_refl.
  Qed.

  Lemma start_request_round_tp nodes lk c :
    tpres (cx_table c) (cx_table (snd (start_request_round I sendok own now nodes lk c))).
  Proof.
    unfold start_request_round. pose proof (request_round_tp nodes lk c O) as X.
    destruct (request_round I sendok own now nodes lk c 0) as [[lk' c'] sent]. exact X.
  Qed.

  Lemma endgame_sends_tp : forall todo key lk c,
    tpres (cx_table c) (cx_table (snd (endgame_sends I sendok own now todo key lk c))).
  Proof.
    induction todo as [|[[d h] q] r IH]; intros key lk c; cbn [endgame_sends]; [apply tpres_refl|].
    destruct q.
    - specialize (IH key lk c). destruct (endgame_sends I sendok own now r key lk c) as [[r' lk'] c']. exact IH.
    - destruct (gen_tid I lk) as [tid lk1].
      destruct (send sendok c (snd h) _) as [c1 ok] eqn:Es. unfold send in Es. inversion Es; subst.
      destruct (sendok (cx_sends c)).
      + match goal with |- context [endgame_sends I sendok own now r key ?l ?cc] =>
          pose proof (IH key l cc) as X; destruct (endgame_sends I sendok own now r key l cc) as [[r' lk'] c'] end.
        eapply tpres_trans; [|exact X]. cbn. apply tpres_mark.
      + match goal with |- context [endgame_sends I sendok own now r key ?l ?cc] =>
          pose proof (IH key l cc) as X; destruct (endgame_sends I sendok own now r key l cc) as [[r' lk'] c'] end.
        exact X.
  Qed.

  Lemma start_endgame_tp lk c : tpres (cx_table c) (cx_table (snd (start_endgame I sendok own now lk c))).
  Proof.
    unfold start_endgame. destruct (gen_tid I lk) as [tid lk1]. destruct (schedule_in _ _ _ _) as [tm key].
    match goal with |- context [endgame_sends I sendok own now ?t key ?l ?cc] =>
      pose proof (endgame_sends_tp t key l cc) as X; destruct (endgame_sends I sendok own now t key l cc) as [[r' lk'] c'] end.
    exact X.
  Qed.

  Lemma announce_sends_tp aport : forall targets lk c,
    tpres (cx_table c) (cx_table (snd (announce_sends I sendok own now targets lk c aport))).
  Proof.
    induction targets as [|h r IH]; intros lk c; cbn [announce_sends]; [apply tpres_refl|].
    destruct (gen_tid I lk) as [tid lk1].
    destruct (send sendok c (snd h) _) as [c1 ok] eqn:Es. unfold send in Es. inversion Es; subst.
    destruct (sendok (cx_sends c)).
    - eapply tpres_trans; [|apply IH]. cbn. apply tpres_mark.
    - eapply tpres_trans; [|apply IH]. cbn. apply tpres_refl.
  Qed.

  Lemma recv_finished_tp lk c aport : tpres (cx_table c) (cx_table (recv_finished I sendok own now lk c aport)).
  Proof.
    unfold recv_finished.
    match goal with |- context [announce_sends I sendok own now ?t lk c aport] =>
      pose proof (announce_sends_tp aport t lk c) as X end.
    destruct (lk_announce lk).
    - destruct (announce_sends I sendok own now _ lk c aport) as [lk1 c1]. exact X.
    - apply tpres_refl.
  Qed.

  Lemma rr_continue_tp lk2 c0 it nd : tpres (cx_table c0) (cx_table (snd (rr_continue I sendok own now lk2 c0 it nd))).
  Proof.
    unfold rr_continue. destruct (lk_endgame lk2); [apply tpres_refl|].
    destruct it as [it|].
    - pose proof (start_request_round_tp (map (fun h => (h, nd)) (used_slots it)) lk2 c0) as X.
      destruct (start_request_round I sendok own now _ lk2 c0) as [lk' c'].
      destruct (lk_active lk'); [eapply tpres_trans; [exact X | apply start_endgame_tp] | exact X].
    - destruct (lk_active lk2); [apply start_endgame_tp | apply tpres_refl].
  Qed.

  Lemma recv_response_tp lk c from tid r v6 :
    tpres (cx_table c) (cx_table (snd (recv_response I sendok own now lk c from tid r v6))).
  Proof.
    unfold recv_response.
    destruct (List.find (fun e => bytes_eqb (fst e) tid) (lk_active lk)) as [[t0 [dist key]]|]; [|apply tpres_refl].
    destruct (rr_accept lk from tid r v6 dist) as [[lk2 it] nd].
    match goal with |- context [rr_continue I sendok own now lk2 ?cc it nd] =>
      assert (E0 : cx_table cc = cx_table c) by (destruct (lk_endgame lk); reflexivity);
      pose proof (rr_continue_tp lk2 cc it nd) as X; destruct (rr_continue I sendok own now lk2 cc it nd) as [lk3 c1] end.
    cbn [snd cx_table]. rewrite <- E0. exact X.
  Qed.

  Lemma recv_timeout_tp lk c tid : tpres (cx_table c) (cx_table (snd (recv_timeout I sendok own now lk c tid))).
  Proof.
    unfold recv_timeout.
    match goal with |- context [if ?b then _ else _] => destruct b end; [|apply tpres_refl].
    match goal with |- context [if ?b then _ else _] => destruct b end; [apply start_endgame_tp | apply tpres_refl].
  Qed.

  Lemma lookup_new_tp act target an c : tpres (cx_table c) (cx_table (snd (lookup_new I sendok own now act target an c))).
  Proof. unfold lookup_new. apply start_request_round_tp. Qed.
End TablePres.

(* events whose addresses are not the empty-slot placeholder, and that do not replace the router set *)
Definition ev_ok (e : event) : Prop :=
  match e with
  | EvMsg src (mkMsg _ (Resp r)) =>
      src <> dummy_addr /\ (forall n, In n (r_nodes4 r ++ r_nodes6 r) -> n_addr n <> dummy_addr)
  | EvBootTable _ a named => a <> dummy_addr /\ forall h, In h named -> snd h <> dummy_addr
  | EvSetRouters _ => False
  | _ => True
  end.

Section StepTable.
  Variable I : ids.
  Variable sendok : nat -> bool.
  Variable cf : cfg.
  Variables single_refresh queue_early : bool.
  Notation step := (step I sendok cf single_refresh queue_early).

  Lemma refresh_sends_tp now target : forall nodes next c,
    tpres (cx_table c) (cx_table (snd (refresh_sends I sendok cf nodes target next c now))).
  Proof.
    induction nodes as [|n r IH]; intros next c; cbn [refresh_sends]; [apply tpres_refl|].
    destruct (send sendok c (nd_addr n) _) as [c1 ok] eqn:Es. unfold send in Es. inversion Es; subst.
    eapply tpres_trans; [|apply IH]. cbn. apply (tpres_mark now (cx_table c) (nd_id n, nd_addr n)).
  Qed.

  Lemma continue_refresh_tp now s :
    tpres (ns_table s) (ns_table (fst (continue_refresh I sendok cf single_refresh now s))).
  Proof.
    unfold continue_refresh.
    match goal with |- context [refresh_sends I sendok cf ?nodes ?t ?nx ?c0 now] =>
      pose proof (refresh_sends_tp now t nodes nx c0) as X; destruct (refresh_sends I sendok cf nodes t nx c0 now) as [next c1] end.
    destruct (schedule_in _ _ _ _) as [tm key]. exact X.
  Qed.

  Lemma complete_lookup_tp now s c lk :
    tpres (cx_table c) (ns_table (fst (complete_lookup I sendok cf now s c lk))).
  Proof. unfold complete_lookup. cbn [fst]. apply recv_finished_tp. Qed.

  Lemma start_lookup_tp now s ih an : tpres (ns_table s) (ns_table (fst (start_lookup I sendok cf now s ih an))).
  Proof.
    unfold start_lookup.
    pose proof (lookup_new_tp I sendok (c_id cf) now (ns_next_act s) ih an (ctx_of s)) as X.
    destruct (lookup_new I sendok (c_id cf) now (ns_next_act s) ih an (ctx_of s)) as [lk c]. cbn [snd] in X.
    destruct (lk_active lk); cbn [fst].
    - eapply tpres_trans; [exact X|]. apply recv_finished_tp.
    - exact X.
  Qed.

  Lemma start_queued_tp now : forall q s, tpres (ns_table s) (ns_table (fst (start_queued I sendok cf now s q))).
  Proof.
    induction q as [|[ih an] r IH]; intros s; cbn [start_queued]; [apply tpres_refl|].
    pose proof (start_lookup_tp now s ih an) as X1.
    destruct (start_lookup I sendok cf now s ih an) as [s1 o1]. specialize (IH s1).
    destruct (start_queued I sendok cf now s1 r) as [s2 o2]. cbn [fst] in *. eapply tpres_trans; eassumption.
  Qed.

  Lemma add_nodes_tp now t id src nodes :
    src <> dummy_addr -> (forall h, In h nodes -> snd h <> dummy_addr) ->
    tpres t (add_nodes now t (as_good id src now) nodes).
  Proof. intros H1 H2 Ht. apply TInv_add_nodes; assumption. Qed.

  (* the routing table of the node satisfies the C08 invariant after every handler event *)
  Theorem step_table_inv now s e : ev_ok e -> tpres (ns_table s) (ns_table (fst (step now s e))).
  Proof.
    intros Hok. destruct e as [src [tid [q|r|c x]]| |ih an| | |b|id a named|id a|rts|]; cbn [Handler.step m_body m_tid fst].
    - (* query: the table only gets a last-request mark *)
      pose proof (hq_table now cf (ns_table s) (ns_tok s) (ns_sto s) src tid q) as H.
      destruct (handle_query now cf (ns_table s) (ns_tok s) (ns_sto s) src tid q) as [[[t' tk'] st'] reply]. cbn [fst] in *.
      destruct H as [->|[id ->]]; [apply tpres_refl|].
      intros Ht. apply TInv_update_node; [apply remote_request_keeps | exact Ht].
    - (* response *)
      cbn [ev_ok] in Hok. destruct Hok as [Hsrc Hnodes].
      destruct (tid_action tid) as [aid|]; [|apply tpres_refl].
      assert (Hn : forall h, In h (map handle_of (if c_v6 cf then r_nodes6 r else r_nodes4 r)) -> snd h <> dummy_addr).
      { intros h Hh. apply in_map_iff in Hh as [n [<- Hn]]. cbn. apply Hnodes. apply in_or_app.
        destruct (c_v6 cf); [right | left]; exact Hn. }
      destruct (lookup_by_action I s aid) as [lk|].
      2:{ destruct (aid_of I 0 =? aid)%N; [|apply tpres_refl]. cbn. apply add_nodes_tp; assumption. }
      set (c := mkCtx _ (ns_timer s) (ns_sends s) []).
      assert (X0 : tpres (ns_table s) (cx_table c)) by (apply add_nodes_tp; assumption).
      pose proof (recv_response_tp I sendok (c_id cf) now lk c (r_id r, src) tid r (c_v6 cf)) as X.
      destruct (recv_response I sendok (c_id cf) now lk c (r_id r, src) tid r (c_v6 cf)) as [lk' c']. cbn [snd] in X.
      destruct (lookup_ongoing lk'); cbn [fst].
      + eapply tpres_trans; [exact X0 | exact X].
      + eapply tpres_trans; [exact X0|]. eapply tpres_trans; [exact X | apply complete_lookup_tp].
    - apply tpres_refl.
    - (* timer *)
      destruct (pop_timer (ns_timer s)) as [[e tm]|]; [|apply tpres_refl].
      destruct (te_task e) as [|tid|tid].
      + apply (continue_refresh_tp now (set_timer s tm)).
      + destruct (tid_action tid) as [a|]; [|apply tpres_refl].
        destruct (lookup_by_action I (set_timer s tm) a) as [lk|]; [|apply tpres_refl].
        pose proof (recv_timeout_tp I sendok (c_id cf) now lk (ctx_of (set_timer s tm)) tid) as X.
        destruct (recv_timeout I sendok (c_id cf) now lk (ctx_of (set_timer s tm)) tid) as [lk' c']. cbn [snd] in X.
        destruct (lookup_ongoing lk'); cbn [fst]; [exact X | eapply tpres_trans; [exact X | apply complete_lookup_tp]].
      + destruct (tid_action tid) as [a|]; [|apply tpres_refl].
        destruct (lookup_by_action I (set_timer s tm) a) as [lk|]; [|apply tpres_refl].
        apply (complete_lookup_tp now (set_timer s tm) (ctx_of (set_timer s tm)) lk).
    - destruct (queue_early && negb (ns_concluded s)); [apply tpres_refl | apply start_lookup_tp].
    - destruct (ns_boot s); apply tpres_refl.
    - apply tpres_refl.
    - (* bootstrap state *)
      set (s0 := set_boot s b).
      assert (X : tpres (ns_table s) (ns_table (fst (match b with
                   | BBootstrapped => let '(s1, o) := continue_refresh I sendok cf single_refresh now (set_waiters s0 [] (ns_next_waiter s0)) in
                                      (s1, map ONotify (ns_waiters s0) ++ o)
                   | _ => (s0, []) end)))).
      { destruct b; try apply tpres_refl.
        pose proof (continue_refresh_tp now (set_waiters s0 [] (ns_next_waiter s0))) as Y.
        destruct (continue_refresh I sendok cf single_refresh now (set_waiters s0 [] (ns_next_waiter s0))) as [s1 o]. exact Y. }
      destruct (match b with BBootstrapped => _ | _ => _ end) as [s2 out]. cbn [fst] in X.
      destruct (queue_early && negb (ns_concluded s2) && _); [|exact X].
      pose proof (start_queued_tp now (ns_queued s2) (set_queue s2 [] true)) as Y.
      destruct (start_queued I sendok cf now (set_queue s2 [] true) (ns_queued s2)) as [s3 o3]. cbn [fst] in *.
      eapply tpres_trans; [exact X | exact Y].
    - cbn [ev_ok] in Hok. destruct Hok as [H1 H2]. cbn. apply add_nodes_tp; assumption.
    - cbn. intros Ht. apply TInv_update_node; [apply local_request_keeps | exact Ht].
    - destruct Hok.
    - apply tpres_refl.
  Qed.
End StepTable.

(* ------------------------------------------------------------------ C04: timer facts and immediate completion *)
Lemma min_entry_in l m : min_entry l = Some m -> In m l.
Proof.
  revert m. induction l as [|e r IH]; intros m H; cbn in H; [discriminate|].
  destruct (min_entry r) as [m'|] eqn:E.
  - destruct (te_lt m' e); inversion H; subst; [right; apply IH; reflexivity | left; reflexivity].
  - inversion H; subst. left. reflexivity.
Qed.

Lemma min_entry_none l : min_entry l = None -> l = [].
Proof.
  destruct l as [|e r]; [reflexivity|]. cbn. destruct (min_entry r) as [m|]; [destruct (te_lt m e)|]; discriminate.
Qed.

(* the timer yields an entry with the least (deadline, id): no other entry is strictly earlier *)
Lemma min_entry_least l m : min_entry l = Some m -> forall e, In e l -> te_lt e m = false.
Proof.
  revert m. induction l as [|x r IH]; intros m H e He; [destruct He|]. cbn in H.
  destruct (min_entry r) as [m'|] eqn:E.
  - specialize (IH m' eq_refl).
    destruct (te_lt m' x) eqn:L; inversion H; subst.
    + destruct He as [<-|He]; [|apply IH, He].
      unfold te_lt in *. lia.
    + destruct He as [<-|He]; [unfold te_lt; lia|].
      specialize (IH e He). unfold te_lt in *. lia.
  - inversion H; subst. apply min_entry_none in E. subst r. destruct He as [<-|[]]. unfold te_lt. lia.
Qed.

Lemma pop_timer_least tm e tm' : pop_timer tm = Some (e, tm') ->
  In e (tm_entries tm) /\ (forall x, In x (tm_entries tm) -> te_lt x e = false) /\
  tm' = cancel (te_deadline e, te_id e) tm.
Proof.
  unfold pop_timer. destruct (min_entry (tm_entries tm)) as [m|] eqn:E; [|discriminate].
  intros H. inversion H; subst. split; [eapply min_entry_in, E|]. split; [apply min_entry_least, E | reflexivity].
Qed.

(* cancel removes exactly the entries with that key *)
Lemma cancel_spec key tm x : In x (tm_entries (cancel key tm)) <-> In x (tm_entries tm) /\ key_eqb (te_deadline x, te_id x) key = false.
Proof.
  unfold cancel. cbn [tm_entries]. rewrite filter_In. destruct (key_eqb _ key); cbn; intuition congruence.
Qed.

Section C04.
  Variable I : ids.
  Variable sendok : nat -> bool.
  Variable cf : cfg.
  Variable single_refresh : bool.

  (* a search on a node that knows no good node ends in the very step that starts it, having
     queried nobody *)
  Theorem no_good_node_immediate now s ih an :
    filter (fun n => status_eqb (node_status now n) Good) (closest_nodes now (ns_table s) ih) = [] ->
    snd (start_lookup I sendok cf now s ih an) = [OStreamEnd (ns_next_act s)] /\
    ns_lookups (fst (start_lookup I sendok cf now s ih an)) = ns_lookups s.
  Proof.
    intros H. unfold start_lookup, lookup_new, ctx_of. cbn [cx_table]. rewrite H. cbn [firstn fold_left map skipn app].
    unfold start_request_round. cbn [request_round Nat.eqb set_active lk_active].
    unfold recv_finished. cbn [lk_tokens lk_sorted filter firstn map lk_announce].
    destruct an; cbn; split; reflexivity.
  Qed.
End C04.
