(* Facts about the table refresh (C11): the refresh chain never dies, what a round does. *)
From BT Require Import model.Prelude gen.Consts model.Compact model.Krpc model.Token model.Storage model.Table model.Txn model.Handler.
From BT Require Import proofs.Prelude_Facts proofs.Table_Facts proofs.TableInv_Facts proofs.Handler_Facts.
From Coq Require Import ZifyBool ZifyN ZifyNat.
Open Scope Z_scope.

(* ------------------------------------------------------------------ list helpers *)
Lemma NoDup_snoc {A} (l : list A) x : NoDup l -> ~ In x l -> NoDup (l ++ [x]).
Proof.
  induction l as [|y l IH]; intros H Hx; cbn; [constructor; [intros [] | constructor]|].
  inversion H; subst. constructor.
  - intros Hin. apply in_app_or in Hin as [Hin|[->|[]]]; [contradiction | apply Hx; left; reflexivity].
  - apply IH; [assumption | intros Hin; apply Hx; right; exact Hin].
Qed.

Lemma NoDup_map_filter {A B} (f : A -> B) (g : A -> bool) l : NoDup (map f l) -> NoDup (map f (filter g l)).
Proof.
  induction l as [|x l IH]; intros H; cbn; [constructor|]. cbn in H. inversion H; subst.
  destruct (g x); [|apply IH; assumption]. cbn. constructor; [|apply IH; assumption].
  intros Hin. apply in_map_iff in Hin as [y [E Hy]]. apply filter_In in Hy as [Hy _].
  match goal with H : ~ In (f x) _ |- _ => apply H end. rewrite <- E. apply in_map, Hy.
Qed.

Lemma NoDup_map_inj {A B} (f : A -> B) l a b : NoDup (map f l) -> In a l -> In b l -> f a = f b -> a = b.
Proof.
  induction l as [|x l IH]; intros H Ha Hb E; [destruct Ha|]. cbn in H. inversion H; subst.
  destruct Ha as [->|Ha], Hb as [->|Hb]; [reflexivity | | |apply IH; assumption].
  - exfalso. match goal with H : ~ In (f a) _ |- _ => apply H end. rewrite E. apply in_map, Hb.
  - exfalso. match goal with H : ~ In (f b) _ |- _ => apply H end. rewrite <- E. apply in_map, Ha.
Qed.

Lemma filter_id {A} (f : A -> bool) l : (forall x, In x l -> f x = true) -> filter f l = l.
Proof.
  induction l as [|x l IH]; intros H; cbn; [reflexivity|].
  rewrite (H x (or_introl eq_refl)), IH; [reflexivity | intros y Hy; apply H; right; exact Hy].
Qed.

(* ------------------------------------------------------------------ the timer discipline *)
(* ids are handed out in increasing order and never reused *)
Definition TmOK (tm : timer) : Prop := ids_below tm /\ NoDup (map te_id (tm_entries tm)).

(* a key remembered by a search: its id has been handed out, and no refresh entry carries it *)
Definition KeyOK (tm : timer) (k : Z * N) : Prop :=
  (snd k < tm_next tm)%N /\ forall e, In e (refresh_part tm) -> te_id e <> snd k.

Definition KeysOK (tm : timer) (a : list (bytes * (N * (Z * N)))) : Prop :=
  forall x, In x a -> KeyOK tm (snd (snd x)).

(* transitions that leave the refresh entries of the timer exactly as they are *)
Record Keep (tm tm' : timer) : Prop := {
  kp_ok : TmOK tm';
  kp_next : (tm_next tm <= tm_next tm')%N;
  kp_part : refresh_part tm' = refresh_part tm
}.

Lemma TmOK_empty : TmOK timer_empty.
Proof. split; [intros e [] | constructor]. Qed.

Lemma TmOK_schedule now d k tm : TmOK tm -> TmOK (fst (schedule_in now d k tm)).
Proof.
  intros [H1 H2]. split; [apply ids_schedule, H1|].
  cbn [schedule_in fst tm_entries]. rewrite map_app. cbn [map te_id]. apply NoDup_snoc; [exact H2|].
  intros Hin. apply in_map_iff in Hin as [e [E He]]. specialize (H1 e He). lia.
Qed.

Lemma TmOK_cancel key tm : TmOK tm -> TmOK (cancel key tm).
Proof.
  intros [H1 H2]. split; [apply ids_cancel, H1|]. cbn [cancel tm_entries]. apply NoDup_map_filter, H2.
Qed.

Lemma refresh_part_in tm e : In e (refresh_part tm) -> In e (tm_entries tm) /\ is_refresh_entry e = true.
Proof. unfold refresh_part. apply filter_In. Qed.

Lemma refresh_part_cancel_incl key tm : incl (refresh_part (cancel key tm)) (refresh_part tm).
Proof.
  intros e He. unfold refresh_part, cancel in *. cbn [tm_entries] in He.
  apply filter_In in He as [He Hr]. apply filter_In in He as [He _]. apply filter_In. auto.
Qed.

Lemma refresh_part_cancel key tm : (forall e, In e (refresh_part tm) -> te_id e <> snd key) ->
  refresh_part (cancel key tm) = refresh_part tm.
Proof.
  intros H. unfold refresh_part, cancel. cbn [tm_entries]. rewrite filter_comm.
  apply filter_id. intros e He. specialize (H e He). unfold key_eqb. cbn [fst snd].
  destruct (N.eqb_spec (te_id e) (snd key)); [contradiction|]. rewrite andb_false_r. reflexivity.
Qed.

Lemma refresh_part_schedule now d k tm :
  refresh_part (fst (schedule_in now d k tm)) =
  refresh_part tm ++ (if only_lookup_task k then [] else [mkTE (now + d) (tm_next tm) k]).
Proof.
  unfold refresh_part, schedule_in. cbn [fst tm_entries]. rewrite filter_app. cbn [filter].
  unfold is_refresh_entry at 2. cbn [te_task]. destruct (only_lookup_task k); reflexivity.
Qed.

Lemma Keep_refl tm : TmOK tm -> Keep tm tm.
Proof. intros H. constructor; [exact H | lia | reflexivity]. Qed.

Lemma Keep_trans a b c : Keep a b -> Keep b c -> Keep a c.
Proof. intros [A1 A2 A3] [B1 B2 B3]. constructor; [exact B1 | lia | congruence]. Qed.

Lemma Keep_sched now d k tm : TmOK tm -> only_lookup_task k = true -> Keep tm (fst (schedule_in now d k tm)).
Proof.
  intros H Hk. constructor; [apply TmOK_schedule, H | cbn; lia|].
  rewrite refresh_part_schedule, Hk. apply app_nil_r.
Qed.

Lemma Keep_cancel key tm : TmOK tm -> KeyOK tm key -> Keep tm (cancel key tm).
Proof.
  intros H [_ Hk]. constructor; [apply TmOK_cancel, H | cbn; lia | apply refresh_part_cancel, Hk].
Qed.

Lemma KeyOK_mono tm tm' k : (tm_next tm <= tm_next tm')%N -> incl (refresh_part tm') (refresh_part tm) ->
  KeyOK tm k -> KeyOK tm' k.
Proof. intros Hn Hi [H1 H2]. split; [lia | intros e He; apply H2, Hi, He]. Qed.

Lemma KeyOK_keep tm tm' k : Keep tm tm' -> KeyOK tm k -> KeyOK tm' k.
Proof. intros [_ Hn Hp]. apply KeyOK_mono; [exact Hn | rewrite Hp; apply incl_refl]. Qed.

Lemma KeysOK_keep tm tm' a : Keep tm tm' -> KeysOK tm a -> KeysOK tm' a.
Proof. intros HK H x Hx. eapply KeyOK_keep; [exact HK | apply H, Hx]. Qed.

Lemma KeyOK_new now d k tm : TmOK tm -> only_lookup_task k = true ->
  KeyOK (fst (schedule_in now d k tm)) (snd (schedule_in now d k tm)).
Proof.
  intros [H _] Hk. split; [cbn; lia|]. rewrite refresh_part_schedule, Hk, app_nil_r.
  intros e He. apply refresh_part_in in He as [He _]. specialize (H e He). cbn. lia.
Qed.

Lemma KeyOK_cancel key tm k : KeyOK tm k -> KeyOK (cancel key tm) k.
Proof. apply KeyOK_mono; [cbn; lia | apply refresh_part_cancel_incl]. Qed.

Lemma KeyOK_sched_refresh now d tm k : KeyOK tm k -> KeyOK (fst (schedule_in now d TkRefresh tm)) k.
Proof.
  intros [H1 H2]. split; [cbn; lia|]. rewrite refresh_part_schedule. cbn [only_lookup_task].
  intros e He. apply in_app_or in He as [He|[<-|[]]]; [apply H2, He | cbn; lia].
Qed.

Lemma KeysOK_nil tm : KeysOK tm [].
Proof. intros x []. Qed.

Lemma KeysOK_filter tm f a : KeysOK tm a -> KeysOK tm (filter f a).
Proof. intros H x Hx. apply filter_In in Hx as [Hx _]. apply H, Hx. Qed.

Lemma KeysOK_insert tm a tid d key : KeyOK tm key -> KeysOK tm a -> KeysOK tm (active_insert a tid (d, key)).
Proof.
  intros Hk H x Hx. unfold active_insert in Hx. destruct Hx as [<-|Hx]; [exact Hk|].
  apply filter_In in Hx as [Hx _]. apply H, Hx.
Qed.

(* ------------------------------------------------------------------ the search code keeps the refresh entry *)
Section LookupKeep.
  Variable I : ids.
  Variable sendok : nat -> bool.
  Variable own : N.
  Variable now : Z.

  Lemma request_round_keep : forall nodes lk c sent,
    TmOK (cx_timer c) -> KeysOK (cx_timer c) (lk_active lk) ->
    Keep (cx_timer c) (cx_timer (snd (fst (request_round I sendok own now nodes lk c sent)))) /\
    KeysOK (cx_timer (snd (fst (request_round I sendok own now nodes lk c sent))))
           (lk_active (fst (fst (request_round I sendok own now nodes lk c sent)))).
  Proof.
    induction nodes as [|[h d] r IH]; intros lk c sent H HA; cbn [request_round].
    - cbn [fst snd]. split; [apply Keep_refl, H | exact HA].
    - destruct (gen_tid I lk) as [tid lk1] eqn:Eg. unfold gen_tid in Eg. inversion Eg; subst tid lk1. clear Eg.
      set (tid := tid_bytes _ _).
      pose proof (Keep_sched now lookup_timeout (TkLookupTimeout tid) _ H eq_refl) as K1.
      pose proof (KeyOK_new now lookup_timeout (TkLookupTimeout tid) _ H eq_refl) as N1.
      destruct (schedule_in now lookup_timeout (TkLookupTimeout tid) (cx_timer c)) as [tm key]. cbn [fst snd] in K1, N1.
      assert (HA1 : KeysOK tm (active_insert (lk_active lk) tid (d, key))).
      { apply KeysOK_insert; [exact N1 | eapply KeysOK_keep; [exact K1 | exact HA]]. }
      destruct (send sendok _ (snd h) _) as [c2 ok] eqn:Es. unfold send in Es. inversion Es; subst c2 ok. clear Es.
      destruct (sendok (cx_sends c)).
      + match goal with |- context [request_round I sendok own now r ?l ?cc ?sn] =>
          destruct (IH l cc sn (kp_ok _ _ K1) HA1) as [K2 A2] end.
        split; [eapply Keep_trans; [exact K1 | exact K2] | exact A2].
      + match goal with |- context [request_round I sendok own now r ?l ?cc ?sn] =>
          destruct (IH l cc sn (kp_ok _ _ K1) HA1) as [K2 A2] end.
        split; [eapply Keep_trans; [exact K1 | exact K2] | exact A2].
  Qed.

  Lemma start_request_round_keep nodes lk c :
    TmOK (cx_timer c) -> KeysOK (cx_timer c) (lk_active lk) ->
    Keep (cx_timer c) (cx_timer (snd (start_request_round I sendok own now nodes lk c))) /\
    KeysOK (cx_timer (snd (start_request_round I sendok own now nodes lk c)))
           (lk_active (fst (start_request_round I sendok own now nodes lk c))).
  Proof.
    intros H HA. unfold start_request_round. destruct (request_round_keep nodes lk c O H HA) as [K A].
    destruct (request_round I sendok own now nodes lk c 0) as [[lk' c'] sent]. cbn [fst snd] in *.
    split; [exact K|]. destruct (Nat.eqb sent 0); [apply KeysOK_nil | exact A].
  Qed.

  Lemma endgame_sends_keep : forall todo key lk c,
    KeyOK (cx_timer c) key -> KeysOK (cx_timer c) (lk_active lk) ->
    cx_timer (snd (endgame_sends I sendok own now todo key lk c)) = cx_timer c /\
    KeysOK (cx_timer c) (lk_active (snd (fst (endgame_sends I sendok own now todo key lk c)))).
  Proof.
    induction todo as [|[[d h] q] r IH]; intros key lk c Hk HA; cbn [endgame_sends]; [split; [reflexivity | exact HA]|].
    destruct q.
    - specialize (IH key lk c Hk HA). destruct (endgame_sends I sendok own now r key lk c) as [[r' lk'] c']. exact IH.
    - destruct (gen_tid I lk) as [tid lk1] eqn:Eg. unfold gen_tid in Eg. inversion Eg; subst tid lk1. clear Eg.
      set (tid := tid_bytes _ _).
      assert (HA1 : KeysOK (cx_timer c) (active_insert (lk_active lk) tid (d, key))) by (apply KeysOK_insert; assumption).
      destruct (send sendok c (snd h) _) as [c1 ok] eqn:Es. unfold send in Es. inversion Es; subst c1 ok. clear Es.
      destruct (sendok (cx_sends c)).
      + match goal with |- context [endgame_sends I sendok own now r key ?l ?cc] =>
          pose proof (IH key l cc Hk HA1) as X; destruct (endgame_sends I sendok own now r key l cc) as [[r' lk'] c'] end.
        exact X.
      + match goal with |- context [endgame_sends I sendok own now r key ?l ?cc] =>
          pose proof (IH key l cc Hk HA1) as X; destruct (endgame_sends I sendok own now r key l cc) as [[r' lk'] c'] end.
        exact X.
  Qed.

  Lemma start_endgame_keep lk c :
    TmOK (cx_timer c) -> KeysOK (cx_timer c) (lk_active lk) ->
    Keep (cx_timer c) (cx_timer (snd (start_endgame I sendok own now lk c))) /\
    KeysOK (cx_timer (snd (start_endgame I sendok own now lk c))) (lk_active (fst (start_endgame I sendok own now lk c))).
  Proof.
    intros H HA. unfold start_endgame.
    destruct (gen_tid I lk) as [tid lk1] eqn:Eg. unfold gen_tid in Eg. inversion Eg; subst tid lk1. clear Eg.
    set (tid := tid_bytes _ _).
    pose proof (Keep_sched now endgame_timeout (TkLookupEndGame tid) _ H eq_refl) as K1.
    pose proof (KeyOK_new now endgame_timeout (TkLookupEndGame tid) _ H eq_refl) as N1.
    destruct (schedule_in now endgame_timeout (TkLookupEndGame tid) (cx_timer c)) as [tm key]. cbn [fst snd] in K1, N1.
    match goal with |- context [endgame_sends I sendok own now ?t key ?l ?cc] =>
      destruct (endgame_sends_keep t key l cc N1 (KeysOK_keep _ _ _ K1 HA)) as [E A];
      destruct (endgame_sends I sendok own now t key l cc) as [[r' lk'] c'] end.
    cbn [fst snd cx_timer lk_active] in *. rewrite E. split; [exact K1 | exact A].
  Qed.

  Lemma announce_sends_timer aport : forall targets lk c,
    cx_timer (snd (announce_sends I sendok own now targets lk c aport)) = cx_timer c.
  Proof.
    induction targets as [|h r IH]; intros lk c; cbn [announce_sends]; [reflexivity|].
    destruct (gen_tid I lk) as [tid lk1].
    destruct (send sendok c (snd h) _) as [c1 ok] eqn:Es. unfold send in Es. inversion Es; subst c1 ok.
    destruct (sendok (cx_sends c)); rewrite IH; reflexivity.
  Qed.

  Lemma recv_finished_timer lk c aport : cx_timer (recv_finished I sendok own now lk c aport) = cx_timer c.
  Proof.
    unfold recv_finished.
    match goal with |- context [announce_sends I sendok own now ?t lk c aport] =>
      pose proof (announce_sends_timer aport t lk c) as X end.
    destruct (lk_announce lk); [|reflexivity].
    destruct (announce_sends I sendok own now _ lk c aport) as [lk1 c1]. exact X.
  Qed.

  Lemma rr_accept_keys tm lk from tid r v6 d :
    KeysOK tm (lk_active lk) -> KeysOK tm (lk_active (fst (fst (rr_accept lk from tid r v6 d)))).
  Proof. intros H. unfold rr_accept. cbn [fst lk_active]. destruct (r_token r); cbn [lk_active set_active]; apply KeysOK_filter, H. Qed.

  Lemma rr_continue_keep lk2 c0 it nd :
    TmOK (cx_timer c0) -> KeysOK (cx_timer c0) (lk_active lk2) ->
    Keep (cx_timer c0) (cx_timer (snd (rr_continue I sendok own now lk2 c0 it nd))) /\
    KeysOK (cx_timer (snd (rr_continue I sendok own now lk2 c0 it nd))) (lk_active (fst (rr_continue I sendok own now lk2 c0 it nd))).
  Proof.
    intros H HA. unfold rr_continue. destruct (lk_endgame lk2); [split; [apply Keep_refl, H | exact HA]|].
    destruct it as [it|].
    - destruct (start_request_round_keep (map (fun h => (h, nd)) (used_slots it)) lk2 c0 H HA) as [K A].
      destruct (start_request_round I sendok own now _ lk2 c0) as [lk' c']. cbn [fst snd] in K, A.
      destruct (lk_active lk') eqn:El; [|cbn [fst snd]; rewrite El; split; assumption].
      assert (A' : KeysOK (cx_timer c') (lk_active lk')) by (rewrite El; apply KeysOK_nil).
      destruct (start_endgame_keep lk' c' (kp_ok _ _ K) A') as [K2 A2].
      split; [eapply Keep_trans; eassumption | exact A2].
    - destruct (lk_active lk2) eqn:El; [|cbn [fst snd]; rewrite El; split; [apply Keep_refl, H | exact HA]].
      apply start_endgame_keep; [exact H | rewrite El; apply KeysOK_nil].
  Qed.

  Lemma recv_response_keep lk c from tid r v6 :
    TmOK (cx_timer c) -> KeysOK (cx_timer c) (lk_active lk) ->
    Keep (cx_timer c) (cx_timer (snd (recv_response I sendok own now lk c from tid r v6))) /\
    KeysOK (cx_timer (snd (recv_response I sendok own now lk c from tid r v6)))
           (lk_active (fst (recv_response I sendok own now lk c from tid r v6))).
  Proof.
    intros H HA. unfold recv_response.
    destruct (List.find (fun e => bytes_eqb (fst e) tid) (lk_active lk)) as [[t0 [dist key]]|] eqn:Ef;
      [|split; [apply Keep_refl, H | exact HA]].
    apply find_some in Ef as [Hin _]. pose proof (HA _ Hin) as Hkey. cbn [snd] in Hkey.
    set (c0 := if lk_endgame lk then c else _).
    assert (K0 : Keep (cx_timer c) (cx_timer c0)).
    { unfold c0. destruct (lk_endgame lk); [apply Keep_refl, H | cbn [cx_timer]; apply Keep_cancel; assumption]. }
    pose proof (rr_accept_keys (cx_timer c0) lk from tid r v6 dist (KeysOK_keep _ _ _ K0 HA)) as A1.
    destruct (rr_accept lk from tid r v6 dist) as [[lk2 it] nd]. cbn [fst] in A1.
    destruct (rr_continue_keep lk2 c0 it nd (kp_ok _ _ K0) A1) as [K2 A2].
    destruct (rr_continue I sendok own now lk2 c0 it nd) as [lk3 c1]. cbn [fst snd cx_timer] in *.
    split; [eapply Keep_trans; eassumption | exact A2].
  Qed.

  Lemma recv_timeout_keep lk c tid :
    TmOK (cx_timer c) -> KeysOK (cx_timer c) (lk_active lk) ->
    Keep (cx_timer c) (cx_timer (snd (recv_timeout I sendok own now lk c tid))) /\
    KeysOK (cx_timer (snd (recv_timeout I sendok own now lk c tid))) (lk_active (fst (recv_timeout I sendok own now lk c tid))).
  Proof.
    intros H HA. unfold recv_timeout.
    match goal with |- context [if ?b then _ else _] => destruct b end; [|split; [apply Keep_refl, H | exact HA]].
    match goal with |- context [if ?b then _ else _] => destruct b end.
    - apply start_endgame_keep; [exact H | cbn [lk_active set_active]; apply KeysOK_filter, HA].
    - cbn [fst snd lk_active set_active]. split; [apply Keep_refl, H | apply KeysOK_filter, HA].
  Qed.

  Lemma lookup_new_keep act target an c :
    TmOK (cx_timer c) ->
    Keep (cx_timer c) (cx_timer (snd (lookup_new I sendok own now act target an c))) /\
    KeysOK (cx_timer (snd (lookup_new I sendok own now act target an c))) (lk_active (fst (lookup_new I sendok own now act target an c))).
  Proof. intros H. unfold lookup_new. apply start_request_round_keep; [exact H | apply KeysOK_nil]. Qed.
End LookupKeep.

(* ------------------------------------------------------------------ the node-level invariants *)
(* the auxiliary invariant: timer ids are fresh and distinct, and no search remembers the key of a
   refresh entry *)
Definition J (s : nstate) : Prop :=
  TmOK (ns_timer s) /\ forall lk, In lk (ns_lookups s) -> KeysOK (ns_timer s) (lk_active lk).

(* the refresh chain is alive: exactly one refresh entry is pending, it is the remembered one, and it
   is due at most one refresh interval after [now] *)
Definition Alive (now : Z) (s : nstate) : Prop :=
  exists re, refresh_part (ns_timer s) = [re] /\ ns_refresh_pending s = Some (te_key re) /\
             te_deadline re <= now + refresh_interval.

(* transitions of the node that leave the refresh chain alone *)
Definition SK (s s' : nstate) : Prop :=
  Keep (ns_timer s) (ns_timer s') /\ ns_refresh_pending s' = ns_refresh_pending s /\ J s'.

Lemma J_init id t0 : J (ns_init id t0).
Proof. split; [apply TmOK_empty | intros lk []]. Qed.

Lemma SK_trans a b c : SK a b -> SK b c -> SK a c.
Proof. intros [K1 [P1 _]] [K2 [P2 J2]]. split; [eapply Keep_trans; eassumption | split; [congruence | exact J2]]. Qed.

Lemma SK_same s s' : ns_timer s' = ns_timer s -> ns_lookups s' = ns_lookups s ->
  ns_refresh_pending s' = ns_refresh_pending s -> J s -> SK s s'.
Proof.
  intros E1 E2 E3 [H1 H2]. split; [rewrite E1; apply Keep_refl, H1|]. split; [exact E3|].
  split; rewrite E1; [exact H1 | rewrite E2; exact H2].
Qed.

Lemma SK_refl s : J s -> SK s s.
Proof. apply SK_same; reflexivity. Qed.

Lemma SK_J s s' : SK s s' -> J s'.
Proof. intros [_ [_ H]]. exact H. Qed.

Lemma Alive_SK now now' s s' : Alive now s -> now <= now' -> SK s s' -> Alive now' s'.
Proof.
  intros [re [E [P D]]] Hn [[_ _ K] [P' _]]. exists re. rewrite K, P'. repeat split; [exact E | exact P | lia].
Qed.

Lemma Alive_Inv18p now s : Alive now s -> Inv18p s.
Proof. intros [re [E [P _]]]. right. exists re. auto. Qed.

Lemma replace_lookup_in lks lk' l : In l (replace_lookup lks lk') -> l = lk' \/ In l lks.
Proof.
  unfold replace_lookup. intros H. apply in_map_iff in H as [x [E Hx]].
  destruct (Nat.eqb (lk_act x) (lk_act lk')); [left; auto | right; subst; exact Hx].
Qed.

Lemma remove_lookup_in lks act l : In l (remove_lookup lks act) -> In l lks.
Proof. unfold remove_lookup. intros H. apply filter_In in H as [H _]. exact H. Qed.

Section RefreshAlive.
  Variable I : ids.
  Variable sendok : nat -> bool.
  Variable cf : cfg.
  Variable queue_early : bool.

  Notation step := (step I sendok cf true queue_early).
  Notation run := (run I sendok cf true queue_early).

  Lemma with_ctx_SK s c' lks : J s -> Keep (ns_timer s) (cx_timer c') ->
    (forall l, In l lks -> KeysOK (cx_timer c') (lk_active l)) -> SK s (with_ctx s c' lks).
  Proof.
    intros _ K HA. split; [exact K|]. split; [reflexivity|]. split; [exact (kp_ok _ _ K) | exact HA].
  Qed.

  Lemma complete_lookup_SK now s c lk : cx_timer c = ns_timer s -> J s ->
    SK s (fst (complete_lookup I sendok cf now s c lk)).
  Proof.
    intros E [H1 H2]. unfold complete_lookup. cbn [fst].
    pose proof (recv_finished_timer I sendok (c_id cf) now lk c (c_aport cf)) as T.
    apply with_ctx_SK; [split; assumption | rewrite T, E; apply Keep_refl, H1|].
    intros l Hl. rewrite T, E. apply H2. eapply remove_lookup_in, Hl.
  Qed.

  (* a search processed an event: the searches of the node afterwards *)
  Lemma processed_SK now s c' lk' (ongoing : bool) :
    J s -> Keep (ns_timer s) (cx_timer c') -> KeysOK (cx_timer c') (lk_active lk') ->
    SK s (fst (if ongoing then (with_ctx s c' (replace_lookup (ns_lookups s) lk'), rev (cx_out c'))
               else complete_lookup I sendok cf now (with_ctx s c' (replace_lookup (ns_lookups s) lk')) c' lk')).
  Proof.
    intros HJ K A.
    assert (X : SK s (with_ctx s c' (replace_lookup (ns_lookups s) lk'))).
    { apply with_ctx_SK; [exact HJ | exact K|]. intros l Hl. apply replace_lookup_in in Hl as [->|Hl]; [exact A|].
      eapply KeysOK_keep; [exact K | apply (proj2 HJ), Hl]. }
    destruct ongoing; cbn [fst]; [exact X|].
    eapply SK_trans; [exact X|]. apply complete_lookup_SK; [reflexivity | exact (SK_J _ _ X)].
  Qed.

  Lemma lookup_by_action_in s a lk : lookup_by_action I s a = Some lk -> In lk (ns_lookups s).
  Proof. unfold lookup_by_action. intros H. apply find_some in H as [H _]. exact H. Qed.

  Lemma start_lookup_SK now s ih an : J s -> SK s (fst (start_lookup I sendok cf now s ih an)).
  Proof.
    intros HJ. unfold start_lookup.
    destruct (lookup_new_keep I sendok (c_id cf) now (ns_next_act s) ih an (ctx_of s) (proj1 HJ)) as [K A].
    destruct (lookup_new I sendok (c_id cf) now (ns_next_act s) ih an (ctx_of s)) as [lk c]. cbn [fst snd ctx_of cx_timer] in K, A.
    destruct (lk_active lk) as [|x0 xs] eqn:El; cbn [fst].
    - pose proof (recv_finished_timer I sendok (c_id cf) now lk c (c_aport cf)) as T.
      split; [cbn; rewrite T; exact K|]. split; [reflexivity|].
      split; cbn; rewrite T; [exact (kp_ok _ _ K)|]. intros l Hl. eapply KeysOK_keep; [exact K | apply (proj2 HJ), Hl].
    - split; [exact K|]. split; [reflexivity|]. split; [exact (kp_ok _ _ K)|]. cbn.
      intros l [<-|Hl]; [rewrite El; exact A | eapply KeysOK_keep; [exact K | apply (proj2 HJ), Hl]].
  Qed.

  Lemma start_queued_SK now : forall q s, J s -> SK s (fst (start_queued I sendok cf now s q)).
  Proof.
    induction q as [|[ih an] r IH]; intros s HJ; cbn [start_queued]; [apply SK_refl, HJ|].
    pose proof (start_lookup_SK now s ih an HJ) as X1.
    destruct (start_lookup I sendok cf now s ih an) as [s1 o1]. cbn [fst] in X1. specialize (IH s1 (SK_J _ _ X1)).
    destruct (start_queued I sendok cf now s1 r) as [s2 o2]. cbn [fst] in *. eapply SK_trans; eassumption.
  Qed.

  (* ---------------------------------------------------------------- a refresh round *)
  Lemma refresh_sends_timer now target : forall nodes next c,
    cx_timer (snd (refresh_sends I sendok cf nodes target next c now)) = cx_timer c.
  Proof.
    induction nodes as [|n r IH]; intros next c; cbn [refresh_sends]; [reflexivity|].
    destruct (send sendok c (nd_addr n) _) as [c1 ok] eqn:Es. unfold send in Es. inversion Es; subst c1 ok.
    rewrite IH. reflexivity.
  Qed.

  Definition refresh_tm0 (s : nstate) : timer :=
    match ns_refresh_pending s with Some key => cancel key (ns_timer s) | None => ns_timer s end.

  Lemma continue_refresh_fields now s :
    let s' := fst (continue_refresh I sendok cf true now s) in
    ns_timer s' = fst (schedule_in now refresh_interval TkRefresh (refresh_tm0 s)) /\
    ns_refresh_pending s' = Some (snd (schedule_in now refresh_interval TkRefresh (refresh_tm0 s))) /\
    ns_lookups s' = ns_lookups s /\ ns_queued s' = ns_queued s /\ ns_concluded s' = ns_concluded s.
  Proof.
    cbn zeta. unfold continue_refresh, refresh_tm0.
    match goal with |- context [refresh_sends I sendok cf ?nodes ?t ?nx ?c0 now] =>
      pose proof (refresh_sends_timer now t nodes nx c0) as T;
      destruct (refresh_sends I sendok cf nodes t nx c0 now) as [next c1] end.
    cbn [snd cx_timer ctx_of] in T. rewrite T.
    destruct (ns_refresh_pending s) as [key|]; repeat split; reflexivity.
  Qed.

  Lemma continue_refresh_J now s : J s -> J (fst (continue_refresh I sendok cf true now s)).
  Proof.
    intros [H1 H2]. destruct (continue_refresh_fields now s) as [E1 [_ [E2 _]]].
    assert (T0 : TmOK (refresh_tm0 s)).
    { unfold refresh_tm0. destruct (ns_refresh_pending s); [apply TmOK_cancel|]; exact H1. }
    split; rewrite E1; [apply TmOK_schedule, T0|]. rewrite E2. intros lk Hl x Hx.
    apply KeyOK_sched_refresh. unfold refresh_tm0.
    destruct (ns_refresh_pending s); [apply KeyOK_cancel|]; apply (H2 lk Hl x Hx).
  Qed.

  (* a round leaves exactly one refresh entry: the one it has just scheduled, due one interval later *)
  Lemma continue_refresh_alive now s : Inv18p s ->
    exists re, refresh_part (ns_timer (fst (continue_refresh I sendok cf true now s))) = [re] /\
               ns_refresh_pending (fst (continue_refresh I sendok cf true now s)) = Some (te_key re) /\
               te_deadline re = now + refresh_interval.
  Proof.
    intros H. destruct (continue_refresh_fields now s) as [E1 [E2 _]].
    assert (H0 : refresh_part (refresh_tm0 s) = []).
    { unfold refresh_tm0. destruct H as [H|[e [H Hp]]].
      - destruct (ns_refresh_pending s) as [p|]; [|exact H].
        pose proof (refresh_part_cancel_incl p (ns_timer s)) as X. rewrite H in X.
        destruct (refresh_part (cancel p (ns_timer s))) as [|y ys]; [reflexivity | destruct (X y (or_introl eq_refl))].
      - rewrite Hp. unfold refresh_part, cancel. cbn [tm_entries]. rewrite filter_comm. fold (refresh_part (ns_timer s)).
        rewrite H. cbn [filter]. unfold key_eqb, te_key. cbn [fst snd]. rewrite Z.eqb_refl, N.eqb_refl. reflexivity. }
    exists (mkTE (now + refresh_interval) (tm_next (refresh_tm0 s)) TkRefresh).
    rewrite E1, E2, refresh_part_schedule, H0. repeat split.
  Qed.

  (* ---------------------------------------------------------------- firing of a timer entry *)
  Lemma pop_timer_spec tm e tm' : pop_timer tm = Some (e, tm') -> In e (tm_entries tm) /\ tm' = cancel (te_key e) tm.
  Proof.
    unfold pop_timer. destruct (min_entry (tm_entries tm)) as [m|] eqn:E; [|discriminate].
    intros H; inversion H; subst. split; [eapply min_entry_in, E | reflexivity].
  Qed.

  (* the firing of a search entry leaves the refresh entry in place *)
  Lemma pop_keep tm e tm' : TmOK tm -> pop_timer tm = Some (e, tm') -> only_lookup_task (te_task e) = true -> Keep tm tm'.
  Proof.
    intros H Hp Ht. apply pop_timer_spec in Hp as [He ->]. apply Keep_cancel; [exact H|].
    destruct H as [H1 H2]. split; [cbn; apply H1, He|]. cbn [te_key snd].
    intros re Hre E. apply refresh_part_in in Hre as [Hre Hr].
    assert (re = e) by (eapply NoDup_map_inj; eassumption). subst re.
    unfold is_refresh_entry in Hr. rewrite Ht in Hr. discriminate.
  Qed.

  Lemma pop_J s e tm : J s -> pop_timer (ns_timer s) = Some (e, tm) -> J (set_timer s tm) /\ TmRel s (set_timer s tm).
  Proof.
    intros [H1 H2] Hp. split.
    - apply pop_timer_spec in Hp as [_ ->]. split; [apply TmOK_cancel, H1|].
      intros lk Hl x Hx. apply KeyOK_cancel, (H2 lk Hl x Hx).
    - split; [exact (pop_timer_part _ _ _ Hp) | reflexivity].
  Qed.

  (* ---------------------------------------------------------------- one event *)
  (* every event either leaves the refresh chain alone, or runs a refresh round (after the firing of
     a timer entry / on a bootstrap completion) followed by transitions that leave it alone *)
  Definition Shape (now : Z) (s s' : nstate) : Prop :=
    SK s s' \/
    exists s0, J s0 /\ TmRel s s0 /\ SK (fst (continue_refresh I sendok cf true now s0)) s'.

  Lemma boot_tail now s2 (out : list output) (b : bool) : J s2 ->
    SK s2 (fst (if b then let '(s3, o3) := start_queued I sendok cf now (set_queue s2 [] true) (ns_queued s2) in (s3, out ++ o3)
                else (s2, out))).
  Proof.
    intros HJ. destruct b; [|apply SK_refl, HJ].
    assert (X : SK s2 (set_queue s2 [] true)) by (apply SK_same; try reflexivity; exact HJ).
    pose proof (start_queued_SK now (ns_queued s2) _ (SK_J _ _ X)) as Y.
    destruct (start_queued I sendok cf now (set_queue s2 [] true) (ns_queued s2)) as [s3 o3]. cbn [fst] in *.
    exact (SK_trans _ _ _ X Y).
  Qed.

  Lemma boot_shape now s : J s ->
    exists s0, J s0 /\ TmRel s s0 /\
      SK (fst (continue_refresh I sendok cf true now s0)) (fst (step now s (EvBootState BBootstrapped))).
  Proof.
    intros HJ. cbn [Handler.step].
    set (s0 := set_waiters (set_boot s BBootstrapped) [] (ns_next_waiter (set_boot s BBootstrapped))).
    assert (J0 : J s0) by (eapply SK_J, SK_same; try reflexivity; exact HJ).
    exists s0. split; [exact J0|]. split; [split; [exists (fun _ => true); rewrite filter_true|]; reflexivity|].
    pose proof (continue_refresh_J now s0 J0) as J1.
    destruct (continue_refresh I sendok cf true now s0) as [s1 o]. cbn [fst] in J1 |- *.
    apply boot_tail, J1.
  Qed.

  Lemma step_shape now s e : J s -> Shape now s (fst (step now s e)).
  Proof.
    intros HJ. destruct e as [src [tid [q|r|c x]]| |ih an| | |b|id a named|id a|rts|]; cbn [Handler.step m_body m_tid].
    - (* query *)
      destruct (handle_query now cf (ns_table s) (ns_tok s) (ns_sto s) src tid q) as [[[t' tk'] st'] reply].
      left. apply SK_same; try reflexivity; exact HJ.
    - (* response *)
      destruct (tid_action tid) as [aid|]; [|left; apply SK_refl, HJ].
      destruct (lookup_by_action I s aid) as [lk|] eqn:El.
      2:{ destruct (aid_of I 0 =? aid)%N; left; [apply SK_same; try reflexivity; exact HJ | apply SK_refl, HJ]. }
      apply lookup_by_action_in in El.
      set (c := mkCtx _ (ns_timer s) (ns_sends s) []).
      destruct (recv_response_keep I sendok (c_id cf) now lk c (r_id r, src) tid r (c_v6 cf) (proj1 HJ) (proj2 HJ lk El)) as [K A].
      destruct (recv_response I sendok (c_id cf) now lk c (r_id r, src) tid r (c_v6 cf)) as [lk' c']. cbn [fst snd] in K, A.
      left. apply processed_SK; assumption.
    - left. apply SK_refl, HJ.
    - (* timer *)
      destruct (pop_timer (ns_timer s)) as [[e tm]|] eqn:Ep; [|left; apply SK_refl, HJ].
      destruct (pop_J s e tm HJ Ep) as [J0 R0].
      destruct (te_task e) as [|tid|tid] eqn:Et.
      + right. exists (set_timer s tm). split; [exact J0|]. split; [exact R0|]. apply SK_refl, continue_refresh_J, J0.
      + assert (X0 : SK s (set_timer s tm)).
        { split; [apply (pop_keep _ _ _ (proj1 HJ) Ep); rewrite Et; reflexivity|]. split; [reflexivity | exact J0]. }
        left. eapply SK_trans; [exact X0|].
        destruct (tid_action tid) as [a|]; [|apply SK_refl, J0].
        destruct (lookup_by_action I (set_timer s tm) a) as [lk|] eqn:El; [|apply SK_refl, J0].
        apply lookup_by_action_in in El.
        destruct (recv_timeout_keep I sendok (c_id cf) now lk (ctx_of (set_timer s tm)) tid (proj1 J0) (proj2 J0 lk El)) as [K A].
        destruct (recv_timeout I sendok (c_id cf) now lk (ctx_of (set_timer s tm)) tid) as [lk' c']. cbn [fst snd] in K, A.
        apply processed_SK; assumption.
      + assert (X0 : SK s (set_timer s tm)).
        { split; [apply (pop_keep _ _ _ (proj1 HJ) Ep); rewrite Et; reflexivity|]. split; [reflexivity | exact J0]. }
        left. eapply SK_trans; [exact X0|].
        destruct (tid_action tid) as [a|]; [|apply SK_refl, J0].
        destruct (lookup_by_action I (set_timer s tm) a) as [lk|] eqn:El; [|apply SK_refl, J0].
        apply complete_lookup_SK; [reflexivity | exact J0].
    - (* start lookup *)
      left. destruct (queue_early && negb (ns_concluded s)); [apply SK_same; try reflexivity; exact HJ | apply start_lookup_SK, HJ].
    - left. destruct (ns_boot s); apply SK_same; try reflexivity; exact HJ.
    - left. apply SK_refl, HJ.
    - (* bootstrap state *)
      assert (X0 : SK s (set_boot s b)) by (apply SK_same; try reflexivity; exact HJ).
      destruct b; try (left; eapply SK_trans; [exact X0 | apply boot_tail, (SK_J _ _ X0)]).
      right. apply (boot_shape now s HJ).
    - left. apply SK_same; try reflexivity; exact HJ.
    - left. apply SK_same; try reflexivity; exact HJ.
    - left. apply SK_same; try reflexivity; exact HJ.
    - left. apply SK_same; try reflexivity; exact HJ.
  Qed.

  Theorem step_J now s e : J s -> J (fst (step now s e)).
  Proof.
    intros HJ. destruct (step_shape now s e HJ) as [X|[s0 [J0 [_ X]]]]; exact (SK_J _ _ X).
  Qed.

  (* the liveness-side invariant: whatever the event, and whenever (later) it is handled, one refresh
     entry stays pending and it is due within one refresh interval *)
  Theorem alive_step now now' s e : Alive now s -> now <= now' -> J s -> Alive now' (fst (step now' s e)).
  Proof.
    intros HA Hn HJ. destruct (step_shape now' s e HJ) as [X|[s0 [J0 [R0 X]]]].
    - exact (Alive_SK _ _ _ _ HA Hn X).
    - pose proof (TmRel_inv _ _ R0 (Alive_Inv18p _ _ HA)) as I0.
      destruct (continue_refresh_alive now' s0 I0) as [re [E [P D]]].
      apply (Alive_SK now' now' (fst (continue_refresh I sendok cf true now' s0))); [|lia | exact X].
      exists re. repeat split; [exact E | exact P | lia].
  Qed.

  (* a bootstrap completion starts the chain (or restarts it), whatever the state was *)
  Theorem boot_alive now s : J s -> Inv18p s -> Alive now (fst (step now s (EvBootState BBootstrapped))).
  Proof.
    intros HJ HI. destruct (boot_shape now s HJ) as [s0 [J0 [R0 X]]].
    pose proof (TmRel_inv _ _ R0 HI) as I0.
    destruct (continue_refresh_alive now s0 I0) as [re [E [P D]]].
    apply (Alive_SK now now (fst (continue_refresh I sendok cf true now s0))); [|lia | exact X].
    exists re. repeat split; [exact E | exact P | lia].
  Qed.

  (* ---------------------------------------------------------------- runs *)
  Fixpoint etimes_from (t0 : Z) (evs : list (Z * event)) : Prop :=
    match evs with
    | [] => True
    | e :: r => t0 <= fst e /\ etimes_from (fst e) r
    end.

  Definition elast (t0 : Z) (evs : list (Z * event)) : Z := fold_left (fun _ e => fst e) evs t0.

  Lemma run_app : forall a b s, fst (run s (a ++ b)) = fst (run (fst (run s a)) b).
  Proof.
    induction a as [|[now e] r IH]; intros b s; cbn [run app]; [reflexivity|].
    destruct (step now s e) as [s1 o]. specialize (IH b s1).
    destruct (run s1 (r ++ b)) as [s2 os]. destruct (run s1 r) as [s2' os']. cbn [fst] in *. exact IH.
  Qed.

  Lemma run_J : forall evs s, J s -> J (fst (run s evs)).
  Proof.
    induction evs as [|[now e] r IH]; intros s H; cbn [run]; [exact H|].
    pose proof (step_J now s e H) as H1. destruct (step now s e) as [s1 o]. cbn [fst] in H1.
    specialize (IH s1 H1). destruct (run s1 r) as [s2 os]. exact IH.
  Qed.

  Lemma run_alive : forall evs now s, Alive now s -> J s -> etimes_from now evs ->
    Alive (elast now evs) (fst (run s evs)).
  Proof.
    induction evs as [|[now' e] r IH]; intros now s HA HJ Ht; cbn [run]; [exact HA|].
    cbn [etimes_from fst] in Ht. destruct Ht as [Hn Ht].
    pose proof (alive_step now now' s e HA Hn HJ) as A1. pose proof (step_J now' s e HJ) as J1.
    destruct (step now' s e) as [s1 o]. cbn [fst] in A1, J1.
    specialize (IH now' s1 A1 J1 Ht). destruct (run s1 r) as [s2 os]. exact IH.
  Qed.

  (* once the first bootstrap has completed, at every later moment -- after any further events, of
     any kind and number, handled at non-decreasing times -- exactly one refresh entry is pending,
     it is the remembered one, and it is due within one refresh interval of the last event *)
  Theorem refresh_alive_run id t0 evs1 t evs2 : etimes_from t evs2 ->
    Alive (elast t evs2) (fst (run (ns_init id t0) (evs1 ++ (t, EvBootState BBootstrapped) :: evs2))).
  Proof.
    intros Ht. rewrite run_app.
    set (s1 := fst (run (ns_init id t0) evs1)).
    assert (J1 : J s1) by (apply run_J, J_init).
    assert (I1 : Inv18p s1) by (apply run_inv18; left; reflexivity).
    cbn [run].
    pose proof (boot_alive t s1 J1 I1) as A2. pose proof (step_J t s1 (EvBootState BBootstrapped) J1) as J2.
    destruct (step t s1 (EvBootState BBootstrapped)) as [s2 o]. cbn [fst] in A2, J2.
    pose proof (run_alive evs2 t s2 A2 J2 Ht) as A3. destruct (run s2 evs2) as [s3 os]. exact A3.
  Qed.
End RefreshAlive.

(* ------------------------------------------------------------------ what a refresh round does *)
(* destinations of the datagrams among the outputs, in order *)
Definition send_dsts (outs : list output) : list addr :=
  flat_map (fun o => match o with OSend d _ => [d] | _ => [] end) outs.

(* the bucket the round works on: the cursor, wrapped at MAX_BUCKETS *)
Definition refresh_cursor (s : nstate) : nat :=
  if Nat.eqb (ns_refresh_bucket s) max_buckets then O else ns_refresh_bucket s.

Definition refresh_target (cf : cfg) (s : nstate) : N := flip_bit (c_id cf) (refresh_cursor s).

(* the contacts a round queries: the first refresh_concurrency questionable contacts, closest to the
   target first, that were not queried in the last 30 s *)
Definition refresh_picks (cf : cfg) (now : Z) (s : nstate) : list node :=
  firstn refresh_concurrency
    (filter (fun n => status_eqb (node_status now n) Questionable && negb (recently_requested_from now n))
            (closest_nodes now (ns_table s) (refresh_target cf s))).

Section Round.
  Variable I : ids.
  Variable sendok : nat -> bool.
  Variable cf : cfg.
  Variable single_refresh : bool.

  (* the datagrams of a round: one find_node per contact, transaction ids taken in order from the
     refresh activity's generator *)
  Fixpoint refresh_msgs (nodes : list node) (target : N) (next : nat) : list output :=
    match nodes with
    | [] => []
    | n :: r => OSend (nd_addr n) (mkMsg (tid_bytes (aid_of I 0) (mid_of I 0 next)) (Req (FindNode (c_id cf) target None)))
                :: refresh_msgs r target (S next)
    end.

  Definition mark_queried (now : Z) (t : table) (n : node) : table :=
    update_node now t (nd_id n) (nd_addr n) (local_request now).

  Lemma refresh_sends_spec now target : forall nodes next c,
    fst (refresh_sends I sendok cf nodes target next c now) = (next + length nodes)%nat /\
    cx_out (snd (refresh_sends I sendok cf nodes target next c now)) = rev (refresh_msgs nodes target next) ++ cx_out c /\
    cx_sends (snd (refresh_sends I sendok cf nodes target next c now)) = (cx_sends c + length nodes)%nat /\
    cx_table (snd (refresh_sends I sendok cf nodes target next c now)) = fold_left (mark_queried now) nodes (cx_table c).
  Proof.
    induction nodes as [|n r IH]; intros next c; cbn [refresh_sends refresh_msgs length fold_left rev app].
    - cbn [fst snd]. repeat split; lia.
    - destruct (send sendok c (nd_addr n) _) as [c1 ok] eqn:Es. unfold send in Es. inversion Es; subst c1 ok. clear Es.
      match goal with |- context [refresh_sends I sendok cf r target (S next) ?cc now] =>
        destruct (IH (S next) cc) as [E1 [E2 [E3 E4]]] end.
      rewrite E1, E2, E3, E4. cbn [mark_local cx_out cx_sends cx_table fst snd].
      repeat split; try lia. rewrite <- app_assoc. reflexivity.
  Qed.

  (* the outputs of a round, exactly: the round marker, then one find_node per picked contact *)
  Theorem round_outputs now s :
    snd (continue_refresh I sendok cf single_refresh now s) =
    ORefreshRound (refresh_cursor s) :: refresh_msgs (refresh_picks cf now s) (refresh_target cf s) (ns_refresh_next s).
  Proof.
    unfold continue_refresh. fold (refresh_cursor s). fold (refresh_target cf s). fold (refresh_picks cf now s).
    match goal with |- context [refresh_sends I sendok cf ?nodes ?t ?nx ?c0 now] =>
      destruct (refresh_sends_spec now t nodes nx c0) as [_ [E _]];
      destruct (refresh_sends I sendok cf nodes t nx c0 now) as [next c1] end.
    cbn [snd cx_out] in E. destruct (schedule_in _ _ _ _) as [tm key]. cbn [snd].
    rewrite E, rev_app_distr, rev_involutive. reflexivity.
  Qed.

  Lemma refresh_msgs_dsts target : forall nodes next, send_dsts (refresh_msgs nodes target next) = map nd_addr nodes.
  Proof. induction nodes as [|n r IH]; intros next; cbn; [reflexivity | rewrite IH; reflexivity]. Qed.

  Lemma refresh_msgs_in target dst m : forall nodes next, In (OSend dst m) (refresh_msgs nodes target next) ->
    exists k, (next <= k < next + length nodes)%nat /\
      m = mkMsg (tid_bytes (aid_of I 0) (mid_of I 0 k)) (Req (FindNode (c_id cf) target None)).
  Proof.
    induction nodes as [|n r IH]; intros next H; cbn [refresh_msgs length] in *; [destruct H|].
    destruct H as [H|H].
    - inversion H; subst. exists next. split; [lia | reflexivity].
    - destruct (IH (S next) H) as [k [Hk E]]. exists k. split; [lia | exact E].
  Qed.

  (* the find_node queries of a round go exactly to the picked contacts, one datagram each, in that
     order (whether or not the socket accepts them: [sendok] does not matter), and each of them asks
     for the nodes closest to our own id with the bit of the current bucket flipped *)
  Theorem round_picks now s :
    send_dsts (snd (continue_refresh I sendok cf single_refresh now s)) = map nd_addr (refresh_picks cf now s) /\
    (forall dst m, In (OSend dst m) (snd (continue_refresh I sendok cf single_refresh now s)) ->
       exists k, (ns_refresh_next s <= k < ns_refresh_next s + length (refresh_picks cf now s))%nat /\
         m = mkMsg (tid_bytes (aid_of I 0) (mid_of I 0 k)) (Req (FindNode (c_id cf) (refresh_target cf s) None))) /\
    (length (refresh_picks cf now s) <= refresh_concurrency)%nat.
  Proof.
    rewrite round_outputs. split; [|split].
    - cbn [send_dsts flat_map app]. apply refresh_msgs_dsts.
    - intros dst m [H|H]; [discriminate | eapply refresh_msgs_in, H].
    - unfold refresh_picks. rewrite firstn_length. lia.
  Qed.

  (* the state after a round: the cursor moves on (wrapping at MAX_BUCKETS), every picked contact
     is marked as queried at [now], the generators advance by the number of datagrams *)
  Theorem round_state now s :
    let s' := fst (continue_refresh I sendok cf single_refresh now s) in
    ns_refresh_bucket s' = S (refresh_cursor s) /\
    ns_table s' = fold_left (mark_queried now) (refresh_picks cf now s) (ns_table s) /\
    ns_refresh_next s' = (ns_refresh_next s + length (refresh_picks cf now s))%nat /\
    ns_sends s' = (ns_sends s + length (refresh_picks cf now s))%nat.
  Proof.
    cbn zeta. unfold continue_refresh. fold (refresh_cursor s). fold (refresh_target cf s). fold (refresh_picks cf now s).
    match goal with |- context [refresh_sends I sendok cf ?nodes ?t ?nx ?c0 now] =>
      destruct (refresh_sends_spec now t nodes nx c0) as [E1 [_ [E3 E4]]];
      destruct (refresh_sends I sendok cf nodes t nx c0 now) as [next c1] end.
    cbn [fst snd cx_sends cx_table ctx_of] in E1, E3, E4. destruct (schedule_in _ _ _ _) as [tm key]. cbn [fst].
    repeat split; cbn; assumption.
  Qed.

  (* only questionable contacts that were not queried in the last 30 s are picked *)
  Theorem round_picks_questionable now s n : In n (refresh_picks cf now s) ->
    node_status now n = Questionable /\ recently_requested_from now n = false /\
    In n (closest_nodes now (ns_table s) (refresh_target cf s)).
  Proof.
    intros H. unfold refresh_picks in H. apply firstn_in in H. apply filter_In in H as [H1 H2].
    apply andb_true_iff in H2 as [H2 H3]. apply status_eqb_eq in H2. apply negb_true_iff in H3. auto.
  Qed.
End Round.

(* ------------------------------------------------------------------ how rounds and answers enter the handler *)
Section RefreshEvents.
  Variable I : ids.
  Variable sendok : nat -> bool.
  Variable cf : cfg.
  Variables single_refresh queue_early : bool.
  Notation step := (step I sendok cf single_refresh queue_early).

  (* the firing of the refresh entry runs a round, and nothing else *)
  Theorem refresh_fires now s e tm : pop_timer (ns_timer s) = Some (e, tm) -> te_task e = TkRefresh ->
    step now s EvTimer = continue_refresh I sendok cf single_refresh now (set_timer s tm).
  Proof. intros H1 H2. cbn [Handler.step]. rewrite H1, H2. reflexivity. Qed.

  (* an answer to a refresh query (transaction id of the refresh activity, no search under that id):
     the responder enters the table as a contact that has just answered, the nodes it names as hearsay *)
  Theorem refresh_response_applied now s src tid r :
    tid_action tid = Some (aid_of I 0) -> lookup_by_action I s (aid_of I 0) = None ->
    step now s (EvMsg src (mkMsg tid (Resp r))) =
    (set_table s (add_nodes now (ns_table s) (as_good (r_id r) src now)
                            (map handle_of (if c_v6 cf then r_nodes6 r else r_nodes4 r))), []).
  Proof. intros H1 H2. cbn [Handler.step m_body m_tid]. rewrite H1, H2, N.eqb_refl. reflexivity. Qed.
End RefreshEvents.

(* ------------------------------------------------------------------ bad contacts are not listed *)
Lemma closest_pingable now t target n : In n (closest_nodes now t target) -> is_pingable now n = true.
Proof.
  unfold closest_nodes. intros H. apply in_flat_map in H as [i [_ H]].
  apply in_app_or in H as [H|H]; apply filter_In in H as [_ H]; [exact H|].
  apply andb_true_iff in H as [H _]. exact H.
Qed.

Lemma bad_not_listed now t target n : node_status now n = Bad -> ~ In n (closest_nodes now t target).
Proof.
  intros H Hin. apply closest_pingable in Hin. unfold is_pingable in Hin. rewrite H in Hin. discriminate.
Qed.
