From BT Require Import model.Prelude model.Txn gen.Consts proofs.Prelude_Facts.
From Coq Require Import ZifyBool ZifyN ZifyNat Permutation.

Section GenFacts.
  Variables (B M : N).
  Variable shuf : nat -> list N -> list N.
  Hypothesis HB : 0 < B.
  Hypothesis HBM : B <= M.
  Hypothesis Hdiv : M mod B = 0.
  Hypothesis Hperm : forall k l, Permutation (shuf k l) l.

  Let nb := M / B.

  Lemma M_eq : M = nb * B.
  Proof. unfold nb. pose proof (N.div_mod M B ltac:(lia)). lia. Qed.

  Lemma nb_pos : 0 < nb.
  Proof. pose proof M_eq. destruct (N.eq_dec nb 0) as [E|E]; [rewrite E in *; lia | lia]. Qed.

  Lemma block_vals_length s : length (block_vals B s) = N.to_nat B.
  Proof. unfold block_vals. rewrite map_length, seq_length. reflexivity. Qed.

  Lemma shuf_length k l : length (shuf k l) = length l.
  Proof. apply Permutation_length, Hperm. Qed.

  Lemma block_vals_in s v : In v (block_vals B s) <-> s <= v < s + B.
  Proof.
    unfold block_vals. rewrite in_map_iff. split.
    - intros [i [E Hi]]. apply in_seq in Hi. lia.
    - intros Hv. exists (N.to_nat (v - s)). split; [lia|]. apply in_seq. lia.
  Qed.

  Lemma block_vals_nodup s : NoDup (block_vals B s).
  Proof.
    unfold block_vals. apply FinFun.Injective_map_NoDup; [|apply seq_NoDup].
    intros a b E. lia.
  Qed.

  Lemma block_of_bound k : block_of B M k + B <= M.
  Proof.
    unfold block_of. fold nb. pose proof nb_pos. pose proof (N.mod_lt k nb ltac:(lia)).
    pose proof M_eq. nia.
  Qed.

  Lemma block_start_next k : block_start M (block_of B M k + B) = block_of B M (k + 1).
  Proof.
    unfold block_start, block_of. fold nb. pose proof nb_pos as Hnb.
    pose proof (N.div_mod k nb ltac:(lia)) as Hk.
    pose proof (N.mod_lt k nb ltac:(lia)) as Hr.
    set (q := k / nb) in *. set (r := k mod nb) in *.
    destruct (N.eq_dec r (nb - 1)) as [E|E].
    - pose proof M_eq as HM.
      assert (r * B + B = M) by nia.
      replace (r * B + B =? M) with true by lia.
      assert ((k + 1) mod nb = 0) as ->; [|lia].
      symmetry. apply (N.mod_unique _ _ (q + 1)); [lia | nia].
    - pose proof M_eq as HM.
      assert (r * B + B <> M) by nia.
      replace (r * B + B =? M) with false by lia.
      assert ((k + 1) mod nb = r + 1) as ->; [|lia].
      symmetry. apply (N.mod_unique _ _ q); [lia | nia].
  Qed.

  (* state after some draws: block k is loaded, idx values of it are used up *)
  Definition Inv (n : N) (g : gen) : Prop :=
    exists k, n = k * B + g_idx g /\ g_idx g <= B /\
      g_ids g = shuf (N.to_nat k) (block_vals B (block_of B M k)) /\
      g_next_alloc g = block_of B M k + B /\ g_nblk g = N.to_nat (k + 1).

  Lemma nth_error_nth' (l : list N) i : (i < length l)%nat -> nth_error l i = Some (nth i l 0).
  Proof. intros H. apply nth_error_nth'. exact H. Qed.

  Lemma generate_inv n g : Inv n g ->
    exists g', generate B M shuf g = Some (out B M shuf n, g') /\ Inv (n + 1) g'.
  Proof.
    intros [k [Hn [Hidx [Hids [Hna Hblk]]]]]. unfold generate.
    assert (Hlen : length (g_ids g) = N.to_nat B) by (rewrite Hids, shuf_length, block_vals_length; reflexivity).
    destruct (N.eq_dec (g_idx g) B) as [E|E].
    - (* block exhausted *)
      rewrite (proj2 (nth_error_None _ _)) by lia.
      cbn [refill g_ids g_next_alloc g_nblk]. rewrite Hna, block_start_next, Hblk.
      assert (Hl2 : length (shuf (N.to_nat (k + 1)) (block_vals B (block_of B M (k + 1)))) = N.to_nat B)
        by (rewrite shuf_length, block_vals_length; reflexivity).
      rewrite nth_error_nth' by lia.
      eexists. split.
      + f_equal. f_equal. unfold out.
        assert (n / B = k + 1) as -> by (symmetry; apply (N.div_unique _ _ _ 0); lia).
        assert (n mod B = 0) as -> by (symmetry; apply (N.mod_unique _ _ (k + 1)); lia).
        reflexivity.
      + exists (k + 1). cbn [g_idx g_ids g_next_alloc g_nblk]. repeat split; lia.
    - rewrite nth_error_nth' by lia.
      eexists. split.
      + f_equal. f_equal. unfold out.
        assert (n / B = k) as -> by (symmetry; apply (N.div_unique _ _ _ (g_idx g)); lia).
        assert (n mod B = g_idx g) as -> by (symmetry; apply (N.mod_unique _ _ k); lia).
        rewrite Hids. reflexivity.
      + exists k. cbn [g_idx g_ids g_next_alloc g_nblk]. repeat split; try lia; assumption.
  Qed.

  Lemma draws_inv c : forall n g, Inv n g ->
    draws B M shuf c g = map (fun i => out B M shuf (n + N.of_nat i)) (seq 0 c).
  Proof.
    induction c as [|c IH]; intros n g HI; [reflexivity|].
    cbn [draws]. destruct (generate_inv n g HI) as [g' [Hg HI']]. rewrite Hg.
    cbn [seq map]. rewrite N.add_0_r. f_equal.
    rewrite (IH _ _ HI'). rewrite <- seq_shift, map_map. apply map_ext. intros i. f_equal. lia.
  Qed.

  Lemma block_of_0 : block_of B M 0 = 0.
  Proof. unfold block_of. rewrite N.mod_0_l; [lia|]. pose proof nb_pos. fold nb. lia. Qed.

  Lemma aid_init_inv : Inv 0 (aid_init B M shuf).
  Proof.
    exists 0. unfold aid_init, refill, block_start. cbn [g_next_alloc g_nblk g_idx g_ids].
    assert ((0 =? M) = false) as -> by lia.
    rewrite block_of_0. repeat split; lia.
  Qed.

  Lemma mid_init_first : exists g',
    generate B M shuf (mid_init B) = Some (out B M shuf 0, g') /\ Inv 1 g'.
  Proof.
    unfold generate, mid_init. cbn [g_ids g_idx g_next_alloc g_nblk].
    rewrite (proj2 (nth_error_None _ _)) by (rewrite repeat_length; lia).
    cbn [refill g_ids g_next_alloc g_nblk]. unfold block_start.
    assert ((0 =? M) = false) as -> by lia.
    assert (Hl : length (shuf 0 (block_vals B 0)) = N.to_nat B) by (rewrite shuf_length, block_vals_length; reflexivity).
    rewrite nth_error_nth' by lia.
    assert (Hv : out B M shuf 0 = nth 0 (shuf 0 (block_vals B 0)) 0).
    { unfold out. rewrite N.div_0_l, N.mod_0_l by lia. rewrite block_of_0. reflexivity. }
    rewrite Hv.
    eexists. split.
    - reflexivity.
    - exists 0. cbn [g_idx g_ids g_next_alloc g_nblk]. rewrite block_of_0. repeat split; lia.
  Qed.

  Lemma draws_mid c :
    draws B M shuf c (mid_init B) = map (fun i => out B M shuf (N.of_nat i)) (seq 0 c).
  Proof.
    destruct c as [|c]; [reflexivity|].
    cbn [draws]. destruct mid_init_first as [g' [Hg HI]]. rewrite Hg.
    cbn [seq map]. f_equal. rewrite (draws_inv c 1 g' HI).
    rewrite <- seq_shift, map_map. apply map_ext. intros i. f_equal. lia.
  Qed.

  Lemma draws_aid c :
    draws B M shuf c (aid_init B M shuf) = map (fun i => out B M shuf (N.of_nat i)) (seq 0 c).
  Proof.
    rewrite (draws_inv c 0 _ aid_init_inv). apply map_ext. intros i. f_equal.
  Qed.

  (* ---- the closed form ---- *)
  Lemma out_in_block n :
    block_of B M (n / B) <= out B M shuf n < block_of B M (n / B) + B.
  Proof.
    apply block_vals_in. unfold out.
    eapply Permutation_in; [apply Hperm|]. apply nth_In.
    rewrite shuf_length, block_vals_length.
    pose proof (N.mod_lt n B ltac:(lia)). lia.
  Qed.

  Lemma out_lt_M n : out B M shuf n < M.
  Proof. pose proof (out_in_block n). pose proof (block_of_bound (n / B)). lia. Qed.

  Lemma out_eq i j : i <> j -> out B M shuf i = out B M shuf j ->
    (i / B) mod nb = (j / B) mod nb /\ i / B <> j / B.
  Proof.
    intros Hij E.
    pose proof (out_in_block i) as Hi. pose proof (out_in_block j) as Hj. rewrite E in Hi.
    assert (Hb : (i / B) mod nb = (j / B) mod nb).
    { unfold block_of in Hi, Hj. fold nb in Hi, Hj.
      set (a := (i / B) mod nb) in *. set (b := (j / B) mod nb) in *.
      destruct (N.lt_trichotomy a b) as [L|[L|L]]; [exfalso; nia | exact L | exfalso; nia]. }
    split; [exact Hb|]. intros Hq.
    unfold out in E. rewrite Hq in E.
    set (l := shuf (N.to_nat (j / B)) (block_vals B (block_of B M (j / B)))) in *.
    assert (Hnd : NoDup l).
    { eapply Permutation_NoDup; [apply Permutation_sym, Hperm | apply block_vals_nodup]. }
    assert (Hl : length l = N.to_nat B) by (unfold l; rewrite shuf_length, block_vals_length; reflexivity).
    pose proof (N.mod_lt i B ltac:(lia)). pose proof (N.mod_lt j B ltac:(lia)).
    assert (N.to_nat (i mod B) = N.to_nat (j mod B)).
    { apply (proj1 (NoDup_nth l 0) Hnd); first [lia | exact E]. }
    pose proof (N.div_mod i B ltac:(lia)). pose proof (N.div_mod j B ltac:(lia)).
    apply Hij. rewrite Hq in *. lia.
  Qed.

  (* no value is handed out twice among the first M draws *)
  Lemma first_M_distinct i j : i < M -> j < M -> i <> j -> out B M shuf i <> out B M shuf j.
  Proof.
    intros Hi Hj Hij E. destruct (out_eq i j Hij E) as [Hm Hq]. apply Hq.
    assert (i / B < nb) by (apply N.div_lt_upper_bound; [lia | rewrite N.mul_comm, <- M_eq; exact Hi]).
    assert (j / B < nb) by (apply N.div_lt_upper_bound; [lia | rewrite N.mul_comm, <- M_eq; exact Hj]).
    rewrite !N.mod_small in Hm by assumption. exact Hm.
  Qed.

  (* equal values are at least M - B + 1 draws apart *)
  Lemma repeat_gap i j : i < j -> out B M shuf i = out B M shuf j -> M - B + 1 <= j - i.
  Proof.
    intros Hij E. destruct (out_eq i j ltac:(lia) E) as [Hm Hq].
    pose proof nb_pos as Hnb.
    assert (Hle : i / B <= j / B) by (apply N.div_le_mono; lia).
    assert (Hge : i / B + nb <= j / B).
    { pose proof (N.div_mod (i / B) nb ltac:(lia)) as Ha.
      pose proof (N.div_mod (j / B) nb ltac:(lia)) as Hb.
      rewrite Hm in Ha.
      assert (i / B / nb < j / B / nb).
      { destruct (N.lt_trichotomy (i / B / nb) (j / B / nb)) as [L|[L|L]]; [exact L| |].
        - exfalso. apply Hq. rewrite L in Ha. lia.
        - exfalso. nia. }
      nia. }
    pose proof (N.div_mod i B ltac:(lia)). pose proof (N.div_mod j B ltac:(lia)).
    pose proof (N.mod_lt i B ltac:(lia)). pose proof (N.mod_lt j B ltac:(lia)).
    pose proof M_eq. nia.
  Qed.
End GenFacts.

(* ---- production instances ---- *)
Lemma mid_params : 0 < mid_B /\ mid_B <= mid_M /\ mid_M mod mid_B = 0.
Proof. vm_compute. repeat split; discriminate. Qed.
Lemma aid_params : 0 < aid_B /\ aid_B <= aid_M /\ aid_M mod aid_B = 0.
Proof. vm_compute. repeat split; discriminate. Qed.

Lemma nth_draws_mid shuf (Hperm : forall k l, Permutation (shuf k l) l) c i :
  (i < c)%nat ->
  nth_error (draws mid_B mid_M shuf c (mid_init mid_B)) i = Some (out mid_B mid_M shuf (N.of_nat i)).
Proof.
  intros Hi. destruct mid_params as [A [B' C]].
  rewrite (draws_mid _ _ shuf A B' C Hperm).
  rewrite nth_error_map, List.nth_error_nth' with (d := 0%nat) by (rewrite seq_length; lia).
  rewrite seq_nth by lia. reflexivity.
Qed.

Lemma nth_draws_aid shuf (Hperm : forall k l, Permutation (shuf k l) l) c i :
  (i < c)%nat ->
  nth_error (draws aid_B aid_M shuf c (aid_init aid_B aid_M shuf)) i = Some (out aid_B aid_M shuf (N.of_nat i)).
Proof.
  intros Hi. destruct aid_params as [A [B' C]].
  rewrite (draws_aid _ _ shuf A B' C Hperm).
  rewrite nth_error_map, List.nth_error_nth' with (d := 0%nat) by (rewrite seq_length; lia).
  rewrite seq_nth by lia. reflexivity.
Qed.

(* message ids: no repeat within the first 2^24 draws of one activity *)
Theorem mid_no_repeat_before_wrap shuf (Hperm : forall k l, Permutation (shuf k l) l) c i j v :
  (i < j)%nat -> (j < c)%nat -> N.of_nat j < 2 ^ 24 ->
  nth_error (draws mid_B mid_M shuf c (mid_init mid_B)) i = Some v ->
  nth_error (draws mid_B mid_M shuf c (mid_init mid_B)) j <> Some v.
Proof.
  intros Hij Hjc Hj Hi Hj'. destruct mid_params as [A [B' C]].
  rewrite nth_draws_mid in Hi, Hj' by (assumption || lia).
  change (2 ^ 24) with mid_M in Hj.
  apply (first_M_distinct mid_B mid_M shuf A B' C Hperm (N.of_nat i) (N.of_nat j)); try lia.
  congruence.
Qed.

Theorem mid_repeat_gap shuf (Hperm : forall k l, Permutation (shuf k l) l) c i j v :
  (i < j)%nat -> (j < c)%nat ->
  nth_error (draws mid_B mid_M shuf c (mid_init mid_B)) i = Some v ->
  nth_error (draws mid_B mid_M shuf c (mid_init mid_B)) j = Some v ->
  2 ^ 24 - 2048 + 1 <= N.of_nat j - N.of_nat i.
Proof.
  intros Hij Hjc Hi Hj. destruct mid_params as [A [B' C]].
  rewrite nth_draws_mid in Hi, Hj by (assumption || lia).
  change (2 ^ 24) with mid_M. change 2048 with mid_B.
  apply (repeat_gap mid_B mid_M shuf A B' C Hperm); [lia | congruence].
Qed.

Theorem mid_lt shuf (Hperm : forall k l, Permutation (shuf k l) l) c i v :
  nth_error (draws mid_B mid_M shuf c (mid_init mid_B)) i = Some v -> v < 2 ^ 24.
Proof.
  intros Hi. destruct mid_params as [A [B' C]].
  assert (i < c)%nat.
  { assert (Hi' : nth_error (draws mid_B mid_M shuf c (mid_init mid_B)) i <> None) by congruence.
    apply nth_error_Some in Hi'. rewrite (draws_mid _ _ shuf A B' C Hperm), map_length, seq_length in Hi'. exact Hi'. }
  rewrite nth_draws_mid in Hi by assumption. injection Hi as <-.
  change (2 ^ 24) with mid_M. apply out_lt_M; assumption.
Qed.

Theorem aid_no_repeat_before_wrap shuf (Hperm : forall k l, Permutation (shuf k l) l) c i j v :
  (i < j)%nat -> (j < c)%nat -> N.of_nat j < 2 ^ 40 ->
  nth_error (draws aid_B aid_M shuf c (aid_init aid_B aid_M shuf)) i = Some v ->
  nth_error (draws aid_B aid_M shuf c (aid_init aid_B aid_M shuf)) j <> Some v.
Proof.
  intros Hij Hjc Hj Hi Hj'. destruct aid_params as [A [B' C]].
  rewrite nth_draws_aid in Hi, Hj' by (assumption || lia).
  change (2 ^ 40) with aid_M in Hj.
  apply (first_M_distinct aid_B aid_M shuf A B' C Hperm (N.of_nat i) (N.of_nat j)); try lia.
  congruence.
Qed.

Theorem aid_lt shuf (Hperm : forall k l, Permutation (shuf k l) l) c i v :
  nth_error (draws aid_B aid_M shuf c (aid_init aid_B aid_M shuf)) i = Some v -> v < 2 ^ 40.
Proof.
  intros Hi. destruct aid_params as [A [B' C]].
  assert (i < c)%nat.
  { assert (Hi' : nth_error (draws aid_B aid_M shuf c (aid_init aid_B aid_M shuf)) i <> None) by congruence.
    apply nth_error_Some in Hi'. rewrite (draws_aid _ _ shuf A B' C Hperm), map_length, seq_length in Hi'. exact Hi'. }
  rewrite nth_draws_aid in Hi by assumption. injection Hi as <-.
  change (2 ^ 40) with aid_M. apply out_lt_M; assumption.
Qed.

(* ---- 8-byte composition ---- *)
Lemma N_to_be_length w x : length (N_to_be w x) = w.
Proof. induction w as [|w IH]; cbn; [reflexivity | rewrite IH; reflexivity]. Qed.

Lemma N_to_be_ok w x : bytes_ok (N_to_be w x) = true.
Proof.
  induction w as [|w IH]; [reflexivity|]. cbn [N_to_be bytes_ok forallb]. fold (bytes_ok (N_to_be w x)).
  rewrite IH, andb_true_r. unfold byte_ok. pose proof (N.mod_lt (x / 256 ^ N.of_nat w) 256). lia.
Qed.

Lemma be_to_N_to_be w : forall x, be_to_N (N_to_be w x) = x mod 256 ^ N.of_nat w.
Proof.
  induction w as [|w IH]; intros x.
  - cbn. rewrite N.mod_1_r. reflexivity.
  - cbn [N_to_be]. rewrite be_to_N_cons, N_to_be_length, IH.
    rewrite Nat2N.inj_succ, N.pow_succ_r'.
    set (P := 256 ^ N.of_nat w).
    assert (HP : 0 < P) by (unfold P; apply N.neq_0_lt_0, N.pow_nonzero; discriminate).
    rewrite (N.mul_comm 256 P). rewrite N.mod_mul_r by lia. lia.
Qed.

Lemma lor_shiftl_add a s m : m < 2 ^ s -> N.lor (N.shiftl a s) m = a * 2 ^ s + m.
Proof.
  intros Hm. rewrite <- N.shiftl_mul_pow2.
  rewrite <- N.lxor_lor, <- N.add_nocarry_lxor; try reflexivity.
  - apply N.bits_inj. intro i. rewrite N.land_spec, N.bits_0.
    destruct (N.lt_ge_cases i s) as [L|L].
    + rewrite N.shiftl_spec_low by exact L. reflexivity.
    + destruct (N.eq_dec m 0) as [->|Hm0]; [rewrite N.bits_0; apply andb_false_r|].
      rewrite (N.bits_above_log2 m i), andb_false_r; [reflexivity|].
      apply N.log2_lt_pow2 in Hm; lia.
  - apply N.bits_inj. intro i. rewrite N.land_spec, N.bits_0.
    destruct (N.lt_ge_cases i s) as [L|L].
    + rewrite N.shiftl_spec_low by exact L. reflexivity.
    + destruct (N.eq_dec m 0) as [->|Hm0]; [rewrite N.bits_0; apply andb_false_r|].
      rewrite (N.bits_above_log2 m i), andb_false_r; [reflexivity|].
      apply N.log2_lt_pow2 in Hm; lia.
Qed.

Lemma compose_length aid mid : length (compose aid mid) = 8%nat.
Proof. unfold compose. rewrite N_to_be_length. reflexivity. Qed.

Lemma compose_ok aid mid : bytes_ok (compose aid mid) = true.
Proof. apply N_to_be_ok. Qed.

Lemma compose_num aid mid : aid < 2 ^ 40 -> mid < 2 ^ 24 ->
  be_to_N (compose aid mid) = aid * 2 ^ 24 + mid.
Proof.
  intros Ha Hm. unfold compose. rewrite be_to_N_to_be.
  change mid_shift with 24. rewrite lor_shiftl_add by exact Hm.
  change (N.of_nat (N.to_nat Consts.txn_transaction_id_bytes_N)) with 8.
  change (256 ^ 8) with (2 ^ 64).
  assert (aid * 2 ^ 24 + mid < 2 ^ 64).
  { change (2 ^ 64) with (2 ^ 40 * 2 ^ 24). nia. }
  rewrite !N.mod_small by lia. reflexivity.
Qed.

Lemma compose_action_id aid mid : aid < 2 ^ 40 -> mid < 2 ^ 24 ->
  action_id (compose aid mid) = aid.
Proof.
  intros Ha Hm. unfold action_id. rewrite compose_num by assumption.
  change mid_shift with 24. rewrite N.shiftr_div_pow2.
  rewrite N.div_add_l by (apply N.pow_nonzero; discriminate).
  rewrite N.div_small by exact Hm. lia.
Qed.

Lemma compose_message_id aid mid : aid < 2 ^ 40 -> mid < 2 ^ 24 ->
  message_id (compose aid mid) = mid.
Proof.
  intros Ha Hm. unfold message_id. rewrite compose_num by assumption.
  change (mid_M - 1) with (N.ones 24). rewrite N.land_ones.
  rewrite N.add_comm, N.mod_add by (apply N.pow_nonzero; discriminate).
  apply N.mod_small, Hm.
Qed.

Lemma compose_inj a1 m1 a2 m2 :
  a1 < 2 ^ 40 -> m1 < 2 ^ 24 -> a2 < 2 ^ 40 -> m2 < 2 ^ 24 ->
  compose a1 m1 = compose a2 m2 -> a1 = a2 /\ m1 = m2.
Proof.
  intros H1 H2 H3 H4 E. split.
  - rewrite <- (compose_action_id a1 m1), <- (compose_action_id a2 m2) by assumption. rewrite E. reflexivity.
  - rewrite <- (compose_message_id a1 m1), <- (compose_message_id a2 m2) by assumption. rewrite E. reflexivity.
Qed.

Lemma from_bytes_spec b : tid_from_bytes b = (if Nat.eqb (length b) 8 then Some b else None).
Proof.
  unfold tid_from_bytes. change Consts.txn_transaction_id_bytes_N with 8.
  destruct (Nat.eqb_spec (length b) 8) as [E|E].
  - rewrite E. reflexivity.
  - assert ((N.of_nat (length b) =? 8) = false) as -> by lia. reflexivity.
Qed.
