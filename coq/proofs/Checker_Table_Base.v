(* Common ground for the proofs about the executable routing-table checkers
   (run/Run_TableCheck.v): the script well-formedness predicates, what a dump of the model
   looks like, boolean clauses as Props, and the table invariant along a whole run. *)
From BT Require Import model.Prelude model.Table gen.Consts proofs.Prelude_Facts proofs.Table_Facts
  proofs.TableInv_Facts proofs.TableOps_Facts run.Run_Table run.Run_TableCheck.
From Coq Require Import ZifyBool ZifyN ZifyNat Permutation.
Open Scope Z_scope.

(* ------------------------------------------------------------------ script well-formedness *)
(* what the generators (tools/tablegen.py) guarantee:
   - offered / named addresses are never the placeholder 127.0.0.1:0 of empty slots,
   - the router addresses are announced before anything else,
   - the clock readings never go back. *)
Definition addr_okb (a : addr) : bool := negb (addr_eqb a Run_Table.dummy_addr).

Definition rtop_okb (o : rtop) : bool :=
  match o with
  | TOffer _ _ _ a => addr_okb a
  | TAddNodes _ _ a named => addr_okb a && forallb (fun h => addr_okb (snd h)) named
  | _ => true
  end.

Definition is_router (o : rtop) : bool := match o with TRouter _ => true | _ => false end.
Definition no_router (ops : list rtop) : bool := forallb (fun o => negb (is_router o)) ops.

Fixpoint routers_first (ops : list rtop) : bool :=
  match ops with
  | TRouter _ :: r => routers_first r
  | _ => no_router ops
  end.

Definition op_time (o : rtop) : option Z :=
  match o with
  | TRouter _ => None
  | TOffer t _ _ _ | TAddNodes t _ _ _ | TLreq t _ _ | TRreq t _ _ | TDump t | TClosest t _ | TContacts t => Some t
  end.

Fixpoint times_from (t0 : Z) (ops : list rtop) : bool :=
  match ops with
  | [] => true
  | o :: r => match op_time o with
              | Some t => (t0 <=? t) && times_from t r
              | None => times_from t0 r
              end
  end.

Fixpoint times_mono (ops : list rtop) : bool :=
  match ops with
  | [] => true
  | o :: r => match op_time o with
              | Some t => times_from t r
              | None => times_mono r
              end
  end.

(* the hypotheses of the C08 / C09 theorems, and of the C10 theorems *)
Definition script_ok (ops : list rtop) : bool := routers_first ops && forallb rtop_okb ops.
Definition script_ok_timed (ops : list rtop) : bool := script_ok ops && times_mono ops.

Lemma dummy_addr_same : Run_Table.dummy_addr = TableInv_Facts.dummy_addr.
Proof. reflexivity. Qed.

Lemma addr_okb_neq a : addr_okb a = true <-> a <> TableInv_Facts.dummy_addr.
Proof.
  unfold addr_okb. rewrite negb_true_iff, <- not_true_iff_false, addr_eqb_eq. rewrite dummy_addr_same. tauto.
Qed.

Lemma no_router_cons o r : no_router (o :: r) = negb (is_router o) && no_router r.
Proof. reflexivity. Qed.

Lemma no_router_first ops : no_router ops = true -> routers_first ops = true.
Proof. destruct ops as [|o r]; [reflexivity|]. intros H. destruct o; try exact H. cbn in H. discriminate. Qed.

(* ------------------------------------------------------------------ generic list / bool helpers *)
Lemma filter_map_comm {A B} (p : B -> bool) (f : A -> B) l :
  filter p (map f l) = map f (filter (fun x => p (f x)) l).
Proof. induction l as [|x l IH]; cbn; [reflexivity|]. destruct (p (f x)); cbn; rewrite IH; reflexivity. Qed.

Lemma filter_ext_in' {A} (f g : A -> bool) l : (forall x, In x l -> f x = g x) -> filter f l = filter g l.
Proof.
  induction l as [|x l IH]; intros H; cbn; [reflexivity|].
  rewrite (H x (or_introl eq_refl)), IH; [reflexivity|]. intros y Hy. apply H. right. exact Hy.
Qed.

Lemma filter_length_le' {A} (f : A -> bool) l : (length (filter f l) <= length l)%nat.
Proof. induction l as [|x l IH]; cbn; [lia|]. destruct (f x); cbn; lia. Qed.

Lemma forallb_map' {A B} (p : B -> bool) (f : A -> B) l : forallb p (map f l) = forallb (fun x => p (f x)) l.
Proof. induction l as [|x l IH]; cbn; [reflexivity|]. rewrite IH. reflexivity. Qed.

(* ------------------------------------------------------------------ slots and handles *)
Definition hd_s (s : slot) : N * addr := (id_of s, addr_of s).
Definition hd_n (n : node) : N * addr := (nd_id n, nd_addr n).

Lemma same_h_eq x y : same_h x y = true <-> hd_s x = hd_s y.
Proof.
  unfold same_h, hd_s. rewrite andb_true_iff, N.eqb_eq, addr_eqb_eq. split; [intros [-> ->]; reflexivity|].
  intros H. inversion H. auto.
Qed.

Lemma same_h_refl x : same_h x x = true.
Proof. apply same_h_eq. reflexivity. Qed.

Lemma same_h_sym x y : same_h x y = same_h y x.
Proof.
  destruct (same_h x y) eqn:E; symmetry.
  - apply same_h_eq. symmetry. apply same_h_eq. exact E.
  - apply not_true_iff_false. intros H. apply same_h_eq in H. symmetry in H. apply same_h_eq in H. congruence.
Qed.

Lemma existsb_same_h x l : existsb (same_h x) l = true <-> In (hd_s x) (map hd_s l).
Proof.
  rewrite existsb_exists, in_map_iff. split.
  - intros [y [Hy E]]. exists y. split; [symmetry; apply same_h_eq, E | exact Hy].
  - intros [y [E Hy]]. exists y. split; [exact Hy | apply same_h_eq; symmetry; exact E].
Qed.

Lemma existsb_same_h_false x l : existsb (same_h x) l = false <-> ~ In (hd_s x) (map hd_s l).
Proof. rewrite <- existsb_same_h. symmetry. apply not_true_iff_false. Qed.

Lemma nodup_h_NoDup l : nodup_h l = true <-> NoDup (map hd_s l).
Proof.
  induction l as [|x l IH]; cbn [nodup_h map]; [split; [constructor | reflexivity]|].
  rewrite andb_true_iff, negb_true_iff, existsb_same_h_false, IH. split.
  - intros [H1 H2]. constructor; assumption.
  - intros H. inversion H; subst. split; assumption.
Qed.

Lemma same_handle_hd a b : same_handle a b = true <-> hd_n a = hd_n b.
Proof.
  rewrite same_handle_eq. unfold hd_n. split; [intros [-> ->]; reflexivity | intros H; inversion H; auto].
Qed.

(* ------------------------------------------------------------------ what the model dumps *)
Definition st_code (s : status) : N := match s with Bad => 0 | Questionable => 1 | Good => 2 end.

Lemma slot_of_as now n :
  slot_of now n = match node_status now n with
                  | Bad => bad_slot
                  | s => (st_code s, nd_id n, nd_addr n)
                  end.
Proof. unfold slot_of. destruct (node_status now n); reflexivity. Qed.

Lemma is_pingable_status now n : is_pingable now n = true <-> node_status now n <> Bad.
Proof. unfold is_pingable. destruct (node_status now n); cbn; split; intros H; try discriminate; try reflexivity; try congruence. Qed.

Lemma is_pingable_false now n : is_pingable now n = false <-> node_status now n = Bad.
Proof. unfold is_pingable. destruct (node_status now n); cbn; split; intros H; try discriminate; reflexivity. Qed.

Lemma is_live_slot_of now n : is_live (slot_of now n) = is_pingable now n.
Proof. unfold slot_of, is_pingable, is_live, st_of. destruct (node_status now n); reflexivity. Qed.

Lemma slot_of_live now n : is_pingable now n = true ->
  slot_of now n = (st_code (node_status now n), nd_id n, nd_addr n).
Proof. intros H. apply is_pingable_status in H. rewrite slot_of_as. destruct (node_status now n); [contradiction | reflexivity | reflexivity]. Qed.

Lemma hd_slot_of now n : is_pingable now n = true -> hd_s (slot_of now n) = hd_n n.
Proof. intros H. rewrite (slot_of_live _ _ H). reflexivity. Qed.

Lemma st_slot_of now n : st_of (slot_of now n) = st_code (node_status now n).
Proof. unfold slot_of. destruct (node_status now n); reflexivity. Qed.

Definition dump_of (now : Z) (t : table) : list (list slot) := map (map (slot_of now)) (buckets t).

Lemma live_of_dump now t : live_of (dump_of now t) = map (slot_of now) (live_nodes now t).
Proof.
  unfold live_of, dump_of, live_nodes. rewrite <- concat_map, filter_map_comm. f_equal.
  apply filter_ext_in'. intros x _. apply is_live_slot_of.
Qed.

Lemma live_hd_dump now t : map hd_s (live_of (dump_of now t)) = map hd_n (live_nodes now t).
Proof.
  rewrite live_of_dump, map_map. apply map_ext_in. intros n Hn. apply hd_slot_of.
  unfold live_nodes in Hn. apply filter_In in Hn. apply Hn.
Qed.

Lemma live_nodes_in now t n : In n (live_nodes now t) <->
  (exists b, In b (buckets t) /\ In n b) /\ is_pingable now n = true.
Proof. unfold live_nodes. rewrite filter_In, in_concat. tauto. Qed.

(* ------------------------------------------------------------------ the invariant along a run *)
Lemma rtop_ok_top t o : rtop_okb o = true -> is_router o = false -> TInv t ->
  TInv (fst (rt_step t o)) /\ same_meta t (fst (rt_step t o)).
Proof.
  intros Ho Hr I. destruct o as [a|now good id a|now id a named|now id a|now id a|now|now target|now];
    cbn [rt_step fst rtop_okb is_router] in *; try discriminate; try (split; [exact I | split; reflexivity]).
  - apply add_node_inv; [exact I|]. apply addr_okb_neq in Ho. destruct good; exact Ho.
  - apply andb_true_iff in Ho as [H1 H2]. apply TInv_add_nodes; [exact I | apply addr_okb_neq, H1|].
    intros h Hh. rewrite forallb_forall in H2. apply addr_okb_neq, H2, Hh.
  - apply TInv_update_node; [apply local_request_keeps | exact I].
  - apply TInv_update_node; [apply remote_request_keeps | exact I].
Qed.

Lemma rt_run_cons t o r : rt_run t (o :: r) = snd (rt_step t o) :: rt_run (fst (rt_step t o)) r.
Proof. cbn [rt_run]. destruct (rt_step t o). reflexivity. Qed.

Lemma rt_step_router t a : rt_step t (TRouter a) = (mkTable (buckets t) (local_id t) (a :: routers t), ObOk).
Proof. reflexivity. Qed.

Lemma new_table_init local : new_table local = init_table local [].
Proof. reflexivity. Qed.

Lemma init_table_router local rts a :
  mkTable (buckets (init_table local rts)) (local_id (init_table local rts)) (a :: routers (init_table local rts))
  = init_table local (a :: rts).
Proof. reflexivity. Qed.
