From BT Require Import model.Prelude model.Storage gen.Consts proofs.Prelude_Facts.
From Coq Require Import ZifyBool ZifyN ZifyNat Sorting.Sorted.
Open Scope Z_scope.

Lemma item_eqb_eq x y : item_eqb x y = true <-> x = y.
Proof.
  destruct x as [h1 a1], y as [h2 a2]. unfold item_eqb. cbn.
  rewrite andb_true_iff, N.eqb_eq, addr_eqb_eq. split; [intros [-> ->]; reflexivity | intros E; inversion E; auto].
Qed.

Lemma item_eqb_refl x : item_eqb x x = true.
Proof. apply item_eqb_eq. reflexivity. Qed.

Lemma item_eqb_neq x y : item_eqb x y = false <-> x <> y.
Proof.
  split.
  - intros H E. apply item_eqb_eq in E. congruence.
  - intros H. destruct (item_eqb x y) eqn:E; [apply item_eqb_eq in E; contradiction | reflexivity].
Qed.

Lemma expiration_time_val : expiration_time = 86400000000000.
Proof. reflexivity. Qed.

Lemma max_items_val : max_items = 500%nat.
Proof. reflexivity. Qed.

Definition alive_t (now t : Z) : bool := dur_since now t <? expiration_time.

Lemma is_expired_alive now e : is_expired now e = negb (alive_t now (snd e)).
Proof. unfold is_expired, alive_t. lia. Qed.

Lemma alive_mono tl now t : tl <= now -> alive_t now t = true -> alive_t tl t = true.
Proof. unfold alive_t, dur_since. lia. Qed.

Lemma alive_now now : alive_t now now = true.
Proof. unfold alive_t, dur_since. rewrite Z.sub_diag. reflexivity. Qed.

(* ---- the abstract spec: a map (info-hash, address) -> time of last successful announce ---- *)
Definition amap := item -> option Z.
Definition aempty : amap := fun _ => None.
Definition upd (m : amap) (it : item) (t : Z) : amap :=
  fun x => if item_eqb x it then Some t else m x.

Definition alive (m : amap) (now : Z) (it : item) : Prop :=
  exists t, m it = Some t /\ dur_since now t < 86400000000000.

(* at least 500 distinct live pairs *)
Definition full (m : amap) (now : Z) : Prop :=
  exists l, NoDup l /\ length l = 500%nat /\ forall it, In it l -> alive m now it.

Definition spec_out (m : amap) (o : Z * sop) (out : sout) : Prop :=
  match snd o, out with
  | SAdd it, OAdd b => b = true <-> (alive m (fst o) it \/ ~ full m (fst o))
  | SFind ih, OFind l => NoDup l /\ forall a, In a l <-> alive m (fst o) (ih, a)
  | _, _ => False
  end.

Definition anext (m : amap) (o : Z * sop) (out : sout) : amap :=
  match snd o, out with
  | SAdd it, OAdd true => upd m it (fst o)
  | _, _ => m
  end.

Fixpoint spec_trace (m : amap) (ops : list (Z * sop)) (outs : list sout) : Prop :=
  match ops, outs with
  | [], [] => True
  | o :: ops', out :: outs' => spec_out m o out /\ spec_trace (anext m o out) ops' outs'
  | _, _ => False
  end.

(* time stamps never decrease *)
Fixpoint times_from (t0 : Z) (ops : list (Z * sop)) : Prop :=
  match ops with
  | [] => True
  | o :: r => t0 <= fst o /\ times_from (fst o) r
  end.

(* ---- take_while / drop_while on the time-sorted queue ---- *)
Definition tle (a b : item * Z) : Prop := snd a <= snd b.

Lemma take_drop {A} (f : A -> bool) l : take_while f l ++ drop_while f l = l.
Proof. induction l as [|x l IH]; cbn; [reflexivity|]. destruct (f x); cbn; [rewrite IH|]; reflexivity. Qed.

Lemma take_all {A} (f : A -> bool) l : forall x, In x (take_while f l) -> f x = true.
Proof.
  induction l as [|y l IH]; cbn; [tauto|]. destruct (f y) eqn:E; cbn; [|tauto].
  intros x [<-|H]; [exact E | apply IH, H].
Qed.

Lemma drop_none now l : StronglySorted tle l ->
  forall x, In x (drop_while (is_expired now) l) -> is_expired now x = false.
Proof.
  induction 1 as [|y l Hs IH Hy]; cbn; [tauto|].
  destruct (is_expired now y) eqn:E; [exact IH|].
  intros x [<-|H]; [exact E|].
  rewrite Forall_forall in Hy. specialize (Hy x H). unfold tle in Hy.
  unfold is_expired, dur_since in *. lia.
Qed.

Lemma sorted_app_r {A} (R : A -> A -> Prop) p l : StronglySorted R (p ++ l) -> StronglySorted R l.
Proof. induction p as [|x p IH]; cbn; [tauto|]. intros H. inversion H; subst. apply IH. assumption. Qed.

Lemma sorted_snoc l e : StronglySorted tle l -> (forall x, In x l -> tle x e) -> StronglySorted tle (l ++ [e]).
Proof.
  induction 1 as [|y l Hs IH Hy]; intros He; cbn.
  - constructor; constructor.
  - constructor.
    + apply IH. intros x Hx. apply He. right. exact Hx.
    + rewrite Forall_forall in *. intros x Hx. apply in_app_or in Hx as [Hx|[<-|[]]].
      * apply Hy, Hx.
      * apply He. left. reflexivity.
Qed.

Lemma sorted_filter {A} (R : A -> A -> Prop) f l : StronglySorted R l -> StronglySorted R (filter f l).
Proof.
  induction 1 as [|y l Hs IH Hy]; cbn; [constructor|].
  destruct (f y); [|exact IH]. constructor; [exact IH|].
  rewrite Forall_forall in *. intros x Hx. apply filter_In in Hx as [Hx _]. apply Hy, Hx.
Qed.

Lemma fold_filter_in (gone : list (item * Z)) : forall lv it,
  In it (fold_left (fun lv e => filter (fun it => negb (item_eqb it (fst e))) lv) gone lv)
  <-> In it lv /\ ~ In it (map fst gone).
Proof.
  induction gone as [|e gone IH]; intros lv it; cbn [fold_left map].
  - cbn. tauto.
  - rewrite IH, filter_In. cbn [In].
    destruct (item_eqb it (fst e)) eqn:E.
    + apply item_eqb_eq in E. subst. cbn. split; [intros [[_ H] _]; discriminate | intros [_ H]; exfalso; apply H; left; reflexivity].
    + apply item_eqb_neq in E. cbn. split; [intros [[H _] H2]; split; [exact H | intros [H3|H3]; [congruence | contradiction]] | intros [H H2]; tauto].
Qed.

Lemma fold_filter_nodup (gone : list (item * Z)) : forall lv, NoDup lv ->
  NoDup (fold_left (fun lv e => filter (fun it => negb (item_eqb it (fst e))) lv) gone lv).
Proof.
  induction gone as [|e gone IH]; intros lv H; cbn [fold_left]; [exact H|].
  apply IH, NoDup_filter, H.
Qed.

(* ---- the concrete invariant and its relation to the abstract map ---- *)
Record SInv (tl : Z) (s : store) (m : amap) : Prop := {
  inv_keys : NoDup (map fst (expires s));
  inv_live : forall it, In it (live s) <-> In it (map fst (expires s));
  inv_live_nodup : NoDup (live s);
  inv_sorted : StronglySorted tle (expires s);
  inv_le : forall e, In e (expires s) -> snd e <= tl;
  inv_cap : (length (expires s) <= max_items)%nat;
  inv_rel : forall it t, In (it, t) (expires s) <-> (m it = Some t /\ alive_t tl t = true);
  inv_mle : forall it t, m it = Some t -> t <= tl
}.

Lemma inv_empty tl : SInv tl empty_store aempty.
Proof.
  constructor; cbn.
  - constructor.
  - tauto.
  - constructor.
  - constructor.
  - tauto.
  - lia.
  - intros x t. split; [tauto | intros [H _]; discriminate].
  - intros x t H. discriminate.
Qed.

Lemma in_keys (l : list (item * Z)) it : In it (map fst l) <-> exists t, In (it, t) l.
Proof.
  rewrite in_map_iff. split.
  - intros [[k t] [E H]]. cbn in E. subst. exists t. exact H.
  - intros [t H]. exists (it, t). split; [reflexivity | exact H].
Qed.

Lemma inv_purge tl now s m : SInv tl s m -> tl <= now -> SInv now (remove_expired now s) m.
Proof.
  intros I Hle. destruct I as [K L LN S LE C R ML].
  unfold remove_expired.
  set (gone := take_while (is_expired now) (expires s)).
  set (kept := drop_while (is_expired now) (expires s)).
  assert (Hsplit : gone ++ kept = expires s) by apply take_drop.
  assert (Hgone : forall e, In e gone -> is_expired now e = true) by (apply take_all).
  assert (Hkept : forall e, In e kept -> is_expired now e = false) by (apply drop_none, S).
  assert (Hin : forall e, In e (expires s) <-> In e gone \/ In e kept).
  { intros e. rewrite <- Hsplit. apply in_app_iff. }
  assert (Kk : NoDup (map fst kept)).
  { rewrite <- Hsplit, map_app in K. eapply nodup_app_r, K. }
  assert (Hdisj : forall it, In it (map fst gone) -> In it (map fst kept) -> False).
  { rewrite <- Hsplit, map_app in K. intros it H1 H2.
    eapply nodup_app_disj; eassumption. }
  constructor; cbn [expires live].
  - exact Kk.
  - intros it. rewrite fold_filter_in, L. rewrite <- Hsplit, map_app, in_app_iff.
    split; [intros [[H|H] Hn]; [contradiction | exact H] | intros H; split; [right; exact H | intros H2; exact (Hdisj it H2 H)]].
  - apply fold_filter_nodup, LN.
  - rewrite <- Hsplit in S. eapply sorted_app_r, S.
  - intros e He. specialize (LE e (proj2 (Hin e) (or_intror He))). lia.
  - rewrite <- Hsplit, app_length in C. lia.
  - intros it t. split.
    + intros He. pose proof (Hkept _ He) as Hx. rewrite is_expired_alive in Hx. cbn in Hx.
      assert (He' : In (it, t) (expires s)) by (apply Hin; right; exact He). apply R in He' as [Hm _].
      split; [exact Hm | destruct (alive_t now t); [reflexivity | discriminate]].
    + intros [Hm Ha]. assert (In (it, t) (expires s)) as He.
      { apply R. split; [exact Hm | eapply alive_mono; eassumption]. }
      apply Hin in He as [He|He]; [|exact He].
      apply Hgone in He. rewrite is_expired_alive in He. cbn in He. rewrite Ha in He. discriminate.
  - intros it t Hm. specialize (ML it t Hm). lia.
Qed.

Lemma existsb_item it l : existsb (item_eqb it) l = true <-> In it l.
Proof.
  rewrite existsb_exists. split.
  - intros [x [H E]]. apply item_eqb_eq in E. subst. exact H.
  - intros H. exists it. split; [exact H | apply item_eqb_refl].
Qed.

Lemma filter_len_le {A} (f : A -> bool) l : (length (filter f l) <= length l)%nat.
Proof. induction l as [|y l IH]; cbn; [lia|]. destruct (f y); cbn; lia. Qed.

Lemma filter_length_lt {A} (f : A -> bool) l x : In x l -> f x = false -> (length (filter f l) < length l)%nat.
Proof.
  induction l as [|y l IH]; cbn; [tauto|]. intros [->|H] Hf.
  - rewrite Hf. pose proof (filter_len_le f l). lia.
  - specialize (IH H Hf). destruct (f y); cbn; lia.
Qed.

Lemma alive_iff m now it : alive m now it <-> exists t, m it = Some t /\ alive_t now t = true.
Proof. unfold alive, alive_t. rewrite expiration_time_val. split; intros [t [H1 H2]]; exists t; (split; [exact H1 | lia]). Qed.


(* keys of a purged queue are exactly the live pairs *)
Lemma keys_alive tl s m it : SInv tl s m -> In it (map fst (expires s)) <-> alive m tl it.
Proof.
  intros I. rewrite in_keys, alive_iff. split; intros [t H]; exists t; apply (inv_rel _ _ _ I); exact H.
Qed.

Lemma full_iff tl s m : SInv tl s m -> (full m tl <-> (500 <= length (expires s))%nat).
Proof.
  intros I. split.
  - intros [l [Hn [Hl Ha]]].
    rewrite <- (map_length fst), <- Hl. apply NoDup_incl_length; [exact Hn|].
    intros it Hit. apply (keys_alive _ _ _ _ I), Ha, Hit.
  - intros H. exists (firstn 500 (map fst (expires s))). split; [|split].
    + pose proof (inv_keys _ _ _ I) as K. rewrite <- (firstn_skipn 500) in K. eapply nodup_app_l, K.
    + rewrite firstn_length, map_length. lia.
    + intros it Hit. apply (keys_alive _ _ _ _ I).
      eapply firstn_in, Hit.
Qed.

(* ---- add ---- *)
Lemma filter_keys_nodup (l : list (item * Z)) it :
  NoDup (map fst l) -> NoDup (map fst (filter (fun e => negb (item_eqb (fst e) it)) l)).
Proof.
  induction l as [|e l IH]; cbn; intros K; [constructor|]. inversion K; subst.
  destruct (item_eqb (fst e) it); cbn; [apply IH; assumption|].
  constructor; [|apply IH; assumption]. intros H. apply H1. apply in_map_iff in H as [x [E Hx]].
  apply filter_In in Hx as [Hx _]. apply in_map_iff. exists x. split; assumption.
Qed.

Lemma add_spec tl now s m it : SInv tl s m -> tl <= now ->
  (fst (add it now s) = true <-> (alive m now it \/ ~ full m now)) /\
  SInv now (snd (add it now s)) (if fst (add it now s) then upd m it now else m).
Proof.
  intros I0 Hle. pose proof (inv_purge _ _ _ _ I0 Hle) as I.
  unfold add. set (s1 := remove_expired now s) in *.
  destruct (existsb (item_eqb it) (live s1)) eqn:Eal; cbn [fst snd].
  - (* renewal *)
    apply existsb_item in Eal. pose proof (proj1 (inv_live _ _ _ I it) Eal) as Hk.
    pose proof (proj1 (keys_alive _ _ _ it I) Hk) as Hal.
    split; [split; [intros _; left; exact Hal | reflexivity]|].
    destruct I as [K L LN S LE C R ML].
    set (fl := filter (fun e => negb (item_eqb (fst e) it)) (expires s1)).
    assert (Hfl : forall e, In e fl <-> In e (expires s1) /\ fst e <> it).
    { intros e. unfold fl. rewrite filter_In. destruct (item_eqb (fst e) it) eqn:E; cbn.
      - apply item_eqb_eq in E. split; [intros [_ H]; discriminate | intros [_ H]; contradiction].
      - apply item_eqb_neq in E. tauto. }
    constructor; cbn [expires live].
    + rewrite map_app. cbn [map fst]. apply nodup_snoc; [apply filter_keys_nodup, K|].
      intros H. apply in_map_iff in H as [e [E He]]. apply Hfl in He as [_ He]. contradiction.
    + intros x. rewrite map_app, in_app_iff. cbn [map fst In]. rewrite L. split.
      * intros Hx. destruct (item_eqb x it) eqn:E; [apply item_eqb_eq in E; right; left; congruence|].
        apply item_eqb_neq in E. left. apply in_map_iff in Hx as [e [Ee He]]. apply in_map_iff. exists e.
        split; [exact Ee | apply Hfl; split; [exact He | congruence]].
      * intros [Hx|[<-|[]]]; [|exact Hk].
        apply in_map_iff in Hx as [e [Ee He]]. apply Hfl in He as [He _]. apply in_map_iff. exists e. split; assumption.
    + exact LN.
    + apply sorted_snoc; [apply sorted_filter, S|].
      intros x Hx. apply Hfl in Hx as [Hx _]. unfold tle. cbn. apply LE, Hx.
    + intros e He. apply in_app_or in He as [He|[<-|[]]]; [apply Hfl in He as [He _]; apply LE, He | cbn; lia].
    + rewrite app_length. cbn [length].
      assert (length fl < length (expires s1))%nat.
      { apply in_keys in Hk as [t Ht]. unfold fl. eapply filter_length_lt; [exact Ht|]. cbn. rewrite item_eqb_refl. reflexivity. }
      lia.
    + intros x t. rewrite in_app_iff. cbn [In]. unfold upd. split.
      * intros [Hx|[Hx|[]]].
        -- apply Hfl in Hx as [Hx Hne]. cbn in Hne. apply item_eqb_neq in Hne. rewrite Hne. apply R, Hx.
        -- inversion Hx; subst. rewrite item_eqb_refl. split; [reflexivity | apply alive_now].
      * destruct (item_eqb x it) eqn:E.
        -- apply item_eqb_eq in E. subst. intros [Ht _]. inversion Ht; subst. right. left. reflexivity.
        -- intros Hx. left. apply Hfl. split; [apply R, Hx | cbn; apply item_eqb_neq, E].
    + intros x t. unfold upd. destruct (item_eqb x it); [intros Ht; inversion Ht; lia | apply ML].
  - assert (Hnk : ~ In it (map fst (expires s1))).
    { intros H. apply (inv_live _ _ _ I) in H. apply existsb_item in H. congruence. }
    assert (Hnal : ~ alive m now it) by (intros H; apply Hnk, (keys_alive _ _ _ it I), H).
    destruct (Nat.ltb (length (expires s1)) max_items) eqn:Elen; cbn [fst snd].
    + (* new pair, room available *)
      apply Nat.ltb_lt in Elen. rewrite max_items_val in Elen.
      split.
      { split; [intros _; right; rewrite (full_iff _ _ _ I); lia | reflexivity]. }
      destruct I as [K L LN S LE C R ML].
      constructor; cbn [expires live].
      * rewrite map_app. cbn [map fst]. apply nodup_snoc; assumption.
      * intros x. rewrite map_app, !in_app_iff. cbn [map fst In]. rewrite L. tauto.
      * apply nodup_snoc; [exact LN | rewrite L; exact Hnk].
      * apply sorted_snoc; [exact S|]. intros x Hx. unfold tle. cbn. apply LE, Hx.
      * intros e He. apply in_app_or in He as [He|[<-|[]]]; [apply LE, He | cbn; lia].
      * rewrite app_length. cbn [length]. rewrite max_items_val. lia.
      * intros x t. rewrite in_app_iff. cbn [In]. unfold upd. split.
        -- intros [Hx|[Hx|[]]].
           ++ destruct (item_eqb x it) eqn:E.
              ** apply item_eqb_eq in E. subst. exfalso. apply Hnk. apply in_keys. exists t. exact Hx.
              ** apply R, Hx.
           ++ inversion Hx; subst. rewrite item_eqb_refl. split; [reflexivity | apply alive_now].
        -- destruct (item_eqb x it) eqn:E.
           ++ apply item_eqb_eq in E. subst. intros [Ht _]. inversion Ht; subst. right. left. reflexivity.
           ++ intros Hx. left. apply R, Hx.
      * intros x t. unfold upd. destruct (item_eqb x it); [intros Ht; inversion Ht; lia | apply ML].
    + (* refused *)
      apply Nat.ltb_ge in Elen. rewrite max_items_val in Elen.
      split; [|exact I].
      split; [discriminate|]. intros [H|H]; [contradiction|]. exfalso. apply H. apply (full_iff _ _ _ I). exact Elen.
Qed.

(* ---- find ---- *)
Lemma find_spec tl now s m ih : SInv tl s m -> tl <= now ->
  NoDup (fst (find ih now s)) /\
  (forall a, In a (fst (find ih now s)) <-> alive m now (ih, a)) /\
  SInv now (snd (find ih now s)) m.
Proof.
  intros I0 Hle. pose proof (inv_purge _ _ _ _ I0 Hle) as I.
  unfold find. set (s1 := remove_expired now s) in *. cbn [fst snd].
  split; [|split; [|exact I]].
  - pose proof (inv_live_nodup _ _ _ I) as LN. clear - LN.
    induction (live s1) as [|x l IH]; cbn; [constructor|]. inversion LN; subst.
    destruct (N.eqb_spec (fst x) ih) as [E|E]; cbn; [|apply IH; assumption].
    constructor; [|apply IH; assumption].
    intros H. apply in_map_iff in H as [y [Ey Hy]]. apply filter_In in Hy as [Hy Ey2].
    apply N.eqb_eq in Ey2. apply H1. destruct x, y. cbn in *. subst. exact Hy.
  - intros a. rewrite <- (keys_alive _ _ _ _ I), <- (inv_live _ _ _ I). rewrite in_map_iff. split.
    + intros [x [E Hx]]. apply filter_In in Hx as [Hx Eh]. apply N.eqb_eq in Eh. destruct x. cbn in *. subst. exact Hx.
    + intros H. exists (ih, a). split; [reflexivity|]. apply filter_In. split; [exact H | cbn; apply N.eqb_refl].
Qed.

(* ---- every history ---- *)
Lemma run_spec : forall ops tl s m, SInv tl s m -> times_from tl ops ->
  spec_trace m ops (snd (srun s ops)) /\
  (length (expires (fst (srun s ops))) <= 500)%nat.
Proof.
  induction ops as [|[now op] ops IH]; intros tl s m I Ht.
  - cbn. split; [constructor|]. pose proof (inv_cap _ _ _ I) as C. rewrite max_items_val in C. exact C.
  - cbn in Ht. destruct Ht as [Hle Ht].
    destruct op as [it|ih]; cbn [srun]; unfold sstep; cbn [snd fst].
    + pose proof (add_spec tl now s m it I Hle) as [Hb I'].
      destruct (add it now s) as [b s'] eqn:Ea. cbn [fst snd] in *.
      specialize (IH now s' (if b then upd m it now else m) I' Ht).
      destruct (srun s' ops) as [s2 xs] eqn:Er. cbn [fst snd] in *.
      destruct IH as [IH1 IH2]. split; [|exact IH2].
      split; [exact Hb|]. unfold anext. cbn [snd fst]. destruct b; exact IH1.
    + pose proof (find_spec tl now s m ih I Hle) as [Hn [Hin I']].
      destruct (find ih now s) as [l s'] eqn:Ef. cbn [fst snd] in *.
      specialize (IH now s' m I' Ht).
      destruct (srun s' ops) as [s2 xs] eqn:Er. cbn [fst snd] in *.
      destruct IH as [IH1 IH2]. split; [|exact IH2].
      split; [split; [exact Hn | exact Hin]|]. exact IH1.
Qed.

Theorem storage_refines_spec ops t0 : times_from t0 ops ->
  spec_trace aempty ops (snd (srun empty_store ops)).
Proof. intros H. apply (run_spec ops t0 empty_store aempty (inv_empty t0) H). Qed.

Theorem storage_capacity ops t0 : times_from t0 ops ->
  (length (expires (fst (srun empty_store ops))) <= 500)%nat /\
  length (live (fst (srun empty_store ops))) = length (expires (fst (srun empty_store ops))).
Proof.
  intros H. split; [apply (run_spec ops t0 empty_store aempty (inv_empty t0) H)|].
  (* live and the queue hold the same pairs *)
  assert (forall ops tl s m, SInv tl s m -> times_from tl ops -> exists tl' m', SInv tl' (fst (srun s ops)) m') as G.
  { clear. induction ops as [|[now op] ops IH]; intros tl s m I Ht; [exists tl, m; exact I|].
    cbn in Ht. destruct Ht as [Hle Ht]. destruct op as [it|ih]; cbn [srun]; unfold sstep; cbn [snd fst].
    - pose proof (add_spec tl now s m it I Hle) as [_ I']. destruct (add it now s) as [b s']. cbn [fst snd] in *.
      destruct (IH now s' _ I' Ht) as [tl' [m' I2]]. destruct (srun s' ops). exists tl', m'. exact I2.
    - pose proof (find_spec tl now s m ih I Hle) as [_ [_ I']]. destruct (find ih now s) as [l s']. cbn [fst snd] in *.
      destruct (IH now s' _ I' Ht) as [tl' [m' I2]]. destruct (srun s' ops). exists tl', m'. exact I2. }
  destruct (G ops t0 empty_store aempty (inv_empty t0) H) as [tl' [m' I]].
  rewrite <- (map_length fst (expires _)).
  apply Nat.le_antisymm; apply NoDup_incl_length;
    [apply (inv_live_nodup _ _ _ I) | intros x Hx; apply (inv_live _ _ _ I), Hx
    | apply (inv_keys _ _ _ I) | intros x Hx; apply (inv_live _ _ _ I), Hx].
Qed.

(* ------------------------------------------------------------------ C01/C07 corollaries on histories *)
Fixpoint afold (m : amap) (ops : list (Z * sop)) (outs : list sout) : amap :=
  match ops, outs with
  | o :: ops', out :: outs' => afold (anext m o out) ops' outs'
  | _, _ => m
  end.

Lemma spec_trace_app : forall a b m outs, spec_trace m (a ++ b) outs ->
  exists oa ob, outs = oa ++ ob /\ length oa = length a /\ spec_trace m a oa /\ spec_trace (afold m a oa) b ob.
Proof.
  induction a as [|o a IH]; intros b m outs H; cbn [app] in H.
  - exists [], outs. cbn. repeat split; try reflexivity; exact H.
  - destruct outs as [|x outs]; cbn in H; [contradiction|]. destruct H as [H1 H2].
    destruct (IH b _ _ H2) as [oa [ob [E [L [S1 S2]]]]]. exists (x :: oa), ob. subst outs. cbn.
    repeat split; try reflexivity; try assumption. lia.
Qed.

Lemma times_from_app t0 a b : times_from t0 (a ++ b) ->
  times_from t0 a /\ exists t1, t0 <= t1 /\ times_from t1 b /\ (forall o, In o a -> fst o <= t1).
Proof.
  revert t0. induction a as [|o a IH]; intros t0 H; cbn in *.
  - split; [exact I|]. exists t0. split; [lia|]. split; [exact H | tauto].
  - destruct H as [H1 H2]. destruct (IH _ H2) as [A [t1 [B [C D]]]]. split; [tauto|].
    exists t1. split; [lia|]. split; [exact C|]. intros x [<-|Hx]; [lia | apply D, Hx].
Qed.

Lemma times_from_last t0 a o : times_from t0 (a ++ [o]) -> t0 <= fst o /\ forall x, In x a -> fst x <= fst o.
Proof.
  revert t0. induction a as [|y a IH]; intros t0 H; cbn in *; [split; [lia | tauto]|].
  destruct H as [H1 H2]. destruct (IH _ H2) as [A B]. split; [lia|]. intros x [<-|Hx]; [exact A | apply B, Hx].
Qed.

(* a recorded announce time only moves forward, and stays put when the pair is not announced again *)
Lemma afold_ge : forall a m oa it t t0, spec_trace m a oa -> times_from t0 a -> m it = Some t -> t <= t0 ->
  exists t', afold m a oa it = Some t' /\ t <= t'.
Proof.
  induction a as [|[now op] a IH]; intros m oa it t t0 H Ht Hm Hle; [exists t; cbn; split; [exact Hm | lia]|].
  destruct oa as [|x oa]; cbn in H; [contradiction|]. destruct H as [H1 H2]. cbn [afold].
  cbn in Ht. destruct Ht as [Ht1 Ht2].
  destruct op as [it'|ih], x as [b|l]; cbn in H1; try contradiction; unfold anext in *; cbn [snd fst] in *.
  - destruct b.
    + destruct (item_eqb it it') eqn:E.
      * destruct (IH (upd m it' now) oa it now now H2 Ht2) as [t' [A B]];
          [unfold upd; rewrite E; reflexivity | lia |]. exists t'. split; [exact A | lia].
      * apply (IH (upd m it' now) oa it t now H2 Ht2); [unfold upd; rewrite E; exact Hm | lia].
    + apply (IH m oa it t now H2 Ht2 Hm). lia.
  - apply (IH m oa it t now H2 Ht2 Hm). lia.
Qed.

Lemma afold_same : forall a m oa it, spec_trace m a oa -> (forall tt, ~ In (tt, SAdd it) a) -> afold m a oa it = m it.
Proof.
  induction a as [|[now op] a IH]; intros m oa it H Hn; [reflexivity|].
  destruct oa as [|x oa]; cbn in H; [contradiction|]. destruct H as [H1 H2]. cbn [afold].
  rewrite (IH _ _ it H2); [|intros tt Hin; apply (Hn tt); right; exact Hin].
  destruct op as [it'|ih], x as [b|l]; cbn in H1; try contradiction; unfold anext; cbn [snd fst]; [|reflexivity].
  destruct b; [|reflexivity]. unfold upd. destruct (item_eqb it it') eqn:E; [|reflexivity].
  apply item_eqb_eq in E. subst it'. exfalso. apply (Hn now). left. reflexivity.
Qed.

Lemma spec_trace_last : forall a m o outs, spec_trace m (a ++ o :: nil) outs ->
  exists oa x, outs = oa ++ [x] /\ length oa = length a /\ spec_trace m a oa /\ spec_out (afold m a oa) o x.
Proof.
  intros a m o outs H. destruct (spec_trace_app _ _ _ _ H) as [oa [ob [E [L [S1 S2]]]]].
  destruct ob as [|x [|y ob]]; cbn in S2; try tauto. exists oa, x. tauto.
Qed.

Theorem spec_announce_then_find m mid t2 t3 ih a outs :
  spec_trace m ((t2, SAdd (ih, a)) :: mid ++ [(t3, SFind ih)]) outs ->
  times_from t2 (mid ++ [(t3, SFind ih)]) ->
  (forall it t, m it = Some t -> t <= t2) ->
  exists b omid l, outs = OAdd b :: omid ++ [OFind l] /\ length omid = length mid /\
    (b = true -> t3 - t2 < 86400000000000 -> In a l) /\
    ((forall tt, ~ In (tt, SAdd (ih, a)) mid) -> 86400000000000 <= t3 - t2 -> ~ In a l).
Proof.
  intros H Ht Hm. destruct outs as [|x outs]; cbn [spec_trace] in H; [contradiction|]. destruct H as [H1 H2].
  destruct x as [b|l0]; cbn in H1; [|contradiction].
  destruct (spec_trace_last _ _ _ _ H2) as [omid [y [E [L [S1 S2]]]]].
  destruct y as [b'|l]; cbn in S2; [contradiction|]. destruct S2 as [_ S2].
  exists b, omid, l. split; [subst outs; reflexivity|]. split; [exact L|].
  destruct (times_from_app _ _ _ Ht) as [Htm _]. destruct (times_from_last _ _ _ Ht) as [Hle _]. cbn [fst] in Hle.
  unfold anext in *. cbn [snd fst] in *. split.
  - intros -> Hlt. apply S2.
    destruct (afold_ge mid (upd m (ih, a) t2) omid (ih, a) t2 t2 S1 Htm) as [t' [A B]];
      [unfold upd; rewrite item_eqb_refl; reflexivity | lia |].
    exists t'. split; [exact A|]. unfold dur_since. lia.
  - intros Hn Hge Hin. apply S2 in Hin. destruct Hin as [t [A B]].
    rewrite (afold_same _ _ _ _ S1 Hn) in A. destruct b.
    + unfold upd in A. rewrite item_eqb_refl in A. inversion A; subst t. unfold dur_since in B. lia.
    + assert (Hna : ~ alive m t2 (ih, a)).
      { intros Hal. assert (false = true) by (apply H1; left; exact Hal). discriminate. }
      apply Hna. exists t. split; [exact A|]. pose proof (Hm _ _ A). unfold dur_since in *. lia.
Qed.

(* recorded times never exceed the time of the last operation *)
Lemma afold_le : forall a m oa t0, spec_trace m a oa -> times_from t0 a -> (forall it t, m it = Some t -> t <= t0) ->
  forall t1, (forall o, In o a -> fst o <= t1) -> t0 <= t1 -> forall it t, afold m a oa it = Some t -> t <= t1.
Proof.
  induction a as [|[now op] a IH]; intros m oa t0 H Ht Hm t1 Hall Hle it t Hf; [cbn in Hf; pose proof (Hm _ _ Hf); lia|].
  destruct oa as [|x oa]; cbn in H; [contradiction|]. destruct H as [H1 H2]. cbn [afold] in Hf.
  cbn in Ht. destruct Ht as [Ht1 Ht2].
  assert (Hnow : now <= t1) by (apply (Hall (now, op)); left; reflexivity).
  apply (IH _ _ now H2 Ht2) with (t1 := t1) (it := it); [|intros o Ho; apply Hall; right; exact Ho|exact Hnow|exact Hf].
  intros it0 tt. destruct op as [it'|ih], x as [b|l]; cbn in H1; try contradiction; unfold anext; cbn [snd fst].
  - destruct b; [|intros Hx; pose proof (Hm _ _ Hx); lia]. unfold upd. destruct (item_eqb it0 it'); [intros Hx; inversion Hx; lia|].
    intros Hx; pose proof (Hm _ _ Hx); lia.
  - intros Hx; pose proof (Hm _ _ Hx); lia.
Qed.

Lemma srun_length s ops : length (snd (srun s ops)) = length ops.
Proof.
  revert s. induction ops as [|o r IH]; intros s; cbn [srun]; [reflexivity|].
  destruct (sstep s o) as [s1 x]. specialize (IH s1). destruct (srun s1 r). cbn in *. lia.
Qed.

(* On every history of the store: an accepted announce is returned by every lookup of its info-hash less than
   24 h later, whatever happens in between; and a pair not announced again is not returned 24 h later or more. *)
Theorem announce_then_find pre mid post t0 t2 t3 ih a :
  let ops := pre ++ (t2, SAdd (ih, a)) :: mid ++ (t3, SFind ih) :: post in
  times_from t0 ops ->
  exists opre b omid l opost,
    snd (srun empty_store ops) = opre ++ OAdd b :: omid ++ OFind l :: opost /\
    length opre = length pre /\ length omid = length mid /\
    (b = true -> t3 - t2 < 86400000000000 -> In a l) /\
    ((forall tt, ~ In (tt, SAdd (ih, a)) mid) -> 86400000000000 <= t3 - t2 -> ~ In a l).
Proof.
  intros ops Ht. pose proof (storage_refines_spec ops t0 Ht) as S. unfold ops in *.
  destruct (spec_trace_app _ _ _ _ S) as [opre [o1 [E [L [S1 S2]]]]].
  destruct (times_from_app _ _ _ Ht) as [Htp [t1 [Ht1 [Htr Hall]]]].
  replace ((t2, SAdd (ih, a)) :: mid ++ (t3, SFind ih) :: post)
    with (((t2, SAdd (ih, a)) :: mid ++ [(t3, SFind ih)]) ++ post) in S2, Htr
    by (cbn [app]; rewrite <- app_assoc; reflexivity).
  destruct (spec_trace_app _ _ _ _ S2) as [o2 [opost [E2 [L2 [S3 S4]]]]].
  destruct (times_from_app _ _ _ Htr) as [Htr2 _]. cbn [app times_from fst] in Htr2. destruct Htr2 as [Hle2 Htr2].
  destruct (spec_announce_then_find _ _ _ _ _ _ _ S3 Htr2) as [b [omid [l [E3 [L3 [F1 F2]]]]]].
  { intros it t Hx. enough (t <= t1) by lia.
    apply (afold_le pre aempty opre t0 S1 Htp) with (t1 := t1) (it := it); try assumption.
    intros ? ? Hn. discriminate. }
  exists opre, b, omid, l, opost. split.
  - rewrite E, E2, E3. cbn [app]. rewrite <- app_assoc. reflexivity.
  - repeat split; assumption.
Qed.
