From BT Require Import model.Prelude model.Table gen.Consts proofs.Prelude_Facts.
From Coq Require Import ZifyBool ZifyN ZifyNat Permutation.
Open Scope Z_scope.

(* ------------------------------------------------------------------ constants *)
Lemma max_last_seen_val : max_last_seen = 900000000000. Proof. reflexivity. Qed.
Lemma max_refresh_requests_val : max_refresh_requests = 2%nat. Proof. reflexivity. Qed.
Lemma bucket_size_val : bucket_size = 8%nat. Proof. reflexivity. Qed.
Lemma max_buckets_val : max_buckets = 160%nat. Proof. reflexivity. Qed.

(* ------------------------------------------------------------------ node status (C10) *)
Definition recent (now t : Z) : Prop := dur_since now t < 900000000000.

Lemma status_good_iff now n :
  node_status now n = Good <->
  exists tr, last_response n = Some tr /\
    (recent now tr \/
     ((refresh_requests n < 2)%nat /\ exists tq, last_request n = Some tq /\ recent now tq)).
Proof.
  unfold node_status, recent. rewrite max_last_seen_val, max_refresh_requests_val.
  destruct (last_response n) as [tr|]; [|split; [discriminate | intros [tr [H _]]; discriminate]].
  destruct (dur_since now tr <? 900000000000) eqn:E1.
  - split; [intros _; exists tr; split; [reflexivity | left; lia] | reflexivity].
  - destruct (Nat.leb 2 (refresh_requests n)) eqn:E2.
    + split; [discriminate|]. intros [tr' [H [H1|[H1 _]]]]; inversion H; subst; lia.
    + destruct (last_request n) as [tq|].
      * destruct (dur_since now tq <? 900000000000) eqn:E3.
        -- split; [intros _; exists tr; split; [reflexivity|]; right; split; [lia|]; exists tq; split; [reflexivity | lia] | reflexivity].
        -- split; [discriminate|]. intros [tr' [H [H1|[_ [tq' [H2 H3]]]]]]; inversion H; subst; [lia | inversion H2; subst; lia].
      * split; [discriminate|]. intros [tr' [H [H1|[_ [tq' [H2 _]]]]]]; inversion H; subst; [lia | discriminate].
Qed.

Lemma status_bad_iff now n :
  node_status now n = Bad <->
  last_response n = None \/
  exists tr, last_response n = Some tr /\ ~ recent now tr /\ (2 <= refresh_requests n)%nat.
Proof.
  unfold node_status, recent. rewrite max_last_seen_val, max_refresh_requests_val.
  destruct (last_response n) as [tr|]; [|split; [intros _; left; reflexivity | reflexivity]].
  destruct (dur_since now tr <? 900000000000) eqn:E1.
  - split; [discriminate|]. intros [H|[tr' [H [H1 _]]]]; [discriminate | inversion H; subst; lia].
  - destruct (Nat.leb 2 (refresh_requests n)) eqn:E2.
    + split; [intros _; right; exists tr; split; [reflexivity | split; lia] | reflexivity].
    + split.
      * destruct (last_request n) as [tq|]; [destruct (dur_since now tq <? 900000000000)|]; discriminate.
      * intros [H|[tr' [H [_ H2]]]]; [discriminate | lia].
Qed.

(* any accepted answer makes the contact good immediately *)
Lemma as_good_status id a now : node_status now (as_good id a now) = Good.
Proof. unfold node_status, as_good, dur_since. cbn. rewrite Z.sub_diag. reflexivity. Qed.

Lemma update_good_status now n id a : node_status now (node_update now n (as_good id a now)) = Good.
Proof.
  unfold node_update. rewrite as_good_status.
  destruct (node_status now n) eqn:E; try apply as_good_status.
  unfold node_status, dur_since. cbn. rewrite Z.sub_diag. reflexivity.
Qed.

(* a contact known only by hearsay is questionable, at the time of the mention and ever after
   (until it answers, queries, or leaves two queries unanswered) *)
Lemma as_questionable_status id a t now : t <= now ->
  node_status now (as_questionable id a t) = Questionable.
Proof.
  intros H. unfold node_status, as_questionable, dur_since. cbn [last_response refresh_requests last_request].
  rewrite max_last_seen_val, max_refresh_requests_val.
  assert ((Z.max 0 (now - (t - 900000000000)) <? 900000000000) = false) as -> by lia. reflexivity.
Qed.

(* a query sent while the contact is not good is counted; two such make it bad for as long as no answer arrives *)
Lemma local_request_counts now n : node_status now n <> Good ->
  refresh_requests (local_request now n) = S (refresh_requests n) /\
  last_response (local_request now n) = last_response n /\ last_request (local_request now n) = last_request n.
Proof.
  intros H. unfold local_request.
  set (n' := mkNode _ _ _ _ _ _).
  assert (node_status now n' = node_status now n) as E by reflexivity.
  rewrite E. destruct (node_status now n); try contradiction; cbn; auto.
Qed.

Lemma two_unanswered_bad now n tr : last_response n = Some tr -> ~ recent now tr ->
  (2 <= refresh_requests n)%nat -> node_status now n = Bad.
Proof. intros H1 H2 H3. apply status_bad_iff. right. exists tr. auto. Qed.

Lemma not_recent_mono t now now' : now <= now' -> ~ recent now t -> ~ recent now' t.
Proof. unfold recent, dur_since. lia. Qed.

(* ------------------------------------------------------------------ the bucket walk (C09) *)
Fixpoint nodupb (l : list nat) : bool :=
  match l with [] => true | x :: r => negb (existsb (Nat.eqb x) r) && nodupb r end.

Lemma nodupb_NoDup l : nodupb l = true -> NoDup l.
Proof.
  induction l as [|x l IH]; cbn; intros H; [constructor|].
  apply andb_true_iff in H as [H1 H2]. constructor; [|apply IH, H2].
  intros Hx. apply negb_true_iff in H1. rewrite <- not_true_iff_false in H1. apply H1.
  apply existsb_exists. exists x. split; [exact Hx | apply Nat.eqb_refl].
Qed.

Definition walk160 (start : nat) : list nat := filter (fun i => Nat.ltb i 160%nat) (bucket_walk start).

Definition walk_ok (start : nat) : bool :=
  nodupb (walk160 start)
  && forallb (fun i => existsb (Nat.eqb i) (walk160 start)) (seq 0 160%nat)
  && forallb (fun i => Nat.leb i 160%nat) (bucket_walk start).

Lemma walk_sweep : forallb walk_ok (seq 0 161%nat) = true.
Proof. vm_compute. reflexivity. Qed.

(* for every start index (0..160: lcp never exceeds 160) the walk visits every bucket index
   below 160 exactly once, and nothing else except possibly the index 160 itself *)
Lemma walk_perm start : (start <= 160)%nat -> Permutation (walk160 start) (seq 0 160%nat).
Proof.
  intros Hs. pose proof walk_sweep as H. rewrite forallb_forall in H.
  specialize (H start ltac:(apply in_seq; lia)). unfold walk_ok in H.
  apply andb_true_iff in H as [H _]. apply andb_true_iff in H as [H1 H2].
  apply NoDup_Permutation; [apply nodupb_NoDup, H1 | apply seq_NoDup|].
  intros i. split.
  - intros Hi. unfold walk160 in Hi. apply filter_In in Hi as [_ Hi]. apply Nat.ltb_lt in Hi. apply in_seq. lia.
  - intros Hi. rewrite forallb_forall in H2. specialize (H2 i Hi). apply existsb_exists in H2 as [j [Hj E]].
    apply Nat.eqb_eq in E. subst. exact Hj.
Qed.

Lemma walk_bound start i : (start <= 160)%nat -> In i (bucket_walk start) -> (i <= 160)%nat.
Proof.
  intros Hs Hi. pose proof walk_sweep as H. rewrite forallb_forall in H.
  specialize (H start ltac:(apply in_seq; lia)). unfold walk_ok in H.
  apply andb_true_iff in H as [_ H].
  rewrite forallb_forall in H. specialize (H i Hi). apply Nat.leb_le in H. exact H.
Qed.

Lemma lcp_le a b : (lcp a b <= 160)%nat.
Proof. unfold lcp. rewrite max_buckets_val. lia. Qed.

(* ------------------------------------------------------------------ enumeration (C09) *)
Lemma perm_flat_map {A B} (f : A -> list B) l l' : Permutation l l' ->
  Permutation (flat_map f l) (flat_map f l').
Proof.
  induction 1 as [|x l l' H IH|x y l|l l' l'' H1 IH1 H2 IH2]; cbn.
  - constructor.
  - apply Permutation_app_head, IH.
  - rewrite !app_assoc. apply Permutation_app_tail, Permutation_app_comm.
  - eapply Permutation_trans; eassumption.
Qed.

Lemma flat_map_split {A B} (f g : A -> list B) l :
  Permutation (flat_map (fun i => f i ++ g i) l) (flat_map f l ++ flat_map g l).
Proof.
  induction l as [|x l IH]; cbn; [constructor|].
  rewrite <- !app_assoc. apply Permutation_app_head.
  eapply Permutation_trans; [apply Permutation_app_head, IH|].
  apply Permutation_app_swap_app.
Qed.

Lemma flat_map_nil_nth {B} (s : list nat) : flat_map (fun i => nth i (@nil (list B)) []) s = [].
Proof. induction s as [|i s IH]; cbn [flat_map]; [reflexivity|]. rewrite IH. destruct i; reflexivity. Qed.

Lemma concat_as_flat_map {B} (l : list (list B)) : forall n, (length l <= n)%nat ->
  flat_map (fun i => nth i l []) (seq 0 n) = concat l.
Proof.
  induction l as [|b l IH]; intros n Hn.
  - apply flat_map_nil_nth.
  - destruct n as [|n]; [cbn in Hn; lia|]. cbn [seq flat_map nth concat]. f_equal.
    rewrite <- seq_shift, flat_map_concat_map, map_map, <- flat_map_concat_map.
    cbn [nth]. apply IH. cbn in Hn. lia.
Qed.

Lemma filter_flat_map {A B} (p : B -> bool) (f : A -> list B) s :
  flat_map (fun i => filter p (f i)) s = filter p (flat_map f s).
Proof. induction s as [|i s IH]; cbn; [reflexivity|]. rewrite filter_app, IH. reflexivity. Qed.

Lemma filter_partition_perm {B} (f : B -> bool) l :
  Permutation l (filter f l ++ filter (fun x => negb (f x)) l).
Proof.
  induction l as [|x l IH]; cbn; [constructor|].
  destruct (f x); cbn.
  - apply perm_skip. exact IH.
  - apply Permutation_cons_app. exact IH.
Qed.

(* grouping a list by a key below n *)
Lemma group_by_key {B} (key : B -> nat) (l : list B) : forall n,
  Permutation (flat_map (fun i => filter (fun x => Nat.eqb (key x) i) l) (seq 0 n))
              (filter (fun x => Nat.ltb (key x) n) l).
Proof.
  induction n as [|n IH].
  - cbn [seq flat_map]. induction l as [|x l IHl]; cbn [filter]; [constructor|].
    destruct (Nat.ltb_spec (key x) 0); [lia | exact IHl].
  - rewrite seq_S, flat_map_app. cbn [flat_map Nat.add]. rewrite app_nil_r.
    eapply Permutation_trans; [apply Permutation_app_tail, IH|].
    clear IH. induction l as [|x l IHl]; cbn [filter app]; [constructor|].
    destruct (Nat.ltb_spec (key x) n) as [H1|H1]; destruct (Nat.eqb_spec (key x) n) as [H2|H2];
      destruct (Nat.ltb_spec (key x) (S n)) as [H3|H3]; try lia; cbn [filter app].
    + apply perm_skip. exact IHl.
    + apply Permutation_sym, Permutation_cons_app, Permutation_sym. exact IHl.
    + exact IHl.
Qed.

Lemma filter_all {B} (f g : B -> bool) l : (forall x, In x l -> f x = true -> g x = true) ->
  filter (fun x => f x && g x) l = filter f l.
Proof.
  induction l as [|x l IH]; intros H; cbn; [reflexivity|].
  rewrite IH by (intros y Hy; apply H; right; exact Hy).
  destruct (f x) eqn:E; cbn; [rewrite (H x (or_introl eq_refl) E)|]; reflexivity.
Qed.

Lemma filter_filter_and {B} (f g : B -> bool) l : filter g (filter f l) = filter (fun x => f x && g x) l.
Proof. induction l as [|x l IH]; cbn; [reflexivity|]. destruct (f x); cbn; [destruct (g x)|]; rewrite IH; reflexivity. Qed.

(* what the enumeration needs from the table: between 1 and 160 buckets, and no live node of the
   assorted (last) bucket carries the local id *)
Definition enum_ok (now : Z) (t : table) : Prop :=
  ((1 <= length (buckets t))%nat /\ (length (buckets t) <= 160)%nat) /\
  forall n, In n (List.last (buckets t) []) -> is_pingable now n = true -> (lcp (local_id t) (nd_id n) < 160)%nat.

Theorem closest_is_permutation now t target : enum_ok now t ->
  Permutation (closest_nodes now t target) (live_nodes now t).
Proof.
  intros [[Hlen1 Hlen2] Hass]. unfold closest_nodes, live_nodes. rewrite max_buckets_val.
  set (bs := buckets t) in *.
  set (full := Nat.eqb (length bs) 160).
  set (sorted := if full then bs else removelast bs).
  set (assorted := if full then [] else List.last bs []).
  set (A := fun i => filter (is_pingable now) (nth i sorted [])).
  set (B := fun i => filter (fun n => is_pingable now n && Nat.eqb (lcp (local_id t) (nd_id n)) i) assorted).
  set (w := bucket_walk (lcp (local_id t) target)).
  unfold bucket in *.
  assert (Hstart : (lcp (local_id t) target <= 160)%nat) by apply lcp_le.
  assert (Hsl : (length sorted <= 160)%nat).
  { unfold sorted, full. destruct (Nat.eqb_spec (length bs) 160); [lia|].
    assert (bs <> []) by (destruct bs; cbn in *; [lia | discriminate]).
    pose proof (f_equal (@length _) (app_removelast_last [] H)) as E. rewrite app_length in E. cbn in E.
    unfold bucket in *. lia. }
  assert (Hassl : forall n, In n assorted -> is_pingable now n = true -> (lcp (local_id t) (nd_id n) < 160)%nat).
  { unfold assorted, full. destruct (Nat.eqb (length bs) 160); [intros n []|exact Hass]. }
  (* F 160 = [] *)
  assert (HF160 : A 160%nat ++ B 160%nat = []).
  { unfold A, B. rewrite nth_overflow by lia. cbn [filter app].
    clear - Hassl. induction assorted as [|x l IH]; [reflexivity|]. cbn [filter].
    destruct (is_pingable now x) eqn:Ep; cbn [andb].
    - pose proof (Hassl x (or_introl eq_refl) Ep).
      destruct (Nat.eqb_spec (lcp (local_id t) (nd_id x)) 160); [lia|]. apply IH. intros n' Hn. apply Hassl. right. exact Hn.
    - apply IH. intros n' Hn. apply Hassl. right. exact Hn. }
  (* drop index 160 from the walk, then reorder it into 0..159 *)
  assert (Hw : Permutation (flat_map (fun i => A i ++ B i) w)
                           (flat_map (fun i => A i ++ B i) (seq 0 160))).
  { assert (Hd : flat_map (fun i => A i ++ B i) w
                 = flat_map (fun i => A i ++ B i) (filter (fun i => Nat.ltb i 160) w)).
    { assert (Hb : forall i, In i w -> (i <= 160)%nat) by (intros i; apply walk_bound, Hstart).
      clear - Hb HF160. induction w as [|i w IH]; [reflexivity|]. cbn [flat_map filter].
      rewrite IH by (intros j Hj; apply Hb; right; exact Hj).
      destruct (Nat.ltb_spec i 160); [reflexivity|].
      assert (i = 160%nat) as -> by (specialize (Hb i (or_introl eq_refl)); lia).
      rewrite HF160. reflexivity. }
    rewrite Hd. apply perm_flat_map. apply walk_perm, Hstart. }
  eapply Permutation_trans; [exact Hw|].
  eapply Permutation_trans; [apply flat_map_split|].
  (* the sorted part *)
  assert (HA : flat_map A (seq 0 160) = filter (is_pingable now) (concat sorted)).
  { unfold A. rewrite (filter_flat_map (is_pingable now) (fun i => nth i sorted [])).
    rewrite (concat_as_flat_map sorted 160 Hsl). reflexivity. }
  (* the assorted part *)
  assert (HB : Permutation (flat_map B (seq 0 160)) (filter (is_pingable now) assorted)).
  { unfold B.
    assert (E : forall i, filter (fun n => is_pingable now n && Nat.eqb (lcp (local_id t) (nd_id n)) i) assorted
                = filter (fun n => Nat.eqb (lcp (local_id t) (nd_id n)) i) (filter (is_pingable now) assorted)).
    { intros i. rewrite filter_filter_and. reflexivity. }
    rewrite (flat_map_ext _ _ E).
    eapply Permutation_trans; [apply group_by_key|].
    rewrite filter_filter_and. rewrite filter_all; [apply Permutation_refl|].
    intros x Hx Hp. apply Nat.ltb_lt. apply Hassl; assumption. }
  rewrite HA. eapply Permutation_trans; [apply Permutation_app_head, HB|].
  rewrite <- filter_app.
  assert (Hc : concat bs = concat sorted ++ assorted).
  { unfold sorted, assorted, full. destruct (Nat.eqb_spec (length bs) 160); [rewrite app_nil_r; reflexivity|].
    assert (Hne : bs <> []) by (destruct bs; cbn in *; [lia | discriminate]).
    rewrite (app_removelast_last [] Hne) at 1. rewrite concat_app. cbn. rewrite app_nil_r. reflexivity. }
  rewrite Hc. apply Permutation_refl.
Qed.

(* ------------------------------------------------------------------ per-contact histories (C10) *)
Inductive cev := CAnswer | CHearsay | CQueryRecv | CQuerySent.

(* what the table does to the slot of a contact on each kind of event *)
Definition cstep (n : node) (e : Z * cev) : node :=
  let now := fst e in
  match snd e with
  | CAnswer => node_update now n (as_good (nd_id n) (nd_addr n) now)
  | CHearsay => node_update now n (as_questionable (nd_id n) (nd_addr n) now)
  | CQueryRecv => if is_pingable now n then remote_request now n else n
  | CQuerySent => if is_pingable now n then local_request now n else n
  end.

Definition enroll (id : N) (a : addr) (e : Z * cev) : node :=
  match snd e with
  | CAnswer => as_good id a (fst e)
  | _ => as_questionable id a (fst e)
  end.

Fixpoint ctimes_from (t0 : Z) (evs : list (Z * cev)) : Prop :=
  match evs with
  | [] => True
  | e :: r => t0 <= fst e /\ ctimes_from (fst e) r
  end.

Definition last_time (t0 : Z) (evs : list (Z * cev)) : Z := fold_left (fun _ e => fst e) evs t0.

(* where the fields of a contact come from *)
Definition Prov (hist : list (Z * cev)) (n : node) : Prop :=
  (forall tr, last_response n = Some tr ->
     In (tr, CAnswer) hist \/ exists th, In (th, CHearsay) hist /\ tr = th - 900000000000) /\
  (forall tq, last_request n = Some tq -> In (tq, CQueryRecv) hist).

Lemma node_update_fields now self other :
  let r := node_update now self other in
  (last_response r = last_response self \/ last_response r = last_response other) /\
  (last_request r = last_request self \/ last_request r = last_request other).
Proof.
  unfold node_update. destruct (node_status now self), (node_status now other); cbn; auto.
Qed.

Lemma prov_step hist n e : Prov hist n -> Prov (hist ++ [e]) (cstep n e).
Proof.
  intros [P1 P2]. destruct e as [now k]. unfold cstep. cbn [fst snd].
  assert (W : forall x, In x hist -> In x (hist ++ [(now, k)])) by (intros; apply in_or_app; left; assumption).
  assert (L : In (now, k) (hist ++ [(now, k)])) by (apply in_or_app; right; left; reflexivity).
  destruct k.
  - destruct (node_update_fields now n (as_good (nd_id n) (nd_addr n) now)) as [[E1|E1] [E2|E2]];
      split; intros t Ht; rewrite ?E1, ?E2 in Ht; cbn in Ht;
      try (destruct (P1 t Ht) as [H|[th [H1 H2]]]; [left; apply W, H | right; exists th; split; [apply W, H1 | exact H2]]);
      try (apply W, P2, Ht); try discriminate;
      try (inversion Ht; subst; left; exact L).
  - destruct (node_update_fields now n (as_questionable (nd_id n) (nd_addr n) now)) as [[E1|E1] [E2|E2]];
      split; intros t Ht; rewrite ?E1, ?E2 in Ht; cbn in Ht;
      try (destruct (P1 t Ht) as [H|[th [H1 H2]]]; [left; apply W, H | right; exists th; split; [apply W, H1 | exact H2]]);
      try (apply W, P2, Ht); try discriminate;
      try (inversion Ht; subst; right; exists now; split; [exact L | rewrite max_last_seen_val; reflexivity]).
  - destruct (is_pingable now n); [|split; intros t Ht;
      [destruct (P1 t Ht) as [H|[th [H1 H2]]]; [left; apply W, H | right; exists th; split; [apply W, H1 | exact H2]] | apply W, P2, Ht]].
    split; intros t Ht; cbn in Ht.
    + destruct (P1 t Ht) as [H|[th [H1 H2]]]; [left; apply W, H | right; exists th; split; [apply W, H1 | exact H2]].
    + inversion Ht; subst. exact L.
  - assert (Q : Prov (hist ++ [(now, CQuerySent)]) n).
    { split; intros t Ht; [destruct (P1 t Ht) as [H|[th [H1 H2]]]; [left; apply W, H | right; exists th; split; [apply W, H1 | exact H2]] | apply W, P2, Ht]. }
    destruct (is_pingable now n); [|exact Q].
    unfold local_request. destruct Q as [Q1 Q2].
    destruct (status_eqb _ Good); split; cbn; assumption.
Qed.

Lemma prov_enroll id a e : snd e = CAnswer \/ snd e = CHearsay -> Prov [e] (enroll id a e).
Proof.
  destruct e as [now k]. unfold enroll, Prov. cbn [fst snd].
  intros [->| ->]; cbn; (split; [|discriminate]); intros tr H; inversion H; subst.
  - left. left. reflexivity.
  - right. exists now. split; [left; reflexivity | rewrite max_last_seen_val; reflexivity].
Qed.

Lemma prov_run : forall evs hist n, Prov hist n -> Prov (hist ++ evs) (fold_left cstep evs n).
Proof.
  induction evs as [|e evs IH]; intros hist n P; cbn [fold_left]; [rewrite app_nil_r; exact P|].
  replace (hist ++ e :: evs) with ((hist ++ [e]) ++ evs) by (rewrite <- app_assoc; reflexivity).
  apply IH, prov_step, P.
Qed.

Lemma last_time_ge : forall evs t0, ctimes_from t0 evs -> t0 <= last_time t0 evs.
Proof.
  induction evs as [|y evs IH]; intros t0 H; unfold last_time; cbn [fold_left]; [lia|].
  cbn in H. destruct H as [A B]. specialize (IH _ B). unfold last_time in IH. lia.
Qed.

Lemma times_in : forall evs t0 e, ctimes_from t0 evs -> In e evs -> t0 <= fst e /\ fst e <= last_time t0 evs.
Proof.
  induction evs as [|x evs IH]; intros t0 e Ht Hin; [destruct Hin|].
  cbn in Ht. destruct Ht as [H1 H2]. unfold last_time. cbn [fold_left]. fold (last_time (fst x) evs).
  destruct Hin as [<-|Hin].
  - split; [exact H1 | apply last_time_ge, H2].
  - destruct (IH _ _ H2 Hin). split; lia.
Qed.

(* reported good only with an answer, or a query received while known, in the last 15 minutes *)
Theorem good_only_if_recent id a e0 evs now :
  snd e0 = CAnswer \/ snd e0 = CHearsay ->
  ctimes_from (fst e0) evs -> last_time (fst e0) evs <= now ->
  node_status now (fold_left cstep evs (enroll id a e0)) = Good ->
  exists t, (In (t, CAnswer) (e0 :: evs) \/ In (t, CQueryRecv) (e0 :: evs)) /\ t <= now /\ now - t < 900000000000.
Proof.
  intros He0 Ht Hnow Hg.
  pose proof (prov_run evs [e0] _ (prov_enroll id a e0 He0)) as [P1 P2]. cbn [app] in P1, P2.
  assert (Hle : forall x, In x (e0 :: evs) -> fst x <= now).
  { intros x [<-|Hx]; [|destruct (times_in _ _ _ Ht Hx); lia].
    pose proof (last_time_ge _ _ Ht). lia. }
  apply status_good_iff in Hg as [tr [Hr [Hrec|[_ [tq [Hq Hrec]]]]]].
  - destruct (P1 tr Hr) as [H|[th [H1 H2]]].
    + exists tr. pose proof (Hle _ H). cbn in H0. unfold recent, dur_since in Hrec. split; [left; exact H|]. lia.
    + exfalso. pose proof (Hle _ H1). cbn in H. unfold recent, dur_since in Hrec. lia.
  - exists tq. pose proof (Hle _ (P2 tq Hq)). cbn in H. unfold recent, dur_since in Hrec.
    split; [right; apply P2, Hq|]. lia.
Qed.

(* a contact known only by hearsay stays questionable *)
Theorem hearsay_only_questionable id a t0 evs now :
  ctimes_from t0 evs -> (forall e, In e evs -> snd e = CHearsay) -> last_time t0 evs <= now ->
  node_status now (fold_left cstep evs (as_questionable id a t0)) = Questionable.
Proof.
  intros Ht Hall Hnow.
  assert (E : forall u, t0 <= u -> ctimes_from u evs ->
              fold_left cstep evs (as_questionable id a t0) = as_questionable id a t0).
  { clear Ht Hnow. induction evs as [|e evs IH]; intros u Hu Ht; [reflexivity|].
    cbn in Ht. destruct Ht as [H1 H2]. cbn [fold_left].
    assert (cstep (as_questionable id a t0) e = as_questionable id a t0) as ->.
    { destruct e as [now' k]. specialize (Hall _ (or_introl eq_refl)). cbn in Hall. subst k.
      unfold cstep. cbn [fst snd] in *. unfold node_update.
      rewrite (as_questionable_status id a t0 now') by lia.
      change (nd_id (as_questionable id a t0)) with id. change (nd_addr (as_questionable id a t0)) with a.
      rewrite (as_questionable_status id a now' now') by lia. reflexivity. }
    apply (IH (fun x Hx => Hall x (or_intror Hx)) (fst e)); [lia | exact H2]. }
  rewrite (E t0 ltac:(lia) Ht). apply as_questionable_status.
  pose proof (last_time_ge _ _ Ht). lia.
Qed.

(* a contact that is not good and leaves two consecutive queries unanswered is bad -- not
   reported, not offered to others, not found by find_node_mut -- whatever queries follow, for
   as long as it neither answers nor is named again *)
Theorem two_unanswered_stays_bad n t1 t2 post now :
  t1 <= t2 ->
  node_status t1 n <> Good -> is_pingable t1 n = true ->
  node_status t2 (cstep n (t1, CQuerySent)) <> Good -> is_pingable t2 (cstep n (t1, CQuerySent)) = true ->
  ctimes_from t2 post -> (forall e, In e post -> snd e = CQueryRecv \/ snd e = CQuerySent) ->
  last_time t2 post <= now ->
  node_status now (fold_left cstep post (cstep (cstep n (t1, CQuerySent)) (t2, CQuerySent))) = Bad.
Proof.
  intros H12 Hg1 Hp1 Hg2 Hp2 Ht Hall Hnow.
  set (n1 := cstep n (t1, CQuerySent)) in *.
  set (n2 := cstep n1 (t2, CQuerySent)).
  assert (E1 : n1 = local_request t1 n) by (unfold n1, cstep; cbn [fst snd]; rewrite Hp1; reflexivity).
  assert (E2 : n2 = local_request t2 n1) by (unfold n2, cstep; cbn [fst snd]; rewrite Hp2; reflexivity).
  destruct (local_request_counts t1 n Hg1) as [C1 [R1 Q1]]. rewrite <- E1 in C1, R1, Q1.
  destruct (local_request_counts t2 n1 Hg2) as [C2 [R2 Q2]]. rewrite <- E2 in C2, R2, Q2.
  assert (Hrr : (2 <= refresh_requests n2)%nat) by lia.
  destruct (last_response n2) as [tr|] eqn:Er.
  2:{ assert (B : forall u, node_status u n2 = Bad) by (intros u; apply status_bad_iff; left; exact Er).
      assert (E : fold_left cstep post n2 = n2).
      { clear - B Hall. induction post as [|e post IH]; [reflexivity|]. cbn [fold_left].
        assert (cstep n2 e = n2) as ->.
        { destruct e as [u k]. destruct (Hall _ (or_introl eq_refl)) as [K|K]; cbn in K; subst k;
            unfold cstep, is_pingable; cbn [fst snd]; rewrite B; reflexivity. }
        apply IH. intros x Hx. apply Hall. right. exact Hx. }
      rewrite E. apply B. }
  assert (Hnr : ~ recent t2 tr).
  { intros Hrec. apply Hg2. apply status_good_iff. exists tr. split; [symmetry; exact R2 | left; exact Hrec]. }
  assert (B : forall u, t2 <= u -> node_status u n2 = Bad).
  { intros u Hu. apply (two_unanswered_bad u n2 tr Er); [eapply not_recent_mono; eassumption | exact Hrr]. }
  assert (E : forall u, t2 <= u -> ctimes_from u post -> fold_left cstep post n2 = n2).
  { clear Hnow Ht. induction post as [|e post IH]; intros u Hu Ht; [reflexivity|]. cbn [fold_left].
    cbn in Ht. destruct Ht as [A1 A2].
    assert (cstep n2 e = n2) as ->.
    { destruct e as [v k]. cbn [fst] in *. destruct (Hall _ (or_introl eq_refl)) as [K|K]; cbn in K; subst k;
        unfold cstep, is_pingable; cbn [fst snd]; rewrite (B v) by lia; reflexivity. }
    apply (IH (fun x Hx => Hall x (or_intror Hx)) (fst e)); [lia | exact A2]. }
  rewrite (E t2 ltac:(lia) Ht). apply B.
  pose proof (last_time_ge _ _ Ht). lia.
Qed.
