From BT Require Import model.Prelude.
From Coq Require Import ZifyBool ZifyN ZifyNat.

(* finite sweeps: a boolean predicate checked for every n below K *)
Definition forallb_below (K : nat) (f : N -> bool) : bool :=
  forallb f (map N.of_nat (seq 0 K)).

Lemma forallb_below_spec K f :
  forallb_below K f = true -> forall n, n < N.of_nat K -> f n = true.
Proof.
  unfold forallb_below. intros H n Hn.
  rewrite forallb_forall in H. apply H.
  apply in_map_iff. exists (N.to_nat n). split; [lia|].
  apply in_seq. lia.
Qed.

Lemma lxor_lt_pow2 a b n : a < 2 ^ n -> b < 2 ^ n -> N.lxor a b < 2 ^ n.
Proof.
  intros Ha Hb.
  destruct (N.eq_dec (N.lxor a b) 0) as [E|E].
  - rewrite E. apply N.neq_0_lt_0. apply N.pow_nonzero. discriminate.
  - apply N.log2_lt_pow2; [lia|].
    eapply N.le_lt_trans; [apply N.log2_lxor|].
    destruct (N.eq_dec a 0) as [->|Ha0]; destruct (N.eq_dec b 0) as [->|Hb0].
    + cbn in E. congruence.
    + rewrite N.max_r by (cbn; lia). apply N.log2_lt_pow2; lia.
    + rewrite N.max_l by (cbn; lia). apply N.log2_lt_pow2; lia.
    + apply N.max_lub_lt; apply N.log2_lt_pow2; lia.
Qed.

Lemma land_lt_pow2_r a b n : b < 2 ^ n -> N.land a b < 2 ^ n.
Proof.
  intros Hb.
  destruct (N.eq_dec (N.land a b) 0) as [E|E].
  - rewrite E. apply N.neq_0_lt_0. apply N.pow_nonzero. discriminate.
  - apply N.log2_lt_pow2; [lia|].
    eapply N.le_lt_trans; [apply N.log2_land|].
    destruct (N.eq_dec b 0) as [->|Hb0]; [rewrite N.land_0_r in E; congruence|].
    eapply N.le_lt_trans; [apply N.le_min_r|]. apply N.log2_lt_pow2; lia.
Qed.

Lemma shiftr1_lt_pow2 a n : a < 2 ^ n -> N.shiftr a 1 < 2 ^ n.
Proof.
  intros Ha. rewrite N.shiftr_div_pow2. change (2 ^ 1) with 2.
  eapply N.le_lt_trans; [|exact Ha]. apply N.div_le_upper_bound; lia.
Qed.

Lemma bytes_ok_app a b : bytes_ok (a ++ b) = bytes_ok a && bytes_ok b.
Proof. unfold bytes_ok. apply forallb_app. Qed.

Lemma be_to_N_fold l : forall acc,
  fold_left (fun acc b => acc * 256 + b) l acc
  = acc * 256 ^ N.of_nat (length l) + be_to_N l.
Proof.
  unfold be_to_N. induction l as [|x l IH]; intros acc.
  - cbn. lia.
  - cbn [fold_left length]. rewrite IH. rewrite (IH (0 * 256 + x)).
    rewrite Nat2N.inj_succ, N.pow_succ_r'. lia.
Qed.

Lemma be_to_N_app a b :
  be_to_N (a ++ b) = be_to_N a * 256 ^ N.of_nat (length b) + be_to_N b.
Proof.
  unfold be_to_N at 1. rewrite fold_left_app. fold (be_to_N a). apply be_to_N_fold.
Qed.

Lemma be_to_N_cons x l : be_to_N (x :: l) = x * 256 ^ N.of_nat (length l) + be_to_N l.
Proof. change (x :: l) with ([x] ++ l). rewrite be_to_N_app. cbn. lia. Qed.

Lemma be_to_N_lt l : bytes_ok l = true -> be_to_N l < 256 ^ N.of_nat (length l).
Proof.
  induction l as [|x l IH]; intros H.
  - cbn. lia.
  - cbn in H. apply andb_true_iff in H as [Hx Hl]. unfold byte_ok in Hx.
    rewrite be_to_N_cons. cbn [length]. rewrite Nat2N.inj_succ, N.pow_succ_r'.
    specialize (IH Hl). nia.
Qed.

(* ---- NoDup helpers (not in the 8.16 standard library) ---- *)
Lemma nodup_app_l {A} (a b : list A) : NoDup (a ++ b) -> NoDup a.
Proof.
  induction a as [|x a IH]; cbn; intros H; [constructor|].
  inversion H; subst. constructor; [|apply IH; assumption].
  intros Hx. apply H2. apply in_or_app. left. exact Hx.
Qed.

Lemma nodup_app_r {A} (a b : list A) : NoDup (a ++ b) -> NoDup b.
Proof. induction a as [|x a IH]; cbn; intros H; [exact H|]. inversion H; subst. apply IH. assumption. Qed.

Lemma nodup_app_disj {A} (a b : list A) x : NoDup (a ++ b) -> In x a -> In x b -> False.
Proof.
  induction a as [|y a IH]; cbn; [tauto|]. intros H [->|Ha] Hb; inversion H; subst.
  - apply H2. apply in_or_app. right. exact Hb.
  - apply IH; assumption.
Qed.

Lemma nodup_snoc {A} (l : list A) x : NoDup l -> ~ In x l -> NoDup (l ++ [x]).
Proof.
  induction l as [|y l IH]; cbn; intros H Hn.
  - constructor; [tauto | constructor].
  - inversion H; subst. constructor.
    + intros Hy. apply in_app_or in Hy as [Hy|[Hy|[]]]; [contradiction | subst; tauto].
    + apply IH; [assumption | tauto].
Qed.

Lemma firstn_in {A} n (l : list A) x : In x (firstn n l) -> In x l.
Proof. intros H. rewrite <- (firstn_skipn n l). apply in_or_app. left. exact H. Qed.

(* unfolding one step of a fold without asking the kernel to compare the folded terms
   (fuelled functions inside the fold make that conversion explode) *)
Lemma fold_left_cons {A B} (f : A -> B -> A) x l a : fold_left f (x :: l) a = fold_left f l (f a x).
Proof. reflexivity. Qed.
