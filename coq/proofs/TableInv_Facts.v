(* C08: the routing-table shape invariant and the bucket transition laws. *)
From BT Require Import model.Prelude model.Table gen.Consts proofs.Prelude_Facts proofs.Table_Facts.
From Coq Require Import ZifyBool ZifyN ZifyNat Permutation.
Open Scope Z_scope.

(* ------------------------------------------------------------------ list helpers *)
Lemma set_nth_length {A} i (x : A) l : length (set_nth i x l) = length l.
Proof. revert i. induction l as [|y l IH]; intros [|i]; cbn; auto. Qed.

Lemma nth_error_set_nth {A} (l : list A) : forall i x k,
  nth_error (set_nth i x l) k =
  if Nat.eqb k i && Nat.ltb i (length l) then Some x else nth_error l k.
Proof.
  induction l as [|y l IH]; intros i x k.
  - destruct i; cbn; destruct k; cbn; try reflexivity; rewrite andb_false_r; reflexivity.
  - destruct i as [|i]; destruct k as [|k]; cbn [set_nth nth_error length]; try reflexivity.
    rewrite IH. cbn [Nat.eqb]. destruct (Nat.eqb k i); cbn [andb]; [|reflexivity].
    destruct (Nat.ltb_spec i (length l)); destruct (Nat.ltb_spec (S i) (S (length l))); try lia; reflexivity.
Qed.

Lemma position_some {A} (f : A -> bool) l i d : position f l = Some i ->
  (i < length l)%nat /\ f (nth i l d) = true /\ nth_error l i = Some (nth i l d).
Proof.
  revert i. induction l as [|x l IH]; intros i H; cbn in H; [discriminate|].
  destruct (f x) eqn:E.
  - inversion H; subst. cbn. repeat split; [lia | exact E].
  - destruct (position f l) as [j|] eqn:Ej; [|discriminate]. inversion H; subst.
    destruct (IH j eq_refl) as [A1 [A2 A3]]. cbn. repeat split; [lia | exact A2 | exact A3].
Qed.

Lemma position_none {A} (f : A -> bool) l : position f l = None -> forall x, In x l -> f x = false.
Proof.
  induction l as [|y l IH]; intros H x Hx; [destruct Hx|]. cbn in H.
  destruct (f y) eqn:E; [discriminate|]. destruct (position f l) eqn:Ep; [discriminate|].
  destruct Hx as [<-|Hx]; [exact E | apply IH; [reflexivity | exact Hx]].
Qed.

Lemma in_set_nth {A} i (x : A) l y : In y (set_nth i x l) -> y = x \/ In y l.
Proof.
  revert i. induction l as [|z l IH]; intros i H; [destruct i; destruct H|].
  destruct i as [|i]; cbn in H.
  - destruct H as [H|H]; [left; symmetry; exact H | right; right; exact H].
  - destruct H as [H|H]; [right; left; exact H|]. destruct (IH _ H); [left | right; right]; assumption.
Qed.

(* ------------------------------------------------------------------ node facts *)
Definition real (n : node) : Prop := last_response n <> None.

Lemma not_bad_real now n : node_status now n <> Bad -> real n.
Proof. intros H E. apply H. apply status_bad_iff. left. exact E. Qed.

Lemma same_handle_eq a b : same_handle a b = true <-> nd_id a = nd_id b /\ nd_addr a = nd_addr b.
Proof. unfold same_handle. rewrite andb_true_iff, N.eqb_eq, addr_eqb_eq. tauto. Qed.

Lemma status_eqb_eq a b : status_eqb a b = true <-> a = b.
Proof. destruct a, b; cbn; split; intros H; try reflexivity; try discriminate. Qed.

Lemma node_update_handle now self other : same_handle other self = true ->
  nd_id (node_update now self other) = nd_id self /\ nd_addr (node_update now self other) = nd_addr self.
Proof.
  intros H. apply same_handle_eq in H as [H1 H2]. unfold node_update.
  destruct (node_status now self), (node_status now other); cbn; auto.
Qed.

Lemma node_update_real now self other : node_status now other <> Bad -> real (node_update now self other).
Proof.
  intros H. pose proof (not_bad_real _ _ H) as Ro. unfold node_update.
  destruct (node_status now self) eqn:Es, (node_status now other) eqn:Eo; try contradiction; try exact Ro;
    try (apply (not_bad_real now); rewrite Es; discriminate);
    try (unfold real; cbn; exact Ro).
Qed.

(* an offer (responder = as_good, hearsay = as_questionable) never lowers the standing of the
   contact it updates *)
Lemma offer_status now id a (good : bool) :
  node_status now (if good then as_good id a now else as_questionable id a now) = (if good then Good else Questionable).
Proof. destruct good; [apply as_good_status | apply as_questionable_status; lia]. Qed.

Lemma node_update_offer_status now self id a (good : bool) :
  let new := if good then as_good id a now else as_questionable id a now in
  (status_rank (node_status now self) <= status_rank (node_status now (node_update now self new)))%nat.
Proof.
  cbn zeta. destruct good.
  - rewrite update_good_status. destruct (node_status now self); cbn; lia.
  - unfold node_update. rewrite (as_questionable_status id a now now) by lia.
    destruct (node_status now self) eqn:Es; rewrite ?Es; cbn; try lia;
      try (rewrite (as_questionable_status id a now now) by lia; cbn; lia).
Qed.

(* ------------------------------------------------------------------ Bucket::add_node *)
Inductive BAdd (now : Z) (b : bucket) (new : node) : bool -> bucket -> Prop :=
| BA_bad : node_status now new = Bad -> BAdd now b new true b
| BA_upd i old : node_status now new <> Bad -> nth_error b i = Some old -> same_handle new old = true ->
    BAdd now b new true (set_nth i (node_update now old new) b)
| BA_free i old : node_status now new <> Bad -> (forall x, In x b -> same_handle new x = false) ->
    nth_error b i = Some old -> node_status now old = Bad ->
    BAdd now b new true (set_nth i new b)
| BA_worse i old : node_status now new <> Bad -> (forall x, In x b -> same_handle new x = false) ->
    (forall x, In x b -> node_status now x <> Bad) ->
    nth_error b i = Some old -> status_ltb (node_status now old) (node_status now new) = true ->
    BAdd now b new true (set_nth i new b)
| BA_full : node_status now new <> Bad -> (forall x, In x b -> same_handle new x = false) ->
    (forall x, In x b -> node_status now x <> Bad /\ status_ltb (node_status now x) (node_status now new) = false) ->
    BAdd now b new false b.

Lemma bucket_add_spec now b new : BAdd now b new (fst (bucket_add now b new)) (snd (bucket_add now b new)).
Proof.
  unfold bucket_add.
  destruct (status_eqb (node_status now new) Bad) eqn:Eb.
  - apply status_eqb_eq in Eb. cbn. apply BA_bad, Eb.
  - assert (Hnb : node_status now new <> Bad) by (intros E; rewrite E in Eb; discriminate).
    destruct (position (same_handle new) b) as [i|] eqn:Ep.
    + destruct (position_some _ _ _ dummy_node Ep) as [A1 [A2 A3]]. cbn. eapply BA_upd; eassumption.
    + pose proof (position_none _ _ Ep) as Hno.
      destruct (position (fun n => status_eqb (node_status now n) Bad) b) as [i|] eqn:Ef.
      * destruct (position_some _ _ _ dummy_node Ef) as [A1 [A2 A3]]. apply status_eqb_eq in A2. cbn.
        eapply BA_free; eassumption.
      * pose proof (position_none _ _ Ef) as Hnf.
        assert (Hnf' : forall x, In x b -> node_status now x <> Bad).
        { intros x Hx E. specialize (Hnf x Hx). cbn in Hnf. rewrite E in Hnf. discriminate. }
        destruct (position (fun n => status_ltb (node_status now n) (node_status now new)) b) as [i|] eqn:Ew.
        -- destruct (position_some _ _ _ dummy_node Ew) as [A1 [A2 A3]]. cbn. eapply BA_worse; eassumption.
        -- pose proof (position_none _ _ Ew) as Hnw. cbn. apply BA_full; try assumption.
           intros x Hx. split; [apply Hnf', Hx | apply (Hnw x Hx)].
Qed.

(* ------------------------------------------------------------------ the bucket transition laws *)
(* every slot but (at most) one is untouched *)
Lemma badd_one_slot now b new ok b' : BAdd now b new ok b' ->
  b' = b \/ exists i x, b' = set_nth i x b /\ (i < length b)%nat.
Proof.
  intros H. inversion H; subst; try (left; reflexivity);
    right; exists i; eexists; (split; [reflexivity|]); apply nth_error_Some; congruence.
Qed.

Lemma badd_length now b new ok b' : BAdd now b new ok b' -> length b' = length b.
Proof. intros H. inversion H; subst; rewrite ?set_nth_length; reflexivity. Qed.

(* the node that leaves (if any) was bad, or the bucket had no bad slot and it was strictly worse *)
Lemma badd_evicts_only_worse now b new ok b' k old :
  BAdd now b new ok b' -> nth_error b k = Some old -> node_status now old <> Bad ->
  (exists x, nth_error b' k = Some x /\ nd_id x = nd_id old /\ nd_addr x = nd_addr old)
  \/ ((forall x, In x b -> node_status now x <> Bad) /\
      status_ltb (node_status now old) (node_status now new) = true /\
      nth_error b' k = Some new).
Proof.
  intros H Hk Hold.
  assert (Keep : forall i x, k <> i -> exists y, nth_error (set_nth i x b) k = Some y /\ nd_id y = nd_id old /\ nd_addr y = nd_addr old).
  { intros i x Hne. exists old. rewrite nth_error_set_nth. destruct (Nat.eqb_spec k i); [contradiction|]. auto. }
  assert (Hit : forall i x o, nth_error b i = Some o -> nth_error (set_nth i x b) i = Some x).
  { intros i x o Hi. rewrite nth_error_set_nth, Nat.eqb_refl.
    assert (i < length b)%nat by (apply nth_error_Some; congruence).
    destruct (Nat.ltb_spec i (length b)); [reflexivity | lia]. }
  inversion H; subst.
  - left. exists old. auto.
  - destruct (Nat.eq_dec k i) as [->|Hne]; [|left; apply Keep, Hne].
    left. eexists. split; [eapply Hit; eassumption|].
    match goal with Hn : nth_error b i = Some ?o |- _ => rewrite Hn in Hk; inversion Hk; subst end.
    apply node_update_handle. assumption.
  - destruct (Nat.eq_dec k i) as [->|Hne]; [|left; apply Keep, Hne].
    match goal with Hn : nth_error b i = Some ?o |- _ => rewrite Hn in Hk; inversion Hk; subst end. contradiction.
  - destruct (Nat.eq_dec k i) as [->|Hne]; [|left; apply Keep, Hne].
    match goal with Hn : nth_error b i = Some ?o |- _ => rewrite Hn in Hk; inversion Hk; subst end.
    right. split; [assumption|]. split; [assumption|]. eapply Hit; eassumption.
  - left. exists old. auto.
Qed.

(* a bucket whose live nodes are all good and full rejects a newcomer unchanged *)
Lemma badd_full_good_rejects now b new :
  node_status now new <> Bad -> (forall x, In x b -> same_handle new x = false) ->
  (forall x, In x b -> node_status now x = Good) ->
  bucket_add now b new = (false, b).
Proof.
  intros Hn Hs Hg. pose proof (bucket_add_spec now b new) as H.
  destruct (bucket_add now b new) as [ok b'] eqn:E. cbn [fst snd] in H.
  inversion H; subst; try contradiction; try reflexivity;
    match goal with Hn : nth_error b _ = Some ?old |- _ => pose proof (nth_error_In _ _ Hn) as Hin end.
  - match goal with Hsh : same_handle new _ = true |- _ => rewrite (Hs _ Hin) in Hsh; discriminate end.
  - match goal with Hb : node_status now _ = Bad |- _ => rewrite (Hg _ Hin) in Hb; discriminate end.
  - match goal with Hl : status_ltb _ _ = true |- _ => rewrite (Hg _ Hin) in Hl; destruct (node_status now new); discriminate end.
Qed.

(* room (a bad slot) or a strictly worse node: the newcomer is accepted with its own data *)
Lemma badd_accepts now b new :
  node_status now new <> Bad -> (forall x, In x b -> same_handle new x = false) ->
  (exists x, In x b /\ status_ltb (node_status now x) (node_status now new) = true) ->
  fst (bucket_add now b new) = true /\ In new (snd (bucket_add now b new)).
Proof.
  intros Hn Hs [x [Hx Hlt]]. pose proof (bucket_add_spec now b new) as H.
  destruct (bucket_add now b new) as [ok b'] eqn:E. cbn [fst snd] in *.
  assert (Hin : forall i old, nth_error b i = Some old -> In new (set_nth i new b)).
  { intros i old Hi. assert (Hl : (i < length b)%nat) by (apply nth_error_Some; congruence).
    apply (nth_error_In _ i). rewrite nth_error_set_nth, Nat.eqb_refl.
    destruct (Nat.ltb_spec i (length b)); [reflexivity | lia]. }
  inversion H; subst; try contradiction.
  - match goal with Hn : nth_error _ _ = Some _, Hsh : same_handle new _ = true |- _ =>
      rewrite (Hs _ (nth_error_In _ _ Hn)) in Hsh; discriminate end.
  - split; [reflexivity | eapply Hin; eassumption].
  - split; [reflexivity | eapply Hin; eassumption].
  - match goal with Hf : forall x, In x _ -> _ /\ _ |- _ => destruct (Hf x Hx) as [_ Hf2]; rewrite Hf2 in Hlt; discriminate end.
Qed.

(* ------------------------------------------------------------------ the table invariant *)
Definition dummy_addr : addr := mkAddr false 2130706433 0.

Definition placed_at (local : N) (rts : list addr) (len i : nat) (n : node) : Prop :=
  nd_id n <> local /\ existsb (addr_eqb (nd_addr n)) rts = false /\ nd_addr n <> dummy_addr /\
  (if Nat.ltb i (len - 1) then lcp local (nd_id n) = i else (len - 1 <= lcp local (nd_id n))%nat).

Definition bnodup (b : bucket) : Prop :=
  forall k1 k2 n1 n2, nth_error b k1 = Some n1 -> nth_error b k2 = Some n2 ->
    real n1 -> real n2 -> same_handle n1 n2 = true -> k1 = k2.

Record TInv (t : table) : Prop := {
  ti_len1 : (1 <= length (buckets t))%nat;
  ti_len2 : (length (buckets t) <= 160)%nat;
  ti_size : forall b, In b (buckets t) -> length b = 8%nat;
  ti_slots : forall b n, In b (buckets t) -> In n b -> real n \/ n = dummy_node;
  ti_placed : forall i b n, nth_error (buckets t) i = Some b -> In n b -> real n ->
                placed_at (local_id t) (routers t) (length (buckets t)) i n;
  ti_nodup : forall b, In b (buckets t) -> bnodup b
}.

Lemma dummy_not_real : ~ real dummy_node.
Proof. unfold real, dummy_node, as_bad. cbn. intros H. apply H. reflexivity. Qed.

Lemma new_bucket_all_dummy n : In n new_bucket -> n = dummy_node.
Proof. unfold new_bucket. intros H. apply repeat_spec in H. exact H. Qed.

Lemma new_bucket_length : length new_bucket = 8%nat.
Proof. reflexivity. Qed.

Lemma TInv_new id : TInv (new_table id).
Proof.
  constructor; cbn.
  - lia.
  - lia.
  - intros b [<-|[]]. reflexivity.
  - intros b n [<-|[]] Hn. right. apply new_bucket_all_dummy, Hn.
  - intros i b n Hi Hn Hr. destruct i as [|i]; cbn in Hi; [|destruct i; discriminate].
    inversion Hi; subst. apply new_bucket_all_dummy in Hn. subst. exfalso. apply dummy_not_real, Hr.
  - intros b [<-|[]] k1 k2 n1 n2 H1 H2 R1. apply nth_error_In, new_bucket_all_dummy in H1. subst.
    exfalso. apply dummy_not_real, R1.
Qed.

(* members of the bucket after an add *)
Lemma badd_members now b new ok b' x : BAdd now b new ok b' -> In x b' ->
  In x b \/ (real x /\ nd_id x = nd_id new /\ nd_addr x = nd_addr new).
Proof.
  intros H Hx. inversion H; subst; try (left; exact Hx);
    apply in_set_nth in Hx as [->|Hx]; try (left; exact Hx); right.
  - split; [apply node_update_real; assumption|].
    match goal with Hs : same_handle new _ = true |- _ =>
      destruct (node_update_handle now old new Hs) as [E1 E2]; apply same_handle_eq in Hs as [E3 E4] end.
    split; congruence.
  - split; [eapply not_bad_real; eassumption | auto].
  - split; [eapply not_bad_real; eassumption | auto].
Qed.

Lemma badd_bnodup now b new ok b' : BAdd now b new ok b' -> bnodup b ->
  (forall x, In x b -> real x \/ x = dummy_node) -> nd_addr new <> dummy_addr -> bnodup b'.
Proof.
  intros H Hb Hsl Hna. inversion H; subst; try exact Hb.
  - (* update in place: the handle of slot i is unchanged *)
    match goal with Hs : same_handle new _ = true, Hn : nth_error b i = Some _ |- _ =>
      rename Hs into Hsh; rename Hn into Hi end.
    destruct (node_update_handle now old new Hsh) as [E1 E2].
    assert (Rold : real old).
    { destruct (Hsl old (nth_error_In _ _ Hi)) as [R|Ed]; [exact R|]. subst old.
      apply same_handle_eq in Hsh as [_ E]. exfalso. apply Hna. rewrite E. reflexivity. }
    assert (Hil : (i < length b)%nat) by (apply nth_error_Some; congruence).
    intros k1 k2 n1 n2 Hk1 Hk2 R1 R2 S12.
    rewrite nth_error_set_nth in Hk1, Hk2.
    destruct (Nat.ltb_spec i (length b)); [|lia]. rewrite andb_true_r in Hk1, Hk2.
    destruct (Nat.eqb_spec k1 i) as [->|N1]; destruct (Nat.eqb_spec k2 i) as [->|N2]; try reflexivity.
    + inversion Hk1; subst. symmetry. apply (Hb k2 i n2 old Hk2 Hi R2 Rold).
      apply same_handle_eq. apply same_handle_eq in S12 as [A1 A2]. split; congruence.
    + inversion Hk2; subst. apply (Hb k1 i n1 old Hk1 Hi R1 Rold).
      apply same_handle_eq. apply same_handle_eq in S12 as [A1 A2]. split; congruence.
    + apply (Hb k1 k2 n1 n2); assumption.
  - (* the newcomer replaces a bad slot: nobody in b has its handle *)
    match goal with Hn : nth_error b i = Some _ |- _ => rename Hn into Hi end.
    assert (Hil : (i < length b)%nat) by (apply nth_error_Some; congruence).
    intros k1 k2 n1 n2 Hk1 Hk2 R1 R2 S12.
    rewrite nth_error_set_nth in Hk1, Hk2.
    destruct (Nat.ltb_spec i (length b)); [|lia]. rewrite andb_true_r in Hk1, Hk2.
    destruct (Nat.eqb_spec k1 i) as [->|N1]; destruct (Nat.eqb_spec k2 i) as [->|N2]; try reflexivity.
    + inversion Hk1; subst. match goal with Hs : forall x, In x b -> same_handle n1 x = false |- _ =>
        rewrite (Hs _ (nth_error_In _ _ Hk2)) in S12 end. discriminate.
    + inversion Hk2; subst. match goal with Hs : forall x, In x b -> same_handle n2 x = false |- _ =>
        pose proof (Hs _ (nth_error_In _ _ Hk1)) as Hf end.
      assert (same_handle n2 n1 = true) by (apply same_handle_eq; apply same_handle_eq in S12 as [A1 A2]; split; congruence).
      congruence.
    + apply (Hb k1 k2 n1 n2); assumption.
  - match goal with Hn : nth_error b i = Some _ |- _ => rename Hn into Hi end.
    assert (Hil : (i < length b)%nat) by (apply nth_error_Some; congruence).
    intros k1 k2 n1 n2 Hk1 Hk2 R1 R2 S12.
    rewrite nth_error_set_nth in Hk1, Hk2.
    destruct (Nat.ltb_spec i (length b)); [|lia]. rewrite andb_true_r in Hk1, Hk2.
    destruct (Nat.eqb_spec k1 i) as [->|N1]; destruct (Nat.eqb_spec k2 i) as [->|N2]; try reflexivity.
    + inversion Hk1; subst. match goal with Hs : forall x, In x b -> same_handle n1 x = false |- _ =>
        rewrite (Hs _ (nth_error_In _ _ Hk2)) in S12 end. discriminate.
    + inversion Hk2; subst. match goal with Hs : forall x, In x b -> same_handle n2 x = false |- _ =>
        pose proof (Hs _ (nth_error_In _ _ Hk1)) as Hf end.
      assert (same_handle n2 n1 = true) by (apply same_handle_eq; apply same_handle_eq in S12 as [A1 A2]; split; congruence).
      congruence.
    + apply (Hb k1 k2 n1 n2); assumption.
Qed.

(* ------------------------------------------------------------------ table-level preservation *)
Lemma nth_error_set_nth_cases {A} (l : list A) i x k y :
  nth_error (set_nth i x l) k = Some y -> (k = i /\ y = x) \/ nth_error l k = Some y.
Proof.
  rewrite nth_error_set_nth. destruct (Nat.eqb_spec k i) as [->|]; cbn [andb];
    [destruct (Nat.ltb i (length l)); [intros H; inversion H; left; auto | right; assumption] | right; assumption].
Qed.

Lemma removelast_nth_error {A} (l : list A) : forall i b,
  nth_error (removelast l) i = Some b -> nth_error l i = Some b /\ (i < length l - 1)%nat.
Proof.
  induction l as [|x l IH]; intros i b H; [destruct i; discriminate|].
  destruct l as [|y l]; [destruct i; discriminate|].
  change (removelast (x :: y :: l)) with (x :: removelast (y :: l)) in H.
  destruct i as [|i]; cbn [nth_error] in *.
  - split; [exact H | cbn; lia].
  - destruct (IH i b H) as [A1 A2]. split; [exact A1 | cbn in *; lia].
Qed.

Lemma removelast_length {A} (l : list A) : length (removelast l) = (length l - 1)%nat.
Proof.
  induction l as [|x l IH]; [reflexivity|]. destruct l as [|y l]; [reflexivity|].
  change (removelast (x :: y :: l)) with (x :: removelast (y :: l)). cbn [length] in *. lia.
Qed.

Lemma TInv_set_bucket now t idx n ok b' :
  TInv t -> (idx < length (buckets t))%nat ->
  BAdd now (nth idx (buckets t) new_bucket) n ok b' ->
  placed_at (local_id t) (routers t) (length (buckets t)) idx n ->
  TInv (mkTable (set_nth idx b' (buckets t)) (local_id t) (routers t)).
Proof.
  intros I Hidx HB Hp. set (old := nth idx (buckets t) new_bucket) in *.
  assert (Hold : nth_error (buckets t) idx = Some old) by (apply nth_error_nth'; exact Hidx).
  pose proof (nth_error_In _ _ Hold) as Hoin.
  assert (Hna : nd_addr n <> dummy_addr) by (destruct Hp as [_ [_ [H _]]]; exact H).
  destruct I as [L1 L2 SZ SL PL ND].
  constructor; cbn [buckets local_id routers]; rewrite ?set_nth_length; try assumption.
  - intros b Hb. apply in_set_nth in Hb as [->|Hb]; [|apply SZ, Hb].
    rewrite (badd_length _ _ _ _ _ HB). apply SZ, Hoin.
  - intros b x Hb Hx. apply in_set_nth in Hb as [->|Hb]; [|eapply SL; eassumption].
    destruct (badd_members _ _ _ _ _ x HB Hx) as [Hin|[R _]]; [eapply SL; eassumption | left; exact R].
  - intros i b x Hi Hx Rx. apply nth_error_set_nth_cases in Hi as [[-> ->]|Hi]; [|eapply PL; eassumption].
    destruct (badd_members _ _ _ _ _ x HB Hx) as [Hin|[_ [E1 E2]]]; [eapply PL; eassumption|].
    unfold placed_at in *. rewrite E1, E2. exact Hp.
  - intros b Hb. apply in_set_nth in Hb as [->|Hb]; [|apply ND, Hb].
    eapply badd_bnodup; [exact HB | apply ND, Hoin | intros x Hx; eapply SL; eassumption | exact Hna].
Qed.

Lemma TInv_split t : TInv t -> (length (buckets t) <= 159)%nat ->
  TInv (mkTable (removelast (buckets t) ++ [new_bucket; new_bucket]) (local_id t) (routers t)).
Proof.
  intros [L1 L2 SZ SL PL ND] Hlen.
  assert (Hin : forall b, In b (removelast (buckets t) ++ [new_bucket; new_bucket]) -> In b (buckets t) \/ b = new_bucket).
  { intros b Hb. apply in_app_or in Hb as [Hb|[<-|[<-|[]]]]; auto.
    left. apply In_nth_error in Hb as [i Hi]. apply removelast_nth_error in Hi as [Hi _]. eapply nth_error_In, Hi. }
  constructor; cbn [buckets local_id routers]; rewrite ?app_length, ?removelast_length; cbn [length]; try lia.
  - intros b Hb. destruct (Hin b Hb) as [H| ->]; [apply SZ, H | reflexivity].
  - intros b x Hb Hx. destruct (Hin b Hb) as [H| ->]; [eapply SL; eassumption | right; apply new_bucket_all_dummy, Hx].
  - intros i b x Hi Hx Rx.
    destruct (Nat.lt_ge_cases i (length (buckets t) - 1)) as [Hlt|Hge].
    + rewrite nth_error_app1 in Hi by (rewrite removelast_length; exact Hlt).
      apply removelast_nth_error in Hi as [Hi _].
      specialize (PL i b x Hi Hx Rx). unfold placed_at in *.
      destruct PL as [A1 [A2 [A3 A4]]]. repeat split; try assumption.
      destruct (Nat.ltb_spec i (length (buckets t) - 1)); [|lia].
      destruct (Nat.ltb_spec i (length (buckets t) - 1 + 2 - 1)); [exact A4 | lia].
    + rewrite nth_error_app2 in Hi by (rewrite removelast_length; exact Hge).
      assert (b = new_bucket).
      { destruct (i - length (removelast (buckets t)))%nat as [|[|k]]; cbn in Hi; try (inversion Hi; reflexivity).
        destruct k; discriminate. }
      subst b. apply new_bucket_all_dummy in Hx. subst. exfalso. apply dummy_not_real, Rx.
  - intros b Hb. destruct (Hin b Hb) as [H| ->]; [apply ND, H|].
    intros k1 k2 n1 n2 H1 _ R1. apply nth_error_In, new_bucket_all_dummy in H1. subst. exfalso. apply dummy_not_real, R1.
Qed.

Definition same_meta (t t' : table) : Prop := local_id t' = local_id t /\ routers t' = routers t.

Lemma bucket_placement_lt same len : (1 <= len)%nat -> (bucket_placement same len < len)%nat.
Proof. intros H. unfold bucket_placement. destruct (Nat.leb_spec len same); lia. Qed.

Lemma placement_placed local rts len n :
  (1 <= len)%nat -> nd_id n <> local -> existsb (addr_eqb (nd_addr n)) rts = false -> nd_addr n <> dummy_addr ->
  placed_at local rts len (bucket_placement (lcp local (nd_id n)) len) n.
Proof.
  intros Hl H1 H2 H3. unfold placed_at. repeat split; try assumption.
  unfold bucket_placement. destruct (Nat.leb_spec len (lcp local (nd_id n))) as [L|L].
  - destruct (Nat.ltb_spec (len - 1) (len - 1)); lia.
  - destruct (Nat.ltb_spec (lcp local (nd_id n)) (len - 1)); lia.
Qed.

(* the mutual recursion add_node / bucket_node / split_bucket preserves the invariant *)
Lemma add_preserves now : forall fuel,
  (forall t n, TInv t -> (nd_addr n <> dummy_addr \/ node_status now n = Bad) ->
     TInv (add_node_f bucket_add fuel now t n) /\ same_meta t (add_node_f bucket_add fuel now t n)) /\
  (forall t n same, TInv t -> nd_addr n <> dummy_addr -> same = lcp (local_id t) (nd_id n) ->
     same <> 160%nat -> existsb (addr_eqb (nd_addr n)) (routers t) = false ->
     TInv (bucket_node_f bucket_add fuel now t n same) /\ same_meta t (bucket_node_f bucket_add fuel now t n same)).
Proof.
  induction fuel as [|f [IHa IHb]].
  - split; intros; cbn; (split; [assumption | split; reflexivity]).
  - split.
    + intros t n I Hn. cbn [add_node_f].
      destruct (existsb (addr_eqb (nd_addr n)) (routers t)) eqn:Er; [split; [exact I | split; reflexivity]|].
      destruct (status_eqb (node_status now n) Bad) eqn:Eb; [split; [exact I | split; reflexivity]|].
      rewrite max_buckets_val.
      destruct (Nat.eqb_spec (lcp (local_id t) (nd_id n)) 160) as [E|E]; [split; [exact I | split; reflexivity]|].
      assert (Hna : nd_addr n <> dummy_addr).
      { destruct Hn as [H|H]; [exact H|]. rewrite H in Eb. discriminate. }
      apply IHb; auto.
    + intros t n same I Hna Hsame Hne Hr. cbn [bucket_node_f].
      set (idx := bucket_placement same (length (buckets t))).
      assert (Hidx : (idx < length (buckets t))%nat) by (apply bucket_placement_lt, (ti_len1 _ I)).
      pose proof (bucket_add_spec now (nth idx (buckets t) new_bucket) n) as HB.
      destruct (bucket_add now (nth idx (buckets t) new_bucket) n) as [ok b'] eqn:Eadd. cbn [fst snd] in HB.
      assert (Hid : nd_id n <> local_id t).
      { intros E. apply Hne. rewrite Hsame, E. unfold lcp. rewrite N.lxor_nilpotent, max_buckets_val. reflexivity. }
      assert (Hp : placed_at (local_id t) (routers t) (length (buckets t)) idx n).
      { unfold idx. rewrite Hsame. apply placement_placed; try assumption. apply (ti_len1 _ I). }
      destruct ok.
      * split; [eapply TInv_set_bucket; eassumption | split; reflexivity].
      * destruct (can_split (length (buckets t)) idx) eqn:Ec; [|split; [exact I | split; reflexivity]].
        unfold can_split in Ec. apply andb_true_iff in Ec as [Ec1 Ec2].
        apply Nat.eqb_eq in Ec1. apply negb_true_iff in Ec2. apply Nat.eqb_neq in Ec2. rewrite max_buckets_val in Ec2.
        set (t0 := mkTable (removelast (buckets t) ++ [new_bucket; new_bucket]) (local_id t) (routers t)).
        pose proof (ti_len2 _ I) as Hl2. pose proof (ti_len1 _ I) as Hl1.
        assert (I0 : TInv t0) by (apply TInv_split; [exact I | lia]).
        set (old := nth idx (buckets t) new_bucket).
        assert (Hold : forall m, In m old -> nd_addr m <> dummy_addr \/ node_status now m = Bad).
        { intros m Hm. assert (Hob : nth_error (buckets t) idx = Some old) by (apply nth_error_nth'; exact Hidx).
          destruct (ti_slots _ I old m (nth_error_In _ _ Hob) Hm) as [R| ->].
          - left. destruct (ti_placed _ I idx old m Hob Hm R) as [_ [_ [H _]]]. exact H.
          - right. reflexivity. }
        assert (Hfold : forall l tt, TInv tt -> same_meta t0 tt -> (forall m, In m l -> nd_addr m <> dummy_addr \/ node_status now m = Bad) ->
                  TInv (fold_left (fun tt m => add_node_f bucket_add f now tt m) l tt) /\
                  same_meta t0 (fold_left (fun tt m => add_node_f bucket_add f now tt m) l tt)).
        { induction l as [|m l IHl]; intros tt It Mt Hl; [split; assumption|]. cbn [fold_left].
          destruct (IHa tt m It (Hl m (or_introl eq_refl))) as [I1 [M1 M2]].
          apply IHl; [exact I1 | destruct Mt as [Mt1 Mt2]; split; congruence | intros x Hx; apply Hl; right; exact Hx]. }
        destruct (Hfold old t0 I0 (conj eq_refl eq_refl) Hold) as [I1 [M1 M2]].
        set (t1 := fold_left (fun tt m => add_node_f bucket_add f now tt m) old t0) in *.
        unfold t0 in M1, M2. cbn [local_id routers] in M1, M2.
        destruct (IHb t1 n same I1 Hna ltac:(rewrite M1; exact Hsame) Hne ltac:(rewrite M2; exact Hr)) as [I2 [N1 N2]].
        split; [exact I2|]. change (same_meta t (bucket_node_f bucket_add f now t1 n same)). split; congruence.
Qed.

Theorem add_node_inv now t n : TInv t -> nd_addr n <> dummy_addr ->
  TInv (add_node now t n) /\ same_meta t (add_node now t n).
Proof. intros I H. apply (proj1 (add_preserves now table_fuel)); [exact I | left; exact H]. Qed.

