(* The C08 checker (run/Run_TableCheck.v, c08_ok) never raises an alarm on the observations
   the table model itself produces. *)
From BT Require Import model.Prelude model.Table gen.Consts proofs.Prelude_Facts proofs.Table_Facts proofs.TableInv_Facts proofs.TableOps_Facts proofs.Closest_Facts proofs.AddNode_Spec proofs.Checker_Table_Base proofs.Checker_Table_Sound run.Run_Table run.Run_TableCheck.
From Coq Require Import ZifyBool ZifyN ZifyNat Permutation.
Open Scope Z_scope.

(* ------------------------------------------------------------------ generic list helpers *)
Lemma forallb_combine_seq_intro {A} (f : nat * A -> bool) (d : list A) : forall a,
  (forall i b, nth_error d i = Some b -> f ((a + i)%nat, b) = true) ->
  forallb f (combine (seq a (length d)) d) = true.
Proof.
  induction d as [|x d IH]; intros a H; [reflexivity|].
  cbn [length seq combine forallb]. apply andb_true_iff. split.
  - specialize (H 0%nat x eq_refl). rewrite Nat.add_0_r in H. exact H.
  - apply IH. intros i b Hi. replace (S a + i)%nat with (a + S i)%nat by lia. apply H. exact Hi.
Qed.

Lemma nth_error_map_inv {A B} (f : A -> B) : forall l i y,
  nth_error (map f l) i = Some y -> exists x, nth_error l i = Some x /\ y = f x.
Proof.
  induction l as [|x l IH]; intros i y H; [destruct i; discriminate|].
  destruct i as [|i]; cbn [map nth_error] in H.
  - inversion H. exists x. split; reflexivity.
  - apply IH, H.
Qed.

Lemma nodup_inj {A B} (f : A -> B) : forall l x y, NoDup (map f l) -> In x l -> In y l -> f x = f y -> x = y.
Proof.
  induction l as [|a l IH]; intros x y ND Hx Hy E; [destruct Hx|].
  cbn [map] in ND. inversion ND as [|? ? Hn ND']; subst.
  destruct Hx as [Hx|Hx]; destruct Hy as [Hy|Hy].
  - congruence.
  - exfalso. apply Hn. subst a. rewrite E. apply in_map, Hy.
  - exfalso. apply Hn. subst a. rewrite <- E. apply in_map, Hx.
  - apply IH; assumption.
Qed.

Lemma filter_nil {A} (p : A -> bool) l : (forall x, In x l -> p x = false) -> filter p l = [].
Proof.
  induction l as [|a l IH]; intros H; cbn [filter]; [reflexivity|].
  rewrite (H a (or_introl eq_refl)). apply IH. intros y Hy. apply H. right. exact Hy.
Qed.

Lemma filter_le1 {A B} (g : A -> B) (p : A -> bool) (c : B) : forall l,
  NoDup (map g l) -> (forall s, In s (filter p l) -> g s = c) -> (length (filter p l) <= 1)%nat.
Proof.
  induction l as [|x l IH]; intros ND H; [cbn; lia|].
  cbn [map] in ND. inversion ND as [|? ? Hn ND']; subst.
  cbn [filter] in *. destruct (p x) eqn:E.
  - assert (El : filter p l = []).
    { destruct (filter p l) as [|s q] eqn:Ef; [reflexivity|]. exfalso. apply Hn.
      assert (Hs : In s (filter p l)) by (rewrite Ef; left; reflexivity).
      rewrite (H x (or_introl eq_refl)), <- (H s (or_intror (or_introl eq_refl))).
      apply in_map. apply filter_In in Hs. apply Hs. }
    rewrite El. cbn. lia.
  - apply IH; assumption.
Qed.

Lemma existsb_false_all {A} (f : A -> bool) l : existsb f l = false -> forall x, In x l -> f x = false.
Proof.
  intros H x Hx. apply not_true_iff_false. intros E.
  assert (X : existsb f l = true) by (apply existsb_exists; exists x; split; assumption). congruence.
Qed.

Lemma find_unique q : forall l s, NoDup (map hd_s l) -> In s l -> same_h q s = true ->
  List.find (same_h q) l = Some s.
Proof.
  intros l s ND Hs Hq. destruct (List.find (same_h q) l) as [s'|] eqn:E.
  - apply find_some in E as [Hs' Hq']. f_equal. apply (nodup_inj hd_s l); try assumption.
    apply same_h_eq in Hq, Hq'. congruence.
  - pose proof (find_none _ _ E s Hs). congruence.
Qed.

Lemma nth_error_fun {A} (l : list A) i x y : nth_error l i = Some x -> nth_error l i = Some y -> x = y.
Proof. intros H1 H2. rewrite H1 in H2. inversion H2. reflexivity. Qed.

(* ------------------------------------------------------------------ STAGE 1: the shape of one dump *)
Lemma dump_length now t : length (dump_of now t) = length (buckets t).
Proof. unfold dump_of. apply map_length. Qed.

Theorem c08_shape_model now t : TInv t -> c08_shape (local_id t) (routers t) (dump_of now t) = true.
Proof.
  intros I. unfold c08_shape. cbv zeta.
  pose proof (ti_len1 _ I) as L1. pose proof (ti_len2 _ I) as L2.
  repeat (apply andb_true_iff; split).
  - apply Nat.leb_le. rewrite dump_length. exact L1.
  - apply Nat.leb_le. rewrite dump_length. exact L2.
  - apply forallb_forall. intros b Hb. apply Nat.eqb_eq. unfold dump_of in Hb.
    apply in_map_iff in Hb as [bk [<- Hbk]]. rewrite map_length. apply (ti_size _ I), Hbk.
  - apply nodup_h_NoDup. rewrite live_hd_dump. exact (live_handles_nodup now t I).
  - apply forallb_combine_seq_intro. intros i b Hi. cbn [Nat.add fst snd]. rewrite dump_length.
    unfold dump_of in Hi. apply nth_error_map_inv in Hi as [bk [Hbk ->]].
    apply forallb_forall. intros s Hs. apply in_map_iff in Hs as [x [<- Hx]].
    rewrite is_live_slot_of. destruct (is_pingable now x) eqn:Hp; [|reflexivity]. cbn [negb orb].
    rewrite (slot_of_live _ _ Hp). unfold id_of, addr_of. cbn [fst snd].
    destruct (ti_placed _ I i bk x Hbk Hx (live_real now x Hp)) as [P1 [P2 [P3 P4]]].
    apply andb_true_iff; split; [apply andb_true_iff; split|].
    + apply negb_true_iff, N.eqb_neq. exact P1.
    + apply negb_true_iff. exact P2.
    + destruct (Nat.ltb i (length (buckets t) - 1)); [apply Nat.eqb_eq | apply Nat.leb_le]; exact P4.
Qed.

(* ------------------------------------------------------------------ status codes *)
Lemma st_code_lt s1 s2 : status_ltb s1 s2 = true <-> (st_code s1 < st_code s2)%N.
Proof.
  destruct s1, s2; unfold status_ltb; cbn [status_rank st_code Nat.ltb Nat.leb];
    split; intros H; try discriminate H; try lia; try reflexivity.
Qed.

Lemma st_code_le s1 s2 : (status_rank s1 <= status_rank s2)%nat -> (st_code s1 <= st_code s2)%N.
Proof. destruct s1, s2; cbn [status_rank st_code]; lia. Qed.

Lemma st_code_2 s : st_code s = 2%N -> s = Good.
Proof. destruct s; cbn [st_code]; intros H; try reflexivity; lia. Qed.

Lemma lcp_160_iff local id : lcp local id = 160%nat <-> id = local.
Proof.
  split.
  - intros H. destruct (N.eq_dec id local) as [E|E]; [exact E|].
    pose proof (lcp_lt_160 local id ltac:(congruence)). lia.
  - intros ->. unfold lcp. rewrite N.lxor_nilpotent, max_buckets_val. reflexivity.
Qed.

(* ------------------------------------------------------------------ the live slots of a dump *)
Definition SL (now : Z) (t : table) : list slot := map (slot_of now) (live_nodes now t).
Definition lostl (A B : list slot) : list slot := filter (fun s => negb (existsb (same_h s) A)) B.

Lemma live_in now t x : In x (live_nodes now t) <-> tin x t /\ is_pingable now x = true.
Proof. apply live_nodes_in. Qed.

Lemma live_ping now t x : In x (live_nodes now t) -> is_pingable now x = true.
Proof. intros H. apply live_in in H. apply H. Qed.

Lemma in_SL now t s : In s (SL now t) <-> exists x, In x (live_nodes now t) /\ s = slot_of now x.
Proof.
  unfold SL. rewrite in_map_iff. split; intros [x [H1 H2]]; exists x; split; auto.
Qed.

Lemma hd_SL now t : map hd_s (SL now t) = map hd_n (live_nodes now t).
Proof. unfold SL. rewrite <- live_of_dump. apply live_hd_dump. Qed.

Lemma nodup_live now t : TInv t -> NoDup (map hd_n (live_nodes now t)).
Proof. intros I. exact (live_handles_nodup now t I). Qed.

Lemma nodup_SL now t : TInv t -> NoDup (map hd_s (SL now t)).
Proof. intros I. rewrite hd_SL. apply nodup_live, I. Qed.

Lemma in_hd_SL now t h : In h (map hd_s (SL now t)) <-> exists y, In y (live_nodes now t) /\ hd_n y = h.
Proof. rewrite hd_SL, in_map_iff. split; intros [y [H1 H2]]; exists y; auto. Qed.

(* ------------------------------------------------------------------ an unchanged table *)
Lemma c08_offer_same local rts d good id a :
  nodup_h (live_of d) = true ->
  negb (id =? local)%N && negb (existsb (addr_eqb a) rts) = false ->
  c08_offer local rts d d good id a = true.
Proof.
  intros ND Had. apply nodup_h_NoDup in ND.
  unfold c08_offer. cbv zeta. rewrite Had.
  set (B := live_of d) in *.
  assert (El : filter (fun s => negb (existsb (same_h s) B)) B = []).
  { apply filter_nil. intros s Hs. apply negb_false_iff. apply existsb_exists. exists s.
    split; [exact Hs | apply same_h_refl]. }
  rewrite El.
  repeat (apply andb_true_iff; split).
  - reflexivity.
  - reflexivity.
  - reflexivity.
  - apply forallb_forall. intros s Hs. rewrite (find_unique s B s ND Hs (same_h_refl s)).
    rewrite N.eqb_refl. apply orb_true_r.
  - apply forallb_forall. intros s Hs. apply orb_true_iff. right. apply existsb_exists. exists s.
    split; [exact Hs | apply same_h_refl].
  - cbn [orb]. apply dump_eqb_eq. reflexivity.
  - match goal with |- negb ?p || _ = true => destruct p eqn:P end; [|reflexivity].
    apply existsb_exists in P as [s [Hs Sh]]. rewrite (find_unique _ B s ND Hs Sh).
    cbn [negb orb length Nat.eqb andb]. apply N.leb_refl.
  - reflexivity.
  - reflexivity.
Qed.

(* ------------------------------------------------------------------ what add_node does to the live nodes *)
Record OfferCtx (now : Z) (t t' : table) (n : node) : Prop := {
  oc_I : TInv t;
  oc_adm : adm now t n;
  oc_sp : AddSpec now n t t';
  oc_up : forall x, (status_rank (node_status now x) <= status_rank (node_status now (node_update now x n)))%nat
}.

Definition KeepP (now : Z) (t t' : table) (n : node) (ev : option node) : Prop :=
  (forall x, In x (live_nodes now t) -> hd_n x <> hd_n n -> In x (live_nodes now t') \/ ev = Some x) /\
  (forall x0, ev = Some x0 ->
     In x0 (tb t n) /\ (forall z, In z (tb t n) -> node_status now z <> Bad) /\
     status_ltb (node_status now x0) (node_status now n) = true /\
     (forall x, In x (live_nodes now t) -> hd_n x <> hd_n n)).

Lemma keep_fact now t t' n : OfferCtx now t t' n -> exists ev, KeepP now t t' n ev.
Proof.
  intros C. destruct (as_keep _ _ _ _ (oc_sp _ _ _ _ C)) as [ev [K1 K2]]. exists ev. split.
  - intros x Hx Hh. apply live_in in Hx as [Hx Hp].
    assert (S : same_handle n x = false).
    { apply not_true_iff_false. intros S. apply same_handle_hd in S. congruence. }
    destruct (K1 x Hx (notbad_of_pingable _ _ Hp) S) as [H|H].
    + left. apply live_in. split; assumption.
    + right. exact H.
  - intros x0 E. destruct (K2 x0 E) as [H1 [H2 [H3 [_ H5]]]].
    split; [exact H1|]. split; [exact H2|]. split; [exact H3|].
    intros x Hx Hh. apply live_in in Hx as [Hx Hp].
    assert (S : same_handle n x = true) by (apply same_handle_hd; congruence).
    rewrite (H5 x (same_handle_home t n x (oc_I _ _ _ _ C) Hx (live_real now x Hp) S)) in S. discriminate.
Qed.

Lemma upd_fact now t t' n x : OfferCtx now t t' n -> In x (live_nodes now t) -> hd_n x = hd_n n ->
  In (node_update now x n) (live_nodes now t') /\ hd_n (node_update now x n) = hd_n n /\
  (status_rank (node_status now x) <= status_rank (node_status now (node_update now x n)))%nat.
Proof.
  intros C Hx Hh. apply live_in in Hx as [Hx Hp].
  assert (S : same_handle n x = true) by (apply same_handle_hd; congruence).
  pose proof (same_handle_home t n x (oc_I _ _ _ _ C) Hx (live_real now x Hp) S) as Hin.
  pose proof (as_upd _ _ _ _ (oc_sp _ _ _ _ C) x Hin S) as Ht.
  pose proof (oc_up _ _ _ _ C x) as Hr.
  destruct (node_update_handle now x n S) as [E1 E2].
  split; [|split; [|exact Hr]].
  - apply live_in. split; [exact Ht|]. apply pingable_of_notbad. intros Eb. rewrite Eb in Hr.
    apply notbad_of_pingable in Hp. destruct (node_status now x); [contradiction | cbn in Hr; lia | cbn in Hr; lia].
  - unfold hd_n in *. rewrite E1, E2. exact Hh.
Qed.

Lemma mem_fact now t t' n y : OfferCtx now t t' n -> In y (live_nodes now t') ->
  (In y (live_nodes now t) /\ hd_n y <> hd_n n) \/ hd_n y = hd_n n.
Proof.
  intros C Hy. apply live_in in Hy as [Hy Hp].
  destruct (as_members _ _ _ _ (oc_sp _ _ _ _ C) y Hy) as [Ed|[[H1 H2]|[En|[old [Ho [So Eu]]]]]].
  - exfalso. subst y. apply notbad_of_pingable in Hp. apply Hp. reflexivity.
  - left. split; [apply live_in; split; assumption|]. intros E.
    specialize (H2 (live_real now y Hp)).
    assert (S : same_handle n y = true) by (apply same_handle_hd; congruence). congruence.
  - right. subst y. reflexivity.
  - right. subst y. destruct (node_update_handle now old n So) as [E1 E2]. apply same_handle_hd in So.
    unfold hd_n in *. rewrite E1, E2. symmetry. exact So.
Qed.

Lemma lost_char now t t' n ev : OfferCtx now t t' n -> KeepP now t t' n ev ->
  forall s, In s (lostl (SL now t') (SL now t)) ->
  exists x0, ev = Some x0 /\ s = slot_of now x0 /\ In x0 (live_nodes now t).
Proof.
  intros C [K1 K2] s Hs. unfold lostl in Hs. apply in_lost_iff in Hs as [Hs Hn].
  apply in_SL in Hs as [x [Hx ->]]. pose proof (live_ping _ _ _ Hx) as Hp.
  rewrite (hd_slot_of _ _ Hp) in Hn.
  destruct (same_handle n x) eqn:S.
  - exfalso. apply same_handle_hd in S.
    destruct (upd_fact now t t' n x C Hx (eq_sym S)) as [U1 [U2 _]].
    apply Hn. apply in_hd_SL. exists (node_update now x n). split; [exact U1 | congruence].
  - assert (Hne : hd_n x <> hd_n n).
    { intros E. apply not_true_iff_false in S. apply S. apply same_handle_hd. congruence. }
    destruct (K1 x Hx Hne) as [H|H].
    + exfalso. apply Hn. apply in_hd_SL. exists x. split; [exact H | reflexivity].
    + exists x. split; [exact H|]. split; [reflexivity | exact Hx].
Qed.

(* ------------------------------------------------------------------ the clauses of c08_offer, admissible offer *)
Definition new_slot (now : Z) (n : node) : slot := (st_code (node_status now n), nd_id n, nd_addr n).

Lemma hd_new_slot now n : hd_s (new_slot now n) = hd_n n.
Proof. reflexivity. Qed.

Lemma cl1 now t t' n ev : OfferCtx now t t' n -> KeepP now t t' n ev ->
  (length (lostl (SL now t') (SL now t)) <= 1)%nat.
Proof.
  intros C K.
  destruct ev as [x0|].
  - unfold lostl. apply (filter_le1 hd_s _ (hd_n x0)); [apply nodup_SL, (oc_I _ _ _ _ C)|].
    intros s Hs. destruct (lost_char now t t' n _ C K s Hs) as [x1 [E [-> Hx1]]].
    inversion E; subst x1. apply hd_slot_of. eapply live_ping, Hx1.
  - destruct (lostl (SL now t') (SL now t)) as [|s r] eqn:El; [cbn; lia|]. exfalso.
    destruct (lost_char now t t' n _ C K s) as [x1 [E _]]; [rewrite El; left; reflexivity | discriminate].
Qed.

Lemma cl2 now t t' n ev : OfferCtx now t t' n -> KeepP now t t' n ev ->
  forallb (fun s => (st_of s <? st_code (node_status now n))%N) (lostl (SL now t') (SL now t)) = true.
Proof.
  intros C K. apply forallb_forall. intros s Hs.
  destruct (lost_char now t t' n _ C K s Hs) as [x0 [E [-> Hx0]]].
  destruct K as [_ K2]. destruct (K2 x0 E) as [_ [_ [Hlt _]]].
  apply N.ltb_lt. rewrite st_slot_of. apply st_code_lt. exact Hlt.
Qed.

Lemma cl3 now t t' n ev : OfferCtx now t t' n -> KeepP now t t' n ev ->
  forallb (fun s => forallb (fun b => negb (existsb (same_h s) (filter is_live b)) || negb (has_bad b)) (dump_of now t))
          (lostl (SL now t') (SL now t)) = true.
Proof.
  intros C K. pose proof (oc_I _ _ _ _ C) as I. apply forallb_forall. intros s Hs.
  destruct (lost_char now t t' n _ C K s Hs) as [x0 [E [-> Hx0]]].
  destruct K as [_ K2]. destruct (K2 x0 E) as [Hin [Hnb _]].
  apply forallb_forall. intros b Hb. unfold dump_of in Hb. apply in_map_iff in Hb as [bk [<- Hbk]].
  destruct (existsb (same_h (slot_of now x0)) (filter is_live (map (slot_of now) bk))) eqn:Ex; [|reflexivity].
  cbn [negb orb]. apply negb_true_iff.
  apply existsb_exists in Ex as [s' [Hs' Sh]]. apply filter_In in Hs' as [Hs' Hl].
  apply in_map_iff in Hs' as [z [<- Hz]]. rewrite is_live_slot_of in Hl.
  pose proof (live_ping _ _ _ Hx0) as Hp0.
  apply same_h_eq in Sh. rewrite (hd_slot_of _ _ Hl), (hd_slot_of _ _ Hp0) in Sh.
  assert (Ebk : bk = tb t n).
  { apply In_nth_error in Hbk as [j Hj]. apply In_nth_error in Hz as [k Hk].
    apply In_nth_error in Hin as [k0 Hk0].
    pose proof (tb_nth_error t n I) as Htb.
    assert (S : same_handle z x0 = true) by (apply same_handle_hd; congruence).
    destruct (tinv_unique t j k (tidx t n) k0 bk (tb t n) z x0 I Hj Hk Htb Hk0 (live_real now z Hl) (live_real now x0 Hp0) S) as [Ej _].
    subst j. exact (nth_error_fun _ _ _ _ Hj Htb). }
  subst bk. unfold has_bad. apply not_true_iff_false. intros Ex2.
  apply existsb_exists in Ex2 as [s2 [Hs2 Hl2]]. apply in_map_iff in Hs2 as [z2 [<- Hz2]].
  rewrite is_live_slot_of in Hl2. apply negb_true_iff in Hl2. apply is_pingable_false in Hl2.
  exact (Hnb z2 Hz2 Hl2).
Qed.

Lemma cl4 now t t' n : OfferCtx now t t' n ->
  forallb (fun s => same_h s (new_slot now n) ||
                    match List.find (same_h s) (SL now t') with
                    | Some s' => (st_of s' =? st_of s)%N
                    | None => existsb (same_h s) (lostl (SL now t') (SL now t))
                    end) (SL now t) = true.
Proof.
  intros C. pose proof (oc_I _ _ _ _ C) as I. apply forallb_forall. intros s Hs.
  destruct (same_h s (new_slot now n)) eqn:Sn; [reflexivity|]. cbn [orb].
  pose proof Hs as Hs0. apply in_SL in Hs as [x [Hx ->]]. pose proof (live_ping _ _ _ Hx) as Hp.
  assert (Hne : hd_n x <> hd_n n).
  { intros E. apply not_true_iff_false in Sn. apply Sn. apply same_h_eq.
    rewrite (hd_slot_of _ _ Hp), hd_new_slot. exact E. }
  destruct (List.find (same_h (slot_of now x)) (SL now t')) as [s'|] eqn:F.
  - apply find_some in F as [Hs' Sh]. apply in_SL in Hs' as [y [Hy ->]].
    pose proof (live_ping _ _ _ Hy) as Hpy.
    apply same_h_eq in Sh. rewrite (hd_slot_of _ _ Hp), (hd_slot_of _ _ Hpy) in Sh.
    destruct (mem_fact now t t' n y C Hy) as [[Hy' _]|E]; [|congruence].
    assert (Exy : x = y) by (apply (nodup_inj hd_n (live_nodes now t)); [apply nodup_live, I | exact Hx | exact Hy' | exact Sh]).
    subst y. apply N.eqb_refl.
  - apply existsb_exists. exists (slot_of now x). split; [|apply same_h_refl].
    unfold lostl. apply filter_In. split; [exact Hs0|]. apply negb_true_iff. apply not_true_iff_false.
    intros Ex. apply existsb_exists in Ex as [s' [Hs' Sh]]. pose proof (find_none _ _ F s' Hs'). congruence.
Qed.

Lemma cl5 now t t' n : OfferCtx now t t' n ->
  forallb (fun s => same_h s (new_slot now n) || existsb (same_h s) (SL now t)) (SL now t') = true.
Proof.
  intros C. apply forallb_forall. intros s Hs. apply in_SL in Hs as [y [Hy ->]].
  pose proof (live_ping _ _ _ Hy) as Hp. apply orb_true_iff.
  destruct (mem_fact now t t' n y C Hy) as [[Hy' _]|E].
  - right. apply existsb_same_h. rewrite (hd_slot_of _ _ Hp). apply in_hd_SL. exists y. split; [exact Hy' | reflexivity].
  - left. apply same_h_eq. rewrite (hd_slot_of _ _ Hp), hd_new_slot. exact E.
Qed.

Lemma present_inv now t n : existsb (same_h (new_slot now n)) (SL now t) = true ->
  exists x, In x (live_nodes now t) /\ hd_n x = hd_n n.
Proof.
  intros P. apply existsb_same_h in P. rewrite hd_new_slot in P. apply in_hd_SL in P. exact P.
Qed.

Lemma present_intro now t n x : In x (live_nodes now t) -> hd_n x = hd_n n ->
  existsb (same_h (new_slot now n)) (SL now t) = true.
Proof.
  intros Hx E. apply existsb_same_h. rewrite hd_new_slot. apply in_hd_SL. exists x. split; assumption.
Qed.

Lemma cl7 now t t' n ev : OfferCtx now t t' n -> KeepP now t t' n ev ->
  negb (existsb (same_h (new_slot now n)) (SL now t))
  || (Nat.eqb (length (lostl (SL now t') (SL now t))) 0
      && match List.find (same_h (new_slot now n)) (SL now t), List.find (same_h (new_slot now n)) (SL now t') with
         | Some s, Some s' => (st_of s <=? st_of s')%N
         | _, _ => false
         end) = true.
Proof.
  intros C K. pose proof (oc_I _ _ _ _ C) as I. pose proof (as_inv _ _ _ _ (oc_sp _ _ _ _ C)) as I'.
  destruct (existsb (same_h (new_slot now n)) (SL now t)) eqn:P; [|reflexivity]. cbn [negb orb].
  apply present_inv in P as [x [Hx Hh]].
  destruct (upd_fact now t t' n x C Hx Hh) as [U1 [U2 U3]].
  assert (El : lostl (SL now t') (SL now t) = []).
  { destruct (lostl (SL now t') (SL now t)) as [|s r] eqn:El; [reflexivity|]. exfalso.
    destruct (lost_char now t t' n _ C K s) as [x1 [E _]]; [rewrite El; left; reflexivity|].
    destruct K as [_ K2]. destruct (K2 x1 E) as [_ [_ [_ Hno]]]. exact (Hno x Hx Hh). }
  rewrite El. cbn [length Nat.eqb andb].
  rewrite (find_unique (new_slot now n) (SL now t) (slot_of now x)).
  - rewrite (find_unique (new_slot now n) (SL now t') (slot_of now (node_update now x n))).
    + apply N.leb_le. rewrite !st_slot_of. apply st_code_le. exact U3.
    + apply nodup_SL, I'.
    + apply in_SL. exists (node_update now x n). split; [exact U1 | reflexivity].
    + apply same_h_eq. rewrite (hd_slot_of _ _ (live_ping _ _ _ U1)), hd_new_slot. congruence.
  - apply nodup_SL, I.
  - apply in_SL. exists x. split; [exact Hx | reflexivity].
  - apply same_h_eq. rewrite (hd_slot_of _ _ (live_ping _ _ _ Hx)), hd_new_slot. congruence.
Qed.

(* the target bucket, as the checker computes it from the dump *)
Lemma idx_tidx now t n : TInv t ->
  (if Nat.ltb (lcp (local_id t) (nd_id n)) (length (dump_of now t)) then lcp (local_id t) (nd_id n)
   else (length (dump_of now t) - 1)%nat) = tidx t n.
Proof.
  intros I. rewrite dump_length. unfold tidx, bucket_placement.
  destruct (Nat.ltb_spec (lcp (local_id t) (nd_id n)) (length (buckets t)));
    destruct (Nat.leb_spec (length (buckets t)) (lcp (local_id t) (nd_id n))); lia.
Qed.

Lemma tb_dump now t n : TInv t -> nth (tidx t n) (dump_of now t) [] = map (slot_of now) (tb t n).
Proof. intros I. apply nth_error_nth. unfold dump_of. apply map_nth_error. apply tb_nth_error, I. Qed.

(* a node of the target bucket with the offered handle is a live node, unless it is bad *)
Lemma tb_handle_live now t n z : TInv t -> In z (tb t n) -> same_handle n z = true ->
  node_status now z <> Bad -> existsb (same_h (new_slot now n)) (SL now t) = true.
Proof.
  intros I Hz S Hs. apply (present_intro now t n z).
  - apply live_in. split; [eapply tb_tin; eassumption | apply pingable_of_notbad, Hs].
  - symmetry. apply same_handle_hd, S.
Qed.

Lemma cl8 now t t' n (ad : bool) : OfferCtx now t t' n ->
  negb (ad && negb (existsb (same_h (new_slot now n)) (SL now t))
        && forallb (fun s => (st_of s =? 2)%N)
             (nth (if Nat.ltb (lcp (local_id t) (nd_id n)) (length (dump_of now t)) then lcp (local_id t) (nd_id n)
                   else (length (dump_of now t) - 1)%nat) (dump_of now t) [])
        && negb (can_split (length (dump_of now t))
                   (if Nat.ltb (lcp (local_id t) (nd_id n)) (length (dump_of now t)) then lcp (local_id t) (nd_id n)
                    else (length (dump_of now t) - 1)%nat)))
  || list_eqb (list_eqb slot_eqb) (dump_of now t) (dump_of now t') = true.
Proof.
  intros C. pose proof (oc_I _ _ _ _ C) as I.
  rewrite (idx_tidx now t n I), (tb_dump now t n I), dump_length.
  match goal with |- negb ?g || _ = true => destruct g eqn:G end; [|reflexivity]. cbn [negb orb].
  apply andb_true_iff in G as [G G4]. apply andb_true_iff in G as [G G3]. apply andb_true_iff in G as [_ G2].
  apply negb_true_iff in G2, G4. rewrite forallb_forall in G3.
  assert (Hg : forall z, In z (tb t n) -> node_status now z = Good).
  { intros z Hz. apply st_code_2. rewrite <- st_slot_of. apply N.eqb_eq. apply G3. apply in_map, Hz. }
  assert (Hs : forall z, In z (tb t n) -> same_handle n z = false).
  { intros z Hz. destruct (same_handle n z) eqn:S; [|reflexivity].
    rewrite (tb_handle_live now t n z I Hz S) in G2; [discriminate|]. rewrite (Hg z Hz). discriminate. }
  rewrite (as_rej _ _ _ _ (oc_sp _ _ _ _ C) Hs Hg G4). apply dump_eqb_eq. reflexivity.
Qed.

Lemma cl9 now t t' n (ad : bool) : OfferCtx now t t' n ->
  negb (ad && negb (existsb (same_h (new_slot now n)) (SL now t))
        && existsb (fun s => (st_of s <? st_code (node_status now n))%N)
             (nth (if Nat.ltb (lcp (local_id t) (nd_id n)) (length (dump_of now t)) then lcp (local_id t) (nd_id n)
                   else (length (dump_of now t) - 1)%nat) (dump_of now t) []))
  || existsb (fun s => same_h s (new_slot now n) && (st_of s =? st_code (node_status now n))%N) (SL now t') = true.
Proof.
  intros C. pose proof (oc_I _ _ _ _ C) as I.
  destruct (oc_adm _ _ _ _ C) as [_ [Hnb _]].
  rewrite (idx_tidx now t n I), (tb_dump now t n I).
  match goal with |- negb ?g || _ = true => destruct g eqn:G end; [|reflexivity]. cbn [negb orb].
  apply andb_true_iff in G as [G G3]. apply andb_true_iff in G as [_ G2]. apply negb_true_iff in G2.
  apply existsb_exists in G3 as [s [Hs Hlt]]. apply in_map_iff in Hs as [z [<- Hz]].
  apply N.ltb_lt in Hlt. rewrite st_slot_of in Hlt. apply st_code_lt in Hlt.
  assert (Hn : tin n t').
  { destruct (existsb (same_handle n) (tb t n)) eqn:Eh.
    - apply existsb_exists in Eh as [old [Ho So]].
      assert (Hb : node_status now old = Bad).
      { destruct (node_status now old) eqn:Eo; [reflexivity | |];
          (rewrite (tb_handle_live now t n old I Ho So) in G2; [discriminate | rewrite Eo; discriminate]). }
      pose proof (as_upd _ _ _ _ (oc_sp _ _ _ _ C) old Ho So) as Hu.
      assert (Eu : node_update now old n = n).
      { unfold node_update. rewrite Hb. destruct (node_status now n); [contradiction | reflexivity | reflexivity]. }
      rewrite Eu in Hu. exact Hu.
    - apply (as_new _ _ _ _ (oc_sp _ _ _ _ C)); [apply existsb_false_all, Eh|].
      exists z. split; assumption. }
  assert (Hp : is_pingable now n = true) by (apply pingable_of_notbad, Hnb).
  apply existsb_exists. exists (slot_of now n). split.
  - apply in_SL. exists n. split; [apply live_in; split; assumption | reflexivity].
  - rewrite (slot_of_live _ _ Hp). fold (new_slot now n). rewrite same_h_refl. cbn [andb].
    unfold new_slot, st_of. cbn [fst]. apply N.eqb_refl.
Qed.

(* ------------------------------------------------------------------ STAGE 2: Dump ; Offer ; Dump on the model *)
Lemma adm_iff now t n : node_status now n <> Bad -> nd_addr n <> TableInv_Facts.dummy_addr ->
  (negb (nd_id n =? local_id t)%N && negb (existsb (addr_eqb (nd_addr n)) (routers t)) = true <-> adm now t n).
Proof.
  intros Hs Ha. unfold adm. rewrite andb_true_iff, !negb_true_iff, N.eqb_neq. split.
  - intros [H1 H2]. split; [exact H2|]. split; [exact Hs|]. split; [|exact Ha].
    intros E. apply lcp_160_iff in E. contradiction.
  - intros [H1 [_ [H3 _]]]. split; [|exact H1]. intros E. apply H3. apply lcp_160_iff. exact E.
Qed.

Lemma c08_offer_gen now t n (good : bool) : TInv t -> nd_addr n <> TableInv_Facts.dummy_addr ->
  node_status now n = (if good then Good else Questionable) ->
  (forall x, (status_rank (node_status now x) <= status_rank (node_status now (node_update now x n)))%nat) ->
  c08_offer (local_id t) (routers t) (dump_of now t) (dump_of now (add_node now t n)) good (nd_id n) (nd_addr n) = true.
Proof.
  intros I Ha Hst Hup.
  assert (Hnb : node_status now n <> Bad) by (rewrite Hst; destruct good; discriminate).
  assert (Ens : (if good then 2%N else 1%N) = st_code (node_status now n)) by (rewrite Hst; destruct good; reflexivity).
  destruct (negb (nd_id n =? local_id t)%N && negb (existsb (addr_eqb (nd_addr n)) (routers t))) eqn:Eadm.
  - pose proof (proj1 (adm_iff now t n Hnb Ha) Eadm) as A.
    remember (add_node now t n) as t' eqn:Et'.
    assert (C : OfferCtx now t t' n).
    { constructor; [exact I | exact A | subst t'; apply add_node_spec; assumption | exact Hup]. }
    destruct (keep_fact _ _ _ _ C) as [ev K].
    unfold c08_offer. cbv zeta. rewrite Ens, !live_of_dump.
    repeat (apply andb_true_iff; split).
    + apply Nat.leb_le. exact (cl1 now t t' n ev C K).
    + exact (cl2 now t t' n ev C K).
    + exact (cl3 now t t' n ev C K).
    + exact (cl4 now t t' n C).
    + exact (cl5 now t t' n C).
    + rewrite Eadm. reflexivity.
    + exact (cl7 now t t' n ev C K).
    + exact (cl8 now t t' n _ C).
    + exact (cl9 now t t' n _ C).
  - rewrite add_node_not_adm.
    + apply c08_offer_same; [|exact Eadm]. apply nodup_h_NoDup. rewrite live_hd_dump. apply nodup_live, I.
    + apply andb_false_iff in Eadm as [E|E]; apply negb_false_iff in E.
      * right. right. apply lcp_160_iff. apply N.eqb_eq. exact E.
      * left. exact E.
Qed.

Theorem c08_offer_model now t (good : bool) id a : TInv t -> a <> TableInv_Facts.dummy_addr ->
  let n := if good then as_good id a now else as_questionable id a now in
  c08_offer (local_id t) (routers t) (dump_of now t) (dump_of now (add_node now t n)) good id a = true.
Proof.
  intros I Ha n. subst n. destruct good.
  - apply (c08_offer_gen now t (as_good id a now) true I Ha (offer_status now id a true)).
    intros x. apply (node_update_offer_status now x id a true).
  - apply (c08_offer_gen now t (as_questionable id a now) false I Ha (offer_status now id a false)).
    intros x. apply (node_update_offer_status now x id a false).
Qed.

(* ------------------------------------------------------------------ STAGE 3: the whole run *)
(* one step of the checker on a non-router operation: unless the head is a dump with a failing shape,
   or Dump;Offer;Dump at one instant with a failing transition clause, the checker moves on *)
Lemma c08_check_step local rts o r x obs i :
  is_router o = false ->
  (forall now d, o = TDump now -> x = ObDump d -> c08_shape local rts d = true) ->
  (forall now good id a r2 d x2 d' obs2, o = TDump now -> r = TOffer now good id a :: TDump now :: r2 ->
     x = ObDump d -> obs = x2 :: ObDump d' :: obs2 -> c08_offer local rts d d' good id a = true) ->
  c08_check local rts (o :: r) (x :: obs) i = c08_check local rts r obs (i + 1)%N.
Proof.
  intros Hr Hs Ho.
  destruct o as [a|now good id a|now id a named|now id a|now id a|now|now target|now];
    try discriminate Hr; try reflexivity.
  destruct x as [| |d| |]; try reflexivity.
  cbn [c08_check]. rewrite (Hs now d eq_refl eq_refl). cbn [negb].
  destruct r as [|o1 r1]; [reflexivity|].
  destruct o1 as [a1|now1 good1 id1 a1|now1 id1 a1 named1|now1 id1 a1|now1 id1 a1|now1|now1 target1|now1];
    try reflexivity.
  destruct r1 as [|o2 r2]; [reflexivity|].
  destruct o2 as [a2|now2 good2 id2 a2|now2 id2 a2 named2|now2 id2 a2|now2 id2 a2|now2|now2 target2|now2];
    try reflexivity.
  destruct obs as [|x2 obs1]; [reflexivity|]. destruct obs1 as [|x3 obs2]; [reflexivity|].
  destruct x3 as [| |d'| |]; try reflexivity.
  destruct (Z.eqb_spec now now1) as [<-|Hne]; cbn [andb]; [|reflexivity].
  destruct (Z.eqb_spec now now2) as [<-|Hne]; cbn [andb]; [|reflexivity].
  rewrite (Ho now good1 id1 a1 r2 d x2 d' obs2 eq_refl eq_refl eq_refl eq_refl). reflexivity.
Qed.

Lemma c08_check_run : forall ops t i local rts, TInv t -> local_id t = local -> routers t = rts ->
  no_router ops = true -> forallb rtop_okb ops = true ->
  c08_check local rts ops (rt_run t ops) i = None.
Proof.
  induction ops as [|o r IH]; intros t i local rts I Hl Hrt Hnr Hok; [reflexivity|].
  rewrite no_router_cons in Hnr. apply andb_true_iff in Hnr as [Hr Hnr]. apply negb_true_iff in Hr.
  pose proof Hok as Hok0. cbn [forallb] in Hok. apply andb_true_iff in Hok as [Ho Hok].
  destruct (rtop_ok_top t o Ho Hr I) as [I' [Hl' Hrt']].
  rewrite rt_run_cons. rewrite c08_check_step.
  - apply IH; [exact I' | congruence | congruence | exact Hnr | exact Hok].
  - exact Hr.
  - intros now d -> Hd. cbn [rt_step snd] in Hd. inversion Hd. subst local rts.
    apply (c08_shape_model now t I).
  - intros now good id a r2 d x2 d' obs2 -> -> Hd Hobs.
    cbn [rt_step fst snd] in Hd, Hobs. rewrite rt_run_cons in Hobs. cbn [rt_step fst snd] in Hobs.
    rewrite rt_run_cons in Hobs. cbn [rt_step fst snd] in Hobs.
    inversion Hd; subst d. inversion Hobs; subst d'. subst local rts.
    cbn [forallb rtop_okb] in Hok. apply andb_true_iff in Hok as [Ha _]. apply addr_okb_neq in Ha.
    apply (c08_offer_model now t good id a I Ha).
Qed.

Lemma c08_check_routers : forall ops rts i local, routers_first ops = true -> forallb rtop_okb ops = true ->
  c08_check local rts ops (rt_run (init_table local rts) ops) i = None.
Proof.
  induction ops as [|o r IH]; intros rts i local Hrf Hok; [reflexivity|].
  destruct (is_router o) eqn:Er.
  - destruct o; try discriminate. cbn [routers_first] in Hrf.
    cbn [forallb] in Hok. apply andb_true_iff in Hok as [_ Hok].
    rewrite rt_run_cons, rt_step_router. cbn [fst snd]. rewrite init_table_router.
    cbn [c08_check]. apply IH; assumption.
  - apply c08_check_run; [apply TInv_init | reflexivity | reflexivity | | exact Hok].
    destruct o; try discriminate; exact Hrf.
Qed.

Theorem c08_ok_model_silent : forall local ops, script_ok ops = true -> c08_ok local ops (model_obs local ops) = None.
Proof.
  intros local ops H. unfold script_ok in H. apply andb_true_iff in H as [H1 H2].
  unfold c08_ok, model_obs. rewrite new_table_init. apply c08_check_routers; assumption.
Qed.

Print Assumptions c08_ok_model_silent.
