(* Facts about what a search does with the nodes it hears of (C02): every node named in an accepted
   answer becomes a candidate, the candidates flagged "queried" have really been sent a get_peers,
   and the end-game round queries every candidate that is not flagged.  Hence: when a search enters
   its end-game, every node it has heard of has been queried or is queried in that very step. *)
From BT Require Import model.Prelude gen.Consts model.Compact model.Krpc model.Token model.Storage model.Table model.Txn model.Handler.
From BT Require Import proofs.Prelude_Facts proofs.Txn_Facts proofs.Table_Facts proofs.TableInv_Facts proofs.Handler_Facts proofs.Refresh_Facts proofs.Lookup_Facts proofs.Termination_Facts.
From Coq Require Import ZifyBool ZifyN ZifyNat.
Open Scope nat_scope.

(* ------------------------------------------------------------------ lists *)
Lemma In_insert_at {A} (x z : A) : forall i l, In z (insert_at i x l) <-> x = z \/ In z l.
Proof.
  induction i as [|i IH]; intros l; cbn [insert_at].
  - cbn [In]. tauto.
  - destruct l as [|y l]; cbn [In]; [tauto|]. rewrite IH. tauto.
Qed.

Lemma fold_left_map_arg {A B C} (g : A -> B) (f : C -> B -> C) : forall xs l,
  fold_left (fun l a => f l (g a)) xs l = fold_left f (map g xs) l.
Proof. induction xs as [|x xs IH]; intros l; cbn [fold_left map]; [reflexivity | apply IH]. Qed.

(* the binary search never leaves the list, sorted or not *)
Lemma bs_loop_lt l d : forall fuel base size, 1 <= size -> base + size <= length l ->
  bs_loop fuel l d base size < length l.
Proof.
  induction fuel as [|f IH]; intros base size H1 H2; cbn [bs_loop]; [lia|].
  destruct (Nat.leb_spec size 1) as [Hle|Hgt]; [lia|].
  assert (Hh : 1 <= Nat.div size 2 /\ 2 * Nat.div size 2 <= size).
  { pose proof (Nat.div_mod size 2 ltac:(lia)). pose proof (Nat.mod_upper_bound size 2 ltac:(lia)).
    split; [|lia]. destruct (Nat.div size 2) eqn:E; lia. }
  match goal with |- context [if ?b then _ else _] => destruct b end; apply IH; lia.
Qed.

Lemma binary_search_found l d i : binary_search l d = (i, true) -> i < length l /\ cdist (nth i l dflt) = d.
Proof.
  unfold binary_search. destruct l as [|x r]; [discriminate|].
  pose proof (bs_loop_lt (x :: r) d (length (x :: r)) 0 (length (x :: r)) ltac:(cbn; lia) ltac:(lia)) as Hb.
  set (b := bs_loop (length (x :: r)) (x :: r) d 0 (length (x :: r))) in *.
  change (fst (fst (nth b (x :: r) (0%N, (0%N, mkAddr false 0 0), false)))) with (cdist (nth b (x :: r) dflt)).
  destruct (N.eqb_spec (cdist (nth b (x :: r) dflt)) d) as [E|E]; intros H; inversion H; subst i.
  split; assumption.
Qed.

(* ------------------------------------------------------------------ insert_sorted as a set operation *)
Lemma insert_sorted_keeps l t h p x : In x l -> In x (insert_sorted l t h p).
Proof.
  intros Hx. unfold insert_sorted. cbv zeta. destruct (binary_search l (N.lxor t (fst h))) as [i found].
  destruct found; [destruct (handle_eqb _ h)|]; try exact Hx; apply In_insert_at; right; exact Hx.
Qed.

Lemma insert_sorted_only l t h p x : In x (insert_sorted l t h p) -> In x l \/ x = (N.lxor t (fst h), h, p).
Proof.
  unfold insert_sorted. cbv zeta. destruct (binary_search l (N.lxor t (fst h))) as [i found].
  destruct found; [destruct (handle_eqb _ h)|]; intros H; try (left; exact H);
    apply In_insert_at in H as [H|H]; auto.
Qed.

(* the node is a candidate afterwards: as a new entry with the given flag, or it was one already *)
Lemma insert_sorted_has l t h p :
  In (N.lxor t (fst h), h, p) (insert_sorted l t h p) \/ exists fl, In (N.lxor t (fst h), h, fl) l.
Proof.
  unfold insert_sorted. cbv zeta. destruct (binary_search l (N.lxor t (fst h))) as [i found] eqn:Eb.
  destruct found; [|left; apply In_insert_at; left; reflexivity].
  match goal with |- context [if ?b then _ else _] => destruct b eqn:Eh end; [|left; apply In_insert_at; left; reflexivity].
  right. apply binary_search_found in Eb as [Hi Hd]. apply handle_eqb_eq in Eh.
  rewrite (nth_indep l _ dflt Hi) in Eh.
  assert (Hin : In (nth i l dflt) l) by (apply nth_In; exact Hi).
  destruct (nth i l dflt) as [[d0 h0] f0]. unfold cdist in Hd. cbn [fst snd] in *. subst d0 h0. exists f0. exact Hin.
Qed.

Section FoldInsert.
  Variable t : N.
  Variable f : handle -> bool.
  Notation ins_all := (fold_left (fun l h => insert_sorted l t h (f h))).

  Lemma fold_insert_keeps : forall hs l x, In x l -> In x (ins_all hs l).
  Proof. induction hs as [|h r IH]; intros l x Hx; cbn [fold_left]; [exact Hx | apply IH, insert_sorted_keeps, Hx]. Qed.

  Lemma fold_insert_only : forall hs l x, In x (ins_all hs l) ->
    In x l \/ exists h, In h hs /\ x = (N.lxor t (fst h), h, f h).
  Proof.
    induction hs as [|h r IH]; intros l x Hx; cbn [fold_left] in Hx; [left; exact Hx|].
    destruct (IH _ _ Hx) as [Y|[h' [Hh' E]]].
    - apply insert_sorted_only in Y as [Y|Y]; [left; exact Y | right; exists h; split; [left; reflexivity | exact Y]].
    - right. exists h'. split; [right; exact Hh' | exact E].
  Qed.

  Lemma fold_insert_has : forall hs l h, In h hs ->
    (exists fl, In (N.lxor t (fst h), h, fl) l) \/ In (N.lxor t (fst h), h, f h) (ins_all hs l).
  Proof.
    induction hs as [|h0 r IH]; intros l h Hh; [destruct Hh|]. cbn [fold_left]. destruct Hh as [->|Hh].
    - destruct (insert_sorted_has l t h (f h)) as [Y|Y]; [right; apply fold_insert_keeps, Y | left; exact Y].
    - destruct (IH (insert_sorted l t h0 (f h0)) h Hh) as [[fl Y]|Y]; [|right; exact Y].
      destruct (insert_sorted_only _ _ _ _ _ Y) as [Z|Z]; [left; exists fl; exact Z|].
      inversion Z; subst. right. apply fold_insert_keeps, Y.
  Qed.
End FoldInsert.

(* ------------------------------------------------------------------ the iterate slots *)
Lemma slot_matches_iff it h :
  slot_matches it h = true <-> In h (used_slots it) \/ (In None it /\ h = unspecified_handle).
Proof.
  unfold slot_matches. rewrite existsb_exists. split.
  - intros [o [Ho E]]. apply handle_eqb_eq in E. destruct o as [x|]; subst.
    + left. unfold used_slots. apply in_flat_map. exists (Some x). split; [exact Ho | left; reflexivity].
    + right. auto.
  - intros [H|[H ->]].
    + unfold used_slots in H. apply in_flat_map in H as [o [Ho Hx]]. destruct o as [x|]; [|destruct Hx].
      destruct Hx as [<-|[]]. exists (Some x). split; [exact Ho | apply handle_eqb_eq; reflexivity].
    + exists None. split; [exact H | apply handle_eqb_eq; reflexivity].
Qed.

Lemma in_used_slots it h : In h (used_slots it) <-> In (Some h) it.
Proof.
  unfold used_slots. rewrite in_flat_map. split.
  - intros [o [Ho Hx]]. destruct o as [x|]; [|destruct Hx]. destruct Hx as [<-|[]]. exact Ho.
  - intros H. exists (Some h). split; [exact H | left; reflexivity].
Qed.

Lemma insert_closest_in t h x : forall s, In (Some x) (insert_closest s t h) -> x = h \/ In (Some x) s.
Proof.
  induction s as [|o s IH]; cbn [insert_closest]; [intros []|]. destruct o as [y|].
  - destruct (N.lxor t (fst h) <? N.lxor t (fst y))%N; cbn [In].
    + intros [E|H]; [inversion E; auto | auto].
    + intros [E|H]; [auto | destruct (IH H); auto].
  - cbn [In]. intros [E|H]; [inversion E; auto | auto].
Qed.

Lemma insert_closest_length t h : forall s, length (insert_closest s t h) = length s.
Proof.
  induction s as [|o s IH]; [reflexivity|]. cbn [insert_closest]. destruct o as [y|]; [|reflexivity].
  destruct (N.lxor t (fst h) <? N.lxor t (fst y))%N; cbn [length]; [reflexivity | rewrite IH; reflexivity].
Qed.

Lemma fold_insert_closest t x : forall cands s, In (Some x) (fold_left (fun s h => insert_closest s t h) cands s) ->
  In x cands \/ In (Some x) s.
Proof.
  induction cands as [|h r IH]; intros s H; cbn [fold_left] in H; [right; exact H|].
  destruct (IH _ H) as [Y|Y]; [left; right; exact Y|].
  apply insert_closest_in in Y as [->|Y]; [left; left; reflexivity | right; exact Y].
Qed.

(* the slots hold nodes of the answer (that had not been queried before), at most ITERATIVE_PICK_NUM *)
Lemma pick_iterate_slots_in cands t h : In h (used_slots (pick_iterate_slots cands t)) -> In h cands.
Proof.
  intros H. apply in_used_slots in H. unfold pick_iterate_slots in H.
  apply fold_insert_closest in H as [H|H]; [exact H|]. apply repeat_spec in H. discriminate.
Qed.

Lemma used_slots_length it : length (used_slots it) <= length it.
Proof.
  induction it as [|o it IH]; [cbn; lia|]. unfold used_slots in *. cbn [flat_map]. rewrite app_length.
  destruct o; cbn [length]; lia.
Qed.

Lemma pick_iterate_slots_length cands t : length (used_slots (pick_iterate_slots cands t)) <= iterative_pick.
Proof.
  eapply Nat.le_trans; [apply used_slots_length|]. unfold pick_iterate_slots.
  assert (G : forall cs s, length (fold_left (fun s h => insert_closest s t h) cs s) = length s).
  { induction cs as [|h r IH]; intros s; cbn [fold_left]; [reflexivity | rewrite IH; apply insert_closest_length]. }
  rewrite G, repeat_length. apply Nat.le_refl.
Qed.

(* ------------------------------------------------------------------ the queries of one round *)
(* one get_peers per node, in order; the k-th query of activity [act] carries the k-th message id *)
Fixpoint round_sends (I : ids) (own : N) (act : nat) (target : N) (k : nat) (hs : list handle) : list output :=
  match hs with
  | [] => []
  | h :: r => OSend (snd h) (get_peers_msg own (tid_bytes (aid_of I act) (mid_of I act k)) target)
              :: round_sends I own act target (S k) r
  end.

Lemma round_sends_in I own act target : forall hs k h, In h hs ->
  exists j, In (OSend (snd h) (get_peers_msg own (tid_bytes (aid_of I act) (mid_of I act j)) target))
               (round_sends I own act target k hs).
Proof.
  induction hs as [|x r IH]; intros k h Hh; [destruct Hh|]. cbn [round_sends]. destruct Hh as [->|Hh].
  - exists k. left. reflexivity.
  - destruct (IH (S k) h Hh) as [j Hj]. exists j. right. exact Hj.
Qed.

Lemma round_sends_only I own act target o : forall hs k, In o (round_sends I own act target k hs) ->
  exists h j, In h hs /\ o = OSend (snd h) (get_peers_msg own (tid_bytes (aid_of I act) (mid_of I act j)) target).
Proof.
  induction hs as [|x r IH]; intros k H; [destruct H|]. cbn [round_sends] in H. destruct H as [<-|H].
  - exists x, k. split; [left; reflexivity | reflexivity].
  - destruct (IH _ H) as [h [j [Hh E]]]. exists h, j. split; [right; exact Hh | exact E].
Qed.

Lemma round_sends_length I own act target : forall hs k, length (round_sends I own act target k hs) = length hs.
Proof. induction hs as [|x r IH]; intros k; cbn; [reflexivity | rewrite IH; reflexivity]. Qed.

(* the candidates not flagged as queried *)
Definition unqueried (l : list cand) : list handle := map (fun e => snd (fst e)) (filter (fun e => negb (snd e)) l).

Section HeardLookup.
  Variable I : ids.
  Variable sendok : nat -> bool.
  Variable own : N.
  Variable now : Z.

  (* what a request round does to the outputs and to the search *)
  Definition RoundSpec (nodes : list handle) (lk : lookup) (c : ctx) (lk' : lookup) (c' : ctx) : Prop :=
    cx_out c' = rev (round_sends I own (lk_act lk) (lk_target lk) (lk_next lk) nodes) ++ cx_out c /\
    cx_sends c' = cx_sends c + length nodes /\
    lk_next lk' = lk_next lk + length nodes /\
    lk_act lk' = lk_act lk /\ lk_target lk' = lk_target lk /\ lk_endgame lk' = lk_endgame lk /\
    lk_sorted lk' = lk_sorted lk /\
    incl (lk_requested lk) (lk_requested lk') /\
    (forall h, In h (lk_requested lk') -> In h (lk_requested lk) \/ In h nodes) /\
    (forall i h, nth_error nodes i = Some h -> sendok (cx_sends c + i) = true -> In h (lk_requested lk')).

  Lemma request_round_spec : forall nodes lk c sent,
    RoundSpec (map fst nodes) lk c (fst (fst (request_round I sendok own now nodes lk c sent)))
              (snd (fst (request_round I sendok own now nodes lk c sent))).
  Proof.
    induction nodes as [|[h d] r IH]; intros lk c sent; cbn [request_round map fst].
    - cbn [fst snd]. unfold RoundSpec. cbn [round_sends rev app length]. rewrite !Nat.add_0_r.
      repeat split; auto using incl_refl. intros i x H. destruct i; discriminate.
    - destruct (gen_tid I lk) as [tid lk1] eqn:Eg. unfold gen_tid in Eg. inversion Eg; subst tid lk1. clear Eg.
      destruct (schedule_in now lookup_timeout _ (cx_timer c)) as [tm key].
      destruct (send sendok _ (snd h) _) as [c2 ok] eqn:Es. unfold send in Es. inversion Es; subst c2 ok. clear Es.
      cbn [cx_sends] in *.
      destruct (sendok (cx_sends c)) eqn:Eok.
      + match goal with |- context [request_round I sendok own now r ?l ?cc ?sn] =>
          specialize (IH l cc sn); destruct (request_round I sendok own now r l cc sn) as [[lk' c'] sent'] end.
        cbn [fst snd] in *. unfold RoundSpec in *.
        cbn [lk_act lk_target lk_next lk_endgame lk_sorted lk_requested set_active cx_out cx_sends mark_local] in IH.
        destruct IH as (O & S1 & Nx & A & T & E & So & Inc & Only & Ok).
        split; [cbn [round_sends rev]; rewrite <- app_assoc; exact O|].
        split; [cbn [length]; lia|]. split; [cbn [length]; lia|].
        split; [exact A|]. split; [exact T|]. split; [exact E|]. split; [exact So|].
        assert (Hh : In h (lk_requested lk')).
        { apply Inc. destruct (existsb (handle_eqb h) (lk_requested lk)) eqn:Ex; [|left; reflexivity].
          apply existsb_exists in Ex as [y [Hy Ey]]. apply handle_eqb_eq in Ey. subst y. exact Hy. }
        split; [|split].
        * intros x Hx. apply Inc. destruct (existsb (handle_eqb h) (lk_requested lk)); [exact Hx | right; exact Hx].
        * intros x Hx. destruct (Only x Hx) as [Y|Y]; [|right; right; exact Y].
          destruct (existsb (handle_eqb h) (lk_requested lk)); [left; exact Y|].
          destruct Y as [<-|Y]; [right; left; reflexivity | left; exact Y].
        * intros i x Hi Hs. destruct i as [|i]; cbn [nth_error] in Hi; [inversion Hi; subst x; exact Hh|].
          apply (Ok i x Hi). rewrite <- Hs. f_equal. lia.
      + match goal with |- context [request_round I sendok own now r ?l ?cc ?sn] =>
          specialize (IH l cc sn); destruct (request_round I sendok own now r l cc sn) as [[lk' c'] sent'] end.
        cbn [fst snd] in *. unfold RoundSpec in *.
        cbn [lk_act lk_target lk_next lk_endgame lk_sorted lk_requested set_active cx_out cx_sends mark_local] in IH.
        destruct IH as (O & S1 & Nx & A & T & E & So & Inc & Only & Ok).
        split; [cbn [round_sends rev]; rewrite <- app_assoc; exact O|].
        split; [cbn [length]; lia|]. split; [cbn [length]; lia|].
        split; [exact A|]. split; [exact T|]. split; [exact E|]. split; [exact So|].
        split; [exact Inc|]. split.
        * intros x Hx. destruct (Only x Hx) as [Y|Y]; [left; exact Y | right; right; exact Y].
        * intros i x Hi Hs. destruct i as [|i]; cbn [nth_error] in Hi; [rewrite Nat.add_0_r in Hs; congruence|].
          apply (Ok i x Hi). rewrite <- Hs. f_equal. lia.
  Qed.

  Lemma start_request_round_spec nodes lk c :
    RoundSpec (map fst nodes) lk c (fst (start_request_round I sendok own now nodes lk c))
              (snd (start_request_round I sendok own now nodes lk c)).
  Proof.
    unfold start_request_round. pose proof (request_round_spec nodes lk c O) as X.
    destruct (request_round I sendok own now nodes lk c 0) as [[lk' c'] sent]. cbn [fst snd] in *.
    destruct (Nat.eqb sent 0); exact X.
  Qed.

  (* with every send succeeding, everybody sent to is remembered as requested *)
  Lemma RoundSpec_all_ok nodes lk c lk' c' : (forall k, sendok k = true) -> RoundSpec nodes lk c lk' c' ->
    forall h, In h nodes -> In h (lk_requested lk').
  Proof.
    intros Hok (_ & _ & _ & _ & _ & _ & _ & _ & _ & Ok) h Hh.
    apply In_nth_error in Hh as [i Hi]. exact (Ok i h Hi (Hok _)).
  Qed.

  (* ---------------------------------------------------------------- the end-game round *)
  Lemma endgame_sends_spec : forall todo key lk c,
    cx_out (snd (endgame_sends I sendok own now todo key lk c))
      = rev (round_sends I own (lk_act lk) (lk_target lk) (lk_next lk) (unqueried todo)) ++ cx_out c /\
    lk_next (snd (fst (endgame_sends I sendok own now todo key lk c))) = lk_next lk + length (unqueried todo) /\
    lk_target (snd (fst (endgame_sends I sendok own now todo key lk c))) = lk_target lk /\
    lk_endgame (snd (fst (endgame_sends I sendok own now todo key lk c))) = lk_endgame lk /\
    lk_requested (snd (fst (endgame_sends I sendok own now todo key lk c))) = lk_requested lk /\
    ((forall k, sendok k = true) ->
     forall e, In e (fst (fst (endgame_sends I sendok own now todo key lk c))) -> snd e = true).
  Proof.
    induction todo as [|[[d h] q] r IH]; intros key lk c; cbn [endgame_sends].
    - cbn [fst snd unqueried filter map round_sends rev app length]. rewrite Nat.add_0_r.
      repeat split. intros _ e [].
    - destruct q.
      + specialize (IH key lk c). destruct (endgame_sends I sendok own now r key lk c) as [[r' lk'] c'].
        cbn [fst snd] in *. unfold unqueried in *. cbn [filter negb snd].
        destruct IH as (O & Nx & T & E & Rq & Fl). repeat split; try assumption.
        intros Hok e [<-|He]; [reflexivity | apply (Fl Hok e He)].
      + destruct (gen_tid I lk) as [tid lk1] eqn:Eg. unfold gen_tid in Eg. inversion Eg; subst tid lk1. clear Eg.
        destruct (send sendok c (snd h) _) as [c1 ok] eqn:Es. unfold send in Es. inversion Es; subst c1 ok. clear Es.
        unfold unqueried. cbn [filter negb snd map fst]. fold (unqueried r).
        destruct (sendok (cx_sends c)) eqn:Eok.
        * match goal with |- context [endgame_sends I sendok own now r key ?l ?cc] =>
            specialize (IH key l cc); destruct (endgame_sends I sendok own now r key l cc) as [[r' lk'] c'] end.
          cbn [fst snd lk_act lk_target lk_next lk_endgame lk_requested set_active cx_out mark_local] in *.
          destruct IH as (O & Nx & T & E & Rq & Fl).
          split; [cbn [round_sends rev]; rewrite <- app_assoc; exact O|]. split; [cbn [length]; lia|].
          repeat split; try assumption. intros Hok e [<-|He]; [reflexivity | apply (Fl Hok e He)].
        * match goal with |- context [endgame_sends I sendok own now r key ?l ?cc] =>
            specialize (IH key l cc); destruct (endgame_sends I sendok own now r key l cc) as [[r' lk'] c'] end.
          cbn [fst snd lk_act lk_target lk_next lk_endgame lk_requested set_active cx_out mark_local] in *.
          destruct IH as (O & Nx & T & E & Rq & Fl).
          split; [cbn [round_sends rev]; rewrite <- app_assoc; exact O|]. split; [cbn [length]; lia|].
          repeat split; try assumption. intros Hok. rewrite Hok in Eok. discriminate.
  Qed.

  (* the end-game round: one query to every candidate not flagged, in list order; the candidates
     stay the same nodes in the same order; nothing is added to the requested set *)
  Lemma start_endgame_spec lk c :
    cx_out (snd (start_endgame I sendok own now lk c))
      = rev (round_sends I own (lk_act lk) (lk_target lk) (S (lk_next lk)) (unqueried (lk_sorted lk))) ++ cx_out c /\
    map ckey (lk_sorted (fst (start_endgame I sendok own now lk c))) = map ckey (lk_sorted lk) /\
    lk_endgame (fst (start_endgame I sendok own now lk c)) = true /\
    lk_target (fst (start_endgame I sendok own now lk c)) = lk_target lk /\
    lk_requested (fst (start_endgame I sendok own now lk c)) = lk_requested lk /\
    ((forall k, sendok k = true) ->
     forall e, In e (lk_sorted (fst (start_endgame I sendok own now lk c))) -> snd e = true).
  Proof.
    unfold start_endgame.
    destruct (gen_tid I lk) as [tid lk1] eqn:Eg. unfold gen_tid in Eg. inversion Eg; subst tid lk1. clear Eg.
    destruct (schedule_in now endgame_timeout _ (cx_timer c)) as [tm key].
    match goal with |- context [endgame_sends I sendok own now ?t key ?l ?cc] =>
      pose proof (endgame_sends_spec t key l cc) as X; pose proof (endgame_sends_keys I sendok own now t key l cc) as Xk;
      destruct (endgame_sends I sendok own now t key l cc) as [[r' lk'] c'] end.
    cbn [fst snd lk_act lk_target lk_next lk_endgame lk_requested lk_sorted cx_out] in *.
    destruct X as (O & Nx & T & E & Rq & Fl). repeat split; assumption.
  Qed.
End HeardLookup.

(* ------------------------------------------------------------------ heard => candidate *)
Section HeardAccept.
  Variable I : ids.
  Variable sendok : nat -> bool.
  Variable own : N.
  Variable now : Z.

  (* the flag a newly heard node gets: "is among the nodes picked for the next round" *)
  Definition iterate_flag (it : option (list (option handle))) (h : handle) : bool :=
    match it with Some s => slot_matches s h | None => false end.

  Lemma accept_core (target : N) (requested : list handle) (sorted0 : list cand) (nodes : list handle) (dtb : N) :
    let fresh := filter (fun h => negb (existsb (handle_eqb h) requested)) nodes in
    let nd := fold_left (fun cl h => let d := N.lxor target (fst h) in if (d <? cl)%N then d else cl) fresh dtb in
    let it := match nodes with
              | [] => None
              | _ => if (nd <? dtb)%N then Some (pick_iterate_slots fresh target) else None
              end in
    let sorted' := fold_left (fun l h => insert_sorted l target h
                                (match it with Some s => slot_matches s h | None => false end)) nodes sorted0 in
    (forall x, In x sorted0 -> In x sorted') /\
    (forall h, In h nodes ->
       (exists fl, In (N.lxor target (fst h), h, fl) sorted0) \/
       In (N.lxor target (fst h), h, iterate_flag it h) sorted') /\
    (forall x, In x sorted' ->
       In x sorted0 \/ exists h, In h nodes /\ x = (N.lxor target (fst h), h, iterate_flag it h)) /\
    (forall s, it = Some s -> forall h, In h (used_slots s) -> In h nodes /\ ~ In h requested).
  Proof.
    intros fresh nd it sorted'. subst sorted'.
    change (fun (l : list (N * handle * bool)) (h : handle) =>
              insert_sorted l target h match it with Some s => slot_matches s h | None => false end)
      with (fun (l : list (N * handle * bool)) (h : handle) => insert_sorted l target h (iterate_flag it h)).
    split; [intros x; apply fold_insert_keeps|]. split; [intros h; apply fold_insert_has|].
    split; [intros x; apply fold_insert_only|].
    intros s Hs h Hh. subst it. destruct nodes as [|n0 ns]; [discriminate|].
    destruct (nd <? dtb)%N; [|discriminate]. inversion Hs; subst s.
    apply pick_iterate_slots_in in Hh. apply filter_In in Hh as [Hh Hf]. split; [exact Hh|].
    intros Hin. apply negb_true_iff in Hf. assert (Y : existsb (handle_eqb h) requested = true).
    { apply existsb_exists. exists h. split; [exact Hin | apply handle_eqb_eq; reflexivity]. }
    congruence.
  Qed.

  Lemma rr_accept_heard lk from tid r (v6 : bool) dtb :
    let nodes := map handle_of (if v6 then r_nodes6 r else r_nodes4 r) in
    let lk' := fst (fst (rr_accept lk from tid r v6 dtb)) in
    let it := snd (fst (rr_accept lk from tid r v6 dtb)) in
    (forall x, In x (lk_sorted lk) -> In x (lk_sorted lk')) /\
    (forall h, In h nodes ->
       (exists fl, In (N.lxor (lk_target lk) (fst h), h, fl) (lk_sorted lk)) \/
       In (N.lxor (lk_target lk) (fst h), h, iterate_flag it h) (lk_sorted lk')) /\
    (forall x, In x (lk_sorted lk') ->
       In x (lk_sorted lk) \/ exists h, In h nodes /\ x = (N.lxor (lk_target lk) (fst h), h, iterate_flag it h)) /\
    (forall s, it = Some s -> forall h, In h (used_slots s) -> In h nodes /\ ~ In h (lk_requested lk)).
  Proof.
    cbv zeta. unfold rr_accept. cbn [fst snd].
    destruct (r_token r);
      cbn [set_active lk_act lk_next lk_target lk_announce lk_endgame lk_active lk_tokens lk_requested lk_sorted];
      apply accept_core.
  Qed.

  Lemma rr_accept_same lk from tid r v6 dtb :
    lk_requested (fst (fst (rr_accept lk from tid r v6 dtb))) = lk_requested lk /\
    lk_target (fst (fst (rr_accept lk from tid r v6 dtb))) = lk_target lk /\
    lk_endgame (fst (fst (rr_accept lk from tid r v6 dtb))) = lk_endgame lk.
  Proof. unfold rr_accept. cbn [fst]. destruct (r_token r); repeat split. Qed.
End HeardAccept.

Lemma In_skipn_in {A} (x : A) n l : In x (skipn n l) -> In x l.
Proof. intros H. rewrite <- (firstn_skipn n l). apply in_or_app. right. exact H. Qed.

Lemma In_firstn_in {A} (x : A) n l : In x (firstn n l) -> In x l.
Proof. intros H. rewrite <- (firstn_skipn n l). apply in_or_app. left. exact H. Qed.

(* ------------------------------------------------------------------ the searches *)
(* every candidate flagged "queried" has been sent a query that succeeded (it is in the requested
   set) -- or it is the dummy handle (id 0, 0.0.0.0:0) that the fixed-size array of iterate slots is
   initialised with: the code compares a heard node with the unused slots too *)
Definition Flagged (lk : lookup) : Prop :=
  forall d h, In (d, h, true) (lk_sorted lk) -> In h (lk_requested lk) \/ h = unspecified_handle.

(* every candidate has been queried earlier, or is queried by one of the outputs [out] *)
Definition AllQueried (own : N) (lk : lookup) (out : list output) : Prop :=
  forall d h f, In (d, h, f) (lk_sorted lk) ->
    In h (lk_requested lk) \/ h = unspecified_handle \/
    exists tid, In (OSend (snd h) (get_peers_msg own tid (lk_target lk))) out.

Section HeardSearch.
  Variable I : ids.
  Variable sendok : nat -> bool.
  Variable own : N.
  Variable now : Z.
  Hypothesis Hok : forall k, sendok k = true.

  (* TableLookup::new *)
  Lemma lookup_new_spec act target an c :
    let good := firstn bucket_size
                  (filter (fun n => status_eqb (node_status now n) Good) (closest_nodes now (cx_table c) target)) in
    let srt := fold_left (fun l n => insert_sorted l target (nd_id n, nd_addr n) false) good [] in
    let lk' := fst (lookup_new I sendok own now act target an c) in
    let c' := snd (lookup_new I sendok own now act target an c) in
    (forall n, In n good -> In (N.lxor target (nd_id n), (nd_id n, nd_addr n), false) srt) /\
    (forall e, In e srt -> exists n, In n good /\ e = (N.lxor target (nd_id n), (nd_id n, nd_addr n), false)) /\
    lk_sorted lk' = map (fun e => (fst (fst e), snd (fst e), true)) (firstn initial_pick srt) ++ skipn initial_pick srt /\
    cx_out c' = rev (round_sends I own act target 0 (map (fun e => snd (fst e)) (firstn initial_pick srt))) ++ cx_out c /\
    lk_endgame lk' = false /\ lk_target lk' = target /\ lk_act lk' = act /\
    ((forall k, sendok k = true) -> forall e, In e (firstn initial_pick srt) -> In (snd (fst e)) (lk_requested lk')) /\
    (forall h, In h (lk_requested lk') -> exists e, In e (firstn initial_pick srt) /\ h = snd (fst e)).
  Proof.
    cbv zeta. unfold lookup_new. set (good := firstn bucket_size _).
    set (srt := fold_left _ good []).
    assert (Es : srt = fold_left (fun l h => insert_sorted l target h ((fun _ => false) h))
                                 (map (fun n => (nd_id n, nd_addr n)) good) []).
    { apply (fold_left_map_arg (fun n => (nd_id n, nd_addr n)) (fun l h => insert_sorted l target h false)). }
    split.
    { intros n Hn. rewrite Es.
      destruct (fold_insert_has target (fun _ => false) (map (fun n => (nd_id n, nd_addr n)) good) []
                  (nd_id n, nd_addr n) (in_map _ _ _ Hn)) as [[fl []]|Y]. exact Y. }
    split.
    { intros e He. rewrite Es in He. apply fold_insert_only in He as [[]|[h [Hh E]]].
      apply in_map_iff in Hh as [n [En Hn]]. exists n. subst h. split; [exact Hn | exact E]. }
    match goal with |- context [start_request_round I sendok own now ?ns ?l c] =>
      pose proof (start_request_round_spec I sendok own now ns l c) as X;
      destruct (start_request_round I sendok own now ns l c) as [lk' c'] end.
    rewrite map_map in X. cbn [fst snd] in *.
    pose proof (fun H => RoundSpec_all_ok _ _ _ _ _ _ _ _ H X) as Hall.
    destruct X as (O & _ & _ & A & T & E & So & _ & Only & _).
    cbn [lk_act lk_target lk_next lk_endgame lk_sorted lk_requested] in *.
    split; [exact So|]. split; [exact O|]. split; [exact E|]. split; [exact T|]. split; [exact A|]. split.
    - intros H e He. apply (Hall H). apply (in_map (fun e => snd (fst e))), He.
    - intros h Hh. destruct (Only h Hh) as [[]|Y]. apply in_map_iff in Y as [e [Ee He]]. exists e. auto.
  Qed.

  Lemma lookup_new_flagged act target an c : Flagged (fst (lookup_new I sendok own now act target an c)).
  Proof.
    destruct (lookup_new_spec act target an c) as (_ & Only & So & _ & _ & _ & _ & Ok & _). cbv zeta in *.
    intros d h Hin. rewrite So in Hin. apply in_app_or in Hin as [Hin|Hin].
    - apply in_map_iff in Hin as [e [Ee He]]. inversion Ee; subst. left. apply (Ok Hok), He.
    - apply In_skipn_in in Hin. destruct (Only _ Hin) as [n [_ E]]. inversion E.
  Qed.

  (* the end-game round reaches everybody not flagged *)
  Lemma start_endgame_all_queried lk c : Flagged lk ->
    AllQueried own (fst (start_endgame I sendok own now lk c)) (cx_out (snd (start_endgame I sendok own now lk c))).
  Proof.
    intros HF. destruct (start_endgame_spec I sendok own now lk c) as (O & Kk & E & T & Rq & _).
    intros d h f Hin.
    assert (H : exists f0, In (d, h, f0) (lk_sorted lk)).
    { apply (in_map ckey) in Hin. rewrite Kk in Hin. apply in_map_iff in Hin as [[[d0 h0] f0] [Ek H0]].
      unfold ckey, cdist in Ek. cbn [fst snd] in Ek. inversion Ek; subst. exists f0. exact H0. }
    destruct H as [f0 H0]. rewrite Rq, T, O. destruct f0.
    - destruct (HF d h H0); auto.
    - right. right.
      assert (H : In h (unqueried (lk_sorted lk))).
      { unfold unqueried. apply in_map_iff. exists (d, h, false). split; [reflexivity|].
        apply filter_In. split; [exact H0 | reflexivity]. }
      destruct (round_sends_in I own (lk_act lk) (lk_target lk) _ (S (lk_next lk)) h H) as [j Hj].
      eexists. apply in_or_app. left. apply -> in_rev. exact Hj.
  Qed.

  Lemma rr_continue_heard lk2 c0 it nd : lk_endgame lk2 = false ->
    (forall d h, In (d, h, true) (lk_sorted lk2) ->
       In h (lk_requested lk2) \/ h = unspecified_handle \/ exists s, it = Some s /\ In h (used_slots s)) ->
    (lk_endgame (fst (rr_continue I sendok own now lk2 c0 it nd)) = false ->
       Flagged (fst (rr_continue I sendok own now lk2 c0 it nd))) /\
    (lk_endgame (fst (rr_continue I sendok own now lk2 c0 it nd)) = true ->
       AllQueried own (fst (rr_continue I sendok own now lk2 c0 it nd))
                  (cx_out (snd (rr_continue I sendok own now lk2 c0 it nd)))).
  Proof.
    intros Eeg Pre. unfold rr_continue. rewrite Eeg.
    assert (X : exists lk' c', (match it with
                                | Some it0 => start_request_round I sendok own now (map (fun h => (h, nd)) (used_slots it0)) lk2 c0
                                | None => (lk2, c0) end) = (lk', c') /\ Flagged lk' /\ lk_endgame lk' = false).
    { destruct it as [s|].
      - pose proof (start_request_round_spec I sendok own now (map (fun h => (h, nd)) (used_slots s)) lk2 c0) as X.
        rewrite map_map in X. cbn [fst] in X. rewrite map_id in X.
        destruct (start_request_round I sendok own now _ lk2 c0) as [lk' c']. cbn [fst snd] in X.
        exists lk', c'. split; [reflexivity|].
        pose proof (RoundSpec_all_ok _ _ _ _ _ _ _ _ Hok X) as Hall.
        destruct X as (_ & _ & _ & _ & _ & E & So & Inc & _ & _). split; [|congruence].
        intros d h Hin. rewrite So in Hin.
        destruct (Pre d h Hin) as [Y|[Y|[s' [Es Y]]]];
          [left; apply Inc, Y | right; exact Y | inversion Es; subst; left; apply Hall, Y].
      - exists lk2, c0. split; [reflexivity|]. split; [|exact Eeg].
        intros d h Hin. destruct (Pre d h Hin) as [Y|[Y|[s' [Es _]]]]; [auto | auto | discriminate]. }
    destruct X as [lk' [c' [E [HF Eeg']]]]. rewrite E. destruct (lk_active lk').
    - split; [|intros _; apply start_endgame_all_queried, HF].
      intros H. destruct (start_endgame_spec I sendok own now lk' c') as (_ & _ & E2 & _). congruence.
    - cbn [fst snd]. split; [intros _; exact HF | congruence].
  Qed.

  (* an answer: the flags stay truthful; if it makes the search enter its end-game, every candidate
     has been queried before or is queried now *)
  Lemma recv_response_heard lk c from tid r v6 : (lk_endgame lk = false -> Flagged lk) ->
    (lk_endgame (fst (recv_response I sendok own now lk c from tid r v6)) = false ->
       Flagged (fst (recv_response I sendok own now lk c from tid r v6))) /\
    (lk_endgame lk = false -> lk_endgame (fst (recv_response I sendok own now lk c from tid r v6)) = true ->
       AllQueried own (fst (recv_response I sendok own now lk c from tid r v6))
                  (cx_out (snd (recv_response I sendok own now lk c from tid r v6)))).
  Proof.
    intros HP. unfold recv_response.
    destruct (List.find (fun e => bytes_eqb (fst e) tid) (lk_active lk)) as [[t0 [dist key]]|];
      [|cbn [fst snd]; split; [exact HP | congruence]].
    set (c0 := if lk_endgame lk then c else _).
    destruct (rr_accept_heard lk from tid r v6 dist) as (_ & _ & Only & _). cbv zeta in Only.
    destruct (rr_accept_same lk from tid r v6 dist) as (Rq & Tg & Eg).
    destruct (rr_accept lk from tid r v6 dist) as [[lk2 it] nd]. cbn [fst snd] in *.
    destruct (lk_endgame lk) eqn:Eeg.
    - unfold rr_continue. rewrite Eg. cbn [fst snd]. split; [congruence | discriminate].
    - assert (Pre : forall d h, In (d, h, true) (lk_sorted lk2) ->
                      In h (lk_requested lk2) \/ h = unspecified_handle \/ exists s, it = Some s /\ In h (used_slots s)).
      { intros d h Hin. rewrite Rq. destruct (Only _ Hin) as [Y|[h' [_ E]]].
        - destruct (HP eq_refl d h Y); auto.
        - inversion E as [[E1 E2 E3]]. subst h'. symmetry in E3. unfold iterate_flag in E3.
          destruct it as [s|]; [|discriminate]. apply slot_matches_iff in E3 as [Y|[_ Y]]; [|auto].
          right. right. exists s. auto. }
      destruct (rr_continue_heard lk2 c0 it nd Eg Pre) as [A B].
      destruct (rr_continue I sendok own now lk2 c0 it nd) as [lk3 c1]. cbn [fst snd cx_out] in *.
      split; [exact A|]. intros _ E3 d h f Hin. destruct (B E3 d h f Hin) as [Y|[Y|[t Y]]]; auto.
      right. right. exists t. apply in_or_app. right. exact Y.
  Qed.

  Lemma recv_timeout_heard lk c tid : (lk_endgame lk = false -> Flagged lk) ->
    (lk_endgame (fst (recv_timeout I sendok own now lk c tid)) = false ->
       Flagged (fst (recv_timeout I sendok own now lk c tid))) /\
    (lk_endgame lk = false -> lk_endgame (fst (recv_timeout I sendok own now lk c tid)) = true ->
       AllQueried own (fst (recv_timeout I sendok own now lk c tid)) (cx_out (snd (recv_timeout I sendok own now lk c tid)))).
  Proof.
    intros HP. unfold recv_timeout.
    destruct (existsb (fun e => bytes_eqb (fst e) tid) (lk_active lk)); [|cbn [fst snd]; split; [exact HP | congruence]].
    set (lk0 := set_active lk _).
    assert (HF0 : lk_endgame lk = false -> Flagged lk0) by exact HP.
    change (lk_endgame lk0) with (lk_endgame lk).
    destruct (lk_endgame lk) eqn:Eeg; cbn [negb andb].
    - cbn [fst snd]. change (lk_endgame lk0) with (lk_endgame lk). split; [congruence | discriminate].
    - destruct (match lk_active lk0 with [] => true | _ => false end).
      + split; [|intros _ _; apply start_endgame_all_queried, HF0; reflexivity].
        intros H. destruct (start_endgame_spec I sendok own now lk0 c) as (_ & _ & E2 & _). congruence.
      + cbn [fst snd]. split; [intros _; apply HF0; reflexivity|]. change (lk_endgame lk0) with (lk_endgame lk). congruence.
  Qed.
End HeardSearch.

(* ------------------------------------------------------------------ the node *)
Section HeardNode.
  Variable I : ids.
  Variable sendok : nat -> bool.
  Variable cf : cfg.
  Variables single_refresh queue_early : bool.
  Notation step := (step I sendok cf single_refresh queue_early).
  Notation run := (run I sendok cf single_refresh queue_early).

  (* where an open search comes from: it was open before and has not been touched, or it has just
     been started, or it is an open search that has handled an answer or a query timeout *)
  Definition Started (now : Z) (lk' : lookup) : Prop :=
    exists act ih an c, lk' = fst (lookup_new I sendok (c_id cf) now act ih an c).

  Definition Answered (now : Z) (s : nstate) (outs : list output) (lk' : lookup) : Prop :=
    exists lk c from tid r, In lk (ns_lookups s) /\
      lk' = fst (recv_response I sendok (c_id cf) now lk c from tid r (c_v6 cf)) /\
      (lookup_ongoing lk' = true -> outs = rev (cx_out (snd (recv_response I sendok (c_id cf) now lk c from tid r (c_v6 cf))))).

  Definition TimedOut (now : Z) (s : nstate) (outs : list output) (lk' : lookup) : Prop :=
    exists lk c tid, In lk (ns_lookups s) /\
      lk' = fst (recv_timeout I sendok (c_id cf) now lk c tid) /\
      (lookup_ongoing lk' = true -> outs = rev (cx_out (snd (recv_timeout I sendok (c_id cf) now lk c tid)))).

  Lemma start_lookup_origin now s ih an lk' : In lk' (ns_lookups (fst (start_lookup I sendok cf now s ih an))) ->
    In lk' (ns_lookups s) \/ Started now lk'.
  Proof.
    destruct (start_lookup_shape I sendok cf now s ih an) as [_ [_ [[_ El]|[_ [lk [_ [_ [Elk El]]]]]]]]; rewrite El.
    - auto.
    - intros [<-|H]; [|auto]. right. exists (ns_next_act s), ih, an, (ctx_of s). exact Elk.
  Qed.

  Lemma start_queued_origin now : forall q s lk', In lk' (ns_lookups (fst (start_queued I sendok cf now s q))) ->
    In lk' (ns_lookups s) \/ Started now lk'.
  Proof.
    induction q as [|[ih an] r IH]; intros s lk'; cbn [start_queued]; [auto|].
    pose proof (start_lookup_origin now s ih an) as X.
    destruct (start_lookup I sendok cf now s ih an) as [s1 o1]. cbn [fst] in X.
    specialize (IH s1 lk'). destruct (start_queued I sendok cf now s1 r) as [s2 o2]. cbn [fst] in *.
    intros H. destruct (IH H) as [Y|Y]; [apply X, Y | right; exact Y].
  Qed.

  Lemma processed_origin now s c' lk' x :
    let r := if lookup_ongoing lk' then (with_ctx s c' (replace_lookup (ns_lookups s) lk'), rev (cx_out c'))
             else complete_lookup I sendok cf now (with_ctx s c' (replace_lookup (ns_lookups s) lk')) c' lk' in
    In x (ns_lookups (fst r)) ->
    (x = lk' /\ (lookup_ongoing lk' = true -> snd r = rev (cx_out c'))) \/ In x (ns_lookups s).
  Proof.
    cbv zeta. destruct (lookup_ongoing lk') eqn:O; cbn [fst snd].
    - intros H. cbn in H. apply replace_lookup_in' in H as [->|[H _]]; [left; split; auto | right; exact H].
    - destruct (complete_lookup_fields I sendok cf now (with_ctx s c' (replace_lookup (ns_lookups s) lk')) c' lk') as [_ F2].
      rewrite F2. intros H. apply remove_lookup_in' in H as [H _]. cbn in H.
      apply replace_lookup_in' in H as [->|[H _]]; [left; split; [reflexivity | discriminate] | right; exact H].
  Qed.

  Lemma step_origin now s e lk' : In lk' (ns_lookups (fst (step now s e))) ->
    In lk' (ns_lookups s) \/ Started now lk' \/
    Answered now s (snd (step now s e)) lk' \/ TimedOut now s (snd (step now s e)) lk'.
  Proof.
    destruct e as [src [tid [q|r|c x]]| |ih an| | |b|id a named|id a|rts|]; cbn [Handler.step m_body m_tid].
    - destruct (handle_query now cf (ns_table s) (ns_tok s) (ns_sto s) src tid q) as [[[t' tk'] st'] reply]. cbn. auto.
    - destruct (tid_action tid) as [aid|]; [|cbn; auto].
      destruct (lookup_by_action I s aid) as [lk|] eqn:El.
      2:{ destruct (aid_of I 0 =? aid)%N; cbn; auto. }
      apply lookup_by_action_in in El.
      set (c := mkCtx _ (ns_timer s) (ns_sends s) []).
      destruct (recv_response I sendok (c_id cf) now lk c (r_id r, src) tid r (c_v6 cf)) as [lk1 c1] eqn:Er.
      intros H. apply processed_origin in H as [[-> Ho]|H]; [|auto].
      right. right. left. exists lk, c, (r_id r, src), tid, r. rewrite Er. cbn [fst snd]. auto.
    - cbn. auto.
    - destruct (pop_timer (ns_timer s)) as [[en tm]|]; [|cbn; auto].
      destruct (te_task en) as [|tid|tid].
      + destruct (continue_refresh_acct I sendok cf single_refresh now (set_timer s tm)) as [E1 _]. rewrite E1. cbn. auto.
      + destruct (tid_action tid) as [a|]; [|cbn; auto].
        destruct (lookup_by_action I (set_timer s tm) a) as [lk|] eqn:El; [|cbn; auto].
        apply lookup_by_action_in in El. cbn in El.
        destruct (recv_timeout I sendok (c_id cf) now lk (ctx_of (set_timer s tm)) tid) as [lk1 c1] eqn:Er.
        intros H. apply processed_origin in H as [[-> Ho]|H]; [|cbn in H; auto].
        right. right. right. exists lk, (ctx_of (set_timer s tm)), tid. rewrite Er. cbn [fst snd]. auto.
      + destruct (tid_action tid) as [a|]; [|cbn; auto].
        destruct (lookup_by_action I (set_timer s tm) a) as [lk|]; [|cbn; auto].
        destruct (complete_lookup_fields I sendok cf now (set_timer s tm) (ctx_of (set_timer s tm)) lk) as [_ F2].
        rewrite F2. intros H. apply remove_lookup_in' in H as [H _]. cbn in H. auto.
    - destruct (queue_early && negb (ns_concluded s)); [cbn; auto|].
      intros H. destruct (start_lookup_origin now s ih an lk' H); auto.
    - destruct (ns_boot s); cbn; auto.
    - cbn. auto.
    - set (s0 := set_boot s b).
      assert (X : ns_lookups (fst (match b with
                   | BBootstrapped => let '(s1, o) := continue_refresh I sendok cf single_refresh now (set_waiters s0 [] (ns_next_waiter s0)) in
                                      (s1, map ONotify (ns_waiters s0) ++ o)
                   | _ => (s0, []) end)) = ns_lookups s).
      { destruct b; try reflexivity.
        destruct (continue_refresh_acct I sendok cf single_refresh now (set_waiters s0 [] (ns_next_waiter s0))) as [E1 _].
        destruct (continue_refresh I sendok cf single_refresh now (set_waiters s0 [] (ns_next_waiter s0))) as [s1 o]. exact E1. }
      destruct (match b with BBootstrapped => _ | _ => _ end) as [s2 out]. cbn [fst] in X.
      destruct (queue_early && negb (ns_concluded s2) && _); [|cbn [fst]; rewrite X; auto].
      pose proof (start_queued_origin now (ns_queued s2) (set_queue s2 [] true) lk') as Y.
      destruct (start_queued I sendok cf now (set_queue s2 [] true) (ns_queued s2)) as [s3 o3]. cbn [fst] in *.
      intros H. destruct (Y H) as [Z|Z]; [left; rewrite <- X; exact Z | auto].
    - cbn. auto.
    - cbn. auto.
    - cbn. auto.
    - cbn. auto.
  Qed.

  (* (Q) the flags of the searches that are not in their end-game are truthful *)
  Definition HeardInv (s : nstate) : Prop :=
    forall lk, In lk (ns_lookups s) -> lk_endgame lk = false -> Flagged lk.

  Lemma HeardInv_init id t0 : HeardInv (ns_init id t0).
  Proof. intros lk []. Qed.

  Hypothesis Hok : forall k, sendok k = true.

  Theorem step_heard now s e : HeardInv s -> HeardInv (fst (step now s e)).
  Proof.
    intros H lk' Hin Eeg. destruct (step_origin now s e lk' Hin) as [Y|[Y|[Y|Y]]].
    - apply H; assumption.
    - destruct Y as (act & ih & an & c & ->). apply lookup_new_flagged, Hok.
    - destruct Y as (lk & c & from & tid & r & Hl & -> & _).
      exact (proj1 (recv_response_heard I sendok (c_id cf) now Hok lk c from tid r (c_v6 cf) (H lk Hl)) Eeg).
    - destruct Y as (lk & c & tid & Hl & -> & _).
      exact (proj1 (recv_timeout_heard I sendok (c_id cf) now lk c tid (H lk Hl)) Eeg).
  Qed.

  Lemma run_heard : forall evs s, HeardInv s -> HeardInv (fst (run s evs)).
  Proof.
    induction evs as [|[now e] r IH]; intros s H; cbn [Handler.run]; [exact H|].
    pose proof (step_heard now s e H) as H1. destruct (step now s e) as [s1 o]. cbn [fst] in H1.
    specialize (IH s1 H1). destruct (run s1 r) as [s2 os]. exact IH.
  Qed.

  Theorem heard_run id t0 evs : HeardInv (fst (run (ns_init id t0) evs)).
  Proof. apply run_heard, HeardInv_init. Qed.

  Lemma AllQueried_rev own lk out : AllQueried own lk out -> AllQueried own lk (rev out).
  Proof.
    intros H d h f Hin. destruct (H d h f Hin) as [Y|[Y|[t Y]]]; auto.
    right. right. exists t. apply -> in_rev. exact Y.
  Qed.

  (* (T) the step in which a search enters its end-game *)
  Theorem endgame_entry_all_queried now s e lk lk' : U s -> HeardInv s ->
    In lk (ns_lookups s) -> lk_endgame lk = false ->
    In lk' (ns_lookups (fst (step now s e))) -> lk_act lk' = lk_act lk -> lk_endgame lk' = true ->
    AllQueried (c_id cf) lk' (snd (step now s e)).
  Proof.
    intros [Hn _] HI Hl Eeg Hl' Ea Eeg'.
    assert (Uq : forall x, In x (ns_lookups s) -> lk_act x = lk_act lk -> x = lk).
    { intros x Hx Ex. exact (NoDup_map_inj lk_act _ _ _ Hn Hx Hl Ex). }
    destruct (step_origin now s e lk' Hl') as [Y|[Y|[Y|Y]]].
    - rewrite (Uq lk' Y Ea) in Eeg'. congruence.
    - destruct Y as (act & ih & an & c & ->).
      destruct (lookup_new_spec I sendok (c_id cf) now act ih an c) as (_ & _ & _ & _ & E & _). cbv zeta in E. congruence.
    - destruct Y as (lk0 & c & from & tid & r & Hl0 & -> & Ho).
      rewrite recv_response_act in Ea. rewrite (Uq lk0 Hl0 Ea) in *.
      rewrite (Ho (ongoing_endgame _ Eeg')). apply AllQueried_rev.
      exact (proj2 (recv_response_heard I sendok (c_id cf) now Hok lk c from tid r (c_v6 cf) (HI lk Hl)) Eeg Eeg').
    - destruct Y as (lk0 & c & tid & Hl0 & -> & Ho).
      rewrite recv_timeout_act in Ea. rewrite (Uq lk0 Hl0 Ea) in *.
      rewrite (Ho (ongoing_endgame _ Eeg')). apply AllQueried_rev.
      exact (proj2 (recv_timeout_heard I sendok (c_id cf) now lk c tid (HI lk Hl)) Eeg Eeg').
  Qed.
End HeardNode.

(* ------------------------------------------------------------------ more on the rounds *)
Section HeardRounds.
  Variable I : ids.
  Variable sendok : nat -> bool.
  Variable own : N.
  Variable now : Z.

  (* the queries of the second half of recv_response, exactly: the nodes in the iterate slots, in slot
     order, and -- if nothing is outstanding then -- the end-game round *)
  Lemma rr_continue_out lk2 c0 it nd : lk_endgame lk2 = false ->
    let hs := match it with Some s => used_slots s | None => [] end in
    cx_out (snd (rr_continue I sendok own now lk2 c0 it nd)) =
      (if lk_endgame (fst (rr_continue I sendok own now lk2 c0 it nd))
       then rev (round_sends I own (lk_act lk2) (lk_target lk2) (S (lk_next lk2 + length hs)) (unqueried (lk_sorted lk2)))
       else [])
      ++ rev (round_sends I own (lk_act lk2) (lk_target lk2) (lk_next lk2) hs) ++ cx_out c0.
  Proof.
    intros Eeg. cbv zeta. unfold rr_continue. rewrite Eeg.
    assert (X : exists lk' c', (match it with
                                | Some it0 => start_request_round I sendok own now (map (fun h => (h, nd)) (used_slots it0)) lk2 c0
                                | None => (lk2, c0) end) = (lk', c') /\
                RoundSpec I sendok own (match it with Some s => used_slots s | None => [] end) lk2 c0 lk' c').
    { destruct it as [s|].
      - pose proof (start_request_round_spec I sendok own now (map (fun h => (h, nd)) (used_slots s)) lk2 c0) as X.
        rewrite map_map in X. cbn [fst] in X. rewrite map_id in X.
        destruct (start_request_round I sendok own now _ lk2 c0) as [lk' c']. exists lk', c'. split; [reflexivity | exact X].
      - exists lk2, c0. split; [reflexivity|]. unfold RoundSpec. cbn [round_sends rev app length]. rewrite !Nat.add_0_r.
        repeat split; auto using incl_refl. intros i h H. destruct i; discriminate. }
    destruct X as [lk' [c' [E (O & _ & Nx & A & T & Eg & So & _)]]]. rewrite E.
    destruct (lk_active lk').
    - destruct (start_endgame_spec I sendok own now lk' c') as (O2 & _ & E2 & _).
      rewrite E2, O2, O, A, T, Nx, So. reflexivity.
    - cbn [fst snd]. rewrite Eg, Eeg. exact O.
  Qed.

  Lemma request_round_active : forall nodes lk c sent, nodes <> [] \/ lk_active lk <> [] ->
    lk_active (fst (fst (request_round I sendok own now nodes lk c sent))) <> [].
  Proof.
    induction nodes as [|[h d] r IH]; intros lk c sent H; cbn [request_round].
    - cbn [fst]. destruct H as [H|H]; [contradiction | exact H].
    - destruct (gen_tid I lk) as [tid lk1]. destruct (schedule_in now lookup_timeout _ (cx_timer c)) as [tm key].
      destruct (send sendok _ (snd h) _) as [c2 ok]. destruct ok; apply IH; right; cbn; discriminate.
  Qed.

  Lemma request_round_sent : (forall k, sendok k = true) -> forall nodes lk c sent,
    snd (request_round I sendok own now nodes lk c sent) = sent + length nodes.
  Proof.
    intros Hok. induction nodes as [|[h d] r IH]; intros lk c sent; cbn [request_round]; [cbn; lia|].
    destruct (gen_tid I lk) as [tid lk1]. destruct (schedule_in now lookup_timeout _ (cx_timer c)) as [tm key].
    unfold send. rewrite Hok. rewrite IH. cbn [length]. lia.
  Qed.

  (* a search that has nothing outstanding right after its start (and is therefore finished at once)
     has no candidates at all *)
  Lemma lookup_new_immediate_empty act target an c : (forall k, sendok k = true) ->
    lk_active (fst (lookup_new I sendok own now act target an c)) = [] ->
    lk_sorted (fst (lookup_new I sendok own now act target an c)) = [].
  Proof.
    intros Hok. unfold lookup_new. rewrite start_request_round_sorted. cbn [lk_sorted].
    set (srt := fold_left _ _ []). unfold start_request_round.
    match goal with |- context [request_round I sendok own now ?ns ?l c 0] =>
      pose proof (request_round_sent Hok ns l c 0) as Xs; pose proof (request_round_active ns l c 0) as Xa;
      destruct (request_round I sendok own now ns l c 0) as [[lk' c'] sent] end.
    cbn [fst snd] in *. rewrite map_length in Xs. destruct srt as [|x0 xs]; [reflexivity|].
    intros H. exfalso. change (firstn initial_pick (x0 :: xs)) with (x0 :: firstn 3 xs) in *.
    cbn [length map] in *. subst sent. cbn [Nat.eqb Nat.add] in H. apply Xa; [left; discriminate | exact H].
  Qed.
End HeardRounds.

Section HeardNode2.
  Variable I : ids.
  Variable sendok : nat -> bool.
  Variable cf : cfg.
  Variables single_refresh queue_early : bool.
  Notation step := (step I sendok cf single_refresh queue_early).
  Notation run := (run I sendok cf single_refresh queue_early).

  (* no search is in its end-game right after the step that starts it *)
  Theorem started_not_endgame now s e lk' : In lk' (ns_lookups (fst (step now s e))) ->
    ~ In (lk_act lk') (acts s) -> lk_endgame lk' = false.
  Proof.
    intros Hin Hn. destruct (step_origin I sendok cf single_refresh queue_early now s e lk' Hin) as [Y|[Y|[Y|Y]]].
    - exfalso. apply Hn. apply in_map, Y.
    - destruct Y as (act & ih & an & c & ->).
      destruct (lookup_new_spec I sendok (c_id cf) now act ih an c) as (_ & _ & _ & _ & E & _). exact E.
    - destruct Y as (lk0 & c & from & tid & r & Hl0 & -> & _). exfalso. apply Hn.
      rewrite recv_response_act. apply in_map, Hl0.
    - destruct Y as (lk0 & c & tid & Hl0 & -> & _). exfalso. apply Hn.
      rewrite recv_timeout_act. apply in_map, Hl0.
  Qed.

  Hypothesis Hok : forall k, sendok k = true.

  (* (T) over runs: whatever happened before, when a search enters its end-game every candidate has
     been queried in an earlier round or is queried by an output of that very step *)
  Theorem all_heard_queried_at_endgame id t0 evs now e lk lk' :
    let s := fst (run (ns_init id t0) evs) in
    In lk (ns_lookups s) -> lk_endgame lk = false ->
    In lk' (ns_lookups (fst (step now s e))) -> lk_act lk' = lk_act lk -> lk_endgame lk' = true ->
    AllQueried (c_id cf) lk' (snd (step now s e)).
  Proof.
    cbv zeta. apply (endgame_entry_all_queried I sendok cf single_refresh queue_early Hok).
    - exact (proj1 (run_U I sendok cf single_refresh queue_early evs (ns_init id t0) (U_init id t0))).
    - apply heard_run, Hok.
  Qed.

  (* a search that is finished in the step that starts it had no candidate at all *)
  Theorem immediate_end_no_candidates now s ih an :
    lk_active (fst (lookup_new I sendok (c_id cf) now (ns_next_act s) ih an (ctx_of s))) = [] ->
    lk_sorted (fst (lookup_new I sendok (c_id cf) now (ns_next_act s) ih an (ctx_of s))) = [].
  Proof. apply lookup_new_immediate_empty, Hok. Qed.
End HeardNode2.

(* the definitions written out *)
Lemma round_sends_unfold I own act target k :
  round_sends I own act target k [] = [] /\
  forall h r, round_sends I own act target k (h :: r) =
              OSend (snd h) (get_peers_msg own (tid_bytes (aid_of I act) (mid_of I act k)) target)
              :: round_sends I own act target (S k) r.
Proof. split; reflexivity. Qed.

Lemma round_sends_nth I own act target : forall hs k i h, nth_error hs i = Some h ->
  nth_error (round_sends I own act target k hs) i =
  Some (OSend (snd h) (get_peers_msg own (tid_bytes (aid_of I act) (mid_of I act (k + i))) target)).
Proof.
  induction hs as [|x r IH]; intros k i h H; [destruct i; discriminate|]. destruct i as [|i]; cbn [nth_error round_sends] in *.
  - inversion H; subst. rewrite Nat.add_0_r. reflexivity.
  - rewrite (IH (S k) i h H). replace (k + S i) with (S k + i) by lia. reflexivity.
Qed.
