(* The server contract (C01): composition of the token store, the announce
   store and the query handler over arbitrary sequences of queries.

   A history is a list of query events (time, source, transaction id, query);
   [qrun] threads (table, token store, announce store) through [handle_query].
   The token-store and the announce-store components of such a run are exactly
   the runs [trun] / [srun] of the projected operation lists ([tok_ops],
   [sto_ops]), so the history theorems of Token_Facts (token_valid_10min) and
   Storage_Facts (announce_then_find) transfer to what a peer observes in the
   replies. *)
From BT Require Import model.Prelude gen.Consts model.Compact model.Krpc model.Token model.Storage model.Table model.Txn model.Handler.
From BT Require Import proofs.Prelude_Facts proofs.Compact_Facts proofs.Token_Facts proofs.Storage_Facts proofs.Handler_Facts.
From Coq Require Import ZifyBool ZifyN ZifyNat.
Open Scope Z_scope.

(* ------------------------------------------------------------------ runs of queries *)
Definition qev := (Z * addr * bytes * request)%type.        (* time, source, transaction id, query *)
Definition sstate := (table * tstore * store)%type.

Definition s_tbl (s : sstate) : table := fst (fst s).
Definition s_tok (s : sstate) : tstore := snd (fst s).
Definition s_sto (s : sstate) : store := snd s.

Definition qtime (e : qev) : Z := fst (fst (fst e)).

Definition qstep (cf : cfg) (s : sstate) (e : qev) : sstate * option msg :=
  let '(now, src, tid, q) := e in
  let '(t, tk, st) := s in
  let '(t', tk', st', r) := handle_query now cf t tk st src tid q in ((t', tk', st'), r).

Fixpoint qrun (cf : cfg) (s : sstate) (qs : list qev) : sstate * list (option msg) :=
  match qs with
  | [] => (s, [])
  | e :: r => let '(s1, x) := qstep cf s e in let '(s2, xs) := qrun cf s1 r in (s2, x :: xs)
  end.

(* non-decreasing time stamps, starting at t0 *)
Fixpoint qtimes_from (t0 : Z) (qs : list qev) : Prop :=
  match qs with
  | [] => True
  | e :: r => t0 <= qtime e /\ qtimes_from (qtime e) r
  end.

(* the contact address an announce stores: source IP with the announced port, or the source port *)
Definition contact (src : addr) (port : option N) : addr :=
  match port with None => src | Some p => mkAddr (a_v6 src) (a_ip src) p end.

(* ---- projection to the token store ---- *)
Definition tok_op (e : qev) : list (Z * top) :=
  let '(now, src, tid, q) := e in
  match q with
  | GetPeers _ _ _ => [(now, TCheckout (ip_of src))]
  | AnnouncePeer _ _ _ token =>
      if Nat.eqb (length token) 20 then [(now, TCheckin (ip_of src) (tok_of_bytes (ip_of src) token))] else []
  | _ => []
  end.
Definition tok_ops (qs : list qev) : list (Z * top) := flat_map tok_op qs.

(* ---- projection to the announce store: only announces whose token is accepted reach it ---- *)
Definition ann_valid (tk : tstore) (now : Z) (src : addr) (token : bytes) : bool :=
  if Nat.eqb (length token) 20 then fst (checkin (ip_of src) (tok_of_bytes (ip_of src) token) now tk) else false.

Definition sto_op (s : sstate) (e : qev) : list (Z * sop) :=
  let '(now, src, tid, q) := e in
  match q with
  | GetPeers _ ih _ => [(now, SFind ih)]
  | AnnouncePeer _ ih port token =>
      if ann_valid (s_tok s) now src token then [(now, SAdd (ih, contact src port))] else []
  | _ => []
  end.

Fixpoint sto_ops (cf : cfg) (s : sstate) (qs : list qev) : list (Z * sop) :=
  match qs with
  | [] => []
  | e :: r => sto_op s e ++ sto_ops cf (fst (qstep cf s e)) r
  end.

(* the (info-hash, contact) pair an announce query is about *)
Definition announce_item (e : qev) : option item :=
  let '(now, src, tid, q) := e in
  match q with
  | AnnouncePeer _ ih port _ => Some (ih, contact src port)
  | _ => None
  end.

(* ------------------------------------------------------------------ list-of-steps lemmas *)
Lemma qrun_cons cf s e r : qrun cf s (e :: r) =
  (fst (qrun cf (fst (qstep cf s e)) r), snd (qstep cf s e) :: snd (qrun cf (fst (qstep cf s e)) r)).
Proof. cbn [qrun]. destruct (qstep cf s e) as [s1 x]. cbn [fst snd]. destruct (qrun cf s1 r). reflexivity. Qed.

Lemma qrun_app_fst cf : forall a s b, fst (qrun cf s (a ++ b)) = fst (qrun cf (fst (qrun cf s a)) b).
Proof.
  induction a as [|e a IH]; intros s b; [reflexivity|].
  cbn [app]. rewrite !qrun_cons. cbn [fst]. apply IH.
Qed.

Lemma qrun_app_snd cf : forall a s b,
  snd (qrun cf s (a ++ b)) = snd (qrun cf s a) ++ snd (qrun cf (fst (qrun cf s a)) b).
Proof.
  induction a as [|e a IH]; intros s b; [reflexivity|].
  cbn [app]. rewrite !qrun_cons. cbn [fst snd app]. rewrite IH. reflexivity.
Qed.

Lemma qrun_length cf : forall qs s, length (snd (qrun cf s qs)) = length qs.
Proof.
  induction qs as [|e r IH]; intros s; [reflexivity|].
  rewrite qrun_cons. cbn [snd length]. rewrite IH. reflexivity.
Qed.

(* the reply to the query at position [length a] *)
Lemma qnth cf s a e b d :
  nth (length a) (snd (qrun cf s (a ++ e :: b))) d = snd (qstep cf (fst (qrun cf s a)) e).
Proof.
  rewrite qrun_app_snd, qrun_cons. cbn [snd].
  rewrite <- (qrun_length cf a s). apply nth_middle.
Qed.

Lemma srun_cons s o r : srun s (o :: r) =
  (fst (srun (fst (sstep s o)) r), snd (sstep s o) :: snd (srun (fst (sstep s o)) r)).
Proof. cbn [srun]. destruct (sstep s o) as [s1 x]. cbn [fst snd]. destruct (srun s1 r). reflexivity. Qed.

Lemma srun_app_fst : forall a s b, fst (srun s (a ++ b)) = fst (srun (fst (srun s a)) b).
Proof.
  induction a as [|o a IH]; intros s b; [reflexivity|].
  cbn [app]. rewrite !srun_cons. cbn [fst]. apply IH.
Qed.

Lemma srun_app_snd : forall a s b, snd (srun s (a ++ b)) = snd (srun s a) ++ snd (srun (fst (srun s a)) b).
Proof.
  induction a as [|o a IH]; intros s b; [reflexivity|].
  cbn [app]. rewrite !srun_cons. cbn [fst snd app]. rewrite IH. reflexivity.
Qed.

Lemma snth s a o b d :
  nth (length a) (snd (srun s (a ++ o :: b))) d = snd (sstep (fst (srun s a)) o).
Proof.
  rewrite srun_app_snd, srun_cons. cbn [snd].
  rewrite <- (srun_length s a). apply nth_middle.
Qed.

Lemma sto_ops_app cf : forall a s b,
  sto_ops cf s (a ++ b) = sto_ops cf s a ++ sto_ops cf (fst (qrun cf s a)) b.
Proof.
  induction a as [|e a IH]; intros s b; [reflexivity|].
  cbn [app sto_ops]. rewrite IH, qrun_cons. cbn [fst]. rewrite app_assoc. reflexivity.
Qed.

Lemma tok_ops_app a b : tok_ops (a ++ b) = tok_ops a ++ tok_ops b.
Proof. apply flat_map_app. Qed.

Lemma tok_ops_cons e r : tok_ops (e :: r) = tok_op e ++ tok_ops r.
Proof. reflexivity. Qed.

(* ------------------------------------------------------------------ one step *)
Section Step.
  Variable cf : cfg.
  Hypothesis Hro : c_read_only cf = false.

  (* the token store sees exactly the projected operation *)
  Lemma qstep_tok s e : s_tok (fst (qstep cf s e)) = fst (trun (s_tok s) (tok_op e)).
  Proof.
    destruct s as [[t tk] st], e as [[[now src] tid] q]. unfold qstep, handle_query. rewrite Hro.
    destruct q as [id|id target w|id ih w|id ih port token]; cbn [tok_op s_tok fst snd trun].
    - reflexivity.
    - destruct (find_closest _ _ _ _ _) as [n4 n6]. reflexivity.
    - destruct (find ih now st) as [found st']. destruct (find_closest _ _ _ _ _) as [n4 n6].
      unfold tstep. cbn [fst snd]. destruct (checkout (ip_of src) now tk) as [k tk']. reflexivity.
    - destruct (Nat.eqb (length token) 20); cbn [trun].
      + unfold tstep. cbn [fst snd].
        destruct (checkin (ip_of src) (tok_of_bytes (ip_of src) token) now tk) as [valid tk'].
        destruct valid; cbn [negb]; [|reflexivity].
        destruct (add _ now st) as [ok st']. destruct ok; reflexivity.
      + cbn [negb]. reflexivity.
  Qed.

  (* the announce store sees exactly the projected operation *)
  Lemma qstep_sto s e : s_sto (fst (qstep cf s e)) = fst (srun (s_sto s) (sto_op s e)).
  Proof.
    destruct s as [[t tk] st], e as [[[now src] tid] q]. unfold qstep, handle_query. rewrite Hro.
    destruct q as [id|id target w|id ih w|id ih port token]; cbn [sto_op s_tok s_sto fst snd srun].
    - reflexivity.
    - destruct (find_closest _ _ _ _ _) as [n4 n6]. reflexivity.
    - unfold sstep. cbn [fst snd].
      destruct (find ih now st) as [found st']. destruct (find_closest _ _ _ _ _) as [n4 n6].
      destruct (checkout (ip_of src) now tk) as [k tk']. reflexivity.
    - unfold ann_valid. destruct (Nat.eqb (length token) 20).
      + destruct (checkin (ip_of src) (tok_of_bytes (ip_of src) token) now tk) as [valid tk']. cbn [fst].
        destruct valid; cbn [negb srun]; [|reflexivity].
        unfold sstep, contact. cbn [fst snd].
        destruct (add _ now st) as [ok st']. destruct ok; reflexivity.
      + cbn [negb srun]. reflexivity.
  Qed.

  (* reply to get_peers: the values found in the store (requester's family, capped) and the
     encoding of the token checked out for the requester's IP *)
  Lemma qstep_get_peers s now src tid id ih w :
    exists n4 n6,
      snd (qstep cf s (now, src, tid, GetPeers id ih w)) =
      Some (mkMsg tid (Resp (mkResp (c_id cf)
              (firstn (max_values (length tid) (a_v6 src))
                      (filter (fun a => Bool.eqb (a_v6 a) (a_v6 src)) (fst (find ih now (s_sto s)))))
              n4 n6 (Some (tok_bytes (fst (checkout (ip_of src) now (s_tok s)))))))).
  Proof.
    destruct s as [[t tk] st]. unfold qstep, handle_query. rewrite Hro. cbn [s_tok s_sto fst snd].
    destruct (find ih now st) as [found st']. destruct (find_closest _ _ _ _ _) as [n4 n6].
    destruct (checkout (ip_of src) now tk) as [k tk']. cbn [fst snd]. exists n4, n6. reflexivity.
  Qed.

  (* reply to announce_peer: 203 when the token is refused, else 202 when the store is full, else
     the acknowledgement *)
  Lemma qstep_announce s now src tid id ih port token :
    snd (qstep cf s (now, src, tid, AnnouncePeer id ih port token)) =
    Some (mkMsg tid
      (if ann_valid (s_tok s) now src token
       then if fst (add (ih, contact src port) now (s_sto s))
            then Resp (empty_resp (c_id cf)) else Err 202%N err_text_full
       else Err 203%N err_text_token)).
  Proof.
    destruct s as [[t tk] st]. unfold qstep, handle_query, ann_valid, contact. rewrite Hro. cbn [s_tok s_sto fst snd].
    destruct (Nat.eqb (length token) 20).
    - destruct (checkin (ip_of src) (tok_of_bytes (ip_of src) token) now tk) as [valid tk']. cbn [fst].
      destruct valid; cbn [negb]; [|reflexivity].
      destruct (add _ now st) as [ok st']. cbn [fst]. destruct ok; reflexivity.
    - cbn [negb]. reflexivity.
  Qed.
End Step.

(* ------------------------------------------------------------------ projections of a whole run *)
Section Run.
  Variable cf : cfg.
  Hypothesis Hro : c_read_only cf = false.

  (* 1a. the token store after a run of queries is the token store after the projected operations *)
  Theorem qrun_tok : forall qs s, s_tok (fst (qrun cf s qs)) = fst (trun (s_tok s) (tok_ops qs)).
  Proof.
    induction qs as [|e r IH]; intros s; [reflexivity|].
    rewrite qrun_cons, tok_ops_cons, trun_app_fst. cbn [fst]. rewrite IH, (qstep_tok cf Hro). reflexivity.
  Qed.

  (* 1b. the announce store after a run of queries is the store after the projected operations *)
  Theorem qrun_sto : forall qs s, s_sto (fst (qrun cf s qs)) = fst (srun (s_sto s) (sto_ops cf s qs)).
  Proof.
    induction qs as [|e r IH]; intros s; [reflexivity|].
    rewrite qrun_cons. cbn [fst sto_ops]. rewrite srun_app_fst, IH, (qstep_sto cf Hro). reflexivity.
  Qed.
End Run.

(* ---- time stamps of the projections ---- *)
Lemma ttimes_weaken ops : forall u u', ttimes_from u ops -> u' <= u -> ttimes_from u' ops.
Proof. destruct ops as [|o r]; intros u u' H Hle; [exact I|]. cbn in *. destruct H as [H1 H2]. split; [lia | exact H2]. Qed.

Lemma times_weaken ops : forall u u', times_from u ops -> u' <= u -> times_from u' ops.
Proof. destruct ops as [|o r]; intros u u' H Hle; [exact I|]. cbn in *. destruct H as [H1 H2]. split; [lia | exact H2]. Qed.

Lemma tok_op_shape e : tok_op e = [] \/ exists x, tok_op e = [(qtime e, x)].
Proof.
  destruct e as [[[now src] tid] q]. unfold qtime. cbn [fst tok_op].
  destruct q as [id|id target w|id ih w|id ih port token]; try (left; reflexivity).
  - right. eexists. reflexivity.
  - destruct (Nat.eqb (length token) 20); [right; eexists; reflexivity | left; reflexivity].
Qed.

Lemma sto_op_shape s e : sto_op s e = [] \/ exists x, sto_op s e = [(qtime e, x)].
Proof.
  destruct e as [[[now src] tid] q]. unfold qtime. cbn [fst sto_op].
  destruct q as [id|id target w|id ih w|id ih port token]; try (left; reflexivity).
  - right. eexists. reflexivity.
  - destruct (ann_valid _ _ _ _); [right; eexists; reflexivity | left; reflexivity].
Qed.

(* 1c. *)
Theorem qtimes_tok : forall qs t0, qtimes_from t0 qs -> ttimes_from t0 (tok_ops qs).
Proof.
  induction qs as [|e r IH]; intros t0 H; [exact I|].
  cbn [qtimes_from] in H. destruct H as [H1 H2]. rewrite tok_ops_cons. specialize (IH _ H2).
  destruct (tok_op_shape e) as [->|[x ->]]; cbn [app].
  - eapply ttimes_weaken; eassumption.
  - cbn [ttimes_from fst]. split; assumption.
Qed.

Theorem qtimes_sto cf : forall qs s t0, qtimes_from t0 qs -> times_from t0 (sto_ops cf s qs).
Proof.
  induction qs as [|e r IH]; intros s t0 H; [exact I|].
  cbn [qtimes_from] in H. destruct H as [H1 H2]. cbn [sto_ops]. specialize (IH (fst (qstep cf s e)) _ H2).
  destruct (sto_op_shape s e) as [->|[x ->]]; cbn [app].
  - eapply times_weaken; eassumption.
  - cbn [times_from fst]. split; assumption.
Qed.

(* every store insertion of the projection comes from an announce query about that very pair *)
Lemma sto_ops_add cf it tt : forall qs s, In (tt, SAdd it) (sto_ops cf s qs) ->
  exists e, In e qs /\ announce_item e = Some it.
Proof.
  induction qs as [|e r IH]; intros s H; [contradiction|].
  cbn [sto_ops] in H. apply in_app_or in H as [H|H].
  - exists e. split; [left; reflexivity|].
    destruct e as [[[now src] tid] q]. cbn [sto_op announce_item] in *.
    destruct q as [id|id target w|id ih w|id ih port token]; cbn [In] in H.
    + contradiction.
    + contradiction.
    + destruct H as [H|[]]. discriminate.
    + destruct (ann_valid _ _ _ _); cbn [In] in H; [|contradiction].
      destruct H as [H|[]]. inversion H. reflexivity.
  - destruct (IH _ H) as [e' [A B]]. exists e'. split; [right; exact A | exact B].
Qed.

(* ------------------------------------------------------------------ 2. token bytes round trip *)
Lemma tok_round_trip ip s : (N.of_nat s < 2 ^ 24)%N -> tok_of_bytes ip (tok_bytes (TSha ip s)) = TSha ip s.
Proof.
  intros Hs. unfold tok_of_bytes, tok_bytes.
  rewrite firstn_cons, firstn_app, to_be_length, Nat.sub_diag, firstn_all2 by (rewrite to_be_length; lia).
  cbn [firstn]. rewrite app_nil_r.
  replace (bytes_eqb _ _) with true by (symmetry; apply bytes_eqb_eq; reflexivity).
  change (skipn 17 (?f :: ?l)) with (skipn 16 l).
  rewrite skipn_app, to_be_length, Nat.sub_diag, skipn_all2 by (rewrite to_be_length; lia).
  cbn [skipn app]. rewrite be_to_N_to_be_small by exact Hs. rewrite Nat2N.id. reflexivity.
Qed.

Lemma firstn_in_or {A} n (l : list A) x : In x l -> In x (firstn n l) \/ length (firstn n l) = n.
Proof.
  intros H. destruct (Nat.le_gt_cases (length l) n) as [Hl|Hl].
  - left. rewrite firstn_all2 by exact Hl. exact H.
  - right. rewrite firstn_length. lia.
Qed.

(* ------------------------------------------------------------------ 3. the server contract *)
Theorem server_contract :
  forall (cf : cfg) (tbl : table) (t0 : Z) (pre mid mid2 post : list qev)
         (t1 : Z) (src1 : addr) (tid1 : bytes) (id1 ih1 : N) (w1 : option want)
         (t2 : Z) (src2 : addr) (tid2 : bytes) (id2 ih : N) (port : option N) (tokb : bytes)
         (t3 : Z) (src3 : addr) (tid3 : bytes) (id3 : N) (w3 : option want)
         (r : response) (k : token),
  let qs := pre ++ (t1, src1, tid1, GetPeers id1 ih1 w1) :: mid ++
            (t2, src2, tid2, AnnouncePeer id2 ih port tokb) :: mid2 ++
            (t3, src3, tid3, GetPeers id3 ih w3) :: post in
  let replies := snd (qrun cf (tbl, tinit t0, empty_store) qs) in
  let caddr := match port with None => src2 | Some p => mkAddr (a_v6 src2) (a_ip src2) p end in
  let ack := Some (mkMsg tid2 (Resp (empty_resp (c_id cf)))) in
  let ra := nth (length pre + S (length mid)) replies None in
  let rf := nth (length pre + S (length mid) + S (length mid2)) replies None in
  c_read_only cf = false ->
  qtimes_from t0 qs ->
  ip_of src2 = ip_of src1 ->
  nth (length pre) replies None = Some (mkMsg tid1 (Resp r)) ->
  r_token r = Some tokb ->
  out_at t0 (tok_ops qs) (length (tok_ops pre)) = OTok k ->
  tok_of_bytes (ip_of src1) (tok_bytes k) = k ->
  t2 <= t1 + 600000000000 ->
  (ra = ack \/ ra = Some (mkMsg tid2 (Err 202%N err_text_full))) /\
  exists r3, rf = Some (mkMsg tid3 (Resp r3)) /\
    (ra = ack -> a_v6 src3 = a_v6 src2 -> t3 - t2 < 86400000000000 ->
       In caddr (r_values r3) \/ length (r_values r3) = max_values (length tid3) (a_v6 src3)) /\
    ((forall e, In e mid2 -> announce_item e <> Some (ih, caddr)) -> 86400000000000 <= t3 - t2 ->
       ~ In caddr (r_values r3)).
Proof.
  intros cf tbl t0 pre mid mid2 post t1 src1 tid1 id1 ih1 w1 t2 src2 tid2 id2 ih port tokb
         t3 src3 tid3 id3 w3 r k qs replies caddr ack ra rf Hro Ht Hip Hrep Htok Hk Hrt Hle.
  set (e1 := (t1, src1, tid1, GetPeers id1 ih1 w1) : qev) in *.
  set (e2 := (t2, src2, tid2, AnnouncePeer id2 ih port tokb) : qev) in *.
  set (e3 := (t3, src3, tid3, GetPeers id3 ih w3) : qev) in *.
  set (s0 := (tbl, tinit t0, empty_store) : sstate) in *.
  set (A2 := pre ++ e1 :: mid).
  set (A3 := A2 ++ e2 :: mid2).
  set (S1 := fst (qrun cf s0 pre)).
  set (S2 := fst (qrun cf s0 A2)).
  set (S3 := fst (qrun cf s0 A3)).
  set (ip1 := ip_of src1) in *.
  assert (EA2 : qs = A2 ++ e2 :: mid2 ++ e3 :: post).
  { unfold qs, A2. rewrite <- app_assoc. reflexivity. }
  assert (EA3 : qs = A3 ++ e3 :: post).
  { rewrite EA2. unfold A3. rewrite <- app_assoc. reflexivity. }
  assert (LA2 : length A2 = (length pre + S (length mid))%nat).
  { unfold A2. rewrite app_length. reflexivity. }
  assert (LA3 : length A3 = (length pre + S (length mid) + S (length mid2))%nat).
  { unfold A3. rewrite app_length, LA2. reflexivity. }
  assert (Etk : forall a, s_tok (fst (qrun cf s0 a)) = fst (trun (tinit t0) (tok_ops a))).
  { intros a. apply (qrun_tok cf Hro). }
  assert (Est : forall a, s_sto (fst (qrun cf s0 a)) = fst (srun empty_store (sto_ops cf s0 a))).
  { intros a. apply (qrun_sto cf Hro). }
  (* ---- the token issued by the first get_peers ---- *)
  assert (Ek : k = fst (checkout ip1 t1 (s_tok S1))).
  { unfold out_at, qs in Hk. rewrite tok_ops_app, tok_ops_cons in Hk.
    change (tok_op e1) with [(t1, TCheckout ip1)] in Hk. cbn [app] in Hk.
    rewrite nth_out_1 in Hk. unfold S1. rewrite Etk.
    unfold tstep in Hk. cbn [fst snd] in Hk.
    destruct (checkout ip1 t1 (fst (trun (tinit t0) (tok_ops pre)))) as [k' tk']. cbn [fst snd] in *.
    inversion Hk. reflexivity. }
  assert (Eb : tokb = tok_bytes k).
  { unfold replies, qs in Hrep. rewrite qnth in Hrep. fold S1 in Hrep.
    destruct (qstep_get_peers cf Hro S1 t1 src1 tid1 id1 ih1 w1) as [n4 [n6 E]].
    fold e1 in E. rewrite E in Hrep. inversion Hrep as [Hr]. rewrite <- Hr in Htok. cbn [r_token] in Htok.
    inversion Htok. rewrite Ek. reflexivity. }
  assert (Lb : length tokb = 20%nat).
  { rewrite Eb, Ek. unfold checkout. cbn [fst]. apply tok_bytes_length. }
  (* ---- (a) the announce presents a valid token ---- *)
  assert (Eop2 : tok_op e2 = [(t2, TCheckin ip1 k)]).
  { unfold e2. cbn [tok_op]. rewrite Lb. cbn [Nat.eqb]. rewrite Hip. fold ip1. rewrite Eb, Hrt. reflexivity. }
  assert (Etq : tok_ops qs = tok_ops pre ++ (t1, TCheckout ip1) :: tok_ops mid ++
                            (t2, TCheckin ip1 k) :: tok_ops (mid2 ++ e3 :: post)).
  { unfold qs. rewrite tok_ops_app, tok_ops_cons, tok_ops_app, tok_ops_cons, Eop2. reflexivity. }
  assert (Hv : ann_valid (s_tok S2) t2 src2 tokb = true).
  { unfold ann_valid. rewrite Lb. cbn [Nat.eqb]. rewrite Hip. fold ip1. rewrite Eb, Hrt.
    pose proof (token_valid_10min t0 (tok_ops pre) (tok_ops mid) (tok_ops (mid2 ++ e3 :: post)) t1 t2 ip1 k) as V.
    cbn zeta in V. rewrite <- Etq in V. specialize (V (qtimes_tok _ _ Ht) Hk Hle).
    unfold out_at in V. rewrite Etq, nth_out_2 in V.
    unfold S2. rewrite Etk. unfold A2. rewrite tok_ops_app, tok_ops_cons.
    change (tok_op e1) with [(t1, TCheckout ip1)]. cbn [app]. rewrite trun_app_fst, trun_cons. cbn [fst].
    unfold tstep at 1 in V. cbn [fst snd] in V.
    destruct (checkin ip1 k t2 _) as [b tk']. cbn [fst snd] in *. inversion V. reflexivity. }
  assert (Hra : ra = Some (mkMsg tid2 (if fst (add (ih, caddr) t2 (s_sto S2))
                                       then Resp (empty_resp (c_id cf)) else Err 202%N err_text_full))).
  { unfold ra, replies. rewrite <- LA2, EA2, qnth. fold S2. unfold e2. rewrite (qstep_announce cf Hro), Hv. reflexivity. }
  (* ---- the store projection around the announce and the last get_peers ---- *)
  set (S2' := fst (qstep cf S2 e2)).
  set (S3' := fst (qstep cf S3 e3)).
  set (pre' := sto_ops cf s0 A2).
  set (mid' := sto_ops cf S2' mid2).
  set (post' := sto_ops cf S3' post).
  assert (Eo2 : sto_op S2 e2 = [(t2, SAdd (ih, caddr))]).
  { unfold e2. cbn [sto_op]. rewrite Hv. reflexivity. }
  assert (ES3 : fst (qrun cf S2' mid2) = S3).
  { unfold S3, A3. rewrite qrun_app_fst, qrun_cons. reflexivity. }
  assert (EsA3 : sto_ops cf s0 A3 = pre' ++ (t2, SAdd (ih, caddr)) :: mid').
  { unfold A3. rewrite sto_ops_app. fold S2. cbn [sto_ops]. rewrite Eo2. reflexivity. }
  assert (Esq : sto_ops cf s0 qs = pre' ++ (t2, SAdd (ih, caddr)) :: mid' ++ (t3, SFind ih) :: post').
  { rewrite EA3, sto_ops_app, EsA3. fold S3. cbn [sto_ops]. change (sto_op S3 e3) with [(t3, SFind ih)].
    rewrite <- app_assoc. reflexivity. }
  pose proof (announce_then_find pre' mid' post' t0 t2 t3 ih caddr) as F. cbn zeta in F.
  rewrite <- Esq in F. specialize (F (qtimes_sto cf _ _ _ Ht)).
  destruct F as [opre [b [omid [l [opost [Eo [Lp [Lm [Ffound Fgone]]]]]]]]].
  assert (Hb : b = fst (add (ih, caddr) t2 (s_sto S2))).
  { pose proof (snth empty_store pre' (t2, SAdd (ih, caddr)) (mid' ++ (t3, SFind ih) :: post') (OAdd false)) as X.
    rewrite <- Esq, Eo, <- Lp, nth_middle in X. unfold pre' in X. rewrite <- Est in X. fold S2 in X.
    unfold sstep in X. cbn [fst snd] in X. destruct (add (ih, caddr) t2 (s_sto S2)) as [b' st']. cbn [fst snd] in *.
    inversion X. reflexivity. }
  assert (Hl : l = fst (find ih t3 (s_sto S3))).
  { pose proof (snth empty_store (pre' ++ (t2, SAdd (ih, caddr)) :: mid') (t3, SFind ih) post' (OAdd false)) as X.
    rewrite <- app_assoc in X. cbn [app] in X. rewrite <- Esq, Eo in X.
    replace (opre ++ OAdd b :: omid ++ OFind l :: opost) with ((opre ++ OAdd b :: omid) ++ OFind l :: opost) in X
      by (rewrite <- app_assoc; reflexivity).
    replace (length (pre' ++ (t2, SAdd (ih, caddr)) :: mid')) with (length (opre ++ OAdd b :: omid)) in X
      by (rewrite !app_length; cbn [length]; rewrite Lp, Lm; reflexivity).
    rewrite nth_middle in X. rewrite <- EsA3, <- Est in X. fold S3 in X.
    unfold sstep in X. cbn [fst snd] in X. destruct (find ih t3 (s_sto S3)) as [l' st']. cbn [fst snd] in *.
    inversion X. reflexivity. }
  (* ---- the reply to the last get_peers ---- *)
  destruct (qstep_get_peers cf Hro S3 t3 src3 tid3 id3 ih w3) as [n4 [n6 E3]]. fold e3 in E3.
  assert (Hrf : rf = snd (qstep cf S3 e3)).
  { unfold rf, replies. rewrite <- LA3, EA3, qnth. reflexivity. }
  rewrite E3, <- Hl in Hrf.
  split.
  - rewrite Hra. unfold ack. destruct (fst (add (ih, caddr) t2 (s_sto S2))); [left | right]; reflexivity.
  - eexists. split; [exact Hrf|]. cbn [r_values]. split.
    + intros Hack Hfam Hlt.
      assert (Hbt : b = true).
      { rewrite Hb. rewrite Hra in Hack. unfold ack in Hack.
        destruct (fst (add (ih, caddr) t2 (s_sto S2))); [reflexivity | discriminate]. }
      apply firstn_in_or. apply filter_In. split; [apply Ffound; assumption|].
      rewrite Hfam. unfold caddr. destruct port; cbn [a_v6]; apply Bool.eqb_reflx.
    + intros Hno Hge Hin. apply firstn_in in Hin. apply filter_In in Hin as [Hin _].
      revert Hin. apply Fgone; [|exact Hge].
      intros tt Hadd. destruct (sto_ops_add cf _ _ _ _ Hadd) as [e [He1 He2]].
      exact (Hno e He1 He2).
Qed.

(* ------------------------------------------------------------------ the same contract without any
   reference to the symbolic token: on histories where fewer than 2^23 - 2 queries precede the
   get_peers, the 3-byte secret field of the token encoding cannot wrap, so the round trip holds *)
Lemma refresh_curr_lt now s : (curr s < fresh s)%nat ->
  (curr (refresh_check now s) < fresh (refresh_check now s))%nat.
Proof. intros H. unfold refresh_check. destruct (_ =? 0); [exact H|]. destruct (_ =? 1); cbn [curr fresh]; lia. Qed.

Lemma refresh_fresh_le now s : (fresh (refresh_check now s) <= fresh s + 2)%nat.
Proof. unfold refresh_check. destruct (_ =? 0); [lia|]. destruct (_ =? 1); cbn [fresh]; lia. Qed.

Lemma trun_curr_lt : forall ops s, (curr s < fresh s)%nat -> (curr (fst (trun s ops)) < fresh (fst (trun s ops)))%nat.
Proof.
  induction ops as [|o r IH]; intros s H; [exact H|].
  rewrite trun_cons. cbn [fst]. apply IH. rewrite tstep_state. apply refresh_curr_lt, H.
Qed.

Lemma trun_fresh_le : forall ops s, (fresh (fst (trun s ops)) <= fresh s + 2 * length ops)%nat.
Proof.
  induction ops as [|o r IH]; intros s; [cbn; lia|].
  rewrite trun_cons. cbn [fst length]. specialize (IH (fst (tstep s o))). rewrite tstep_state in *.
  pose proof (refresh_fresh_le (fst o) s). lia.
Qed.

Lemma tok_ops_length qs : (length (tok_ops qs) <= length qs)%nat.
Proof.
  induction qs as [|e r IH]; [cbn; lia|]. rewrite tok_ops_cons, app_length. cbn [length].
  destruct (tok_op_shape e) as [->|[x ->]]; cbn [length]; lia.
Qed.

Theorem server_contract_bounded :
  forall (cf : cfg) (tbl : table) (t0 : Z) (pre mid mid2 post : list qev)
         (t1 : Z) (src1 : addr) (tid1 : bytes) (id1 ih1 : N) (w1 : option want)
         (t2 : Z) (src2 : addr) (tid2 : bytes) (id2 ih : N) (port : option N) (tokb : bytes)
         (t3 : Z) (src3 : addr) (tid3 : bytes) (id3 : N) (w3 : option want)
         (r : response),
  let qs := pre ++ (t1, src1, tid1, GetPeers id1 ih1 w1) :: mid ++
            (t2, src2, tid2, AnnouncePeer id2 ih port tokb) :: mid2 ++
            (t3, src3, tid3, GetPeers id3 ih w3) :: post in
  let replies := snd (qrun cf (tbl, tinit t0, empty_store) qs) in
  let caddr := match port with None => src2 | Some p => mkAddr (a_v6 src2) (a_ip src2) p end in
  let ack := Some (mkMsg tid2 (Resp (empty_resp (c_id cf)))) in
  let ra := nth (length pre + S (length mid)) replies None in
  let rf := nth (length pre + S (length mid) + S (length mid2)) replies None in
  c_read_only cf = false ->
  qtimes_from t0 qs ->
  ip_of src2 = ip_of src1 ->
  nth (length pre) replies None = Some (mkMsg tid1 (Resp r)) ->
  r_token r = Some tokb ->
  (N.of_nat (length pre) < 8388606)%N ->
  t2 <= t1 + 600000000000 ->
  (ra = ack \/ ra = Some (mkMsg tid2 (Err 202%N err_text_full))) /\
  exists r3, rf = Some (mkMsg tid3 (Resp r3)) /\
    (ra = ack -> a_v6 src3 = a_v6 src2 -> t3 - t2 < 86400000000000 ->
       In caddr (r_values r3) \/ length (r_values r3) = max_values (length tid3) (a_v6 src3)) /\
    ((forall e, In e mid2 -> announce_item e <> Some (ih, caddr)) -> 86400000000000 <= t3 - t2 ->
       ~ In caddr (r_values r3)).
Proof.
  intros cf tbl t0 pre mid mid2 post t1 src1 tid1 id1 ih1 w1 t2 src2 tid2 id2 ih port tokb
         t3 src3 tid3 id3 w3 r qs replies caddr ack ra rf Hro Ht Hip Hrep Htok Hlen Hle.
  remember (curr (refresh_check t1 (fst (trun (tinit t0) (tok_ops pre))))) as sigma eqn:Es.
  apply (server_contract cf tbl t0 pre mid mid2 post t1 src1 tid1 id1 ih1 w1 t2 src2 tid2 id2 ih port tokb
           t3 src3 tid3 id3 w3 r (TSha (ip_of src1) sigma)); try assumption.
  - unfold out_at. rewrite tok_ops_app, tok_ops_cons. cbn [tok_op app]. rewrite nth_out_1, Es. reflexivity.
  - apply tok_round_trip. change (2 ^ 24)%N with 16777216%N.
    assert (H0 : (curr (tinit t0) < fresh (tinit t0))%nat) by (cbn; lia).
    pose proof (trun_curr_lt (tok_ops pre) _ H0) as H1.
    pose proof (refresh_curr_lt t1 _ H1) as H2.
    pose proof (refresh_fresh_le t1 (fst (trun (tinit t0) (tok_ops pre)))) as H3.
    pose proof (trun_fresh_le (tok_ops pre) (tinit t0)) as H4.
    pose proof (tok_ops_length pre) as H5.
    change (fresh (tinit t0)) with 2%nat in H4. rewrite <- Es in H2. lia.
Qed.

(* ------------------------------------------------------------------ 4. non-vacuity *)
(* A serving node with an empty table.  A ping and a foreign get_peers surround the issue of the
   token; the announce (explicit port) arrives 10 ns later and is acknowledged; a lookup from a
   third IP of the same family 10 ns after the announce returns the contact; a lookup 24 h + 1 ns
   after the announce does not. *)
Example server_contract_nonvacuous :
  let cf := mkCfg 5 false false None in
  let src := mkAddr false 167772161 4000 in
  let other := mkAddr false 167772162 5000 in
  let src3 := mkAddr false 167772163 6881 in
  let k := TSha (ip_of src) 0 in
  let pre := [(5, other, [8]%N, Ping 3)] in
  let e1 := (10, src, [1; 2]%N, GetPeers 9 77 None) in
  let mid := [(15, other, [7]%N, GetPeers 3 77 None)] in
  let e2 := (20, src, [3]%N, AnnouncePeer 9 77 (Some 6000%N) (tok_bytes k)) in
  let mid2 := [(25, other, [9]%N, FindNode 3 4 None)] in
  let e3 := (30, src3, [4]%N, GetPeers 8 77 None) in
  let e4 := (86400000000021, src3, [5]%N, GetPeers 8 77 None) in
  let qs := pre ++ e1 :: mid ++ e2 :: mid2 ++ e3 :: [e4] in
  let replies := snd (qrun cf (new_table 5, tinit 0, empty_store) qs) in
  let caddr := mkAddr false 167772161 6000 in
  (* the hypotheses of the contract *)
  c_read_only cf = false /\
  qtimes_from 0 qs /\
  ip_of src = ip_of src /\
  nth (length pre) replies None = Some (mkMsg [1; 2]%N (Resp (mkResp 5 [] [] [] (Some (tok_bytes k))))) /\
  out_at 0 (tok_ops qs) (length (tok_ops pre)) = OTok k /\
  tok_of_bytes (ip_of src) (tok_bytes k) = k /\
  20 <= 10 + 600000000000 /\
  (* (a) acknowledged *)
  nth (length pre + S (length mid)) replies None = Some (mkMsg [3]%N (Resp (empty_resp 5))) /\
  (* (b) found less than 24 h later, by a requester of the same family *)
  a_v6 src3 = a_v6 src /\ 30 - 20 < 86400000000000 /\
  nth (length pre + S (length mid) + S (length mid2)) replies None
    = Some (mkMsg [4]%N (Resp (mkResp 5 [caddr] [] [] (Some (tok_bytes (TSha (ip_of src3) 0)))))) /\
  (* (c) gone 24 h later: the same history read with the last get_peers as the lookup *)
  map announce_item (mid2 ++ [e3]) = [None; None] /\ 86400000000000 <= 86400000000021 - 20 /\
  nth (length pre + S (length mid) + S (length (mid2 ++ [e3]))) replies None
    = Some (mkMsg [5]%N (Resp (mkResp 5 [] [] [] (Some (tok_bytes (TSha (ip_of src3) 3)))))).
Proof. vm_compute. repeat split; discriminate. Qed.

(* the theorem applied to that history *)
Example server_contract_instance :
  let cf := mkCfg 5 false false None in
  let src := mkAddr false 167772161 4000 in
  let other := mkAddr false 167772162 5000 in
  let src3 := mkAddr false 167772163 6881 in
  let k := TSha (ip_of src) 0 in
  let qs := [(5, other, [8]%N, Ping 3); (10, src, [1; 2]%N, GetPeers 9 77 None);
             (15, other, [7]%N, GetPeers 3 77 None);
             (20, src, [3]%N, AnnouncePeer 9 77 (Some 6000%N) (tok_bytes k));
             (25, other, [9]%N, FindNode 3 4 None); (30, src3, [4]%N, GetPeers 8 77 None);
             (86400000000021, src3, [5]%N, GetPeers 8 77 None)] in
  let replies := snd (qrun cf (new_table 5, tinit 0, empty_store) qs) in
  exists r3, nth 5 replies None = Some (mkMsg [4]%N (Resp r3)) /\
    (In (mkAddr false 167772161 6000) (r_values r3) \/ length (r_values r3) = max_values 1 false).
Proof.
  intros cf src other src3 k qs replies.
  pose proof (server_contract cf (new_table 5) 0
    [(5, other, [8]%N, Ping 3)] [(15, other, [7]%N, GetPeers 3 77 None)]
    [(25, other, [9]%N, FindNode 3 4 None)] [(86400000000021, src3, [5]%N, GetPeers 8 77 None)]
    10 src [1; 2]%N 9%N 77%N None 20 src [3]%N 9%N 77%N (Some 6000%N) (tok_bytes k)
    30 src3 [4]%N 8%N None (mkResp 5 [] [] [] (Some (tok_bytes k))) k) as C.
  cbn zeta in C.
  destruct C as [_ [r3 [E [Hfound _]]]]; try (vm_compute; repeat split; discriminate).
  exists r3. split; [exact E|]. apply Hfound; vm_compute; reflexivity.
Qed.
