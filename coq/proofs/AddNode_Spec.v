(* What add_node (add_node / bucket_node / split_bucket, fuelled) does to the table, node by
   node: who is in the table afterwards, who stays, who may leave.  Used by the proofs that the
   executable checkers of C08 / C10 stay silent on the model. *)
From BT Require Import model.Prelude model.Table gen.Consts proofs.Prelude_Facts proofs.Table_Facts
  proofs.TableInv_Facts proofs.TableOps_Facts.
From Coq Require Import ZifyBool ZifyN ZifyNat Permutation.
Open Scope Z_scope.

Local Transparent add_node.

(* ------------------------------------------------------------------ membership *)
Definition tin (x : node) (t : table) : Prop := exists b, In b (buckets t) /\ In x b.

Lemma tin_pos x t : tin x t <-> exists j b k, nth_error (buckets t) j = Some b /\ nth_error b k = Some x.
Proof.
  split.
  - intros [b [Hb Hx]]. apply In_nth_error in Hb as [j Hj]. apply In_nth_error in Hx as [k Hk]. eauto.
  - intros [j [b [k [Hj Hk]]]]. exists b. split; eapply nth_error_In; eassumption.
Qed.

Lemma in_set_nth_same {A} i (x : A) l : (i < length l)%nat -> In x (set_nth i x l).
Proof.
  intros H. apply (nth_error_In _ i). rewrite nth_error_set_nth, Nat.eqb_refl.
  destruct (Nat.ltb_spec i (length l)); [reflexivity | lia].
Qed.

Lemma in_set_nth_keep {A} i (x y o : A) l : nth_error l i = Some o -> In x l -> x <> o -> In x (set_nth i y l).
Proof.
  intros Hi Hx Hne. apply In_nth_error in Hx as [k Hk].
  apply (nth_error_In _ k). rewrite nth_error_set_nth.
  destruct (Nat.eqb_spec k i) as [->|]; [|exact Hk]. rewrite Hi in Hk. inversion Hk. congruence.
Qed.

Lemma in_set_nth_other {A} i j (x y : A) l : nth_error l j = Some x -> j <> i -> In x (set_nth i y l).
Proof.
  intros Hj Hne. apply (nth_error_In _ j). rewrite nth_error_set_nth.
  destruct (Nat.eqb_spec j i); [contradiction | exact Hj].
Qed.

(* ------------------------------------------------------------------ where a real node lives *)
Lemma tinv_home t j b y : TInv t -> nth_error (buckets t) j = Some b -> In y b -> real y ->
  j = bucket_placement (lcp (local_id t) (nd_id y)) (length (buckets t)).
Proof.
  intros I Hj Hy Ry. destruct (ti_placed _ I j b y Hj Hy Ry) as [_ [_ [_ P]]].
  assert (Hl : (j < length (buckets t))%nat) by (apply nth_error_Some; congruence).
  unfold bucket_placement.
  destruct (Nat.ltb_spec j (length (buckets t) - 1)); destruct (Nat.leb_spec (length (buckets t)) (lcp (local_id t) (nd_id y))); lia.
Qed.

Lemma tinv_unique t j1 k1 j2 k2 b1 b2 n1 n2 : TInv t ->
  nth_error (buckets t) j1 = Some b1 -> nth_error b1 k1 = Some n1 ->
  nth_error (buckets t) j2 = Some b2 -> nth_error b2 k2 = Some n2 ->
  real n1 -> real n2 -> same_handle n1 n2 = true -> j1 = j2 /\ k1 = k2.
Proof.
  intros I H1 K1 H2 K2 R1 R2 S.
  pose proof (tinv_home t j1 b1 n1 I H1 (nth_error_In _ _ K1) R1) as E1.
  pose proof (tinv_home t j2 b2 n2 I H2 (nth_error_In _ _ K2) R2) as E2.
  apply same_handle_eq in S as [Sid Sad]. rewrite Sid in E1.
  assert (Ej : j1 = j2) by congruence. clear E1 E2. subst j2. assert (b1 = b2) by congruence. subst b2. split; [reflexivity|].
  apply (ti_nodup _ I b1 (nth_error_In _ _ H1) k1 k2 n1 n2 K1 K2 R1 R2). apply same_handle_eq. auto.
Qed.

Lemma tinv_real_or_dummy t x : TInv t -> tin x t -> real x \/ x = dummy_node.
Proof. intros I [b [Hb Hx]]. eapply ti_slots; eassumption. Qed.

Lemma dummy_bad now : node_status now dummy_node = Bad.
Proof. reflexivity. Qed.

Lemma tinv_notbad_real now t x : TInv t -> tin x t -> node_status now x <> Bad -> real x.
Proof. intros I Hx Hs. eapply not_bad_real. exact Hs. Qed.

(* ------------------------------------------------------------------ admissible offers *)
Definition adm (now : Z) (t : table) (n : node) : Prop :=
  existsb (addr_eqb (nd_addr n)) (routers t) = false /\ node_status now n <> Bad /\
  lcp (local_id t) (nd_id n) <> 160%nat /\ nd_addr n <> dummy_addr.

Definition tidx (t : table) (n : node) : nat := bucket_placement (lcp (local_id t) (nd_id n)) (length (buckets t)).
Definition tb (t : table) (n : node) : bucket := nth (tidx t n) (buckets t) new_bucket.

Lemma tidx_lt t n : TInv t -> (tidx t n < length (buckets t))%nat.
Proof. intros I. apply bucket_placement_lt, (ti_len1 _ I). Qed.

Lemma tb_nth_error t n : TInv t -> nth_error (buckets t) (tidx t n) = Some (tb t n).
Proof. intros I. unfold tb. apply nth_error_nth'. apply tidx_lt, I. Qed.

Lemma tb_tin t n x : TInv t -> In x (tb t n) -> tin x t.
Proof. intros I Hx. exists (tb t n). split; [eapply nth_error_In, tb_nth_error, I | exact Hx]. Qed.

(* a real node with the offered id sits in the target bucket *)
Lemma same_handle_home t n y : TInv t -> tin y t -> real y -> same_handle n y = true -> In y (tb t n).
Proof.
  intros I Hy Ry S. apply tin_pos in Hy as [j [b [k [Hj Hk]]]].
  pose proof (tinv_home t j b y I Hj (nth_error_In _ _ Hk) Ry) as E.
  apply same_handle_eq in S as [Sid _]. unfold tb, tidx. rewrite Sid, <- E.
  rewrite (nth_error_nth _ _ new_bucket Hj). eapply nth_error_In, Hk.
Qed.

(* ------------------------------------------------------------------ one step of the recursion *)
Lemma add_node_f_SS f now t n :
  add_node_f bucket_add (S (S f)) now t n =
  if existsb (addr_eqb (nd_addr n)) (routers t) then t
  else if status_eqb (node_status now n) Bad then t
  else if Nat.eqb (lcp (local_id t) (nd_id n)) max_buckets then t
  else bucket_node_f bucket_add (S f) now t n (lcp (local_id t) (nd_id n)).
Proof. reflexivity. Qed.

Lemma bucket_node_f_S f now t n same :
  bucket_node_f bucket_add (S f) now t n same =
  let idx := bucket_placement same (length (buckets t)) in
  let '(ok, b') := bucket_add now (nth idx (buckets t) new_bucket) n in
  if ok then mkTable (set_nth idx b' (buckets t)) (local_id t) (routers t)
  else if can_split (length (buckets t)) idx then
    let old := nth idx (buckets t) new_bucket in
    let t0 := mkTable (removelast (buckets t) ++ [new_bucket; new_bucket]) (local_id t) (routers t) in
    let t1 := fold_left (fun tt m => add_node_f bucket_add f now tt m) old t0 in
    bucket_node_f bucket_add f now t1 n same
  else t.
Proof. reflexivity. Qed.

Lemma add_node_f_adm f now t n : adm now t n ->
  add_node_f bucket_add (S f) now t n = bucket_node_f bucket_add f now t n (lcp (local_id t) (nd_id n)).
Proof.
  intros [A1 [A2 [A3 _]]]. cbn [add_node_f]. rewrite A1.
  destruct (status_eqb (node_status now n) Bad) eqn:E; [apply status_eqb_eq in E; contradiction|].
  rewrite max_buckets_val. destruct (Nat.eqb_spec (lcp (local_id t) (nd_id n)) 160); [contradiction | reflexivity].
Qed.

Lemma add_node_f_not_adm f now t n :
  existsb (addr_eqb (nd_addr n)) (routers t) = true \/ node_status now n = Bad \/ lcp (local_id t) (nd_id n) = 160%nat ->
  add_node_f bucket_add f now t n = t.
Proof.
  intros H. destruct f as [|f]; [reflexivity|]. cbn [add_node_f].
  destruct (existsb (addr_eqb (nd_addr n)) (routers t)); [reflexivity|].
  destruct (status_eqb (node_status now n) Bad) eqn:E; [reflexivity|].
  rewrite max_buckets_val. destruct (Nat.eqb_spec (lcp (local_id t) (nd_id n)) 160); [reflexivity|].
  destruct H as [H|[H|H]]; [discriminate | rewrite H in E; discriminate | contradiction].
Qed.

(* ------------------------------------------------------------------ counting bad slots *)
Definition nbad (now : Z) (b : bucket) : nat := length (filter (fun z => negb (is_pingable now z)) b).

Lemma filter_set_nth_drop {A} (f : A -> bool) (l : list A) : forall i o x,
  nth_error l i = Some o -> f o = true -> f x = false ->
  (length (filter f (set_nth i x l)) + 1 = length (filter f l))%nat.
Proof.
  induction l as [|y l IH]; intros i o x Hi Ho Hx; [destruct i; discriminate|].
  destruct i as [|i]; cbn [set_nth nth_error filter] in *.
  - inversion Hi; subst. rewrite Ho, Hx. cbn. lia.
  - destruct (f y); cbn [length]; rewrite <- (IH i o x Hi Ho Hx); lia.
Qed.

Lemma nbad_exists now b : (1 <= nbad now b)%nat -> exists z, In z b /\ node_status now z = Bad.
Proof.
  unfold nbad. intros H. destruct (filter _ b) as [|z r] eqn:E; [cbn in H; lia|].
  assert (Hz : In z (filter (fun z => negb (is_pingable now z)) b)) by (rewrite E; left; reflexivity).
  apply filter_In in Hz as [Hz Hp]. exists z. split; [exact Hz|].
  unfold is_pingable in Hp. rewrite negb_involutive in Hp. apply status_eqb_eq in Hp. exact Hp.
Qed.

Lemma pingable_of_notbad now n : node_status now n <> Bad -> is_pingable now n = true.
Proof. unfold is_pingable. destruct (node_status now n); [contradiction | reflexivity | reflexivity]. Qed.

Lemma notbad_of_pingable now n : is_pingable now n = true -> node_status now n <> Bad.
Proof. unfold is_pingable. destruct (node_status now n); [discriminate | discriminate | discriminate]. Qed.

Lemma nbad_new now : nbad now new_bucket = 8%nat.
Proof. reflexivity. Qed.

(* ------------------------------------------------------------------ re-adding one node of a split bucket *)
Lemma readd_free f now tt m : TInv tt -> adm now tt m ->
  (forall z, In z (tb tt m) -> same_handle m z = false) ->
  (1 <= nbad now (tb tt m))%nat ->
  exists i o, nth_error (tb tt m) i = Some o /\ node_status now o = Bad /\
    add_node_f bucket_add (S (S f)) now tt m
    = mkTable (set_nth (tidx tt m) (set_nth i m (tb tt m)) (buckets tt)) (local_id tt) (routers tt).
Proof.
  intros I A Hs Hb. rewrite (add_node_f_adm _ _ _ _ A), bucket_node_f_S. cbv zeta.
  fold (tidx tt m). fold (tb tt m).
  pose proof (bucket_add_spec now (tb tt m) m) as HB.
  destruct (bucket_add now (tb tt m) m) as [ok b'] eqn:E. cbn [fst snd] in HB.
  destruct (nbad_exists _ _ Hb) as [z [Hz Hzb]].
  destruct A as [_ [A2 _]].
  inversion HB; subst.
  - contradiction.
  - match goal with Hn : nth_error _ _ = Some _, Hsh : same_handle m _ = true |- _ =>
      rewrite (Hs _ (nth_error_In _ _ Hn)) in Hsh; discriminate end.
  - exists i, old. auto.
  - match goal with Hf : forall x, In x _ -> node_status now x <> Bad |- _ => exfalso; apply (Hf z Hz Hzb) end.
  - match goal with Hf : forall x, In x _ -> _ /\ _ |- _ => exfalso; apply (proj1 (Hf z Hz)), Hzb end.
Qed.

Lemma set_nth_app {A} (pre : list A) : forall k x tl, set_nth (length pre + k) x (pre ++ tl) = pre ++ set_nth k x tl.
Proof. induction pre as [|y pre IH]; intros k x tl; cbn; [reflexivity|]. rewrite IH. reflexivity. Qed.

Lemma nth_app_r {A} (pre tl : list A) k d : nth (length pre + k) (pre ++ tl) d = nth k tl d.
Proof. rewrite app_nth2 by lia. f_equal. lia. Qed.

Lemma readd_fold f now (pre : list bucket) local rts : forall todo done tl,
  TInv (mkTable (pre ++ tl) local rts) ->
  bnodup (done ++ todo) ->
  (forall m, In m (done ++ todo) -> real m ->
     (length pre <= lcp local (nd_id m))%nat /\ existsb (addr_eqb (nd_addr m)) rts = false /\
     nd_addr m <> dummy_addr /\ nd_id m <> local) ->
  tl <> [] ->
  (forall b y, In b tl -> In y b -> y = dummy_node \/ (In y done /\ node_status now y <> Bad)) ->
  (forall x, In x done -> node_status now x <> Bad -> exists b, In b tl /\ In x b) ->
  (forall b, In b tl -> (8 <= nbad now b + length done)%nat) ->
  length (done ++ todo) = 8%nat ->
  exists tl', length tl' = length tl /\
    fold_left (fun tt m => add_node_f bucket_add (S (S f)) now tt m) todo (mkTable (pre ++ tl) local rts)
      = mkTable (pre ++ tl') local rts /\
    TInv (mkTable (pre ++ tl') local rts) /\
    (forall b y, In b tl' -> In y b -> y = dummy_node \/ (In y (done ++ todo) /\ node_status now y <> Bad)) /\
    (forall x, In x (done ++ todo) -> node_status now x <> Bad -> exists b, In b tl' /\ In x b).
Proof.
  induction todo as [|m todo IH]; intros done tl I ND PL Hne MB RT CT LEN.
  - exists tl. rewrite app_nil_r in *. cbn [fold_left]. split; [reflexivity|]. split; [reflexivity|]. split; [exact I|]. split; [exact MB | exact RT].
  - cbn [fold_left].
    assert (Eapp : (done ++ [m]) ++ todo = done ++ m :: todo) by (rewrite <- app_assoc; reflexivity).
    destruct (status_eqb (node_status now m) Bad) eqn:Em.
    + (* a bad node is dropped *)
      apply status_eqb_eq in Em.
      rewrite (add_node_f_not_adm (S (S f)) now _ m) by (right; left; exact Em).
      specialize (IH (done ++ [m]) tl I). rewrite Eapp in IH. specialize (IH ND PL Hne).
      match type of IH with ?P -> _ => assert (MB1 : P) end.
      { intros b y Hb Hy. destruct (MB b y Hb Hy) as [H|[H1 H2]]; [left; exact H | right; split; [apply in_or_app; left; exact H1 | exact H2]]. }
      specialize (IH MB1).
      match type of IH with ?P -> _ => assert (RT1 : P) end.
      { intros x Hx Hs. apply in_app_or in Hx as [Hx|[<-|[]]]; [apply RT; assumption | congruence]. }
      specialize (IH RT1).
      match type of IH with ?P -> _ => assert (CT1 : P) end.
      { intros b Hb. specialize (CT b Hb). rewrite app_length. cbn [length]. lia. }
      destruct (IH CT1 LEN) as [tl' [L' [E' [I' [MB' RT']]]]].
      exists tl'. split; [exact L'|]. split; [exact E'|]. split; [exact I'|]. split; [exact MB' | exact RT'].
    + (* a live node goes to a free slot of one of the new buckets *)
      assert (Hnb : node_status now m <> Bad) by (intros E; rewrite E in Em; discriminate).
      assert (Rm : real m) by (eapply not_bad_real; exact Hnb).
      assert (Hin : In m (done ++ m :: todo)) by (apply in_or_app; right; left; reflexivity).
      destruct (PL m Hin Rm) as [P1 [P2 [P3 P4]]].
      assert (A : adm now (mkTable (pre ++ tl) local rts) m).
      { split; [exact P2|]. split; [exact Hnb|]. split; [|exact P3]. cbn [local_id].
        pose proof (lcp_lt_160 local (nd_id m) ltac:(congruence)). lia. }
      assert (Hk : exists k, tidx (mkTable (pre ++ tl) local rts) m = (length pre + k)%nat /\ (k < length tl)%nat).
      { exists (tidx (mkTable (pre ++ tl) local rts) m - length pre)%nat.
        pose proof (tidx_lt _ m I) as Hlt. unfold tidx in *. cbn [buckets local_id] in *. rewrite app_length in *.
        unfold bucket_placement in *. destruct tl; [contradiction|]. cbn [length] in *.
        destruct (Nat.leb_spec (length pre + S (length tl)) (lcp local (nd_id m))); lia. }
      destruct Hk as [k [Ek Hkl]].
      assert (Etb : tb (mkTable (pre ++ tl) local rts) m = nth k tl new_bucket).
      { unfold tb. rewrite Ek. cbn [buckets]. apply nth_app_r. }
      assert (Htl : nth_error tl k = Some (tb (mkTable (pre ++ tl) local rts) m)).
      { rewrite Etb. apply nth_error_nth'. exact Hkl. }
      pose proof (nth_error_In _ _ Htl) as Hbin.
      assert (Hs : forall z, In z (tb (mkTable (pre ++ tl) local rts) m) -> same_handle m z = false).
      { intros z Hz. destruct (same_handle m z) eqn:S; [|reflexivity]. exfalso.
        destruct (MB _ z Hbin Hz) as [->|[Hzd Hzs]].
        - apply same_handle_eq in S as [_ S]. apply P3. rewrite S. reflexivity.
        - apply In_nth_error in Hzd as [kz Hkz].
          assert (kz < length done)%nat by (apply nth_error_Some; congruence).
          assert (H1 : nth_error (done ++ m :: todo) kz = Some z) by (rewrite nth_error_app1; assumption).
          assert (H2 : nth_error (done ++ m :: todo) (length done) = Some m)
            by (rewrite nth_error_app2, Nat.sub_diag by lia; reflexivity).
          pose proof (ND _ _ _ _ H2 H1 Rm (not_bad_real _ _ Hzs) S). lia. }
      assert (Hb : (1 <= nbad now (tb (mkTable (pre ++ tl) local rts) m))%nat).
      { specialize (CT _ Hbin). rewrite app_length in LEN. cbn [length] in LEN. lia. }
      destruct (readd_free f now _ m I A Hs Hb) as [i [o [Hi [Ho Eadd]]]].
      pose proof (proj1 (proj1 (add_preserves now (S (S f))) _ m I (or_introl P3))) as I1.
      rewrite Eadd in *. rewrite Ek in *. cbn [buckets local_id routers] in *. rewrite set_nth_app in *.
      remember (tb (mkTable (pre ++ tl) local rts) m) as tbm eqn:Etbm.
      assert (Hil : (i < length tbm)%nat) by (apply nth_error_Some; congruence).
      specialize (IH (done ++ [m]) (set_nth k (set_nth i m tbm) tl) I1). rewrite Eapp in IH. specialize (IH ND PL).
      match type of IH with ?P -> _ => assert (NE1 : P) end.
      { intros E. apply (f_equal (@length _)) in E. rewrite set_nth_length in E. destruct tl; [contradiction | discriminate]. }
      specialize (IH NE1).
      match type of IH with ?P -> _ => assert (MB1 : P) end.
      { intros b y Hbq Hy. apply in_set_nth in Hbq as [->|Hbq].
        - apply in_set_nth in Hy as [->|Hy]; [right; split; [apply in_or_app; right; left; reflexivity | exact Hnb]|].
          destruct (MB _ y Hbin Hy) as [H|[H1 H2]]; [left; exact H | right; split; [apply in_or_app; left; exact H1 | exact H2]].
        - destruct (MB _ y Hbq Hy) as [H|[H1 H2]]; [left; exact H | right; split; [apply in_or_app; left; exact H1 | exact H2]]. }
      specialize (IH MB1).
      match type of IH with ?P -> _ => assert (RT1 : P) end.
      { intros x Hx Hsx. apply in_app_or in Hx as [Hx|[<-|[]]].
        - destruct (RT x Hx Hsx) as [b [Hbq Hxb]]. apply In_nth_error in Hbq as [k2 Hk2].
          destruct (Nat.eq_dec k2 k) as [->|Hne2].
          + assert (b = tbm) by congruence. subst b.
            exists (set_nth i m tbm). split; [apply in_set_nth_same; exact Hkl|].
            eapply in_set_nth_keep; [exact Hi | exact Hxb | intros ->; contradiction].
          + exists b. split; [eapply in_set_nth_other; eassumption | exact Hxb].
        - exists (set_nth i m tbm). split; [apply in_set_nth_same; exact Hkl | apply in_set_nth_same; exact Hil]. }
      specialize (IH RT1).
      match type of IH with ?P -> _ => assert (CT1 : P) end.
      { intros b Hbq. rewrite app_length. cbn [length]. apply in_set_nth in Hbq as [->|Hbq].
        - specialize (CT _ Hbin).
          assert (nbad now (set_nth i m tbm) + 1 = nbad now tbm)%nat.
          { unfold nbad. eapply filter_set_nth_drop; [exact Hi | |].
            - unfold is_pingable. rewrite Ho. reflexivity.
            - apply negb_false_iff. apply pingable_of_notbad. exact Hnb. }
          lia.
        - specialize (CT _ Hbq). lia. }
      destruct (IH CT1 LEN) as [tl' [L' [E' [I' [MB' RT']]]]].
      exists tl'. rewrite set_nth_length in L'. split; [exact L'|]. split; [exact E'|]. split; [exact I'|]. split; [exact MB' | exact RT'].
Qed.

(* ------------------------------------------------------------------ split_bucket *)
Lemma last_bucket_decomp t : TInv t ->
  buckets t = removelast (buckets t) ++ [nth (length (buckets t) - 1) (buckets t) new_bucket].
Proof.
  intros I. assert (Hne : buckets t <> []) by (pose proof (ti_len1 _ I); destruct (buckets t); cbn in *; [lia | discriminate]).
  pose proof (nth_error_last (buckets t) new_bucket Hne) as H.
  rewrite (nth_error_nth _ _ new_bucket H). apply app_removelast_last. exact Hne.
Qed.

Lemma split_spec f now t : TInv t -> (length (buckets t) <= 159)%nat ->
  let old := nth (length (buckets t) - 1) (buckets t) new_bucket in
  let t1 := fold_left (fun tt m => add_node_f bucket_add (S (S f)) now tt m) old
              (mkTable (removelast (buckets t) ++ [new_bucket; new_bucket]) (local_id t) (routers t)) in
  TInv t1 /\ same_meta t t1 /\ length (buckets t1) = S (length (buckets t)) /\
  (forall y, tin y t1 -> y = dummy_node \/ tin y t) /\
  (forall x, tin x t -> node_status now x <> Bad -> tin x t1) /\
  (forall j b y, nth_error (buckets t1) j = Some b -> (length (buckets t) - 1 <= j)%nat -> In y b ->
     y = dummy_node \/ (In y old /\ node_status now y <> Bad)).
Proof.
  intros I Hlen old. cbv zeta.
  pose proof (last_bucket_decomp t I) as Hdec. fold old in Hdec.
  assert (Hold : nth_error (buckets t) (length (buckets t) - 1) = Some old).
  { unfold old. apply nth_error_nth'. pose proof (ti_len1 _ I). lia. }
  pose proof (nth_error_In _ _ Hold) as Holdin.
  assert (Hpl : length (removelast (buckets t)) = (length (buckets t) - 1)%nat) by apply removelast_length.
  destruct (readd_fold f now (removelast (buckets t)) (local_id t) (routers t) old [] [new_bucket; new_bucket])
    as [tl' [L' [E' [I' [MB' RT']]]]].
  - apply TInv_split; assumption.
  - cbn [app]. apply (ti_nodup _ I), Holdin.
  - cbn [app]. intros m Hm Rm. destruct (ti_placed _ I _ _ m Hold Hm Rm) as [P1 [P2 [P3 P4]]].
    rewrite Hpl. destruct (Nat.ltb_spec (length (buckets t) - 1) (length (buckets t) - 1)); [lia|]. auto.
  - discriminate.
  - intros b y Hb Hy. left. destruct Hb as [<-|[<-|[]]]; apply new_bucket_all_dummy, Hy.
  - intros x [].
  - intros b Hb. destruct Hb as [<-|[<-|[]]]; rewrite nbad_new; lia.
  - cbn [app]. apply (ti_size _ I), Holdin.
  - cbn [app] in *. rewrite E'. cbn [length] in L'.
    split; [exact I'|]. split; [split; reflexivity|]. cbn [buckets].
    split; [rewrite app_length, Hpl, L'; pose proof (ti_len1 _ I); lia|].
    assert (Hsplit : forall j b, nth_error (removelast (buckets t) ++ tl') j = Some b ->
              (j < length (buckets t) - 1 /\ nth_error (buckets t) j = Some b)%nat \/
              ((length (buckets t) - 1 <= j)%nat /\ In b tl')).
    { intros j b Hj. destruct (Nat.lt_ge_cases j (length (buckets t) - 1)) as [Hlt|Hge].
      - left. split; [exact Hlt|]. rewrite nth_error_app1 in Hj by lia. apply removelast_nth_error in Hj. apply Hj.
      - right. split; [exact Hge|]. rewrite nth_error_app2 in Hj by lia. eapply nth_error_In, Hj. }
    split; [|split].
    + intros y [b [Hb Hy]]. apply In_nth_error in Hb as [j Hj].
      destruct (Hsplit j b Hj) as [[_ Hb]|[_ Hb]].
      * right. exists b. split; [eapply nth_error_In, Hb | exact Hy].
      * destruct (MB' b y Hb Hy) as [H|[H _]]; [left; exact H | right; exists old; split; assumption].
    + intros x [b [Hb Hx]] Hs. rewrite Hdec in Hb. apply in_app_or in Hb as [Hb|[<-|[]]].
      * exists b. split; [apply in_or_app; left; exact Hb | exact Hx].
      * destruct (RT' x Hx Hs) as [b' [Hb' Hxb']]. exists b'. split; [apply in_or_app; right; exact Hb' | exact Hxb'].
    + intros j b y Hj Hge Hy. destruct (Hsplit j b Hj) as [[Hlt _]|[_ Hb]]; [lia|]. apply (MB' b y Hb Hy).
Qed.

(* ------------------------------------------------------------------ replacing one slot *)
Lemma nth_error_set_nth_lt {A} (l : list A) i x k : (i < length l)%nat ->
  nth_error (set_nth i x l) k = if Nat.eqb k i then Some x else nth_error l k.
Proof.
  intros H. rewrite nth_error_set_nth. destruct (Nat.ltb_spec i (length l)); [|lia]. rewrite andb_true_r. reflexivity.
Qed.

Lemma tin_set_slot t idx b i o x : nth_error (buckets t) idx = Some b -> nth_error b i = Some o ->
  let t' := mkTable (set_nth idx (set_nth i x b) (buckets t)) (local_id t) (routers t) in
  (forall y, tin y t' -> y = x \/ exists j bj k, nth_error (buckets t) j = Some bj /\ nth_error bj k = Some y /\ (j <> idx \/ k <> i)) /\
  (forall y j bj k, nth_error (buckets t) j = Some bj -> nth_error bj k = Some y -> (j <> idx \/ k <> i) -> tin y t') /\
  tin x t'.
Proof.
  intros Hb Hi. cbv zeta.
  assert (Hidx : (idx < length (buckets t))%nat) by (apply nth_error_Some; congruence).
  assert (Hil : (i < length b)%nat) by (apply nth_error_Some; congruence).
  assert (Hout : forall j, nth_error (set_nth idx (set_nth i x b) (buckets t)) j
                 = if Nat.eqb j idx then Some (set_nth i x b) else nth_error (buckets t) j).
  { intros j. apply nth_error_set_nth_lt. exact Hidx. }
  assert (Hinn : forall k, nth_error (set_nth i x b) k = if Nat.eqb k i then Some x else nth_error b k).
  { intros k. apply nth_error_set_nth_lt. exact Hil. }
  split; [|split].
  - intros y Hy. apply tin_pos in Hy as [j [bj [k [Hj Hk]]]]. cbn [buckets] in Hj. rewrite Hout in Hj.
    destruct (Nat.eqb_spec j idx) as [->|Hne].
    + assert (bj = set_nth i x b) by congruence. subst bj. rewrite Hinn in Hk. destruct (Nat.eqb_spec k i) as [Ek|Hne].
      * left. congruence.
      * right. exists idx, b, k. auto.
    + right. exists j, bj, k. auto.
  - intros y j bj k Hj Hk Hne. apply tin_pos. cbn [buckets].
    destruct (Nat.eq_dec j idx) as [->|Hj'].
    + assert (bj = b) by congruence. subst bj. destruct Hne as [Hne|Hne]; [contradiction|].
      exists idx, (set_nth i x b), k. rewrite Hout, Nat.eqb_refl, Hinn.
      destruct (Nat.eqb_spec k i); [contradiction|]. auto.
    + exists j, bj, k. rewrite Hout. destruct (Nat.eqb_spec j idx); [contradiction|]. auto.
  - apply tin_pos. cbn [buckets]. exists idx, (set_nth i x b), i. rewrite Hout, Nat.eqb_refl, Hinn, Nat.eqb_refl. auto.
Qed.

(* ------------------------------------------------------------------ the specification of add_node *)
Record AddSpec (now : Z) (n : node) (t t' : table) : Prop := {
  as_inv : TInv t';
  as_meta : same_meta t t';
  (* who is in the table afterwards *)
  as_members : forall y, tin y t' ->
     y = dummy_node \/ (tin y t /\ (real y -> same_handle n y = false)) \/ y = n \/
     (exists old, In old (tb t n) /\ same_handle n old = true /\ y = node_update now old n);
  (* who stays: every live node but at most one, which sat in the target bucket, which was full of
     live nodes, and which was strictly worse than the newcomer *)
  as_keep : exists ev : option node,
     (forall x, tin x t -> node_status now x <> Bad -> same_handle n x = false -> tin x t' \/ ev = Some x) /\
     (forall x0, ev = Some x0 ->
        In x0 (tb t n) /\ (forall z, In z (tb t n) -> node_status now z <> Bad) /\
        status_ltb (node_status now x0) (node_status now n) = true /\ tin n t' /\
        (forall z, In z (tb t n) -> same_handle n z = false));
  (* a known contact is updated in place *)
  as_upd : forall old, In old (tb t n) -> same_handle n old = true -> tin (node_update now old n) t';
  (* room or a worse node: accepted *)
  as_new : (forall z, In z (tb t n) -> same_handle n z = false) ->
           (exists z, In z (tb t n) /\ status_ltb (node_status now z) (node_status now n) = true) -> tin n t';
  (* a full bucket of good nodes that cannot be split: unchanged *)
  as_rej : (forall z, In z (tb t n) -> same_handle n z = false) ->
           (forall z, In z (tb t n) -> node_status now z = Good) ->
           can_split (length (buckets t)) (tidx t n) = false -> t' = t
}.

Lemma same_handle_real t n z : TInv t -> nd_addr n <> dummy_addr -> tin z t -> same_handle n z = true -> real z.
Proof.
  intros I Hn Hz S. destruct (tinv_real_or_dummy t z I Hz) as [R| ->]; [exact R|].
  exfalso. apply same_handle_eq in S as [_ S]. apply Hn. rewrite S. reflexivity.
Qed.

Lemma same_handle_trans_l n a b : same_handle n a = true -> same_handle n b = true -> same_handle a b = true.
Proof. rewrite !same_handle_eq. intros [A1 A2] [B1 B2]. split; congruence. Qed.

Lemma status_ltb_good s : status_ltb Good s = false.
Proof. destruct s; reflexivity. Qed.

Lemma slot_case now t n i o x : TInv t -> adm now t n -> nth_error (tb t n) i = Some o ->
  TInv (mkTable (set_nth (tidx t n) (set_nth i x (tb t n)) (buckets t)) (local_id t) (routers t)) ->
  (same_handle n o = true /\ x = node_update now o n) \/
  ((forall z, In z (tb t n) -> same_handle n z = false) /\ node_status now o = Bad /\ x = n) \/
  ((forall z, In z (tb t n) -> same_handle n z = false) /\ (forall z, In z (tb t n) -> node_status now z <> Bad) /\
   status_ltb (node_status now o) (node_status now n) = true /\ x = n) ->
  AddSpec now n t (mkTable (set_nth (tidx t n) (set_nth i x (tb t n)) (buckets t)) (local_id t) (routers t)).
Proof.
  intros I A Hi I' C. pose proof A as [A1 [A2 [A3 A4]]].
  pose proof (tb_nth_error t n I) as Htb.
  pose proof (nth_error_In _ _ Hi) as Hoin.
  destruct (tin_set_slot t (tidx t n) (tb t n) i o x Htb Hi) as [T1 [T2 T3]].
  constructor.
  - exact I'.
  - split; reflexivity.
  - intros y Hy. destruct (T1 y Hy) as [->|[j [bj [k [Hj [Hk Hne]]]]]].
    + destruct C as [[C1 ->]|[[_ [_ ->]]|[_ [_ [_ ->]]]]]; [|right; right; left; reflexivity | right; right; left; reflexivity].
      right. right. right. exists o. auto.
    + right. left. assert (Hty : tin y t) by (apply tin_pos; eauto). split; [exact Hty|].
      intros Ry. destruct (same_handle n y) eqn:S; [|reflexivity]. exfalso.
      destruct C as [[C1 _]|[[C1 _]|[C1 _]]].
      * assert (Ro : real o) by (eapply same_handle_real; [exact I | exact A4 | eapply tb_tin; eassumption | exact C1]).
        destruct (tinv_unique t _ _ _ _ _ _ _ _ I Hj Hk Htb Hi Ry Ro) as [E1 E2]; [|lia].
        rewrite same_handle_eq in *. destruct C1, S. split; congruence.
      * rewrite (C1 y (same_handle_home t n y I Hty Ry S)) in S. discriminate.
      * rewrite (C1 y (same_handle_home t n y I Hty Ry S)) in S. discriminate.
  - assert (Hpos : forall x0, tin x0 t -> tin x0 (mkTable (set_nth (tidx t n) (set_nth i x (tb t n)) (buckets t)) (local_id t) (routers t)) \/ x0 = o).
    { intros x0 Hx0. apply tin_pos in Hx0 as [j [bj [k [Hj Hk]]]].
      destruct (Nat.eq_dec j (tidx t n)) as [->|Hj']; [|left; eapply T2; eauto].
      destruct (Nat.eq_dec k i) as [->|Hk']; [|left; eapply T2; eauto].
      assert (bj = tb t n) by congruence. subst bj. right. congruence. }
    destruct C as [[C1 _]|[[_ [C2 _]]|[C1 [C2 [C3 ->]]]]].
    + exists None. split; [|discriminate]. intros x0 Hx0 Hs0 Hh0. destruct (Hpos x0 Hx0) as [H| ->]; [left; exact H | congruence].
    + exists None. split; [|discriminate]. intros x0 Hx0 Hs0 Hh0. destruct (Hpos x0 Hx0) as [H| ->]; [left; exact H | contradiction].
    + exists (Some o). split.
      * intros x0 Hx0 Hs0 Hh0. destruct (Hpos x0 Hx0) as [H| ->]; [left; exact H | right; reflexivity].
      * intros x0 E. inversion E; subst x0. auto.
  - intros old Hold S. destruct C as [[C1 ->]|[[C1 _]|[C1 _]]]; try (rewrite (C1 old Hold) in S; discriminate).
    assert (old = o); [|subst old; exact T3].
    apply In_nth_error in Hold as [k Hk].
    assert (Ro : real o) by (eapply same_handle_real; [exact I | exact A4 | eapply tb_tin; eassumption | exact C1]).
    assert (Rold : real old) by (eapply same_handle_real; [exact I | exact A4 | eapply tb_tin, nth_error_In; eassumption | exact S]).
    assert (k = i); [|congruence].
    apply (ti_nodup _ I (tb t n) (nth_error_In _ _ Htb) k i old o Hk Hi Rold Ro). eapply same_handle_trans_l; eassumption.
  - intros Hs _. destruct C as [[C1 _]|[[_ [_ ->]]|[_ [_ [_ ->]]]]]; [rewrite (Hs o Hoin) in C1; discriminate | exact T3 | exact T3].
  - intros Hs Hg _. exfalso. destruct C as [[C1 _]|[[_ [C2 _]]|[_ [_ [C3 _]]]]].
    + rewrite (Hs o Hoin) in C1. discriminate.
    + rewrite (Hg o Hoin) in C2. discriminate.
    + rewrite (Hg o Hoin), status_ltb_good in C3. discriminate.
Qed.

Lemma adm_meta now t t1 n : same_meta t t1 -> adm now t n -> adm now t1 n.
Proof. intros [M1 M2] [A1 [A2 [A3 A4]]]. unfold adm. rewrite M1, M2. auto. Qed.

Lemma bucket_node_spec now : forall fuel t n, TInv t -> adm now t n ->
  (163 <= fuel + length (buckets t))%nat ->
  AddSpec now n t (bucket_node_f bucket_add fuel now t n (lcp (local_id t) (nd_id n))).
Proof.
  induction fuel as [|f IH]; intros t n I A Hfuel.
  - pose proof (ti_len2 _ I). lia.
  - pose proof A as [A1 [A2 [A3 A4]]].
    destruct (proj2 (add_preserves now (S f)) t n _ I A4 eq_refl A3 A1) as [I' M'].
    remember (bucket_node_f bucket_add (S f) now t n (lcp (local_id t) (nd_id n))) as t' eqn:Et'.
    rewrite bucket_node_f_S in Et'. cbv zeta in Et'. fold (tidx t n) in Et'. fold (tb t n) in Et'.
    pose proof (bucket_add_spec now (tb t n) n) as HB.
    destruct (bucket_add now (tb t n) n) as [ok b'] eqn:Eadd. cbn [fst snd] in HB.
    pose proof (tb_nth_error t n I) as Htb.
    inversion HB as [Hbad|i old Hnb Hi Hsh|i old Hnb Hno Hi Hob|i old Hnb Hno Hall Hi Hlt|Hnb Hno Hall]; subst ok b'.
    + contradiction.
    + subst t'. apply (slot_case now t n i old _ I A Hi I'). left. auto.
    + subst t'. apply (slot_case now t n i old _ I A Hi I'). right. left. auto.
    + subst t'. apply (slot_case now t n i old _ I A Hi I'). right. right. auto.
    + (* the bucket is full of nodes that are not worse *)
      assert (Hnone : forall y, tin y t -> real y -> same_handle n y = false).
      { intros y Hy Ry. destruct (same_handle n y) eqn:S; [|reflexivity].
        rewrite (Hno y (same_handle_home t n y I Hy Ry S)) in S. discriminate. }
      destruct (can_split (length (buckets t)) (tidx t n)) eqn:Ec.
      * (* split, then try again *)
        unfold can_split in Ec. apply andb_true_iff in Ec as [Ec1 Ec2].
        apply Nat.eqb_eq in Ec1. apply negb_true_iff in Ec2. apply Nat.eqb_neq in Ec2. rewrite max_buckets_val in Ec2.
        pose proof (ti_len1 _ I) as L1. pose proof (ti_len2 _ I) as L2.
        destruct f as [|[|f]]; [lia | lia |].
        assert (Hold : tb t n = nth (length (buckets t) - 1) (buckets t) new_bucket) by (unfold tb; rewrite Ec1; reflexivity).
        rewrite Hold in Et'.
        destruct (split_spec f now t I ltac:(lia)) as [I1 [M1 [Len1 [S1 [S2 S3]]]]]. cbv zeta in *.
        set (t1 := fold_left (fun tt m => add_node_f bucket_add (S (S f)) now tt m)
                     (nth (length (buckets t) - 1) (buckets t) new_bucket)
                     (mkTable (removelast (buckets t) ++ [new_bucket; new_bucket]) (local_id t) (routers t))) in *.
        assert (A' : adm now t1 n) by (eapply adm_meta; eassumption).
        pose proof (IH t1 n I1 A' ltac:(lia)) as Sp.
        destruct M1 as [M1a M1b]. rewrite M1a in Sp. rewrite <- Et' in Sp.
        (* the target bucket of the split table consists of nodes of the old last bucket *)
        assert (Htb1 : forall z, In z (tb t1 n) -> z = dummy_node \/ (In z (tb t n) /\ node_status now z <> Bad)).
        { intros z Hz. rewrite Hold. pose proof (tb_nth_error t1 n I1) as Hn1.
          apply (S3 (tidx t1 n) (tb t1 n) z Hn1); [|exact Hz].
          unfold tidx in *. rewrite M1a, Len1. unfold bucket_placement in *.
          destruct (Nat.leb_spec (length (buckets t)) (lcp (local_id t) (nd_id n)));
            destruct (Nat.leb_spec (S (length (buckets t))) (lcp (local_id t) (nd_id n))); lia. }
        destruct Sp as [_ _ Mem Keep Upd New Rej].
        constructor.
        -- exact I'.
        -- exact M'.
        -- intros y Hy. destruct (Mem y Hy) as [H|[[H1 H2]|[H|[o [Ho [So _]]]]]].
           ++ left. exact H.
           ++ destruct (S1 y H1) as [H|H]; [left; exact H | right; left; split; assumption].
           ++ right. right. left. exact H.
           ++ exfalso. destruct (Htb1 o Ho) as [->|[Ho' _]].
              ** apply same_handle_eq in So as [_ So]. apply A4. rewrite So. reflexivity.
              ** rewrite (Hno o Ho') in So. discriminate.
        -- exists None. split; [|discriminate]. intros x Hx Hs Hh. left.
           destruct Keep as [ev [K1 K2]]. destruct (K1 x (S2 x Hx Hs) Hs Hh) as [H|H]; [exact H|].
           exfalso. destruct (K2 x H) as [Hin [Hnb1 [Hlt1 _]]].
           destruct (Htb1 x Hin) as [->|[Hin' _]]; [apply Hs; reflexivity|].
           rewrite (proj2 (Hall x Hin')) in Hlt1. discriminate.
        -- intros o Ho So. rewrite (Hno o Ho) in So. discriminate.
        -- intros _ [z [Hz Hlt]]. rewrite (proj2 (Hall z Hz)) in Hlt. discriminate.
        -- intros _ _ Hc. exfalso. unfold can_split in Hc. rewrite Ec1, Nat.eqb_refl in Hc. cbn [andb] in Hc.
           apply negb_false_iff, Nat.eqb_eq in Hc. rewrite max_buckets_val in Hc. lia.
      * (* rejected *)
        subst t'. constructor.
        -- exact I.
        -- split; reflexivity.
        -- intros y Hy. right. left. split; [exact Hy | apply Hnone, Hy].
        -- exists None. split; [|discriminate]. intros x Hx _ _. left. exact Hx.
        -- intros o Ho So. rewrite (Hno o Ho) in So. discriminate.
        -- intros _ [z [Hz Hlt]]. rewrite (proj2 (Hall z Hz)) in Hlt. discriminate.
        -- reflexivity.
Qed.

Theorem add_node_spec now t n : TInv t -> adm now t n -> AddSpec now n t (add_node now t n).
Proof.
  intros I A. unfold add_node. change table_fuel with (S 999). rewrite (add_node_f_adm 999 now t n A).
  apply bucket_node_spec; [exact I | exact A|]. pose proof (ti_len1 _ I). lia.
Qed.

Theorem add_node_not_adm now t n :
  existsb (addr_eqb (nd_addr n)) (routers t) = true \/ node_status now n = Bad \/ lcp (local_id t) (nd_id n) = 160%nat ->
  add_node now t n = t.
Proof. intros H. unfold add_node. apply add_node_f_not_adm, H. Qed.

Global Opaque add_node.

Print Assumptions add_node_spec.
