(* Facts about Message::decode on (re-)serialisations of message trees: any key order,
   unknown keys at every level, trailing bytes. *)
From BT Require Import model.Prelude model.Krpc proofs.Prelude_Facts proofs.Bencode_Facts proofs.Compact_Facts
  proofs.Krpc_Facts.
From Coq Require Import ZifyBool ZifyN ZifyNat Permutation.

(* ------------------------------------------------------------------ *)
(* more monad plumbing                                                *)

Lemma parses_bind_assoc {A B C} (m : M A) (f : A -> M B) (g : B -> M C) i a r b r' :
  parses (bind m f) i a r -> parses (g a) r b r' ->
  parses (bind m (fun x => bind (f x) g)) i b r'.
Proof.
  intros H1 H2 lg mx. destruct (H1 lg mx) as [lg1 [mx1 E1]].
  destruct (H2 lg1 mx1) as [lg2 [mx2 E2]]. exists lg2, mx2.
  unfold bind in *. destruct (m (mkSt i lg mx)) as [s' [x| |]]; try discriminate.
  rewrite E1. exact E2.
Qed.

Lemma parses_lift {A} (o : option A) a i : o = Some a -> parses (lift o) i a i.
Proof. intros ->. apply parses_ret. Qed.

Lemma parses_ext {A} (m m' : M A) i a r : (forall s, m s = m' s) -> parses m i a r -> parses m' i a r.
Proof. intros E H lg mx. destruct (H lg mx) as [lg' [mx' H']]. exists lg', mx'. rewrite <- E. exact H'. Qed.

Lemma lenN_lit (k : bytes) : (length k < 100)%nat -> N.of_nat (length k) < 2 ^ 64.
Proof. intros H. assert (N.of_nat (length k) < 100) by lia. assert (100 < 2 ^ 64) by reflexivity. lia. Qed.

(* ------------------------------------------------------------------ *)
(* field parsers on the canonical serialisation of a field value      *)

Lemma p_bytes F d s r : N.of_nat (length s) < 2 ^ 64 ->
  parses (t <- tok ;; bytes_from F d t) (ser_str s ++ r) s r.
Proof. intros H. eapply parses_bind; [apply tok_str; exact H|]. apply parses_ret. Qed.

Lemma p_id F d x r : x < 2 ^ 160 ->
  parses (t <- tok ;; id_from F d t) (ser_str (enc_id x) ++ r) x r.
Proof.
  intros H. eapply parses_bind; [apply tok_str; rewrite enc_id_length; reflexivity|].
  unfold id_from. eapply parses_bind; [apply parses_ret|]. apply parses_lift. apply dec_enc_id. exact H.
Qed.

Lemma p_enum {A} (variants : list (bytes * A)) s x r :
  N.of_nat (length s) < 2 ^ 64 ->
  find (fun kv => bytes_eqb s (fst kv)) variants = Some (s, x) ->
  parses (t <- tok ;; enum_from variants t) (ser_str s ++ r) x r.
Proof.
  intros Hl H. eapply parses_bind; [apply tok_str; exact Hl|].
  cbn [enum_from]. rewrite H. apply parses_ret.
Qed.

Lemma p_nodes v6 F d l r : Forall (node_in_range v6) l -> N.of_nat (length (cat_nodes l)) < 2 ^ 64 ->
  parses (t <- tok ;; nodes_from v6 F d t) (ser_str (cat_nodes l) ++ r) l r.
Proof.
  intros H Hl. eapply parses_bind; [apply tok_str; exact Hl|].
  unfold nodes_from. eapply parses_bind; [apply parses_ret|]. apply parses_lift. apply dec_nodes_cat. exact H.
Qed.

Definition values_tree (l : list addr) : bvalue := BList (map (fun a => BStr (enc_addr a)) l).

Lemma values_loop_ok F d l : Forall addr_in_range l -> forall fuel r, (length l < fuel)%nat ->
  parses (values_loop fuel F d) (ser_list (map (fun a => BStr (enc_addr a)) l) ++ ch_e :: r) l r.
Proof.
  induction l as [|a l IH]; intros H fuel r Hf; (destruct fuel as [|fuel]; [cbn in Hf; lia|]).
  - cbn [map ser_list flat_map app values_loop].
    eapply parses_bind; [apply tok_e|]. apply parses_ret.
  - inversion H; subst. cbn [map ser_list flat_map values_loop]. fold (ser_list (map (fun a => BStr (enc_addr a)) l)).
    cbn [ser]. rewrite <- app_assoc.
    eapply parses_bind; [apply tok_str; rewrite enc_addr_length; destruct (a_v6 a); reflexivity|].
    cbn match. cbn [bytes_from].
    eapply parses_bind; [apply parses_ret|].
    eapply parses_bind; [apply parses_lift; apply dec_enc_addr; assumption|].
    eapply parses_bind; [apply IH; [assumption | cbn in Hf; lia]|]. apply parses_ret.
Qed.

Lemma p_values F d l r : Forall addr_in_range l -> (length l < F)%nat ->
  parses (t <- tok ;; values_from F d t) (ser (values_tree l) ++ r) l r.
Proof.
  intros H Hf. unfold values_tree. rewrite ser_BList. cbn [app].
  eapply parses_bind; [apply tok_l|]. cbn [values_from].
  eapply parses_bind; [apply parses_enter|]. rewrite <- app_assoc. cbn [app].
  apply values_loop_ok; assumption.
Qed.

(* the error pair *)
Lemma p_err F d c t r : c < 256 -> utf8_valid t = true -> N.of_nat (length t) < 2 ^ 64 ->
  parses (tk <- tok ;; err_from F d tk) (ser (BList [BInt (Z.of_N c); BStr t]) ++ r) (c, t) r.
Proof.
  intros Hc Hu Hl. rewrite ser_BList. cbn [ser_list flat_map ser app]. rewrite app_nil_r.
  eapply parses_bind; [apply tok_l|]. cbn [err_from].
  eapply parses_bind; [apply parses_enter|].
  rewrite <- !app_assoc.
  eapply parses_bind; [apply tok_int; lia|]. cbv beta iota.
  replace ((0 <=? Z.of_N c)%Z && (Z.of_N c <=? 255)%Z) with true by lia.
  eapply parses_bind; [apply parses_ret|].
  eapply parses_bind; [apply tok_str; exact Hl|].
  cbn [str_from]. rewrite Hu.
  eapply parses_bind; [apply parses_ret|]. cbn [app].
  eapply parses_bind; [apply tok_e|]. rewrite N2Z.id. apply parses_ret.
Qed.

(* ------------------------------------------------------------------ *)
(* re-orderings with unknown keys                                     *)

Definition in_keys (known : list bytes) (k : bytes) : bool := existsb (bytes_eqb k) known.

Lemma in_keys_spec known k : in_keys known k = true <-> In k known.
Proof.
  unfold in_keys. rewrite existsb_exists. split.
  - intros [x [Hx E]]. apply bytes_eqb_eq in E. subst. exact Hx.
  - intros H. exists k. split; [exact H | apply bytes_eqb_eq; reflexivity].
Qed.

Lemma bytes_eqb_refl k : bytes_eqb k k = true.
Proof. apply bytes_eqb_eq. reflexivity. Qed.

Lemma bytes_eqb_neq a b : a <> b -> bytes_eqb a b = false.
Proof. intros H. destruct (bytes_eqb a b) eqn:E; [apply bytes_eqb_eq in E; contradiction | reflexivity]. Qed.

(* [es'] has the entries of [E] in any order plus entries with keys outside [reserved] *)
Record dvariant (reserved : list bytes) (E es' : list (bytes * bvalue)) : Prop := {
  dv_in : forall kv, In kv E -> In kv es';
  dv_known : forall k v, In (k, v) es' -> in_keys reserved k = true -> In (k, v) E;
  dv_nodup : NoDup (filter (in_keys reserved) (map fst es'))
}.

Lemma filter_map_fst {A} (P : bytes -> bool) (l : list (bytes * A)) :
  filter P (map fst l) = map fst (filter (fun kv => P (fst kv)) l).
Proof.
  induction l as [|x l IH]; [reflexivity|]. cbn [map filter]. destruct (P (fst x)); cbn [map]; rewrite IH; reflexivity.
Qed.

Lemma perm_filter {A} (f : A -> bool) (l l' : list A) : Permutation l l' -> Permutation (filter f l) (filter f l').
Proof.
  induction 1 as [|x l l' H IH|x y l|l l' l'' H1 IH1 H2 IH2]; cbn [filter].
  - constructor.
  - destruct (f x); [constructor|]; exact IH.
  - destruct (f x), (f y); try reflexivity. constructor.
  - etransitivity; eassumption.
Qed.

(* the readable form: a permutation of E ++ extras *)
Lemma dvariant_of_perm reserved E extras es' :
  Permutation es' (E ++ extras) ->
  NoDup (map fst E) -> (forall k, In k (map fst E) -> In k reserved) ->
  Forall (fun kv => ~ In (fst kv) reserved) extras ->
  dvariant reserved E es'.
Proof.
  intros Hp Hnd Hres Hex. constructor.
  - intros kv H. eapply Permutation_in; [apply Permutation_sym; exact Hp|]. apply in_or_app. left. exact H.
  - intros k v H Hk. apply (Permutation_in _ Hp) in H. apply in_app_or in H as [H|H]; [exact H|].
    rewrite Forall_forall in Hex. specialize (Hex _ H). apply in_keys_spec in Hk. contradiction.
  - assert (Hp' : Permutation (filter (in_keys reserved) (map fst es')) (map fst E)).
    { etransitivity; [apply perm_filter; apply (Permutation_map fst Hp)|]. rewrite map_app, filter_app.
      assert (H1 : filter (in_keys reserved) (map fst E) = map fst E).
      { clear -Hres. induction (map fst E) as [|k l IH]; [reflexivity|]. cbn [filter].
        replace (in_keys reserved k) with true by (symmetry; apply in_keys_spec; apply Hres; left; reflexivity).
        f_equal. apply IH. intros k' Hk'. apply Hres. right. exact Hk'. }
      assert (H2 : filter (in_keys reserved) (map fst extras) = []).
      { clear -Hex. induction extras as [|x l IH]; [reflexivity|]. inversion Hex; subst. cbn [map filter].
        destruct (in_keys reserved (fst x)) eqn:E; [apply in_keys_spec in E; contradiction|]. apply IH. assumption. }
      rewrite H1, H2, app_nil_r. reflexivity. }
    eapply Permutation_NoDup; [apply Permutation_sym; exact Hp' | exact Hnd].
Qed.

Lemma nodup_filter_sub (P Q : bytes -> bool) l :
  (forall k, Q k = true -> P k = true) -> NoDup (filter P l) -> NoDup (filter Q l).
Proof.
  intros Hsub. induction l as [|k l IH]; intros H; [constructor|]. cbn [filter] in *.
  destruct (Q k) eqn:Eq.
  - rewrite (Hsub _ Eq) in H. inversion H; subst. constructor; [|apply IH; assumption].
    intros Hin. apply filter_In in Hin as [Hin _]. apply H2. apply filter_In. split; [exact Hin | apply Hsub; exact Eq].
  - apply IH. destruct (P k); [inversion H; assumption | exact H].
Qed.

(* ---- collect / field on the buffered form of a dictionary ---- *)
Definition centry (kv : bytes * bvalue) : content * content := (CStr (fst kv), content_of (snd kv)).
Definition fentry (kv : bytes * bvalue) : bytes * content := (fst kv, content_of (snd kv)).

Lemma content_of_BDict l : content_of (BDict l) = CDict (map centry l).
Proof. reflexivity. Qed.

Lemma collect_map known : forall es acc,
  NoDup (filter (in_keys known) (map fst es)) ->
  (forall k, In k (map fst acc) -> ~ In k (map fst es)) ->
  collect known (map centry es) acc
  = Some (acc ++ map fentry (filter (fun kv => in_keys known (fst kv)) es)).
Proof.
  induction es as [|[k v] es IH]; intros acc Hnd Hacc.
  - cbn. rewrite app_nil_r. reflexivity.
  - cbn [map centry fst snd collect filter]. fold (in_keys known k).
    cbn [map fst filter] in Hnd.
    destruct (in_keys known k) eqn:Ek.
    + assert (Hnk : existsb (fun kv => bytes_eqb k (fst kv)) acc = false).
      { destruct (existsb (fun kv => bytes_eqb k (fst kv)) acc) eqn:Ex; [|reflexivity].
        apply existsb_exists in Ex as [x [Hx Ee]]. apply bytes_eqb_eq in Ee.
        exfalso. apply (Hacc k); [rewrite Ee; apply in_map; exact Hx | left; reflexivity]. }
      rewrite Hnk. inversion Hnd as [|? ? Hnin Hnd']; subst.
      rewrite IH.
      * cbn [map fentry fst snd]. rewrite <- app_assoc. reflexivity.
      * exact Hnd'.
      * intros k' Hk' Hin. rewrite map_app in Hk'. apply in_app_or in Hk' as [Hk'|Hk'].
        -- apply (Hacc k' Hk'). right. exact Hin.
        -- cbn in Hk'. destruct Hk' as [<-|[]]. apply Hnin. apply filter_In. split; assumption.
    + apply IH; [exact Hnd|]. intros k' Hk' Hin. apply (Hacc k' Hk'). right. exact Hin.
Qed.

Lemma field_found k c : forall fs, NoDup (map fst fs) -> In (k, c) fs -> field k fs = Some c.
Proof.
  unfold field. induction fs as [|[k' c'] fs IH]; intros Hnd Hin; [destruct Hin|].
  cbn [find fst]. destruct (bytes_eqb k k') eqn:E.
  - apply bytes_eqb_eq in E. subst k'. destruct Hin as [Hin|Hin]; [inversion Hin; reflexivity|].
    inversion Hnd; subst. exfalso. apply H1. change k with (fst (k, c)). apply in_map. exact Hin.
  - destruct Hin as [Hin|Hin]; [inversion Hin; subst; rewrite bytes_eqb_refl in E; discriminate|].
    inversion Hnd; subst. apply IH; assumption.
Qed.

Lemma field_none k : forall fs, ~ In k (map fst fs) -> field k fs = None.
Proof.
  unfold field. induction fs as [|[k' c'] fs IH]; intros H; [reflexivity|].
  cbn [find fst]. destruct (bytes_eqb k k') eqn:E.
  - apply bytes_eqb_eq in E. subst. exfalso. apply H. left. reflexivity.
  - apply IH. intros Hin. apply H. right. exact Hin.
Qed.

(* what collecting the keys [known] out of a variant gives, field by field *)
Lemma collect_variant reserved known E es' :
  dvariant reserved E es' ->
  (forall k, In k known -> In k reserved) ->
  exists fs, collect known (map centry es') [] = Some fs /\
    (forall k v, In k known -> In (k, v) E -> field k fs = Some (content_of v)) /\
    (forall k, In k known -> ~ In k (map fst E) -> field k fs = None).
Proof.
  intros Hv Hsub.
  assert (Hnd : NoDup (filter (in_keys known) (map fst es'))).
  { eapply nodup_filter_sub; [|apply (dv_nodup _ _ _ Hv)].
    intros k Hk. apply in_keys_spec. apply Hsub. apply in_keys_spec. exact Hk. }
  eexists. split; [apply collect_map; [exact Hnd | intros k []]|]. cbn [app].
  assert (Hnd2 : NoDup (map fst (map fentry (filter (fun kv => in_keys known (fst kv)) es')))).
  { rewrite map_map. cbn [fentry fst]. rewrite <- filter_map_fst. exact Hnd. }
  split.
  - intros k v Hk Hin. apply field_found; [exact Hnd2|].
    change (k, content_of v) with (fentry (k, v)). apply in_map. apply filter_In. split.
    + apply (dv_in _ _ _ Hv). exact Hin.
    + apply in_keys_spec. exact Hk.
  - intros k Hk Hnin. apply field_none. rewrite map_map. cbn [fentry fst]. intros Hin.
    apply in_map_iff in Hin as [[k' v] [Ek Hin]]. cbn in Ek. subst k'.
    apply filter_In in Hin as [Hin _]. apply Hnin.
    change k with (fst (k, v)). apply in_map. apply (dv_known _ _ _ Hv); [exact Hin|].
    apply in_keys_spec. apply Hsub. exact Hk.
Qed.

(* ------------------------------------------------------------------ *)
(* the buffered query arguments                                       *)

Definition reserved_args : list bytes :=
  [k_id; k_target; k_info_hash; k_want; k_port; k_implied_port; k_token].

Lemma c_id_enc x : x < 2 ^ 160 -> c_id (CStr (enc_id x)) = Some x.
Proof. intros H. unfold c_id, c_bytes. apply dec_enc_id. exact H. Qed.

Lemma c_want_tree w : c_want (content_of (want_tree w)) = Some (Some w).
Proof. destruct w; vm_compute; reflexivity. Qed.

Ltac sub_keys := let k := fresh "k" in let H := fresh "H" in
  intros k H; cbn in H |- *; intuition (subst; auto).
Ltac not_key := solve [cbn; intuition discriminate].
Ltac is_entry := solve [cbn; auto 10].

Ltac use_collect Hv K :=
  let fs := fresh "fs" in let Ec := fresh "Ec" in let Hf := fresh "Hf" in let Hn := fresh "Hn" in
  destruct (collect_variant reserved_args K _ _ Hv ltac:(sub_keys)) as [fs [Ec [Hf Hn]]];
  rewrite Ec; clear Ec.

Lemma request_of_variant rq es' :
  request_wf rq = true -> dvariant reserved_args (args_entries rq) es' ->
  request_of (content_of (BDict es')) = Some rq.
Proof.
  intros Hwf Hv. rewrite content_of_BDict. unfold request_of.
  destruct rq as [id | id tg w | id ih w | id ih p tk]; cbn [request_wf] in Hwf;
    repeat (apply andb_true_iff in Hwf as [Hwf ?]); repeat match goal with H : id_ok _ = true |- _ => apply id_ok_spec in H end.
  - (* ping: no target, no info_hash *)
    unfold find_node_of. use_collect Hv [k_id; k_target; k_want].
    unfold req_field at 2. rewrite (Hn k_target) by (first [is_entry | not_key]).
    destruct (req_field k_id c_id fs); cbv iota.
    all: unfold announce_of; use_collect Hv [k_id; k_info_hash; k_token]; use_collect Hv [k_port; k_implied_port].
    all: unfold req_field at 2; rewrite (Hn0 k_info_hash) by (first [is_entry | not_key]).
    all: destruct (req_field k_id c_id fs0); cbv iota.
    all: unfold get_peers_of; use_collect Hv [k_id; k_info_hash; k_want].
    all: unfold req_field at 2; rewrite (Hn2 k_info_hash) by (first [is_entry | not_key]).
    all: destruct (req_field k_id c_id fs2); cbv iota.
    all: unfold ping_of; use_collect Hv [k_id].
    all: unfold req_field; rewrite (Hf3 k_id (BStr (enc_id id))) by (first [is_entry | not_key]).
    all: cbn [content_of]; rewrite c_id_enc by assumption; reflexivity.
  - (* find_node: first variant *)
    unfold find_node_of. use_collect Hv [k_id; k_target; k_want].
    unfold req_field, opt_field.
    rewrite (Hf k_id (BStr (enc_id id))) by (first [is_entry | not_key]).
    rewrite (Hf k_target (BStr (enc_id tg))) by (first [is_entry | not_key]).
    cbn [content_of]. rewrite !c_id_enc by assumption.
    destruct w as [w|].
    + rewrite (Hf k_want (want_tree w)) by (first [is_entry | not_key]). rewrite c_want_tree. reflexivity.
    + rewrite (Hn k_want) by (first [is_entry | not_key]). reflexivity.
  - (* get_peers: no target, no token *)
    unfold find_node_of. use_collect Hv [k_id; k_target; k_want].
    unfold req_field at 2. rewrite (Hn k_target) by (first [is_entry | destruct w; not_key]).
    destruct (req_field k_id c_id fs); cbv iota.
    all: unfold announce_of; use_collect Hv [k_id; k_info_hash; k_token]; use_collect Hv [k_port; k_implied_port].
    all: unfold req_field at 3; rewrite (Hn0 k_token) by (first [is_entry | destruct w; not_key]).
    all: destruct (req_field k_id c_id fs0); destruct (req_field k_info_hash c_id fs0); cbv iota.
    all: unfold get_peers_of; use_collect Hv [k_id; k_info_hash; k_want].
    all: unfold req_field, opt_field.
    all: rewrite (Hf2 k_id (BStr (enc_id id))) by (first [is_entry | not_key]).
    all: rewrite (Hf2 k_info_hash (BStr (enc_id ih))) by (first [is_entry | not_key]).
    all: cbn [content_of]; rewrite !c_id_enc by assumption.
    all: destruct w as [w|];
      [rewrite (Hf2 k_want (want_tree w)) by (first [is_entry | not_key]); rewrite c_want_tree; reflexivity
      |rewrite (Hn2 k_want) by (first [is_entry | not_key]); reflexivity].
  - (* announce_peer: no target *)
    unfold find_node_of. use_collect Hv [k_id; k_target; k_want].
    unfold req_field at 2. rewrite (Hn k_target) by (first [is_entry | destruct p; not_key]).
    destruct (req_field k_id c_id fs); cbv iota.
    all: unfold announce_of; use_collect Hv [k_id; k_info_hash; k_token]; use_collect Hv [k_port; k_implied_port].
    all: unfold req_field, opt_field.
    all: rewrite (Hf0 k_id (BStr (enc_id id))) by (first [is_entry | destruct p; is_entry]).
    all: rewrite (Hf0 k_info_hash (BStr (enc_id ih))) by (first [destruct p; is_entry]).
    all: rewrite (Hf0 k_token (BStr tk)) by (first [destruct p; is_entry]).
    all: cbn [content_of]; rewrite !c_id_enc by assumption; cbn [c_bytes].
    all: destruct p as [p|].
    all: try (rewrite (Hf1 k_port (BInt (Z.of_N p))) by is_entry;
              rewrite (Hn1 k_implied_port) by not_key; cbn [content_of c_u16];
              replace ((0 <=? Z.of_N p)%Z && (Z.of_N p <=? 65535)%Z) with true by lia;
              rewrite N2Z.id; reflexivity).
    all: rewrite (Hf1 k_port (BInt (Z.of_N 0))) by is_entry;
         rewrite (Hf1 k_implied_port (BInt 1)) by is_entry; reflexivity.
Qed.

Lemma p_any F d v r : bv_wf v -> (length (ser v) <= F)%nat -> parses (any F d) (ser v ++ r) (content_of v) r.
Proof.
  intros Hwf Hf lg mx.
  destruct (any_ser_tok v Hwf F d r lg mx Hf) as [t [s1 [lg' [mx' [Et [_ Ea]]]]]].
  exists lg', mx'. unfold any, bind. rewrite Et. exact Ea.
Qed.

Lemma p_request F d rq es' r :
  request_wf rq = true -> dvariant reserved_args (args_entries rq) es' ->
  bv_wf (BDict es') -> (length (ser (BDict es')) <= F)%nat ->
  parses (t <- tok ;; request_from F d t) (ser (BDict es') ++ r) rq r.
Proof.
  intros Hwf Hv Hbw Hf. unfold request_from.
  eapply parses_ext with (m := c <- any F d ;; lift (request_of c)).
  { intros s. unfold any, bind. destruct (tok s) as [s' [t| |]]; reflexivity. }
  eapply parses_bind; [apply p_any; assumption|].
  apply parses_lift. apply request_of_variant; assumption.
Qed.

(* ------------------------------------------------------------------ *)
(* the streamed dictionaries: Response                                *)

Definition has (k : bytes) (seen : list bytes) : bool := existsb (bytes_eqb k) seen.

Lemma has_app k a b : has k (a ++ b) = has k a || has k b.
Proof. apply existsb_app. Qed.

Lemma has_false k seen : ~ In k seen -> has k seen = false.
Proof.
  intros H. unfold has. destruct (existsb (bytes_eqb k) seen) eqn:E; [|reflexivity].
  apply existsb_exists in E as [x [Hx E]]. apply bytes_eqb_eq in E. subst. contradiction.
Qed.

Ltac eval_eqb := repeat match goal with
  | |- context [bytes_eqb ?a ?b] =>
      let v := eval vm_compute in (bytes_eqb a b) in
      match v with true => idtac | false => idtac end; change (bytes_eqb a b) with v
  end.

Definition known_resp : list bytes := [k_id; k_values; k_nodes; k_nodes6; k_token].

Definition mask_ra (seen : list bytes) (W : resp_acc) : resp_acc :=
  mkRA (if has k_id seen then ra_id W else None)
       (if has k_values seen then ra_values W else None)
       (if has k_nodes seen then ra_nodes W else None)
       (if has k_nodes6 seen then ra_nodes6 W else None)
       (if has k_token seen then ra_token W else None).

Definition rentry_ok (F d : nat) (W : resp_acc) (kv : bytes * bvalue) : Prop :=
  N.of_nat (length (fst kv)) < 2 ^ 64 /\ utf8_valid (fst kv) = true /\
  (fst kv = k_id -> exists x, ra_id W = Some x /\
      forall r, parses (t <- tok ;; id_from F d t) (ser (snd kv) ++ r) x r) /\
  (fst kv = k_values -> exists x, ra_values W = Some x /\
      forall r, parses (t <- tok ;; values_from F d t) (ser (snd kv) ++ r) x r) /\
  (fst kv = k_nodes -> exists x, ra_nodes W = Some x /\
      forall r, parses (t <- tok ;; nodes_from false F d t) (ser (snd kv) ++ r) x r) /\
  (fst kv = k_nodes6 -> exists x, ra_nodes6 W = Some x /\
      forall r, parses (t <- tok ;; nodes_from true F d t) (ser (snd kv) ++ r) x r) /\
  (fst kv = k_token -> exists x, ra_token W = Some x /\
      forall r, parses (t <- tok ;; bytes_from F d t) (ser (snd kv) ++ r) x r) /\
  (in_keys known_resp (fst kv) = false -> bv_wf (snd kv) /\ (length (ser (snd kv)) <= F)%nat).

Lemma mask_ra_nil W : mask_ra [] W = ra_empty.
Proof. reflexivity. Qed.

Ltac mask_step Hseen :=
  unfold mask_ra; cbn [ra_id ra_values ra_nodes ra_nodes6 ra_token];
  rewrite !has_app; unfold has at 2 4 6 8 10; cbn [existsb]; eval_eqb;
  rewrite ?orb_false_r, ?orb_true_r;
  rewrite ?Hseen; try reflexivity.

Lemma resp_loop_ok F d W : forall es' seen fuel r,
  (length es' < fuel)%nat ->
  Forall (rentry_ok F d W) es' ->
  NoDup (filter (in_keys known_resp) (map fst es')) ->
  (forall k, In k seen -> ~ In k (map fst es')) ->
  parses (resp_map_loop fuel F d (mask_ra seen W)) (ser_dict es' ++ ch_e :: r)
         (mask_ra (seen ++ filter (in_keys known_resp) (map fst es')) W) r.
Proof.
  induction es' as [|[k v] es' IH]; intros seen fuel r Hfuel Hok Hnd Hseen;
    (destruct fuel as [|fuel]; [cbn in Hfuel; lia|]).
  - cbn [ser_dict flat_map app map filter resp_map_loop]. rewrite app_nil_r.
    eapply parses_bind; [apply tok_e|]. apply parses_ret.
  - inversion Hok as [|? ? [Hlen [Hutf [Hid [Hval [Hn4 [Hn6 [Htk Hunk]]]]]]] Hok']; subst.
    cbn [fst snd] in *. cbn [ser_dict flat_map resp_map_loop]. fold (ser_dict es'). cbn [fst snd].
    rewrite <- !app_assoc.
    eapply parses_bind; [apply tok_str; exact Hlen|]. cbv beta iota.
    eapply parses_bind; [cbn [str_from]; rewrite Hutf; apply parses_ret|].
    cbn [map fst filter] in Hnd |- *.
    assert (Hk_notseen : has k seen = false).
    { apply has_false. intros Hin. apply (Hseen k Hin). left. reflexivity. }
    destruct (bytes_eqb k k_id) eqn:E1; [apply bytes_eqb_eq in E1; subst k|].
    { destruct (Hid eq_refl) as [x [HW Hp]].
      change (in_keys known_resp k_id) with true in Hnd |- *. inversion Hnd as [|? ? Hnin Hnd']; subst.
      replace (is_some (ra_id (mask_ra seen W))) with false
        by (unfold mask_ra; cbn [ra_id]; rewrite Hk_notseen; reflexivity).
      eapply parses_bind_assoc; [apply Hp|].
      replace (mkRA (Some x) (ra_values (mask_ra seen W)) (ra_nodes (mask_ra seen W)) (ra_nodes6 (mask_ra seen W))
                    (ra_token (mask_ra seen W))) with (mask_ra (seen ++ [k_id]) W)
        by (mask_step Hk_notseen; rewrite HW; reflexivity).
      replace (seen ++ k_id :: filter (in_keys known_resp) (map fst es'))
        with ((seen ++ [k_id]) ++ filter (in_keys known_resp) (map fst es')) by (rewrite <- app_assoc; reflexivity).
      apply IH; [cbn in Hfuel; lia | exact Hok' | exact Hnd' |].
      intros k' Hk' Hin. apply in_app_or in Hk' as [Hk'|[<-|[]]].
      - apply (Hseen k' Hk'). right. exact Hin.
      - apply Hnin. apply filter_In. split; [exact Hin | reflexivity]. }
    destruct (bytes_eqb k k_values) eqn:E2; [apply bytes_eqb_eq in E2; subst k|].
    { destruct (Hval eq_refl) as [x [HW Hp]].
      change (in_keys known_resp k_values) with true in Hnd |- *. inversion Hnd as [|? ? Hnin Hnd']; subst.
      replace (is_some (ra_values (mask_ra seen W))) with false
        by (unfold mask_ra; cbn [ra_values]; rewrite Hk_notseen; reflexivity).
      eapply parses_bind_assoc; [apply Hp|].
      replace (mkRA (ra_id (mask_ra seen W)) (Some x) (ra_nodes (mask_ra seen W)) (ra_nodes6 (mask_ra seen W))
                    (ra_token (mask_ra seen W))) with (mask_ra (seen ++ [k_values]) W)
        by (mask_step Hk_notseen; rewrite HW; reflexivity).
      replace (seen ++ k_values :: filter (in_keys known_resp) (map fst es'))
        with ((seen ++ [k_values]) ++ filter (in_keys known_resp) (map fst es')) by (rewrite <- app_assoc; reflexivity).
      apply IH; [cbn in Hfuel; lia | exact Hok' | exact Hnd' |].
      intros k' Hk' Hin. apply in_app_or in Hk' as [Hk'|[<-|[]]].
      - apply (Hseen k' Hk'). right. exact Hin.
      - apply Hnin. apply filter_In. split; [exact Hin | reflexivity]. }
    destruct (bytes_eqb k k_nodes) eqn:E3; [apply bytes_eqb_eq in E3; subst k|].
    { destruct (Hn4 eq_refl) as [x [HW Hp]].
      change (in_keys known_resp k_nodes) with true in Hnd |- *. inversion Hnd as [|? ? Hnin Hnd']; subst.
      replace (is_some (ra_nodes (mask_ra seen W))) with false
        by (unfold mask_ra; cbn [ra_nodes]; rewrite Hk_notseen; reflexivity).
      eapply parses_bind_assoc; [apply Hp|].
      replace (mkRA (ra_id (mask_ra seen W)) (ra_values (mask_ra seen W)) (Some x) (ra_nodes6 (mask_ra seen W))
                    (ra_token (mask_ra seen W))) with (mask_ra (seen ++ [k_nodes]) W)
        by (mask_step Hk_notseen; rewrite HW; reflexivity).
      replace (seen ++ k_nodes :: filter (in_keys known_resp) (map fst es'))
        with ((seen ++ [k_nodes]) ++ filter (in_keys known_resp) (map fst es')) by (rewrite <- app_assoc; reflexivity).
      apply IH; [cbn in Hfuel; lia | exact Hok' | exact Hnd' |].
      intros k' Hk' Hin. apply in_app_or in Hk' as [Hk'|[<-|[]]].
      - apply (Hseen k' Hk'). right. exact Hin.
      - apply Hnin. apply filter_In. split; [exact Hin | reflexivity]. }
    destruct (bytes_eqb k k_nodes6) eqn:E4; [apply bytes_eqb_eq in E4; subst k|].
    { destruct (Hn6 eq_refl) as [x [HW Hp]].
      change (in_keys known_resp k_nodes6) with true in Hnd |- *. inversion Hnd as [|? ? Hnin Hnd']; subst.
      replace (is_some (ra_nodes6 (mask_ra seen W))) with false
        by (unfold mask_ra; cbn [ra_nodes6]; rewrite Hk_notseen; reflexivity).
      eapply parses_bind_assoc; [apply Hp|].
      replace (mkRA (ra_id (mask_ra seen W)) (ra_values (mask_ra seen W)) (ra_nodes (mask_ra seen W)) (Some x)
                    (ra_token (mask_ra seen W))) with (mask_ra (seen ++ [k_nodes6]) W)
        by (mask_step Hk_notseen; rewrite HW; reflexivity).
      replace (seen ++ k_nodes6 :: filter (in_keys known_resp) (map fst es'))
        with ((seen ++ [k_nodes6]) ++ filter (in_keys known_resp) (map fst es')) by (rewrite <- app_assoc; reflexivity).
      apply IH; [cbn in Hfuel; lia | exact Hok' | exact Hnd' |].
      intros k' Hk' Hin. apply in_app_or in Hk' as [Hk'|[<-|[]]].
      - apply (Hseen k' Hk'). right. exact Hin.
      - apply Hnin. apply filter_In. split; [exact Hin | reflexivity]. }
    destruct (bytes_eqb k k_token) eqn:E5; [apply bytes_eqb_eq in E5; subst k|].
    { destruct (Htk eq_refl) as [x [HW Hp]].
      change (in_keys known_resp k_token) with true in Hnd |- *. inversion Hnd as [|? ? Hnin Hnd']; subst.
      replace (is_some (ra_token (mask_ra seen W))) with false
        by (unfold mask_ra; cbn [ra_token]; rewrite Hk_notseen; reflexivity).
      eapply parses_bind_assoc; [apply Hp|].
      replace (mkRA (ra_id (mask_ra seen W)) (ra_values (mask_ra seen W)) (ra_nodes (mask_ra seen W))
                    (ra_nodes6 (mask_ra seen W)) (Some x)) with (mask_ra (seen ++ [k_token]) W)
        by (mask_step Hk_notseen; rewrite HW; reflexivity).
      replace (seen ++ k_token :: filter (in_keys known_resp) (map fst es'))
        with ((seen ++ [k_token]) ++ filter (in_keys known_resp) (map fst es')) by (rewrite <- app_assoc; reflexivity).
      apply IH; [cbn in Hfuel; lia | exact Hok' | exact Hnd' |].
      intros k' Hk' Hin. apply in_app_or in Hk' as [Hk'|[<-|[]]].
      - apply (Hseen k' Hk'). right. exact Hin.
      - apply Hnin. apply filter_In. split; [exact Hin | reflexivity]. }
    (* an unknown key: its value is skipped *)
    assert (Hunk' : in_keys known_resp k = false).
    { unfold in_keys, known_resp. cbn [existsb]. rewrite E1, E2, E3, E4, E5. reflexivity. }
    rewrite Hunk' in Hnd |- *. destruct (Hunk Hunk') as [Hwf Hsz].
    eapply parses_bind; [apply p_any; assumption|].
    apply IH; [cbn in Hfuel; lia | exact Hok' | exact Hnd |].
    intros k' Hk' Hin. apply (Hseen k' Hk'). right. exact Hin.
Qed.

Lemma in_resp_entries rs k v : In (k, v) (resp_entries rs) ->
  (k = k_id /\ v = BStr (enc_id (r_id rs))) \/
  (k = k_nodes /\ r_nodes4 rs <> [] /\ v = BStr (cat_nodes (r_nodes4 rs))) \/
  (k = k_nodes6 /\ r_nodes6 rs <> [] /\ v = BStr (cat_nodes (r_nodes6 rs))) \/
  (k = k_token /\ r_token rs = Some (match v with BStr s => s | _ => [] end) /\ exists s, v = BStr s) \/
  (k = k_values /\ r_values rs <> [] /\ v = values_tree (r_values rs)).
Proof.
  unfold resp_entries. intros H.
  apply in_app_or in H as [H|H]; [destruct H as [H|[]]; inversion H; subst; auto|].
  apply in_app_or in H as [H|H].
  { destruct (r_nodes4 rs) eqn:E; [destruct H|]. destruct H as [H|[]]. inversion H; subst.
    right. left. repeat split; congruence. }
  apply in_app_or in H as [H|H].
  { destruct (r_nodes6 rs) eqn:E; [destruct H|]. destruct H as [H|[]]. inversion H; subst.
    right. right. left. repeat split; congruence. }
  apply in_app_or in H as [H|H].
  { destruct (r_token rs) eqn:E; [|destruct H]. destruct H as [H|[]]. inversion H; subst.
    right. right. right. left. repeat split; eauto. }
  destruct (r_values rs) eqn:E; [destruct H|]. destruct H as [H|[]]. inversion H; subst.
  right. right. right. right. repeat split; congruence.
Qed.

Lemma resp_entries_id rs : In (k_id, BStr (enc_id (r_id rs))) (resp_entries rs).
Proof. unfold resp_entries. apply in_or_app. left. left. reflexivity. Qed.
Lemma resp_entries_nodes rs : r_nodes4 rs <> [] -> In (k_nodes, BStr (cat_nodes (r_nodes4 rs))) (resp_entries rs).
Proof.
  intros H. unfold resp_entries. apply in_or_app. right. apply in_or_app. left.
  destruct (r_nodes4 rs); [congruence | left; reflexivity].
Qed.
Lemma resp_entries_nodes6 rs : r_nodes6 rs <> [] -> In (k_nodes6, BStr (cat_nodes (r_nodes6 rs))) (resp_entries rs).
Proof.
  intros H. unfold resp_entries. apply in_or_app. right. apply in_or_app. right. apply in_or_app. left.
  destruct (r_nodes6 rs); [congruence | left; reflexivity].
Qed.
Lemma resp_entries_token rs tk : r_token rs = Some tk -> In (k_token, BStr tk) (resp_entries rs).
Proof.
  intros H. unfold resp_entries. do 3 (apply in_or_app; right). apply in_or_app. left.
  rewrite H. left. reflexivity.
Qed.
Lemma resp_entries_values rs : r_values rs <> [] -> In (k_values, values_tree (r_values rs)) (resp_entries rs).
Proof.
  intros H. unfold resp_entries. do 4 (apply in_or_app; right).
  destruct (r_values rs); [congruence | left; reflexivity].
Qed.

Lemma ser_in_dict_length k v es : In (k, v) es -> (length (ser v) <= length (ser_dict es))%nat.
Proof.
  induction es as [|x es IH]; intros H; [destruct H|]. cbn [ser_dict flat_map]. rewrite !app_length.
  destruct H as [->|H]; [cbn [snd]; lia|]. specialize (IH H). unfold ser_dict in IH. lia.
Qed.

Lemma ser_dict_count es : (length es <= length (ser_dict es))%nat.
Proof.
  induction es as [|x es IH]; [cbn; lia|]. cbn [ser_dict flat_map length]. rewrite !app_length.
  pose proof (ser_str_length (fst x)). unfold ser_dict in IH. lia.
Qed.

Lemma values_tree_length l : (length l < length (ser (values_tree l)))%nat.
Proof.
  unfold values_tree. rewrite ser_BList. cbn [length]. rewrite app_length. cbn [length].
  assert (length l <= length (ser_list (map (fun a => BStr (enc_addr a)) l)))%nat; [|lia].
  induction l as [|a l IH]; [cbn; lia|]. cbn [map ser_list flat_map length]. rewrite app_length.
  pose proof (ser_length_pos (BStr (enc_addr a))). unfold ser_list in IH. lia.
Qed.

Lemma known_resp_utf8 k : in_keys known_resp k = true -> utf8_valid k = true.
Proof.
  intros H. apply in_keys_spec in H. cbn in H.
  destruct H as [<-|[<-|[<-|[<-|[<-|[]]]]]]; reflexivity.
Qed.

Lemma has_in k l : In k l -> has k l = true.
Proof. intros H. unfold has. apply existsb_exists. exists k. split; [exact H | apply bytes_eqb_refl]. Qed.

Definition resp_W (rs : response) : resp_acc :=
  mkRA (Some (r_id rs))
       (match r_values rs with [] => None | l => Some l end)
       (match r_nodes4 rs with [] => None | l => Some l end)
       (match r_nodes6 rs with [] => None | l => Some l end)
       (r_token rs).

Lemma p_resp F rs es' r :
  response_wf rs = true ->
  dvariant known_resp (resp_entries rs) es' ->
  (forall k v, In (k, v) es' -> in_keys known_resp k = false -> utf8_valid k = true) ->
  bv_wf (BDict es') -> (length (ser (BDict es')) <= F)%nat ->
  parses (t <- tok ;; resp_from F 1 t) (ser (BDict es') ++ r) rs r.
Proof.
  intros Hwf Hv Hutf Hbw HF.
  unfold response_wf in Hwf. rewrite !andb_true_iff in Hwf. destruct Hwf as [[[[Hid Hvals] H4] H6] _].
  apply id_ok_spec in Hid. apply nodes_ok_spec in H4. apply nodes_ok_spec in H6.
  assert (Hvals' : Forall addr_in_range (r_values rs)).
  { rewrite forallb_forall in Hvals. apply Forall_forall. intros a Ha. apply addr_ok_spec. auto. }
  rewrite ser_BDict in *. cbn [app]. cbn [length] in HF. rewrite app_length in HF. cbn [length] in HF.
  eapply parses_bind; [apply tok_d|]. cbn [resp_from].
  eapply parses_bind; [apply parses_enter|].
  rewrite <- app_assoc. cbn [app].
  pose proof (proj1 (bv_wf_dict es') Hbw) as Hbw'. rewrite Forall_forall in Hbw'.
  eapply parses_bind.
  { rewrite <- (mask_ra_nil (resp_W rs)).
    apply resp_loop_ok; [pose proof (ser_dict_count es'); lia| | apply (dv_nodup _ _ _ Hv) | intros k []].
    apply Forall_forall. intros [k v] Hin. destruct (Hbw' _ Hin) as [Hlk Hwv]. cbn [fst snd] in *.
    pose proof (ser_in_dict_length _ _ _ Hin) as Hlen.
    unfold rentry_ok. cbn [fst snd].
    split; [exact Hlk|]. split.
    { destruct (in_keys known_resp k) eqn:Ek; [apply known_resp_utf8; exact Ek | eapply Hutf; eassumption]. }
    repeat split.
    - intros ->. exists (r_id rs). split; [reflexivity|]. intros r0.
      apply (dv_known _ _ _ Hv) in Hin; [|reflexivity].
      apply in_resp_entries in Hin as [[_ ->]|[[E _]|[[E _]|[[E _]|[E _]]]]]; try discriminate E.
      apply p_id. exact Hid.
    - intros ->. apply (dv_known _ _ _ Hv) in Hin; [|reflexivity].
      apply in_resp_entries in Hin as [[E _]|[[E _]|[[E _]|[[E _]|[_ [Hne ->]]]]]]; try discriminate E.
      exists (r_values rs). split; [cbn [resp_W ra_values]; destruct (r_values rs); [congruence | reflexivity]|].
      intros r0. apply p_values; [exact Hvals'|]. pose proof (values_tree_length (r_values rs)). lia.
    - intros ->. apply (dv_known _ _ _ Hv) in Hin; [|reflexivity].
      apply in_resp_entries in Hin as [[E _]|[[_ [Hne ->]]|[[E _]|[[E _]|[E _]]]]]; try discriminate E.
      exists (r_nodes4 rs). split; [cbn [resp_W ra_nodes]; destruct (r_nodes4 rs); [congruence | reflexivity]|].
      intros r0. apply p_nodes; [exact H4 | exact Hwv].
    - intros ->. apply (dv_known _ _ _ Hv) in Hin; [|reflexivity].
      apply in_resp_entries in Hin as [[E _]|[[E _]|[[_ [Hne ->]]|[[E _]|[E _]]]]]; try discriminate E.
      exists (r_nodes6 rs). split; [cbn [resp_W ra_nodes6]; destruct (r_nodes6 rs); [congruence | reflexivity]|].
      intros r0. apply p_nodes; [exact H6 | exact Hwv].
    - intros ->. apply (dv_known _ _ _ Hv) in Hin; [|reflexivity].
      apply in_resp_entries in Hin as [[E _]|[[E _]|[[E _]|[[_ [Htk [s ->]]]|[E _]]]]]; try discriminate E.
      exists s. split; [exact Htk|]. intros r0. apply p_bytes. exact Hwv.
    - exact Hwv.
    - lia. }
  (* what has been collected is the response *)
  cbn [app].
  assert (Hk : forall k v, In (k, v) (resp_entries rs) -> in_keys known_resp k = true ->
                           has k (filter (in_keys known_resp) (map fst es')) = true).
  { intros k v Hin Hkn. apply has_in. apply filter_In. split; [|exact Hkn].
    change k with (fst (k, v)). apply in_map. apply (dv_in _ _ _ Hv). exact Hin. }
  unfold resp_finish, mask_ra. cbn [ra_id ra_values ra_nodes ra_nodes6 ra_token resp_W].
  rewrite (Hk _ _ (resp_entries_id rs) eq_refl).
  replace (mkResp (r_id rs) _ _ _ _) with rs; [apply parses_ret|].
  destruct rs as [i vs n4 n6 tk]. cbn [r_id r_values r_nodes4 r_nodes6 r_token] in *. f_equal.
  - destruct vs as [|a vs]; [destruct (has k_values _); reflexivity|].
    rewrite (Hk _ _ (resp_entries_values (mkResp i (a :: vs) n4 n6 tk) ltac:(discriminate)) eq_refl). reflexivity.
  - destruct n4 as [|a n4]; [destruct (has k_nodes _); reflexivity|].
    rewrite (Hk _ _ (resp_entries_nodes (mkResp i vs (a :: n4) n6 tk) ltac:(discriminate)) eq_refl). reflexivity.
  - destruct n6 as [|a n6]; [destruct (has k_nodes6 _); reflexivity|].
    rewrite (Hk _ _ (resp_entries_nodes6 (mkResp i vs n4 (a :: n6) tk) ltac:(discriminate)) eq_refl). reflexivity.
  - destruct tk as [tk|]; [|destruct (has k_token _); reflexivity].
    rewrite (Hk _ _ (resp_entries_token (mkResp i vs n4 n6 (Some tk)) tk eq_refl) eq_refl). reflexivity.
Qed.

(* ------------------------------------------------------------------ *)
(* the streamed dictionaries: RawMessage                              *)

Definition known_top : list bytes := [k_t; k_y; k_q; k_a; k_r; k_e].

Definition mask_raw (seen : list bytes) (W : raw) : raw :=
  mkRaw (if has k_t seen then w_t W else None)
        (if has k_y seen then w_y W else None)
        (if has k_q seen then w_q W else None)
        (if has k_a seen then w_a W else None)
        (if has k_r seen then w_r W else None)
        (if has k_e seen then w_e W else None).

Definition tentry_ok (F : nat) (W : raw) (kv : bytes * bvalue) : Prop :=
  N.of_nat (length (fst kv)) < 2 ^ 64 /\ utf8_valid (fst kv) = true /\
  (fst kv = k_t -> exists x, w_t W = Some x /\
      forall r, parses (t <- tok ;; bytes_from F 1 t) (ser (snd kv) ++ r) x r) /\
  (fst kv = k_y -> exists x, w_y W = Some x /\
      forall r, parses (t <- tok ;; enum_from mtype_variants t) (ser (snd kv) ++ r) x r) /\
  (fst kv = k_q -> exists x, w_q W = Some x /\
      forall r, parses (t <- tok ;; enum_from rtype_variants t) (ser (snd kv) ++ r) x r) /\
  (fst kv = k_a -> exists x, w_a W = Some x /\
      forall r, parses (t <- tok ;; request_from F 1 t) (ser (snd kv) ++ r) x r) /\
  (fst kv = k_r -> exists x, w_r W = Some x /\
      forall r, parses (t <- tok ;; resp_from F 1 t) (ser (snd kv) ++ r) x r) /\
  (fst kv = k_e -> exists x, w_e W = Some x /\
      forall r, parses (t <- tok ;; err_from F 1 t) (ser (snd kv) ++ r) x r) /\
  (in_keys known_top (fst kv) = false -> bv_wf (snd kv) /\ (length (ser (snd kv)) <= F)%nat).

Lemma mask_raw_nil W : mask_raw [] W = raw_empty.
Proof. reflexivity. Qed.

Ltac mask_step_raw Hseen :=
  unfold mask_raw; cbn [w_t w_y w_q w_a w_r w_e];
  rewrite !has_app; unfold has at 2 4 6 8 10 12; cbn [existsb]; eval_eqb;
  rewrite ?orb_false_r, ?orb_true_r;
  rewrite ?Hseen; try reflexivity.

Lemma raw_loop_ok F W : forall es' seen fuel r,
  (length es' < fuel)%nat ->
  Forall (tentry_ok F W) es' ->
  NoDup (filter (in_keys known_top) (map fst es')) ->
  (forall k, In k seen -> ~ In k (map fst es')) ->
  parses (raw_map_loop fuel F (mask_raw seen W)) (ser_dict es' ++ ch_e :: r)
         (mask_raw (seen ++ filter (in_keys known_top) (map fst es')) W) r.
Proof.
  induction es' as [|[k v] es' IH]; intros seen fuel r Hfuel Hok Hnd Hseen;
    (destruct fuel as [|fuel]; [cbn in Hfuel; lia|]).
  - cbn [ser_dict flat_map app map filter raw_map_loop]. rewrite app_nil_r.
    eapply parses_bind; [apply tok_e|]. apply parses_ret.
  - inversion Hok as [|? ? [Hlen [Hutf [H_k_t [H_k_y [H_k_q [H_k_a [H_k_r [H_k_e Hunk]]]]]]]] Hok']; subst.
    cbn [fst snd] in *. cbn [ser_dict flat_map raw_map_loop]. fold (ser_dict es'). cbn [fst snd].
    rewrite <- !app_assoc.
    eapply parses_bind; [apply tok_str; exact Hlen|]. cbv beta iota.
    eapply parses_bind; [cbn [str_from]; rewrite Hutf; apply parses_ret|].
    cbn [map fst filter] in Hnd |- *.
    assert (Hk_notseen : has k seen = false).
    { apply has_false. intros Hin. apply (Hseen k Hin). left. reflexivity. }
    destruct (bytes_eqb k k_t) eqn:E1; [apply bytes_eqb_eq in E1; subst k|].
    { destruct (H_k_t eq_refl) as [x [HW Hp]].
      change (in_keys known_top k_t) with true in Hnd |- *. inversion Hnd as [|? ? Hnin Hnd']; subst.
      replace (is_some (w_t (mask_raw seen W))) with false
        by (unfold mask_raw; cbn [w_t]; rewrite Hk_notseen; reflexivity).
      eapply parses_bind_assoc; [apply Hp|].
      replace (mkRaw (Some x) (w_y (mask_raw seen W)) (w_q (mask_raw seen W)) (w_a (mask_raw seen W)) (w_r (mask_raw seen W)) (w_e (mask_raw seen W))) with (mask_raw (seen ++ [k_t]) W)
        by (mask_step_raw Hk_notseen; rewrite HW; reflexivity).
      replace (seen ++ k_t :: filter (in_keys known_top) (map fst es'))
        with ((seen ++ [k_t]) ++ filter (in_keys known_top) (map fst es')) by (rewrite <- app_assoc; reflexivity).
      apply IH; [cbn in Hfuel; lia | exact Hok' | exact Hnd' |].
      intros k' Hk' Hin. apply in_app_or in Hk' as [Hk'|[<-|[]]].
      - apply (Hseen k' Hk'). right. exact Hin.
      - apply Hnin. apply filter_In. split; [exact Hin | reflexivity]. }
    destruct (bytes_eqb k k_y) eqn:E2; [apply bytes_eqb_eq in E2; subst k|].
    { destruct (H_k_y eq_refl) as [x [HW Hp]].
      change (in_keys known_top k_y) with true in Hnd |- *. inversion Hnd as [|? ? Hnin Hnd']; subst.
      replace (is_some (w_y (mask_raw seen W))) with false
        by (unfold mask_raw; cbn [w_y]; rewrite Hk_notseen; reflexivity).
      eapply parses_bind_assoc; [apply Hp|].
      replace (mkRaw (w_t (mask_raw seen W)) (Some x) (w_q (mask_raw seen W)) (w_a (mask_raw seen W)) (w_r (mask_raw seen W)) (w_e (mask_raw seen W))) with (mask_raw (seen ++ [k_y]) W)
        by (mask_step_raw Hk_notseen; rewrite HW; reflexivity).
      replace (seen ++ k_y :: filter (in_keys known_top) (map fst es'))
        with ((seen ++ [k_y]) ++ filter (in_keys known_top) (map fst es')) by (rewrite <- app_assoc; reflexivity).
      apply IH; [cbn in Hfuel; lia | exact Hok' | exact Hnd' |].
      intros k' Hk' Hin. apply in_app_or in Hk' as [Hk'|[<-|[]]].
      - apply (Hseen k' Hk'). right. exact Hin.
      - apply Hnin. apply filter_In. split; [exact Hin | reflexivity]. }
    destruct (bytes_eqb k k_q) eqn:E3; [apply bytes_eqb_eq in E3; subst k|].
    { destruct (H_k_q eq_refl) as [x [HW Hp]].
      change (in_keys known_top k_q) with true in Hnd |- *. inversion Hnd as [|? ? Hnin Hnd']; subst.
      replace (is_some (w_q (mask_raw seen W))) with false
        by (unfold mask_raw; cbn [w_q]; rewrite Hk_notseen; reflexivity).
      eapply parses_bind_assoc; [apply Hp|].
      replace (mkRaw (w_t (mask_raw seen W)) (w_y (mask_raw seen W)) (Some x) (w_a (mask_raw seen W)) (w_r (mask_raw seen W)) (w_e (mask_raw seen W))) with (mask_raw (seen ++ [k_q]) W)
        by (mask_step_raw Hk_notseen; rewrite HW; reflexivity).
      replace (seen ++ k_q :: filter (in_keys known_top) (map fst es'))
        with ((seen ++ [k_q]) ++ filter (in_keys known_top) (map fst es')) by (rewrite <- app_assoc; reflexivity).
      apply IH; [cbn in Hfuel; lia | exact Hok' | exact Hnd' |].
      intros k' Hk' Hin. apply in_app_or in Hk' as [Hk'|[<-|[]]].
      - apply (Hseen k' Hk'). right. exact Hin.
      - apply Hnin. apply filter_In. split; [exact Hin | reflexivity]. }
    destruct (bytes_eqb k k_a) eqn:E4; [apply bytes_eqb_eq in E4; subst k|].
    { destruct (H_k_a eq_refl) as [x [HW Hp]].
      change (in_keys known_top k_a) with true in Hnd |- *. inversion Hnd as [|? ? Hnin Hnd']; subst.
      replace (is_some (w_a (mask_raw seen W))) with false
        by (unfold mask_raw; cbn [w_a]; rewrite Hk_notseen; reflexivity).
      eapply parses_bind_assoc; [apply Hp|].
      replace (mkRaw (w_t (mask_raw seen W)) (w_y (mask_raw seen W)) (w_q (mask_raw seen W)) (Some x) (w_r (mask_raw seen W)) (w_e (mask_raw seen W))) with (mask_raw (seen ++ [k_a]) W)
        by (mask_step_raw Hk_notseen; rewrite HW; reflexivity).
      replace (seen ++ k_a :: filter (in_keys known_top) (map fst es'))
        with ((seen ++ [k_a]) ++ filter (in_keys known_top) (map fst es')) by (rewrite <- app_assoc; reflexivity).
      apply IH; [cbn in Hfuel; lia | exact Hok' | exact Hnd' |].
      intros k' Hk' Hin. apply in_app_or in Hk' as [Hk'|[<-|[]]].
      - apply (Hseen k' Hk'). right. exact Hin.
      - apply Hnin. apply filter_In. split; [exact Hin | reflexivity]. }
    destruct (bytes_eqb k k_r) eqn:E5; [apply bytes_eqb_eq in E5; subst k|].
    { destruct (H_k_r eq_refl) as [x [HW Hp]].
      change (in_keys known_top k_r) with true in Hnd |- *. inversion Hnd as [|? ? Hnin Hnd']; subst.
      replace (is_some (w_r (mask_raw seen W))) with false
        by (unfold mask_raw; cbn [w_r]; rewrite Hk_notseen; reflexivity).
      eapply parses_bind_assoc; [apply Hp|].
      replace (mkRaw (w_t (mask_raw seen W)) (w_y (mask_raw seen W)) (w_q (mask_raw seen W)) (w_a (mask_raw seen W)) (Some x) (w_e (mask_raw seen W))) with (mask_raw (seen ++ [k_r]) W)
        by (mask_step_raw Hk_notseen; rewrite HW; reflexivity).
      replace (seen ++ k_r :: filter (in_keys known_top) (map fst es'))
        with ((seen ++ [k_r]) ++ filter (in_keys known_top) (map fst es')) by (rewrite <- app_assoc; reflexivity).
      apply IH; [cbn in Hfuel; lia | exact Hok' | exact Hnd' |].
      intros k' Hk' Hin. apply in_app_or in Hk' as [Hk'|[<-|[]]].
      - apply (Hseen k' Hk'). right. exact Hin.
      - apply Hnin. apply filter_In. split; [exact Hin | reflexivity]. }
    destruct (bytes_eqb k k_e) eqn:E6; [apply bytes_eqb_eq in E6; subst k|].
    { destruct (H_k_e eq_refl) as [x [HW Hp]].
      change (in_keys known_top k_e) with true in Hnd |- *. inversion Hnd as [|? ? Hnin Hnd']; subst.
      replace (is_some (w_e (mask_raw seen W))) with false
        by (unfold mask_raw; cbn [w_e]; rewrite Hk_notseen; reflexivity).
      eapply parses_bind_assoc; [apply Hp|].
      replace (mkRaw (w_t (mask_raw seen W)) (w_y (mask_raw seen W)) (w_q (mask_raw seen W)) (w_a (mask_raw seen W)) (w_r (mask_raw seen W)) (Some x)) with (mask_raw (seen ++ [k_e]) W)
        by (mask_step_raw Hk_notseen; rewrite HW; reflexivity).
      replace (seen ++ k_e :: filter (in_keys known_top) (map fst es'))
        with ((seen ++ [k_e]) ++ filter (in_keys known_top) (map fst es')) by (rewrite <- app_assoc; reflexivity).
      apply IH; [cbn in Hfuel; lia | exact Hok' | exact Hnd' |].
      intros k' Hk' Hin. apply in_app_or in Hk' as [Hk'|[<-|[]]].
      - apply (Hseen k' Hk'). right. exact Hin.
      - apply Hnin. apply filter_In. split; [exact Hin | reflexivity]. }
    assert (Hunk' : in_keys known_top k = false).
    { unfold in_keys, known_top. cbn [existsb]. rewrite E1, E2, E3, E4, E5, E6. reflexivity. }
    rewrite Hunk' in Hnd |- *. destruct (Hunk Hunk') as [Hwf Hsz].
    eapply parses_bind; [apply p_any; assumption|].
    apply IH; [cbn in Hfuel; lia | exact Hok' | exact Hnd |].
    intros k' Hk' Hin. apply (Hseen k' Hk'). right. exact Hin.
Qed.

(* ------------------------------------------------------------------ *)
(* whole datagrams                                                    *)

Inductive body_variant : body -> bvalue -> Prop :=
| bv_req rq es' :
    dvariant reserved_args (args_entries rq) es' -> body_variant (Req rq) (BDict es')
| bv_resp rs es' :
    dvariant known_resp (resp_entries rs) es' ->
    (forall k v, In (k, v) es' -> in_keys known_resp k = false -> utf8_valid k = true) ->
    body_variant (Resp rs) (BDict es')
| bv_err c t : body_variant (Err c t) (BList [BInt (Z.of_N c); BStr t]).

Definition top_W (tid : bytes) (b : body) : raw :=
  match b with
  | Req rq => mkRaw (Some tid) (Some YQ) (Some (rtype_of rq)) (Some rq) None None
  | Resp rs => mkRaw (Some tid) (Some YR) None None (Some rs) None
  | Err c t => mkRaw (Some tid) (Some YE) None None None (Some (c, t))
  end.

Lemma top_W_finish tid b : raw_finish (top_W tid b) = Some (mkMsg tid b).
Proof. destruct b as [rq|rs|c t]; cbn; [destruct rq; reflexivity | reflexivity | reflexivity]. Qed.

Lemma known_top_utf8 k : in_keys known_top k = true -> utf8_valid k = true.
Proof.
  intros H. apply in_keys_spec in H. cbn in H.
  destruct H as [<-|[<-|[<-|[<-|[<-|[<-|[]]]]]]]; reflexivity.
Qed.

Lemma rtype_find rq :
  find (fun kv => bytes_eqb (method_name rq) (fst kv)) rtype_variants = Some (method_name rq, rtype_of rq).
Proof. destruct rq; reflexivity. Qed.

Lemma in_dict_wf k v es : bv_wf (BDict es) -> In (k, v) es -> N.of_nat (length k) < 2 ^ 64 /\ bv_wf v.
Proof. intros H Hin. apply bv_wf_dict in H. rewrite Forall_forall in H. apply (H _ Hin). Qed.

Lemma firstn_app_exact {A} (a b : list A) : firstn (length a) (a ++ b) = a.
Proof. rewrite firstn_app, Nat.sub_diag, firstn_all. cbn. apply app_nil_r. Qed.

Theorem decode_variant m sub top' trailing :
  msg_wf m = true ->
  body_variant (m_body m) sub ->
  dvariant known_top (top_entries (m_tid m) (m_body m) sub) top' ->
  (forall k v, In (k, v) top' -> in_keys known_top k = false -> utf8_valid k = true) ->
  bv_wf (BDict top') -> (vdepth (BDict top') <= max_depth)%nat ->
  decode_msg (ser (BDict top') ++ trailing) = Some m.
Proof.
  intros Hwf Hsub Hv Hutf Hbw Hdep. destruct m as [tid b]. cbn [m_tid m_body] in *.
  unfold decode_msg, decode_instr. rewrite (precheck_dict top' trailing Hbw Hdep), firstn_app_exact.
  set (X := ser (BDict top')). set (F := fuel_for (length X)).
  assert (Hp : parses (message F) X (mkMsg tid b) []).
  { unfold X. rewrite ser_BDict. unfold message.
    eapply parses_bind; [apply tok_d|]. cbv beta iota.
    eapply parses_bind; [apply parses_enter|].
    assert (HF : forall k v, In (k, v) top' -> (length (ser v) <= F)%nat).
    { intros k v Hin. pose proof (ser_in_dict_length _ _ _ Hin). unfold F, X, fuel_for.
      rewrite ser_BDict. cbn [length]. rewrite app_length. lia. }
    eapply parses_bind.
    { rewrite <- (mask_raw_nil (top_W tid b)).
      apply raw_loop_ok; [| | apply (dv_nodup _ _ _ Hv) | intros k []].
      { pose proof (ser_dict_count top'). unfold F, X, fuel_for. rewrite ser_BDict. cbn [length].
        rewrite app_length. lia. }
      apply Forall_forall. intros [k v] Hin. destruct (in_dict_wf _ _ _ Hbw Hin) as [Hlk Hwv].
      unfold msg_wf in Hwf. cbn [m_tid m_body] in Hwf. apply andb_true_iff in Hwf as [_ Hwfb].
      unfold tentry_ok. cbn [fst snd]. split; [exact Hlk|]. split.
      { destruct (in_keys known_top k) eqn:Ek; [apply known_top_utf8; exact Ek | eapply Hutf; eassumption]. }
      assert (Hkn : in_keys known_top k = true -> In (k, v) (top_entries tid b sub))
        by (intros Hk; apply (dv_known _ _ _ Hv); assumption).
      repeat split.
      - intros ->. exists tid. split; [destruct b; reflexivity|]. intros r0.
        specialize (Hkn eq_refl). destruct b; cbn in Hkn;
          repeat (destruct Hkn as [Hkn|Hkn]; [inversion Hkn; subst; try discriminate|]); try destruct Hkn;
          apply p_bytes; exact Hwv.
      - intros ->. specialize (Hkn eq_refl). destruct b; cbn in Hkn;
          repeat (destruct Hkn as [Hkn|Hkn]; [inversion Hkn; subst; try discriminate|]); try destruct Hkn.
        + exists YQ. split; [reflexivity|]. intros r0. apply p_enum; [reflexivity | reflexivity].
        + exists YR. split; [reflexivity|]. intros r0. apply p_enum; [reflexivity | reflexivity].
        + exists YE. split; [reflexivity|]. intros r0. apply p_enum; [reflexivity | reflexivity].
      - intros ->. specialize (Hkn eq_refl). destruct b as [rq|rs|c t]; cbn in Hkn;
          repeat (destruct Hkn as [Hkn|Hkn]; [inversion Hkn; subst; try discriminate|]); try destruct Hkn.
        exists (rtype_of rq). split; [reflexivity|]. intros r0.
        apply p_enum; [exact Hwv | apply rtype_find].
      - intros ->. specialize (Hkn eq_refl). destruct b as [rq|rs|c t]; cbn in Hkn;
          repeat (destruct Hkn as [Hkn|Hkn]; [inversion Hkn; subst; try discriminate|]); try destruct Hkn.
        exists rq. split; [reflexivity|]. intros r0. inversion Hsub; subst.
        apply p_request; [exact Hwfb | assumption | exact Hwv | eapply HF; exact Hin].
      - intros ->. specialize (Hkn eq_refl). destruct b as [rq|rs|c t]; cbn in Hkn;
          repeat (destruct Hkn as [Hkn|Hkn]; [inversion Hkn; subst; try discriminate|]); try destruct Hkn.
        exists rs. split; [reflexivity|]. intros r0. inversion Hsub; subst.
        apply p_resp; [exact Hwfb | assumption | assumption | exact Hwv | eapply HF; exact Hin].
      - intros ->. specialize (Hkn eq_refl). destruct b as [rq|rs|c t]; cbn in Hkn;
          repeat (destruct Hkn as [Hkn|Hkn]; [inversion Hkn; subst; try discriminate|]); try destruct Hkn.
        exists (c, t). split; [reflexivity|]. intros r0. inversion Hsub; subst.
        rewrite !andb_true_iff in Hwfb. destruct Hwfb as [[Hc _] Hu].
        cbn [bv_wf] in Hwv. apply p_err; [lia | exact Hu | tauto].
      - exact Hwv.
      - eapply HF. exact Hin. }
    cbn [app]. apply parses_lift.
    assert (Hk : forall k v, In (k, v) (top_entries tid b sub) -> in_keys known_top k = true ->
                             has k (filter (in_keys known_top) (map fst top')) = true).
    { intros k v Hin Hkn. apply has_in. apply filter_In. split; [|exact Hkn].
      change k with (fst (k, v)). apply in_map. apply (dv_in _ _ _ Hv). exact Hin. }
    rewrite <- (top_W_finish tid b). f_equal. unfold mask_raw.
    destruct b as [rq|rs|c t]; cbn [top_W w_t w_y w_q w_a w_r w_e top_entries] in *.
    + rewrite (Hk k_t (BStr tid)), (Hk k_y (BStr k_q)), (Hk k_q (BStr (method_name rq))), (Hk k_a sub)
        by (first [reflexivity | cbn; auto 10]).
      destruct (has k_r _), (has k_e _); reflexivity.
    + rewrite (Hk k_t (BStr tid)), (Hk k_y (BStr k_r)), (Hk k_r sub) by (first [reflexivity | cbn; auto 10]).
      destruct (has k_q _), (has k_a _), (has k_e _); reflexivity.
    + rewrite (Hk k_t (BStr tid)), (Hk k_y (BStr k_e)), (Hk k_e sub) by (first [reflexivity | cbn; auto 10]).
      destruct (has k_q _), (has k_a _), (has k_r _); reflexivity. }
  unfold lib_decode, run_lib. fold X. fold F.
  destruct (Hp [] 0%nat) as [lg' [mx' E]]. unfold init_st. rewrite E. reflexivity.
Qed.

(* ------------------------------------------------------------------ *)
(* the readable form of "any key order, unknown extra keys"           *)

(* [es'] = the entries [E] and extra entries, in any order; the extra keys are outside
   [reserved] and satisfy [ok] *)
Definition reordered (reserved : list bytes) (ok : bytes -> Prop) (E es' : list (bytes * bvalue)) : Prop :=
  exists extras, Permutation es' (E ++ extras) /\
                 Forall (fun kv => ~ In (fst kv) reserved /\ ok (fst kv)) extras.

Lemma reordered_dvariant reserved ok E es' :
  NoDup (map fst E) -> (forall k, In k (map fst E) -> In k reserved) ->
  reordered reserved ok E es' ->
  dvariant reserved E es' /\ (forall k v, In (k, v) es' -> in_keys reserved k = false -> ok k).
Proof.
  intros Hnd Hres [extras [Hp Hex]]. split.
  - eapply dvariant_of_perm; [exact Hp | exact Hnd | exact Hres|].
    eapply Forall_impl; [|exact Hex]. intros kv [H _]. exact H.
  - intros k v Hin Hk. apply (Permutation_in _ Hp) in Hin. apply in_app_or in Hin as [Hin|Hin].
    + exfalso. assert (In k reserved) by (apply Hres; change k with (fst (k, v)); apply in_map; exact Hin).
      apply in_keys_spec in H. congruence.
    + rewrite Forall_forall in Hex. apply (Hex _ Hin).
Qed.

Lemma args_keys_nodup rq : NoDup (map fst (args_entries rq)).
Proof.
  destruct rq as [id | id tg [w|] | id ih [w|] | id ih [p|] tk]; cbn;
    repeat (constructor; [cbn; intuition discriminate|]); constructor.
Qed.

Lemma args_keys_reserved rq k : In k (map fst (args_entries rq)) -> In k reserved_args.
Proof.
  destruct rq as [id | id tg [w|] | id ih [w|] | id ih [p|] tk]; cbn; intuition (subst; auto 10).
Qed.

Lemma resp_keys_nodup rs : NoDup (map fst (resp_entries rs)).
Proof.
  unfold resp_entries.
  destruct (r_nodes4 rs), (r_nodes6 rs), (r_token rs), (r_values rs); cbn;
    repeat (constructor; [cbn; intuition discriminate|]); constructor.
Qed.

Lemma resp_keys_reserved rs k : In k (map fst (resp_entries rs)) -> In k known_resp.
Proof.
  unfold resp_entries.
  destruct (r_nodes4 rs), (r_nodes6 rs), (r_token rs), (r_values rs); cbn; intuition (subst; auto 10).
Qed.

Lemma top_keys_nodup tid b sub : NoDup (map fst (top_entries tid b sub)).
Proof. destruct b; cbn; repeat (constructor; [cbn; intuition discriminate|]); constructor. Qed.

Lemma top_keys_reserved tid b sub k : In k (map fst (top_entries tid b sub)) -> In k known_top.
Proof. destruct b; cbn; intuition (subst; auto 10). Qed.

(* the sub-dictionary (query arguments / return values) re-ordered and extended *)
Definition body_reordered (b : body) (sub : bvalue) : Prop :=
  match b with
  | Req rq => exists es', sub = BDict es' /\ reordered reserved_args (fun _ => True) (args_entries rq) es'
  | Resp rs => exists es', sub = BDict es' /\
                           reordered known_resp (fun k => utf8_valid k = true) (resp_entries rs) es'
  | Err c t => sub = body_tree (Err c t)
  end.

Theorem decode_reordered m sub top' trailing :
  msg_wf m = true ->
  body_reordered (m_body m) sub ->
  reordered known_top (fun k => utf8_valid k = true) (top_entries (m_tid m) (m_body m) sub) top' ->
  bv_wf (BDict top') -> (vdepth (BDict top') <= max_depth)%nat ->
  decode_msg (ser (BDict top') ++ trailing) = Some m.
Proof.
  intros Hwf Hb Ht Hbw Hdep.
  destruct (reordered_dvariant _ _ _ _ (top_keys_nodup _ _ _) (top_keys_reserved _ _ _) Ht) as [Hv Hu].
  eapply decode_variant; try eassumption.
  destruct (m_body m) as [rq|rs|c t]; cbn [body_reordered] in Hb.
  - destruct Hb as [es' [-> Hr]].
    destruct (reordered_dvariant _ _ _ _ (args_keys_nodup rq) (args_keys_reserved rq) Hr) as [Hv' _].
    constructor. exact Hv'.
  - destruct Hb as [es' [-> Hr]].
    destruct (reordered_dvariant _ _ _ _ (resp_keys_nodup rs) (resp_keys_reserved rs) Hr) as [Hv' Hu'].
    constructor; assumption.
  - subst sub. constructor.
Qed.

Lemma reordered_refl reserved ok E : reordered reserved ok E E.
Proof. exists []. rewrite app_nil_r. split; [reflexivity | constructor]. Qed.

Lemma body_reordered_refl b : body_reordered b (body_tree b).
Proof.
  destruct b as [rq|rs|c t]; cbn [body_reordered body_tree].
  - eexists. split; [reflexivity | apply reordered_refl].
  - eexists. split; [reflexivity | apply reordered_refl].
  - reflexivity.
Qed.

(* ---- the canonical encoding itself ---- *)
Lemma list_depth_strs {A} (f : A -> bytes) l : list_depth (map (fun a => BStr (f a)) l) = 0%nat.
Proof. induction l as [|a l IH]; [reflexivity|]. cbn [map list_depth fold_right vdepth]. exact IH. Qed.

Lemma dict_depth_le n l : (forall kv, In kv l -> (vdepth (snd kv) <= n)%nat) -> (dict_depth l <= n)%nat.
Proof.
  induction l as [|x l IH]; intros H; [cbn; lia|]. cbn [dict_depth fold_right].
  fold (dict_depth l). specialize (IH (fun kv Hk => H kv (or_intror Hk))). specialize (H x (or_introl eq_refl)). lia.
Qed.

Lemma values_tree_depth l : vdepth (values_tree l) = 1%nat.
Proof. unfold values_tree. rewrite vdepth_BList, list_depth_strs. reflexivity. Qed.

Lemma resp_tree_depth rs : (vdepth (resp_tree rs) <= 2)%nat.
Proof.
  unfold resp_tree. rewrite vdepth_BDict. apply le_n_S. apply dict_depth_le. intros [k v] Hin. cbn [snd].
  apply in_resp_entries in Hin as [[_ ->]|[[_ [_ ->]]|[[_ [_ ->]]|[[_ [_ [s ->]]]|[_ [_ ->]]]]]];
    try (cbn; lia). rewrite values_tree_depth. lia.
Qed.

Lemma args_tree_depth rq : (vdepth (args_tree rq) <= 2)%nat.
Proof. destruct rq as [id | id tg [[]|] | id ih [[]|] | id ih [p|] tk]; cbn; lia. Qed.

Lemma tree_depth m : (vdepth (tree_of_msg m) <= 3)%nat.
Proof.
  destruct m as [tid b]. unfold tree_of_msg. cbn [m_tid m_body]. rewrite vdepth_BDict.
  apply le_n_S. apply dict_depth_le. intros [k v] Hin. cbn [snd].
  destruct b as [rq|rs|c t]; cbn [top_entries body_tree] in Hin;
    repeat (destruct Hin as [Hin|Hin]; [inversion Hin; subst; try (cbn; lia)|]); try destruct Hin.
  - apply args_tree_depth.
  - apply resp_tree_depth.
Qed.

Lemma known_len (k : bytes) l : In k l -> Forall (fun k : bytes => (length k < 100)%nat) l -> N.of_nat (length k) < 2 ^ 64.
Proof. intros H Hl. rewrite Forall_forall in Hl. apply lenN_lit. apply Hl. exact H. Qed.

Lemma values_tree_wf l : bv_wf (values_tree l).
Proof.
  unfold values_tree. apply bv_wf_list. apply Forall_forall. intros v Hv.
  apply in_map_iff in Hv as [a [<- _]]. cbn [bv_wf]. rewrite enc_addr_length. destruct (a_v6 a); reflexivity.
Qed.

Lemma values_tree_sorted l : bv_sorted (values_tree l).
Proof.
  unfold values_tree. apply bv_sorted_list. apply Forall_forall. intros v Hv.
  apply in_map_iff in Hv as [a [<- _]]. exact I.
Qed.

Lemma tree_wf m : msg_wf m = true -> msg_small m = true -> bv_wf (tree_of_msg m).
Proof.
  destruct m as [tid b]. unfold msg_wf, msg_small, tree_of_msg. cbn [m_tid m_body].
  rewrite !andb_true_iff. intros [_ Hwf] [Htid Hsm].
  apply bv_wf_dict. apply Forall_forall. intros [k v] Hin. cbn [fst snd]. split.
  { eapply known_len; [apply (top_keys_reserved tid b (body_tree b)); change k with (fst (k, v)); apply in_map; exact Hin|].
    repeat constructor. }
  destruct b as [rq|rs|c t]; cbn [top_entries body_tree] in Hin;
    repeat (destruct Hin as [Hin|Hin]; [inversion Hin; subst; clear Hin|]); try destruct Hin;
    try (cbn [bv_wf]; lia); try reflexivity.
  - (* query arguments *)
    unfold args_tree. apply bv_wf_dict. apply Forall_forall. intros [k v] Hin. cbn [fst snd]. split.
    { eapply known_len; [apply (args_keys_reserved rq); change k with (fst (k, v)); apply in_map; exact Hin|].
      repeat constructor. }
    destruct rq as [id | id tg [[]|] | id ih [[]|] | id ih [p|] tk]; cbn in Hin;
      repeat (destruct Hin as [Hin|Hin]; [inversion Hin; subst; clear Hin|]); try destruct Hin;
      try (cbn [bv_wf]; rewrite ?enc_id_length; try reflexivity; try lia);
      try (cbn; intuition lia).
    all: cbn [request_wf] in Hwf; rewrite ?andb_true_iff in Hwf; lia.
  - destruct rq; reflexivity.
  - (* return values *)
    unfold response_wf in Hwf. rewrite !andb_true_iff in Hwf. destruct Hwf as [[[[_ _] H4] H6] _].
    apply nodes_ok_spec in H4. apply nodes_ok_spec in H6. rewrite !andb_true_iff in Hsm. destruct Hsm as [[S4 S6] Stk].
    unfold resp_tree. apply bv_wf_dict. apply Forall_forall. intros [k v] Hin. cbn [fst snd]. split.
    { eapply known_len; [apply (resp_keys_reserved rs); change k with (fst (k, v)); apply in_map; exact Hin|].
      repeat constructor. }
    apply in_resp_entries in Hin as [[_ ->]|[[_ [_ ->]]|[[_ [_ ->]]|[[_ [Ht [s ->]]]|[_ [_ ->]]]]]].
    + cbn [bv_wf]. rewrite enc_id_length. reflexivity.
    + cbn [bv_wf]. rewrite (cat_nodes_length false) by (apply nodes_family; exact H4).
      change (id_len + addr_len false)%nat with 26%nat. lia.
    + cbn [bv_wf]. rewrite (cat_nodes_length true) by (apply nodes_family; exact H6).
      change (id_len + addr_len true)%nat with 38%nat. lia.
    + cbn [bv_wf]. rewrite Ht in Stk. lia.
    + apply values_tree_wf.
Qed.

Lemma tree_sorted m : bv_sorted (tree_of_msg m).
Proof.
  destruct m as [tid b]. unfold tree_of_msg. cbn [m_tid m_body]. apply bv_sorted_dict. split.
  { destruct b; cbn; intuition reflexivity. }
  apply Forall_forall. intros [k v] Hin. cbn [snd].
  destruct b as [rq|rs|c t]; cbn [top_entries body_tree] in Hin;
    repeat (destruct Hin as [Hin|Hin]; [inversion Hin; subst; clear Hin|]); try destruct Hin; try exact I.
  - unfold args_tree. apply bv_sorted_dict. split.
    { destruct rq as [id | id tg [[]|] | id ih [[]|] | id ih [p|] tk]; cbn; intuition reflexivity. }
    apply Forall_forall. intros [k v] Hin. cbn [snd].
    destruct rq as [id | id tg [[]|] | id ih [[]|] | id ih [p|] tk]; cbn in Hin;
      repeat (destruct Hin as [Hin|Hin]; [inversion Hin; subst; clear Hin|]); try destruct Hin; cbn; tauto.
  - unfold resp_tree. apply bv_sorted_dict. split.
    { unfold resp_entries. destruct (r_nodes4 rs), (r_nodes6 rs), (r_token rs), (r_values rs); cbn; intuition reflexivity. }
    apply Forall_forall. intros [k v] Hin. cbn [snd].
    apply in_resp_entries in Hin as [[_ ->]|[[_ [_ ->]]|[[_ [_ ->]]|[[_ [Ht [s ->]]]|[_ [_ ->]]]]]]; try exact I.
    apply values_tree_sorted.
  - cbn. tauto.
Qed.

(* decode . encode = id *)
Theorem decode_canon m trailing :
  msg_wf m = true -> msg_small m = true -> decode_msg (canon (tree_of_msg m) ++ trailing) = Some m.
Proof.
  intros Hwf Hsm. rewrite (canon_ser _ (tree_sorted m)).
  unfold tree_of_msg.
  apply decode_reordered with (sub := body_tree (m_body m)).
  - exact Hwf.
  - apply body_reordered_refl.
  - apply reordered_refl.
  - exact (tree_wf m Hwf Hsm).
  - pose proof (tree_depth m). unfold tree_of_msg in H. unfold max_depth.
    change Consts.bencode_max_depth_nat with 32%nat. lia.
Qed.

Theorem decode_encode m b :
  msg_wf m = true -> msg_small m = true -> encode_msg m = Some b -> decode_msg b = Some m.
Proof.
  intros Hwf Hsm He. rewrite (encode_canonical m Hwf) in He.
  assert (Hb : b = canon (tree_of_msg m)) by congruence. rewrite Hb.
  rewrite <- (app_nil_r (canon _)). apply decode_canon; assumption.
Qed.

(* ------------------------------------------------------------------ *)
(* partial runs: the two key loops, entry by entry                    *)

(* started on [i], [m] behaves as [m'] started on [i'] (whatever the log and depth so far) *)
Definition steps_to {A} (m : M A) (i : bytes) (m' : M A) (i' : bytes) : Prop :=
  forall lg mx, exists lg' mx', m (mkSt i lg mx) = m' (mkSt i' lg' mx').

Lemma steps_refl {A} (m : M A) i : steps_to m i m i.
Proof. intros lg mx. exists lg, mx. reflexivity. Qed.

Lemma steps_trans {A} (m1 m2 m3 : M A) i1 i2 i3 :
  steps_to m1 i1 m2 i2 -> steps_to m2 i2 m3 i3 -> steps_to m1 i1 m3 i3.
Proof.
  intros H1 H2 lg mx. destruct (H1 lg mx) as [lg1 [mx1 E1]]. destruct (H2 lg1 mx1) as [lg2 [mx2 E2]].
  exists lg2, mx2. congruence.
Qed.

Lemma steps_bind {A B} (m : M A) (f : A -> M B) i a r : parses m i a r -> steps_to (bind m f) i (f a) r.
Proof.
  intros H lg mx. destruct (H lg mx) as [lg1 [mx1 E]]. exists lg1, mx1. unfold bind. rewrite E. reflexivity.
Qed.

Lemma steps_bind_assoc {A B C} (m : M A) (f : A -> M B) (g : B -> M C) i a r :
  parses (bind m f) i a r -> steps_to (bind m (fun x => bind (f x) g)) i (g a) r.
Proof.
  intros H lg mx. destruct (H lg mx) as [lg1 [mx1 E]]. exists lg1, mx1.
  unfold bind in *. destruct (m (mkSt i lg mx)) as [s' [x| |]]; try discriminate. rewrite E. reflexivity.
Qed.

Lemma steps_parses {A} (m m' : M A) i i' a r : steps_to m i m' i' -> parses m' i' a r -> parses m i a r.
Proof.
  intros H1 H2 lg mx. destruct (H1 lg mx) as [lg1 [mx1 E1]]. destruct (H2 lg1 mx1) as [lg2 [mx2 E2]].
  exists lg2, mx2. congruence.
Qed.

Lemma steps_fails {A} (m m' : M A) i i' : steps_to m i m' i' -> fails m' i' -> fails m i.
Proof.
  intros H1 H2 lg mx. destruct (H1 lg mx) as [lg1 [mx1 E1]]. destruct (H2 lg1 mx1) as [s' E2].
  exists s'. congruence.
Qed.

Lemma resp_loop_steps F d W : forall es' seen fuel rest,
  (length es' <= fuel)%nat ->
  Forall (rentry_ok F d W) es' ->
  NoDup (filter (in_keys known_resp) (map fst es')) ->
  (forall k, In k seen -> ~ In k (map fst es')) ->
  steps_to (resp_map_loop fuel F d (mask_ra seen W)) (ser_dict es' ++ rest)
           (resp_map_loop (fuel - length es') F d (mask_ra (seen ++ filter (in_keys known_resp) (map fst es')) W)) rest.
Proof.
  induction es' as [|[k v] es' IH]; intros seen fuel rest Hfuel Hok Hnd Hseen.
  - cbn [ser_dict flat_map app map filter length]. rewrite app_nil_r, Nat.sub_0_r. apply steps_refl.
  - destruct fuel as [|fuel]; [cbn in Hfuel; lia|]. cbn [length Nat.sub].
    inversion Hok as [|? ? [Hlen [Hutf [Hid [Hval [Hn4 [Hn6 [Htk Hunk]]]]]]] Hok']; subst.
    cbn [fst snd] in *. cbn [ser_dict flat_map resp_map_loop]. fold (ser_dict es'). cbn [fst snd].
    rewrite <- !app_assoc.
    eapply steps_trans; [apply steps_bind; apply tok_str; exact Hlen|]. cbv beta iota.
    eapply steps_trans; [apply steps_bind; cbn [str_from]; rewrite Hutf; apply parses_ret|].
    cbn [map fst filter] in Hnd |- *.
    assert (Hk_notseen : has k seen = false).
    { apply has_false. intros Hin. apply (Hseen k Hin). left. reflexivity. }
    destruct (bytes_eqb k k_id) eqn:E1; [apply bytes_eqb_eq in E1; subst k|].
    { destruct (Hid eq_refl) as [x [HW Hp]].
      change (in_keys known_resp k_id) with true in Hnd |- *. inversion Hnd as [|? ? Hnin Hnd']; subst.
      replace (is_some (ra_id (mask_ra seen W))) with false
        by (unfold mask_ra; cbn [ra_id]; rewrite Hk_notseen; reflexivity).
      eapply steps_trans; [apply steps_bind_assoc; apply Hp|].
      replace (mkRA (Some x) (ra_values (mask_ra seen W)) (ra_nodes (mask_ra seen W)) (ra_nodes6 (mask_ra seen W))
                    (ra_token (mask_ra seen W))) with (mask_ra (seen ++ [k_id]) W)
        by (mask_step Hk_notseen; rewrite HW; reflexivity).
      replace (seen ++ k_id :: filter (in_keys known_resp) (map fst es'))
        with ((seen ++ [k_id]) ++ filter (in_keys known_resp) (map fst es')) by (rewrite <- app_assoc; reflexivity).
      apply IH; [cbn in Hfuel; lia | exact Hok' | exact Hnd' |].
      intros k' Hk' Hin. apply in_app_or in Hk' as [Hk'|[<-|[]]].
      - apply (Hseen k' Hk'). right. exact Hin.
      - apply Hnin. apply filter_In. split; [exact Hin | reflexivity]. }
    destruct (bytes_eqb k k_values) eqn:E2; [apply bytes_eqb_eq in E2; subst k|].
    { destruct (Hval eq_refl) as [x [HW Hp]].
      change (in_keys known_resp k_values) with true in Hnd |- *. inversion Hnd as [|? ? Hnin Hnd']; subst.
      replace (is_some (ra_values (mask_ra seen W))) with false
        by (unfold mask_ra; cbn [ra_values]; rewrite Hk_notseen; reflexivity).
      eapply steps_trans; [apply steps_bind_assoc; apply Hp|].
      replace (mkRA (ra_id (mask_ra seen W)) (Some x) (ra_nodes (mask_ra seen W)) (ra_nodes6 (mask_ra seen W))
                    (ra_token (mask_ra seen W))) with (mask_ra (seen ++ [k_values]) W)
        by (mask_step Hk_notseen; rewrite HW; reflexivity).
      replace (seen ++ k_values :: filter (in_keys known_resp) (map fst es'))
        with ((seen ++ [k_values]) ++ filter (in_keys known_resp) (map fst es')) by (rewrite <- app_assoc; reflexivity).
      apply IH; [cbn in Hfuel; lia | exact Hok' | exact Hnd' |].
      intros k' Hk' Hin. apply in_app_or in Hk' as [Hk'|[<-|[]]].
      - apply (Hseen k' Hk'). right. exact Hin.
      - apply Hnin. apply filter_In. split; [exact Hin | reflexivity]. }
    destruct (bytes_eqb k k_nodes) eqn:E3; [apply bytes_eqb_eq in E3; subst k|].
    { destruct (Hn4 eq_refl) as [x [HW Hp]].
      change (in_keys known_resp k_nodes) with true in Hnd |- *. inversion Hnd as [|? ? Hnin Hnd']; subst.
      replace (is_some (ra_nodes (mask_ra seen W))) with false
        by (unfold mask_ra; cbn [ra_nodes]; rewrite Hk_notseen; reflexivity).
      eapply steps_trans; [apply steps_bind_assoc; apply Hp|].
      replace (mkRA (ra_id (mask_ra seen W)) (ra_values (mask_ra seen W)) (Some x) (ra_nodes6 (mask_ra seen W))
                    (ra_token (mask_ra seen W))) with (mask_ra (seen ++ [k_nodes]) W)
        by (mask_step Hk_notseen; rewrite HW; reflexivity).
      replace (seen ++ k_nodes :: filter (in_keys known_resp) (map fst es'))
        with ((seen ++ [k_nodes]) ++ filter (in_keys known_resp) (map fst es')) by (rewrite <- app_assoc; reflexivity).
      apply IH; [cbn in Hfuel; lia | exact Hok' | exact Hnd' |].
      intros k' Hk' Hin. apply in_app_or in Hk' as [Hk'|[<-|[]]].
      - apply (Hseen k' Hk'). right. exact Hin.
      - apply Hnin. apply filter_In. split; [exact Hin | reflexivity]. }
    destruct (bytes_eqb k k_nodes6) eqn:E4; [apply bytes_eqb_eq in E4; subst k|].
    { destruct (Hn6 eq_refl) as [x [HW Hp]].
      change (in_keys known_resp k_nodes6) with true in Hnd |- *. inversion Hnd as [|? ? Hnin Hnd']; subst.
      replace (is_some (ra_nodes6 (mask_ra seen W))) with false
        by (unfold mask_ra; cbn [ra_nodes6]; rewrite Hk_notseen; reflexivity).
      eapply steps_trans; [apply steps_bind_assoc; apply Hp|].
      replace (mkRA (ra_id (mask_ra seen W)) (ra_values (mask_ra seen W)) (ra_nodes (mask_ra seen W)) (Some x)
                    (ra_token (mask_ra seen W))) with (mask_ra (seen ++ [k_nodes6]) W)
        by (mask_step Hk_notseen; rewrite HW; reflexivity).
      replace (seen ++ k_nodes6 :: filter (in_keys known_resp) (map fst es'))
        with ((seen ++ [k_nodes6]) ++ filter (in_keys known_resp) (map fst es')) by (rewrite <- app_assoc; reflexivity).
      apply IH; [cbn in Hfuel; lia | exact Hok' | exact Hnd' |].
      intros k' Hk' Hin. apply in_app_or in Hk' as [Hk'|[<-|[]]].
      - apply (Hseen k' Hk'). right. exact Hin.
      - apply Hnin. apply filter_In. split; [exact Hin | reflexivity]. }
    destruct (bytes_eqb k k_token) eqn:E5; [apply bytes_eqb_eq in E5; subst k|].
    { destruct (Htk eq_refl) as [x [HW Hp]].
      change (in_keys known_resp k_token) with true in Hnd |- *. inversion Hnd as [|? ? Hnin Hnd']; subst.
      replace (is_some (ra_token (mask_ra seen W))) with false
        by (unfold mask_ra; cbn [ra_token]; rewrite Hk_notseen; reflexivity).
      eapply steps_trans; [apply steps_bind_assoc; apply Hp|].
      replace (mkRA (ra_id (mask_ra seen W)) (ra_values (mask_ra seen W)) (ra_nodes (mask_ra seen W))
                    (ra_nodes6 (mask_ra seen W)) (Some x)) with (mask_ra (seen ++ [k_token]) W)
        by (mask_step Hk_notseen; rewrite HW; reflexivity).
      replace (seen ++ k_token :: filter (in_keys known_resp) (map fst es'))
        with ((seen ++ [k_token]) ++ filter (in_keys known_resp) (map fst es')) by (rewrite <- app_assoc; reflexivity).
      apply IH; [cbn in Hfuel; lia | exact Hok' | exact Hnd' |].
      intros k' Hk' Hin. apply in_app_or in Hk' as [Hk'|[<-|[]]].
      - apply (Hseen k' Hk'). right. exact Hin.
      - apply Hnin. apply filter_In. split; [exact Hin | reflexivity]. }
    (* an unknown key: its value is skipped *)
    assert (Hunk' : in_keys known_resp k = false).
    { unfold in_keys, known_resp. cbn [existsb]. rewrite E1, E2, E3, E4, E5. reflexivity. }
    rewrite Hunk' in Hnd |- *. destruct (Hunk Hunk') as [Hwf Hsz].
    eapply steps_trans; [apply steps_bind; apply p_any; assumption|].
    apply IH; [cbn in Hfuel; lia | exact Hok' | exact Hnd |].
    intros k' Hk' Hin. apply (Hseen k' Hk'). right. exact Hin.
Qed.

Lemma raw_loop_steps F W : forall es' seen fuel rest,
  (length es' <= fuel)%nat ->
  Forall (tentry_ok F W) es' ->
  NoDup (filter (in_keys known_top) (map fst es')) ->
  (forall k, In k seen -> ~ In k (map fst es')) ->
  steps_to (raw_map_loop fuel F (mask_raw seen W)) (ser_dict es' ++ rest)
           (raw_map_loop (fuel - length es') F (mask_raw (seen ++ filter (in_keys known_top) (map fst es')) W)) rest.
Proof.
  induction es' as [|[k v] es' IH]; intros seen fuel rest Hfuel Hok Hnd Hseen.
  - cbn [ser_dict flat_map app map filter length]. rewrite app_nil_r, Nat.sub_0_r. apply steps_refl.
  - destruct fuel as [|fuel]; [cbn in Hfuel; lia|]. cbn [length Nat.sub].
    inversion Hok as [|? ? [Hlen [Hutf [H_k_t [H_k_y [H_k_q [H_k_a [H_k_r [H_k_e Hunk]]]]]]]] Hok']; subst.
    cbn [fst snd] in *. cbn [ser_dict flat_map raw_map_loop]. fold (ser_dict es'). cbn [fst snd].
    rewrite <- !app_assoc.
    eapply steps_trans; [apply steps_bind; apply tok_str; exact Hlen|]. cbv beta iota.
    eapply steps_trans; [apply steps_bind; cbn [str_from]; rewrite Hutf; apply parses_ret|].
    cbn [map fst filter] in Hnd |- *.
    assert (Hk_notseen : has k seen = false).
    { apply has_false. intros Hin. apply (Hseen k Hin). left. reflexivity. }
    destruct (bytes_eqb k k_t) eqn:E1; [apply bytes_eqb_eq in E1; subst k|].
    { destruct (H_k_t eq_refl) as [x [HW Hp]].
      change (in_keys known_top k_t) with true in Hnd |- *. inversion Hnd as [|? ? Hnin Hnd']; subst.
      replace (is_some (w_t (mask_raw seen W))) with false
        by (unfold mask_raw; cbn [w_t]; rewrite Hk_notseen; reflexivity).
      eapply steps_trans; [apply steps_bind_assoc; apply Hp|].
      replace (mkRaw (Some x) (w_y (mask_raw seen W)) (w_q (mask_raw seen W)) (w_a (mask_raw seen W)) (w_r (mask_raw seen W)) (w_e (mask_raw seen W))) with (mask_raw (seen ++ [k_t]) W)
        by (mask_step_raw Hk_notseen; rewrite HW; reflexivity).
      replace (seen ++ k_t :: filter (in_keys known_top) (map fst es'))
        with ((seen ++ [k_t]) ++ filter (in_keys known_top) (map fst es')) by (rewrite <- app_assoc; reflexivity).
      apply IH; [cbn in Hfuel; lia | exact Hok' | exact Hnd' |].
      intros k' Hk' Hin. apply in_app_or in Hk' as [Hk'|[<-|[]]].
      - apply (Hseen k' Hk'). right. exact Hin.
      - apply Hnin. apply filter_In. split; [exact Hin | reflexivity]. }
    destruct (bytes_eqb k k_y) eqn:E2; [apply bytes_eqb_eq in E2; subst k|].
    { destruct (H_k_y eq_refl) as [x [HW Hp]].
      change (in_keys known_top k_y) with true in Hnd |- *. inversion Hnd as [|? ? Hnin Hnd']; subst.
      replace (is_some (w_y (mask_raw seen W))) with false
        by (unfold mask_raw; cbn [w_y]; rewrite Hk_notseen; reflexivity).
      eapply steps_trans; [apply steps_bind_assoc; apply Hp|].
      replace (mkRaw (w_t (mask_raw seen W)) (Some x) (w_q (mask_raw seen W)) (w_a (mask_raw seen W)) (w_r (mask_raw seen W)) (w_e (mask_raw seen W))) with (mask_raw (seen ++ [k_y]) W)
        by (mask_step_raw Hk_notseen; rewrite HW; reflexivity).
      replace (seen ++ k_y :: filter (in_keys known_top) (map fst es'))
        with ((seen ++ [k_y]) ++ filter (in_keys known_top) (map fst es')) by (rewrite <- app_assoc; reflexivity).
      apply IH; [cbn in Hfuel; lia | exact Hok' | exact Hnd' |].
      intros k' Hk' Hin. apply in_app_or in Hk' as [Hk'|[<-|[]]].
      - apply (Hseen k' Hk'). right. exact Hin.
      - apply Hnin. apply filter_In. split; [exact Hin | reflexivity]. }
    destruct (bytes_eqb k k_q) eqn:E3; [apply bytes_eqb_eq in E3; subst k|].
    { destruct (H_k_q eq_refl) as [x [HW Hp]].
      change (in_keys known_top k_q) with true in Hnd |- *. inversion Hnd as [|? ? Hnin Hnd']; subst.
      replace (is_some (w_q (mask_raw seen W))) with false
        by (unfold mask_raw; cbn [w_q]; rewrite Hk_notseen; reflexivity).
      eapply steps_trans; [apply steps_bind_assoc; apply Hp|].
      replace (mkRaw (w_t (mask_raw seen W)) (w_y (mask_raw seen W)) (Some x) (w_a (mask_raw seen W)) (w_r (mask_raw seen W)) (w_e (mask_raw seen W))) with (mask_raw (seen ++ [k_q]) W)
        by (mask_step_raw Hk_notseen; rewrite HW; reflexivity).
      replace (seen ++ k_q :: filter (in_keys known_top) (map fst es'))
        with ((seen ++ [k_q]) ++ filter (in_keys known_top) (map fst es')) by (rewrite <- app_assoc; reflexivity).
      apply IH; [cbn in Hfuel; lia | exact Hok' | exact Hnd' |].
      intros k' Hk' Hin. apply in_app_or in Hk' as [Hk'|[<-|[]]].
      - apply (Hseen k' Hk'). right. exact Hin.
      - apply Hnin. apply filter_In. split; [exact Hin | reflexivity]. }
    destruct (bytes_eqb k k_a) eqn:E4; [apply bytes_eqb_eq in E4; subst k|].
    { destruct (H_k_a eq_refl) as [x [HW Hp]].
      change (in_keys known_top k_a) with true in Hnd |- *. inversion Hnd as [|? ? Hnin Hnd']; subst.
      replace (is_some (w_a (mask_raw seen W))) with false
        by (unfold mask_raw; cbn [w_a]; rewrite Hk_notseen; reflexivity).
      eapply steps_trans; [apply steps_bind_assoc; apply Hp|].
      replace (mkRaw (w_t (mask_raw seen W)) (w_y (mask_raw seen W)) (w_q (mask_raw seen W)) (Some x) (w_r (mask_raw seen W)) (w_e (mask_raw seen W))) with (mask_raw (seen ++ [k_a]) W)
        by (mask_step_raw Hk_notseen; rewrite HW; reflexivity).
      replace (seen ++ k_a :: filter (in_keys known_top) (map fst es'))
        with ((seen ++ [k_a]) ++ filter (in_keys known_top) (map fst es')) by (rewrite <- app_assoc; reflexivity).
      apply IH; [cbn in Hfuel; lia | exact Hok' | exact Hnd' |].
      intros k' Hk' Hin. apply in_app_or in Hk' as [Hk'|[<-|[]]].
      - apply (Hseen k' Hk'). right. exact Hin.
      - apply Hnin. apply filter_In. split; [exact Hin | reflexivity]. }
    destruct (bytes_eqb k k_r) eqn:E5; [apply bytes_eqb_eq in E5; subst k|].
    { destruct (H_k_r eq_refl) as [x [HW Hp]].
      change (in_keys known_top k_r) with true in Hnd |- *. inversion Hnd as [|? ? Hnin Hnd']; subst.
      replace (is_some (w_r (mask_raw seen W))) with false
        by (unfold mask_raw; cbn [w_r]; rewrite Hk_notseen; reflexivity).
      eapply steps_trans; [apply steps_bind_assoc; apply Hp|].
      replace (mkRaw (w_t (mask_raw seen W)) (w_y (mask_raw seen W)) (w_q (mask_raw seen W)) (w_a (mask_raw seen W)) (Some x) (w_e (mask_raw seen W))) with (mask_raw (seen ++ [k_r]) W)
        by (mask_step_raw Hk_notseen; rewrite HW; reflexivity).
      replace (seen ++ k_r :: filter (in_keys known_top) (map fst es'))
        with ((seen ++ [k_r]) ++ filter (in_keys known_top) (map fst es')) by (rewrite <- app_assoc; reflexivity).
      apply IH; [cbn in Hfuel; lia | exact Hok' | exact Hnd' |].
      intros k' Hk' Hin. apply in_app_or in Hk' as [Hk'|[<-|[]]].
      - apply (Hseen k' Hk'). right. exact Hin.
      - apply Hnin. apply filter_In. split; [exact Hin | reflexivity]. }
    destruct (bytes_eqb k k_e) eqn:E6; [apply bytes_eqb_eq in E6; subst k|].
    { destruct (H_k_e eq_refl) as [x [HW Hp]].
      change (in_keys known_top k_e) with true in Hnd |- *. inversion Hnd as [|? ? Hnin Hnd']; subst.
      replace (is_some (w_e (mask_raw seen W))) with false
        by (unfold mask_raw; cbn [w_e]; rewrite Hk_notseen; reflexivity).
      eapply steps_trans; [apply steps_bind_assoc; apply Hp|].
      replace (mkRaw (w_t (mask_raw seen W)) (w_y (mask_raw seen W)) (w_q (mask_raw seen W)) (w_a (mask_raw seen W)) (w_r (mask_raw seen W)) (Some x)) with (mask_raw (seen ++ [k_e]) W)
        by (mask_step_raw Hk_notseen; rewrite HW; reflexivity).
      replace (seen ++ k_e :: filter (in_keys known_top) (map fst es'))
        with ((seen ++ [k_e]) ++ filter (in_keys known_top) (map fst es')) by (rewrite <- app_assoc; reflexivity).
      apply IH; [cbn in Hfuel; lia | exact Hok' | exact Hnd' |].
      intros k' Hk' Hin. apply in_app_or in Hk' as [Hk'|[<-|[]]].
      - apply (Hseen k' Hk'). right. exact Hin.
      - apply Hnin. apply filter_In. split; [exact Hin | reflexivity]. }
    assert (Hunk' : in_keys known_top k = false).
    { unfold in_keys, known_top. cbn [existsb]. rewrite E1, E2, E3, E4, E5, E6. reflexivity. }
    rewrite Hunk' in Hnd |- *. destruct (Hunk Hunk') as [Hwf Hsz].
    eapply steps_trans; [apply steps_bind; apply p_any; assumption|].
    apply IH; [cbn in Hfuel; lia | exact Hok' | exact Hnd |].
    intros k' Hk' Hin. apply (Hseen k' Hk'). right. exact Hin.
Qed.
