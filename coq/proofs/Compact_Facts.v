(* Facts about the compact encodings: fixed-width big-endian numbers, peers, ids, node lists. *)
From BT Require Import model.Prelude model.Compact proofs.Prelude_Facts.
From Coq Require Import ZifyBool ZifyN ZifyNat.

Lemma to_le_length w : forall x, length (to_le w x) = w.
Proof. induction w as [|w IH]; intros x; cbn [to_le length]; [reflexivity | rewrite IH; reflexivity]. Qed.

Lemma to_be_length w x : length (to_be w x) = w.
Proof. unfold to_be. rewrite rev_length. apply to_le_length. Qed.

Lemma to_be_S w x : to_be (S w) x = to_be w (x / 256) ++ [x mod 256].
Proof. unfold to_be. cbn [to_le rev]. reflexivity. Qed.

Lemma to_le_ok w : forall x, bytes_ok (to_le w x) = true.
Proof.
  induction w as [|w IH]; intros x; [reflexivity|]. cbn [to_le bytes_ok forallb].
  fold (bytes_ok (to_le w (x / 256))). rewrite IH. unfold byte_ok.
  pose proof (N.mod_lt x 256). lia.
Qed.

Lemma to_be_ok w x : bytes_ok (to_be w x) = true.
Proof.
  unfold to_be, bytes_ok. rewrite forallb_forall. intros b Hb. apply in_rev in Hb.
  pose proof (to_le_ok w x) as H. unfold bytes_ok in H. rewrite forallb_forall in H. auto.
Qed.

Lemma be_to_N_to_be w : forall x, be_to_N (to_be w x) = x mod 256 ^ N.of_nat w.
Proof.
  induction w as [|w IH]; intros x.
  - cbn. rewrite N.mod_1_r. reflexivity.
  - rewrite to_be_S, be_to_N_app, IH. cbn [length]. change (be_to_N [x mod 256]) with (0 * 256 + x mod 256).
    change (256 ^ N.of_nat 1) with 256.
    rewrite (Nat2N.inj_succ w), N.pow_succ_r'.
    rewrite (N.mod_mul_r x 256 (256 ^ N.of_nat w)) by (try lia; apply N.pow_nonzero; lia).
    lia.
Qed.

Lemma be_to_N_to_be_small w x : x < 256 ^ N.of_nat w -> be_to_N (to_be w x) = x.
Proof. intros H. rewrite be_to_N_to_be. apply N.mod_small. exact H. Qed.

(* ---- peers ---- *)
Definition addr_in_range (a : addr) : Prop :=
  a_ip a < (if a_v6 a then 2 ^ 128 else 2 ^ 32) /\ a_port a < 65536.

Lemma enc_addr_length a : length (enc_addr a) = addr_len (a_v6 a).
Proof. unfold enc_addr. rewrite app_length, !to_be_length. destruct (a_v6 a); reflexivity. Qed.

Lemma dec_enc_addr a : addr_in_range a -> dec_addr (enc_addr a) = Some a.
Proof.
  intros [Hip Hport]. unfold dec_addr. rewrite enc_addr_length.
  destruct a as [v6 ip port]. cbn [a_v6 a_ip a_port] in *. unfold enc_addr. cbn [a_v6 a_ip a_port].
  destruct v6.
  - change (Nat.eqb (addr_len true) v4_len) with false. change (Nat.eqb (addr_len true) v6_len) with true.
    cbv iota.
    rewrite firstn_app, to_be_length, Nat.sub_diag, firstn_all2 by (rewrite to_be_length; lia).
    cbn [firstn]. rewrite app_nil_r.
    rewrite skipn_app, to_be_length, Nat.sub_diag, skipn_all2 by (rewrite to_be_length; lia).
    cbn [skipn app].
    rewrite !be_to_N_to_be_small; [reflexivity | exact Hport | exact Hip].
  - change (Nat.eqb (addr_len false) v4_len) with true. cbv iota.
    rewrite firstn_app, to_be_length, Nat.sub_diag, firstn_all2 by (rewrite to_be_length; lia).
    cbn [firstn]. rewrite app_nil_r.
    rewrite skipn_app, to_be_length, Nat.sub_diag, skipn_all2 by (rewrite to_be_length; lia).
    cbn [skipn app].
    rewrite !be_to_N_to_be_small; [reflexivity | exact Hport | exact Hip].
Qed.

(* ---- ids ---- *)
Lemma enc_id_length x : length (enc_id x) = id_len.
Proof. apply to_be_length. Qed.

Lemma dec_enc_id x : x < 2 ^ 160 -> dec_id (enc_id x) = Some x.
Proof.
  intros H. unfold dec_id. rewrite enc_id_length, Nat.eqb_refl. unfold enc_id.
  rewrite be_to_N_to_be_small; [reflexivity | exact H].
Qed.

(* ---- node lists ---- *)
Definition node_in_range (v6 : bool) (n : nodeh) : Prop :=
  n_id n < 2 ^ 160 /\ addr_in_range (n_addr n) /\ a_v6 (n_addr n) = v6.

Lemma enc_nodes_cat v6 l :
  Forall (fun n => a_v6 (n_addr n) = v6) l -> enc_nodes v6 l = Some (cat_nodes l).
Proof.
  induction l as [|n l IH]; intros H; [reflexivity|]. inversion H; subst.
  cbn [enc_nodes]. rewrite Bool.eqb_reflx, IH by assumption. cbn [option_map cat_nodes flat_map].
  rewrite <- app_assoc. reflexivity.
Qed.

Lemma enc_nodes_none v6 l :
  ~ Forall (fun n => a_v6 (n_addr n) = v6) l -> enc_nodes v6 l = None.
Proof.
  induction l as [|n l IH]; intros H; [exfalso; apply H; constructor|].
  cbn [enc_nodes]. destruct (Bool.eqb (a_v6 (n_addr n)) v6) eqn:E; [|reflexivity].
  apply Bool.eqb_prop in E. rewrite IH; [reflexivity|].
  intros Hl. apply H. constructor; assumption.
Qed.

Lemma node_chunk_length v6 n : a_v6 (n_addr n) = v6 ->
  length (enc_id (n_id n) ++ enc_addr (n_addr n)) = (id_len + addr_len v6)%nat.
Proof. intros <-. rewrite app_length, enc_id_length, enc_addr_length. reflexivity. Qed.

Lemma cat_nodes_length v6 l : Forall (fun n => a_v6 (n_addr n) = v6) l ->
  length (cat_nodes l) = (length l * (id_len + addr_len v6))%nat.
Proof.
  induction l as [|n l IH]; intros H; [reflexivity|]. inversion H; subst.
  cbn [cat_nodes flat_map length]. rewrite app_length. fold (cat_nodes l).
  rewrite IH by assumption. rewrite (node_chunk_length (a_v6 (n_addr n))) by reflexivity. lia.
Qed.

Lemma dec_node_enc v6 n rest : node_in_range v6 n ->
  dec_node v6 (firstn (id_len + addr_len v6) ((enc_id (n_id n) ++ enc_addr (n_addr n)) ++ rest)) = n.
Proof.
  intros [Hid [[Hip Hport] Hf]].
  rewrite firstn_app, (node_chunk_length v6) by exact Hf. rewrite Nat.sub_diag. cbn [firstn].
  rewrite app_nil_r, firstn_all2 by (rewrite (node_chunk_length v6) by exact Hf; lia).
  unfold dec_node.
  rewrite firstn_app, enc_id_length, Nat.sub_diag, firstn_all2 by (rewrite enc_id_length; lia).
  cbn [firstn]. rewrite app_nil_r.
  rewrite skipn_app, enc_id_length, Nat.sub_diag, skipn_all2 by (rewrite enc_id_length; lia).
  cbn [skipn app].
  unfold enc_id. rewrite be_to_N_to_be_small by exact Hid.
  destruct n as [i [f ip port]]. cbn [n_id n_addr a_v6 a_ip a_port] in *. subst f.
  unfold enc_addr. cbn [a_v6 a_ip a_port].
  rewrite firstn_app, to_be_length, Nat.sub_diag, firstn_all2 by (rewrite to_be_length; lia).
  cbn [firstn]. rewrite app_nil_r.
  rewrite skipn_app, to_be_length, Nat.sub_diag, skipn_all2 by (rewrite to_be_length; lia).
  cbn [skipn app].
  rewrite !be_to_N_to_be_small; [reflexivity | exact Hport | destruct v6; exact Hip].
Qed.

Lemma dec_nodes_cat v6 l : Forall (node_in_range v6) l -> dec_nodes v6 (cat_nodes l) = Some l.
Proof.
  intros H. unfold dec_nodes.
  assert (Hfam : Forall (fun n => a_v6 (n_addr n) = v6) l).
  { eapply Forall_impl; [|exact H]. intros n [_ [_ Hf]]. exact Hf. }
  rewrite (cat_nodes_length v6) by exact Hfam.
  assert (Hpos : (id_len + addr_len v6 <> 0)%nat) by (destruct v6; discriminate).
  rewrite Nat.mod_mul by exact Hpos. cbn [Nat.eqb]. f_equal.
  (* the chunks *)
  assert (Hc : forall fuel, (length l <= fuel)%nat ->
             map (dec_node v6) (chunks fuel (id_len + addr_len v6) (cat_nodes l)) = l).
  { clear -H Hfam Hpos. induction l as [|n l IH]; intros fuel Hfuel.
    - destruct fuel; reflexivity.
    - inversion H; subst. inversion Hfam; subst.
      destruct fuel as [|fuel]; [cbn in Hfuel; lia|].
      cbn [cat_nodes flat_map]. fold (cat_nodes l).
      cbn [chunks].
      destruct ((enc_id (n_id n) ++ enc_addr (n_addr n)) ++ cat_nodes l) eqn:E.
      { apply (f_equal (@length N)) in E. rewrite app_length, (node_chunk_length (a_v6 (n_addr n))) in E by reflexivity.
        cbn in E. lia. }
      rewrite <- E. cbn [map]. rewrite dec_node_enc by assumption. f_equal.
      rewrite skipn_app, (node_chunk_length (a_v6 (n_addr n))) by reflexivity.
      rewrite Nat.sub_diag, skipn_all2 by (rewrite (node_chunk_length (a_v6 (n_addr n))) by reflexivity; lia).
      cbn [skipn app]. apply IH; [assumption | assumption | cbn in Hfuel; lia]. }
  apply Hc. rewrite Nat.mul_comm. destruct (id_len + addr_len v6)%nat eqn:E; [contradiction|]. nia.
Qed.

(* rejection: a node string whose length is not a multiple of the entry size *)
Lemma dec_nodes_bad_length v6 s :
  Nat.modulo (length s) (id_len + addr_len v6) <> 0%nat -> dec_nodes v6 s = None.
Proof.
  intros H. unfold dec_nodes. destruct (Nat.eqb _ 0) eqn:E; [apply Nat.eqb_eq in E; contradiction | reflexivity].
Qed.

Lemma dec_addr_bad_length s : length s <> v4_len -> length s <> v6_len -> dec_addr s = None.
Proof.
  intros H4 H6. unfold dec_addr.
  destruct (Nat.eqb (length s) v4_len) eqn:E4; [apply Nat.eqb_eq in E4; contradiction|].
  destruct (Nat.eqb (length s) v6_len) eqn:E6; [apply Nat.eqb_eq in E6; contradiction|]. reflexivity.
Qed.

Lemma dec_id_bad_length s : length s <> id_len -> dec_id s = None.
Proof.
  intros H. unfold dec_id. destruct (Nat.eqb (length s) id_len) eqn:E; [apply Nat.eqb_eq in E; contradiction | reflexivity].
Qed.
