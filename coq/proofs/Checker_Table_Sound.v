(* Soundness of the executable routing-table checkers of run/Run_TableCheck.v:
   if c08_ok / c09_ok / c10_ok return None on (ops, obs), then at every checked position
   the Prop decided by each boolean clause holds.  Pure boolean reflection on the checker
   definitions; the table model is not involved. *)
From BT Require Import model.Prelude model.Table proofs.Prelude_Facts proofs.Checker_Table_Base run.Run_Table run.Run_TableCheck.
From Coq Require Import ZifyBool ZifyN ZifyNat Permutation.
Open Scope Z_scope.

(* ------------------------------------------------------------------ small helpers *)
Lemma is_live_true s : is_live s = true <-> st_of s <> 0%N.
Proof. unfold is_live. rewrite negb_true_iff, N.eqb_neq. tauto. Qed.

Lemma slot_eqb_eq x y : slot_eqb x y = true <-> x = y.
Proof.
  destruct x as [[s1 i1] a1], y as [[s2 i2] a2]. unfold slot_eqb. cbn [fst snd].
  rewrite !andb_true_iff, !N.eqb_eq, addr_eqb_eq. split.
  - intros [[-> ->] ->]. reflexivity.
  - intros E. inversion E. auto.
Qed.

Lemma dump_eqb_eq (a b : list (list slot)) : list_eqb (list_eqb slot_eqb) a b = true <-> a = b.
Proof. apply list_eqb_spec. intros x y. apply list_eqb_spec. apply slot_eqb_eq. Qed.

Lemma existsb_addr_In a l : existsb (addr_eqb a) l = true <-> In a l.
Proof.
  rewrite existsb_exists. split.
  - intros [y [Hy E]]. apply addr_eqb_eq in E. subst. exact Hy.
  - intros H. exists a. split; [exact H | apply addr_eqb_eq; reflexivity].
Qed.

Lemma existsb_addr_notIn a l : existsb (addr_eqb a) l = false <-> ~ In a l.
Proof. rewrite <- existsb_addr_In. symmetry. apply not_true_iff_false. Qed.

Definition as_slot1 (h : N * addr) : slot := (1%N, fst h, snd h).

Lemma hd_as_slot1 cl : map hd_s (map as_slot1 cl) = cl.
Proof.
  rewrite map_map. rewrite <- (map_id cl) at 2. apply map_ext. intros [i a]. reflexivity.
Qed.

(* ------------------------------------------------------------------ C09 *)
Definition c09_closest_spec (local : N) (d : list (list slot)) (target : N) (cl : list (N * addr)) : Prop :=
  length cl = length (live_of d)
  /\ NoDup cl
  /\ (forall h, In h cl -> exists x, In x (live_of d) /\ hd_s x = h)
  /\ (forall x, In x (live_of d) -> In (hd_s x) cl)
  /\ NoDup (map hd_s (live_of d))
  /\ Permutation cl (map hd_s (live_of d))
  /\ (forall x, In x (live_of d) -> (lcp local target < lcp (id_of x) target)%nat ->
        In (hd_s x)
           (firstn (length (filter (fun x => Nat.eqb (lcp local (id_of x)) (lcp local target)) (live_of d))) cl))
  /\ (length (filter (fun x => Nat.ltb (lcp local target) (lcp (id_of x) target)) (live_of d)) <= 8)%nat.

Theorem c09_closest_sound local d target cl :
  c09_closest local d target cl = true -> c09_closest_spec local d target cl.
Proof.
  unfold c09_closest, c09_closest_spec. cbv zeta. fold as_slot1.
  set (L := live_of d).
  rewrite !andb_true_iff. intros [[[[H1 H2] H3] H4] H5].
  apply Nat.eqb_eq in H1. rewrite map_length in H1.
  apply nodup_h_NoDup in H2. rewrite hd_as_slot1 in H2.
  rewrite forallb_forall in H3, H4. apply Nat.leb_le in H5.
  assert (Hin : forall h, In h cl -> In h (map hd_s L)).
  { intros h Hh. specialize (H3 (as_slot1 h) (in_map _ _ _ Hh)). apply existsb_same_h in H3.
    destruct h; exact H3. }
  assert (Hlen : (length (map hd_s L) <= length cl)%nat) by (rewrite map_length; lia).
  assert (Hback : incl (map hd_s L) cl) by (apply NoDup_length_incl; assumption).
  assert (HndL : NoDup (map hd_s L)) by (apply (@NoDup_incl_NoDup _ cl); assumption).
  split; [exact H1|]. split; [exact H2|].
  split. { intros h Hh. apply Hin, in_map_iff in Hh. destruct Hh as [x [E Hx]]. exists x. split; assumption. }
  split. { intros x Hx. apply Hback. apply in_map. exact Hx. }
  split; [exact HndL|].
  split. { apply NoDup_Permutation; [assumption | assumption|]. intros h. split; [apply Hin | apply Hback]. }
  split; [| exact H5].
  intros x Hx Hlt.
  assert (Hn : In x (filter (fun x => Nat.ltb (lcp local target) (lcp (id_of x) target)) L)).
  { apply filter_In. split; [exact Hx | apply Nat.ltb_lt; exact Hlt]. }
  specialize (H4 x Hn). apply existsb_same_h in H4.
  rewrite <- firstn_map, hd_as_slot1 in H4. exact H4.
Qed.

Lemma c09_check_step local o ops' x obs' i :
  c09_check local (o :: ops') (x :: obs') i = None ->
  c09_check local ops' obs' (i + 1)%N = None
  /\ (forall t target r d cl r', o = TDump t -> ops' = TClosest t target :: r ->
        x = ObDump d -> obs' = ObClosest cl :: r' -> c09_closest local d target cl = true).
Proof.
  intros H. split.
  - destruct o; try exact H. destruct ops' as [|[] ?]; try exact H.
    destruct x; try exact H. destruct obs' as [|[] ?]; try exact H.
    cbn [c09_check] in H. destruct (_ && _); [discriminate | exact H].
  - intros t target r d cl r' -> -> -> ->. cbn [c09_check] in H.
    rewrite Z.eqb_refl in H. cbn [andb] in H.
    destruct (c09_closest local d target cl); [reflexivity | discriminate].
Qed.

Lemma c09_check_sound local ops : forall obs i, c09_check local ops obs i = None ->
  forall k t target d cl,
    nth_error ops k = Some (TDump t) -> nth_error ops (S k) = Some (TClosest t target) ->
    nth_error obs k = Some (ObDump d) -> nth_error obs (S k) = Some (ObClosest cl) ->
    c09_closest_spec local d target cl.
Proof.
  induction ops as [|o ops' IH]; intros obs i H k t target d cl H1 H2 H3 H4.
  - destruct k; discriminate.
  - destruct obs as [|x obs']; [destruct k; discriminate|].
    apply c09_check_step in H. destruct H as [Hr Hc].
    destruct k as [|k].
    + cbn in H1, H2, H3, H4. injection H1 as ->. injection H3 as ->.
      destruct ops' as [|o1 r]; [discriminate|]. destruct obs' as [|x1 r']; [discriminate|].
      cbn in H2, H4. injection H2 as ->. injection H4 as ->.
      apply c09_closest_sound. eapply Hc; reflexivity.
    + eapply IH; [exact Hr | exact H1 | exact H2 | exact H3 | exact H4].
Qed.

Theorem c09_ok_sound local ops obs : c09_ok local ops obs = None ->
  forall k t target d cl,
    nth_error ops k = Some (TDump t) -> nth_error ops (S k) = Some (TClosest t target) ->
    nth_error obs k = Some (ObDump d) -> nth_error obs (S k) = Some (ObClosest cl) ->
    c09_closest_spec local d target cl.
Proof. unfold c09_ok. apply c09_check_sound. Qed.

(* ------------------------------------------------------------------ C08: shape of one dump *)
Definition c08_shape_spec (local : N) (routers : list addr) (d : list (list slot)) : Prop :=
  (1 <= length d <= 160)%nat
  /\ (forall b, In b d -> length b = 8%nat)
  /\ NoDup (map hd_s (live_of d))
  /\ (forall i b s, nth_error d i = Some b -> In s b -> is_live s = true ->
        id_of s <> local
        /\ ~ In (addr_of s) routers
        /\ ((i < length d - 1)%nat -> lcp local (id_of s) = i)
        /\ ((length d - 1 <= i)%nat -> (length d - 1 <= lcp local (id_of s))%nat)).

Lemma forallb_combine_seq {A} (f : nat * A -> bool) (d : list A) : forall a n,
  (length d <= n)%nat ->
  forallb f (combine (seq a n) d) = true ->
  forall i b, nth_error d i = Some b -> f ((a + i)%nat, b) = true.
Proof.
  induction d as [|x d IH]; intros a n Hn H i b Hi.
  - destruct i; discriminate.
  - destruct n as [|n]; [cbn in Hn; lia|]. cbn [seq combine forallb] in H.
    apply andb_true_iff in H as [H0 H]. destruct i as [|i].
    + cbn in Hi. injection Hi as <-. rewrite Nat.add_0_r. exact H0.
    + cbn in Hi. cbn [length] in Hn. replace (a + S i)%nat with (S a + i)%nat by lia.
      apply (IH (S a) n); [lia | exact H | exact Hi].
Qed.

Theorem c08_shape_sound local routers d :
  c08_shape local routers d = true -> c08_shape_spec local routers d.
Proof.
  unfold c08_shape, c08_shape_spec. cbv zeta.
  rewrite !andb_true_iff. intros [[[[H1 H2] H3] H4] H5].
  apply Nat.leb_le in H1, H2. rewrite forallb_forall in H3. apply nodup_h_NoDup in H4.
  split; [lia|]. split. { intros b Hb. apply Nat.eqb_eq, H3, Hb. }
  split; [exact H4|].
  intros i b s Hi Hs Hl.
  pose proof (forallb_combine_seq _ d 0%nat (length d) (le_n _) H5 i b Hi) as H.
  cbn [Nat.add fst snd] in H. rewrite forallb_forall in H. specialize (H s Hs).
  rewrite Hl in H. cbn [negb orb] in H. rewrite !andb_true_iff, !negb_true_iff in H.
  destruct H as [[Ha Hb] Hc]. apply N.eqb_neq in Ha. apply existsb_addr_notIn in Hb.
  split; [exact Ha|]. split; [exact Hb|].
  destruct (Nat.ltb i (length d - 1)) eqn:E.
  - apply Nat.ltb_lt in E. apply Nat.eqb_eq in Hc. split; [intros _; exact Hc | intros; lia].
  - apply Nat.ltb_ge in E. apply Nat.leb_le in Hc. split; [intros; lia | intros _; exact Hc].
Qed.

(* ------------------------------------------------------------------ C08: Dump ; Offer ; Dump *)
Definition c08_offer_spec (local : N) (routers : list addr) (before after : list (list slot))
           (good : bool) (id : N) (a : addr) : Prop :=
  let ns : N := if good then 2%N else 1%N in
  let B := live_of before in
  let A := live_of after in
  let lost := filter (fun s => negb (existsb (same_h s) A)) B in
  let len := length before in
  let idx := if Nat.ltb (lcp local id) len then lcp local id else (len - 1)%nat in
  let tb := nth idx before [] in
  (* 1: at most one node is lost *)
  (length lost <= 1)%nat
  (* 2: a lost node is strictly worse than the newcomer *)
  /\ (forall s, In s B -> ~ In (hd_s s) (map hd_s A) -> (st_of s < ns)%N)
  (* 3: the bucket of a lost node had no free / bad slot *)
  /\ (forall s, In s B -> ~ In (hd_s s) (map hd_s A) ->
        forall b, In b before -> In (hd_s s) (map hd_s (filter is_live b)) ->
        forall s', In s' b -> is_live s' = true)
  (* 4: nobody else changes standing *)
  /\ (forall s, In s B -> hd_s s <> (id, a) ->
        (forall s', List.find (same_h s) A = Some s' -> st_of s' = st_of s)
        /\ (List.find (same_h s) A = None -> ~ In (hd_s s) (map hd_s A)))
  (* 5: nobody but the offered handle appears *)
  /\ (forall s, In s A -> hd_s s <> (id, a) -> In (hd_s s) (map hd_s B))
  (* 6: an inadmissible offer changes nothing *)
  /\ (id = local \/ In a routers -> before = after)
  (* 7: a repeated offer loses nobody and never lowers the standing *)
  /\ (In (id, a) (map hd_s B) ->
        length lost = 0%nat
        /\ exists s s', List.find (same_h (ns, id, a)) B = Some s
                        /\ List.find (same_h (ns, id, a)) A = Some s'
                        /\ (st_of s <= st_of s')%N)
  (* 8: a full bucket of good nodes that cannot be split rejects a newcomer *)
  /\ (id <> local -> ~ In a routers -> ~ In (id, a) (map hd_s B) ->
        (forall s, In s tb -> st_of s = 2%N) -> can_split len idx = false -> before = after)
  (* 9: room or a worse node in the target bucket: the newcomer is accepted, with its standing *)
  /\ (id <> local -> ~ In a routers -> ~ In (id, a) (map hd_s B) ->
        (exists s, In s tb /\ (st_of s < ns)%N) ->
        exists s, In s A /\ hd_s s = (id, a) /\ st_of s = ns).

Lemma same_h_new s ns id a : same_h s (ns, id, a) = true <-> hd_s s = (id, a).
Proof. rewrite same_h_eq. reflexivity. Qed.

Lemma existsb_new_present ns id a l : existsb (same_h (ns, id, a)) l = true <-> In (id, a) (map hd_s l).
Proof. rewrite existsb_same_h. reflexivity. Qed.

Lemma in_lost_iff (A B : list slot) s :
  In s (filter (fun s => negb (existsb (same_h s) A)) B) <-> In s B /\ ~ In (hd_s s) (map hd_s A).
Proof. rewrite filter_In, negb_true_iff, existsb_same_h_false. tauto. Qed.

Lemma admissible_true local routers id a :
  negb (id =? local)%N && negb (existsb (addr_eqb a) routers) = true <-> id <> local /\ ~ In a routers.
Proof. rewrite andb_true_iff, !negb_true_iff, N.eqb_neq, existsb_addr_notIn. tauto. Qed.

Lemma admissible_false local routers id a :
  negb (id =? local)%N && negb (existsb (addr_eqb a) routers) = false <-> id = local \/ In a routers.
Proof.
  rewrite andb_false_iff, !negb_false_iff, N.eqb_eq, existsb_addr_In. tauto.
Qed.

Theorem c08_offer_sound local routers before after good id a :
  c08_offer local routers before after good id a = true ->
  c08_offer_spec local routers before after good id a.
Proof.
  unfold c08_offer, c08_offer_spec. cbv zeta.
  set (ns := if good then 2%N else 1%N).
  set (B := live_of before). set (A := live_of after).
  set (lost := filter (fun s => negb (existsb (same_h s) A)) B).
  set (len := length before).
  set (idx := if Nat.ltb (lcp local id) len then lcp local id else (len - 1)%nat).
  set (tb := nth idx before []).
  set (adm := negb (id =? local)%N && negb (existsb (addr_eqb a) routers)).
  set (present := existsb (same_h (ns, id, a)) B).
  rewrite !andb_true_iff. intros [[[[[[[[H1 H2] H3] H4] H5] H6] H7] H8] H9].
  apply Nat.leb_le in H1. rewrite forallb_forall in H2, H3, H4, H5.
  split; [exact H1|].
  split. { intros s Hs Hn. apply N.ltb_lt. apply H2. apply in_lost_iff. split; assumption. }
  split.
  { intros s Hs Hn b Hb Hin s' Hs'.
    assert (Hl : In s lost) by (apply in_lost_iff; split; assumption).
    specialize (H3 s Hl). rewrite forallb_forall in H3. specialize (H3 b Hb).
    apply existsb_same_h in Hin. rewrite Hin in H3. cbn [negb orb] in H3.
    apply negb_true_iff in H3. unfold has_bad in H3.
    destruct (is_live s') eqn:E; [reflexivity|]. exfalso.
    assert (X : existsb (fun s => negb (is_live s)) b = true).
    { apply existsb_exists. exists s'. split; [exact Hs' | rewrite E; reflexivity]. }
    congruence. }
  split.
  { intros s Hs Hne. specialize (H4 s Hs).
    assert (E : same_h s (ns, id, a) = false).
    { apply not_true_iff_false. intros X. apply same_h_new in X. contradiction. }
    rewrite E in H4. cbn [orb] in H4. split.
    - intros s' Hf. rewrite Hf in H4. apply N.eqb_eq. exact H4.
    - intros Hf. apply existsb_same_h_false. apply not_true_iff_false. intros X.
      apply existsb_exists in X. destruct X as [y [Hy Ey]].
      pose proof (find_none _ _ Hf y Hy). congruence. }
  split.
  { intros s Hs Hne. specialize (H5 s Hs).
    assert (E : same_h s (ns, id, a) = false).
    { apply not_true_iff_false. intros X. apply same_h_new in X. contradiction. }
    rewrite E in H5. cbn [orb] in H5. apply existsb_same_h. exact H5. }
  split.
  { intros Hin. apply admissible_false in Hin. fold adm in Hin. rewrite Hin in H6. cbn [orb] in H6.
    apply dump_eqb_eq. exact H6. }
  split.
  { intros Hp. apply existsb_new_present with (ns := ns) in Hp. fold present in Hp.
    rewrite Hp in H7. cbn [negb orb] in H7. apply andb_true_iff in H7 as [H7a H7b].
    apply Nat.eqb_eq in H7a. split; [exact H7a|].
    destruct (List.find (same_h (ns, id, a)) B) as [s|]; [|discriminate].
    destruct (List.find (same_h (ns, id, a)) A) as [s'|]; [|discriminate].
    exists s, s'. split; [reflexivity|]. split; [reflexivity|]. apply N.leb_le. exact H7b. }
  split.
  { intros Ha1 Ha2 Hnp Hall Hcs.
    assert (Eadm : adm = true) by (apply admissible_true; split; assumption).
    assert (Ep : present = false).
    { apply not_true_iff_false. intros X. apply existsb_new_present in X. contradiction. }
    assert (Et : forallb (fun s => (st_of s =? 2)%N) tb = true).
    { apply forallb_forall. intros s Hs. apply N.eqb_eq. apply Hall. exact Hs. }
    rewrite Eadm, Ep, Et, Hcs in H8. cbn [negb andb orb] in H8. apply dump_eqb_eq. exact H8. }
  intros Ha1 Ha2 Hnp [s [Hs Hlt]].
  assert (Eadm : adm = true) by (apply admissible_true; split; assumption).
  assert (Ep : present = false).
  { apply not_true_iff_false. intros X. apply existsb_new_present in X. contradiction. }
  assert (Et : existsb (fun s => (st_of s <? ns)%N) tb = true).
  { apply existsb_exists. exists s. split; [exact Hs | apply N.ltb_lt; exact Hlt]. }
  rewrite Eadm, Ep, Et in H9. cbn [negb andb orb] in H9.
  apply existsb_exists in H9. destruct H9 as [y [Hy Ey]]. apply andb_true_iff in Ey as [E1 E2].
  exists y. split; [exact Hy|]. split; [apply same_h_new in E1; exact E1 | apply N.eqb_eq; exact E2].
Qed.

(* ------------------------------------------------------------------ C08: the whole trace *)
Definition router_acc (acc : list addr) (o : rtop) : list addr :=
  match o with TRouter a => a :: acc | _ => acc end.

(* the router addresses announced among the first k operations, newest first *)
Definition routers_from (R : list addr) (ops : list rtop) (k : nat) : list addr :=
  fold_left router_acc (firstn k ops) R.
Definition routers_before (ops : list rtop) (k : nat) : list addr := routers_from [] ops k.

Lemma routers_from_S R o ops k : routers_from R (o :: ops) (S k) = routers_from (router_acc R o) ops k.
Proof. reflexivity. Qed.

Lemma c08_check_dump local R t ops' d obs' i :
  c08_check local R (TDump t :: ops') (ObDump d :: obs') i = None ->
  c08_shape local R d = true
  /\ c08_check local R ops' obs' (i + 1)%N = None
  /\ (forall good id a r x d' r', ops' = TOffer t good id a :: TDump t :: r ->
        obs' = x :: ObDump d' :: r' -> c08_offer local R d d' good id a = true).
Proof.
  intros H. cbn [c08_check] in H.
  destruct (c08_shape local R d); cbn [negb] in H; [|discriminate].
  split; [reflexivity|]. split.
  - destruct ops' as [|[] [|[] ?]]; try exact H;
      destruct obs' as [|? [|[] ?]]; try exact H;
      try (destruct (_ && _); try discriminate; exact H).
  - intros good id a r x d' r' -> ->. rewrite !Z.eqb_refl in H. cbn [andb] in H.
    destruct (c08_offer local R d d' good id a); [reflexivity | discriminate].
Qed.

Lemma c08_check_step local R o ops' x obs' i :
  c08_check local R (o :: ops') (x :: obs') i = None ->
  c08_check local (router_acc R o) ops' obs' (i + 1)%N = None.
Proof.
  intros H. destruct o; try exact H.
  destruct x; try exact H. apply c08_check_dump in H. apply H.
Qed.

Lemma c08_check_sound local ops : forall R obs i, c08_check local R ops obs i = None ->
  (length ops <= length obs)%nat
  /\ (forall k t d, nth_error ops k = Some (TDump t) -> nth_error obs k = Some (ObDump d) ->
        c08_shape_spec local (routers_from R ops k) d)
  /\ (forall k t good id a d d',
        nth_error ops k = Some (TDump t) -> nth_error ops (S k) = Some (TOffer t good id a) ->
        nth_error ops (S (S k)) = Some (TDump t) ->
        nth_error obs k = Some (ObDump d) -> nth_error obs (S (S k)) = Some (ObDump d') ->
        c08_offer_spec local (routers_from R ops k) d d' good id a).
Proof.
  induction ops as [|o ops' IH]; intros R obs i H.
  - split; [cbn; lia|]. split; intros k; destruct k; discriminate.
  - destruct obs as [|x obs']; [destruct o; discriminate H|].
    pose proof (c08_check_step _ _ _ _ _ _ _ H) as Hr.
    destruct (IH _ _ _ Hr) as [IH1 [IH2 IH3]].
    split; [cbn [length]; lia|]. split.
    + intros k t d H1 H2. destruct k as [|k].
      * cbn in H1, H2. injection H1 as ->. injection H2 as ->.
        apply c08_check_dump in H. apply c08_shape_sound. apply H.
      * rewrite routers_from_S. eapply IH2; [exact H1 | exact H2].
    + intros k t good id a d d' H1 H2 H3 H4 H5. destruct k as [|k].
      * cbn in H1, H4. injection H1 as ->. injection H4 as ->.
        apply c08_check_dump in H. destruct H as [_ [_ Hc]].
        destruct ops' as [|o1 [|o2 r]]; try discriminate.
        destruct obs' as [|x1 [|x2 r']]; try discriminate.
        cbn in H2, H3, H5. injection H2 as ->. injection H3 as ->. injection H5 as ->.
        apply c08_offer_sound. eapply Hc; reflexivity.
      * rewrite routers_from_S. eapply IH3; [exact H1 | exact H2 | exact H3 | exact H4 | exact H5].
Qed.

Theorem c08_ok_sound local ops obs : c08_ok local ops obs = None ->
  (length ops <= length obs)%nat
  /\ (forall k t d, nth_error ops k = Some (TDump t) -> nth_error obs k = Some (ObDump d) ->
        c08_shape_spec local (routers_before ops k) d)
  /\ (forall k t good id a d d',
        nth_error ops k = Some (TDump t) -> nth_error ops (S k) = Some (TOffer t good id a) ->
        nth_error ops (S (S k)) = Some (TDump t) ->
        nth_error obs k = Some (ObDump d) -> nth_error obs (S (S k)) = Some (ObDump d') ->
        c08_offer_spec local (routers_before ops k) d d' good id a).
Proof. unfold c08_ok, routers_before. apply c08_check_sound. Qed.

(* ------------------------------------------------------------------ C10: one dump against the history *)
Definition c10_dump_spec (h : hist) (now : Z) (d : list (list slot)) : Prop :=
  forall s, In s (live_of d) ->
    (st_of s = 2%N ->
       exists e, In e h
                 /\ fst (fst (fst e)) = id_of s /\ snd (fst (fst e)) = addr_of s
                 /\ (ev_kind e = 0%N \/ ev_kind e = 2%N)
                 /\ now - ev_time e < min15)
    /\ two_unanswered h (id_of s) (addr_of s) = false.

Lemma h_eqb_true id a e : h_eqb id a e = true <-> fst (fst (fst e)) = id /\ snd (fst (fst e)) = a.
Proof. unfold h_eqb. rewrite andb_true_iff, N.eqb_eq, addr_eqb_eq. tauto. Qed.

Lemma recent_contact_true h id a now : recent_contact h id a now = true <->
  exists e, In e h /\ fst (fst (fst e)) = id /\ snd (fst (fst e)) = a
            /\ (ev_kind e = 0%N \/ ev_kind e = 2%N) /\ now - ev_time e < min15.
Proof.
  unfold recent_contact. rewrite existsb_exists. split.
  - intros [e [He H]]. rewrite !andb_true_iff, orb_true_iff, h_eqb_true, !N.eqb_eq, Z.ltb_lt in H.
    exists e. tauto.
  - intros [e [He H]]. exists e. split; [exact He|].
    rewrite !andb_true_iff, orb_true_iff, h_eqb_true, !N.eqb_eq, Z.ltb_lt. tauto.
Qed.

Theorem c10_dump_sound h now d : c10_dump h now d = true -> c10_dump_spec h now d.
Proof.
  unfold c10_dump, c10_dump_spec. cbv zeta. rewrite andb_true_iff, !forallb_forall.
  intros [H1 H2] s Hs. split.
  - intros E. specialize (H1 s Hs). apply N.eqb_eq in E. rewrite E in H1. cbn [negb orb] in H1.
    apply recent_contact_true. exact H1.
  - apply negb_true_iff. apply H2. exact Hs.
Qed.

(* ------------------------------------------------------------------ C10: the whole trace *)
(* how c10_check extends the history on one (operation, observation) pair *)
Definition c10_hist_step (h : hist) (o : rtop) (x : rtobs) : hist :=
  match o, x with
  | TOffer t good id a, _ => (id, a, t, if good then 0%N else 1%N) :: h
  | TAddNodes t id a named, _ => map (fun x => (fst x, snd x, t, 1%N)) (rev named) ++ (id, a, t, 0%N) :: h
  | TRreq t id a, ObFound true => (id, a, t, 2%N) :: h
  | TLreq t id a, ObFound true => (id, a, t, 3%N) :: h
  | _, _ => h
  end.

Definition c10_hist_from (h : hist) (ops : list rtop) (obs : list rtobs) (k : nat) : hist :=
  fold_left (fun h p => c10_hist_step h (fst p) (snd p)) (firstn k (combine ops obs)) h.
(* the history accumulated by the first k (operation, observation) pairs, newest first *)
Definition c10_hist (ops : list rtop) (obs : list rtobs) (k : nat) : hist := c10_hist_from [] ops obs k.

Lemma c10_hist_from_S h o ops x obs k :
  c10_hist_from h (o :: ops) (x :: obs) (S k) = c10_hist_from (c10_hist_step h o x) ops obs k.
Proof. reflexivity. Qed.

Lemma c10_check_step h o ops' x obs' i :
  c10_check h (o :: ops') (x :: obs') i = None ->
  c10_check (c10_hist_step h o x) ops' obs' (i + 1)%N = None.
Proof.
  intros H. destruct o; try exact H.
  - (* TOffer *)
    cbn [c10_check] in H. cbn [c10_hist_step].
    destruct ops' as [|[] ?]; try exact H; destruct obs' as [|[] ?]; try exact H.
    destruct (_ && _); [discriminate | exact H].
  - (* TLreq *) destruct x; exact H.
  - (* TRreq *) destruct x; exact H.
  - (* TDump *) destruct x; try exact H. cbn [c10_check] in H. cbn [c10_hist_step].
    destruct (c10_dump h t l); [exact H | discriminate].
Qed.

Lemma c10_check_dump h t ops' d obs' i :
  c10_check h (TDump t :: ops') (ObDump d :: obs') i = None -> c10_dump h t d = true.
Proof. cbn [c10_check]. destruct (c10_dump h t d); [reflexivity | discriminate]. Qed.

Lemma c10_check_offer h t id a r x d r' i :
  c10_check h (TOffer t true id a :: TDump t :: r) (x :: ObDump d :: r') i = None ->
  forall s, In s (live_of d) -> hd_s s = (id, a) -> st_of s = 2%N.
Proof.
  intros H s Hs Hh. cbn [c10_check] in H. rewrite Z.eqb_refl in H. cbn [andb] in H.
  destruct (existsb _ (live_of d)) eqn:E; [discriminate|].
  rewrite <- not_true_iff_false, existsb_exists in E.
  destruct (N.eq_dec (st_of s) 2) as [Y|N]; [exact Y|]. exfalso. apply E. exists s.
  split; [exact Hs|]. apply andb_true_iff. split.
  - apply same_h_eq. exact Hh.
  - apply negb_true_iff, N.eqb_neq. exact N.
Qed.

Lemma c10_check_sound ops : forall h obs i, c10_check h ops obs i = None ->
  (forall k t d, nth_error ops k = Some (TDump t) -> nth_error obs k = Some (ObDump d) ->
     c10_dump_spec (c10_hist_from h ops obs k) t d)
  /\ (forall k t id a d,
        nth_error ops k = Some (TOffer t true id a) -> nth_error ops (S k) = Some (TDump t) ->
        nth_error obs (S k) = Some (ObDump d) -> (k < length obs)%nat ->
        forall s, In s (live_of d) -> hd_s s = (id, a) -> st_of s = 2%N).
Proof.
  induction ops as [|o ops' IH]; intros h obs i H.
  - split; intros k; destruct k; discriminate.
  - destruct obs as [|x obs'].
    { split; intros k; destruct k; discriminate. }
    pose proof (c10_check_step _ _ _ _ _ _ H) as Hr.
    destruct (IH _ _ _ Hr) as [IH1 IH2]. split.
    + intros k t d H1 H2. destruct k as [|k].
      * cbn in H1, H2. injection H1 as ->. injection H2 as ->.
        apply c10_dump_sound. eapply c10_check_dump. exact H.
      * rewrite c10_hist_from_S. eapply IH1; [exact H1 | exact H2].
    + intros k t id a d H1 H2 H3 Hk. destruct k as [|k].
      * cbn in H1. injection H1 as ->.
        destruct ops' as [|o1 r]; [discriminate|]. destruct obs' as [|x1 r']; [discriminate|].
        cbn in H2, H3. injection H2 as ->. injection H3 as ->.
        eapply c10_check_offer. exact H.
      * eapply IH2; [exact H1 | exact H2 | exact H3 | cbn [length] in Hk; lia].
Qed.

Theorem c10_ok_sound ops obs : c10_ok ops obs = None ->
  (forall k t d, nth_error ops k = Some (TDump t) -> nth_error obs k = Some (ObDump d) ->
     c10_dump_spec (c10_hist ops obs k) t d)
  /\ (forall k t id a d,
        nth_error ops k = Some (TOffer t true id a) -> nth_error ops (S k) = Some (TDump t) ->
        nth_error obs (S k) = Some (ObDump d) -> (k < length obs)%nat ->
        forall s, In s (live_of d) -> hd_s s = (id, a) -> st_of s = 2%N).
Proof. unfold c10_ok, c10_hist. apply c10_check_sound. Qed.
