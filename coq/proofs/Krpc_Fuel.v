(* The fuel given to the decoder by [run_lib] is always enough: the out-of-fuel outcome
   [Oof] never occurs, so [decode_msg b = None] always means that the library (or precheck)
   reported an error.  Every recursive function consumes at least one token per unit of fuel. *)
From BT Require Import model.Prelude model.Krpc proofs.Prelude_Facts proofs.Bencode_Facts proofs.Krpc_Safety.
From Coq Require Import ZifyBool ZifyN ZifyNat.

(* [nf m k]: started with at most [k] unread bytes, [m] does not run out of fuel and does not
   lengthen the unread input *)
Definition nf {A} (m : M A) (k : nat) : Prop :=
  forall st st' r, (length (s_in st) <= k)%nat -> m st = (st', r) ->
    r <> Oof /\ (length (s_in st') <= length (s_in st))%nat.

Lemma nf_ret {A} (a : A) k : nf (ret a) k.
Proof. intros st st' r _ H. inversion H; subst. split; [discriminate | lia]. Qed.
Lemma nf_fail {A} k : nf (@fail A) k.
Proof. intros st st' r _ H. inversion H; subst. split; [discriminate | lia]. Qed.
Lemma nf_lift {A} (o : option A) k : nf (lift o) k.
Proof. destruct o; [apply nf_ret | apply nf_fail]. Qed.
Lemma nf_enter d k : nf (enter d) k.
Proof. intros st st' r _ H. inversion H; subst. split; [discriminate | cbn; lia]. Qed.

Lemma nf_mono {A} (m : M A) k k' : (k' <= k)%nat -> nf m k -> nf m k'.
Proof. intros Hle H st st' r Hl. apply H. lia. Qed.

Lemma nf_bind {A C} (m : M A) (f : A -> M C) k : nf m k -> (forall a, nf (f a) k) -> nf (bind m f) k.
Proof.
  intros Hm Hf st st' r Hl H. unfold bind in H.
  destruct (m st) as [s1 [a| |]] eqn:E.
  - destruct (Hm _ _ _ Hl E) as [_ H1]. destruct (Hf a s1 st' r ltac:(lia) H) as [H2 H3]. split; [exact H2 | lia].
  - inversion H; subst. destruct (Hm _ _ _ Hl E) as [_ H1]. split; [discriminate | exact H1].
  - destruct (Hm _ _ _ Hl E) as [H1 _]. congruence.
Qed.

Lemma nf_ext {A} (m m' : M A) k : (forall s, m s = m' s) -> nf m k -> nf m' k.
Proof. intros E H st st' r Hl Hr. rewrite <- E in Hr. eapply H; eassumption. Qed.

(* the token reader: never out of fuel; a successful read shortens the input *)
Lemma tok_len st st' r : tok st = (st', r) ->
  r <> Oof /\ match r with Ok _ => (length (s_in st') < length (s_in st))%nat | _ => s_in st' = s_in st end.
Proof.
  intros H. apply tok_spec in H as [_ [_ Hr]]. destruct r as [t| |].
  - split; [discriminate|]. destruct Hr as [Hn _]. apply lnext_length. exact Hn.
  - split; [discriminate | exact Hr].
  - destruct Hr.
Qed.

Lemma nf_tok k : nf tok k.
Proof.
  intros st st' r _ H. apply tok_len in H as [H1 H2]. split; [exact H1|].
  destruct r; [lia | rewrite H2; lia | congruence].
Qed.

(* after a token has been read there is one byte less *)
Lemma nf_tok_bind {C} (f : token -> M C) k : ((1 <= k)%nat -> forall t, nf (f t) (k - 1)) -> nf (bind tok f) k.
Proof.
  intros Hf st st' r Hl H. unfold bind in H.
  destruct (tok st) as [s1 [t| |]] eqn:E; apply tok_len in E as [E1 E2].
  - assert (Hk : (1 <= k)%nat) by lia.
    destruct (Hf Hk t s1 st' r ltac:(lia) H) as [H2 H3]. split; [exact H2 | lia].
  - inversion H; subst. split; [discriminate | rewrite E2; lia].
  - congruence.
Qed.

(* ---- the generic value reader ---- *)
Lemma nf_any_all : forall fuel,
  (forall d t k, (2 * k + 2 <= fuel)%nat -> nf (any_from fuel d t) k) /\
  (forall d k, (2 * k + 1 <= fuel)%nat -> nf (any_list fuel d) k) /\
  (forall d k, (2 * k + 1 <= fuel)%nat -> nf (any_map fuel d) k).
Proof.
  induction fuel as [|fuel [IHf [IHl IHm]]]; [repeat split; intros; lia|].
  split; [|split].
  - intros d t k Hk. cbn [any_from]. destruct t; try apply nf_ret; try apply nf_fail.
    + apply nf_bind; [apply nf_enter|]. intros _. apply nf_bind; [apply IHl; lia | intros; apply nf_ret].
    + apply nf_bind; [apply nf_enter|]. intros _. apply nf_bind; [apply IHm; lia | intros; apply nf_ret].
  - intros d k Hk. cbn [any_list]. apply nf_tok_bind. intros Hk1 t.
    assert (Hgo : nf (x <- any_from fuel d t ;; xs <- any_list fuel d ;; ret (x :: xs)) (k - 1)).
    { apply nf_bind; [apply IHf; lia|]. intros x. apply nf_bind; [apply IHl; lia | intros; apply nf_ret]. }
    destruct t; try exact Hgo. apply nf_ret.
  - intros d k Hk. cbn [any_map]. apply nf_tok_bind. intros Hk1 t.
    assert (Hgo : nf (k0 <- any_from fuel d t ;; tv <- tok ;; v <- any_from fuel d tv ;; xs <- any_map fuel d ;;
                      ret ((k0, v) :: xs)) (k - 1)).
    { apply nf_bind; [apply IHf; lia|]. intros x. apply nf_bind; [apply nf_tok|]. intros tv.
      apply nf_bind; [apply IHf; lia|]. intros v. apply nf_bind; [apply IHm; lia | intros; apply nf_ret]. }
    destruct t; try exact Hgo. apply nf_ret.
Qed.

Lemma nf_any F d k : (2 * k + 2 <= F)%nat -> nf (any F d) k.
Proof. intros H. unfold any. apply nf_bind; [apply nf_tok|]. intros t. apply (proj1 (nf_any_all F)). exact H. Qed.

Lemma nf_any_from F d t k : (2 * k + 2 <= F)%nat -> nf (any_from F d t) k.
Proof. apply (proj1 (nf_any_all F)). Qed.

(* ---- the structured part ---- *)
Lemma nf_u8_loop : forall fuel k, (k < fuel)%nat -> nf (u8_loop fuel) k.
Proof.
  induction fuel as [|fuel IH]; intros k Hk; [lia|]. cbn [u8_loop].
  apply nf_tok_bind. intros Hk1 t. destruct t; try apply nf_fail; [|apply nf_ret].
  destruct (_ && _); [|apply nf_fail]. apply nf_bind; [apply IH; lia | intros; apply nf_ret].
Qed.

Lemma nf_bytes_from F d t k : (k < F)%nat -> nf (bytes_from F d t) k.
Proof.
  intros Hk. destruct t; cbn [bytes_from]; try apply nf_fail; [apply nf_ret|].
  apply nf_bind; [apply nf_enter | intros; apply nf_u8_loop; exact Hk].
Qed.

Lemma nf_id_from F d t k : (k < F)%nat -> nf (id_from F d t) k.
Proof. intros Hk. apply nf_bind; [apply nf_bytes_from; exact Hk | intros; apply nf_lift]. Qed.

Lemma nf_str_from t k : nf (str_from t) k.
Proof. destruct t; cbn [str_from]; try apply nf_fail. destruct (utf8_valid s); [apply nf_ret | apply nf_fail]. Qed.

Lemma nf_enum_from {A} (vs : list (bytes * A)) t k : nf (enum_from vs t) k.
Proof.
  assert (Hp : forall s, nf (match find (fun kv => bytes_eqb s (fst kv)) vs with Some kv => ret (snd kv) | None => fail end) k).
  { intros s. destruct (find (fun kv => bytes_eqb s (fst kv)) vs); [apply nf_ret | apply nf_fail]. }
  destruct t; cbn [enum_from]; try apply nf_fail; [apply Hp|].
  apply nf_bind; [apply nf_tok|]. intros t'. destruct t'; try apply nf_fail. apply Hp.
Qed.

Lemma nf_values_loop F d : forall fuel k, (k < fuel)%nat -> (k < F)%nat -> nf (values_loop fuel F d) k.
Proof.
  induction fuel as [|fuel IH]; intros k Hk HF; [lia|]. cbn [values_loop].
  apply nf_tok_bind. intros Hk1 t.
  assert (Hgo : nf (s <- bytes_from F d t ;; a <- lift (dec_addr s) ;; r <- values_loop fuel F d ;; ret (a :: r)) (k - 1)).
  { apply nf_bind; [apply nf_bytes_from; lia|]. intros s. apply nf_bind; [apply nf_lift|]. intros a.
    apply nf_bind; [apply IH; lia | intros; apply nf_ret]. }
  destruct t; try exact Hgo. apply nf_ret.
Qed.

Lemma nf_values_from F d t k : (k < F)%nat -> nf (values_from F d t) k.
Proof.
  intros Hk. destruct t; cbn [values_from]; try apply nf_fail.
  apply nf_bind; [apply nf_enter | intros; apply nf_values_loop; exact Hk].
Qed.

Lemma nf_nodes_from v6 F d t k : (k < F)%nat -> nf (nodes_from v6 F d t) k.
Proof. intros Hk. apply nf_bind; [apply nf_bytes_from; exact Hk | intros; apply nf_lift]. Qed.

Lemma nf_resp_map_loop F d : forall fuel acc k, (k < fuel)%nat -> (2 * k + 4 <= F)%nat -> nf (resp_map_loop fuel F d acc) k.
Proof.
  induction fuel as [|fuel IH]; intros acc k Hk HF; [lia|]. cbn [resp_map_loop].
  apply nf_tok_bind. intros Hk1 tk.
  assert (Hgo : nf (k0 <- str_from tk ;;
      if bytes_eqb k0 k_id then
        if is_some (ra_id acc) then fail
        else t <- tok ;; x <- id_from F d t ;;
             resp_map_loop fuel F d (mkRA (Some x) (ra_values acc) (ra_nodes acc) (ra_nodes6 acc) (ra_token acc))
      else if bytes_eqb k0 k_values then
        if is_some (ra_values acc) then fail
        else t <- tok ;; x <- values_from F d t ;;
             resp_map_loop fuel F d (mkRA (ra_id acc) (Some x) (ra_nodes acc) (ra_nodes6 acc) (ra_token acc))
      else if bytes_eqb k0 k_nodes then
        if is_some (ra_nodes acc) then fail
        else t <- tok ;; x <- nodes_from false F d t ;;
             resp_map_loop fuel F d (mkRA (ra_id acc) (ra_values acc) (Some x) (ra_nodes6 acc) (ra_token acc))
      else if bytes_eqb k0 k_nodes6 then
        if is_some (ra_nodes6 acc) then fail
        else t <- tok ;; x <- nodes_from true F d t ;;
             resp_map_loop fuel F d (mkRA (ra_id acc) (ra_values acc) (ra_nodes acc) (Some x) (ra_token acc))
      else if bytes_eqb k0 k_token then
        if is_some (ra_token acc) then fail
        else t <- tok ;; x <- bytes_from F d t ;;
             resp_map_loop fuel F d (mkRA (ra_id acc) (ra_values acc) (ra_nodes acc) (ra_nodes6 acc) (Some x))
      else any F d ;;; resp_map_loop fuel F d acc) (k - 1)).
  { apply nf_bind; [apply nf_str_from|]. intros k0.
    repeat match goal with
           | |- nf (if ?b then _ else _) _ => destruct b
           | |- nf fail _ => apply nf_fail
           end.
    - apply nf_bind; [apply nf_tok|]. intros t. apply nf_bind; [apply nf_id_from; lia | intros; apply IH; lia].
    - apply nf_bind; [apply nf_tok|]. intros t. apply nf_bind; [apply nf_values_from; lia | intros; apply IH; lia].
    - apply nf_bind; [apply nf_tok|]. intros t. apply nf_bind; [apply nf_nodes_from; lia | intros; apply IH; lia].
    - apply nf_bind; [apply nf_tok|]. intros t. apply nf_bind; [apply nf_nodes_from; lia | intros; apply IH; lia].
    - apply nf_bind; [apply nf_tok|]. intros t. apply nf_bind; [apply nf_bytes_from; lia | intros; apply IH; lia].
    - apply nf_bind; [apply nf_any; lia | intros; apply IH; lia]. }
  destruct tk; try exact Hgo; try apply nf_ret.
Qed.

Lemma nf_resp_finish acc k : nf (resp_finish acc) k.
Proof. unfold resp_finish. destruct (ra_id acc); [apply nf_ret | apply nf_fail]. Qed.

Lemma nf_resp_seq F d k : (k < F)%nat -> nf (resp_seq F d) k.
Proof.
  intros HF. unfold resp_seq. apply nf_bind; [apply nf_tok|]. intros t1.
  assert (Hgo : nf (x <- id_from F d t1 ;;
      t2 <- tok ;; vs <- (match t2 with TEnd => ret [] | _ => values_from F d t2 end) ;;
      t3 <- tok ;; n4 <- (match t3 with TEnd => ret [] | _ => nodes_from false F d t3 end) ;;
      t4 <- tok ;; n6 <- (match t4 with TEnd => ret [] | _ => nodes_from true F d t4 end) ;;
      t5 <- tok ;; tk <- (match t5 with TEnd => ret None | _ => s <- bytes_from F d t5 ;; ret (Some s) end) ;;
      ret (mkResp x vs n4 n6 tk)) k).
  { apply nf_bind; [apply nf_id_from; lia|]. intros x.
    apply nf_bind; [apply nf_tok|]. intros t2.
    apply nf_bind; [destruct t2; try apply nf_ret; apply nf_values_from; lia|]. intros vs.
    apply nf_bind; [apply nf_tok|]. intros t3.
    apply nf_bind; [destruct t3; try apply nf_ret; apply nf_nodes_from; lia|]. intros n4.
    apply nf_bind; [apply nf_tok|]. intros t4.
    apply nf_bind; [destruct t4; try apply nf_ret; apply nf_nodes_from; lia|]. intros n6.
    apply nf_bind; [apply nf_tok|]. intros t5.
    apply nf_bind; [|intros; apply nf_ret].
    destruct t5; try apply nf_ret; (apply nf_bind; [apply nf_bytes_from; lia | intros; apply nf_ret]). }
  destruct t1; try exact Hgo; try apply nf_fail.
Qed.

Lemma nf_resp_from F d t k : (2 * k + 4 <= F)%nat -> nf (resp_from F d t) k.
Proof.
  intros HF. destruct t; cbn [resp_from]; try apply nf_fail.
  - apply nf_bind; [apply nf_enter|]. intros _. apply nf_resp_seq. lia.
  - apply nf_bind; [apply nf_enter|]. intros _.
    apply nf_bind; [apply nf_resp_map_loop; lia | intros; apply nf_resp_finish].
Qed.

Lemma nf_err_from F d t k : (2 * k + 4 <= F)%nat -> nf (err_from F d t) k.
Proof.
  intros HF. destruct t; cbn [err_from]; try apply nf_fail.
  apply nf_bind; [apply nf_enter|]. intros _.
  apply nf_bind; [apply nf_tok|]. intros t1.
  apply nf_bind.
  { destruct t1; try apply nf_fail. destruct (_ && _); [apply nf_ret | apply nf_fail]. }
  intros c. apply nf_bind; [apply nf_tok|]. intros t2.
  apply nf_bind; [destruct t2; try apply nf_fail; apply nf_str_from|]. intros m.
  apply nf_bind; [apply nf_tok|]. intros t3.
  destruct t3; try apply nf_ret; (apply nf_bind; [apply nf_any_from; lia | intros; apply nf_fail]).
Qed.

Lemma nf_request_from F d t k : (2 * k + 4 <= F)%nat -> nf (request_from F d t) k.
Proof. intros HF. unfold request_from. apply nf_bind; [apply nf_any_from; lia | intros; apply nf_lift]. Qed.

Lemma nf_raw_map_loop F : forall fuel acc k, (k < fuel)%nat -> (2 * k + 4 <= F)%nat -> nf (raw_map_loop fuel F acc) k.
Proof.
  induction fuel as [|fuel IH]; intros acc k Hk HF; [lia|]. cbn [raw_map_loop].
  apply nf_tok_bind. intros Hk1 tk.
  assert (Hgo : nf (k0 <- str_from tk ;;
      if bytes_eqb k0 k_t then
        if is_some (w_t acc) then fail
        else t <- tok ;; x <- bytes_from F 1 t ;;
             raw_map_loop fuel F (mkRaw (Some x) (w_y acc) (w_q acc) (w_a acc) (w_r acc) (w_e acc))
      else if bytes_eqb k0 k_y then
        if is_some (w_y acc) then fail
        else t <- tok ;; x <- enum_from mtype_variants t ;;
             raw_map_loop fuel F (mkRaw (w_t acc) (Some x) (w_q acc) (w_a acc) (w_r acc) (w_e acc))
      else if bytes_eqb k0 k_q then
        if is_some (w_q acc) then fail
        else t <- tok ;; x <- enum_from rtype_variants t ;;
             raw_map_loop fuel F (mkRaw (w_t acc) (w_y acc) (Some x) (w_a acc) (w_r acc) (w_e acc))
      else if bytes_eqb k0 k_a then
        if is_some (w_a acc) then fail
        else t <- tok ;; x <- request_from F 1 t ;;
             raw_map_loop fuel F (mkRaw (w_t acc) (w_y acc) (w_q acc) (Some x) (w_r acc) (w_e acc))
      else if bytes_eqb k0 k_r then
        if is_some (w_r acc) then fail
        else t <- tok ;; x <- resp_from F 1 t ;;
             raw_map_loop fuel F (mkRaw (w_t acc) (w_y acc) (w_q acc) (w_a acc) (Some x) (w_e acc))
      else if bytes_eqb k0 k_e then
        if is_some (w_e acc) then fail
        else t <- tok ;; x <- err_from F 1 t ;;
             raw_map_loop fuel F (mkRaw (w_t acc) (w_y acc) (w_q acc) (w_a acc) (w_r acc) (Some x))
      else any F 1 ;;; raw_map_loop fuel F acc) (k - 1)).
  { apply nf_bind; [apply nf_str_from|]. intros k0.
    repeat match goal with
           | |- nf (if ?b then _ else _) _ => destruct b
           | |- nf fail _ => apply nf_fail
           end.
    - apply nf_bind; [apply nf_tok|]. intros t. apply nf_bind; [apply nf_bytes_from; lia | intros; apply IH; lia].
    - apply nf_bind; [apply nf_tok|]. intros t. apply nf_bind; [apply nf_enum_from | intros; apply IH; lia].
    - apply nf_bind; [apply nf_tok|]. intros t. apply nf_bind; [apply nf_enum_from | intros; apply IH; lia].
    - apply nf_bind; [apply nf_tok|]. intros t. apply nf_bind; [apply nf_request_from; lia | intros; apply IH; lia].
    - apply nf_bind; [apply nf_tok|]. intros t. apply nf_bind; [apply nf_resp_from; lia | intros; apply IH; lia].
    - apply nf_bind; [apply nf_tok|]. intros t. apply nf_bind; [apply nf_err_from; lia | intros; apply IH; lia].
    - apply nf_bind; [apply nf_any; lia | intros; apply IH; lia]. }
  destruct tk; try exact Hgo; try apply nf_ret.
Qed.

Lemma nf_elem {A} (p : token -> M A) k : (forall t, nf (p t) k) -> nf (elem p) k.
Proof.
  intros Hp. unfold elem. apply nf_bind; [apply nf_tok|]. intros t. destruct t; try apply Hp. apply nf_fail.
Qed.

Lemma nf_raw_seq F k : (2 * k + 4 <= F)%nat -> nf (raw_seq F) k.
Proof.
  intros HF. unfold raw_seq.
  apply nf_bind; [apply nf_elem; intros; apply nf_bytes_from; lia|]. intros t.
  apply nf_bind; [apply nf_elem; intros; apply nf_enum_from|]. intros y.
  apply nf_bind; [apply nf_elem; intros; apply nf_enum_from|]. intros q.
  apply nf_bind; [apply nf_elem; intros; apply nf_request_from; lia|]. intros a.
  apply nf_bind; [apply nf_elem; intros; apply nf_resp_from; lia|]. intros r.
  apply nf_bind; [apply nf_elem; intros; apply nf_err_from; lia|]. intros e.
  apply nf_ret.
Qed.

Lemma nf_message F k : (2 * k + 4 <= F)%nat -> nf (message F) k.
Proof.
  intros HF. unfold message. apply nf_bind; [apply nf_tok|]. intros t. destruct t; try apply nf_fail.
  - apply nf_bind; [apply nf_enter|]. intros _. apply nf_bind; [apply nf_raw_seq; exact HF | intros; apply nf_lift].
  - apply nf_bind; [apply nf_enter|]. intros _.
    apply nf_bind; [apply nf_raw_map_loop; lia | intros; apply nf_lift].
Qed.

(* the library, run as [run_lib] runs it, never runs out of fuel *)
Theorem run_lib_never_oof b : snd (run_lib b) <> Oof.
Proof.
  unfold run_lib. destruct (message (fuel_for (length b)) (init_st b)) as [s r] eqn:E. cbn [snd].
  refine (proj1 (nf_message (fuel_for (length b)) (length b) _ _ _ _ _ E)); [unfold fuel_for; lia | unfold init_st; cbn [s_in]; lia].
Qed.

(* ... so a [None] of the decoder is an error reported by precheck or by the library *)
Theorem decode_none_is_error b :
  decode_msg b = None ->
  precheck b = None \/ exists e s, precheck b = Some e /\ run_lib (firstn e b) = (s, Fail).
Proof.
  unfold decode_msg, decode_instr. destruct (precheck b) as [e|]; [|auto]. intros H. right.
  unfold lib_decode in H. pose proof (run_lib_never_oof (firstn e b)) as Hn.
  destruct (run_lib (firstn e b)) as [s r] eqn:E. cbn [snd] in Hn. destruct r; cbn in H; [discriminate | | congruence].
  exists e, s. split; [reflexivity | exact E].
Qed.
