(* C02: the candidate list of a search stays sorted by XOR distance (the code's binary search),
   so the announce targets are the closest token holders; the stream gets exactly the values. *)
From BT Require Import model.Prelude gen.Consts model.Compact model.Krpc model.Token model.Storage model.Table model.Txn model.Handler.
From BT Require Import proofs.Prelude_Facts proofs.Handler_Facts.
From Coq Require Import ZifyBool ZifyN ZifyNat Sorting.Sorted.
Open Scope N_scope.

Definition cand := (N * handle * bool)%type.
Definition cdist (c : cand) : N := fst (fst c).
Definition dflt : cand := (0, (0, mkAddr false 0 0), false).

(* sorted by distance, non-decreasing, as an index property *)
Definition sorted (l : list cand) : Prop :=
  forall i j, (i <= j)%nat -> (j < length l)%nat -> cdist (nth i l dflt) <= cdist (nth j l dflt).

Lemma sorted_nil : sorted [].
Proof. intros i j _ H. cbn in H. lia. Qed.

(* the loop of the branch-free binary search *)
Lemma bs_loop_inv l d : sorted l -> forall fuel base size,
  (1 <= size)%nat -> (base + size <= length l)%nat -> (size <= S fuel)%nat ->
  (base = 0%nat \/ cdist (nth base l dflt) <= d) ->
  (forall j, (base + size <= j)%nat -> (j < length l)%nat -> d < cdist (nth j l dflt)) ->
  let b := bs_loop fuel l d base size in
  (b < length l)%nat /\ (b = 0%nat \/ cdist (nth b l dflt) <= d) /\
  (forall j, (b < j)%nat -> (j < length l)%nat -> d < cdist (nth j l dflt)).
Proof.
  intros Hs. induction fuel as [|f IH]; intros base size H1 H2 Hf Hlo Hhi; cbn [bs_loop].
  - assert (size = 1%nat) by lia. subst size. split; [lia|]. split; [exact Hlo|].
    intros j Hj Hl. apply Hhi; lia.
  - destruct (Nat.leb_spec size 1) as [Hle|Hgt].
    + assert (size = 1%nat) by lia. subst size. split; [lia|]. split; [exact Hlo|]. intros j Hj Hl. apply Hhi; lia.
    + set (half := Nat.div size 2). set (mid := (base + half)%nat).
      assert (Hh : (1 <= half)%nat /\ (2 * half <= size)%nat).
      { unfold half. pose proof (Nat.div_mod size 2 ltac:(lia)). pose proof (Nat.mod_upper_bound size 2 ltac:(lia)).
        split; [|lia]. destruct (Nat.div size 2) eqn:E; lia. }
      fold dflt.
      change (fst (fst (nth mid l dflt))) with (cdist (nth mid l dflt)).
      destruct (N.ltb_spec d (cdist (nth mid l dflt))) as [Hgtm|Hlem].
      * (* l[mid] > d: keep base, shrink from above *)
        apply IH; [lia | lia | lia | exact Hlo|].
        intros j Hj Hl. eapply N.lt_le_trans; [exact Hgtm|]. apply Hs; lia.
      * (* l[mid] <= d: move base to mid *)
        apply IH; [lia | unfold mid; lia | lia | right; exact Hlem|].
        intros j Hj Hl. apply Hhi; unfold mid in *; lia.
Qed.

Definition bs_result (l : list cand) (d : N) (b : nat) : nat * bool :=
  if (cdist (nth b l dflt) =? d)%N then (b, true)
  else ((b + (if (cdist (nth b l dflt) <? d)%N then 1%nat else 0%nat))%nat, false).

Definition bs_ok (l : list cand) (d : N) (res : nat * bool) : Prop :=
  (fst res <= length l)%nat /\
  (forall j, (j < fst res)%nat -> cdist (nth j l dflt) <= d) /\
  (forall j, (fst res <= j)%nat -> (j < length l)%nat -> d <= cdist (nth j l dflt)) /\
  (snd res = true -> (fst res < length l)%nat /\ cdist (nth (fst res) l dflt) = d).

Lemma bs_result_spec l d b : sorted l -> (b < length l)%nat ->
  (b = 0%nat \/ cdist (nth b l dflt) <= d) ->
  (forall j, (b < j)%nat -> (j < length l)%nat -> d < cdist (nth j l dflt)) ->
  bs_ok l d (bs_result l d b).
Proof.
  intros Hs Hb Hlo Hhi. unfold bs_result, bs_ok.
  destruct (N.eqb_spec (cdist (nth b l dflt)) d) as [E|E]; cbn [fst snd].
  - split; [lia|]. split; [intros j Hj; rewrite <- E; apply Hs; lia|].
    split; [intros j Hj Hl; rewrite <- E; apply Hs; lia | intros _; split; [exact Hb | exact E]].
  - destruct (N.ltb_spec (cdist (nth b l dflt)) d) as [L|L]; cbn [fst snd].
    + split; [lia|]. split.
      * intros j Hj. eapply N.le_trans; [apply (Hs j b); lia | lia].
      * split; [|discriminate]. intros j Hj Hl. pose proof (Hhi j ltac:(lia) Hl). lia.
    + rewrite Nat.add_0_r. destruct Hlo as [H0|H0]; [|lia].
      split; [lia|]. split; [intros j Hj; lia|]. split; [|discriminate].
      intros j Hj Hl. subst b. eapply N.le_trans; [|apply (Hs 0%nat j); lia]. lia.
Qed.

Lemma binary_search_spec l d : sorted l -> bs_ok l d (binary_search l d).
Proof.
  intros Hs. destruct l as [|x r].
  - unfold bs_ok. cbn. repeat split; intros; try lia; discriminate.
  - change (binary_search (x :: r) d) with (bs_result (x :: r) d (bs_loop (length (x :: r)) (x :: r) d 0 (length (x :: r)))).
    assert (Hlen : (1 <= length (x :: r))%nat) by (cbn; lia).
    pose proof (bs_loop_inv (x :: r) d Hs (length (x :: r)) 0 (length (x :: r)) Hlen ltac:(lia) ltac:(lia) (or_introl eq_refl)
                  ltac:(intros j Hj Hl; lia)) as Hinv.
    cbv zeta in Hinv. destruct Hinv as [Hb [Hlo Hhi]].
    apply bs_result_spec; assumption.
Qed.

Lemma nth_insert_at {A} (d0 : A) x : forall i l j, (i <= length l)%nat ->
  nth j (insert_at i x l) d0 = if Nat.ltb j i then nth j l d0 else if Nat.eqb j i then x else nth (j - 1) l d0.
Proof.
  induction i as [|i IH]; intros l j Hi.
  - cbn [insert_at]. destruct j as [|j]; cbn; [reflexivity | rewrite Nat.sub_0_r; reflexivity].
  - destruct l as [|y l]; [cbn in Hi; lia|]. cbn [insert_at]. destruct j as [|j]; [reflexivity|].
    cbn [nth]. rewrite IH by (cbn in Hi; lia).
    destruct (Nat.ltb_spec j i); destruct (Nat.ltb_spec (S j) (S i)); try lia; [reflexivity|].
    destruct (Nat.eqb_spec j i); destruct (Nat.eqb_spec (S j) (S i)); try lia; [reflexivity|].
    destruct j as [|j]; [lia|]. cbn. rewrite Nat.sub_0_r. reflexivity.
Qed.

Lemma insert_at_length {A} (x : A) : forall i l, (i <= length l)%nat -> length (insert_at i x l) = S (length l).
Proof.
  induction i as [|i IH]; intros l Hi; [reflexivity|].
  destruct l as [|y l]; [cbn in Hi; lia|]. cbn. rewrite IH by (cbn in Hi; lia). reflexivity.
Qed.

(* insert_sorted_node keeps the candidate list sorted by distance to the target *)
Theorem insert_sorted_sorted l target h pinged : sorted l -> sorted (insert_sorted l target h pinged).
Proof.
  intros Hs. unfold insert_sorted. generalize (N.lxor target (fst h)) as d. intros d.
  pose proof (binary_search_spec l d Hs) as Hb. unfold bs_ok in Hb. destruct (binary_search l d) as [i found]. cbn [fst snd] in Hb.
  destruct Hb as [Hi [Hlo [Hhi Hf]]].
  assert (Hins : sorted (insert_at i (d, h, pinged) l)).
  { intros a b Hab Hb. rewrite insert_at_length in Hb by exact Hi.
    rewrite !nth_insert_at by exact Hi.
    destruct (Nat.ltb_spec a i); destruct (Nat.ltb_spec b i); try lia.
    - apply Hs; lia.
    - destruct (Nat.eqb_spec b i); [change (cdist (d, h, pinged)) with d; apply Hlo; lia|].
      eapply N.le_trans; [apply Hlo; lia | apply Hhi; lia].
    - destruct (Nat.eqb_spec a i); destruct (Nat.eqb_spec b i); try lia.
      + change (cdist (d, h, pinged)) with d. apply Hhi; lia.
      + apply Hs; lia. }
  destruct found; [|exact Hins].
  destruct (handle_eqb _ h); [exact Hs | exact Hins].
Qed.

Lemma fold_insert_sorted_gen {A} target (g : A -> handle) (f : A -> bool) : forall xs l, sorted l ->
  sorted (fold_left (fun l a => insert_sorted l target (g a) (f a)) xs l).
Proof. induction xs as [|h r IH]; intros l H; cbn [fold_left]; [exact H | apply IH, insert_sorted_sorted, H]. Qed.

Lemma fold_insert_sorted target f : forall hs l, sorted l ->
  sorted (fold_left (fun l h => insert_sorted l target h (f h)) hs l).
Proof. apply (fold_insert_sorted_gen target (fun h => h) f). Qed.

(* filtering and taking a prefix of a sorted list: the kept elements are the closest ones *)
Lemma sorted_cons_inv x l : sorted (x :: l) -> sorted l /\ forall y, In y l -> cdist x <= cdist y.
Proof.
  intros H. split.
  - intros i j Hij Hj. apply (H (S i) (S j)); cbn; lia.
  - intros y Hy. apply (In_nth _ _ dflt) in Hy as [k [Hk <-]]. apply (H 0%nat (S k)); cbn; lia.
Qed.

Lemma sorted_filter_firstn (p : cand -> bool) n : forall l, sorted l ->
  forall x y, In x (firstn n (filter p l)) -> In y (filter p l) -> ~ In y (firstn n (filter p l)) ->
  cdist x <= cdist y.
Proof.
  intros l Hs. 
  assert (G : forall l', sorted l' -> forall n x y, In x (firstn n l') -> In y l' -> ~ In y (firstn n l') -> cdist x <= cdist y).
  { clear. induction l' as [|z l' IH]; intros Hs n x y Hx Hy Hn; [destruct Hy|].
    destruct n as [|n]; [destruct Hx|]. cbn [firstn] in *.
    destruct (sorted_cons_inv _ _ Hs) as [Hs' Hz].
    destruct Hy as [<-|Hy]; [exfalso; apply Hn; left; reflexivity|].
    destruct Hx as [<-|Hx]; [apply Hz, Hy|].
    apply (IH Hs' n x y Hx Hy). intros H. apply Hn. right. exact H. }
  assert (Hf : sorted (filter p l)).
  { clear - Hs. induction l as [|z l IH]; cbn; [apply sorted_nil|].
    destruct (sorted_cons_inv _ _ Hs) as [Hs' Hz]. specialize (IH Hs').
    destruct (p z); [|exact IH].
    intros i j Hij Hj. destruct i as [|i]; destruct j as [|j]; cbn [nth]; try lia.
    - apply Hz. cbn in Hj. assert (In (nth j (filter p l) dflt) (filter p l)) by (apply nth_In; lia).
      apply filter_In in H as [H _]. exact H.
    - apply IH; cbn in Hj; lia. }
  intros x y. apply (G _ Hf n).
Qed.

(* ------------------------------------------------------------------ every search keeps its candidates sorted *)
Definition ckey (c : cand) : N * handle := (cdist c, snd (fst c)).

Lemma sorted_flags (l l' : list cand) : map ckey l' = map ckey l -> sorted l -> sorted l'.
Proof.
  intros E Hs i j Hij Hj.
  assert (Hl : length l' = length l) by (rewrite <- (map_length ckey l'), E, map_length; reflexivity).
  assert (G : forall k, cdist (nth k l' dflt) = cdist (nth k l dflt)).
  { intros k. pose proof (f_equal (fun m => nth k m (ckey dflt)) E) as F. cbv beta in F.
    rewrite !map_nth in F. apply (f_equal fst) in F. exact F. }
  rewrite !G. apply Hs; lia.
Qed.

Section SortedInv.
  Variable I : ids.
  Variable sendok : nat -> bool.
  Variable own : N.
  Variable now : Z.

  Lemma request_round_sorted : forall nodes lk c sent,
    lk_sorted (fst (fst (request_round I sendok own now nodes lk c sent))) = lk_sorted lk.
  Proof.
    induction nodes as [|[h d] r IH]; intros lk c sent; cbn [request_round]; [reflexivity|].
    destruct (gen_tid I lk) as [tid lk1] eqn:Eg. unfold gen_tid in Eg. inversion Eg; subst.
    destruct (schedule_in _ _ _ _) as [tm key]. destruct (send _ _ _ _) as [c2 ok].
    destruct ok; rewrite IH; reflexivity.
  Qed.

  Lemma start_request_round_sorted nodes lk c :
    lk_sorted (fst (start_request_round I sendok own now nodes lk c)) = lk_sorted lk.
  Proof.
    unfold start_request_round. pose proof (request_round_sorted nodes lk c O) as X.
    destruct (request_round I sendok own now nodes lk c 0) as [[lk' c'] sent]. cbn [fst] in *.
    destruct (Nat.eqb sent 0); cbn; exact X.
  Qed.

  Lemma endgame_sends_keys : forall todo key lk c,
    map ckey (fst (fst (endgame_sends I sendok own now todo key lk c))) = map ckey todo.
  Proof.
    induction todo as [|[[d h] q] r IH]; intros key lk c; cbn [endgame_sends]; [reflexivity|].
    destruct q.
    - specialize (IH key lk c). destruct (endgame_sends I sendok own now r key lk c) as [[r' lk'] c']. cbn [fst map] in *.
      rewrite IH. reflexivity.
    - destruct (gen_tid I lk) as [tid lk1]. destruct (send _ _ _ _) as [c1 ok]. destruct ok.
      + match goal with |- context [endgame_sends I sendok own now r key ?l ?cc] =>
          pose proof (IH key l cc) as X; destruct (endgame_sends I sendok own now r key l cc) as [[r' lk'] c'] end.
        cbn [fst map] in *. rewrite X. reflexivity.
      + match goal with |- context [endgame_sends I sendok own now r key ?l ?cc] =>
          pose proof (IH key l cc) as X; destruct (endgame_sends I sendok own now r key l cc) as [[r' lk'] c'] end.
        cbn [fst map] in *. rewrite X. reflexivity.
  Qed.

  Lemma start_endgame_sorted lk c : sorted (lk_sorted lk) -> sorted (lk_sorted (fst (start_endgame I sendok own now lk c))).
  Proof.
    intros Hs. unfold start_endgame. destruct (gen_tid I lk) as [tid lk1] eqn:Eg. unfold gen_tid in Eg. inversion Eg; subst.
    destruct (schedule_in _ _ _ _) as [tm key].
    match goal with |- context [endgame_sends I sendok own now ?t key ?l ?cc] =>
      pose proof (endgame_sends_keys t key l cc) as X; destruct (endgame_sends I sendok own now t key l cc) as [[r' lk'] c'] end.
    cbn [fst lk_sorted] in *. eapply sorted_flags; [exact X | exact Hs].
  Qed.

  Lemma rr_accept_sorted lk from tid r v6 d : sorted (lk_sorted lk) ->
    sorted (lk_sorted (fst (fst (rr_accept lk from tid r v6 d)))).
  Proof.
    intros Hs. unfold rr_accept. cbn [fst lk_sorted]. apply fold_insert_sorted.
    destruct (r_token r); exact Hs.
  Qed.

  Lemma rr_continue_sorted lk2 c0 it nd : sorted (lk_sorted lk2) ->
    sorted (lk_sorted (fst (rr_continue I sendok own now lk2 c0 it nd))).
  Proof.
    intros Hs. unfold rr_continue. destruct (lk_endgame lk2); [exact Hs|].
    destruct it as [it|].
    - pose proof (start_request_round_sorted (map (fun h => (h, nd)) (used_slots it)) lk2 c0) as X.
      destruct (start_request_round I sendok own now _ lk2 c0) as [lk' c']. cbn [fst] in X.
      destruct (lk_active lk'); [apply start_endgame_sorted | cbn [fst]]; rewrite X; exact Hs.
    - destruct (lk_active lk2); [apply start_endgame_sorted|]; exact Hs.
  Qed.

  Lemma recv_response_sorted lk c from tid r v6 : sorted (lk_sorted lk) ->
    sorted (lk_sorted (fst (recv_response I sendok own now lk c from tid r v6))).
  Proof.
    intros Hs. unfold recv_response.
    destruct (List.find (fun e => bytes_eqb (fst e) tid) (lk_active lk)) as [[t0 [dist key]]|]; [|exact Hs].
    pose proof (rr_accept_sorted lk from tid r v6 dist Hs) as X1.
    destruct (rr_accept lk from tid r v6 dist) as [[lk2 it] nd]. cbn [fst] in X1.
    match goal with |- context [rr_continue I sendok own now lk2 ?cc it nd] =>
      pose proof (rr_continue_sorted lk2 cc it nd X1) as X2; destruct (rr_continue I sendok own now lk2 cc it nd) as [lk3 c1] end.
    exact X2.
  Qed.

  Lemma recv_timeout_sorted lk c tid : sorted (lk_sorted lk) ->
    sorted (lk_sorted (fst (recv_timeout I sendok own now lk c tid))).
  Proof.
    intros Hs. unfold recv_timeout.
    match goal with |- context [if ?b then _ else _] => destruct b end; [|exact Hs].
    match goal with |- context [if ?b then _ else _] => destruct b end; [apply start_endgame_sorted|]; exact Hs.
  Qed.

  Lemma lookup_new_sorted act target an c : sorted (lk_sorted (fst (lookup_new I sendok own now act target an c))).
  Proof.
    unfold lookup_new. rewrite start_request_round_sorted. cbn [lk_sorted].
    set (good := firstn bucket_size _).
    set (srt := fold_left _ good []).
    assert (Hs : sorted srt) by (unfold srt; apply (fold_insert_sorted_gen target (fun n => (nd_id n, nd_addr n)) (fun _ => false)), sorted_nil).
    eapply sorted_flags; [|exact Hs].
    rewrite map_app, map_map.
    transitivity (map ckey (firstn initial_pick srt) ++ map ckey (skipn initial_pick srt)).
    - f_equal.
    - rewrite <- map_app, firstn_skipn. reflexivity.
  Qed.

  (* the announce targets are the closest token holders the search knows *)
  Theorem announce_targets_closest lk : sorted (lk_sorted lk) ->
    let holders := filter (fun e => existsb (fun t => handle_eqb (fst t) (snd (fst e))) (lk_tokens lk)) (lk_sorted lk) in
    forall x y, In x (firstn announce_pick holders) -> In y holders -> ~ In y (firstn announce_pick holders) ->
    cdist x <= cdist y.
  Proof. intros Hs holders x y. apply sorted_filter_firstn, Hs. Qed.
End SortedInv.

(* an accepted response puts exactly its values on the stream, in order, once per occurrence *)
Lemma recv_response_yields_exact I sendok own now lk c from tid r v6 v :
  List.find (fun e => bytes_eqb (fst e) tid) (lk_active lk) = Some v ->
  exists l, cx_out (snd (recv_response I sendok own now lk c from tid r v6))
            = rev (map (OYield (lk_act lk)) (r_values r)) ++ l ++ cx_out c /\
            forallb is_query_send l = true.
Proof.
  intros Hf. unfold recv_response. rewrite Hf. destruct v as [t0 [dist key]].
  set (c0 := if lk_endgame lk then c else _).
  assert (X0 : ext c c0) by (unfold c0; destruct (lk_endgame lk); [apply ext_refl | apply cancel_ext]).
  pose proof (rr_accept_act lk from tid r v6 dist) as A1.
  destruct (rr_accept lk from tid r v6 dist) as [[lk2 iterate] nd]. cbn [fst] in A1.
  pose proof (rr_continue_ext I sendok own now lk2 c0 iterate nd) as XB.
  pose proof (rr_continue_act I sendok own now lk2 c0 iterate nd) as A2.
  destruct (rr_continue I sendok own now lk2 c0 iterate nd) as [lk3 c1]. cbn [snd fst] in *.
  pose proof (ext_trans _ _ _ X0 XB) as [[l [E F]] _].
  exists l. cbn [cx_out]. rewrite E. split; [|exact F]. rewrite A2, A1. reflexivity.
Qed.
